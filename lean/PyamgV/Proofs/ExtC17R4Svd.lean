import PyamgV.Model.ExtC17R4Svd
import PyamgV.Proofs.ExtC17R4Fit
import PyamgV.Proofs.ExtC17SafeBlock

/-! PyamgV (C17, extension E32, round 4): bounds-safety and termination of the `Ck` models of `dot_prod`, `norm`,
`transpose`, `svd_jacobi` and `pinv_array` (`Model/ExtC17R4Svd.lean`).  All indices are products of a loop counter and a
dimension plus an offset below the dimension (`idx_lt`); the sweep loop of `svd_jacobi` is bounded by its own counter. -/
namespace PyamgV.C17R4
open PyamgV.Ck PyamgV.C17

set_option linter.unusedSectionVars false
set_option linter.unusedVariables false

variable {α : Type} [Inhabited α]

/-! ### the strided loop with an iteration-indexed invariant -/

theorem whileLt_safe_idx {σ : Type} (Inv : Nat → σ → Prop) (s e step : Int) (hstep : 0 < step) (body : Int → σ → Ck σ)
    (hbody : ∀ t : Nat, s + (t : Int) * step < e → ∀ st, Inv t st → Safe (body (s + (t : Int) * step) st) (Inv (t + 1))) :
    ∀ (fuel : Nat) (t : Nat) (st : Ck σ), Safe st (Inv t) → (e - (s + (t : Int) * step)).toNat ≤ fuel →
      ∃ r, whileLt e step body fuel (s + (t : Int) * step) st = some r ∧ Safe r (fun x => ∃ t', Inv t' x) := by
  intro fuel
  induction fuel with
  | zero =>
    intro t st hst hf
    have : ¬ s + (t : Int) * step < e := by omega
    exact ⟨st, by unfold whileLt; rw [if_neg this], Safe.mono hst (fun x h => ⟨t, h⟩)⟩
  | succ f ih =>
    intro t st hst hf
    unfold whileLt
    by_cases hlt : s + (t : Int) * step < e
    · rw [if_pos hlt]
      have e1 : s + (t : Int) * step + step = s + ((t + 1 : Nat) : Int) * step := by push_cast; ring
      rw [e1]
      refine ih (t + 1) _ (Safe.bind hst (fun a ha => hbody t hlt a ha)) ?_
      rw [← e1]; omega
    · rw [if_neg hlt]; exact ⟨st, rfl, Safe.mono hst (fun x h => ⟨t, h⟩)⟩

theorem forStep_safe_idx {σ : Type} [Inhabited σ] (Inv : Nat → σ → Prop) (s e step : Int) (hstep : 0 < step) (init : σ)
    (body : Int → σ → Ck σ) (h0 : Inv 0 init)
    (hbody : ∀ t : Nat, s + (t : Int) * step < e → ∀ st, Inv t st → Safe (body (s + (t : Int) * step) st) (Inv (t + 1))) :
    Safe (forStep s e step init body) (fun x => ∃ t, Inv t x) := by
  unfold forStep
  apply orFault_safe
  have h := whileLt_safe_idx Inv s e step hstep body hbody (e - s).toNat 0 (pure init) (Safe.pure h0) (by simp)
  simpa using h

/-- a loop that does not move (`step = 0` never happens in the kernels for a non-empty range) or an empty range -/
theorem forStep_empty {σ : Type} [Inhabited σ] (Inv : σ → Prop) (s e step : Int) (hse : e ≤ s) (init : σ)
    (body : Int → σ → Ck σ) (h0 : Inv init) : Safe (forStep s e step init body) Inv := by
  unfold forStep
  have : (e - s).toNat = 0 := by omega
  rw [this]
  unfold whileLt
  rw [if_neg (by omega)]
  exact Safe.pure h0

/-! ### `dot_prod`, `norm` -/

theorem dotProd_safe (o : SvOps α) (x : Array α) (xo : Int) (y : Array α) (yo : Int) (n : Int) (hx0 : 0 ≤ xo)
    (hx : xo + n ≤ (x.size : Int)) (hy0 : 0 ≤ yo) (hy : yo + n ≤ (y.size : Int)) :
    Safe (dotProd o x xo y yo n) (fun _ => True) := by
  unfold dotProd
  apply forRange_safe (fun _ => True) _ _ _ _ trivial
  intro i i0 i1 s _
  refine Safe.bind (rd_ok x _ (by omega) (by omega)) (fun _ _ => ?_)
  exact Safe.bind (rd_ok y _ (by omega) (by omega)) (fun _ _ => Safe.pure trivial)

theorem normAt_safe (o : SvOps α) (x : Array α) (xo n : Int) (hx0 : 0 ≤ xo) (hx : xo + n ≤ (x.size : Int)) :
    Safe (normAt o x xo n) (fun _ => True) := by
  unfold normAt
  exact Safe.bind (dotProd_safe o x xo x xo n hx0 hx hx0 hx) (fun _ _ => Safe.pure trivial)

/-! ### `transpose` -/

theorem cp_safe (ax : Array α) (ao : Int) (bx : Array α) (bo : Int) (N : Int) (ha0 : 0 ≤ ao) (ha : ao + N ≤ (ax.size : Int))
    (hb0 : 0 ≤ bo) (bi ai : Int) (hbi : 0 ≤ bi ∧ bi < N) (hai : 0 ≤ ai ∧ ai < N) (b : Array α) (hb : b.size = bx.size)
    (hbs : bo + N ≤ (bx.size : Int)) :
    Safe (do let a ← rd ax (ao + ai); wr b (bo + bi) a) (fun b' => b'.size = bx.size) := by
  refine Safe.bind (rd_ok ax _ (by omega) (by omega)) (fun a _ => ?_)
  exact Safe.mono (wr_ok b _ a (by omega) (by rw [hb]; omega)) (fun b' h => by rw [h, hb])

/-- **`transpose`** of an `m × n` block at offset `ao` of `Ax` into offset `bo` of `Bx`, every branch -/
theorem transposeM_safe (ax : Array α) (ao : Int) (bx : Array α) (bo : Int) (m n : Nat) (ha0 : 0 ≤ ao)
    (ha : ao + (m : Int) * (n : Int) ≤ (ax.size : Int)) (hb0 : 0 ≤ bo) (hb : bo + (m : Int) * (n : Int) ≤ (bx.size : Int)) :
    Safe (transposeM ax ao bx bo (m : Int) (n : Int)) (fun b' => b'.size = bx.size) := by
  have cp := fun (bi ai : Int) (hbi : 0 ≤ bi ∧ bi < (m : Int) * (n : Int)) (hai : 0 ≤ ai ∧ ai < (m : Int) * (n : Int))
      (b : Array α) (hbb : b.size = bx.size) =>
    cp_safe ax ao bx bo ((m : Int) * (n : Int)) ha0 ha hb0 bi ai hbi hai b hbb hb
  unfold transposeM
  simp only
  by_cases h1 : (m : Int) = 1 ∧ (n : Int) = 1
  · rw [if_pos h1]
    have e : (m : Int) * (n : Int) = 1 := by rw [h1.1, h1.2]; rfl
    exact cp 0 0 (by omega) (by omega) bx rfl
  rw [if_neg h1]
  by_cases h2 : (m : Int) = 2 ∧ (n : Int) = 2
  · rw [if_pos h2]
    have e : (m : Int) * (n : Int) = 4 := by rw [h2.1, h2.2]; rfl
    refine Safe.bind (cp 0 0 (by omega) (by omega) bx rfl) (fun b1 hb1 => ?_)
    refine Safe.bind (cp 1 2 (by omega) (by omega) b1 hb1) (fun b2 hb2 => ?_)
    refine Safe.bind (cp 2 1 (by omega) (by omega) b2 hb2) (fun b3 hb3 => ?_)
    exact cp 3 3 (by omega) (by omega) b3 hb3
  rw [if_neg h2]
  by_cases h3 : (m : Int) = 3 ∧ (n : Int) = 3
  · rw [if_pos h3]
    have e : (m : Int) * (n : Int) = 9 := by rw [h3.1, h3.2]; rfl
    refine Safe.bind (cp 0 0 (by omega) (by omega) bx rfl) (fun b1 hb1 => ?_)
    refine Safe.bind (cp 1 3 (by omega) (by omega) b1 hb1) (fun b2 hb2 => ?_)
    refine Safe.bind (cp 2 6 (by omega) (by omega) b2 hb2) (fun b3 hb3 => ?_)
    refine Safe.bind (cp 3 1 (by omega) (by omega) b3 hb3) (fun b4 hb4 => ?_)
    refine Safe.bind (cp 4 4 (by omega) (by omega) b4 hb4) (fun b5 hb5 => ?_)
    refine Safe.bind (cp 5 7 (by omega) (by omega) b5 hb5) (fun b6 hb6 => ?_)
    refine Safe.bind (cp 6 2 (by omega) (by omega) b6 hb6) (fun b7 hb7 => ?_)
    refine Safe.bind (cp 7 5 (by omega) (by omega) b7 hb7) (fun b8 hb8 => ?_)
    exact cp 8 8 (by omega) (by omega) b8 hb8
  rw [if_neg h3]
  by_cases h4 : (m : Int) = (n : Int) ∧ (m : Int) < 11
  · rw [if_pos h4]
    have hmn : (n : Int) = (m : Int) := h4.1.symm
    refine Safe.bind (P := fun r : Array α × Int => r.1.size = bx.size) ?_ (fun r hr => Safe.pure hr)
    by_cases hm0 : (m : Int) = 0
    · refine forStep_empty (fun r : Array α × Int => r.1.size = bx.size) _ _ _ ?_ _ _ rfl
      rw [hm0]; decide
    · refine Safe.mono (forStep_safe_idx (fun (t : Nat) (r : Array α × Int) => r.1.size = bx.size ∧ r.2 = (t : Int))
        0 ((m : Int) * (m : Int)) (m : Int) (by omega) _ _ ⟨rfl, rfl⟩ ?_) (fun r h => by obtain ⟨t, ht⟩ := h; exact ht.1)
      intro t ht st hst
      have ht' : (t : Int) * (m : Int) < (m : Int) * (m : Int) := by omega
      have htm : (t : Int) < (m : Int) := by
        by_contra hh
        have : (m : Int) * (m : Int) ≤ (t : Int) * (m : Int) := Int.mul_le_mul_of_nonneg_right (by omega) (by omega)
        omega
      by_cases h44 : 4 ≤ (m : Int)
      · rw [if_pos h44]
        refine Safe.bind (P := fun b : Array α => b.size = bx.size) ?_
          (fun b hbb => Safe.pure ⟨hbb, by show st.2 + 1 = ((t + 1 : Nat) : Int); rw [hst.2]; push_cast; rfl⟩)
        apply forRange_safe (fun b : Array α => b.size = bx.size) _ _ _ _ hst.1
        intro u u0 u1 b hbb
        have i1 := idx_lt (i := (t : Int)) (j := u) (A := (m : Int)) (B := (m : Int)) (by omega) htm u0 u1
        have i2 := idx_lt (i := u) (j := (t : Int)) (A := (m : Int)) (B := (m : Int)) u0 u1 (by omega) htm
        rw [hmn] at cp
        refine cp (0 + (t : Int) * (m : Int) + u) (st.2 + u * (m : Int)) (by omega) (by rw [hst.2]; omega) b hbb
      · rw [if_neg h44]
        exact Safe.pure ⟨hst.1, by show st.2 + 1 = ((t + 1 : Nat) : Int); rw [hst.2]; push_cast; rfl⟩
  rw [if_neg h4]
  refine Safe.bind (P := fun r : Array α × Int => r.1.size = bx.size) ?_ (fun r hr => Safe.pure hr)
  refine Safe.mono (forRange_safe_idx (fun (i : Int) (r : Array α × Int) => r.1.size = bx.size ∧ r.2 = i * (m : Int))
    0 (n : Int) (by omega) _ _ ⟨rfl, by simp⟩ ?_) (fun r h => h.1)
  intro i i0 i1 st hst
  refine Safe.bind (P := fun r : Array α × Int × Int => r.1.size = bx.size ∧ r.2.1 = i * (m : Int) + (m : Int)) ?_
    (fun r hr => Safe.pure ⟨hr.1, by show r.2.1 = (i + 1) * (m : Int); rw [hr.2]; ring⟩)
  refine Safe.mono (forRange_safe_idx
    (fun (j : Int) (r : Array α × Int × Int) => r.1.size = bx.size ∧ r.2.1 = i * (m : Int) + j ∧ r.2.2 = i + j * (n : Int))
    0 (m : Int) (by omega) _ _ ⟨hst.1, by show st.2 = i * (m : Int) + 0; rw [hst.2]; ring, by simp⟩ ?_)
    (fun r h => ⟨h.1, h.2.1⟩)
  intro j j0 j1 s hs
  have i3 := idx_lt (i := i) (j := j) (A := (n : Int)) (B := (m : Int)) i0 i1 j0 j1
  have i4 := idx_lt (i := j) (j := i) (A := (m : Int)) (B := (n : Int)) j0 j1 i0 i1
  have e5 : (n : Int) * (m : Int) = (m : Int) * (n : Int) := Int.mul_comm _ _
  refine Safe.bind (cp s.2.1 s.2.2 (by rw [hs.2.1]; omega) (by rw [hs.2.2]; omega) s.1 hs.1) (fun b hbb => ?_)
  exact Safe.pure ⟨hbb, by show s.2.1 + 1 = i * (m : Int) + (j + 1); rw [hs.2.1]; ring,
    by show s.2.2 + (n : Int) = i + (j + 1) * (n : Int); rw [hs.2.2]; ring⟩

/-! ### `svd_jacobi` -/

theorem setIdentity_safe (o : SvOps α) (n : Nat) (V : Array α) (hV : (n : Int) * (n : Int) ≤ (V.size : Int)) :
    Safe (setIdentity o (n : Int) V) (fun V' => V'.size = V.size) := by
  unfold setIdentity
  refine Safe.bind (P := fun V' : Array α => V'.size = V.size) ?_ (fun V1 h1 => ?_)
  · apply forRange_safe (fun V' : Array α => V'.size = V.size) _ _ _ _ rfl
    intro i i0 i1 V' h
    exact Safe.mono (wr_ok V' i o.zero i0 (by rw [h]; omega)) (fun a' h' => by rw [h', h])
  · refine forStep_safe (fun V' : Array α => V'.size = V.size) _ _ _ (by omega) _ _ h1 ?_
    intro t ht V' h
    have h0 : 0 ≤ (t : Int) * ((n : Int) + 1) := Int.mul_nonneg (by omega) (by omega)
    exact Safe.mono (wr_ok V' _ o.one (by omega) (by rw [h]; omega)) (fun a' h' => by rw [h', h])

theorem rotCols_safe (f g : α → α → α) (X : Array α) (jo ko len : Int) (hj0 : 0 ≤ jo) (hj : jo + len ≤ (X.size : Int))
    (hk0 : 0 ≤ ko) (hk : ko + len ≤ (X.size : Int)) (hl : 0 ≤ len) :
    Safe (rotCols f g X jo ko len) (fun X' => X'.size = X.size) := by
  unfold rotCols
  refine Safe.bind (P := fun r : Array α × Int => r.1.size = X.size) ?_ (fun r hr => Safe.pure hr)
  refine Safe.mono (forRange_safe_idx (fun (q : Int) (r : Array α × Int) => r.1.size = X.size ∧ r.2 = ko + (q - jo))
    jo (jo + len) (by omega) _ _ ⟨rfl, by show ko = ko + (jo - jo); omega⟩ ?_) (fun r h => h.1)
  intro q q0 q1 st hst
  refine Safe.bind (rd_ok st.1 q (by omega) (by rw [hst.1]; omega)) (fun _ _ => ?_)
  refine Safe.bind (rd_ok st.1 st.2 (by rw [hst.2]; omega) (by rw [hst.1, hst.2]; omega)) (fun _ _ => ?_)
  refine Safe.bind (wr_ok st.1 q _ (by omega) (by rw [hst.1]; omega)) (fun X1 h1 => ?_)
  refine Safe.bind (wr_ok X1 st.2 _ (by rw [hst.2]; omega) (by rw [h1, hst.1, hst.2]; omega)) (fun X2 h2 => ?_)
  exact Safe.pure ⟨by show X2.size = X.size; rw [h2, h1, hst.1], by show st.2 + 1 = ko + (q + 1 - jo); rw [hst.2]; omega⟩

/-- the three arrays keep their lengths `us ≥ m·n`, `vs ≥ n·n`, `ss ≥ n` -/
def SVInv (us vs ss : Nat) (sv : SV α) : Prop := sv.U.size = us ∧ sv.V.size = vs ∧ sv.S.size = ss

theorem svdPair_safe (o : SvOps α) (m n : Nat) {us vs ss : Nat} (hus : (m : Int) * (n : Int) ≤ (us : Int))
    (hvs : (n : Int) * (n : Int) ≤ (vs : Int)) (hss : (n : Int) ≤ (ss : Int)) (tolerance : α) (j k : Int) (j0 : 0 ≤ j)
    (jk : j < k) (kn : k < (n : Int)) (st : SV α × Int) (hst : SVInv us vs ss st.1) :
    Safe (svdPair o (m : Int) (n : Int) tolerance j k (j * (m : Int)) (j * (n : Int)) (k * (m : Int)) (k * (n : Int)) st)
      (fun r => SVInv us vs ss r.1) := by
  obtain ⟨h1, h2, h3⟩ := hst
  -- the columns `j`, `k` of `U` (length `m`) and the rows `j`, `k` of `V` (length `n`)
  have uj : 0 ≤ j * (m : Int) ∧ j * (m : Int) + (m : Int) ≤ (us : Int) := by
    have a1 : 0 ≤ j * (m : Int) := Int.mul_nonneg j0 (by omega)
    have a2 : (j + 1) * (m : Int) ≤ (n : Int) * (m : Int) := Int.mul_le_mul_of_nonneg_right (by omega) (by omega)
    have a3 : (n : Int) * (m : Int) = (m : Int) * (n : Int) := Int.mul_comm _ _
    have a4 : (j + 1) * (m : Int) = j * (m : Int) + (m : Int) := by ring
    omega
  have uk : 0 ≤ k * (m : Int) ∧ k * (m : Int) + (m : Int) ≤ (us : Int) := by
    have a1 : 0 ≤ k * (m : Int) := Int.mul_nonneg (by omega) (by omega)
    have a2 : (k + 1) * (m : Int) ≤ (n : Int) * (m : Int) := Int.mul_le_mul_of_nonneg_right (by omega) (by omega)
    have a3 : (n : Int) * (m : Int) = (m : Int) * (n : Int) := Int.mul_comm _ _
    have a4 : (k + 1) * (m : Int) = k * (m : Int) + (m : Int) := by ring
    omega
  have vj : 0 ≤ j * (n : Int) ∧ j * (n : Int) + (n : Int) ≤ (vs : Int) := by
    have a1 : 0 ≤ j * (n : Int) := Int.mul_nonneg j0 (by omega)
    have a2 : (j + 1) * (n : Int) ≤ (n : Int) * (n : Int) := Int.mul_le_mul_of_nonneg_right (by omega) (by omega)
    have a4 : (j + 1) * (n : Int) = j * (n : Int) + (n : Int) := by ring
    omega
  have vk : 0 ≤ k * (n : Int) ∧ k * (n : Int) + (n : Int) ≤ (vs : Int) := by
    have a1 : 0 ≤ k * (n : Int) := Int.mul_nonneg (by omega) (by omega)
    have a2 : (k + 1) * (n : Int) ≤ (n : Int) * (n : Int) := Int.mul_le_mul_of_nonneg_right (by omega) (by omega)
    have a4 : (k + 1) * (n : Int) = k * (n : Int) + (n : Int) := by ring
    omega
  unfold svdPair
  refine Safe.bind (normAt_safe o st.1.U _ _ uj.1 (by rw [h1]; exact uj.2)) (fun a _ => ?_)
  refine Safe.bind (normAt_safe o st.1.U _ _ uk.1 (by rw [h1]; exact uk.2)) (fun b _ => ?_)
  refine Safe.bind (dotProd_safe o st.1.U _ st.1.U _ _ uj.1 (by rw [h1]; exact uj.2) uk.1 (by rw [h1]; exact uk.2)) (fun d _ => ?_)
  refine Safe.bind (rd_ok st.1.S j j0 (by rw [h3]; omega)) (fun aerr _ => ?_)
  refine Safe.bind (rd_ok st.1.S k (by omega) (by rw [h3]; omega)) (fun berr _ => ?_)
  simp only
  split
  · exact Safe.pure ⟨h1, h2, h3⟩
  · split
    · refine Safe.bind (wr_ok st.1.S j berr j0 (by rw [h3]; omega)) (fun S1 hS1 => ?_)
      refine Safe.bind (wr_ok S1 k aerr (by omega) (by rw [hS1, h3]; omega)) (fun S2 hS2 => ?_)
      refine Safe.bind (rotCols_safe _ _ st.1.U _ _ _ uj.1 (by rw [h1]; exact uj.2) uk.1 (by rw [h1]; exact uk.2) (by omega))
        (fun U' hU' => ?_)
      refine Safe.bind (rotCols_safe _ _ st.1.V _ _ _ vj.1 (by rw [h2]; exact vj.2) vk.1 (by rw [h2]; exact vk.2) (by omega))
        (fun V' hV' => ?_)
      exact Safe.pure ⟨by show U'.size = us; rw [hU', h1], by show V'.size = vs; rw [hV', h2],
        by show S2.size = ss; rw [hS2, hS1, h3]⟩
    · refine Safe.bind (wr_ok st.1.S j _ j0 (by rw [h3]; omega)) (fun S1 hS1 => ?_)
      refine Safe.bind (wr_ok S1 k _ (by omega) (by rw [hS1, h3]; omega)) (fun S2 hS2 => ?_)
      refine Safe.bind (rotCols_safe _ _ st.1.U _ _ _ uj.1 (by rw [h1]; exact uj.2) uk.1 (by rw [h1]; exact uk.2) (by omega))
        (fun U' hU' => ?_)
      refine Safe.bind (rotCols_safe _ _ st.1.V _ _ _ vj.1 (by rw [h2]; exact vj.2) vk.1 (by rw [h2]; exact vk.2) (by omega))
        (fun V' hV' => ?_)
      exact Safe.pure ⟨by show U'.size = us; rw [hU', h1], by show V'.size = vs; rw [hV', h2],
        by show S2.size = ss; rw [hS2, hS1, h3]⟩

theorem svdSweep_safe (o : SvOps α) (m n : Nat) {us vs ss : Nat} (hus : (m : Int) * (n : Int) ≤ (us : Int))
    (hvs : (n : Int) * (n : Int) ≤ (vs : Int)) (hss : (n : Int) ≤ (ss : Int)) (tolerance : α) (sv : SV α)
    (hsv : SVInv us vs ss sv) : Safe (svdSweep o (m : Int) (n : Int) tolerance sv) (fun r => SVInv us vs ss r.1) := by
  unfold svdSweep
  by_cases hn : (n : Int) - 1 < 0
  · -- `n = 0`: no column pair
    refine Safe.bind (P := fun r : (SV α × Int) × Int × Int => SVInv us vs ss r.1.1) ?_ (fun r hr => Safe.pure hr)
    unfold forRange
    have : ((n : Int) - 1 - 0).toNat = 0 := by omega
    rw [this]
    exact Safe.pure hsv
  refine Safe.bind (P := fun r : (SV α × Int) × Int × Int => SVInv us vs ss r.1.1) ?_ (fun r hr => Safe.pure hr)
  refine Safe.mono (forRange_safe_idx
    (fun (j : Int) (r : (SV α × Int) × Int × Int) => SVInv us vs ss r.1.1 ∧ r.2.1 = j * (m : Int) ∧ r.2.2 = j * (n : Int))
    0 ((n : Int) - 1) (by omega) _ _ ⟨hsv, by simp, by simp⟩ ?_) (fun r h => h.1)
  intro j j0 j1 st hst
  obtain ⟨g1, g2, g3⟩ := hst
  refine Safe.bind (P := fun r : (SV α × Int) × Int × Int => SVInv us vs ss r.1.1) ?_
    (fun r hr => Safe.pure ⟨hr, by show st.2.1 + (m : Int) = (j + 1) * (m : Int); rw [g2]; ring,
      by show st.2.2 + (n : Int) = (j + 1) * (n : Int); rw [g3]; ring⟩)
  refine Safe.mono (forRange_safe_idx
    (fun (k : Int) (r : (SV α × Int) × Int × Int) => SVInv us vs ss r.1.1 ∧ r.2.1 = k * (m : Int) ∧ r.2.2 = k * (n : Int))
    (j + 1) (n : Int) (by omega) _ _ ⟨g1, rfl, rfl⟩ ?_) (fun r h => h.1)
  intro k k0 k1 s hs
  obtain ⟨e1, e2, e3⟩ := hs
  rw [g2, g3, e2, e3]
  refine Safe.bind (svdPair_safe o m n hus hvs hss tolerance j k j0 (by omega) k1 s.1 e1) (fun p hp => ?_)
  exact Safe.pure ⟨hp, by show k * (m : Int) + (m : Int) = (k + 1) * (m : Int); ring,
    by show k * (n : Int) + (n : Int) = (k + 1) * (n : Int); ring⟩

/-- the sweep loop terminates within `sweepmax + 1 - sweep` passes -/
theorem svdWhile_safe (o : SvOps α) (m n : Nat) {us vs ss : Nat} (hus : (m : Int) * (n : Int) ≤ (us : Int))
    (hvs : (n : Int) * (n : Int) ≤ (vs : Int)) (hss : (n : Int) ≤ (ss : Int)) (tolerance : α) (sweepmax : Int) :
    ∀ (fuel : Nat) (st : Ck (SW α)), Safe st (fun s => SVInv us vs ss s.1) → (sweepmax + 1 - st.val.2.2).toNat ≤ fuel →
      ∃ r, svdWhile o (m : Int) (n : Int) tolerance sweepmax fuel st = some r ∧ Safe r (fun s => SVInv us vs ss s.1) := by
  intro fuel
  induction fuel with
  | zero =>
    intro st hst hf
    have : ¬ (st.val.2.1 > 0 ∧ st.val.2.2 ≤ sweepmax) := by intro h; omega
    exact ⟨st, by unfold svdWhile; rw [if_neg this], hst⟩
  | succ f ih =>
    intro st hst hf
    unfold svdWhile
    by_cases hc : st.val.2.1 > 0 ∧ st.val.2.2 ≤ sweepmax
    · rw [if_pos hc]
      have hb : Safe (st >>= fun s => do
          let r ← svdSweep o (m : Int) (n : Int) tolerance s.1
          pure ((r.1, r.2, s.2.2 + 1) : SW α)) (fun s' => SVInv us vs ss s'.1 ∧ s'.2.2 = st.val.2.2 + 1) :=
        Safe.bind_val hst.1 (Safe.bind (svdSweep_safe o m n hus hvs hss tolerance st.val.1 hst.2)
          (fun r hr => Safe.pure ⟨hr, rfl⟩))
      refine ih _ (Safe.mono hb (fun _ h => h.1)) ?_
      have := hb.2.2
      omega
    · rw [if_neg hc]; exact ⟨st, rfl, hst⟩

theorem svdFinish_safe (o : SvOps α) (m n : Nat) (U S : Array α) (hU : (m : Int) * (n : Int) ≤ (U.size : Int))
    (hS : (n : Int) ≤ (S.size : Int)) :
    Safe (svdFinish o (m : Int) (n : Int) U S) (fun r => r.1.size = U.size ∧ r.2.1.size = S.size) := by
  unfold svdFinish
  apply forRange_safe (fun r : Array α × Array α × α × Int => r.1.size = U.size ∧ r.2.1.size = S.size) _ _ _ _ ⟨rfl, rfl⟩
  intro j j0 j1 st hst
  have uj : 0 ≤ j * (m : Int) ∧ j * (m : Int) + (m : Int) ≤ (U.size : Int) := by
    have a1 : 0 ≤ j * (m : Int) := Int.mul_nonneg j0 (by omega)
    have a2 : (j + 1) * (m : Int) ≤ (n : Int) * (m : Int) := Int.mul_le_mul_of_nonneg_right (by omega) (by omega)
    have a3 : (n : Int) * (m : Int) = (m : Int) * (n : Int) := Int.mul_comm _ _
    have a4 : (j + 1) * (m : Int) = j * (m : Int) + (m : Int) := by ring
    omega
  simp only
  refine Safe.bind (normAt_safe o st.1 _ _ uj.1 (by rw [hst.1]; exact uj.2)) (fun cn _ => ?_)
  have zeroBranch : ∀ (stol : α) (c : Int), Safe (do
      let S ← wr st.2.1 j o.zero
      let U ← forRange (j * (m : Int)) (j * (m : Int) + (m : Int)) st.1 (fun i (U : Array α) => wr U i o.zero)
      pure ((U, S, stol, c) : Array α × Array α × α × Int)) (fun r => r.1.size = U.size ∧ r.2.1.size = S.size) := by
    intro stol c
    refine Safe.bind (wr_ok st.2.1 j o.zero j0 (by rw [hst.2]; omega)) (fun S1 hS1 => ?_)
    refine Safe.bind (P := fun U' : Array α => U'.size = U.size) ?_ (fun U' hU' => Safe.pure ⟨hU', by show S1.size = S.size; rw [hS1, hst.2]⟩)
    apply forRange_safe (fun U' : Array α => U'.size = U.size) _ _ _ _ hst.1
    intro i i0 i1 U' h
    exact Safe.mono (wr_ok U' i o.zero (by omega) (by rw [h]; omega)) (fun a' h' => by rw [h', h])
  have divBranch : ∀ (stol : α) (c : Int), Safe (do
      let S ← wr st.2.1 j cn
      let U ← forRange (j * (m : Int)) (j * (m : Int) + (m : Int)) st.1 (fun i (U : Array α) => do
        let u ← rd U i
        wr U i (o.div u cn))
      pure ((U, S, stol, c) : Array α × Array α × α × Int)) (fun r => r.1.size = U.size ∧ r.2.1.size = S.size) := by
    intro stol c
    refine Safe.bind (wr_ok st.2.1 j cn j0 (by rw [hst.2]; omega)) (fun S1 hS1 => ?_)
    refine Safe.bind (P := fun U' : Array α => U'.size = U.size) ?_ (fun U' hU' => Safe.pure ⟨hU', by show S1.size = S.size; rw [hS1, hst.2]⟩)
    apply forRange_safe (fun U' : Array α => U'.size = U.size) _ _ _ _ hst.1
    intro i i0 i1 U' h
    refine Safe.bind (rd_ok U' i (by omega) (by rw [h]; omega)) (fun u _ => ?_)
    exact Safe.mono (wr_ok U' i _ (by omega) (by rw [h]; omega)) (fun a' h' => by rw [h', h])
  split <;> split
  · exact zeroBranch _ _
  · exact divBranch _ _
  · exact zeroBranch _ _
  · exact divBranch _ _

/-- **`svd_jacobi`** of the `m × n` block at offset `ao` of `Ax` (`m ≥ n` or the early `return -1`): `U` holds `m·n` entries,
`V` `n·n`, `S` `n`; in range, and the sweep loop terminates within `max(15n, 30) + 1` sweeps -/
theorem svdJacobi_safe (o : SvOps α) (ax : Array α) (ao : Int) (sv : SV α) (m n : Nat) (ha0 : 0 ≤ ao)
    (ha : ao + (m : Int) * (n : Int) ≤ (ax.size : Int)) {us vs ss : Nat} (hsv : SVInv us vs ss sv)
    (hus : (m : Int) * (n : Int) ≤ (us : Int)) (hvs : (n : Int) * (n : Int) ≤ (vs : Int)) (hss : (n : Int) ≤ (ss : Int)) :
    Safe (svdJacobi o ax ao sv (m : Int) (n : Int)) (fun r => SVInv us vs ss r.1) := by
  obtain ⟨h1, h2, h3⟩ := hsv
  unfold svdJacobi
  by_cases hmn : (m : Int) < (n : Int)
  · rw [if_pos hmn]; exact Safe.pure ⟨h1, h2, h3⟩
  rw [if_neg hmn]
  by_cases h11 : (n : Int) = 1 ∧ (m : Int) = 1
  · rw [if_pos h11]
    have e : (m : Int) * (n : Int) = 1 := by rw [h11.1, h11.2]; rfl
    have e2 : (n : Int) * (n : Int) = 1 := by rw [h11.1]; rfl
    refine Safe.bind (rd_ok ax ao ha0 (by omega)) (fun a0 _ => ?_)
    refine Safe.bind (wr_ok sv.V 0 o.one (by omega) (by rw [h2]; omega)) (fun V' hV' => ?_)
    refine Safe.bind (wr_ok sv.S 0 _ (by omega) (by rw [h3]; omega)) (fun S' hS' => ?_)
    refine Safe.bind (P := fun U' : Array α => U'.size = us) ?_
      (fun U' hU' => Safe.pure ⟨hU', by show V'.size = vs; rw [hV', h2], by show S'.size = ss; rw [hS', h3]⟩)
    split
    · exact Safe.mono (wr_ok sv.U 0 o.one (by omega) (by rw [h1]; omega)) (fun a' h' => by rw [h', h1])
    · exact Safe.mono (wr_ok sv.U 0 _ (by omega) (by rw [h1]; omega)) (fun a' h' => by rw [h', h1])
  rw [if_neg h11]
  simp only
  refine Safe.bind (setIdentity_safe o n sv.V (by rw [h2]; exact hvs)) (fun V0 hV0 => ?_)
  refine Safe.bind (P := fun U' : Array α => U'.size = us) ?_ (fun U0 hU0 => ?_)
  · apply forRange_safe (fun U' : Array α => U'.size = us) _ _ _ _ h1
    intro t t0 t1 U' h
    refine Safe.bind (rd_ok ax _ (by omega) (by omega)) (fun a _ => ?_)
    exact Safe.mono (wr_ok U' t a t0 (by rw [h]; omega)) (fun a' h' => by rw [h', h])
  refine Safe.bind (P := fun S' : Array α => S'.size = ss) ?_ (fun S0 hS0 => ?_)
  · apply forRange_safe (fun S' : Array α => S'.size = ss) _ _ _ _ h3
    intro j j0 j1 S' h
    have uj : 0 ≤ j * (m : Int) ∧ j * (m : Int) + (m : Int) ≤ (us : Int) := by
      have a1 : 0 ≤ j * (m : Int) := Int.mul_nonneg j0 (by omega)
      have a2 : (j + 1) * (m : Int) ≤ (n : Int) * (m : Int) := Int.mul_le_mul_of_nonneg_right (by omega) (by omega)
      have a3 : (n : Int) * (m : Int) = (m : Int) * (n : Int) := Int.mul_comm _ _
      have a4 : (j + 1) * (m : Int) = j * (m : Int) + (m : Int) := by ring
      omega
    refine Safe.bind (normAt_safe o U0 _ _ uj.1 (by rw [hU0]; exact uj.2)) (fun nx _ => ?_)
    exact Safe.mono (wr_ok S' j _ j0 (by rw [h]; omega)) (fun a' h' => by rw [h', h])
  refine Safe.bind (P := fun w : SW α => SVInv us vs ss w.1) ?_ (fun w hw => ?_)
  · apply orFault_safe
    refine svdWhile_safe o m n hus hvs hss _ _ _ (pure (⟨U0, V0, S0⟩, 1, 0))
      (Safe.pure ⟨hU0, by show V0.size = vs; rw [hV0, h2], hS0⟩) ?_
    show ((if 15 * (n : Int) < 30 then 30 else 15 * (n : Int)) + 1 - 0).toNat ≤ _
    omega
  obtain ⟨w1, w2, w3⟩ := hw
  refine Safe.bind (svdFinish_safe o m n w.1.U w.1.S (by rw [w1]; exact hus) (by rw [w3]; exact hss)) (fun f hf => ?_)
  split
  · refine Safe.bind (setIdentity_safe o n w.1.V (by rw [w2]; exact hvs)) (fun V1 hV1 => ?_)
    refine Safe.bind (P := fun U' : Array α => U'.size = us) ?_
      (fun U1 hU1 => Safe.pure ⟨hU1, by show V1.size = vs; rw [hV1, w2], by show f.2.1.size = ss; rw [hf.2, w3]⟩)
    refine forStep_safe (fun U' : Array α => U'.size = us) _ _ _ (by omega) _ _ (by rw [hf.1, w1]) ?_
    intro t ht U' h
    have h0 : 0 ≤ (t : Int) * ((m : Int) + 1) := Int.mul_nonneg (by omega) (by omega)
    have e3 : (n : Int) * (m : Int) = (m : Int) * (n : Int) := Int.mul_comm _ _
    exact Safe.mono (wr_ok U' _ o.one (by omega) (by rw [h]; omega)) (fun a' h' => by rw [h', h])
  · split
    · exact Safe.pure ⟨by show f.1.size = us; rw [hf.1, w1], w2, by show f.2.1.size = ss; rw [hf.2, w3]⟩
    · exact Safe.pure ⟨by show f.1.size = us; rw [hf.1, w1], w2, by show f.2.1.size = ss; rw [hf.2, w3]⟩

end PyamgV.C17R4
