import PyamgV.Proofs.ExtC19SArnoldiThm

/-! PyamgV (C19, extension E39): the `symmetric=True` branch of `_approximate_eigenvalues` (`lanStep`: three-term
recurrence on the last two vectors) computes, in exact arithmetic and for an operator that is symmetric with respect
to the form, **the same Hessenberg columns and the same breakdown flag as the Arnoldi branch** (`arnStep`), and the
two vectors it keeps are the last two Arnoldi vectors (`lanczos_eq_arnoldi`).  Hence every statement about the Ritz
values of the Arnoldi model (`Proofs/ExtC19SArnoldiThm.lean`) holds for the columns the Lanczos model returns
(`lanczos_model_ritz_abs_le`, `lanczos_model_ritz_between`).

The argument is the classical one: with `v_0 .. v_m` orthonormal and `A v_i` in the span of `v_0 .. v_{i+1}`,
`<v_i, A v_m> = <A v_i, v_m> = H_{m i}` vanishes for `i + 1 < m` and equals the previous `beta` for `i = m - 1`, so the
Gram-Schmidt pass against all vectors reduces to the two subtractions the symmetric branch performs. -/
namespace PyamgV.C19S
open PyamgV.C07 PyamgV.GS
set_option linter.unusedSectionVars false

variable {K : Type} [Field K] [LinearOrder K] [IsStrictOrderedRing K]
variable {V : Type} [AddCommGroup V] [Module K V]
variable (A AH M : V →ₗ[K] V) (e : EForm K V) (sqrt : K → K) (tol : K)

/-- Gram-Schmidt against a prefix the vector is already orthogonal to records zeros and changes nothing -/
theorem orth_prefix_zero : ∀ (pre rest : List V) (w : V), (∀ q ∈ pre, e.a q w = 0) →
    GS.orth e (pre ++ rest) w = ((GS.orth e rest w).1, List.replicate pre.length 0 ++ (GS.orth e rest w).2) := by
  intro pre
  induction pre with
  | nil => intro rest w _; simp
  | cons q pre ih =>
    intro rest w h
    have hq : e.a q w = 0 := h q (by simp)
    simp only [List.cons_append, GS.orth, hq, zero_smul, sub_zero, List.length_cons, List.replicate_succ]
    rw [ih rest w (fun p hp => h p (by simp [hp]))]

/-- the Lanczos pass of the model over the module -/
abbrev lanStepM : AeSt K V → AeSt K V := lanStep (Ops.ofModule A AH M e) mDiv sqrt ltK tol

abbrev lanRunM (v0 : V) (k : Nat) : AeSt K V :=
  aeRun (Ops.ofModule A AH M e) mDiv sqrt ltK iszK tol true v0 k

/-- how the Lanczos state sits inside the Arnoldi state -/
structure LanRel (sA sL : AeSt K V) : Prop where
  cols : sL.cols = sA.cols
  brk : sL.brk = sA.brk
  beta : 1 ≤ sA.cols.length → sL.beta = hEntry sA.cols sA.cols.length (sA.cols.length - 1)
  vs : sA.brk = false → (sA.cols.length = 0 ∧ sL.vs = sA.vs) ∨
    (1 ≤ sA.cols.length ∧ ∃ pre vp vk, sA.vs = pre ++ [vp, vk] ∧ sL.vs = [vp, vk])
  vsb : sA.brk = true → ∃ pre, sA.vs.dropLast = pre ++ sL.vs

theorem hEntry_snoc_last (cols : List (List K)) (col : List K) (i : Nat) :
    hEntry (cols ++ [col]) i cols.length = col.getD i 0 := by
  unfold hEntry
  rw [List.getD_append_right _ _ _ _ (Nat.le_refl _)]
  simp

variable {A e sqrt tol}

/-- one pass of both branches from related states -/
theorem lanStep_rel (hA : ∀ x y, e.a (A x) y = e.a x (A y)) (sA sL : AeSt K V)
    (hI : ArnInv A e sA) (hR : LanRel sA sL) :
    LanRel (arnStepM A AH M e sqrt tol sA) (lanStepM A AH M e sqrt tol sL) := by
  by_cases hb : sA.brk = true
  · have hbL : sL.brk = true := by rw [hR.brk]; exact hb
    have h1 : arnStepM A AH M e sqrt tol sA = sA := by unfold arnStepM arnStep; rw [if_pos hb]
    have h2 : lanStepM A AH M e sqrt tol sL = sL := by unfold lanStepM lanStep; rw [if_pos hbL]
    rw [h1, h2]; exact hR
  · have hbf : sA.brk = false := by simpa using hb
    have hbL : ¬ sL.brk = true := by rw [hR.brk]; exact hb
    have hF := hI.toF
    have hlen := hI.arn.len
    have hunit_m : e.a (basisOf sA sA.cols.length) (basisOf sA sA.cols.length) = 1 := hI.last hbf
    -- `<v_i, A v_m> = H_{m i}` for `i < m`
    have hrow : ∀ i, i < sA.cols.length →
        e.a (basisOf sA i) (A (basisOf sA sA.cols.length)) = hEntry sA.cols sA.cols.length i := by
      intro i hi
      rw [← hA, e.symm]
      exact hF.entry' sA.cols.length i (le_refl _) hunit_m hi
    rcases hR.vs hbf with ⟨hm0, hvs⟩ | ⟨hm1, pre, vp, vk, hvsA, hvsL⟩
    · -- first pass: a single vector
      have hl1 : sA.vs.length = 1 := by omega
      obtain ⟨x, hx⟩ : ∃ x, sA.vs = [x] := by
        match hs : sA.vs, hl1 with
        | [x], _ => exact ⟨x, rfl⟩
      have hcL : sL.cols.length = 0 := by rw [hR.cols]; exact hm0
      have hsym : e.a x (A x) = e.a (A x) x := e.symm _ _
      have hstepA : arnStepM A AH M e sqrt tol sA =
          (let w2 := A x - e.a (A x) x • x
           let h := sqrt (e.a w2 w2)
           if ltK h tol = true then ⟨sA.vs ++ [if iszK h = true then w2 else mDiv w2 h], sA.cols ++ [[e.a (A x) x, h]], sA.beta, true⟩
           else ⟨sA.vs ++ [mDiv w2 h], sA.cols ++ [[e.a (A x) x, h]], sA.beta, false⟩) := by
        unfold arnStepM arnStep
        rw [if_neg hb, hx]
        simp only [List.getLast?_singleton, orthO_eq]
        simp only [GS.orth, nrmO, Ops.ofModule, hsym, List.nil_append, List.cons_append]
      have hstepL : lanStepM A AH M e sqrt tol sL =
          (let w2 := A x - e.a (A x) x • x
           let h := sqrt (e.a w2 w2)
           if ltK h tol = true then ⟨sL.vs, sL.cols ++ [[e.a (A x) x, h]], h, true⟩
           else ⟨[x, mDiv w2 h], sL.cols ++ [[e.a (A x) x, h]], h, false⟩) := by
        unfold lanStepM lanStep
        rw [if_neg hbL, hvs, hx]
        simp only [List.reverse_singleton, hcL, nrmO, Ops.ofModule]
        simp
      rw [hstepA, hstepL]
      simp only
      by_cases hlt : ltK (sqrt (e.a (A x - e.a (A x) x • x) (A x - e.a (A x) x • x))) tol = true
      · rw [if_pos hlt, if_pos hlt]
        refine ⟨by simp [hR.cols], rfl, ?_, fun hc => by simp at hc, fun _ => ⟨[], by simp [hvs]⟩⟩
        · intro _
          simp only [List.length_append, List.length_singleton, Nat.add_sub_cancel]
          have := hEntry_snoc_last sA.cols [e.a (A x) x, sqrt (e.a (A x - e.a (A x) x • x) (A x - e.a (A x) x • x))] 1
          rw [hm0] at this ⊢
          rw [this]; rfl
      · rw [if_neg hlt, if_neg hlt]
        refine ⟨by simp [hR.cols], rfl, ?_, fun _ => Or.inr ⟨by simp, [], x, _, ?_, rfl⟩, fun hc => by simp at hc⟩
        · intro _
          simp only [List.length_append, List.length_singleton, Nat.add_sub_cancel]
          have := hEntry_snoc_last sA.cols [e.a (A x) x, sqrt (e.a (A x - e.a (A x) x • x) (A x - e.a (A x) x • x))] 1
          rw [hm0] at this ⊢
          rw [this]; rfl
        · simp [hx]
    · -- later passes: `V = [v_{sA.cols.length-1}, v_m]`
      have hplen : pre.length = sA.cols.length - 1 := by
        have : sA.vs.length = pre.length + 2 := by rw [hvsA]; simp
        omega
      have hvp : basisOf sA (sA.cols.length - 1) = vp := by
        unfold basisOf
        rw [hvsA, List.getD_append_right _ _ _ _ (by omega)]
        have : sA.cols.length - 1 - pre.length = 0 := by omega
        rw [this]; rfl
      have hvk : basisOf sA sA.cols.length = vk := by
        unfold basisOf
        rw [hvsA, List.getD_append_right _ _ _ _ (by omega)]
        have : sA.cols.length - pre.length = 1 := by omega
        rw [this]; rfl
      have hpre : ∀ q ∈ pre, e.a q (A vk) = 0 := by
        intro q hq
        obtain ⟨i, hi, hqi⟩ := List.getElem_of_mem hq
        have hbi : basisOf sA i = q := by
          unfold basisOf
          rw [hvsA, List.getD_append _ _ _ _ hi, List.getD_eq_getElem _ _ hi, hqi]
        rw [← hbi, ← hvk, hrow i (by omega)]
        exact hF.hess sA.cols.length i (by omega)
      have hbeta : e.a vp (A vk) = sL.beta := by
        rw [← hvp, ← hvk, hrow (sA.cols.length - 1) (by omega), hR.beta hm1]
      have hcL : sL.cols.length = sA.cols.length := by rw [hR.cols]
      have hsym : e.a vk (A vk - sL.beta • vp) = e.a (A vk - sL.beta • vp) vk := e.symm _ _
      have hstepA : arnStepM A AH M e sqrt tol sA =
          (let w1 := A vk - sL.beta • vp
           let α := e.a w1 vk
           let w2 := w1 - α • vk
           let h := sqrt (e.a w2 w2)
           let col := List.replicate (sA.cols.length - 1) 0 ++ [sL.beta, α, h]
           if ltK h tol = true then ⟨sA.vs ++ [if iszK h = true then w2 else mDiv w2 h], sA.cols ++ [col], sA.beta, true⟩
           else ⟨sA.vs ++ [mDiv w2 h], sA.cols ++ [col], sA.beta, false⟩) := by
        unfold arnStepM arnStep
        rw [if_neg hb, hvsA]
        have hl : (pre ++ [vp, vk]).getLast? = some vk := by simp
        rw [hl]
        simp only [orthO_eq]
        have hAvk : (Ops.ofModule A AH M e).A vk = A vk := rfl
        rw [hAvk, orth_prefix_zero e pre [vp, vk] (A vk) hpre]
        simp only [GS.orth, hbeta, hsym, hplen, nrmO, Ops.ofModule, List.append_assoc, List.cons_append, List.nil_append]
      have hstepL : lanStepM A AH M e sqrt tol sL =
          (let w1 := A vk - sL.beta • vp
           let α := e.a w1 vk
           let w2 := w1 - α • vk
           let h := sqrt (e.a w2 w2)
           let col := List.replicate (sA.cols.length - 1) 0 ++ [sL.beta, α, h]
           if ltK h tol = true then ⟨sL.vs, sL.cols ++ [col], h, true⟩
           else ⟨[vk, mDiv w2 h], sL.cols ++ [col], h, false⟩) := by
        unfold lanStepM lanStep
        rw [if_neg hbL, hvsL]
        have hge : sL.cols.length ≥ 1 := by omega
        have hm1' : sA.cols.length ≥ 1 := hm1
        simp only [List.reverse_cons, List.reverse_nil, List.nil_append, List.cons_append, hcL, hm1', if_true, nrmO,
          Ops.ofModule]
        simp only [List.append_assoc, List.cons_append, List.nil_append]
      rw [hstepA, hstepL]
      simp only
      set w2 := A vk - sL.beta • vp - e.a (A vk - sL.beta • vp) vk • vk with hw2
      set col := List.replicate (sA.cols.length - 1) 0 ++ [sL.beta, e.a (A vk - sL.beta • vp) vk, sqrt (e.a w2 w2)] with hcol
      have hlast : hEntry (sA.cols ++ [col]) (sA.cols.length + 1) sA.cols.length = sqrt (e.a w2 w2) := by
        rw [hEntry_snoc_last, hcol, List.getD_append_right _ _ _ _ (by simp; omega)]
        have : sA.cols.length + 1 - (List.replicate (sA.cols.length - 1) (0 : K)).length = 2 := by simp; omega
        rw [this]; rfl
      by_cases hlt : ltK (sqrt (e.a w2 w2)) tol = true
      · rw [if_pos hlt, if_pos hlt]
        refine ⟨by simp [hR.cols], rfl, ?_, fun hc => by simp at hc, fun _ => ⟨pre, by simp [hvsA, hvsL]⟩⟩
        · intro _
          simp only [List.length_append, List.length_singleton, Nat.add_sub_cancel]
          exact hlast.symm
      · rw [if_neg hlt, if_neg hlt]
        refine ⟨by simp [hR.cols], rfl, ?_, fun _ => Or.inr ⟨by simp, pre ++ [vp], vk, _, ?_, rfl⟩,
          fun hc => by simp at hc⟩
        · intro _
          simp only [List.length_append, List.length_singleton, Nat.add_sub_cancel]
          exact hlast.symm
        · simp [hvsA]

/-- **Lanczos = Arnoldi in exact arithmetic** for a symmetric operator: same columns of `H`, same breakdown flag
after every number of passes; the vectors the symmetric branch keeps are the last two Arnoldi vectors -/
theorem lanczos_eq_arnoldi {v0 : V} (hx : Exact e sqrt tol v0) (hA : ∀ x y, e.a (A x) y = e.a x (A y)) (k : Nat) :
    LanRel (arnRunM A AH M e sqrt tol v0 k) (lanRunM A AH M e sqrt tol v0 k) := by
  induction k with
  | zero =>
    simp only [arnRunM, lanRunM, aeRun, iter, aeInit]
    exact ⟨rfl, rfl, fun h => by simp at h, fun _ => Or.inl ⟨rfl, rfl⟩, fun h => by simp at h⟩
  | succ k ih =>
    have h1 : arnRunM A AH M e sqrt tol v0 (k + 1) = arnStepM A AH M e sqrt tol (arnRunM A AH M e sqrt tol v0 k) := by
      simp only [arnRunM, aeRun, iter]; rfl
    have h2 : lanRunM A AH M e sqrt tol v0 (k + 1) = lanStepM A AH M e sqrt tol (lanRunM A AH M e sqrt tol v0 k) := by
      simp only [lanRunM, aeRun, iter]; rfl
    rw [h1, h2]
    exact lanStep_rel AH M hA _ _ (aeRun_inv A AH M e sqrt tol hx.hdef hx.hsq hx.htol v0 hx.hv0 k) ih

theorem lanczos_cols_eq {v0 : V} (hx : Exact e sqrt tol v0) (hA : ∀ x y, e.a (A x) y = e.a x (A y)) (k : Nat) :
    (lanRunM A AH M e sqrt tol v0 k).cols = (arnRunM A AH M e sqrt tol v0 k).cols ∧
    (lanRunM A AH M e sqrt tol v0 k).brk = (arnRunM A AH M e sqrt tol v0 k).brk :=
  ⟨(lanczos_eq_arnoldi AH M hx hA k).cols, (lanczos_eq_arnoldi AH M hx hA k).brk⟩

/-- the Ritz values of the matrix the **symmetric branch** returns are bounded by the Rayleigh bound -/
theorem lanczos_model_ritz_abs_le {v0 : V} (hx : Exact e sqrt tol v0) (hA : ∀ x y, e.a (A x) y = e.a x (A y))
    (k : Nat) (ρ : K) (hray : ∀ x, |e.a (A x) x| ≤ ρ * e.a x x) (θ : K) (y : Nat → K)
    (hr : ArnF.IsRitz (lanRunM A AH M e sqrt tol v0 k).cols.length (hEntry (lanRunM A AH M e sqrt tol v0 k).cols) θ y) :
    |θ| ≤ ρ := by
  rw [(lanczos_cols_eq AH M hx hA k).1] at hr
  exact arnoldi_model_ritz_abs_le A AH M hx k ρ hray θ y hr

/-- ... and lie between the Rayleigh bounds `lambda_min`, `lambda_max` -/
theorem lanczos_model_ritz_between {v0 : V} (hx : Exact e sqrt tol v0) (hA : ∀ x y, e.a (A x) y = e.a x (A y))
    (k : Nat) (lo hi : K) (hlo : ∀ x, lo * e.a x x ≤ e.a (A x) x) (hhi : ∀ x, e.a (A x) x ≤ hi * e.a x x)
    (θ : K) (y : Nat → K)
    (hr : ArnF.IsRitz (lanRunM A AH M e sqrt tol v0 k).cols.length (hEntry (lanRunM A AH M e sqrt tol v0 k).cols) θ y) :
    lo ≤ θ ∧ θ ≤ hi := by
  rw [(lanczos_cols_eq AH M hx hA k).1] at hr
  exact arnoldi_model_ritz_between A AH M hx k lo hi hlo hhi θ y hr

#print axioms lanczos_eq_arnoldi
#print axioms lanczos_model_ritz_abs_le
end PyamgV.C19S
