import PyamgV.Proofs.StdAgg2

/-! PyamgV (C12): `standard_aggregation`, passes 2 and 3 and the final specification
(symmetric pattern). Core only. -/
namespace PyamgV.Agg
open PyamgV

/-- pigeonhole in the form needed: a strictly increasing sequence of `m` naturals below `n`
that avoids some value `j < n` has `m ≤ n - 1`. -/
theorem incr_skip_bound (f : Nat → Nat) (m n j : Nat) (hj : j < n)
    (hinc : ∀ a, a + 1 < m → f a < f (a + 1)) (hlt : ∀ a, a < m → f a < n)
    (hskip : ∀ a, a < m → f a ≠ j) : m + 1 ≤ n := by
  have key : ∀ a, a < m → a ≤ f a ∧ (j < f a → a + 1 ≤ f a) := by
    intro a
    induction a with
    | zero => intro h0; exact ⟨Nat.zero_le _, fun h => by omega⟩
    | succ a ih =>
      intro ha
      obtain ⟨h1, h2⟩ := ih (by omega)
      have h3 := hinc a ha
      have h4 := hskip a (by omega)
      refine ⟨by omega, ?_⟩
      intro h5
      by_cases h6 : j < f a
      · have := h2 h6; omega
      · omega
  cases m with
  | zero => omega
  | succ k =>
    obtain ⟨h1, h2⟩ := key k (by omega)
    have h3 := hlt k (by omega)
    have h4 := hskip k (by omega)
    by_cases h5 : j < f k
    · have := h2 h5; omega
    · omega

/-! ### pass 2 -/

def pass2Step (G : Graph) (x : Array Int) (i : Nat) : Array Int :=
  if rd x i ≠ 0 then x else
    match (G.adj i).find? (fun j => decide (rd x j > 0)) with
    | some j => wr x i (-(rd x j))
    | none => x

def pass2 (G : Graph) (x : Array Int) : Array Int := (List.range G.n).foldl (pass2Step G) x

/-- state of pass 2 relative to the pass-1 result `x1` -/
structure P2 (G : Graph) (x1 : Array Int) (t : Nat) (x : Array Int) : Prop where
  size : x.size = G.n
  keep : ∀ i, rd x1 i ≠ 0 → rd x i = rd x1 i
  later : ∀ i, t ≤ i → rd x i = rd x1 i
  att : ∀ i, i < G.n → rd x1 i = 0 → rd x i ≠ 0 → ∃ j ∈ G.adj i, 1 ≤ rd x1 j ∧ rd x i = -(rd x1 j)
  done : ∀ i, i < t → i < G.n → rd x i ≠ 0

theorem pass2Step_inv (G : Graph) (x1 : Array Int) (hx1 : x1.size = G.n)
    (hnz : ∀ i, i < G.n → rd x1 i = 0 → ∃ j ∈ G.adj i, j ≠ i ∧ 1 ≤ rd x1 j)
    (t : Nat) (ht : t < G.n) (x : Array Int) (h : P2 G x1 t x) :
    P2 G x1 (t+1) (pass2Step G x t) := by
  unfold pass2Step
  by_cases hx : rd x t ≠ 0
  · rw [if_pos hx]
    refine ⟨h.size, h.keep, fun i hi => h.later i (by omega), h.att, ?_⟩
    intro i hi hin
    by_cases hit : i = t
    · subst hit; exact hx
    · exact h.done i (by omega) hin
  · rw [if_neg hx]
    have hx0 : rd x t = 0 := by simpa using hx
    have hx1t : rd x1 t = 0 := by rw [← h.later t (Nat.le_refl t)]; exact hx0
    -- a positive neighbour exists (positives are never changed), so `find?` succeeds
    obtain ⟨j, hj, hjt, hjp⟩ := hnz t ht hx1t
    have hjx : rd x j = rd x1 j := h.keep j (by omega)
    cases hf : (G.adj t).find? (fun j => decide (rd x j > 0)) with
    | none =>
      exfalso
      have := List.find?_eq_none.1 hf j hj
      simp at this; omega
    | some k =>
      have hk := List.find?_some hf
      have hkm := List.mem_of_find?_eq_some hf
      have hkp : 0 < rd x k := by simpa using hk
      -- a positive entry of x is a positive entry of x1 (attached ones are negative)
      have hk1 : rd x1 k ≠ 0 := by
        intro h0
        have hkn : k < G.n := by
          by_cases hkn : k < G.n
          · exact hkn
          · exfalso
            have : rd x k = 0 := by unfold rd; simp [Array.getD, h.size, hkn]
            omega
        obtain ⟨j', _, hj'p, hj'e⟩ := h.att k hkn h0 (by omega)
        omega
      have hkx : rd x k = rd x1 k := h.keep k hk1
      have hts : t < x.size := by rw [h.size]; exact ht
      have hnew : ∀ m, rd (wr x t (-(rd x k))) m = if m = t then -(rd x k) else rd x m := by
        intro m; rw [rd_wr]
        by_cases hmt : t = m
        · subst hmt; simp [hts]
        · have : m ≠ t := fun e => hmt e.symm
          simp [hmt, this]
      refine ⟨by simp [h.size], ?_, ?_, ?_, ?_⟩
      · intro i hi; rw [hnew]
        by_cases hit : i = t
        · subst hit; exact absurd hx1t hi
        · rw [if_neg hit]; exact h.keep i hi
      · intro i hi; rw [hnew, if_neg (by omega)]; exact h.later i (by omega)
      · intro i hi h0 hne
        rw [hnew] at hne ⊢
        by_cases hit : i = t
        · subst hit
          rw [if_pos rfl]
          exact ⟨k, hkm, by omega, by rw [hkx]⟩
        · rw [if_neg hit] at hne ⊢; exact h.att i hi h0 hne
      · intro i hi hin
        rw [hnew]
        by_cases hit : i = t
        · rw [if_pos hit]; omega
        · rw [if_neg hit]; exact h.done i (by omega) hin

theorem pass2_inv (G : Graph) (x1 : Array Int) (hx1 : x1.size = G.n)
    (hnz : ∀ i, i < G.n → rd x1 i = 0 → ∃ j ∈ G.adj i, j ≠ i ∧ 1 ≤ rd x1 j) :
    P2 G x1 G.n (pass2 G x1) := by
  unfold pass2
  refine foldl_range_inv (fun k x => P2 G x1 k x) _ G.n x1 ?_ ?_
  · exact ⟨hx1, fun _ _ => rfl, fun _ _ => rfl, fun i _ h0 hne => absurd h0 hne, fun i hi => by omega⟩
  · intro k x hk hp; exact pass2Step_inv G x1 hx1 hnz k hk x hp

#print axioms pass2_inv
end PyamgV.Agg
