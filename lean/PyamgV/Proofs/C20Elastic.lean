import Mathlib.Algebra.Order.Field.Rat
import Mathlib.Tactic.Ring
import Mathlib.Tactic.FieldSimp
import Mathlib.Tactic.Linarith
import Mathlib.Tactic.IntervalCases
import PyamgV.Model.C20Gallery

/-! PyamgV (C20): the Q1 element matrix `q12d_local` — symmetric for every `F`; on a rectangle it
annihilates the two translations and the rotation `(-y, x)` of the element's nodes. -/
namespace PyamgV.C20

theorem r11_symm (a b : Nat) (ha : a < 4) (hb : b < 4) : r11 a b = r11 b a := by
  interval_cases a <;> interval_cases b <;> simp [r11, tab]

theorem r22_symm (a b : Nat) (ha : a < 4) (hb : b < 4) : r22 a b = r22 b a := by
  interval_cases a <;> interval_cases b <;> simp [r22, tab]

/-- `F^T G F` is symmetric when `G` is diagonal -/
theorem sandwich_diag_symm (F : M2) (p q : Rat) :
    (F.tr.mul (M2.mul ⟨p, 0, 0, q⟩ F)).b = (F.tr.mul (M2.mul ⟨p, 0, 0, q⟩ F)).c := by
  simp [M2.mul, M2.tr]; ring

theorem blockE_symm (E : M2) (hE : E.b = E.c) (a b : Nat) (ha : a < 4) (hb : b < 4) :
    blockE E a b = blockE E b a := by
  unfold blockE
  rw [r11_symm a b ha hb, r22_symm a b ha hb, hE]; ring

/-- **the element matrix is symmetric** (any `F`, any Lame parameters) -/
theorem kloc_symm (F : M2) (lame mu : Rat) (i j : Nat) (hi : i < 8) (hj : j < 8) :
    kloc F lame mu i j = kloc F lame mu j i := by
  have hi2 : i / 2 < 4 := by omega
  have hj2 : j / 2 < 4 := by omega
  rcases Nat.mod_two_eq_zero_or_one i with h1 | h1 <;> rcases Nat.mod_two_eq_zero_or_one j with h2 | h2
  · simp only [kloc, h1, h2]
    rw [blockE_symm _ (sandwich_diag_symm F _ _) _ _ hi2 hj2]
  · simp only [kloc, h1, h2]
  · simp only [kloc, h1, h2]
  · simp only [kloc, h1, h2]
    rw [blockE_symm _ (sandwich_diag_symm F _ _) _ _ hi2 hj2]

theorem range8 : List.range 8 = [0, 1, 2, 3, 4, 5, 6, 7] := by decide

/-- position of local node `n` (LL, LR, UR, UL) in units of the spacing -/
def dxn (n : Nat) : Rat := [0, 1, 1, 0].getD n 0
def dyn (n : Nat) : Rat := [0, 0, 1, 1].getD n 0

/-- rigid-body field `m` at the local dof `a` of the rectangle with lower-left corner `(x0, y0)` -/
def vloc (DX DY x0 y0 : Rat) (m a : Nat) : Rat :=
  if a % 2 = 0 then pick3 m 1 0 (-(y0 + dyn (a / 2) * DY)) else pick3 m 0 1 (x0 + dxn (a / 2) * DX)

/-- **the element matrix of a rectangle annihilates the rigid-body fields** (column form, as assembled) -/
theorem kloc_rigid (DX DY lame mu x0 y0 : Rat) (hDX : DX ≠ 0) (hDY : DY ≠ 0) (m b : Nat) (hm : m < 3) (hb : b < 8) :
    ((List.range 8).map fun a => kloc (M2.inv ⟨DX, 0, 0, DY⟩) lame mu a b * vloc DX DY x0 y0 m a).sum = 0 := by
  rw [range8]
  interval_cases m <;> interval_cases b <;>
    simp [kloc, blockE, r11, r12, r22, tab, M2.mul, M2.tr, M2.inv, M2.det, vloc, pick3, dxn, dyn] <;>
    field_simp <;> ring

end PyamgV.C20
