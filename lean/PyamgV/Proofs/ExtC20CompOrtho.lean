import PyamgV.Proofs.ExtC20Sums
import Mathlib.LinearAlgebra.Matrix.NonsingularInverse
import Mathlib.LinearAlgebra.Matrix.Charpoly.Basic
import Mathlib.Algebra.Polynomial.Roots
import Mathlib.Algebra.BigOperators.Fin
import Mathlib.Algebra.BigOperators.Field
import Mathlib.Data.Real.Basic

/-! PyamgV (C20, extension E45): **completeness of an orthogonal family of eigenvectors** of a real symmetric
matrix given by an entry function `M : Nat → Nat → ℝ` (leading `n × n` block, `mv n M`).

`OrthoEigen n M V lam`: `M` symmetric, `V m` (`m < n`) eigenvectors for `lam m`, pairwise orthogonal, none of
norm zero.  Consequences (no further hypotheses):

* `complete_rel`   : `Σ_m V m i · V m j / ‖V m‖² = δ_ij` (the `n` vectors are a basis of `ℝ^n`);
* `expansion`      : `x = Σ_m (⟨V m, x⟩ / ‖V m‖²) V m` for EVERY `x` (spanning, explicit coefficients);
* `linindep`       : `Σ_m a_m V m = 0 → a = 0`;
* `eigenvalue_mem` : every eigenvalue of `M` (with an eigenvector that is not zero on `0..n-1`) is one of the `lam m`;
* `eigenspace`     : every eigenvector for `mu` is a combination of the `V m` with `lam m = mu`
                     (with `linindep`: the eigenspace of `mu` has the basis `{V m : lam m = mu}`);
* `charpoly_eq`    : the characteristic polynomial of the matrix is `Π_m (X - lam m)`;
* `rootMultiplicity_eq` : the algebraic multiplicity of `mu` is the number of `m < n` with `lam m = mu`. -/
namespace PyamgV.C20.Comp
open Finset PyamgV.C20

/-- Euclidean inner product of the leading `n` components -/
def ip (n : Nat) (x y : Nat → ℝ) : ℝ := ∑ p ∈ range n, x p * y p

theorem ip_comm (n : Nat) (x y : Nat → ℝ) : ip n x y = ip n y x := by
  unfold ip; exact Finset.sum_congr rfl fun p _ => mul_comm _ _

/-- a symmetric matrix is self-adjoint for `ip` -/
theorem ip_mv_symm (n : Nat) (M : Nat → Nat → ℝ) (hs : ∀ p < n, ∀ q < n, M p q = M q p) (x y : Nat → ℝ) :
    ip n (mv n M x) y = ip n x (mv n M y) := by
  unfold ip mv
  simp only [Finset.sum_mul, Finset.mul_sum]
  rw [Finset.sum_comm]
  apply Finset.sum_congr rfl
  intro q hq
  apply Finset.sum_congr rfl
  intro p hp
  rw [hs p (Finset.mem_range.1 hp) q (Finset.mem_range.1 hq)]; ring

/-- eigenvectors of a symmetric matrix for different eigenvalues are orthogonal -/
theorem orth_of_ne (n : Nat) (M : Nat → Nat → ℝ) (hs : ∀ p < n, ∀ q < n, M p q = M q p) (v w : Nat → ℝ) (a b : ℝ)
    (hv : ∀ p < n, mv n M v p = a * v p) (hw : ∀ p < n, mv n M w p = b * w p) (hab : a ≠ b) : ip n v w = 0 := by
  have h := ip_mv_symm n M hs v w
  have e1 : ip n (mv n M v) w = a * ip n v w := by
    unfold ip
    rw [Finset.mul_sum]
    exact Finset.sum_congr rfl fun p hp => by rw [hv p (Finset.mem_range.1 hp)]; ring
  have e2 : ip n v (mv n M w) = b * ip n v w := by
    unfold ip
    rw [Finset.mul_sum]
    exact Finset.sum_congr rfl fun p hp => by rw [hw p (Finset.mem_range.1 hp)]; ring
  rw [e1, e2] at h
  have : (a - b) * ip n v w = 0 := by linarith
  rcases mul_eq_zero.1 this with h0 | h0
  · exact absurd (sub_eq_zero.1 h0) hab
  · exact h0

/-- an orthogonal family of `n` eigenvectors of a symmetric `n × n` matrix -/
structure OrthoEigen (n : Nat) (M : Nat → Nat → ℝ) (V : Nat → Nat → ℝ) (lam : Nat → ℝ) : Prop where
  symm : ∀ p < n, ∀ q < n, M p q = M q p
  eig : ∀ m < n, ∀ p < n, mv n M (V m) p = lam m * V m p
  orth : ∀ m < n, ∀ m' < n, m ≠ m' → ip n (V m) (V m') = 0
  nz : ∀ m < n, ip n (V m) (V m) ≠ 0

section ortho
variable {n : Nat} {V : Nat → Nat → ℝ}

/-- matrix of the vectors (columns) -/
def colMat (n : Nat) (V : Nat → Nat → ℝ) : Matrix (Fin n) (Fin n) ℝ := Matrix.of fun i k => V k.1 i.1
/-- matrix of the normalised dual vectors (rows) -/
noncomputable def rowMat (n : Nat) (V : Nat → Nat → ℝ) : Matrix (Fin n) (Fin n) ℝ :=
  Matrix.of fun k j => V k.1 j.1 / ip n (V k.1) (V k.1)

theorem rowMat_mul_colMat (orth : ∀ m < n, ∀ m' < n, m ≠ m' → ip n (V m) (V m') = 0)
    (nz : ∀ m < n, ip n (V m) (V m) ≠ 0) : rowMat n V * colMat n V = 1 := by
  ext k l
  rw [Matrix.mul_apply]
  simp only [rowMat, colMat, Matrix.of_apply]
  have e : (∑ j : Fin n, V k.1 j.1 / ip n (V k.1) (V k.1) * V l.1 j.1) = ip n (V k.1) (V l.1) / ip n (V k.1) (V k.1) := by
    rw [Fin.sum_univ_eq_sum_range (fun j => V k.1 j / ip n (V k.1) (V k.1) * V l.1 j) n]
    unfold ip
    rw [Finset.sum_div]
    exact Finset.sum_congr rfl fun j _ => by ring
  rw [e]
  by_cases hkl : k = l
  · subst hkl
    rw [Matrix.one_apply_eq, div_self (nz k.1 k.2)]
  · rw [Matrix.one_apply_ne hkl, orth k.1 k.2 l.1 l.2 (fun h => hkl (Fin.ext h)), zero_div]

theorem colMat_mul_rowMat (orth : ∀ m < n, ∀ m' < n, m ≠ m' → ip n (V m) (V m') = 0)
    (nz : ∀ m < n, ip n (V m) (V m) ≠ 0) : colMat n V * rowMat n V = 1 :=
  mul_eq_one_comm.1 (rowMat_mul_colMat orth nz)

/-- **completeness relation**: `Σ_m V m i · V m j / ‖V m‖² = δ_ij` -/
theorem complete_rel (orth : ∀ m < n, ∀ m' < n, m ≠ m' → ip n (V m) (V m') = 0)
    (nz : ∀ m < n, ip n (V m) (V m) ≠ 0) (i j : Nat) (hi : i < n) (hj : j < n) :
    (∑ m ∈ range n, V m i * (V m j / ip n (V m) (V m))) = if i = j then 1 else 0 := by
  have h := congrFun (congrFun (colMat_mul_rowMat orth nz) ⟨i, hi⟩) ⟨j, hj⟩
  rw [Matrix.mul_apply] at h
  simp only [rowMat, colMat, Matrix.of_apply] at h
  rw [Fin.sum_univ_eq_sum_range (fun m => V m i * (V m j / ip n (V m) (V m))) n] at h
  rw [h, Matrix.one_apply]
  simp [Fin.ext_iff]

/-- **the family spans**: every `x` is `Σ_m (⟨V m, x⟩ / ‖V m‖²) V m` on `0..n-1` -/
theorem expansion (orth : ∀ m < n, ∀ m' < n, m ≠ m' → ip n (V m) (V m') = 0)
    (nz : ∀ m < n, ip n (V m) (V m) ≠ 0) (x : Nat → ℝ) (i : Nat) (hi : i < n) :
    x i = ∑ m ∈ range n, (ip n (V m) x / ip n (V m) (V m)) * V m i := by
  have e : ∀ m ∈ range n, (ip n (V m) x / ip n (V m) (V m)) * V m i =
      ∑ j ∈ range n, (V m i * (V m j / ip n (V m) (V m))) * x j := by
    intro m _
    unfold ip
    rw [Finset.sum_div, Finset.sum_mul]
    exact Finset.sum_congr rfl fun j _ => by ring
  rw [Finset.sum_congr rfl e, Finset.sum_comm]
  have e2 : ∀ j ∈ range n, (∑ m ∈ range n, (V m i * (V m j / ip n (V m) (V m))) * x j) =
      if i = j then x j else 0 := by
    intro j hj
    rw [← Finset.sum_mul, complete_rel orth nz i j hi (Finset.mem_range.1 hj)]
    split <;> simp
  rw [Finset.sum_congr rfl e2, sum_pick n i hi]

/-- the coefficient of `V l` in a combination is recovered by the inner product -/
theorem ip_comb (orth : ∀ m < n, ∀ m' < n, m ≠ m' → ip n (V m) (V m') = 0) (a : Nat → ℝ) (l : Nat) (hl : l < n) :
    ip n (V l) (fun p => ∑ m ∈ range n, a m * V m p) = a l * ip n (V l) (V l) := by
  unfold ip
  simp only [Finset.mul_sum]
  rw [Finset.sum_comm]
  have e : ∀ m ∈ range n, (∑ p ∈ range n, V l p * (a m * V m p)) = if l = m then a m * ip n (V l) (V m) else 0 := by
    intro m hm
    have : (∑ p ∈ range n, V l p * (a m * V m p)) = a m * ip n (V l) (V m) := by
      unfold ip
      rw [Finset.mul_sum]
      exact Finset.sum_congr rfl fun p _ => by ring
    rw [this]
    by_cases h : l = m
    · rw [if_pos h]
    · rw [if_neg h, orth l hl m (Finset.mem_range.1 hm) h, mul_zero]
  rw [Finset.sum_congr rfl e, sum_pick n l hl]
  simp only [ip, Finset.mul_sum]

/-- **linear independence** -/
theorem linindep (orth : ∀ m < n, ∀ m' < n, m ≠ m' → ip n (V m) (V m') = 0)
    (nz : ∀ m < n, ip n (V m) (V m) ≠ 0) (a : Nat → ℝ)
    (h : ∀ p < n, (∑ m ∈ range n, a m * V m p) = 0) : ∀ m < n, a m = 0 := by
  intro l hl
  have h1 := ip_comb orth a l hl
  have h2 : ip n (V l) (fun p => ∑ m ∈ range n, a m * V m p) = 0 := by
    unfold ip
    apply Finset.sum_eq_zero
    intro p hp
    show V l p * (∑ m ∈ range n, a m * V m p) = 0
    rw [h p (Finset.mem_range.1 hp), mul_zero]
  rw [h2] at h1
  rcases mul_eq_zero.1 h1.symm with h0 | h0
  · exact h0
  · exact absurd h0 (nz l hl)

end ortho

section eigen
variable {n : Nat} {M : Nat → Nat → ℝ} {V : Nat → Nat → ℝ} {lam : Nat → ℝ}

/-- an eigenvector for `mu` is orthogonal to every `V m` with `lam m ≠ mu` -/
theorem OrthoEigen.coef_zero (h : OrthoEigen n M V lam) (mu : ℝ) (w : Nat → ℝ)
    (hw : ∀ p < n, mv n M w p = mu * w p) (m : Nat) (hm : m < n) (hne : lam m ≠ mu) : ip n (V m) w = 0 :=
  orth_of_ne n M h.symm (V m) w (lam m) mu (h.eig m hm) hw hne

/-- **the eigenspace of `mu` is spanned by the `V m` with `lam m = mu`** -/
theorem OrthoEigen.eigenspace (h : OrthoEigen n M V lam) (mu : ℝ) (w : Nat → ℝ)
    (hw : ∀ p < n, mv n M w p = mu * w p) (i : Nat) (hi : i < n) :
    w i = ∑ m ∈ (range n).filter (fun m => lam m = mu), (ip n (V m) w / ip n (V m) (V m)) * V m i := by
  rw [expansion h.orth h.nz w i hi, Finset.sum_filter]
  apply Finset.sum_congr rfl
  intro m hm
  by_cases hl : lam m = mu
  · rw [if_pos hl]
  · rw [if_neg hl, h.coef_zero mu w hw m (Finset.mem_range.1 hm) hl]; simp

/-- **every eigenvalue is one of the `lam m`** -/
theorem OrthoEigen.eigenvalue_mem (h : OrthoEigen n M V lam) (mu : ℝ) (w : Nat → ℝ)
    (hne : ∃ p < n, w p ≠ 0) (hw : ∀ p < n, mv n M w p = mu * w p) : ∃ m < n, lam m = mu := by
  by_contra hcon
  obtain ⟨p, hp, hwp⟩ := hne
  apply hwp
  rw [h.eigenspace mu w hw p hp]
  apply Finset.sum_eq_zero
  intro m hm
  obtain ⟨hm1, hm2⟩ := Finset.mem_filter.1 hm
  exact absurd ⟨m, Finset.mem_range.1 hm1, hm2⟩ hcon

/-- the matrix of the leading block -/
def toMat (n : Nat) (M : Nat → Nat → ℝ) : Matrix (Fin n) (Fin n) ℝ := Matrix.of fun i j => M i.1 j.1

theorem toMat_mul_colMat (h : OrthoEigen n M V lam) :
    toMat n M * colMat n V = colMat n V * Matrix.diagonal (fun m : Fin n => lam m.1) := by
  ext i k
  rw [Matrix.mul_apply, Matrix.mul_diagonal]
  simp only [toMat, colMat, Matrix.of_apply]
  rw [Fin.sum_univ_eq_sum_range (fun j => M i.1 j * V k.1 j) n]
  have := h.eig k.1 k.2 i.1 i.2
  unfold mv at this
  rw [this]; ring

open Polynomial in
/-- **characteristic polynomial**: `det (X - M) = Π_m (X - lam m)` -/
theorem OrthoEigen.charpoly_eq (h : OrthoEigen n M V lam) :
    (toMat n M).charpoly = ∏ m : Fin n, (X - C (lam m.1)) := by
  have h1 : toMat n M = colMat n V * (Matrix.diagonal (fun m : Fin n => lam m.1) * rowMat n V) := by
    rw [← Matrix.mul_assoc, ← toMat_mul_colMat h, Matrix.mul_assoc, colMat_mul_rowMat h.orth h.nz, Matrix.mul_one]
  rw [h1, Matrix.charpoly_mul_comm, Matrix.mul_assoc, rowMat_mul_colMat h.orth h.nz, Matrix.mul_one,
    Matrix.charpoly_diagonal]

/-- **algebraic multiplicity** of `mu` = number of `m < n` with `lam m = mu` -/
theorem OrthoEigen.rootMultiplicity_eq (h : OrthoEigen n M V lam) (mu : ℝ) :
    (toMat n M).charpoly.rootMultiplicity mu = ((range n).filter fun m => lam m = mu).card := by
  classical
  rw [h.charpoly_eq, ← Polynomial.count_roots]
  have e : (∏ m : Fin n, (Polynomial.X - Polynomial.C (lam m.1))) =
      ((Finset.univ : Finset (Fin n)).val.map fun m => Polynomial.X - Polynomial.C (lam m.1)).prod := rfl
  have e2 : ((Finset.univ : Finset (Fin n)).val.map fun m => Polynomial.X - Polynomial.C (lam m.1)) =
      (((Finset.univ : Finset (Fin n)).val.map fun m => lam m.1).map fun a => Polynomial.X - Polynomial.C a) := by
    rw [Multiset.map_map]; rfl
  rw [e, e2, Polynomial.roots_multiset_prod_X_sub_C, Multiset.count_map]
  have e3 : ((range n).filter fun m => lam m = mu) =
      ((Finset.univ : Finset (Fin n)).filter fun a => mu = lam a.1).map Fin.valEmbedding := by
    ext m
    simp only [Finset.mem_filter, Finset.mem_range, Finset.mem_map, Finset.mem_univ, true_and,
      Fin.valEmbedding_apply]
    constructor
    · rintro ⟨hm, hl⟩; exact ⟨⟨m, hm⟩, hl.symm, rfl⟩
    · rintro ⟨a, ha, rfl⟩; exact ⟨a.2, ha.symm⟩
  rw [e3, Finset.card_map]
  rfl

end eigen

end PyamgV.C20.Comp
