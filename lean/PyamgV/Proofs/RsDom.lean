import PyamgV.Proofs.RsBucket4

/-! PyamgV (C13): Ruge–Stüben first pass, symmetric pattern — every F-point that has a strong
connection has a strongly connected C-point (domination). Uses the bucket invariant. -/
namespace PyamgV.RS

/-- symmetric pattern: `S.row i` and `T.row i` have the same members -/
structure Sym (S T : Csr) (n : Nat) : Prop where
  same : ∀ i, i < n → ∀ j, j ∈ S.row i ↔ j ∈ T.row i

theorem incr_lam_mono (n : Nat) (s : St) (k v : Nat) : rdN s.lam v ≤ rdN (incr n s k).lam v := by
  rw [incr_eq]
  split
  · exact Nat.le_refl _
  · split
    · exact Nat.le_refl _
    · show rdN s.lam v ≤ rdN (wrN s.lam k (rdN s.lam k + 1)) v
      rw [rdN_wrN]; split
      · rename_i h; rw [← h.1]; omega
      · exact Nat.le_refl _

theorem foldl_incr_lam_mono (n : Nat) (l : List Nat) (s : St) (v : Nat) :
    rdN s.lam v ≤ rdN (l.foldl (incr n) s).lam v := by
  induction l generalizing s with
  | nil => exact Nat.le_refl _
  | cons k l ih => simp only [List.foldl_cons]; exact Nat.le_trans (incr_lam_mono n s k v) (ih _)

theorem loop1_lam (l : List Nat) (s : St) :
    (l.foldl (fun s j => if rdI s.sp j = U then { s with sp := wrI s.sp j PF } else s) s).lam = s.lam := by
  induction l generalizing s with
  | nil => rfl
  | cons a l ih =>
    simp only [List.foldl_cons]
    by_cases h : rdI s.sp a = U
    · rw [if_pos h, ih]
    · rw [if_neg h, ih]

theorem loop2_lam_mono (S : Csr) (l : List Nat) (s : St) (v : Nat) :
    rdN s.lam v ≤ rdN (l.foldl (fun s j =>
      if rdI s.sp j = PF then
        let s := { s with sp := wrI s.sp j F }
        (S.row j).foldl (incr S.n) s
      else s) s).lam v := by
  induction l generalizing s with
  | nil => exact Nat.le_refl _
  | cons a l ih =>
    simp only [List.foldl_cons]
    by_cases h : rdI s.sp a = PF
    · rw [if_pos h]
      refine Nat.le_trans ?_ (ih _)
      exact foldl_incr_lam_mono S.n (S.row a) { s with sp := wrI s.sp a F } v
    · rw [if_neg h]; exact ih s

theorem foldl_decr_id (l : List Nat) (s : St) (h : ∀ j ∈ l, rdI s.sp j ≠ U) : l.foldl decr s = s := by
  induction l with
  | nil => rfl
  | cons a l ih =>
    simp only [List.foldl_cons]
    have : decr s a = s := by rw [decr_eq, if_pos (h a (by simp))]
    rw [this]; exact ih (fun j hj => h j (by simp [hj]))

/-- in the symmetric case `lambda` never decreases during a step -/
theorem step_lam_mono (S T : Csr) (n : Nat) (hsym : Sym S T n) (hTb : SOK T n) (s s' : St) (top : Nat)
    (hI : RInv T s.sp) (hTn : T.n = n) (hi : rdN s.i2n top < n)
    (hs : step S T s top = some s') (v : Nat) : rdN s.lam v ≤ rdN s'.lam v := by
  unfold step at hs
  simp only at hs
  split at hs
  · exact absurd hs (by simp)
  · split at hs
    · simp only [Option.some.injEq] at hs; subst hs; exact Nat.le_refl _
    · rename_i hU
      simp only [Option.some.injEq] at hs
      subst hs
      have hUe : rdI s.sp (rdN s.i2n top) = U := by simpa using hU
      generalize hi' : rdN s.i2n top = i at *
      -- the decrement loop is the identity: every node i depends on is already decided
      have hisz : i < s.sp.size := by rw [hI.size, hTn]; exact hi
      have hb : ∀ j ∈ T.row i, j < s.sp.size := by
        intro j hj; rw [hI.size, hTn]; exact hTb.bound i hi j hj
      obtain ⟨_, nsp⟩ := net_effect s.sp i (T.row i) hisz hb hI.noPF
      have hdec : ∀ j ∈ S.row i, rdI
          ((T.row i).foldl (fun s j =>
            if rdI s.sp j = PF then
              let s := { s with sp := wrI s.sp j F }
              (S.row j).foldl (incr S.n) s
            else s)
            ((T.row i).foldl (fun s j => if rdI s.sp j = U then { s with sp := wrI s.sp j PF } else s)
              { s with icnt := wrN s.icnt (rdN s.lam i) (rdN s.icnt (rdN s.lam i) - 1),
                       sp := wrI s.sp i C })).sp j ≠ U := by
        intro j hj
        rw [loop2_sp, loop1_sp]
        show rdI (markF (markPF (wrI s.sp i C) (T.row i)) (T.row i)) j ≠ U
        rw [nsp j]
        have hjT : j ∈ T.row i := (hsym.same i hi j).1 hj
        split
        · decide
        · split
          · decide
          · rename_i h1 h2
            intro hu; exact h2 ⟨hjT, hu⟩
      rw [foldl_decr_id _ _ hdec]
      refine Nat.le_trans ?_ (loop2_lam_mono S (T.row i) _ v)
      rw [loop1_lam]
      exact Nat.le_refl _

#print axioms step_lam_mono
end PyamgV.RS

namespace PyamgV.RS

structure DInv (T : Csr) (s : St) : Prop where
  r : RInv T s.sp
  fnb : ∀ k, k < T.n → rdI s.sp k = F →
    (∀ j ∈ T.row k, j = k) ∨ ∃ i ∈ T.row k, i ≠ k ∧ rdI s.sp i = C
  lamlb : ∀ k, k < T.n → rdI s.sp k = U → (T.row k).length ≤ rdN s.lam k

theorem step_DInv (S T : Csr) (n : Nat) (hTn : T.n = n) (hsym : Sym S T n) (hT : TOK T) (hTb : SOK T n)
    (s s' : St) (top : Nat) (hi : rdN s.i2n top < n) (hD : DInv T s)
    (hs : step S T s top = some s') : DInv T s' := by
  have hr' := step_RInv S T hT s top s' hs hD.r
  have hsp := step_sp S T s top s' hs
  have hlam := step_lam_mono S T n hsym hTb s s' top hD.r hTn hi hs
  simp only at hsp
  by_cases hU : rdI s.sp (rdN s.i2n top) ≠ U
  · rw [if_pos hU] at hsp
    refine ⟨hr', ?_, ?_⟩
    · intro k hk hF; rw [hsp] at hF ⊢; exact hD.fnb k hk hF
    · intro k hk hUk; rw [hsp] at hUk
      exact Nat.le_trans (hD.lamlb k hk hUk) (hlam k)
  · rw [if_neg hU] at hsp
    have hUe : rdI s.sp (rdN s.i2n top) = U := by simpa using hU
    generalize rdN s.i2n top = i at *
    have hin : i < T.n := by rw [hTn]; exact hi
    have hisz : i < s.sp.size := by rw [hD.r.size]; exact hin
    have hb : ∀ j ∈ T.row i, j < s.sp.size := by
      intro j hj; rw [hD.r.size]; exact hT.bound i hin j hj
    obtain ⟨_, nsp⟩ := net_effect s.sp i (T.row i) hisz hb hD.r.noPF
    refine ⟨hr', ?_, ?_⟩
    · intro k hk hF
      rw [hsp, nsp k] at hF
      by_cases hki : k = i
      · rw [if_pos hki] at hF; exact absurd hF (by decide)
      · rw [if_neg hki] at hF
        by_cases hc : k ∈ T.row i ∧ rdI s.sp k = U
        · right
          refine ⟨i, (hT.symm i k hin hk).1 hc.1, fun e => hki e.symm, ?_⟩
          rw [hsp, nsp i, if_pos rfl]
        · rw [if_neg hc] at hF
          rcases hD.fnb k hk hF with h0 | ⟨i', hi', hne, hC⟩
          · exact Or.inl h0
          · right
            refine ⟨i', hi', hne, ?_⟩
            rw [hsp, nsp i']
            by_cases h1 : i' = i
            · rw [if_pos h1]
            · rw [if_neg h1, if_neg (fun hh => by rw [hC] at hh; exact absurd hh.2 (by decide))]; exact hC
    · intro k hk hUk
      rw [hsp, nsp k] at hUk
      have hUold : rdI s.sp k = U := by
        split at hUk
        · exact absurd hUk (by decide)
        · split at hUk
          · exact absurd hUk (by decide)
          · exact hUk
      exact Nat.le_trans (hD.lamlb k hk hUold) (hlam k)

/-- after the main loop: invariants hold and any node still undecided has no connection at all -/
theorem go_final (S T : Csr) (n L : Nat) (hSn : S.n = n) (hTn : T.n = n) (hS : SOK S n) (hTb : SOK T n)
    (hT : TOK T) (hsym : Sym S T n) (hnL : n + 1 ≤ L) :
    ∀ (fuel top : Nat) (s : St), fuel = top + 1 → AllInv n L (top+1) s → DInv T s →
      DInv T (run.go S T fuel top s) ∧
      (∀ k, k < n → rdI (run.go S T fuel top s).sp k = U → T.row k = []) := by
  intro fuel
  induction fuel with
  | zero => intro top s h; omega
  | succ f ih =>
    intro top s hf hA hD
    have htop : top = f := by omega
    subst htop
    have htn := hA.B.top
    obtain ⟨hin, hn2i⟩ := hA.B.p1 top (by omega)
    simp only [run.go]
    cases hs : step S T s top with
    | none =>
      simp only
      refine ⟨hD, ?_⟩
      -- the loop broke: the node at `top` has lambda = 0, so every unvisited node has
      have hl0 : rdN s.lam (rdN s.i2n top) = 0 := by
        unfold step at hs
        simp only at hs
        split at hs
        · assumption
        · split at hs <;> exact absurd hs (by simp)
      intro k hk hUk
      have hpos : rdN s.n2i k < top + 1 := by
        by_cases hlt : rdN s.n2i k < top + 1
        · exact hlt
        · exfalso
          have := hA.V (rdN s.n2i k) (by omega) (hA.B.p2 k hk).1
          rw [(hA.B.p2 k hk).2] at this; exact this hUk
      have hlk : rdN s.lam k = 0 := by
        have hla : lamAt s (rdN s.n2i k) = rdN s.lam k := by unfold lamAt; rw [(hA.B.p2 k hk).2]
        by_cases hpt : rdN s.n2i k = top
        · rw [← hla, hpt]; exact hl0
        · have := hA.B.sorted (rdN s.n2i k) top (by omega) (by omega)
          rw [hla] at this
          have h0 : lamAt s top = 0 := hl0
          omega
      have := hD.lamlb k (by rw [hTn]; exact hk) hUk
      rw [hlk] at this
      exact List.eq_nil_of_length_eq_zero (by omega)
    | some s' =>
      simp only
      have hA' := step_All S T n L top hSn hS hTb hnL s s' hA hs
      have hD' := step_DInv S T n hTn hsym hT hTb s s' top hin hD hs
      by_cases ht0 : top = 0
      · rw [if_pos ht0]
        refine ⟨hD', ?_⟩
        intro k hk hUk
        exfalso
        subst ht0
        have := hA'.V (rdN s'.n2i k) (by omega) (hA'.B.p2 k hk).1
        rw [(hA'.B.p2 k hk).2] at this; exact this hUk
      · rw [if_neg ht0]
        have : top - 1 + 1 = top := by omega
        exact ih (top - 1) s' (by omega) (by rw [this]; exact hA') hD'

#print axioms go_final
end PyamgV.RS

namespace PyamgV.RS

theorem init_lam (S T : Csr) (k : Nat) (hk : k < S.n) :
    rdN (init S T).lam k = rdN T.ap (k+1) - rdN T.ap k := by
  simp only [init, rdN, Array.getD_eq_getD_getElem?, Array.getElem?_map, Array.getElem?_range, hk,
    if_true, Option.map_some, Option.getD_some]

theorem init_sp (S T : Csr) (k : Nat) (hk : k < S.n) :
    rdI (init S T).sp k =
      if rdN (init S T).lam k = 0 ∨ (rdN (init S T).lam k = 1 ∧ rdN T.aj (rdN T.ap k) = k) then F else U := by
  rw [init_lam S T k hk]
  simp only [init, rdI, rdN, Array.getD_eq_getD_getElem?, Array.getElem?_map, Array.getElem?_range, hk,
    if_true, Option.map_some, Option.getD_some]

theorem row_length (T : Csr) (k : Nat) : (T.row k).length = rdN T.ap (k+1) - rdN T.ap k := by
  simp [Csr.row]

theorem init_DInv (S T : Csr) (hST : S.n = T.n) : DInv T (init S T) := by
  refine ⟨init_RInv S T hST, ?_, ?_⟩
  · intro k hk hF
    have hk' : k < S.n := by omega
    rw [init_sp S T k hk'] at hF
    left
    split at hF
    · rename_i hc
      rw [init_lam S T k hk'] at hc
      intro j hj
      rcases hc with h0 | ⟨h1, h2⟩
      · have := row_length T k; rw [h0] at this
        have : T.row k = [] := List.eq_nil_of_length_eq_zero this
        rw [this] at hj; exact absurd hj (by simp)
      · simp only [Csr.row, h1, List.range'_one, List.map_cons, List.map_nil, List.mem_singleton] at hj
        rw [hj]; exact h2
    · exact absurd hF (by decide)
  · intro k hk _
    have hk' : k < S.n := by omega
    rw [init_lam S T k hk', row_length]
    exact Nat.le_refl _

/-- **C13, Ruge–Stüben first pass, domination** (symmetric strength pattern): every node that
ends up fine either has no off-diagonal strong connection or is strongly connected to a coarse
node. Relative to the initial bucket state being well formed (`hinit`, the counting sort). -/
theorem rs_dominating (S T : Csr) (n L : Nat) (hn : 1 ≤ n) (hSn : S.n = n) (hTn : T.n = n)
    (hS : SOK S n) (hTb : SOK T n) (hT : TOK T) (hsym : Sym S T n) (hnL : n + 1 ≤ L)
    (hinit : AllInv n L n (init S T)) :
    let out := run S T
    ∀ k, k < n → rdI out k = F →
      (∀ j ∈ T.row k, j = k) ∨ ∃ i ∈ T.row k, i ≠ k ∧ rdI out i = C := by
  intro out k hk hF
  have hD0 := init_DInv S T (by omega)
  have hn1 : n - 1 + 1 = n := by omega
  obtain ⟨hD, hfin⟩ := go_final S T n L hSn hTn hS hTb hT hsym hnL n (n - 1) (init S T) (by omega)
    (by rw [hn1]; exact hinit) hD0
  have hrun : run S T = (run.go S T n (n - 1) (init S T)).sp.map (fun v => if v = U then F else v) := by
    unfold run
    simp only
    rw [if_neg (by omega), hSn]
  generalize run.go S T n (n - 1) (init S T) = r at hD hfin hrun
  have hout : ∀ q, q < n → rdI out q = if rdI r.sp q = U then F else rdI r.sp q := by
    intro q hq
    have hq' : q < r.sp.size := by rw [hD.r.size, hTn]; exact hq
    show rdI (run S T) q = _
    rw [hrun]
    simp only [rdI, Array.getD_eq_getD_getElem?, Array.getElem?_map]
    simp [Array.getElem?_eq_getElem hq']
  rw [hout k hk] at hF
  by_cases hU : rdI r.sp k = U
  · left
    have := hfin k hk hU
    rw [this]; intro j hj; exact absurd hj (by simp)
  · rw [if_neg hU] at hF
    rcases hD.fnb k (by omega) hF with h0 | ⟨i, hi, hne, hC⟩
    · exact Or.inl h0
    · right
      refine ⟨i, hi, hne, ?_⟩
      have hin : i < n := by rw [← hTn]; exact hT.bound k (by omega) i hi
      rw [hout i hin, hC]; decide

#print axioms rs_dominating
end PyamgV.RS
