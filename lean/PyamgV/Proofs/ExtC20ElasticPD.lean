import PyamgV.Proofs.C20Spd

/-! PyamgV (C20, extension E21): **strict positive definiteness of the Dirichlet Q1 elasticity matrix**
returned by the model of `q12d` (`dirichlet_boundary=True`), for every grid shape, positive spacings and
Lame parameters with `mu > 0`, `lame + mu > 0` (every `E > 0`, `-1 < nu < 1/2`).

`xᵀ A_D x = Σ_elements y_eᵀ K y_e` for the extension `y` of `x` by zero on the boundary nodes
(`qform_restrict`), every summand is non-negative (`kloc_psd`), and a zero-energy element displacement that
vanishes on the lower edge of the element vanishes on the upper edge (the Simpson sum of squares
`kloc_sos` at the corner `(0, 0)`, `(1, 0)` gives `u_y = v_y = 0` there).  Row by row from the constrained
bottom row of nodes, `y = 0`, hence `x = 0`. -/
namespace PyamgV.C20

theorem list_sum_zero_of_nonneg {α : Type} (l : List α) (f : α → Rat) (hf : ∀ e ∈ l, 0 ≤ f e)
    (h : (l.map f).sum = 0) : ∀ e ∈ l, f e = 0 := by
  induction l with
  | nil => intro e he; simp at he
  | cons a l ih =>
    simp only [List.map_cons, List.sum_cons] at h
    have h1 := hf a (by simp)
    have h2 := sum_map_nonneg l f (fun e he => hf e (by simp [he]))
    intro e he
    simp only [List.mem_cons] at he
    rcases he with rfl | he
    · linarith
    · exact ih (fun e he => hf e (by simp [he])) (by linarith) e he

/-! ## the element matrix -/

theorem sq_div_zero (a d : Rat) (hd : d ≠ 0) (h : (a / d) ^ 2 = 0) : a = 0 := by
  have h1 : a / d = 0 := pow_eq_zero_iff (by decide) |>.1 h
  rcases div_eq_zero_iff.1 h1 with h2 | h2
  · exact h2
  · exact absurd h2 hd

/-- a zero-energy displacement of a rectangle that vanishes at the two lower nodes (local dofs `0..3`)
vanishes at the two upper nodes (local dofs `4..7`) -/
theorem kloc_bottom_zero (DX DY lame mu : Rat) (hDX : 0 < DX) (hDY : 0 < DY) (hmu : 0 < mu) (hl : 0 < lame + mu)
    (y : Nat → Rat)
    (h : ((List.range 8).map fun a => ((List.range 8).map fun b =>
        y b * kloc (M2.inv ⟨DX, 0, 0, DY⟩) lame mu a b * y a).sum).sum = 0)
    (h0 : y 0 = 0) (h1 : y 1 = 0) (h2 : y 2 = 0) (h3 : y 3 = 0) :
    y 4 = 0 ∧ y 5 = 0 ∧ y 6 = 0 ∧ y 7 = 0 := by
  rw [kloc_sos DX DY lame mu (ne_of_gt hDX) (ne_of_gt hDY)] at h
  have hpos : DX * DY ≠ 0 := ne_of_gt (mul_pos hDX hDY)
  have hs := (mul_eq_zero.1 h).resolve_left hpos
  simp only [simpson, List.map_cons, List.map_nil, List.sum_cons, List.sum_nil] at hs
  have nn := fun s t => density_nonneg DX DY lame mu (le_of_lt hmu) (le_of_lt hl) y s t
  have d00 : density DX DY lame mu y 0 0 = 0 := by
    linarith [nn 0 0, nn 0 (1 / 2), nn 0 1, nn (1 / 2) 0, nn (1 / 2) (1 / 2), nn (1 / 2) 1, nn 1 0, nn 1 (1 / 2), nn 1 1]
  have d10 : density DX DY lame mu y 1 0 = 0 := by
    linarith [nn 0 0, nn 0 (1 / 2), nn 0 1, nn (1 / 2) 0, nn (1 / 2) (1 / 2), nn (1 / 2) 1, nn 1 0, nn 1 (1 / 2), nn 1 1]
  have hDY' := ne_of_gt hDY
  -- corner (0, 0): u_y = y6 / DY, v_y = y7 / DY, u_x = v_x = 0
  have k00 : (lame + mu) * (y 7 / DY) ^ 2 + mu * (y 7 / DY) ^ 2 + mu * (y 6 / DY) ^ 2 = 0 := by
    have := d00
    simp only [density, h0, h1, h2, h3] at this
    rw [← this]; ring
  -- corner (1, 0): u_y = y4 / DY, v_y = y5 / DY, u_x = v_x = 0
  have k10 : (lame + mu) * (y 5 / DY) ^ 2 + mu * (y 5 / DY) ^ 2 + mu * (y 4 / DY) ^ 2 = 0 := by
    have := d10
    simp only [density, h0, h1, h2, h3] at this
    rw [← this]; ring
  have solve : ∀ a b : Rat, (lame + mu) * (a / DY) ^ 2 + mu * (a / DY) ^ 2 + mu * (b / DY) ^ 2 = 0 → a = 0 ∧ b = 0 := by
    intro a b hk
    have p1 : 0 ≤ (lame + mu) * (a / DY) ^ 2 := mul_nonneg (le_of_lt hl) (sq_nonneg _)
    have p2 : 0 ≤ mu * (a / DY) ^ 2 := mul_nonneg (le_of_lt hmu) (sq_nonneg _)
    have p3 : 0 ≤ mu * (b / DY) ^ 2 := mul_nonneg (le_of_lt hmu) (sq_nonneg _)
    have z2 : mu * (a / DY) ^ 2 = 0 := by linarith
    have z3 : mu * (b / DY) ^ 2 = 0 := by linarith
    exact ⟨sq_div_zero a DY hDY' ((mul_eq_zero.1 z2).resolve_left (ne_of_gt hmu)),
      sq_div_zero b DY hDY' ((mul_eq_zero.1 z3).resolve_left (ne_of_gt hmu))⟩
  obtain ⟨e7, e6⟩ := solve _ _ k00
  obtain ⟨e5, e4⟩ := solve _ _ k10
  exact ⟨e4, e5, e6, e7⟩

/-! ## the assembled operator -/

theorem qform_assemble (X Y : Nat) (K : Nat → Nat → Rat) (x : Nat → Rat) :
    qform (assemble X Y K) x = ((elems X Y).map fun base => ((List.range 8).map fun a =>
      ((List.range 8).map fun b => x (base + off X b) * K a b * x (base + off X a)).sum).sum).sum := by
  unfold qform assemble
  rw [sum_flatMap']
  congr 1
  apply List.map_congr_left
  intro base _
  rw [sum_elem]

theorem mem_elems_of (X Y i j : Nat) (hi : i < X) (hj : j < Y) : 2 * (j * (X + 1) + i) ∈ elems X Y := by
  unfold elems
  simp only [List.mem_flatMap, List.mem_map, List.mem_range]
  exact ⟨j, hj, i, hi, rfl⟩

/-- a zero-energy field of the assembled (free) operator that vanishes on the bottom row of nodes and at the
right-most node of every row vanishes at every node -/
theorem assemble_zero_rows (X Y : Nat) (DX DY lame mu : Rat) (hDX : 0 < DX) (hDY : 0 < DY) (hmu : 0 < mu)
    (hl : 0 < lame + mu) (z : Nat → Rat)
    (h : qform (assemble X Y (kloc (M2.inv ⟨DX, 0, 0, DY⟩) lame mu)) z = 0)
    (hbot : ∀ i ≤ X, z (2 * i) = 0 ∧ z (2 * i + 1) = 0)
    (hright : ∀ j ≤ Y, z (2 * (j * (X + 1) + X)) = 0 ∧ z (2 * (j * (X + 1) + X) + 1) = 0) :
    ∀ j ≤ Y, ∀ i ≤ X, z (2 * (j * (X + 1) + i)) = 0 ∧ z (2 * (j * (X + 1) + i) + 1) = 0 := by
  rw [qform_assemble] at h
  have hel := list_sum_zero_of_nonneg _ _
    (fun base _ => kloc_psd DX DY lame mu hDX hDY (le_of_lt hmu) (le_of_lt hl) (fun a => z (base + off X a))) h
  intro j
  induction j with
  | zero =>
    intro _ i hi
    have := hbot i hi
    simpa using this
  | succ j ih =>
    intro hj i hi
    rcases Nat.lt_or_ge i X with hiX | hiX
    · have hz := hel _ (mem_elems_of X Y i j hiX (by omega))
      have lo := ih (by omega) i (by omega)
      have lo' := ih (by omega) (i + 1) (by omega)
      have e2 : 2 * (j * (X + 1) + i) + 2 = 2 * (j * (X + 1) + (i + 1)) := by ring
      have e3 : 2 * (j * (X + 1) + i) + 3 = 2 * (j * (X + 1) + (i + 1)) + 1 := by ring
      have r := kloc_bottom_zero DX DY lame mu hDX hDY hmu hl (fun a => z (2 * (j * (X + 1) + i) + off X a)) hz
        (by simpa [off, offs] using lo.1) (by simpa [off, offs] using lo.2)
        (by simp only [off, offs, List.getD_cons_succ, List.getD_cons_zero]; rw [e2]; exact lo'.1)
        (by simp only [off, offs, List.getD_cons_succ, List.getD_cons_zero]; rw [e3]; exact lo'.2)
      obtain ⟨_, _, r6, r7⟩ := r
      simp only [off, offs, List.getD_cons_succ, List.getD_cons_zero] at r6 r7
      have e6 : 2 * (j * (X + 1) + i) + (2 * X + 2) = 2 * ((j + 1) * (X + 1) + i) := by ring
      have e7 : 2 * (j * (X + 1) + i) + (2 * X + 3) = 2 * ((j + 1) * (X + 1) + i) + 1 := by ring
      rw [e6] at r6
      rw [e7] at r7
      exact ⟨r6, r7⟩
    · have : i = X := by omega
      subst this
      exact hright (j + 1) hj

/-! ## Dirichlet elimination -/

theorem not_interior_row0 (X Y i : Nat) (hi : i ≤ X) : interior X Y i = false := by
  unfold interior
  have : i / (X + 1) = 0 := Nat.div_eq_of_lt (by omega)
  simp [this]

theorem not_interior_right (X Y j : Nat) : interior X Y (j * (X + 1) + X) = false := by
  unfold interior
  rw [node_mod X j X (Nat.le_refl _)]
  simp

theorem filter_range_len_lt (p : Nat → Bool) (k n : Nat) (hk : k < n) (hp : p k = true) :
    ((List.range k).filter p).length < ((List.range n).filter p).length := by
  obtain ⟨e, rfl⟩ : ∃ e, n = k + (e + 1) := ⟨n - k - 1, by omega⟩
  rw [List.range_add, List.filter_append, List.length_append, List.range_succ_eq_map, List.map_cons,
    List.filter_cons, if_pos (by simpa using hp)]
  simp

theorem mem_filter_range_idx (p : Nat → Bool) (n idx : Nat) (h : idx < ((List.range n).filter p).length) :
    ∃ k, k < n ∧ p k = true ∧ ((List.range k).filter p).length = idx := by
  have hnd : ((List.range n).filter p).Nodup := List.Nodup.filter _ List.nodup_range
  obtain ⟨k, hkdef⟩ : ∃ k, k = ((List.range n).filter p)[idx] := ⟨_, rfl⟩
  have hk : k ∈ (List.range n).filter p := by rw [hkdef]; exact List.getElem_mem h
  obtain ⟨hk1, hk2⟩ := List.mem_filter.1 hk
  have hkn := List.mem_range.1 hk1
  refine ⟨k, hkn, hk2, ?_⟩
  have hlt := filter_range_len_lt p k n hkn hk2
  have hg := getD_filter_range p n k hkn hk2
  rw [List.getD_eq_getElem?_getD, List.getElem?_eq_getElem hlt] at hg
  simp only [Option.getD_some] at hg
  exact (List.Nodup.getElem_inj_iff hnd).1 (hg.trans hkdef)

/-- **the Dirichlet stiffness matrix is positive definite**: `xᵀ A x = 0` only if `x` vanishes on all
`ndof` degrees of freedom (with `q12dCore_psd`: `xᵀ A x > 0` otherwise) -/
theorem q12dCore_dirichlet_definite (X Y : Nat) (DX DY lame mu : Rat) (hDX : 0 < DX) (hDY : 0 < DY) (hmu : 0 < mu)
    (hl : 0 < lame + mu) (x : Nat → Rat)
    (h : qform (q12dCore X Y DX DY lame mu true).A x = 0) :
    ∀ m < (q12dCore X Y DX DY lame mu true).ndof, x m = 0 := by
  have h' : qform (restrict X Y (assemble X Y (kloc (M2.inv ⟨DX, 0, 0, DY⟩) lame mu))) x = 0 := h
  rw [qform_restrict] at h'
  have hz := assemble_zero_rows X Y DX DY lame mu hDX hDY hmu hl _ h'
    (fun i hi => by
      have e1 : (2 * i) / 2 = i := by omega
      have e2 : (2 * i + 1) / 2 = i := by omega
      simp only [e1, e2, not_interior_row0 X Y i hi]
      exact ⟨by simp, by simp⟩)
    (fun j _ => by
      have e1 : (2 * (j * (X + 1) + X)) / 2 = j * (X + 1) + X := by omega
      have e2 : (2 * (j * (X + 1) + X) + 1) / 2 = j * (X + 1) + X := by omega
      simp only [e1, e2, not_interior_right X Y j]
      exact ⟨by simp, by simp⟩)
  intro m hm
  have hm' : m < 2 * ((List.range ((X + 1) * (Y + 1))).filter (interior X Y)).length := hm
  obtain ⟨k, hkn, hk, hren⟩ := mem_filter_range_idx (interior X Y) ((X + 1) * (Y + 1)) (m / 2) (by omega)
  have hkint : interior X Y k = true := hk
  unfold interior at hk
  simp only [Bool.and_eq_true, decide_eq_true_eq] at hk
  have := hz (k / (X + 1)) (by omega) (k % (X + 1)) (by omega)
  rw [Nat.div_add_mod'] at this
  have e1 : (2 * k) / 2 = k := by omega
  have e2 : (2 * k + 1) / 2 = k := by omega
  simp only [e1, e2, hkint, if_true, renDof] at this
  have hr : ren X Y k = m / 2 := hren
  rw [hr] at this
  rcases Nat.mod_two_eq_zero_or_one m with hpar | hpar
  · have em : 2 * (m / 2) + 2 * k % 2 = m := by omega
    rw [em] at this
    exact this.1
  · have em : 2 * (m / 2) + (2 * k + 1) % 2 = m := by omega
    rw [em] at this
    exact this.2

/-- `E > 0`, `-1 < nu < 1/2` give `mu > 0` and `lame + mu > 0` -/
theorem lame_pos (E nu : Rat) (hE : 0 < E) (h1 : -1 < nu) (h2 : nu < 1 / 2) :
    0 < E / (2 + 2 * nu) ∧ 0 < E * nu / ((1 + nu) * (1 - 2 * nu)) + E / (2 + 2 * nu) := by
  have ha : 0 < 1 + nu := by linarith
  have hb : 0 < 1 - 2 * nu := by linarith
  have hc : 0 < 2 + 2 * nu := by linarith
  refine ⟨div_pos hE hc, ?_⟩
  have e : E * nu / ((1 + nu) * (1 - 2 * nu)) + E / (2 + 2 * nu) = E / (2 * (1 + nu) * (1 - 2 * nu)) := by
    have ha' := ne_of_gt ha
    have hb' := ne_of_gt hb
    have hc' := ne_of_gt hc
    have h2 : (2 + 2 * nu) = 2 * (1 + nu) := by ring
    have n1 : (1 + nu) * (1 - 2 * nu) ≠ 0 := mul_ne_zero ha' hb'
    have n2 : 2 * (1 + nu) ≠ 0 := mul_ne_zero two_ne_zero ha'
    have n3 : 2 * (1 + nu) * (1 - 2 * nu) ≠ 0 := mul_ne_zero n2 hb'
    rw [h2, div_add_div _ _ n1 n2, div_eq_div_iff (mul_ne_zero n1 n2) n3]
    ring
  rw [e]
  exact div_pos hE (by positivity)

/-- **what `q12d(..., dirichlet_boundary=True)` returns is symmetric positive definite** for positive
spacings, `E > 0` and `-1 < nu < 1/2`: `xᵀ A x ≥ 0`, with equality only for `x = 0` -/
theorem q12d_dirichlet_posdef (X0 Y0 : Nat) (sp : Option (Rat × Rat)) (E nu : Rat) (R : Q12)
    (h : q12d X0 Y0 sp E nu true = some R) (hsx : 0 < (sp.getD (1, 1)).1) (hsy : 0 < (sp.getD (1, 1)).2)
    (hE : 0 < E) (h1 : -1 < nu) (h2 : nu < 1 / 2) (x : Nat → Rat) :
    0 ≤ qform R.A x ∧ (qform R.A x = 0 → ∀ m < R.ndof, x m = 0) := by
  obtain ⟨hR, _⟩ := q12d_some X0 Y0 sp E nu true R h
  obtain ⟨p1, p2⟩ := lame_pos E nu hE h1 h2
  rw [hR]
  exact ⟨q12dCore_psd _ _ _ _ _ _ hsx hsy (le_of_lt p1) (le_of_lt p2) true x,
    q12dCore_dirichlet_definite _ _ _ _ _ _ hsx hsy p1 p2 x⟩

end PyamgV.C20
