import PyamgV.Model.C06Krylov
/-! PyamgV (C06): the control flow of the GMRES family (`gmresCtl` of `Model/C06Krylov.lean`:
inner/outer/restart counters, early inner exit on the Givens estimate, explicit residual at the end
of every cycle).  Status `0` is only ever returned after the *explicitly recomputed* residual of the
returned iterate passed the test, so "status 0 ⇒ criterion" needs no Arnoldi/Givens invariant; the
iteration counter equals the number of recorded iterates unless it is incremented after the early
`break` (`late`; `_fgmres.py` before 925d7a0, no file any more).  Core Lean only. -/
namespace PyamgV.C06

theorem gInner_spec (late : Bool) (gtest : Nat → Bool) (maxInner base : Nat) :
    ∀ (fuel inner : Nat), inner + fuel = maxInner →
      inner ≤ (gInner late gtest maxInner base fuel inner).1 ∧
      (gInner late gtest maxInner base fuel inner).1 ≤ maxInner ∧
      (1 ≤ fuel → inner + 1 ≤ (gInner late gtest maxInner base fuel inner).1) ∧
      (late = false → (gInner late gtest maxInner base fuel inner).2 = (gInner late gtest maxInner base fuel inner).1) ∧
      (gInner late gtest maxInner base fuel inner).2 ≤ (gInner late gtest maxInner base fuel inner).1 ∧
      ((∀ j, gtest j = false) → (gInner late gtest maxInner base fuel inner).1 = maxInner ∧
        (gInner late gtest maxInner base fuel inner).2 = maxInner) := by
  intro fuel
  induction fuel with
  | zero => intro inner h; simp [gInner]; omega
  | succ fuel ih =>
    intro inner h
    have hne : ¬ inner = maxInner := by omega
    by_cases hb : inner < maxInner - 1 ∧ gtest (base + inner + 1) = true
    · simp only [gInner, hne, hb, if_false, and_self, if_true]
      refine ⟨by omega, by omega, fun _ => by omega, ?_, ?_, ?_⟩
      · intro hl; simp [hl]
      · cases late <;> simp
      · intro hg; rw [hg] at hb; exact absurd hb.2 (by decide)
    · have : gInner late gtest maxInner base (fuel + 1) inner = gInner late gtest maxInner base fuel (inner + 1) := by
        simp only [gInner, hne, if_false]
        rw [if_neg hb]
      rw [this]
      obtain ⟨h1, h2, _, h4, h5, h6⟩ := ih (inner + 1) (by omega)
      exact ⟨by omega, h2, fun _ => h1, h4, h5, h6⟩

/-- one trichotomy for the exit of the outer loop, the counters, and the run that never passes a test -/
theorem gOuter_spec (late : Bool) (gtest rtest stag : Nat → Bool) (d : GDims) (hI : 1 ≤ d.maxInner) :
    ∀ (fuel niter done : Nat), (late = false → niter = done) → niter ≤ done →
      ((late = false → (gOuter late gtest rtest stag d fuel niter done).niter = (gOuter late gtest rtest stag d fuel niter done).ncb) ∧
       (gOuter late gtest rtest stag d fuel niter done).niter ≤ (gOuter late gtest rtest stag d fuel niter done).ncb ∧
       (1 ≤ fuel → done + 1 ≤ (gOuter late gtest rtest stag d fuel niter done).ncb) ∧
       (gOuter late gtest rtest stag d fuel niter done).ncb ≤ done + fuel * d.maxInner ∧
       (((gOuter late gtest rtest stag d fuel niter done).status = -1 ∧
            stag (gOuter late gtest rtest stag d fuel niter done).ncb = true) ∨
        ((gOuter late gtest rtest stag d fuel niter done).status = 0 ∧
            rtest (gOuter late gtest rtest stag d fuel niter done).ncb = true ∧
            stag (gOuter late gtest rtest stag d fuel niter done).ncb = false) ∨
        ((gOuter late gtest rtest stag d fuel niter done).status = (gOuter late gtest rtest stag d fuel niter done).niter ∧
            (1 ≤ fuel → rtest (gOuter late gtest rtest stag d fuel niter done).ncb = false ∧
              stag (gOuter late gtest rtest stag d fuel niter done).ncb = false))) ∧
       ((∀ j, gtest j = false) → (∀ j, rtest j = false) → (∀ j, stag j = false) →
          (gOuter late gtest rtest stag d fuel niter done).ncb = done + fuel * d.maxInner ∧
          (gOuter late gtest rtest stag d fuel niter done).niter = niter + fuel * d.maxInner ∧
          (gOuter late gtest rtest stag d fuel niter done).status = ((niter + fuel * d.maxInner : Nat) : Int))) := by
  intro fuel
  induction fuel with
  | zero =>
    intro niter done h1 h2
    have hg : gOuter late gtest rtest stag d 0 niter done = ⟨niter, niter, done⟩ := rfl
    rw [hg]
    refine ⟨h1, h2, fun h => absurd h (by omega), by simp, Or.inr (Or.inr ⟨rfl, fun h => absurd h (by omega)⟩), ?_⟩
    intro _ _ _; simp
  | succ fuel ih =>
    intro niter done h1 h2
    obtain ⟨g1, g2, g3, g4, g5, g6⟩ := gInner_spec late gtest d.maxInner done d.maxInner 0 (by omega)
    have g3' := g3 hI
    generalize hk : gInner late gtest d.maxInner done d.maxInner 0 = kd at g1 g2 g3' g4 g5 g6
    obtain ⟨k, dn⟩ := kd
    simp only at g1 g2 g3' g4 g5 g6
    have hmul : (fuel + 1) * d.maxInner = fuel * d.maxInner + d.maxInner := by
      rw [Nat.add_mul]; simp
    by_cases hs : stag (done + k) = true
    · have : gOuter late gtest rtest stag d (fuel + 1) niter done = ⟨-1, niter + dn, done + k⟩ := by
        simp only [gOuter, hk, hs, if_true]
      rw [this]
      refine ⟨fun hl => by simp; have := g4 hl; have := h1 hl; omega, by simp; omega, fun _ => by simp; omega,
        by simp; omega, Or.inl ⟨rfl, hs⟩, ?_⟩
      intro _ _ h; rw [h] at hs; exact absurd hs (by decide)
    · have hsf : stag (done + k) = false := by simpa using hs
      by_cases hr : rtest (done + k) = true
      · have : gOuter late gtest rtest stag d (fuel + 1) niter done = ⟨0, niter + dn, done + k⟩ := by
          simp only [gOuter, hk, hsf, hr, if_true, Bool.false_eq_true, if_false]
        rw [this]
        refine ⟨fun hl => by simp; have := g4 hl; have := h1 hl; omega, by simp; omega, fun _ => by simp; omega,
          by simp; omega, Or.inr (Or.inl ⟨rfl, hr, hsf⟩), ?_⟩
        intro _ h _; rw [h] at hr; exact absurd hr (by decide)
      · have hrf : rtest (done + k) = false := by simpa using hr
        have : gOuter late gtest rtest stag d (fuel + 1) niter done =
            gOuter late gtest rtest stag d fuel (niter + dn) (done + k) := by
          simp only [gOuter, hk, hsf, hrf, Bool.false_eq_true, if_false]
        rw [this]
        obtain ⟨e1, e2, e3, e4, e5, e6⟩ := ih (niter + dn) (done + k)
          (fun hl => by have := g4 hl; have := h1 hl; omega) (by omega)
        refine ⟨e1, e2, fun _ => ?_, by omega, ?_, ?_⟩
        · cases fuel with
          | zero => simp only [gOuter]; omega
          | succ f => have := e3 (by omega); omega
        · rcases e5 with h | h | ⟨h, h'⟩
          · exact Or.inl h
          · exact Or.inr (Or.inl h)
          · refine Or.inr (Or.inr ⟨h, fun _ => ?_⟩)
            cases fuel with
            | zero => simp only [gOuter]; exact ⟨hrf, hsf⟩
            | succ f => exact h' (by omega)
        · intro a b c
          obtain ⟨q1, q2, q3⟩ := e6 a b c
          obtain ⟨p1, p2⟩ := g6 a
          refine ⟨by omega, by omega, ?_⟩
          rw [q3]; congr 1; omega

theorem gmresDims_outer_pos (n : Nat) (restart maxiter : Option Nat) : 1 ≤ (gmresDims n restart maxiter).maxOuter := by
  unfold gmresDims
  split
  · split <;> simp
  · simp

/-- **C06 for the GMRES family (control flow).**  For `n ≠ 1`, an `x0` that fails the test and at
least one allowed inner iteration, the run ends in exactly one of three ways:
status `-1` (stagnation exit), status `0` with the *explicitly recomputed* residual of the returned
iterate below the threshold, or status `niter` with that residual not below it.  At least one and at
most `maxInner * maxOuter` iterates are recorded (one history entry and one callback each); unless
the counter is incremented after the `break` (`late`), `niter` equals the number of recorded
iterates, so a positive status is the number of iterations performed; a run in which no test ever
passes performs exactly `maxInner * maxOuter` iterations and returns that number. -/
theorem gmres_ctl_spec (late : Bool) (n : Nat) (restart maxiter : Option Nat)
    (gtest rtest stag : Nat → Bool) (hn : n ≠ 1) (hI : 1 ≤ (gmresDims n restart maxiter).maxInner) :
    ∃ o, gmresCtl late n restart maxiter false gtest rtest stag = some o ∧
      (late = false → o.niter = o.ncb) ∧ o.niter ≤ o.ncb ∧ 1 ≤ o.ncb ∧
      o.ncb ≤ (gmresDims n restart maxiter).maxOuter * (gmresDims n restart maxiter).maxInner ∧
      ((o.status = -1 ∧ stag o.ncb = true) ∨
       (o.status = 0 ∧ rtest o.ncb = true ∧ stag o.ncb = false) ∨
       (o.status = o.niter ∧ rtest o.ncb = false ∧ stag o.ncb = false)) ∧
      ((∀ j, gtest j = false) → (∀ j, rtest j = false) → (∀ j, stag j = false) →
        o.ncb = (gmresDims n restart maxiter).maxOuter * (gmresDims n restart maxiter).maxInner ∧
        o.status = (o.ncb : Int)) := by
  have hO := gmresDims_outer_pos n restart maxiter
  obtain ⟨e1, e2, e3, e4, e5, e6⟩ := gOuter_spec late gtest rtest stag (gmresDims n restart maxiter) hI
    (gmresDims n restart maxiter).maxOuter 0 0 (fun _ => rfl) (Nat.le_refl _)
  refine ⟨_, by simp [gmresCtl, hn], e1, e2, by have := e3 hO; omega, by simpa using e4, ?_, ?_⟩
  · rcases e5 with h | h | ⟨h, h'⟩
    · exact Or.inl h
    · exact Or.inr (Or.inl h)
    · exact Or.inr (Or.inr ⟨h, h' hO⟩)
  · intro a b c
    obtain ⟨q1, q2, q3⟩ := e6 a b c
    refine ⟨by simpa using q1, ?_⟩
    rw [q3, q1]

/-- a converged `x0` is returned at once: status `0`, no iteration (`n ≠ 1`) -/
theorem gmres_ctl_converged_x0 (late : Bool) (n : Nat) (restart maxiter : Option Nat)
    (gtest rtest stag : Nat → Bool) (hn : n ≠ 1) :
    gmresCtl late n restart maxiter true gtest rtest stag = some ⟨0, 0, 0⟩ := by
  simp [gmresCtl, hn]

end PyamgV.C06
