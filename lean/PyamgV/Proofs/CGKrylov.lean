import PyamgV.Proofs.CG
import Mathlib.LinearAlgebra.BilinearForm.Orthogonal
import Mathlib.LinearAlgebra.Dimension.Finrank
import Mathlib.LinearAlgebra.FiniteDimensional.Basic

/-! PyamgV: the search directions of CG span the Krylov space `K_k(A, r₀)`, so `cg_optimal` is
optimality over `x₀ + K_k(A, r₀)` — the statement C07 makes; and finite termination: in an
`n`-dimensional space the residual vanishes after at most `n` steps. -/
namespace PyamgV

variable {K : Type*} [Field K] [LinearOrder K] [IsStrictOrderedRing K]
variable {V : Type*} [AddCommGroup V] [Module K V]

section
variable (A : V →ₗ[K] V) (e : EForm K V) (b x0 : V)

local notation "S" => cgSeq A e b x0

/-- `K_k(A, r₀) = span{r₀, A r₀, …, A^{k-1} r₀}` -/
def kry (k : Nat) : Submodule K V :=
  Submodule.span K {v | ∃ j, j < k ∧ v = (A ^ j) (S 0).r}

variable {A e b x0}

theorem kry_mono {k m : Nat} (h : k ≤ m) : kry A e b x0 k ≤ kry A e b x0 m := by
  refine Submodule.span_mono ?_
  rintro v ⟨j, hj, rfl⟩; exact ⟨j, by omega, rfl⟩

theorem dirs_mono {k m : Nat} (h : k ≤ m) : dirs A e b x0 k ≤ dirs A e b x0 m := by
  refine Submodule.span_mono ?_
  rintro v ⟨j, hj, rfl⟩; exact ⟨j, by omega, rfl⟩

/-- `A` shifts the Krylov space by one -/
theorem A_kry {k : Nat} {v : V} (hv : v ∈ kry A e b x0 k) : A v ∈ kry A e b x0 (k+1) := by
  induction hv using Submodule.span_induction with
  | mem w hw =>
    obtain ⟨j, hj, rfl⟩ := hw
    refine Submodule.subset_span ⟨j+1, by omega, ?_⟩
    rw [pow_succ']; rfl
  | zero => simp
  | add u w _ _ hu hw => rw [map_add]; exact Submodule.add_mem _ hu hw
  | smul c u _ hu => rw [map_smul]; exact Submodule.smul_mem _ _ hu

/-- residual and direction of step `j` lie in `K_{j+1}` — no hypothesis at all, the recurrences
alone give it -/
theorem rp_mem_kry (j : Nat) :
    (S j).r ∈ kry A e b x0 (j+1) ∧ (S j).p ∈ kry A e b x0 (j+1) := by
  induction j with
  | zero =>
    have h0 : (S 0).r ∈ kry A e b x0 1 :=
      Submodule.subset_span ⟨0, by omega, by simp⟩
    exact ⟨h0, h0⟩
  | succ j ih =>
    have hr : (S (j+1)).r ∈ kry A e b x0 (j+2) := by
      rw [r_succ]
      exact Submodule.sub_mem _ (kry_mono (by omega) ih.1)
        (Submodule.smul_mem _ _ (A_kry ih.2))
    refine ⟨hr, ?_⟩
    rw [p_succ]
    exact Submodule.add_mem _ hr (Submodule.smul_mem _ _ (kry_mono (by omega) ih.2))

theorem dirs_le_kry (k : Nat) : dirs A e b x0 k ≤ kry A e b x0 k := by
  refine Submodule.span_le.mpr ?_
  rintro v ⟨j, hj, rfl⟩
  exact kry_mono (by omega) (rp_mem_kry j).2

/-- residuals are combinations of the directions -/
theorem r_mem_dirs (j : Nat) : (S j).r ∈ dirs A e b x0 (j+1) := by
  cases j with
  | zero => exact Submodule.subset_span ⟨0, by omega, rfl⟩
  | succ m =>
    have : (S (m+1)).r = (S (m+1)).p - beta A e b x0 m • (S m).p := by
      rw [p_succ]; abel
    rw [this]
    exact Submodule.sub_mem _ (Submodule.subset_span ⟨m+1, by omega, rfl⟩)
      (Submodule.smul_mem _ _ (Submodule.subset_span ⟨m, by omega, rfl⟩))

/-- while the residual has not vanished, `A` maps `span{p_0..p_{k-1}}` into `span{p_0..p_k}` -/
theorem A_dirs (hA : CGHyp A e) {k : Nat} (hI : CGInv A e b x0 k) (hnb : NoBreak A e b x0 k)
    {m : Nat} (hm : m ≤ k + 1) {v : V} (hv : v ∈ dirs A e b x0 m) :
    A v ∈ dirs A e b x0 (m+1) := by
  induction hv using Submodule.span_induction with
  | mem w hw =>
    obtain ⟨j, hj, rfl⟩ := hw
    rw [Ap_eq hA hI hnb j (by omega)]
    refine Submodule.smul_mem _ _ (Submodule.sub_mem _ ?_ ?_)
    · exact dirs_mono (by omega) (r_mem_dirs j)
    · exact dirs_mono (by omega) (r_mem_dirs (j+1))
  | zero => simp
  | add u w _ _ hu hw => rw [map_add]; exact Submodule.add_mem _ hu hw
  | smul c u _ hu => rw [map_smul]; exact Submodule.smul_mem _ _ hu

theorem pow_mem_dirs (hA : CGHyp A e) :
    ∀ j, (∀ i, i < j → (S i).rz ≠ 0) → (A ^ j) (S 0).r ∈ dirs A e b x0 (j+1) := by
  intro j
  induction j with
  | zero =>
    intro _
    simpa using (r_mem_dirs (A := A) (e := e) (b := b) (x0 := x0) 0)
  | succ j ih =>
    intro hnb
    have hprev := ih (fun i hi => hnb i (by omega))
    have hI : CGInv A e b x0 j := by
      cases j with
      | zero => exact cgInv_zero A e b x0
      | succ m => exact cgInv_all hA m (fun i hi => hnb i (by omega))
    have hN : NoBreak A e b x0 j := fun i hi => hnb i (by omega)
    rw [pow_succ']
    exact A_dirs hA hI hN (le_refl _) hprev

/-- **the CG directions span the Krylov space** -/
theorem dirs_eq_kry (hA : CGHyp A e) (k : Nat) (hnb : ∀ j, j + 1 < k → (S j).rz ≠ 0) :
    dirs A e b x0 k = kry A e b x0 k := by
  refine le_antisymm (dirs_le_kry k) (Submodule.span_le.mpr ?_)
  rintro v ⟨j, hj, rfl⟩
  exact dirs_mono (by omega) (pow_mem_dirs hA j (fun i hi => hnb i (by omega)))

/-- **C07 for CG as the property states it**: the k-th iterate minimises the energy norm of the
error over `x₀ + K_k(A, r₀)`. -/
theorem cg_optimal_krylov (hA : CGHyp A e) (xs : V) (hxs : A xs = b) (k : Nat)
    (hnb : ∀ j, j < k → (S j).rz ≠ 0) :
    (S k).x - x0 ∈ kry A e b x0 k ∧
    ∀ y, y - x0 ∈ kry A e b x0 k → enA A e (xs - (S k).x) ≤ enA A e (xs - y) := by
  have hd := dirs_eq_kry (b := b) (x0 := x0) hA k (fun j hj => hnb j (by omega))
  have := cg_optimal hA xs hxs k hnb
  rw [hd] at this
  exact this

/-- consequence: the energy norm of the error is non-increasing along the iteration -/
theorem cg_monotone (hA : CGHyp A e) (xs : V) (hxs : A xs = b) (k : Nat)
    (hnb : ∀ j, j < k + 1 → (S j).rz ≠ 0) :
    enA A e (xs - (S (k+1)).x) ≤ enA A e (xs - (S k).x) := by
  have h := (cg_optimal hA xs hxs (k+1) hnb).2 (S k).x
  exact h (dirs_mono (Nat.le_succ k) (x_mem k))

/-- **finite termination**: in a space of dimension `n`, the residual vanishes within `n` steps
-/
theorem cg_finite [FiniteDimensional K V] (hA : CGHyp A e) :
    ∃ j, j ≤ Module.finrank K V ∧ (S j).rz = 0 := by
  by_contra hcon
  have hnb : ∀ j, j ≤ Module.finrank K V → (S j).rz ≠ 0 := by
    intro j hj h; exact hcon ⟨j, hj, h⟩
  set n := Module.finrank K V with hn
  have hI : CGInv A e b x0 (n+1) := cgInv_all hA n hnb
  -- n+1 mutually orthogonal non-zero residuals
  let v : Fin (n+1) → V := fun i => (S i.1).r
  have hli : LinearIndependent K v := by
    refine LinearMap.BilinForm.linearIndependent_of_iIsOrtho (B := e.a) ?_ ?_
    · intro i j hij
      show e.a (S i.1).r (S j.1).r = 0
      rcases Nat.lt_or_gt_of_ne (fun h => hij (Fin.ext h)) with h | h
      · rw [e.symm]; exact hI.rr j.1 i.1 h (by have := j.2; omega)
      · exact hI.rr i.1 j.1 h (by have := i.2; omega)
    · intro i hi
      have h1 : e.a (S i.1).r (S i.1).r = 0 := hi
      have h2 := hI.rzdef i.1 (by have := i.2; omega)
      exact hnb i.1 (by have := i.2; omega) (h2.trans h1)
  have := hli.fintype_card_le_finrank
  simp at this
  omega

/-- … and then the iterate is the exact solution: an `n × n` system is solved in at most `n` steps -/
theorem cg_solves [FiniteDimensional K V] (hA : CGHyp A e)
    (hdef : ∀ v, e.a v v = 0 → v = 0) :
    ∃ j, j ≤ Module.finrank K V ∧ A (S j).x = b := by
  classical
  -- first index at which rz vanishes
  obtain ⟨j, hj, hz⟩ := cg_finite (b := b) (x0 := x0) hA
  have hex : ∃ j, (S j).rz = 0 := ⟨j, hz⟩
  let m := Nat.find hex
  have hm : (S m).rz = 0 := Nat.find_spec hex
  have hmin : ∀ i, i < m → (S i).rz ≠ 0 := fun i hi => Nat.find_min hex hi
  have hmj : m ≤ j := Nat.find_min' hex hz
  have hI : CGInv A e b x0 m := by
    cases hmm : m with
    | zero => exact cgInv_zero A e b x0
    | succ k => exact cgInv_all hA k (fun i hi => hmin i (by omega))
  have hr : (S m).r = 0 := hdef _ ((hI.rzdef m (le_refl m)).symm.trans hm)
  refine ⟨m, by omega, ?_⟩
  have := hI.res m (le_refl m)
  rw [hr] at this
  exact (sub_eq_zero.mp this.symm).symm

#print axioms cg_optimal_krylov
#print axioms cg_finite
#print axioms cg_solves
end
end PyamgV
