import PyamgV.Proofs.Coloring

/-! PyamgV (C18): the whole of `vertex_coloring_mis` — outer `while(N < num_rows)` loop with
`N += maximal_independent_set_serial(...)`. Adds the bookkeeping to `PyamgV.Col.round_inv`:
the returned count is the number of nodes that received the new colour, `N` is the number of
coloured nodes, so the loop exits exactly when every node is coloured, after at most `n` rounds.

Result (`coloring_total`): with fuel `n + 1` the loop returns `(x, K)` with every entry in
`0..K-1`, adjacent distinct nodes coloured differently, every colour `< K` used. Core Lean. -/
namespace PyamgV.Col
open PyamgV

/-! ### counting lemmas (reusable) -/

theorem countP_flip {l : List Nat} (hnd : l.Nodup) {p q : Nat → Bool} {k : Nat} (hk : k ∈ l)
    (hsame : ∀ m ∈ l, m ≠ k → q m = p m) (hp : p k = false) (hq : q k = true) :
    l.countP q = l.countP p + 1 := by
  induction l with
  | nil => simp at hk
  | cons a as ih =>
    rw [List.nodup_cons] at hnd
    rw [List.countP_cons, List.countP_cons]
    rcases List.mem_cons.1 hk with hka | hka
    · subst hka
      have hrest : as.countP q = as.countP p := by
        apply List.countP_congr
        intro m hm
        have hne : m ≠ k := fun e => hnd.1 (e ▸ hm)
        rw [hsame m (by simp [hm]) hne]
      rw [hrest, hp, hq]; simp
    · have hne : a ≠ k := fun e => hnd.1 (e ▸ hka)
      have := ih hnd.2 hka (fun m hm hmk => hsame m (by simp [hm]) hmk)
      rw [this, hsame a (by simp) hne]; omega

theorem countP_or_excl {l : List Nat} {p q r : Nat → Bool}
    (hor : ∀ m ∈ l, r m = (p m || q m)) (hex : ∀ m ∈ l, ¬ (p m = true ∧ q m = true)) :
    l.countP r = l.countP p + l.countP q := by
  induction l with
  | nil => simp
  | cons a as ih =>
    rw [List.countP_cons, List.countP_cons, List.countP_cons]
    have := ih (fun m hm => hor m (by simp [hm])) (fun m hm => hex m (by simp [hm]))
    rw [this, hor a (by simp)]
    have hx := hex a (by simp)
    cases hpa : p a <;> cases hqa : q a <;> simp_all <;> omega

/-! ### the kernel with its return value -/

def misCntStep (G : Graph) (act C F : Int) (acc : Array Int × Nat) (i : Nat) : Array Int × Nat :=
  if rd acc.1 i ≠ act then acc else (misInner act F (wr acc.1 i C) (G.adj i), acc.2 + 1)

def misCnt (G : Graph) (act C F : Int) (x : Array Int) : Array Int × Nat :=
  (List.range G.n).foldl (misCntStep G act C F) (x, 0)

theorem misCnt_fst_aux (G : Graph) (act C F : Int) : ∀ (l : List Nat) (acc : Array Int × Nat),
    (l.foldl (misCntStep G act C F) acc).1 = l.foldl (misStep G act C F) acc.1 := by
  intro l
  induction l with
  | nil => intro acc; rfl
  | cons i is ih =>
    intro acc
    rw [List.foldl_cons, List.foldl_cons, ih]
    congr 1
    unfold misCntStep misStep
    by_cases h : rd acc.1 i ≠ act
    · rw [if_pos h, if_pos h]
    · rw [if_neg h, if_neg h]

theorem misCnt_fst (G : Graph) (act C F : Int) (x : Array Int) :
    (misCnt G act C F x).1 = misSerial G act C F x := by
  unfold misCnt misSerial; exact misCnt_fst_aux G act C F _ (x, 0)

def cntEq (n : Nat) (C : Int) (x : Array Int) : Nat :=
  (List.range n).countP (fun i => decide (rd x i = C))

def cntPos (n : Nat) (x : Array Int) : Nat :=
  (List.range n).countP (fun i => decide (0 ≤ rd x i))

/-- one step of the kernel adds exactly one `C` entry when it fires -/
theorem misCntStep_count (G : Graph) (hG : GraphOK G) (act C F : Int) (hCA : C ≠ act)
    (hFA : F ≠ act) (hCF : C ≠ F) (acc : Array Int × Nat) (hsz : acc.1.size = G.n)
    (i : Nat) (hi : i < G.n) :
    (misCntStep G act C F acc i).1.size = G.n ∧
    cntEq G.n C (misCntStep G act C F acc i).1 + acc.2 =
      cntEq G.n C acc.1 + (misCntStep G act C F acc i).2 := by
  unfold misCntStep
  by_cases h : rd acc.1 i ≠ act
  · rw [if_pos h]; exact ⟨hsz, rfl⟩
  · rw [if_neg h]
    have hxi : rd acc.1 i = act := by simpa using h
    have hb : ∀ j ∈ G.adj i, j < (wr acc.1 i C).size := by
      intro j hj; simp [hsz]; exact hG.bound i hi j hj
    obtain ⟨hs, hsp⟩ := misInner_spec act F hFA (G.adj i) (wr acc.1 i C) hb
    have hw : ∀ m, rd (wr acc.1 i C) m = if m = i then C else rd acc.1 m := by
      intro m; rw [rd_wr]
      by_cases hmi : i = m
      · subst hmi; simp [hsz, hi]
      · have : m ≠ i := fun e => hmi e.symm
        simp [hmi, this]
    refine ⟨by simpa [hsz] using hs, ?_⟩
    have hflip : cntEq G.n C (misInner act F (wr acc.1 i C) (G.adj i)) = cntEq G.n C acc.1 + 1 := by
      unfold cntEq
      apply countP_flip (List.nodup_range) (k := i) (List.mem_range.2 hi)
      · intro m _ hmi
        rw [hsp m, hw m, if_neg hmi]
        by_cases hc : m ∈ G.adj i ∧ rd acc.1 m = act
        · rw [if_pos hc]
          have h1 : ¬ F = C := fun e => hCF e.symm
          have h2 : ¬ rd acc.1 m = C := by rw [hc.2]; exact fun e => hCA e.symm
          simp [h1, h2]
        · rw [if_neg hc]
      · have : ¬ rd acc.1 i = C := by rw [hxi]; exact fun e => hCA e.symm
        simpa using this
      · have : rd (misInner act F (wr acc.1 i C) (G.adj i)) i = C := by
          rw [hsp i, hw i, if_pos rfl]
          have : ¬ (i ∈ G.adj i ∧ C = act) := fun hc => hCA hc.2
          rw [if_neg this]
        simpa using this
    simp only
    rw [hflip]; omega

theorem misCnt_count (G : Graph) (hG : GraphOK G) (act C F : Int) (hCA : C ≠ act)
    (hFA : F ≠ act) (hCF : C ≠ F) (x : Array Int) (hsz : x.size = G.n) :
    cntEq G.n C (misCnt G act C F x).1 = cntEq G.n C x + (misCnt G act C F x).2 := by
  unfold misCnt
  have key := foldl_range_inv
    (fun (_ : Nat) (acc : Array Int × Nat) =>
      acc.1.size = G.n ∧ cntEq G.n C acc.1 = cntEq G.n C x + acc.2)
    (misCntStep G act C F) G.n (x, 0) ⟨hsz, rfl⟩
    (by
      intro k acc hk ⟨h1, h2⟩
      obtain ⟨h3, h4⟩ := misCntStep_count G hG act C F hCA hFA hCF acc h1 k hk
      exact ⟨h3, by omega⟩)
  exact key.2

/-! ### the outer loop -/

def colorLoop (G : Graph) : Nat → Array Int → Nat → Nat → Option (Array Int × Nat)
  | 0, _, _, _ => none
  | f+1, x, N, K =>
    if N < G.n then
      let r := misCnt G (-1 - (K : Int)) (K : Int) (-2 - (K : Int)) x
      colorLoop G f r.1 (N + r.2) (K + 1)
    else some (x, K)

def vertexColoringMis (G : Graph) (fuel : Nat) : Option (Array Int × Nat) :=
  colorLoop G fuel (Array.replicate G.n (-1)) 0 0

/-- a proper colouring with colours `0..K-1`, all used -/
structure Colouring (G : Graph) (x : Array Int) (K : Nat) : Prop where
  range : ∀ i, i < G.n → 0 ≤ rd x i ∧ rd x i < (K : Int)
  proper : ∀ i, i < G.n → ∀ j ∈ G.adj i, j ≠ i → rd x j ≠ rd x i
  used : ∀ c : Nat, c < K → ∃ i, i < G.n ∧ rd x i = (c : Int)

theorem exists_active {G : Graph} {K : Nat} {x : Array Int} (h : R G K x)
    (hN : cntPos G.n x < G.n) : ∃ i, i < G.n ∧ rd x i = -1 - (K : Int) := by
  apply Classical.byContradiction
  intro hne
  have hall : ∀ i ∈ List.range G.n, (fun i => decide (0 ≤ rd x i)) i = true := by
    intro i hi
    rw [List.mem_range] at hi
    rcases h.vals i hi with h1 | h1
    · simpa using h1.1
    · exact absurd ⟨i, hi, h1⟩ hne
  have := List.countP_eq_length.2 hall
  unfold cntPos at hN
  rw [this, List.length_range] at hN
  omega

theorem round_count (G : Graph) (hG : GraphOK G) (K : Nat) (x : Array Int) (h : R G K x) :
    cntPos G.n (misCnt G (-1 - (K : Int)) (K : Int) (-2 - (K : Int)) x).1 =
      cntPos G.n x + (misCnt G (-1 - (K : Int)) (K : Int) (-2 - (K : Int)) x).2 := by
  have hCA : (K : Int) ≠ -1 - (K : Int) := by omega
  have hFA : -2 - (K : Int) ≠ -1 - (K : Int) := by omega
  have hCF : (K : Int) ≠ -2 - (K : Int) := by omega
  have hcnt := misCnt_count G hG _ _ _ hCA hFA hCF x h.size
  have hfresh : ∀ i, i < G.n → rd x i ≠ (K : Int) ∧ rd x i ≠ -2 - (K : Int) := by
    intro i hi
    rcases h.vals i hi with h1 | h1 <;> constructor <;> omega
  have hI := gmis_inv G hG _ _ _ hCA hFA hCF x h.size hfresh
  rw [← misCnt_fst] at hI
  generalize misCnt G (-1 - (K : Int)) (K : Int) (-2 - (K : Int)) x = r at hcnt hI ⊢
  have h0 : cntEq G.n (K : Int) x = 0 := by
    unfold cntEq
    apply List.countP_eq_zero.2
    intro i hi
    rw [List.mem_range] at hi
    simpa using (hfresh i hi).1
  rw [h0, Nat.zero_add] at hcnt
  rw [← hcnt]
  unfold cntPos cntEq
  apply countP_or_excl
  · intro i hi
    rw [List.mem_range] at hi
    rcases hI.vals i hi with ⟨h1, h2⟩ | ⟨h1, h2⟩
    · -- old colour, unchanged
      have hpos : 0 ≤ rd x i := by
        rcases h.vals i hi with h3 | h3
        · exact h3.1
        · exact absurd h3 h1
      have hne : ¬ rd r.1 i = (K : Int) := by rw [h2]; exact (hfresh i hi).1
      simp [h2, hpos, hne]
    · have hneg : ¬ 0 ≤ rd x i := by rw [h1]; omega
      rcases h2 with h2 | h2 | h2
      · exact absurd h2 (hI.done i hi hi)
      · simp [h2, hneg]
      · have : ¬ (0 : Int) ≤ -2 - (K : Int) := by omega
        have h3 : ¬ -2 - (K : Int) = (K : Int) := by omega
        simp [h2, hneg, this, h3]
        omega
  · intro i hi hboth
    rw [List.mem_range] at hi
    have hp : 0 ≤ rd x i := by simpa using hboth.1
    have hq : rd r.1 i = (K : Int) := by simpa using hboth.2
    rcases hI.vals i hi with ⟨_, h2⟩ | ⟨h1, _⟩
    · rw [h2] at hq; exact (hfresh i hi).1 hq
    · rw [h1] at hp; omega

theorem colorLoop_spec (G : Graph) (hG : GraphOK G) :
    ∀ (fuel : Nat) (x : Array Int) (N K : Nat), R G K x → N = cntPos G.n x →
      G.n - N + 1 ≤ fuel →
      ∃ x' K', colorLoop G fuel x N K = some (x', K') ∧ Colouring G x' K' := by
  intro fuel
  induction fuel with
  | zero => intro x N K _ _ h; omega
  | succ f ih =>
    intro x N K hR hN hf
    unfold colorLoop
    by_cases hlt : N < G.n
    · rw [if_pos hlt]
      have hsome := exists_active hR (by omega)
      have hR' := round_inv G hG K x hR hsome
      rw [← misCnt_fst] at hR'
      have hc := round_count G hG K x hR
      -- colour K was used, so at least one node was coloured
      have hpos : 1 ≤ (misCnt G (-1 - (K : Int)) (K : Int) (-2 - (K : Int)) x).2 := by
        obtain ⟨i, hi, hiK⟩ := hR'.used K (by omega)
        have hCA : (K : Int) ≠ -1 - (K : Int) := by omega
        have hFA : -2 - (K : Int) ≠ -1 - (K : Int) := by omega
        have hCF : (K : Int) ≠ -2 - (K : Int) := by omega
        have hcnt := misCnt_count G hG _ _ _ hCA hFA hCF x hR.size
        have h1 : 1 ≤ cntEq G.n (K : Int)
            (misCnt G (-1 - (K : Int)) (K : Int) (-2 - (K : Int)) x).1 := by
          unfold cntEq
          apply List.countP_pos_iff.2
          exact ⟨i, List.mem_range.2 hi, by simpa using hiK⟩
        have h0 : cntEq G.n (K : Int) x = 0 := by
          unfold cntEq
          apply List.countP_eq_zero.2
          intro m hm
          rw [List.mem_range] at hm
          rcases hR.vals m hm with h3 | h3
          · have : ¬ rd x m = (K : Int) := by omega
            simpa using this
          · have : ¬ rd x m = (K : Int) := by omega
            simpa using this
        omega
      have hle : cntPos G.n (misCnt G (-1 - (K : Int)) (K : Int) (-2 - (K : Int)) x).1 ≤ G.n := by
        unfold cntPos
        have := List.countP_le_length (p := fun i => decide (0 ≤ rd
          (misCnt G (-1 - (K : Int)) (K : Int) (-2 - (K : Int)) x).1 i)) (l := List.range G.n)
        simpa using this
      exact ih _ _ (K+1) hR' (by omega) (by omega)
    · rw [if_neg hlt]
      refine ⟨x, K, rfl, ?_, ?_, hR.used⟩
      · -- N ≥ n coloured nodes: everything is coloured
        have hall : ∀ i ∈ List.range G.n, (fun i => decide (0 ≤ rd x i)) i = true := by
          apply List.countP_eq_length.1
          have := List.countP_le_length (p := fun i => decide (0 ≤ rd x i)) (l := List.range G.n)
          unfold cntPos at hN
          rw [List.length_range] at this ⊢
          omega
        intro i hi
        have hp : 0 ≤ rd x i := by simpa using hall i (List.mem_range.2 hi)
        rcases hR.vals i hi with h1 | h1
        · exact h1
        · omega
      · intro i hi j hj hji
        have hall : ∀ i ∈ List.range G.n, (fun i => decide (0 ≤ rd x i)) i = true := by
          apply List.countP_eq_length.1
          have := List.countP_le_length (p := fun i => decide (0 ≤ rd x i)) (l := List.range G.n)
          unfold cntPos at hN
          rw [List.length_range] at this ⊢
          omega
        have hp : 0 ≤ rd x i := by simpa using hall i (List.mem_range.2 hi)
        exact hR.proper i hi hp j hj hji

/-- **C18, `vertex_coloring_mis`**: terminates within `n` rounds and returns a proper colouring
using exactly the colours `0..K-1`. -/
theorem coloring_total (G : Graph) (hG : GraphOK G) :
    ∃ x K, vertexColoringMis G (G.n + 1) = some (x, K) ∧ Colouring G x K := by
  unfold vertexColoringMis
  apply colorLoop_spec G hG (G.n + 1) _ 0 0 (R_init G)
  · unfold cntPos
    symm
    apply List.countP_eq_zero.2
    intro i hi
    rw [List.mem_range] at hi
    simp [rd, hi]
  · omega

#print axioms coloring_total
end PyamgV.Col
