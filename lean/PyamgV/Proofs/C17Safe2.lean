import PyamgV.Proofs.C17Safe

/-! PyamgV (C17): bounds-safety theorems for the `Ck` models of `csc_scale_columns`,
`csc_scale_rows` (linalg.h), `maximum_row_value`, `rs_direct/classical_interpolation_pass1`
(ruge_stuben.h) and `naive_aggregation` (smoothed_aggregation.h).  All loops are bounded `for`
loops (`forRange`), so termination is by construction; the theorems are about indices. -/
namespace PyamgV.C17
open PyamgV.Ck

set_option linter.unusedSectionVars false
variable {α : Type} [Inhabited α]

/-- **`csc_scale_columns`** (`G.n` = number of pointer rows = `n_col`; `Xx` has one entry per column) -/
theorem scaleColumns_safe (o : KOps α) (G : Csr α) {m : Nat} (hG : WFm G m) (xx : Array α)
    (hxx : xx.size = G.n) : Safe (scaleColumns o G xx) (fun ax => ax.size = G.ax.size) := by
  unfold scaleColumns
  apply forRange_safe (fun ax : Array α => ax.size = G.ax.size) 0 (G.n : Int) _ _ rfl
  intro i i0 i1 ax hax
  have hin : i.toNat < G.n := by omega
  have hs1 : (i+1).toNat = i.toNat + 1 := by omega
  refine Safe.bind (rd_safe G.ap i i0 (by rw [hG.ap_size]; omega)) (fun s hs => ?_)
  refine Safe.bind (rd_safe G.ap (i+1) (by omega) (by rw [hG.ap_size]; omega)) (fun e he => ?_)
  rw [hs1] at he
  apply forRange_safe (fun ax : Array α => ax.size = G.ax.size) s e _ _ hax
  intro jj j1 j2 ax' hax'
  have hr := row_range_m G hG i.toNat hin jj (by rw [hs] at j1; exact j1) (by rw [he] at j2; exact j2)
  refine Safe.bind (rd_safe ax' jj hr.1 (by rw [hax']; exact hr.2.2)) (fun a _ => ?_)
  refine Safe.bind (rd_safe xx i i0 (by rw [hxx]; exact hin)) (fun xi _ => ?_)
  exact Safe.mono (wr_safe ax' jj _ hr.1 (by rw [hax']; exact hr.2.2)) (fun a' h => by rw [h, hax'])

/-- **`csc_scale_rows`** (`Xx` has one entry per index value, i.e. `m` entries) -/
theorem scaleRows_safe (o : KOps α) (G : Csr α) {m : Nat} (hG : WFm G m) (xx : Array α)
    (hxx : xx.size = m) : Safe (scaleRows o G xx) (fun ax => ax.size = G.ax.size) := by
  unfold scaleRows
  refine Safe.bind (rd_safe G.ap (G.n : Int) (by omega) (by rw [hG.ap_size]; omega)) (fun nnz hn => ?_)
  have hn' : nnz = G.ap.getD G.n 0 := by simpa using hn
  have l1 := hG.last_j
  have l2 := hG.last_x
  apply forRange_safe (fun ax : Array α => ax.size = G.ax.size) 0 nnz _ _ rfl
  intro i i0 i1 ax hax
  refine Safe.bind (rd_safe ax i i0 (by rw [hax]; omega)) (fun a _ => ?_)
  refine Safe.bind (rd_safe G.aj i i0 (by omega)) (fun j hj => ?_)
  have hc := hG.cols i.toNat (by omega)
  have hj' : j = G.aj.getD i.toNat 0 := hj
  refine Safe.bind (rd_safe xx j (by rw [hj']; exact hc.1) (by rw [hj', hxx]; omega)) (fun xj _ => ?_)
  exact Safe.mono (wr_safe ax i _ i0 (by rw [hax]; omega)) (fun a' h => by rw [h, hax])

/-- **`maximum_row_value`** -/
theorem maxRowValue_safe (o : KOps α) (G : Csr α) {m : Nat} (hG : WFm G m) (x : Array α)
    (hx : x.size = G.n) : Safe (maxRowValue o G x) (fun x' => x'.size = G.n) := by
  unfold maxRowValue
  apply forRange_safe (fun x' : Array α => x'.size = G.n) 0 (G.n : Int) _ _ hx
  intro i i0 i1 x' hx'
  have hin : i.toNat < G.n := by omega
  have hs1 : (i+1).toNat = i.toNat + 1 := by omega
  refine Safe.bind (rd_safe G.ap i i0 (by rw [hG.ap_size]; omega)) (fun s hs => ?_)
  refine Safe.bind (rd_safe G.ap (i+1) (by omega) (by rw [hG.ap_size]; omega)) (fun e he => ?_)
  rw [hs1] at he
  refine Safe.bind (P := fun _ => True) ?_ (fun mx _ => ?_)
  · apply forRange_safe (fun _ => True) s e _ _ trivial
    intro jj j1 j2 acc _
    have hr := row_range_m G hG i.toNat hin jj (by rw [hs] at j1; exact j1) (by rw [he] at j2; exact j2)
    exact Safe.bind (rd_safe G.ax jj hr.1 hr.2.2) (fun _ _ => Safe.pure trivial)
  · exact Safe.mono (wr_safe x' i mx i0 (by rw [hx']; exact hin)) (fun a' h => by rw [h, hx'])

/-- a sparsity pattern as a `Csr` (the value array is not used by pattern kernels) -/
abbrev pat (n : Nat) (ap aj : Array Int) : Csr Int := ⟨n, ap, aj, aj⟩

/-- **`rs_direct_interpolation_pass1` / `rs_classical_interpolation_pass1`**: `Pp` has `n+1`
entries, `splitting` has `n` -/
theorem interpPass1_safe (n : Nat) (sp sj splitting pp : Array Int) (hS : WFm (pat n sp sj) n)
    (hsplit : splitting.size = n) (hpp : pp.size = n + 1) :
    Safe (interpPass1 n sp sj splitting pp) (fun pp' => pp'.size = n + 1) := by
  unfold interpPass1
  refine Safe.bind (wr_safe pp 0 0 (Int.le_refl 0) (by rw [hpp]; omega)) (fun pp0 hpp0 => ?_)
  refine Safe.bind (P := fun st : Array Int × Int => st.1.size = n + 1) ?_
    (fun r hr => Safe.pure hr)
  apply forRange_safe (fun st : Array Int × Int => st.1.size = n + 1) 0 (n : Int) _ _
    (by show pp0.size = n + 1; rw [hpp0, hpp])
  intro i i0 i1 st hst
  have hin : i.toNat < n := by omega
  have hs1 : (i+1).toNat = i.toNat + 1 := by omega
  refine Safe.bind (rd_safe splitting i i0 (by rw [hsplit]; exact hin)) (fun si _ => ?_)
  refine Safe.bind (P := fun _ => True) ?_ (fun nnz _ => ?_)
  · by_cases hc : si = 1
    · rw [if_pos hc]; exact Safe.pure trivial
    · rw [if_neg hc]
      have hsz : (pat n sp sj).ap.size = n + 1 := hS.ap_size
      refine Safe.bind (rd_safe sp i i0 (by rw [hsz]; omega)) (fun s hs => ?_)
      refine Safe.bind (rd_safe sp (i+1) (by omega) (by rw [hsz]; omega)) (fun e he => ?_)
      rw [hs1] at he
      apply forRange_safe (fun _ => True) s e _ _ trivial
      intro jj j1 j2 acc _
      have hr := row_range_m (pat n sp sj) hS i.toNat hin jj (by rw [hs] at j1; exact j1)
        (by rw [he] at j2; exact j2)
      refine Safe.bind (rd_safe sj jj hr.1 hr.2.1) (fun j hj => ?_)
      have hcc : 0 ≤ sj.getD jj.toNat 0 ∧ sj.getD jj.toNat 0 < (n : Int) := hS.cols jj.toNat hr.2.1
      have hj' : j = sj.getD jj.toNat 0 := hj
      refine Safe.bind (rd_safe splitting j (by rw [hj']; exact hcc.1)
        (by rw [hj', hsplit]; have := hcc.2; omega)) (fun sc _ => ?_)
      by_cases h2 : sc = 1 ∧ j ≠ i
      · rw [if_pos h2]; exact Safe.pure trivial
      · rw [if_neg h2]; exact Safe.pure trivial
  · refine Safe.bind (wr_safe st.1 (i+1) nnz (by omega) (by rw [hst]; omega)) (fun pp' hpp' => ?_)
    exact Safe.pure (by show pp'.size = n + 1; rw [hpp', hst])

/-- **`naive_aggregation`**: `x`, `y` have `n` entries.  The write `y[next_aggregate-1] = i` is in
range because a new aggregate is opened at most once per row: `next_aggregate - 1 ≤ i`. -/
theorem naiveAgg_safe (n : Nat) (ap aj x y : Array Int) (hS : WFm (pat n ap aj) n)
    (hx : x.size = n) (hy : y.size = n) :
    Safe (naiveAgg n ap aj x y)
      (fun st => st.1.size = n ∧ st.2.1.size = n ∧ 1 ≤ st.2.2 ∧ st.2.2 - 1 ≤ (n : Int)) := by
  unfold naiveAgg
  refine Safe.bind (P := fun x0 : Array Int => x0.size = n) ?_ (fun x0 hx0 => ?_)
  · apply forRange_safe (fun x' : Array Int => x'.size = n) 0 (n : Int) _ _ hx
    intro i i0 i1 x' hx'
    exact Safe.mono (wr_safe x' i 0 i0 (by rw [hx']; omega)) (fun a' h => by rw [h, hx'])
  · apply forRange_safe_idx
      (fun (i : Int) (st : Agg) => st.1.size = n ∧ st.2.1.size = n ∧ 1 ≤ st.2.2 ∧ st.2.2 - 1 ≤ i)
      0 (n : Int) (by omega) _ _ ⟨hx0, hy, by show (1 : Int) ≤ 1; omega, by show (1 : Int) - 1 ≤ 0; omega⟩
    intro i i0 i1 st hst
    obtain ⟨h1, h2, h3, h4⟩ := hst
    have hin : i.toNat < n := by omega
    have hs1 : (i+1).toNat = i.toNat + 1 := by omega
    refine Safe.bind (rd_safe st.1 i i0 (by rw [h1]; exact hin)) (fun xi _ => ?_)
    by_cases hxi : xi ≠ 0
    · rw [if_pos hxi]; exact Safe.pure ⟨h1, h2, h3, by omega⟩
    · rw [if_neg hxi]
      have hsz : (pat n ap aj).ap.size = n + 1 := hS.ap_size
      refine Safe.bind (rd_safe ap i i0 (by rw [hsz]; omega)) (fun s hs => ?_)
      refine Safe.bind (rd_safe ap (i+1) (by omega) (by rw [hsz]; omega)) (fun e he => ?_)
      rw [hs1] at he
      refine Safe.bind (wr_safe st.1 i st.2.2 i0 (by rw [h1]; exact hin)) (fun x1 hx1 => ?_)
      refine Safe.bind (P := fun x2 : Array Int => x2.size = n) ?_ (fun x2 hx2 => ?_)
      · apply forRange_safe (fun x' : Array Int => x'.size = n) s e _ _ (by rw [hx1, h1])
        intro jj j1 j2 x' hx'
        have hr := row_range_m (pat n ap aj) hS i.toNat hin jj (by rw [hs] at j1; exact j1)
          (by rw [he] at j2; exact j2)
        refine Safe.bind (rd_safe aj jj hr.1 hr.2.1) (fun j hj => ?_)
        have hcc : 0 ≤ aj.getD jj.toNat 0 ∧ aj.getD jj.toNat 0 < (n : Int) := hS.cols jj.toNat hr.2.1
        have hj' : j = aj.getD jj.toNat 0 := hj
        have hjn : j.toNat < n := by rw [hj']; have := hcc.2; have := hcc.1; omega
        refine Safe.bind (rd_safe x' j (by rw [hj']; exact hcc.1) (by rw [hx']; exact hjn)) (fun xj _ => ?_)
        by_cases hz : xj = 0
        · rw [if_pos hz]
          exact Safe.mono (wr_safe x' j _ (by rw [hj']; exact hcc.1) (by rw [hx']; exact hjn))
            (fun a' h => by rw [h, hx'])
        · rw [if_neg hz]; exact Safe.pure hx'
      · refine Safe.bind (wr_safe st.2.1 (st.2.2 - 1) i (by omega) (by rw [h2]; omega)) (fun y1 hy1 => ?_)
        exact Safe.pure ⟨hx2, by show y1.size = n; rw [hy1, h2], by show 1 ≤ st.2.2 + 1; omega,
          by show st.2.2 + 1 - 1 ≤ i + 1; omega⟩

end PyamgV.C17
