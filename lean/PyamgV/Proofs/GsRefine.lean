import PyamgV.Proofs.Energy
import Mathlib.Algebra.BigOperators.Group.List.Basic
import Mathlib.Tactic.FieldSimp

/-! PyamgV: kernel-level Gauss–Seidel row update refines "exact coordinate correction" (T1).
Vectors are functions `Nat → K` (what `fun i => arr.getD i 0` gives for an array). -/
namespace PyamgV


variable {K : Type*} [Field K] [LinearOrder K] [IsStrictOrderedRing K] [DecidableEq K]

/-- a CSR row as its stored entries `(column, value)` -/
abbrev Row (K : Type*) := List (Nat × K)

/-- the kernel's inner loop: off-diagonal sum and (last) diagonal entry -/
def rowScan (i : Nat) (row : Row K) (x : Nat → K) : K × K :=
  row.foldl (fun acc cv => if cv.1 = i then (acc.1, cv.2) else (acc.1 + cv.2 * x cv.1, acc.2)) (0, 0)

/-- the kernel's update of row `i` -/
def gsRowFn (i : Nat) (row : Row K) (b x : Nat → K) : Nat → K :=
  let (rsum, diag) := rowScan i row x
  if diag = 0 then x else Function.update x i ((b i - rsum) / diag)

/-- full row dot product `Σ v * x c` -/
def rowDot (row : Row K) (x : Nat → K) : K := (row.map (fun cv => cv.2 * x cv.1)).sum

/-- exactly one stored diagonal entry, with value `d` -/
def HasDiag (i : Nat) (row : Row K) (d : K) : Prop :=
  (row.filter (fun cv => cv.1 = i)).map (·.2) = [d]

theorem rowScan_spec (i : Nat) (row : Row K) (x : Nat → K) :
    ∀ (acc : K × K),
      (row.foldl (fun acc cv => if cv.1 = i then (acc.1, cv.2) else (acc.1 + cv.2 * x cv.1, acc.2)) acc).1
        = acc.1 + ((row.filter (fun cv => cv.1 ≠ i)).map (fun cv => cv.2 * x cv.1)).sum ∧
      (row.foldl (fun acc cv => if cv.1 = i then (acc.1, cv.2) else (acc.1 + cv.2 * x cv.1, acc.2)) acc).2
        = (((row.filter (fun cv => cv.1 = i)).map (·.2)).getLast?).getD acc.2 := by
  induction row with
  | nil => intro acc; simp
  | cons cv rest ih =>
    intro acc
    simp only [List.foldl_cons]
    by_cases h : cv.1 = i
    · simp only [h, if_true]
      obtain ⟨h1, h2⟩ := ih (acc.1, cv.2)
      refine ⟨by simpa [h] using h1, ?_⟩
      rw [h2]
      simp only [List.filter_cons, h, decide_true, if_true, List.map_cons]
      cases hr : (List.map (·.2) (List.filter (fun cv => decide (cv.1 = i)) rest)) with
      | nil => simp
      | cons a l =>
        cases hl : (a :: l).getLast? with
        | none => simp at hl
        | some z => simp [List.getLast?_cons_cons, hl]
    · simp only [h, if_false]
      obtain ⟨h1, h2⟩ := ih (acc.1 + cv.2 * x cv.1, acc.2)
      refine ⟨?_, by simpa [h] using h2⟩
      rw [h1]; simp [h, add_assoc]

/-- splitting the row dot product into off-diagonal part and diagonal part -/
theorem rowDot_split (i : Nat) (row : Row K) (x : Nat → K) (d : K) (hd : HasDiag i row d) :
    rowDot row x = ((row.filter (fun cv => cv.1 ≠ i)).map (fun cv => cv.2 * x cv.1)).sum + d * x i := by
  unfold rowDot HasDiag at *
  induction row generalizing d with
  | nil => simp at hd
  | cons cv rest ih =>
    by_cases h : cv.1 = i
    · -- this entry is the diagonal one; the rest has none
      simp only [List.filter_cons, h, decide_true, if_true, List.map_cons, List.cons.injEq] at hd
      obtain ⟨hv, hrest⟩ := hd
      have hnone : ∀ cv' ∈ rest, cv'.1 ≠ i := by
        intro cv' hm hc
        have : cv'.2 ∈ List.map (·.2) (List.filter (fun cv => decide (cv.1 = i)) rest) :=
          List.mem_map.2 ⟨cv', List.mem_filter.2 ⟨hm, by simpa using hc⟩, rfl⟩
        rw [hrest] at this; simp at this
      have hf : rest.filter (fun cv => !decide (cv.1 = i)) = rest := by
        apply List.filter_eq_self.2; intro a ha; simpa using hnone a ha
      simp [h, hf, hv]; ring
    · simp only [List.filter_cons, h, decide_false] at hd
      have := ih d (by simpa using hd)
      simp only [List.map_cons, List.sum_cons, this]
      simp [h]; ring

/-- **Kernel fact**: after the update, the residual of row `i` is zero. -/
theorem gsRow_residual_zero (i : Nat) (row : Row K) (b x : Nat → K) (d : K)
    (hd : HasDiag i row d) (hd0 : d ≠ 0) :
    b i - rowDot row (gsRowFn i row b x) = 0 := by
  obtain ⟨h1, h2⟩ := rowScan_spec i row x (0, 0)
  have hdiag : (rowScan i row x).2 = d := by
    unfold rowScan; rw [h2]; unfold HasDiag at hd; rw [hd]; simp
  have hrs : (rowScan i row x).1 =
      ((row.filter (fun cv => cv.1 ≠ i)).map (fun cv => cv.2 * x cv.1)).sum := by
    unfold rowScan; rw [h1]; simp
  unfold gsRowFn
  rw [show rowScan i row x = ((rowScan i row x).1, (rowScan i row x).2) from rfl]
  simp only [hdiag, hd0, if_false]
  rw [rowDot_split i row _ d hd]
  -- off-diagonal terms do not see the updated coordinate
  have hoff : ((row.filter (fun cv => cv.1 ≠ i)).map
      (fun cv => cv.2 * Function.update x i ((b i - (rowScan i row x).1) / d) cv.1)).sum =
      ((row.filter (fun cv => cv.1 ≠ i)).map (fun cv => cv.2 * x cv.1)).sum := by
    congr 1
    apply List.map_congr_left
    intro cv hcv
    have : cv.1 ≠ i := by simpa using (List.mem_filter.1 hcv).2
    simp [Function.update_of_ne this]
  rw [hoff, Function.update_self, hrs]
  field_simp
  ring

#print axioms gsRow_residual_zero
end PyamgV
