import PyamgV.Proofs.StdAgg3

/-! PyamgV (C12): number of pass-1 aggregates < n (sentinel non-collision), pass 3, final spec. -/
namespace PyamgV.Agg
open PyamgV

/-- the three possible effects of a pass-1 step -/
theorem pass1Step_cases (G : Graph) (s : St) (t : Nat) :
    pass1Step G s t = s ∨
    (rd s.x t = 0 ∧ pass1Step G s t = { s with x := wr s.x t (-(G.n : Int)) }) ∨
    (rd s.x t = 0 ∧ (∃ j0 ∈ G.adj t, j0 ≠ t) ∧
      pass1Step G s t = { x := fill (wr s.x t s.next) (G.adj t) s.next,
                          y := wr s.y (s.next - 1).toNat (t : Int), next := s.next + 1 }) := by
  unfold pass1Step
  by_cases hx : rd s.x t ≠ 0
  · left; rw [if_pos hx]
  · have hx0 : rd s.x t = 0 := by simpa using hx
    rw [if_neg hx]
    obtain ⟨sc1, sc2, sc3⟩ := scan1_spec s.x t (G.adj t) false
    show (if (scan1 s.x t (G.adj t) false).1 = false then
        { s with x := wr s.x t (-(G.n : Int)) }
      else if (scan1 s.x t (G.adj t) false).2 = false then
        ({ x := fill (wr s.x t s.next) (G.adj t) s.next, y := wr s.y (s.next - 1).toNat (t : Int), next := s.next + 1 } : St)
      else s) = s ∨ _ ∨ _
    by_cases hN : (scan1 s.x t (G.adj t) false).1 = false
    · right; left; rw [if_pos hN]; exact ⟨hx0, rfl⟩
    · rw [if_neg hN]
      by_cases hA : (scan1 s.x t (G.adj t) false).2 = false
      · right; right; rw [if_pos hA]
        have hN' : (scan1 s.x t (G.adj t) false).1 = true := by simpa using hN
        have := (sc2 hA).1 hN'
        rcases this with h' | h'
        · exact absurd h' (by simp)
        · exact ⟨hx0, h', rfl⟩
      · left; rw [if_neg hA]

/-- a non-root member exists as soon as there is an aggregate -/
def Q1 (G : Graph) (s : St) : Prop :=
  2 ≤ s.next → ∃ j, j < G.n ∧ 1 ≤ rd s.x j ∧
    ∀ a : Int, 1 ≤ a → a < s.next → (rd s.y (a - 1).toNat).toNat ≠ j

theorem pass1Step_Q1 (G : Graph) (hG : GraphOK G) (t : Nat) (ht : t < G.n) (s : St)
    (hP : P1 G t s) (hQ : Q1 G s) : Q1 G (pass1Step G s t) := by
  rcases pass1Step_cases G s t with he | ⟨hx0, he⟩ | ⟨hx0, ⟨j0, hj0, hj0t⟩, he⟩
  · rw [he]; exact hQ
  · rw [he]
    intro h2
    obtain ⟨j, hj, hjx, hjr⟩ := hQ h2
    have hjt : j ≠ t := by intro e; subst e; omega
    refine ⟨j, hj, ?_, hjr⟩
    show 1 ≤ rd (wr s.x t (-(G.n : Int))) j
    rw [rd_wr]; rw [if_neg (fun hh => hjt hh.1.symm)]; exact hjx
  · rw [he]
    have hts : t < s.x.size := by rw [hP.xsize]; exact ht
    have hb : ∀ j ∈ G.adj t, j < (wr s.x t s.next).size := by
      intro j hj; simp [hP.xsize]; exact hG.bound t ht j hj
    obtain ⟨fsz, fsp⟩ := fill_spec s.next (G.adj t) (wr s.x t s.next) hb
    have hidx : (s.next - 1).toNat < s.y.size := by
      rw [hP.ysize]; have := hP.nextt; have := hP.next1; omega
    have hnewy : ∀ k, rd (wr s.y (s.next - 1).toNat (t : Int)) k =
        if k = (s.next - 1).toNat then (t : Int) else rd s.y k := by
      intro k; rw [rd_wr]
      by_cases hk : (s.next - 1).toNat = k
      · subst hk; rw [if_pos ⟨rfl, hidx⟩, if_pos rfl]
      · have : k ≠ (s.next - 1).toNat := fun e => hk e.symm
        rw [if_neg (fun hh => hk hh.1), if_neg this]
    have hn1 := hP.next1
    intro _
    by_cases h2 : 2 ≤ s.next
    · obtain ⟨j, hj, hjx, hjr⟩ := hQ h2
      have hjt : j ≠ t := by intro e; subst e; omega
      refine ⟨j, hj, ?_, ?_⟩
      · show 1 ≤ rd (fill (wr s.x t s.next) (G.adj t) s.next) j
        rw [fsp]; split
        · exact hn1
        · rw [rd_wr, if_neg (fun hh => hjt hh.1.symm)]; exact hjx
      · intro a h1 ha
        have ha' : a < s.next + 1 := ha
        show (rd (wr s.y (s.next - 1).toNat (t : Int)) (a - 1).toNat).toNat ≠ j
        rw [hnewy]
        by_cases hae : a = s.next
        · subst hae; rw [if_pos rfl]; simpa using fun e => hjt e.symm
        · rw [if_neg (by omega)]; exact hjr a h1 (by omega)
    · have hnext : s.next = 1 := by omega
      refine ⟨j0, hG.bound t ht j0 hj0, ?_, ?_⟩
      · show 1 ≤ rd (fill (wr s.x t s.next) (G.adj t) s.next) j0
        rw [fsp, if_pos hj0]; exact hn1
      · intro a h1 ha
        have ha' : a < s.next + 1 := ha
        have hae : a = s.next := by omega
        show (rd (wr s.y (s.next - 1).toNat (t : Int)) (a - 1).toNat).toNat ≠ j0
        subst hae
        rw [hnewy, if_pos rfl]; simpa using fun e => hj0t e.symm

theorem pass1_PQ (G : Graph) (hG : GraphOK G) : P1 G G.n (pass1 G) ∧ Q1 G (pass1 G) := by
  unfold pass1
  refine foldl_range_inv (fun k s => P1 G k s ∧ Q1 G s) _ G.n _ ⟨P1_init G, ?_⟩ ?_
  · intro h; simp only at h; omega
  · intro k s hk hp
    exact ⟨pass1Step_inv G hG k hk s hp.1, pass1Step_Q1 G hG k hk s hp.1 hp.2⟩

/-- **sentinel non-collision**: the number of pass-1 aggregates is at most `n - 1` -/
theorem pass1_count (G : Graph) (hG : GraphOK G) (hn : 1 ≤ G.n) : (pass1 G).next ≤ G.n := by
  obtain ⟨hP, hQ⟩ := pass1_PQ G hG
  by_cases h2 : 2 ≤ (pass1 G).next
  · obtain ⟨j, hj, _, hjr⟩ := hQ h2
    -- roots, as a strictly increasing sequence of naturals below n that avoids j
    let f : Nat → Nat := fun a => (rd (pass1 G).y a).toNat
    have hm : ((pass1 G).next - 1).toNat + 1 ≤ G.n := by
      apply incr_skip_bound f ((pass1 G).next - 1).toNat G.n j hj
      · intro a ha
        have h1 := hP.incr (a + 1 : Int) (a + 2 : Int) (by omega) (by omega) (by omega)
        have r1 := hP.root (a + 1 : Int) (by omega) (by omega)
        have r2 := hP.root (a + 2 : Int) (by omega) (by omega)
        have e1 : ((a : Int) + 1 - 1).toNat = a := by omega
        have e2 : ((a : Int) + 2 - 1).toNat = a + 1 := by omega
        rw [e1] at h1 r1; rw [e2] at h1 r2
        show (rd (pass1 G).y a).toNat < (rd (pass1 G).y (a+1)).toNat
        omega
      · intro a ha
        have r1 := hP.root (a + 1 : Int) (by omega) (by omega)
        have e1 : ((a : Int) + 1 - 1).toNat = a := by omega
        rw [e1] at r1
        show (rd (pass1 G).y a).toNat < G.n
        omega
      · intro a ha
        have := hjr (a + 1 : Int) (by omega) (by omega)
        have e1 : ((a : Int) + 1 - 1).toNat = a := by omega
        rw [e1] at this
        exact this
    omega
  · omega

#print axioms pass1_count
end PyamgV.Agg
