import PyamgV.Proofs.ExtC20Sums
import PyamgV.Proofs.C20PoissonMat

/-! PyamgV (C20, extension E21): the readings `rowdot` / `qform` of a triple list are the matrix-vector
product / quadratic form of its entry function `entry T`, and the **Kronecker-sum structure of the FD
Poisson matrix of the `stencil_grid` model**: on the grid `g :: gs` (row-major index `p = c * prod gs + r`)

  `A_{g::gs} (cP+r) (c'P+r') = [r = r'] tri c c' + [c = c'] A_gs r r'`,   `tri = tridiag(-1, 2, -1)`. -/
namespace PyamgV.C20
open PyamgV.Stencil Finset

theorem entry_cons (t : Triple) (T : List Triple) (p q : Nat) :
    entry (t :: T) p q = (if t.1 = p ∧ t.2.1 = q then t.2.2 else 0) + entry T p q := by
  simp [entry]

theorem rowdot_cons (t : Triple) (T : List Triple) (v : Nat → Rat) (r : Nat) :
    rowdot (t :: T) v r = (if t.1 = r then t.2.2 * v t.2.1 else 0) + rowdot T v r := by
  simp [rowdot]

theorem qform_cons (t : Triple) (T : List Triple) (x : Nat → Rat) :
    qform (t :: T) x = x t.1 * t.2.2 * x t.2.1 + qform T x := by
  simp [qform]

/-- one component of `A v` read off the triples = row of the entry function times `v` -/
theorem rowdot_eq_mv (n : Nat) (T : List Triple) (hT : ∀ t ∈ T, t.2.1 < n) (v : Nat → Rat) (r : Nat) :
    rowdot T v r = mv n (entry T) v r := by
  induction T with
  | nil => simp [rowdot, mv, entry]
  | cons t T ih =>
    rw [rowdot_cons, ih (fun t' ht' => hT t' (by simp [ht']))]
    unfold mv
    have e : ∀ q ∈ range n, entry (t :: T) r q * v q =
        (if t.2.1 = q then (if t.1 = r then t.2.2 * v q else 0) else 0) + entry T r q * v q := by
      intro q _
      rw [entry_cons, add_mul]
      congr 1
      by_cases h1 : t.1 = r <;> by_cases h2 : t.2.1 = q <;> simp [h1, h2]
    rw [Finset.sum_congr rfl e, Finset.sum_add_distrib, sum_pick n t.2.1 (hT t (by simp))]

/-- `xᵀ A x` read off the triples = `Σ_p x_p (A x)_p` -/
theorem qform_eq_sum_rowdot (n : Nat) (T : List Triple) (hT : ∀ t ∈ T, t.1 < n) (x : Nat → Rat) :
    qform T x = ∑ p ∈ range n, x p * rowdot T x p := by
  induction T with
  | nil => simp [qform, rowdot]
  | cons t T ih =>
    rw [qform_cons, ih (fun t' ht' => hT t' (by simp [ht']))]
    have e : ∀ p ∈ range n, x p * rowdot (t :: T) x p =
        (if t.1 = p then x p * (t.2.2 * x t.2.1) else 0) + x p * rowdot T x p := by
      intro p _
      rw [rowdot_cons, mul_add]
      congr 1
      split <;> simp
    rw [Finset.sum_congr rfl e, Finset.sum_add_distrib, sum_pick n t.1 (hT t (by simp))]
    ring

theorem qform_eq_qf (n : Nat) (T : List Triple) (hT : ∀ t ∈ T, t.1 < n ∧ t.2.1 < n) (x : Nat → Rat) :
    qform T x = qf n (entry T) x := by
  rw [qform_eq_sum_rowdot n T (fun t ht => (hT t ht).1)]
  unfold qf
  apply Finset.sum_congr rfl
  intro p _
  rw [rowdot_eq_mv n T (fun t ht => (hT t ht).2)]

/-! ## the Kronecker-sum structure of the FD Poisson matrix -/

/-- the 1-D operator `tridiag(-1, 2, -1)`, entry `(c, c')` -/
def tri (c c' : Nat) : Rat := if c = c' then 2 else if c + 1 = c' ∨ c' + 1 = c then -1 else 0

theorem coordsR_cons (g : Nat) (gs : List Nat) (c r : Nat) (hr : r < prod gs) :
    coordsR (g :: gs) (c * prod gs + r) = c :: coordsR gs r := by
  have hpos : 0 < prod gs := by omega
  show (c * prod gs + r) / prod gs :: coordsR gs ((c * prod gs + r) % prod gs) = _
  have e1 : (c * prod gs + r) / prod gs = c := by
    rw [Nat.mul_comm, Nat.mul_add_div hpos, Nat.div_eq_of_lt hr]; rfl
  have e2 : (c * prod gs + r) % prod gs = r := by
    rw [Nat.mul_comm, Nat.mul_add_mod, Nat.mod_eq_of_lt hr]
  rw [e1, e2]

theorem lt_prod_cons (g : Nat) (gs : List Nat) (c r : Nat) (hc : c < g) (hr : r < prod gs) :
    c * prod gs + r < prod (g :: gs) := by
  rw [prod_cons]
  calc c * prod gs + r < c * prod gs + prod gs := by omega
    _ = (c + 1) * prod gs := by rw [Nat.add_mul, Nat.one_mul]
    _ ≤ g * prod gs := Nat.mul_le_mul_right _ (by omega)

theorem unitVec_zero (N : Nat) (s : Int) : unitVec (N + 1) 0 s = s :: List.replicate N 0 := by
  unfold unitVec
  rw [List.range_succ_eq_map, List.map_cons, List.map_map]
  simp only [if_true, Function.comp_def, Nat.succ_ne_zero, if_false]
  congr 1
  rw [List.eq_replicate_iff]
  simp

theorem unitVec_succ (N i : Nat) (s : Int) : unitVec (N + 1) (i + 1) s = 0 :: unitVec N i s := by
  unfold unitVec
  rw [List.range_succ_eq_map, List.map_cons, List.map_map]
  simp [Function.comp_def]

/-- a zero offset carries `r` to `r'` iff `r = r'` -/
theorem shift_zero_iff (gs : List Nat) (r r' : Nat) (hr : r < prod gs) (hr' : r' < prod gs) :
    Shift gs (List.replicate gs.length 0) (coordsR gs r) (coordsR gs r') ↔ r = r' := by
  constructor
  · intro h
    have e := shift_zero gs _ _ _ h (fun o ho => (List.mem_replicate.1 ho).2)
    rw [← (lin_coordsR gs r hr).2, ← (lin_coordsR gs r' hr').2, e]
  · rintro rfl
    exact shift_refl_zero gs _ _ (lin_coordsR gs r hr).1 (by simp) (fun o ho => (List.mem_replicate.1 ho).2)

open Classical in
/-- **Kronecker-sum structure of the FD Poisson matrix** produced by the `stencil_grid` model -/
theorem poissonFD_kron (g : Nat) (gs : List Nat) :
    KronSum g (prod gs) (entry (stencilGrid (g :: gs) (poissonFD (gs.length + 1)))) tri
      (entry (stencilGrid gs (poissonFD gs.length))) := by
  intro c c' r r' hc hc' hr hr'
  have hp := lt_prod_cons g gs c r hc hr
  have hq := lt_prod_cons g gs c' r' hc' hr'
  rw [stencilGrid_entry (g :: gs) _ (by simpa using poissonFD_len (gs.length + 1)),
    stencilGrid_entry gs _ (poissonFD_len gs.length)]
  rw [coordsR_cons g gs c r hr, coordsR_cons g gs c' r' hr']
  unfold poissonFD
  simp only [List.map_cons, List.sum_cons]
  rw [sum_flatMap', sum_flatMap', List.range_succ_eq_map, List.map_cons, List.sum_cons, List.map_map]
  simp only [Function.comp_def, List.map_cons, List.map_nil, List.sum_cons, List.sum_nil, unitVec_zero,
    unitVec_succ, List.replicate_succ, Shift, hp, hq, hr, hr', true_and,
    shift_zero_iff gs r r' hr hr']
  by_cases hcc : c = c'
  · subst hcc
    by_cases hrr : r = r'
    · subst hrr
      simp [tri]
      ring
    · simp [hrr]
  · have hcc' : ¬ ((c' : Int) = (c : Int) + 0) := by omega
    have hz : ((List.range gs.length).map fun i : Nat => (0 : Rat) + (0 + 0)).sum = 0 := by simp
    by_cases hrr : r = r'
    · subst hrr
      simp only [hcc', false_and, if_false, hcc, tri, and_true]
      have h1 : ((c' : Int) = (c : Int) + -1) ↔ c' + 1 = c := by omega
      have h2 : ((c' : Int) = (c : Int) + 1) ↔ c + 1 = c' := by omega
      simp only [h1, h2]
      by_cases ha : c' + 1 = c <;> by_cases hb : c + 1 = c' <;> simp [ha, hb]
      omega
    · have hcc2 : ¬ c' = c := fun h => hcc h.symm
      simp [hrr, hcc, hcc2]

end PyamgV.C20
