import PyamgV.Proofs.ExtC16RelaxNE

/-! PyamgV (C16, extension E29): the model's `A.tocsc()` (`C16R.cscOf`) is correct.

* `rowOf_ofRowLists`  reading row `j` of the compressed arrays built from lists gives back list `j`;
* `rowOf_cscOf`       column `j` of `cscOf A` is `colList A j`;
* `rowsOK_cscOf`      canonical rows of `A` give canonical columns of `cscOf A`;
* `cscOp_cscOf`       the operator of the CSC arrays is the operator of the CSR arrays. -/
namespace PyamgV.C16R
open PyamgV PyamgV.K Finset
set_option linter.unusedSectionVars false
set_option linter.unusedVariables false

variable {R : Type} [Field R] [LinearOrder R] [IsStrictOrderedRing R] [DecidableEq R]

/-! ### compressed arrays of lists -/

theorem read_window (P L S : List (Nat × R)) :
    (List.range' P.length L.length).map (fun jj =>
      (rdN ((P ++ L ++ S).map Prod.fst).toArray jj, rd ((P ++ L ++ S).map Prod.snd).toArray jj)) = L := by
  apply List.ext_getElem
  · simp
  · intro k h1 h2
    have hk : k < L.length := h2
    simp only [List.getElem_map, List.getElem_range', rdN, rd, Array.getD_eq_getD_getElem?,
      List.getElem?_toArray, List.getElem?_map, one_mul]
    have h3 : (P ++ L ++ S)[P.length + k]? = some L[k] := by
      rw [List.append_assoc, List.getElem?_append_right (by omega)]
      simp [List.getElem?_append_left, hk]
    rw [h3]
    simp

theorem flatten_split (ls : List (List (Nat × R))) (j : Nat) (hj : j < ls.length) :
    ls.flatten = (ls.take j).flatten ++ ls[j] ++ (ls.drop (j + 1)).flatten := by
  have h : ls = ls.take j ++ ls[j] :: ls.drop (j + 1) := by
    rw [← List.drop_eq_getElem_cons hj, List.take_append_drop]
  have h2 : (ls.take j ++ ls[j] :: ls.drop (j + 1)).flatten =
      (ls.take j).flatten ++ ls[j] ++ (ls.drop (j + 1)).flatten := by
    simp only [List.flatten_append, List.flatten_cons, List.append_assoc]
  rw [← h2, ← h]

theorem take_succ_flatten_length (ls : List (List (Nat × R))) (j : Nat) (hj : j < ls.length) :
    ((ls.take (j + 1)).flatten).length = ((ls.take j).flatten).length + ls[j].length := by
  rw [List.take_add_one, List.flatten_append, List.length_append]
  simp [List.getElem?_eq_getElem hj]

/-- row `j` of the arrays built by `ofRowLists` is the list `rows j` -/
theorem rowOf_ofRowLists (n : Nat) (rows : Nat → List (Nat × R)) (j : Nat) (hj : j < n) :
    rowOf (ofRowLists n rows) j = rows j := by
  set ls := (List.range n).map rows with hls
  have hlen : ls.length = n := by simp [hls]
  have hjl : j < ls.length := by omega
  have hget : ls[j] = rows j := by simp [hls]
  have hap : ∀ i, i ≤ n → rdN (ofRowLists n rows).ap i = ((ls.take i).flatten).length := by
    intro i hi
    simp only [ofRowLists, rdN, Array.getD_eq_getD_getElem?, List.getElem?_toArray, List.getElem?_map]
    rw [List.getElem?_range (by omega)]
    simp [hls]
  unfold rowOf Csr.jjs
  rw [hap j (by omega), hap (j + 1) (by omega), take_succ_flatten_length ls j hjl, Nat.add_sub_cancel_left, hget]
  have hsplit := flatten_split ls j hjl
  rw [hget] at hsplit
  have haj : (ofRowLists n rows).aj = (ls.flatten.map Prod.fst).toArray := rfl
  have hax : (ofRowLists n rows).ax = (ls.flatten.map Prod.snd).toArray := rfl
  rw [haj, hax, hsplit]
  exact read_window _ _ _

/-- column `j` of the model's CSC arrays -/
theorem rowOf_cscOf (A : Csr R) (j : Nat) (hj : j < A.n) : rowOf (cscOf A) j = colList A j :=
  rowOf_ofRowLists A.n (colList A) j hj

/-! ### the columns of a CSR matrix -/

/-- the entries of row `i` that lie in column `j` -/
def rowCol (A : Csr R) (i j : Nat) : List (Nat × R) :=
  ((A.jjs i).filter (fun jj => rdN A.aj jj = j)).map (fun jj => (i, rd A.ax jj))

theorem colList_eq (A : Csr R) (j : Nat) : colList A j = (List.range A.n).flatMap (fun i => rowCol A i j) := rfl

theorem mem_colList_lt (A : Csr R) (j : Nat) : ∀ cv ∈ colList A j, cv.1 < A.n := by
  intro cv hcv
  rw [colList_eq, List.mem_flatMap] at hcv
  obtain ⟨i, hi, hm⟩ := hcv
  unfold rowCol at hm
  obtain ⟨jj, _, rfl⟩ := List.mem_map.1 hm
  simpa using hi

theorem rowCol_fst (A : Csr R) (i j : Nat) : ∀ cv ∈ rowCol A i j, cv.1 = i := by
  intro cv hm
  unfold rowCol at hm
  obtain ⟨jj, _, rfl⟩ := List.mem_map.1 hm
  rfl

theorem filter_length_le_one (A : Csr R) (j : Nat) :
    ∀ (l : List Nat), (l.map (fun jj => rdN A.aj jj)).Nodup →
      (l.filter (fun jj => rdN A.aj jj = j)).length ≤ 1 := by
  intro l
  induction l with
  | nil => intro _; simp
  | cons jj rest ih =>
    intro hnd
    rw [List.map_cons, List.nodup_cons] at hnd
    by_cases h : rdN A.aj jj = j
    · rw [List.filter_cons_of_pos (by simpa using h)]
      have : rest.filter (fun jj => rdN A.aj jj = j) = [] := by
        rw [List.filter_eq_nil_iff]
        intro k hk hkj
        apply hnd.1
        rw [h]
        exact List.mem_map.2 ⟨k, hk, by simpa using hkj⟩
      rw [this]; simp
    · rw [List.filter_cons_of_neg (by simpa using h)]
      exact ih hnd.2

/-- at most one entry of a canonical row lies in a given column -/
theorem rowCol_length_le (A : Csr R) (i j : Nat) (hnd : ((rowOf A i).map Prod.fst).Nodup) :
    (rowCol A i j).length ≤ 1 := by
  have h1 : (rowOf A i).map Prod.fst = (A.jjs i).map (fun jj => rdN A.aj jj) := by
    unfold rowOf; rw [List.map_map]; rfl
  rw [h1] at hnd
  unfold rowCol
  rw [List.length_map]
  exact filter_length_le_one A j _ hnd

theorem rowsOK_cscOf (A : Csr R) (hA : RowsOK A.n (rowOf A)) : RowsOK A.n (rowOf (cscOf A)) := by
  intro j hj
  rw [rowOf_cscOf A j hj]
  refine ⟨mem_colList_lt A j, ?_⟩
  rw [colList_eq, List.map_flatMap, List.nodup_flatMap]
  constructor
  · intro i hi
    have hi' : i < A.n := by simpa using hi
    have hlen := rowCol_length_le A i j (hA i hi').2
    match h : rowCol A i j with
    | [] => simp
    | [a] => simp
    | a :: b :: rest => rw [h] at hlen; simp at hlen
  · have hpw : List.Pairwise (fun a b : Nat => a ≠ b) (List.range A.n) :=
      List.Pairwise.imp (fun h => Nat.ne_of_lt h) List.pairwise_lt_range
    refine List.Pairwise.imp ?_ hpw
    intro a c hac
    show List.Disjoint _ _
    intro x hx1 hx2
    obtain ⟨cv1, hm1, rfl⟩ := List.mem_map.1 hx1
    obtain ⟨cv2, hm2, he⟩ := List.mem_map.1 hx2
    have e1 := rowCol_fst A a j cv1 hm1
    have e2 := rowCol_fst A c j cv2 hm2
    exact hac (by rw [← e1, ← e2, he])

/-! ### the operator -/

theorem rowVec_append (l1 l2 : Row R) : rowVec (l1 ++ l2) = rowVec l1 + rowVec l2 := by
  induction l1 with
  | nil => simp [rowVec_nil]
  | cons cv rest ih => rw [List.cons_append, rowVec_cons, rowVec_cons, ih, add_assoc]

theorem rowVec_rowCol_aux (A : Csr R) (i j : Nat) (l : List Nat) :
    rowVec ((l.filter (fun jj => rdN A.aj jj = j)).map (fun jj => (i, rd A.ax jj))) i =
      rowVec (l.map (fun jj => (rdN A.aj jj, rd A.ax jj))) j := by
  induction l with
  | nil => simp [rowVec_nil]
  | cons jj rest ih =>
    by_cases h : rdN A.aj jj = j
    · rw [List.filter_cons_of_pos (by simpa using h), List.map_cons, List.map_cons, rowVec_cons, rowVec_cons,
        Pi.add_apply, Pi.add_apply, ih]
      simp [h]
    · rw [List.filter_cons_of_neg (by simpa using h), List.map_cons, rowVec_cons, Pi.add_apply, ih]
      simp [h]

theorem rowVec_rowCol (A : Csr R) (i j k : Nat) :
    rowVec (rowCol A i j) k = if i = k then rowVec (rowOf A k) j else 0 := by
  by_cases h : i = k
  · subst h
    rw [if_pos rfl]
    exact rowVec_rowCol_aux A i j (A.jjs i)
  · rw [if_neg h]
    exact rowVec_zero_of_not_mem _ k (fun cv hm => by rw [rowCol_fst A i j cv hm]; exact h)

theorem rowVec_colList (A : Csr R) (j k : Nat) :
    rowVec (colList A j) k = if k < A.n then rowVec (rowOf A k) j else 0 := by
  rw [colList_eq]
  have key : ∀ m, rowVec ((List.range m).flatMap (fun i => rowCol A i j)) k =
      if k < m then rowVec (rowOf A k) j else 0 := by
    intro m
    induction m with
    | zero => simp [rowVec_nil]
    | succ m ih =>
      rw [List.range_succ, List.flatMap_append, rowVec_append, Pi.add_apply, ih]
      simp only [List.flatMap_cons, List.flatMap_nil, List.append_nil]
      rw [rowVec_rowCol]
      by_cases h1 : k < m
      · have : m ≠ k := by omega
        simp [h1, this, Nat.lt_succ_of_lt h1]
      · by_cases h2 : m = k
        · subst h2; simp
        · have : ¬ k < m + 1 := by omega
          simp [h1, h2, this]
  exact key A.n

/-- **`A.tocsc()` is the same matrix**: with the column indices of `A` in range, the operator of the model's CSC
arrays is the operator of the CSR arrays -/
theorem cscOp_cscOf (A : Csr R) (hA : ∀ i, i < A.n → ∀ cv ∈ rowOf A i, cv.1 < A.n) (u : Nat → R) :
    cscOp A.n (rowOf (cscOf A)) u = csrOp A.n (rowOf A) u := by
  funext k
  unfold cscOp
  have h1 : ∀ i ∈ range A.n, u i * rowVec (rowOf (cscOf A) i) k =
      u i * (if k < A.n then rowVec (rowOf A k) i else 0) := by
    intro i hi
    rw [rowOf_cscOf A i (mem_range.1 hi), rowVec_colList]
  rw [sum_congr rfl h1]
  by_cases hk : k < A.n
  · simp only [hk, if_true]
    rw [csrOp_apply _ _ _ _ hk, rowDot_eq_euc A.n _ (hA k hk) u, euc_apply]
    exact sum_congr rfl (fun i _ => mul_comm _ _)
  · simp [hk, csrOp]

end PyamgV.C16R
