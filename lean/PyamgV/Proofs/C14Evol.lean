import PyamgV.Proofs.C14Tail

/-! PyamgV (C14): the tail of `evolution_strength_of_connection` (model `evolTail`): the common
contract relative to the pattern handed to the drop-tolerance filter, with the two documented
deviations made explicit: the diagonal is always present (`soc-added-diagonal`) and symmetrisation
adds the transposed pattern (`evolution-symmetrize-nonsymmetric-pattern`). -/
namespace PyamgV.C14
open PyamgV PyamgV.N

theorem unitDiag_cols (i : Nat) (row : Row) (j : Nat) :
    j ∈ (unitDiag i row).map Prod.fst ↔ j = i ∨ j ∈ row.map Prod.fst := by
  induction row with
  | nil => simp [unitDiag]
  | cons c t ih =>
    obtain ⟨k, v⟩ := c
    unfold unitDiag
    by_cases h1 : k < i
    · simp only [h1, if_true, List.map_cons, List.mem_cons, ih]
      constructor
      · rintro (h | h | h)
        · exact Or.inr (Or.inl h)
        · exact Or.inl h
        · exact Or.inr (Or.inr h)
      · rintro (h | h | h)
        · exact Or.inr (Or.inl h)
        · exact Or.inl h
        · exact Or.inr (Or.inr h)
    · by_cases h2 : k = i
      · subst h2; simp
      · simp [h1, h2]

theorem unitDiag_mem (i : Nat) (row : Row) (cv : Nat × Rat) (h : cv ∈ unitDiag i row) :
    cv = (i, 1) ∨ cv ∈ row := by
  induction row with
  | nil => simp [unitDiag] at h; exact Or.inl h
  | cons c t ih =>
    obtain ⟨k, v⟩ := c
    unfold unitDiag at h
    by_cases h1 : k < i
    · simp only [h1, if_true] at h
      rcases List.mem_cons.1 h with rfl | h'
      · exact Or.inr List.mem_cons_self
      · rcases ih h' with h2 | h2
        · exact Or.inl h2
        · exact Or.inr (List.mem_cons_of_mem _ h2)
    · by_cases h2 : k = i
      · subst h2
        simp only [lt_self_iff_false, if_false, if_true] at h
        rcases List.mem_cons.1 h with rfl | h'
        · left; simp
        · exact Or.inr (List.mem_cons_of_mem _ h')
      · simp only [h1, h2, if_false] at h
        rcases List.mem_cons.1 h with rfl | h'
        · exact Or.inl rfl
        · exact Or.inr h'

theorem unitDiag_has_one (i : Nat) (row : Row) : (i, (1 : Rat)) ∈ unitDiag i row := by
  induction row with
  | nil => simp [unitDiag]
  | cons c t ih =>
    obtain ⟨k, v⟩ := c
    unfold unitDiag
    by_cases h1 : k < i
    · simp only [h1, if_true]; exact List.mem_cons_of_mem _ ih
    · by_cases h2 : k = i
      · subst h2; simp
      · simp [h1, h2]

/-- the last three steps (unit diagonal, inversion, scaling) on a row of non-negative values: columns
= the row's columns plus the diagonal, entries in `[0,1]`, the row attains 1 -/
theorem evolFinalRow_contract (tiny : Rat) (ht : 0 < tiny) (ht1 : tiny ≤ 1) (i : Nat) (r : Row)
    (hnn : ∀ cv ∈ r, 0 ≤ cv.2) :
    (∀ j, j ∈ (scaleRow tiny (invRow (unitDiag i r))).map Prod.fst ↔ j = i ∨ j ∈ r.map Prod.fst) ∧
    (∀ cv ∈ scaleRow tiny (invRow (unitDiag i r)), 0 ≤ cv.2 ∧ cv.2 ≤ 1) ∧
    (∃ cv ∈ scaleRow tiny (invRow (unitDiag i r)), cv.2 = 1) := by
  have h1 : ∀ cv ∈ unitDiag i r, 0 ≤ cv.2 := by
    intro cv hcv
    rcases unitDiag_mem i r cv hcv with h | h
    · rw [h]; exact zero_le_one
    · exact hnn cv h
  have h2 := invRow_nonneg _ h1
  have hs := scaleRow_contract tiny ht _ h2
  refine ⟨?_, hs.1, hs.2 ?_⟩
  · intro j; rw [scaleRow_cols, invRow_cols, unitDiag_cols]
  · refine ⟨(i, 1 / 1), ?_, by simpa using ht1⟩
    unfold invRow
    exact List.mem_map.2 ⟨(i, 1), unitDiag_has_one i r, rfl⟩

theorem present_iff (rows : List Row) (i j : Nat) :
    present rows i j = true ↔ j ∈ (rows.getD i []).map Prod.fst := by
  unfold present
  simp [List.any_eq_true, List.mem_map]

theorem entry_nonneg (rows : List Row) (hnn : ∀ r ∈ rows, ∀ cv ∈ r, 0 ≤ cv.2) (i j : Nat) : 0 ≤ entry rows i j := by
  unfold entry
  cases h : (rows.getD i []).find? (fun cv => cv.1 == j) with
  | none => simp
  | some cv =>
    simp only [Option.map_some, Option.getD_some]
    have hm := List.mem_of_find?_eq_some h
    by_cases hi : i < rows.length
    · have : rows.getD i [] ∈ rows := by
        rw [List.getD_eq_getElem?_getD, List.getElem?_eq_getElem hi]; simp
      exact hnn _ this cv hm
    · have : rows.getD i [] = [] := by
        rw [List.getD_eq_getElem?_getD, List.getElem?_eq_none (by omega)]; rfl
      rw [this] at hm; simp at hm

/-- row `i` of `0.5 (T + Tᵀ)`: its columns lie in the row or in the transposed pattern, its values
are positive when `T ≥ 0` -/
theorem symmetrizeRow_spec (rows : List Row) (hnn : ∀ r ∈ rows, ∀ cv ∈ r, 0 ≤ cv.2) (i : Nat) :
    ∀ cv ∈ symmetrizeRow rows i,
      (cv.1 ∈ (rows.getD i []).map Prod.fst ∨ i ∈ (rows.getD cv.1 []).map Prod.fst) ∧ 0 < cv.2 := by
  intro cv hcv
  unfold symmetrizeRow at hcv
  obtain ⟨j, _, hj⟩ := List.mem_filterMap.1 hcv
  by_cases hp : (present rows i j || present rows j i) = true
  · simp only [hp, if_true] at hj
    by_cases hs : entry rows i j + entry rows j i ≠ 0
    · simp only [hs, ne_eq, not_false_eq_true, if_true, Option.some.injEq] at hj
      subst hj
      constructor
      · simp only [Bool.or_eq_true, present_iff] at hp; exact hp
      · have h0 : 0 ≤ entry rows i j + entry rows j i :=
          add_nonneg (entry_nonneg rows hnn i j) (entry_nonneg rows hnn j i)
        exact div_pos (lt_of_le_of_ne h0 (Ne.symm hs)) (by norm_num)
    · simp [hs] at hj
  · simp [hp] at hj

end PyamgV.C14

namespace PyamgV.C14
open PyamgV PyamgV.N

theorem mapRows_length {α β : Type} (f : Nat → RowOf α → RowOf β) (rows : List (RowOf α)) :
    (mapRows f rows).length = rows.length := by
  unfold mapRows; simp

theorem mapRows_getD (f : Nat → Row → Row) (rows : List Row) (k : Nat) (hk : k < rows.length) :
    (mapRows f rows).getD k [] = f k (rows.getD k []) := by
  rw [List.getD_eq_getElem?_getD, mapRows_getElem?, List.getD_eq_getElem?_getD, List.getElem?_eq_getElem hk]
  simp

/-- filtered rows: columns inside the original rows, values non-negative -/
theorem filtered_spec (big ε : Rat) (rows : List Row) (hnn : ∀ r ∈ rows, ∀ cv ∈ r, 0 ≤ cv.2) :
    (∀ k, ∀ j ∈ ((mapRows (fun i r => elimZeros (distFilterRow big ε i r)) rows).getD k []).map Prod.fst,
        j ∈ (rows.getD k []).map Prod.fst) ∧
    (∀ r ∈ mapRows (fun i r => elimZeros (distFilterRow big ε i r)) rows, ∀ cv ∈ r, 0 ≤ cv.2) := by
  constructor
  · intro k j hj
    by_cases hk : k < rows.length
    · rw [mapRows_getD _ _ _ hk] at hj
      obtain ⟨cv, hcv, rfl⟩ := List.mem_map.1 hj
      have := elimZeros_sub _ cv hcv
      rw [← distFilterRow_cols big ε k]
      exact List.mem_map.2 ⟨cv, this, rfl⟩
    · have : (mapRows (fun i r => elimZeros (distFilterRow big ε i r)) rows).getD k [] = [] := by
        rw [List.getD_eq_getElem?_getD, List.getElem?_eq_none (by rw [mapRows_length]; omega)]; rfl
      rw [this] at hj; simp at hj
  · intro r hr cv hcv
    obtain ⟨k, hk, hrk⟩ := List.getElem_of_mem hr
    rw [mapRows_length] at hk
    have h1 : (mapRows (fun i r => elimZeros (distFilterRow big ε i r)) rows)[k]? = some r := by
      rw [List.getElem?_eq_getElem (by rw [mapRows_length]; exact hk)]; simp [hrk]
    rw [mapRows_getElem?, List.getElem?_eq_getElem hk] at h1
    simp only [Option.map_some, Option.some.injEq] at h1
    subst h1
    have hm := elimZeros_sub _ cv hcv
    exact distFilterRow_nonneg big ε k _ (fun c hc => hnn _ (List.getElem_mem hk) c hc) cv hm

/-- **contract of `evolution_strength_of_connection`** (CSR input, finite `epsilon`) relative to the
non-negative strength values `rows` handed to the drop-tolerance filter: row `i` of the result has its
columns in {diagonal} ∪ columns of `rows[i]` ∪ (only with `symmetrize_measure`) {j : i is a column of
`rows[j]`}; the diagonal is always present; entries lie in `[0,1]`; the row attains 1 -/
theorem evolTail_contract (big tiny ε : Rat) (ht : 0 < tiny) (ht1 : tiny ≤ 1) (symm : Bool) (rows : List Row)
    (hnn : ∀ r ∈ rows, ∀ cv ∈ r, 0 ≤ cv.2) (i : Nat) (hi : i < rows.length) :
    ∃ out, (evolTail big tiny ε symm rows)[i]? = some out ∧
      (∀ j ∈ out.map Prod.fst, j = i ∨ j ∈ (rows.getD i []).map Prod.fst ∨
          (symm = true ∧ i ∈ (rows.getD j []).map Prod.fst)) ∧
      i ∈ out.map Prod.fst ∧ (∀ cv ∈ out, 0 ≤ cv.2 ∧ cv.2 ≤ 1) ∧ ∃ cv ∈ out, cv.2 = 1 := by
  obtain ⟨hcols, hnn1⟩ := filtered_spec big ε rows hnn
  have hlen : (mapRows (fun i r => elimZeros (distFilterRow big ε i r)) rows).length = rows.length :=
    mapRows_length _ _
  have hi1 : i < (mapRows (fun i r => elimZeros (distFilterRow big ε i r)) rows).length := by rw [hlen]; exact hi
  unfold evolTail
  simp only
  cases symm with
  | false =>
    simp only [Bool.false_eq_true, if_false, false_and, or_false]
    refine ⟨scaleRow tiny (invRow (unitDiag i
      ((mapRows (fun i r => elimZeros (distFilterRow big ε i r)) rows)[i]'hi1))), ?_, ?_⟩
    · rw [mapRows_getElem?, List.getElem?_eq_getElem hi1]; rfl
    · have hr : ∀ cv ∈ (mapRows (fun i r => elimZeros (distFilterRow big ε i r)) rows)[i]'hi1,
          0 ≤ cv.2 := hnn1 _ (List.getElem_mem _)
      obtain ⟨h1, h2, h3⟩ := evolFinalRow_contract tiny ht ht1 i _ hr
      refine ⟨?_, (h1 i).2 (Or.inl rfl), h2, h3⟩
      intro j hj
      rcases (h1 j).1 hj with h | h
      · exact Or.inl h
      · right
        apply hcols i j
        rw [List.getD_eq_getElem?_getD, List.getElem?_eq_getElem hi1]
        exact h
  | true =>
    simp only [if_true, true_and]
    refine ⟨scaleRow tiny (invRow (unitDiag i
      (symmetrizeRow (mapRows (fun i r => elimZeros (distFilterRow big ε i r)) rows) i))), ?_, ?_⟩
    · rw [mapRows_getElem?, List.getElem?_map, List.getElem?_range hi1]; rfl
    · have hspec := symmetrizeRow_spec _ hnn1 i
      have hr : ∀ cv ∈ symmetrizeRow (mapRows (fun i r => elimZeros (distFilterRow big ε i r)) rows) i, 0 ≤ cv.2 :=
        fun cv hcv => le_of_lt (hspec cv hcv).2
      obtain ⟨h1, h2, h3⟩ := evolFinalRow_contract tiny ht ht1 i _ hr
      refine ⟨?_, (h1 i).2 (Or.inl rfl), h2, h3⟩
      intro j hj
      rcases (h1 j).1 hj with h | h
      · exact Or.inl h
      · right
        obtain ⟨cv, hcv, rfl⟩ := List.mem_map.1 h
        rcases (hspec cv hcv).1 with h' | h'
        · exact Or.inl (hcols i _ h')
        · exact Or.inr (hcols cv.1 _ h')

end PyamgV.C14
