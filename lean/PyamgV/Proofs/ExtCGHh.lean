import PyamgV.Proofs.ExtCGRefl
import PyamgV.Proofs.ExtCGMgs

/-! PyamgV (extension E43, properties C06/C07): the **complex Householder--Arnoldi process** of `_fgmres.py` /
`_gmres_householder.py` (`chhDir`, `hhCol`, `chhArnoldi`, `hhInit` of `Model/ExtCGGmres.lean`, `Model/ExtC07Hh.lean`)
over a `K`-module with a definite Hermitian form, an orthonormal family `E_0 … E_{n-1}` (the coordinate vectors) and
an exact square root.  Complex counterpart of `Proofs/ExtC07Hh.lean`.

Invariant `CHhInv`: the stored Householder vectors are unit vectors or zero, `w_j ⟂ E_l` for `l < j` (leading zeros),
and with `v_l = P_0 ⋯ P_k E_l` (`chhL E ws.reverse (E l)`, orthonormal because every `P_j` is an isometry of the
Hermitian form) the directions satisfy the Arnoldi relation `B z_j = Σ_l H_{l j} v_l`; the start residual is
`β v_0`.  `chhInv_init`, `chhInv_step` -- unconditionally, also through a breakdown. -/
set_option linter.unusedSectionVars false
set_option linter.unusedVariables false
namespace PyamgV.ExtCG
open PyamgV.C07 PyamgV.CHerm PyamgV.C07.CH Finset

variable {K : Type} [Field K] [StarRing K] [DecidableEq K]
variable {F₀ : Type} [Field F₀] [LinearOrder F₀] [IsStrictOrderedRing F₀]
variable {V : Type} [AddCommGroup V] [Module K V]
variable (A AH M : V →ₗ[K] V) (E : HForm K F₀ V) (Eb : Nat → V)

local notation "gF" => PyamgV.C07.F

/-- the operations of `HOps` over a module with a Hermitian form: coordinates with respect to the family `Eb` -/
def HOps.ofHerm : HOps K V :=
  { o := Ops.ofHerm A AH M E
    get := fun v i => E.h (Eb i) v
    basis := Eb
    tail := fun i v => v - ∑ l ∈ range i, E.h (Eb l) v • Eb l }

/-- `E_0 … E_{n-1}` orthonormal -/
def COrthoFam (n : Nat) : Prop := ∀ i j, i < n → j < n → E.h (Eb i) (Eb j) = if i = j then 1 else 0

variable {E Eb}

theorem ccoef_head {n : Nat} (hE : COrthoFam E Eb n) (i : Nat) (hi : i ≤ n) (c : Nat → K) (l : Nat) (hl : l < n) :
    E.h (Eb l) (∑ l' ∈ range i, c l' • Eb l') = if l < i then c l else 0 := by
  rw [E.sum_right]
  simp only [E.smul_right]
  by_cases hli : l < i
  · rw [if_pos hli, Finset.sum_eq_single l]
    · rw [hE l l hl hl, if_pos rfl, mul_one]
    · intro l' hl' hne
      rw [hE l l' hl (by have := Finset.mem_range.mp hl'; omega), if_neg (fun h => hne h.symm), mul_zero]
    · intro h; exact absurd (Finset.mem_range.mpr hli) h
  · rw [if_neg hli]
    apply Finset.sum_eq_zero
    intro l' hl'
    have : l' < i := Finset.mem_range.mp hl'
    rw [hE l l' hl (by omega), if_neg (by omega), mul_zero]

theorem ccoef_tail {n : Nat} (hE : COrthoFam E Eb n) (i : Nat) (hi : i ≤ n) (v : V) (l : Nat) (hl : l < i) :
    E.h (Eb l) (v - ∑ l' ∈ range i, E.h (Eb l') v • Eb l') = 0 := by
  rw [E.sub_right, ccoef_head hE i hi _ l (by omega), if_pos hl, sub_self]

theorem gF_map_range (g : Nat → K) (N : Nat) (x : K) (l : Nat) (hl : l < N) :
    gF ((List.range N).map g ++ [x]) l = g l := by
  rw [gF_append_lt _ _ _ (by simp [hl])]
  simp [C07.F, List.getD_eq_getElem?_getD, hl]

theorem gF_map_range_last (g : Nat → K) (N : Nat) (x : K) :
    gF ((List.range N).map g ++ [x]) N = x := by
  have := gF_append_len ((List.range N).map g) x
  simpa using this

variable (R : ReMap K F₀) (hER : ∀ z, E.re z = R.re z) (sqrt : K → K) (hS : ExactSqrt R sqrt)
variable (hdef : ∀ v, E.h v v = 0 → v = 0)

local notation "sg" => csgn (star : K → K) sqrt nzK

include hER hS hdef in
/-- **the new reflector and column**: from `v` the model builds a Householder vector `w'` (unit or zero,
orthogonal to `E_0 … E_k`) and a column `h` of `k+2` entries with `Σ_l h_l E_l = P_{w'} v` -/
theorem chhCol_spec {n : Nat} (hE : COrthoFam E Eb n) (k : Nat) (hk : k + 1 < n) (v : V) :
    CUZ E (hhCol (HOps.ofHerm A AH M E Eb) sqrt sg nzK n k v).1 ∧
    (∀ l, l ≤ k → E.h (Eb l) (hhCol (HOps.ofHerm A AH M E Eb) sqrt sg nzK n k v).1 = 0) ∧
    (hhCol (HOps.ofHerm A AH M E Eb) sqrt sg nzK n k v).2.length = k + 2 ∧
    ∑ l ∈ range (k + 2), gF (hhCol (HOps.ofHerm A AH M E Eb) sqrt sg nzK n k v).2 l • Eb l =
      creflL E (hhCol (HOps.ofHerm A AH M E Eb) sqrt sg nzK n k v).1 v := by
  have hb : (k + 1 == n) = false := by
    have : k + 1 ≠ n := by omega
    simpa using this
  set head := ∑ l ∈ range (k + 1), E.h (Eb l) v • Eb l with hhead
  set t := v - head with ht
  have htl : ∀ l, l ≤ k → E.h (Eb l) t = 0 := fun l hl => ccoef_tail hE (k + 1) (by omega) v l (by omega)
  have hEh : E.h (Eb (k + 1)) head = 0 := by
    rw [hhead, ccoef_head hE (k + 1) (by omega) _ (k + 1) hk, if_neg (by omega)]
  have hth : E.h t head = 0 := by
    rw [hhead, E.sum_right]
    apply Finset.sum_eq_zero
    intro l hl
    rw [E.smul_right, E.orth_symm (htl l (by have := Finset.mem_range.mp hl; omega)), mul_zero]
  have hvt : v = head + t := by rw [ht]; abel
  have hsumhead : ∀ x : K, ∑ l ∈ range (k + 2),
      gF ((List.range (k + 1)).map (fun i => E.h (Eb i) v) ++ [x]) l • Eb l = head + x • Eb (k + 1) := by
    intro x
    rw [Finset.sum_range_succ, gF_map_range_last, hhead]
    congr 1
    refine Finset.sum_congr rfl (fun l hl => ?_)
    rw [gF_map_range _ _ _ _ (Finset.mem_range.mp hl)]
  by_cases hnz : nzK (sqrt (E.h t t)) = true
  · -- a reflector is built
    set α := sg (E.h (Eb (k + 1)) t) * sqrt (E.h t t) with hα
    set q := t + α • Eb (k + 1) with hq
    have hr : hhCol (HOps.ofHerm A AH M E Eb) sqrt sg nzK n k v =
        ((1 / sqrt (E.h q q)) • q, (List.range (k + 1)).map (fun i => E.h (Eb i) v) ++ [-α]) := by
      simp only [hhCol, hb, HOps.ofHerm, Ops.ofHerm, newReflO]
      rw [← hhead, ← ht, hnz]
      simp only [Bool.not_false, Bool.and_self, if_true]
      rfl
    rw [hr]
    obtain ⟨hs1, hs2⟩ := csgn_spec R sqrt hS (E.h (Eb (k + 1)) t)
    obtain ⟨h1, h2⟩ := chouseh E R sqrt hS hER hdef t (Eb (k + 1)) (by rw [hE _ _ hk hk, if_pos rfl])
      (sg (E.h (Eb (k + 1)) t)) hs1 hs2 (sqrt (E.h t t)) (hS.real _) (sqrt_norm_sq E R hER sqrt hS t)
    rw [← hα, ← hq] at h1 h2
    have hqE : ∀ l, l ≤ k → E.h (Eb l) q = 0 := by
      intro l hl
      rw [hq, E.add_right, E.smul_right, htl l hl, hE l (k + 1) (by omega) hk, if_neg (by omega)]
      simp
    have hqh : E.h q head = 0 := by
      rw [hq, E.add_left, E.smul_left, hth, hEh]; simp
    refine ⟨h1, ?_, by simp, ?_⟩
    · intro l hl
      rw [E.smul_right, hqE l hl, mul_zero]
    · rw [hsumhead]
      conv_rhs => rw [hvt, map_add, h2]
      rw [crefl_fix E _ head (by rw [E.smul_left, hqh, mul_zero])]
  · -- exact breakdown: the remainder vanishes
    have hnz' : nzK (sqrt (E.h t t)) = false := by simpa using hnz
    have hs0 : sqrt (E.h t t) = 0 := nzK_false hnz'
    have ht0 : t = 0 := by
      apply hdef
      have := sqrt_norm_sq E R hER sqrt hS t
      rw [hs0, mul_zero] at this; exact this.symm
    have hr : hhCol (HOps.ofHerm A AH M E Eb) sqrt sg nzK n k v =
        ((0 : K) • t, (List.range (k + 1)).map (fun i => E.h (Eb i) v) ++ [E.h (Eb (k + 1)) v]) := by
      simp only [hhCol, hb, HOps.ofHerm, Ops.ofHerm, newReflO]
      rw [← hhead, ← ht, hnz']
      simp only [Bool.not_false, Bool.and_false, Bool.false_eq_true, if_false]
    rw [hr]
    have hlast : E.h (Eb (k + 1)) v = 0 := by
      conv_lhs => rw [hvt]
      rw [E.add_right, hEh, ht0]; simp
    refine ⟨Or.inl (by simp), fun l _ => by simp, by simp, ?_⟩
    rw [hsumhead, hlast, zero_smul, zero_smul, crefl_zero, add_zero]
    rw [hvt, ht0, add_zero]

theorem getLast_getD' (vs : List V) (m : Nat) (h : m + 1 = vs.length) (d : V) :
    vs.getLast?.getD d = vs.getD m 0 := by
  rw [List.getLast?_eq_getElem?]
  have : vs.length - 1 = m := by omega
  rw [this, List.getD_eq_getElem?_getD]
  have hm : m < vs.length := by omega
  simp [List.getElem?_eq_getElem hm]

/-- the direction: `z = pre (P_0 ⋯ P_k E_k)` -/
theorem chhDir_eq (pre : V → V) (ws : List V) (k : Nat) (x0 : V) (hl : ws.length = k + 1) :
    chhDir (HOps.ofHerm A AH M E Eb) star pre ws k x0 = pre (chhL E ws.reverse (Eb k)) := by
  have hw : ws.getLast?.getD x0 = ws.getD k 0 := getLast_getD' ws k hl.symm x0
  have hsplit : ws = ws.take k ++ [ws.getD k 0] := by
    have h1 : ws.take k = ws.dropLast := by rw [List.dropLast_eq_take, hl]; rfl
    rw [h1, ← hw]
    cases hlast : ws.getLast? with
    | none => rw [List.getLast?_eq_none_iff] at hlast; rw [hlast] at hl; simp at hl
    | some a => exact (List.dropLast_append_getLast? a (by rw [hlast]; rfl)).symm
  unfold chhDir
  simp only []
  rw [hw]
  congr 1
  conv_rhs => rw [hsplit, List.reverse_append, List.reverse_singleton, List.singleton_append]
  simp only [chhL, LinearMap.comp_apply]
  have ho : (HOps.ofHerm A AH M E Eb).o = Ops.ofHerm A AH M E := rfl
  rw [ho, capplyHH_eq]
  congr 1
  rw [creflL_apply]
  simp only [HOps.ofHerm, Ops.ofHerm]
  rw [← E.conj_symm (Eb k) (ws.getD k 0)]
  module

/-! ### the invariant -/

variable (E Eb) in
structure CHhInv (B : V →ₗ[K] V) (k : Nat) (β : K) (r : V) (ws zs : List V) (cols : List (List K)) : Prop where
  lws : ws.length = k + 1
  lzs : zs.length = k
  lcols : cols.length = k
  uz : ∀ w ∈ ws, CUZ E w
  lead : ∀ j l, j ≤ k → l < j → E.h (Eb l) (ws.getD j 0) = 0
  collen : ∀ j, j < k → (cols.getD j []).length = j + 2
  rel : ∀ j, j < k → B (zs.getD j 0) = ∑ l ∈ range (k + 1), gF (cols.getD j []) l • chhL E ws.reverse (Eb l)
  hr0 : r = β • chhL E ws.reverse (Eb 0)

theorem chhL_snoc_fix (ws : List V) (w : V) (x : V) (h : E.h w x = 0) :
    chhL E (ws ++ [w]).reverse x = chhL E ws.reverse x := by
  rw [List.reverse_append, List.reverse_singleton, List.singleton_append]
  simp only [chhL, LinearMap.comp_apply]
  rw [crefl_fix E w x h]

/-- the vectors `v_0 … v_k` of a state are orthonormal -/
theorem CHhInv.orth {B : V →ₗ[K] V} {k : Nat} {β : K} {r : V} {ws zs : List V} {cols : List (List K)}
    (h : CHhInv E Eb B k β r ws zs cols) {n : Nat} (hE : COrthoFam E Eb n) (hk : k < n) (i j : Nat)
    (hi : i ≤ k) (hj : j ≤ k) :
    E.h (chhL E ws.reverse (Eb i)) (chhL E ws.reverse (Eb j)) = if i = j then 1 else 0 := by
  rw [chhL_iso E ws.reverse (fun w hw => h.uz w (List.mem_reverse.mp hw)), hE i j (by omega) (by omega)]

include hER hS hdef in
theorem chhInv_init {n : Nat} (hE : COrthoFam E Eb n) (hn : 0 < n) (B : V →ₗ[K] V) (r : V) :
    CHhInv E Eb B 0 (-(sg (E.h (Eb 0) r) * sqrt (E.h r r))) r
      (hhInit (HOps.ofHerm A AH M E Eb) sqrt sg r).ws [] [] ∧
    (hhInit (HOps.ofHerm A AH M E Eb) sqrt sg r).g = [-(sg (E.h (Eb 0) r) * sqrt (E.h r r))] := by
  obtain ⟨hs1, hs2⟩ := csgn_spec R sqrt hS (E.h (Eb 0) r)
  obtain ⟨h1, h2⟩ := chouseh E R sqrt hS hER hdef r (Eb 0) (by rw [hE _ _ hn hn, if_pos rfl])
    (sg (E.h (Eb 0) r)) hs1 hs2 (sqrt (E.h r r)) (hS.real _) (sqrt_norm_sq E R hER sqrt hS r)
  set α := sg (E.h (Eb 0) r) * sqrt (E.h r r) with hα
  set q := r + α • Eb 0 with hq
  have hws : (hhInit (HOps.ofHerm A AH M E Eb) sqrt sg r).ws = [(1 / sqrt (E.h q q)) • q] := rfl
  refine ⟨⟨by rw [hws]; rfl, rfl, rfl, ?_, ?_, by simp, by simp, ?_⟩, rfl⟩
  · intro w hw
    rw [hws] at hw
    rw [List.mem_singleton.mp hw]
    exact h1
  · intro j l hj hl; omega
  · rw [hws]
    simp only [List.reverse_singleton, chhL, LinearMap.comp_apply, LinearMap.id_apply]
    rw [← map_smul, ← h2, crefl_invol E _ h1]

include hER hS hdef in
/-- **one Householder--Arnoldi step keeps the invariant** (`k + 1 < n`; `pre` arbitrary) -/
theorem chhInv_step {n : Nat} (hE : COrthoFam E Eb n) (B : V →ₗ[K] V) (k : Nat) (hk : k + 1 < n)
    (β : K) (r : V) (ws zs : List V) (cols : List (List K)) (ih : CHhInv E Eb B k β r ws zs cols)
    (pre : V → V) (x0 : V) :
    CHhInv E Eb B (k + 1) β r
      (ws ++ [(chhArnoldi (HOps.ofHerm A AH M E Eb) star sqrt sg nzK n pre (fun v => B v) ws k x0).w])
      (zs ++ [(chhArnoldi (HOps.ofHerm A AH M E Eb) star sqrt sg nzK n pre (fun v => B v) ws k x0).z])
      (cols ++ [(chhArnoldi (HOps.ofHerm A AH M E Eb) star sqrt sg nzK n pre (fun v => B v) ws k x0).col]) ∧
    (chhArnoldi (HOps.ofHerm A AH M E Eb) star sqrt sg nzK n pre (fun v => B v) ws k x0).z =
      pre (chhL E ws.reverse (Eb k)) ∧
    (chhArnoldi (HOps.ofHerm A AH M E Eb) star sqrt sg nzK n pre (fun v => B v) ws k x0).col.length = k + 2 ∧
    (∀ l, l ≤ k → chhL E (ws ++
      [(chhArnoldi (HOps.ofHerm A AH M E Eb) star sqrt sg nzK n pre (fun v => B v) ws k x0).w]).reverse (Eb l) =
        chhL E ws.reverse (Eb l)) := by
  have hz : (chhArnoldi (HOps.ofHerm A AH M E Eb) star sqrt sg nzK n pre (fun v => B v) ws k x0).z =
      pre (chhL E ws.reverse (Eb k)) := chhDir_eq A AH M pre ws k x0 ih.lws
  set z := (chhArnoldi (HOps.ofHerm A AH M E Eb) star sqrt sg nzK n pre (fun v => B v) ws k x0).z with hzdef
  have hv3 : applyHH (HOps.ofHerm A AH M E Eb).o ws (B z) = chhL E ws (B z) := capplyHH_eq E A AH M ws (B z)
  have hwc : (chhArnoldi (HOps.ofHerm A AH M E Eb) star sqrt sg nzK n pre (fun v => B v) ws k x0).w =
      (hhCol (HOps.ofHerm A AH M E Eb) sqrt sg nzK n k (chhL E ws (B z))).1 := by
    rw [← hv3]; rfl
  have hcc : (chhArnoldi (HOps.ofHerm A AH M E Eb) star sqrt sg nzK n pre (fun v => B v) ws k x0).col =
      (hhCol (HOps.ofHerm A AH M E Eb) sqrt sg nzK n k (chhL E ws (B z))).2 := by
    rw [← hv3]; rfl
  obtain ⟨s1, s2, s3, s4⟩ := chhCol_spec A AH M R hER sqrt hS hdef hE k hk (chhL E ws (B z))
  rw [← hwc] at s1 s2 s4
  rw [← hcc] at s3 s4
  set w' := (chhArnoldi (HOps.ofHerm A AH M E Eb) star sqrt sg nzK n pre (fun v => B v) ws k x0).w with hw'
  set col := (chhArnoldi (HOps.ofHerm A AH M E Eb) star sqrt sg nzK n pre (fun v => B v) ws k x0).col with hcol
  have hstab : ∀ l, l ≤ k → chhL E (ws ++ [w']).reverse (Eb l) = chhL E ws.reverse (Eb l) := fun l hl =>
    chhL_snoc_fix ws w' (Eb l) (E.orth_symm (s2 l hl))
  refine ⟨⟨by simp [ih.lws], by simp [ih.lzs], by simp [ih.lcols], ?_, ?_, ?_, ?_, ?_⟩, hz, s3, hstab⟩
  · intro w hw
    rcases List.mem_append.mp hw with h | h
    · exact ih.uz w h
    · rw [List.mem_singleton.mp h]; exact s1
  · intro j l hj hl
    by_cases hjk : j ≤ k
    · rw [getD_append_lt' _ _ _ _ (by rw [ih.lws]; omega)]; exact ih.lead j l hjk hl
    · have : j = k + 1 := by omega
      subst this
      rw [← ih.lws, getD_append_len']
      exact s2 l (by omega)
  · intro j hj
    by_cases hjk : j < k
    · rw [getD_append_lt' _ _ _ _ (by rw [ih.lcols]; exact hjk)]; exact ih.collen j hjk
    · have : j = k := by omega
      subst this
      rw [← ih.lcols, getD_append_len', ih.lcols]; exact s3
  · intro j hj
    by_cases hjk : j < k
    · rw [getD_append_lt' _ _ _ _ (by rw [ih.lzs]; exact hjk),
        getD_append_lt' _ _ _ _ (by rw [ih.lcols]; exact hjk), ih.rel j hjk]
      conv_rhs => rw [Finset.sum_range_succ]
      have hz0 : gF (cols.getD j []) (k + 1) = 0 := gF_out _ _ (by rw [ih.collen j hjk]; omega)
      rw [hz0, zero_smul, add_zero]
      refine Finset.sum_congr rfl (fun l hl => ?_)
      rw [hstab l (by have := Finset.mem_range.mp hl; omega)]
    · have : j = k := by omega
      subst this
      have e1 : (zs ++ [z]).getD j 0 = z := by rw [← ih.lzs]; exact getD_append_len' _ _ _
      have e2 : (cols ++ [col]).getD j [] = col := by rw [← ih.lcols]; exact getD_append_len' _ _ _
      rw [e1, e2]
      have hsum : ∑ l ∈ range (j + 1 + 1), gF col l • chhL E (ws ++ [w']).reverse (Eb l) =
          chhL E (ws ++ [w']).reverse (∑ l ∈ range (j + 2), gF col l • Eb l) := by
        rw [map_sum]
        refine Finset.sum_congr rfl (fun l _ => ?_)
        rw [map_smul]
      rw [hsum, s4, List.reverse_append, List.reverse_singleton, List.singleton_append]
      simp only [chhL, LinearMap.comp_apply]
      rw [crefl_invol E w' s1, chhL_rev_cancel E ws ih.uz]
  · rw [hstab 0 (by omega)]; exact ih.hr0

#print axioms chhInv_step
end PyamgV.ExtCG
