import PyamgV.Proofs.Classical

/-! PyamgV (C11): *modified* classical interpolation (`modified = true`, the default of
`classical_interpolation`): `a_kj` is ignored when its sign equals the sign of `a_kk`
(`signof(0) = +1`), and the inner denominator sums only the `a_kl` whose sign differs from
`a_kk`. On M-matrix rows (`a_kk > 0`, off-diagonal couplings to the interpolatory set `≤ 0`) the
modified row coincides with the unmodified one, so support, formula and row sum one carry over
from `PyamgV.Classical`. The modified kernel searches row `k` without `break` (last stored match
wins); for rows without duplicate column entries that is the same lookup. -/
namespace PyamgV.Classical

variable {K : Type*} [Field K] [LinearOrder K] [IsStrictOrderedRing K]

/-- `signof` of linalg.h: `-1` for negative, `+1` otherwise -/
def signof (a : K) : Int := if a < 0 then -1 else 1

/-- last stored match (search without `break`) -/
def lookupLast (r : Row K) (j : Nat) : K :=
  r.foldl (fun acc cv => if cv.1 = j then cv.2 else acc) 0

def innerM (isC : Nat → Bool) (srow : Row K) (krow : Row K) (akk : K) : K :=
  ((strongC isC srow).map (fun cl =>
    let a_kl := lookup krow cl.1
    if signof a_kl ≠ signof akk then a_kl else 0)).sum

def contribM (eps : K) (isC : Nat → Bool) (srow : Row K) (A : Nat → Row K) (j : Nat)
    (ck : Nat × K) : K :=
  let a_kk := lookupLast (A ck.1) ck.1
  let a_kj0 := lookupLast (A ck.1) j
  let a_kj := if signof a_kj0 = signof a_kk then 0 else a_kj0
  if |a_kj| > eps * |ck.2| then ck.2 * a_kj / innerM isC srow (A ck.1) a_kk else 0

def numerM (eps : K) (isC : Nat → Bool) (i : Nat) (srow : Row K) (A : Nat → Row K)
    (cj : Nat × K) : K :=
  cj.2 + ((strongF isC i srow).map (contribM eps isC srow A cj.1)).sum

def classicalRowM (eps : K) (isC : Nat → Bool) (i : Nat) (srow : Row K) (A : Nat → Row K) :
    Row K :=
  (strongC isC srow).map (fun cj => (cj.1, -numerM eps isC i srow A cj / denom i (A i) srow))

/-- M-matrix hypothesis on the rows of the strongly connected F-points of `i` -/
structure MRows (isC : Nat → Bool) (i : Nat) (srow : Row K) (A : Nat → Row K) : Prop where
  diag : ∀ ck ∈ strongF isC i srow, 0 < lookupLast (A ck.1) ck.1
  offd : ∀ ck ∈ strongF isC i srow, ∀ cj ∈ strongC isC srow, lookup (A ck.1) cj.1 ≤ 0
  nodup : ∀ ck ∈ strongF isC i srow, ∀ cj ∈ strongC isC srow,
    lookupLast (A ck.1) cj.1 = lookup (A ck.1) cj.1

theorem innerM_eq (isC : Nat → Bool) (srow krow : Row K) (akk : K) (hk : 0 < akk)
    (hoff : ∀ cl ∈ strongC isC srow, lookup krow cl.1 ≤ 0) :
    innerM isC srow krow akk = inner isC srow krow := by
  unfold innerM inner
  apply congrArg List.sum
  apply List.map_congr_left
  intro cl hcl
  have h1 : signof akk = 1 := by unfold signof; rw [if_neg (not_lt.2 (le_of_lt hk))]
  by_cases hz : lookup krow cl.1 < 0
  · have : signof (lookup krow cl.1) = -1 := by unfold signof; rw [if_pos hz]
    simp only [this, h1]; simp
  · have h0 : lookup krow cl.1 = 0 := le_antisymm (hoff cl hcl) (not_lt.1 hz)
    simp [h0]

/-- **on M-matrix rows the modified and the unmodified interpolation rows coincide** -/
theorem classicalRowM_eq (eps : K) (isC : Nat → Bool) (i : Nat) (srow : Row K) (A : Nat → Row K)
    (hM : MRows isC i srow A) :
    classicalRowM eps isC i srow A = classicalRow eps isC i srow A := by
  unfold classicalRowM classicalRow
  apply List.map_congr_left
  intro cj hcj
  congr 3
  unfold numerM numer
  congr 1
  apply congrArg List.sum
  apply List.map_congr_left
  intro ck hck
  unfold contribM contrib
  have hk := hM.diag ck hck
  have hsk : signof (lookupLast (A ck.1) ck.1) = 1 := by
    unfold signof; rw [if_neg (not_lt.2 (le_of_lt hk))]
  have hl := hM.nodup ck hck cj hcj
  have hle := hM.offd ck hck cj hcj
  have hin := innerM_eq isC srow (A ck.1) _ hk (fun cl hcl => hM.offd ck hck cl hcl)
  simp only [hl, hsk, hin]
  by_cases hz : lookup (A ck.1) cj.1 < 0
  · have : signof (lookup (A ck.1) cj.1) = -1 := by unfold signof; rw [if_pos hz]
    simp [this]
  · have h0 : lookup (A ck.1) cj.1 = 0 := le_antisymm hle (not_lt.1 hz)
    simp [h0]

/-- hence the modified weights sum to one on zero-row-sum M-matrix rows -/
theorem classicalRowM_rowsum (eps : K) (isC : Nat → Bool) (i : Nat) (hi : isC i = false)
    (srow : Row K) (A : Nat → Row K) (hM : MRows isC i srow A)
    (hzero : rsum (A i) = 0) (hden : denom i (A i) srow ≠ 0)
    (hinner : ∀ ck ∈ strongF isC i srow, inner isC srow (A ck.1) ≠ 0)
    (hkeep : ∀ ck ∈ strongF isC i srow, ∀ cj ∈ strongC isC srow,
      lookup (A ck.1) cj.1 = 0 ∨ |lookup (A ck.1) cj.1| > eps * |ck.2|) :
    rsum (classicalRowM eps isC i srow A) = 1 := by
  rw [classicalRowM_eq eps isC i srow A hM]
  exact classicalRow_rowsum eps isC i hi srow A hzero hden hinner hkeep

#print axioms classicalRowM_eq
#print axioms classicalRowM_rowsum
end PyamgV.Classical
