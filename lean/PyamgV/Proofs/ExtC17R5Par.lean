import PyamgV.Proofs.ExtC17R4Term

/-! PyamgV (C17, extension E46, round 5): TERMINATION inside the `Ck` model of `maximal_independent_set_parallel`
(`C17R4.misParallel`, `Model/ExtC17R4Graph.lean`) with `max_iters = -1`.

Every pass that starts with an `active` node decides at least one (the active node that is maximal for (weight, index) finds no
active neighbour that beats it: it is marked `F` next to a `C`, or `C`); a pass without active node leaves `active_nodes == false`.
So the `while` loop ends within `(number of active entries) + 1 ≤ n + 1` passes: `∃ r, model = some r ∧ Safe r ..` holds for every
fuel `≥ n + 1` -- on ANY structurally valid pattern (symmetric or not), for weights whose comparisons behave like a strict order
with ties (`C17R4.WOrd`; IEEE doubles, NaN included), any marks with `C ≠ active`, `F ≠ active`.  A run that ends leaves no `active`
entry.  Core Lean only. -/
namespace PyamgV.C17R5
open PyamgV.Ck PyamgV.C17 PyamgV.C17R4

set_option linter.unusedSectionVars false
set_option linter.unusedVariables false

variable {ρ : Type} [Inhabited ρ]

/-! ### counting the active entries -/

/-- `false` exactly for the entries equal to `active` -/
def notAct (active : Int) (v : Int) : Bool := decide (v ≠ active)

/-- number of entries `k < n` with `x[k] == active` -/
def cntAct (n : Nat) (active : Int) (x : Array Int) : Nat := nzc (notAct active) x n

theorem nzc_mono (isZ : Int → Bool) (a b : Array Int) :
    ∀ m, (∀ k, k < m → isZ (a.getD k 0) = true → isZ (b.getD k 0) = true) → nzc isZ b m ≤ nzc isZ a m := by
  intro m
  induction m with
  | zero => intro _; exact Nat.le_refl _
  | succ k ih =>
    intro h
    show nzc isZ b k + zind isZ (b.getD k 0) ≤ nzc isZ a k + zind isZ (a.getD k 0)
    have h1 := ih (fun j hj => h j (by omega))
    cases ha : isZ (a.getD k 0) with
    | true => rw [zind_true ha, zind_true (h k (by omega) ha)]; omega
    | false => rw [zind_false ha]; have := zind_le isZ (b.getD k 0); omega

theorem nzc_lt (isZ : Int → Bool) (a b : Array Int) :
    ∀ m, (∀ k, k < m → isZ (a.getD k 0) = true → isZ (b.getD k 0) = true) →
      (∃ k0, k0 < m ∧ isZ (a.getD k0 0) = false ∧ isZ (b.getD k0 0) = true) → nzc isZ b m < nzc isZ a m := by
  intro m
  induction m with
  | zero => rintro _ ⟨k0, h, _⟩; omega
  | succ k ih =>
    rintro h ⟨k0, hk0, ha0, hb0⟩
    show nzc isZ b k + zind isZ (b.getD k 0) < nzc isZ a k + zind isZ (a.getD k 0)
    by_cases hk : k0 = k
    · subst hk
      have h1 := nzc_mono isZ a b k0 (fun j hj => h j (by omega))
      rw [zind_true hb0, zind_false ha0]; omega
    · have h1 := ih (fun j hj => h j (by omega)) ⟨k0, by omega, ha0, hb0⟩
      cases ha : isZ (a.getD k 0) with
      | true => rw [zind_true ha, zind_true (h k (by omega) ha)]; omega
      | false => rw [zind_false ha]; have := zind_le isZ (b.getD k 0); omega

theorem notAct_true {active v : Int} : notAct active v = true ↔ v ≠ active := by
  unfold notAct; exact decide_eq_true_iff

theorem notAct_false {active v : Int} : notAct active v = false ↔ v = active := by
  unfold notAct
  rw [decide_eq_false_iff_not]
  exact ⟨fun h => Classical.not_not.mp h, fun h hn => hn h⟩

theorem cntAct_le (n : Nat) (active : Int) (x : Array Int) : cntAct n active x ≤ n := nzc_le _ _ _

/-! ### the scan loop: a `break` is a neighbour marked `C` or an active neighbour that beats node `i` -/

theorem mpScan_term (w : WOps ρ) {n : Nat} {ap aj : Array Int} (hA : WFm (patS n ap aj) n) (y : Array ρ) (hy : y.size = n)
    (active C F : Int) (i : Int) (i0 : 0 ≤ i) (i1 : i < (n : Int)) (x : Array Int) (hx : x.size = n)
    (hxi : x.getD i.toNat 0 = active) :
    Safe (mpScan w aj y active C F i (y.getD i.toNat default) (ap.getD i.toNat 0) (ap.getD (i.toNat + 1) 0) x)
      (fun st => Upd active F x st.1 ∧ (st.2 = false → st.1 = x) ∧
        (st.2 = true → st.1.getD i.toNat 0 = F ∨ ∃ k, k < n ∧ x.getD k 0 = active ∧ Beats w y k i.toNat)) := by
  obtain ⟨_, _, hrow⟩ := row_facts hA i i0 i1
  unfold mpScan
  apply forRange_safe (fun st : Array Int × Bool => Upd active F x st.1 ∧ (st.2 = false → st.1 = x) ∧
      (st.2 = true → st.1.getD i.toNat 0 = F ∨ ∃ k, k < n ∧ x.getD k 0 = active ∧ Beats w y k i.toNat)) _ _ _ _
    ⟨Upd.refl _ _ _, fun _ => rfl, fun h => by cases h⟩
  intro jj j1 j2 st hst
  by_cases hb : st.2 = true
  · rw [if_pos hb]; exact Safe.pure hst
  · rw [if_neg hb]
    have hb' : st.2 = false := by cases h : st.2 <;> simp_all
    have hsx : st.1 = x := hst.2.1 hb'
    refine Safe.bind (hrow jj j1 j2) (fun j hj => ?_)
    obtain ⟨_, hj0, hj1⟩ := hj
    have hs1 : st.1.size = n := by rw [hsx, hx]
    refine Safe.bind (rd_safe st.1 j hj0 (by rw [hs1]; omega)) (fun xj hxj => ?_)
    have hxj' : xj = x.getD j.toNat 0 := by rw [← hsx]; exact hxj
    by_cases hC : xj = C
    · rw [if_pos hC]
      refine Safe.bind (wr_val st.1 i F i0 (by rw [hs1]; omega)) (fun x' hx' => ?_)
      refine Safe.pure ⟨?_, fun h => (by cases h), fun _ => Or.inl ?_⟩
      · show Upd active F x x'
        rw [hx', hsx]; exact Upd.set x i.toNat hxi
      · show x'.getD i.toNat 0 = F
        rw [hx', getD_setInt, if_pos ⟨rfl, by rw [hs1]; omega⟩]
    · rw [if_neg hC]
      by_cases hact : xj = active
      · rw [if_pos hact]
        refine Safe.bind (rd_safe y j hj0 (by rw [hy]; omega)) (fun yj hyj => ?_)
        have hyj' : yj = y.getD j.toNat default := hyj
        have hja : x.getD j.toNat 0 = active := by rw [← hxj']; exact hact
        by_cases hg : w.gt yj (y.getD i.toNat default) = true
        · rw [if_pos hg]
          exact Safe.pure ⟨hst.1, fun h => (by cases h),
            fun _ => Or.inr ⟨j.toNat, by omega, hja, Or.inl (by rw [← hyj']; exact hg)⟩⟩
        · rw [if_neg hg]
          by_cases he : w.eq yj (y.getD i.toNat default) = true ∧ j > i
          · rw [if_pos he]
            exact Safe.pure ⟨hst.1, fun h => (by cases h),
              fun _ => Or.inr ⟨j.toNat, by omega, hja, Or.inr ⟨by rw [← hyj']; exact he.1, by omega⟩⟩⟩
          · rw [if_neg he]; exact Safe.pure hst
      · rw [if_neg hact]; exact Safe.pure hst

/-! ### one row -/

theorem mpRow_term (w : WOps ρ) {n : Nat} {ap aj : Array Int} (hA : WFm (patS n ap aj) n) (y : Array ρ) (hy : y.size = n)
    (active C F : Int) (hCa : C ≠ active) (hFa : F ≠ active) (i : Int) (i0 : 0 ≤ i) (i1 : i < (n : Int)) (st : MPP)
    (h1 : st.1.size = n) :
    Safe (mpRow w ap aj y active C F i st) (fun st' =>
      st'.1.size = n ∧
      (∀ k, st'.1.getD k 0 = st.1.getD k 0 ∨ (st.1.getD k 0 = active ∧ st'.1.getD k 0 ≠ active)) ∧
      (st.1.getD i.toNat 0 ≠ active → st' = st) ∧
      (st'.2.2 = false → st.2.2 = false ∧ st'.1.getD i.toNat 0 ≠ active) ∧
      ((∀ k, k < n → st.1.getD k 0 = active → ¬ Beats w y k i.toNat) → st'.1.getD i.toNat 0 ≠ active)) := by
  have his : i.toNat < st.1.size := by rw [h1]; omega
  unfold mpRow
  refine Safe.bind (rd_safe y i i0 (by rw [hy]; omega)) (fun yi hyi => ?_)
  refine Safe.bind (rd_safe st.1 i i0 his) (fun xi hxi => ?_)
  have hxi' : xi = st.1.getD i.toNat 0 := hxi
  by_cases hact : xi ≠ active
  · rw [if_pos hact]
    have hna : st.1.getD i.toNat 0 ≠ active := by rw [← hxi']; exact hact
    exact Safe.pure ⟨h1, fun k => Or.inl rfl, fun _ => rfl, fun hf => ⟨hf, hna⟩, fun _ => hna⟩
  · rw [if_neg hact]
    have hxa : st.1.getD i.toNat 0 = active := by rw [← hxi']; exact Classical.not_not.mp hact
    obtain ⟨q1, q2, _⟩ := row_facts hA i i0 i1
    refine Safe.bind q1 (fun s hs => ?_)
    refine Safe.bind q2 (fun e he => ?_)
    subst hs; subst he; subst hyi
    refine Safe.bind (mpScan_term w hA y hy active C F i i0 i1 st.1 h1 hxa) (fun r hr => ?_)
    obtain ⟨hu1, hfalse, htrue⟩ := hr
    have hr1 : r.1.size = n := by rw [hu1.1, h1]
    by_cases hb : r.2 = true
    · rw [if_pos hb]
      refine Safe.pure ⟨hr1, fun k => ?_, fun h => absurd hxa h, fun hf => (by cases hf), fun hmax => ?_⟩
      · show r.1.getD k 0 = st.1.getD k 0 ∨ (st.1.getD k 0 = active ∧ r.1.getD k 0 ≠ active)
        rcases hu1.2 k with e | ⟨e1, e2⟩
        · exact Or.inl e
        · exact Or.inr ⟨e1, by rw [e2]; exact hFa⟩
      · show r.1.getD i.toNat 0 ≠ active
        rcases htrue hb with e | ⟨k, hk, hka, hbeat⟩
        · rw [e]; exact hFa
        · exact absurd hbeat (hmax k hk hka)
    · rw [if_neg hb]
      have hb' : r.2 = false := by cases h : r.2 <;> simp_all
      have hrx : r.1 = st.1 := hfalse hb'
      refine Safe.bind (markRow_safe hA active F i i0 i1 r.1 hr1) (fun x2 hx2 => ?_)
      obtain ⟨hu2, _⟩ := hx2
      rw [hrx] at hu2
      have hx2s : x2.size = n := by rw [hu2.1, h1]
      refine Safe.bind (wr_val x2 i C i0 (by rw [hx2s]; omega)) (fun x3 hx3 => ?_)
      have hx3v : ∀ k, x3.getD k 0 = if i.toNat = k then C else x2.getD k 0 := by
        intro k
        rw [hx3, getD_setInt]
        by_cases hk : i.toNat = k
        · rw [if_pos ⟨hk, by rw [hx2s]; omega⟩, if_pos hk]
        · rw [if_neg (fun h => hk h.1), if_neg hk]
      have hx3i : x3.getD i.toNat 0 ≠ active := by rw [hx3v, if_pos rfl]; exact hCa
      refine Safe.pure ⟨by show x3.size = n; rw [hx3]; simp [hx2s], fun k => ?_, fun h => absurd hxa h,
        fun hf => ⟨hf, hx3i⟩, fun _ => hx3i⟩
      show x3.getD k 0 = st.1.getD k 0 ∨ (st.1.getD k 0 = active ∧ x3.getD k 0 ≠ active)
      by_cases hk : i.toNat = k
      · subst hk; exact Or.inr ⟨hxa, hx3i⟩
      · rw [hx3v, if_neg hk]
        rcases hu2.2 k with e | ⟨e1, e2⟩
        · exact Or.inl e
        · exact Or.inr ⟨e1, by rw [e2]; exact hFa⟩

/-! ### one pass -/

/-- **a pass decides a node**: the number of `active` entries does not grow, it drops when there is one; a pass from a vector
without `active` entry leaves `active_nodes == false`; and `active_nodes == false` at the end means no `active` entry is left -/
theorem mpPass_term (w : WOps ρ) (hw : WOrd w) {n : Nat} {ap aj : Array Int} (hA : WFm (patS n ap aj) n) (y : Array ρ)
    (hy : y.size = n) {active C F : Int} (hCa : C ≠ active) (hFa : F ≠ active) (x0 : Array Int) (hx0 : x0.size = n) (N : Int) :
    Safe (forRange 0 (n : Int) ((x0, N, false) : MPP) (mpRow w ap aj y active C F)) (fun r =>
      r.1.size = n ∧ cntAct n active r.1 ≤ cntAct n active x0 ∧
      ((∃ k, k < n ∧ x0.getD k 0 = active) → cntAct n active r.1 < cntAct n active x0) ∧
      ((∀ k, k < n → x0.getD k 0 ≠ active) → r.2.2 = false) ∧
      (r.2.2 = false → ∀ k, k < n → r.1.getD k 0 ≠ active)) := by
  refine Safe.mono (forRange_safe_idx
    (fun (i : Int) (st : MPP) =>
      st.1.size = n ∧
      (∀ k, st.1.getD k 0 = x0.getD k 0 ∨ (x0.getD k 0 = active ∧ st.1.getD k 0 ≠ active)) ∧
      (∀ m, m < n → (∀ k, k < n → x0.getD k 0 = active → ¬ Beats w y k m) → (m : Int) < i → st.1.getD m 0 ≠ active) ∧
      ((∀ k, k < n → x0.getD k 0 ≠ active) → st.2.2 = false) ∧
      (st.2.2 = false → ∀ k : Nat, (k : Int) < i → st.1.getD k 0 ≠ active))
    0 (n : Int) (by omega) _ _ ⟨hx0, fun k => Or.inl rfl, fun m _ _ h => by omega, fun _ => rfl, fun _ k h => by omega⟩ ?_)
    (fun r h => ?_)
  · intro i i0 i1 st hst
    obtain ⟨ha, hb, hc, hd, he⟩ := hst
    have hback : ∀ k, st.1.getD k 0 = active → x0.getD k 0 = active := by
      intro k hk
      rcases hb k with e | ⟨e, e2⟩
      · rw [← e]; exact hk
      · exact e
    refine Safe.mono (mpRow_term w hA y hy active C F hCa hFa i i0 i1 st ha) (fun st' h => ?_)
    obtain ⟨ra, rb, rc, rd', re⟩ := h
    have hkeep : ∀ k, st.1.getD k 0 ≠ active → st'.1.getD k 0 ≠ active := by
      intro k hk
      rcases rb k with e | ⟨e, _⟩
      · rw [e]; exact hk
      · exact absurd e hk
    refine ⟨ra, fun k => ?_, fun m hm hmax hlt => ?_, fun hno => ?_, fun hf k hk => ?_⟩
    · rcases rb k with e | ⟨e1, e2⟩
      · rw [e]; exact hb k
      · exact Or.inr ⟨hback k e1, e2⟩
    · by_cases hmi : (m : Int) < i
      · exact hkeep m (hc m hm hmax hmi)
      · have hmi' : i.toNat = m := by omega
        rw [← hmi']
        exact re (fun k hk hka => by rw [hmi']; exact hmax k hk (hback k hka))
    · have hni : st.1.getD i.toNat 0 ≠ active := fun h => hno i.toNat (by omega) (hback _ h)
      rw [rc hni]; exact hd hno
    · obtain ⟨hf0, hi⟩ := rd' hf
      by_cases hki : (k : Int) < i
      · exact hkeep k (he hf0 k hki)
      · have hki' : i.toNat = k := by omega
        rw [← hki']; exact hi
  · obtain ⟨ha, hb, hc, hd, he⟩ := h
    have hmono : ∀ k, k < n → notAct active (x0.getD k 0) = true → notAct active (r.1.getD k 0) = true := by
      intro k _ hk
      rw [notAct_true] at hk ⊢
      rcases hb k with e | ⟨e, _⟩
      · rw [e]; exact hk
      · exact absurd e hk
    refine ⟨ha, nzc_mono _ _ _ n hmono, fun hex => ?_, hd, fun hf k hk => he hf k (by omega)⟩
    obtain ⟨is, his, hPs, hmaxs⟩ := exists_maximal (Beats w y) (beats_irrefl hw y) (beats_trans hw y)
      (fun k => x0.getD k 0 = active) n hex
    exact nzc_lt _ _ _ n hmono ⟨is, his, notAct_false.2 hPs,
      notAct_true.2 (hc is his (fun k hk hka => hmaxs k hk hka) (by omega))⟩

/-! ### the `while` loop with `max_iters = -1` -/

/-- loop invariant: E32's bookkeeping, and "the flag is false only when no `active` entry is left" -/
def MPT (n : Nat) (ap aj : Array Int) (active C F : Int) (x0 : Array Int) (s : MP) : Prop :=
  MPW n ap aj active C F x0 s ∧ (s.2.2.2 = false → ∀ k, k < n → s.1.getD k 0 ≠ active)

theorem mpPass_full (w : WOps ρ) (hw : WOrd w) {n : Nat} {ap aj : Array Int} (hA : WFm (patS n ap aj) n) (y : Array ρ)
    (hy : y.size = n) {active C F : Int} (hCa : C ≠ active) (hFa : F ≠ active) (x0 : Array Int) (st : MP)
    (hst : MPW n ap aj active C F x0 st) :
    Safe (mpPass w n ap aj y active C F st) (fun st' => MPT n ap aj active C F x0 st' ∧
      (st'.2.2.2 = true → cntAct n active st'.1 + 1 ≤ cntAct n active st.1)) := by
  have h1 := mpPass_safe w hA y hy active C F x0 st hst
  have h2 : Safe (mpPass w n ap aj y active C F st) (fun st' =>
      (st'.2.2.2 = false → ∀ k, k < n → st'.1.getD k 0 ≠ active) ∧
      (st'.2.2.2 = true → cntAct n active st'.1 + 1 ≤ cntAct n active st.1)) := by
    unfold mpPass
    refine Safe.bind (mpPass_term w hw hA y hy hCa hFa st.1 hst.1 st.2.1) (fun r hr => ?_)
    obtain ⟨_, _, r3, r4, r5⟩ := hr
    refine Safe.pure ⟨r5, fun hflag => ?_⟩
    show cntAct n active r.1 + 1 ≤ cntAct n active st.1
    by_cases hex : ∃ k, k < n ∧ st.1.getD k 0 = active
    · have := r3 hex; omega
    · exfalso
      have hno : ∀ k, k < n → st.1.getD k 0 ≠ active := fun k hk hka => hex ⟨k, hk, hka⟩
      have hf : r.2.2 = false := r4 hno
      have hflag' : r.2.2 = true := hflag
      rw [hf] at hflag'; cases hflag'
  exact ⟨h1.1, ⟨h1.2.1, h2.2.1⟩, h2.2.2⟩

theorem mpWhile_total (w : WOps ρ) (hw : WOrd w) {n : Nat} {ap aj : Array Int} (hA : WFm (patS n ap aj) n) (y : Array ρ)
    (hy : y.size = n) {active C F : Int} (hCa : C ≠ active) (hFa : F ≠ active) (x0 : Array Int) :
    ∀ (fuel : Nat) (st : Ck MP), Safe st (MPT n ap aj active C F x0) →
      (st.val.2.2.2 = true → cntAct n active st.val.1 + 1 ≤ fuel) →
      ∃ r, mpWhile w n ap aj y active C F (-1) fuel st = some r ∧
        Safe r (fun s => MPW n ap aj active C F x0 s ∧ ∀ k, k < n → s.1.getD k 0 ≠ active) := by
  intro fuel
  induction fuel with
  | zero =>
    intro st hst hf
    have hflag : st.val.2.2.2 = false := by
      cases h : st.val.2.2.2 with
      | false => rfl
      | true => have := hf h; omega
    have : ¬ (st.val.2.2.2 = true ∧ ((-1 : Int) = -1 ∨ st.val.2.2.1 < -1)) := by rw [hflag]; simp
    exact ⟨st, by unfold mpWhile; rw [if_neg this], hst.1, hst.2.1, hst.2.2 hflag⟩
  | succ f ih =>
    intro st hst hf
    unfold mpWhile
    by_cases hc : st.val.2.2.2 = true ∧ ((-1 : Int) = -1 ∨ st.val.2.2.1 < -1)
    · rw [if_pos hc]
      have hb := Safe.bind_val hst.1 (mpPass_full w hw hA y hy hCa hFa x0 st.val hst.2.1)
      refine ih _ (Safe.mono hb (fun _ h => h.1)) (fun hflag => ?_)
      have h1 : cntAct n active (mpPass w n ap aj y active C F st.val).val.1 + 1 ≤ cntAct n active st.val.1 :=
        hb.2.2 hflag
      have h2 := hf hc.1
      show cntAct n active (mpPass w n ap aj y active C F st.val).val.1 + 1 ≤ f
      omega
    · rw [if_neg hc]
      have hflag : st.val.2.2.2 = false := by
        cases h : st.val.2.2.2 with
        | false => rfl
        | true => exact absurd ⟨h, Or.inl rfl⟩ hc
      exact ⟨st, rfl, hst.1, hst.2.1, hst.2.2 hflag⟩

/-- **`maximal_independent_set_parallel` with `max_iters = -1` TERMINATES, in range** (no fuel hypothesis beyond `n + 1` passes):
any structurally valid `n × n` pattern (symmetric or not), order-like weight comparisons, marks with `C ≠ active`, `F ≠ active`, any
start vector.  The run returns within `n + 1` passes, every access was in range, entries of `x` only changed from `active` to `F` or
`C`, the separation property is kept, and NO `active` entry is left -/
theorem misParallel_total (w : WOps ρ) (hw : WOrd w) {n : Nat} {ap aj : Array Int} (hA : WFm (patS n ap aj) n)
    (active C F : Int) (hCa : C ≠ active) (hFa : F ≠ active) (x : Array Int) (hx : x.size = n) (y : Array ρ) (hy : y.size = n)
    (fuel : Nat) (hfuel : n + 1 ≤ fuel) :
    ∃ r, misParallel w n ap aj active C F x y (-1) fuel = some r ∧
      Safe r (fun out => out.1.size = n ∧ Upd2 active F C x out.1 ∧
        (F ≠ C → F ≠ active → Sep n ap aj active C x → Sep n ap aj active C out.1) ∧
        ∀ k, k < n → out.1.getD k 0 ≠ active) := by
  have h0 : Safe (pure ((x, 0, 0, true) : MP) : Ck MP) (MPT n ap aj active C F x) :=
    Safe.pure ⟨⟨hx, Upd2.refl _ _ _ _, fun _ _ h => h⟩, fun h => by cases h⟩
  obtain ⟨r0, e0, hr0⟩ := mpWhile_total w hw hA y hy hCa hFa x fuel _ h0
    (fun _ => by have := cntAct_le n active x; show cntAct n active x + 1 ≤ fuel; omega)
  refine ⟨r0 >>= fun st => pure (st.1, st.2.1), by unfold misParallel; rw [e0]; rfl, ?_⟩
  exact Safe.bind hr0 (fun st hs => Safe.pure ⟨hs.1.1, hs.1.2.1, hs.1.2.2, hs.2⟩)

/-- **a truncated run is a partial independent set** (kernel level, ANY structurally valid pattern, any weights, any `max_iters`,
any number of passes): started from a vector without entry `C` -- e.g. all `active` -- with three different marks, whenever the
model returns, every access was in range, the entries are the old ones or `F`/`C`, and a node marked `C` has no other node of its
row marked `C` or left `active` -/
theorem misParallel_partial (w : WOps ρ) {n : Nat} {ap aj : Array Int} (hA : WFm (patS n ap aj) n) (active C F : Int)
    (hFC : F ≠ C) (hFa : F ≠ active) (x : Array Int) (hx : x.size = n) (hnoC : ∀ k, k < n → x.getD k 0 ≠ C)
    (y : Array ρ) (hy : y.size = n) (maxIters : Int) (fuel : Nat) :
    ∀ r, misParallel w n ap aj active C F x y maxIters fuel = some r →
      Safe r (fun out => out.1.size = n ∧ Upd2 active F C x out.1 ∧ Sep n ap aj active C out.1) := by
  intro r hr
  refine Safe.mono (misParallel_safe w hA active C F x hx y hy maxIters fuel r hr) (fun out h => ⟨h.1, h.2.1, ?_⟩)
  exact h.2.2 hFC hFa (fun k hk hkC => absurd hkC (hnoC k hk))

end PyamgV.C17R5
