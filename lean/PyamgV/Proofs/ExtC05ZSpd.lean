import PyamgV.Proofs.ExtC05ZPd
import PyamgV.Proofs.ExtC05ZCf

/-! PyamgV (C05, extension E47): **flag `True` and two Booleans evaluated on the concrete data ⇒ the executed
preconditioner matrix `denseM` is symmetric positive definite.**

The definiteness theorem of E36 (`cycle_precond_pd` / `flag_cycle_spd`, operator level: strict finest smoother,
non-expansive smoothers, Galerkin hierarchy, energy-exact coarsest solve) is transported to the executed array model
through the refinement chain of E12 / E23 (`denseM_is_Mop`), with every hypothesis discharged by the proved Boolean
checkers `c05Check` (E23) and `c05SpdCheck` (`Proofs/ExtC05ZCheck.lean`):

* `mget_mmul`, `galB_sound`: the dense Galerkin test gives `A' = R ∘ A ∘ P` for the CSR operators;
* `invB_sound`: a successful elimination gives the right inverse `coarseS` (`CoarseInv`);
* `nonExpB_sound`, `strictB_sound`: the parameter tests give `NonExpSmZ` (`NonExpSm` of E36 plus cf / fc Jacobi,
  `Proofs/ExtC05ZCf.lean`) / `StrictSm` of E36 (damped Jacobi through `jacB_sound`);
* `wfg_abs`: the model hierarchy is a hierarchy "as the constructors build it" (`WFG` of `Proofs/C02Thm.lean`);
* `quad_of_op`: from `⟨M A v, A v⟩ > 0` on vectors of non-zero energy to `xᵀ M x > 0` for every `x ≠ 0`
  (finest matrix positive definite and invertible);
* `flag_denseM_spd_checked`: the statement for the definition the driver executes. -/
namespace PyamgV.C05Z
open PyamgV PyamgV.C05 Finset

set_option linter.unusedSectionVars false
variable {R : Type} [Field R] [LinearOrder R] [IsStrictOrderedRing R] [DecidableEq R]

/-! ### dense products -/

theorem denseOfCsr_msize (M : K.Csr R) (cols : Nat) : (denseOfCsr M cols).size = M.n := by
  simp [denseOfCsr]

theorem mget_mmul (A B : Mat R) (k m i j : Nat) (hi : i < A.size) (hj : j < m) :
    mget (mmul A B k m) i j = ∑ l ∈ range k, mget A i l * mget B l j := by
  have h1 : (mmul A B k m).getD i #[] =
      (Array.range m).map (fun j => (List.range k).foldl (fun s l => s + K.rd (A.getD i #[]) l * mget B l j) (0:R)) := by
    unfold mmul
    simp [Array.getD, hi]
  unfold mget at *
  rw [h1, rd_map_range m _ j hj]
  exact sumTo_eq k (fun l => K.rd (A.getD i #[]) l * K.rd (B.getD l #[]) j)

/-- **the dense Galerkin test gives the operator identity** `A' = R ∘ A ∘ P` -/
theorem galB_sound (L : Lvl R) (A' : K.Csr R) (hAn : A'.n = L.R.n) (hPn : L.P.n = L.A.n)
    (hcA' : colsOk A' L.R.n = true) (hcA : colsOk L.A L.A.n = true) (hcP : colsOk L.P L.R.n = true)
    (hcR : colsOk L.R L.A.n = true) (h : galB L A' = true) :
    csrOp A'.n (rowOf A') =
      csrOp L.R.n (rowOf L.R) ∘ₗ csrOp L.A.n (rowOf L.A) ∘ₗ csrOp L.P.n (rowOf L.P) := by
  unfold galB at h
  have hd : denseOfCsr A' L.R.n =
      mmul (denseOfCsr L.R L.A.n) (mmul (denseOfCsr L.A L.A.n) (denseOfCsr L.P L.R.n) L.A.n L.R.n) L.A.n L.R.n := by
    simpa using h
  apply LinearMap.ext
  intro x
  funext i
  simp only [LinearMap.comp_apply]
  by_cases hi : i < L.R.n
  · rw [csrOp_dense A' L.R.n hcA' x i (by rw [hAn]; exact hi), csrOp_dense L.R L.A.n hcR _ i hi]
    have e1 : ∀ j ∈ range L.R.n, mget (denseOfCsr A' L.R.n) i j * x j =
        ∑ k ∈ range L.A.n, ∑ l ∈ range L.A.n,
          mget (denseOfCsr L.R L.A.n) i k * (mget (denseOfCsr L.A L.A.n) k l * (mget (denseOfCsr L.P L.R.n) l j * x j)) := by
      intro j hj
      rw [hd, mget_mmul _ _ _ _ i j (by rw [denseOfCsr_msize]; exact hi) (mem_range.1 hj), Finset.sum_mul]
      apply Finset.sum_congr rfl
      intro k hk
      rw [mget_mmul _ _ _ _ k j (by rw [denseOfCsr_msize]; exact mem_range.1 hk) (mem_range.1 hj),
        Finset.mul_sum, Finset.sum_mul]
      apply Finset.sum_congr rfl
      intro l _
      ring
    have e2 : ∀ k ∈ range L.A.n, mget (denseOfCsr L.R L.A.n) i k *
          csrOp L.A.n (rowOf L.A) (csrOp L.P.n (rowOf L.P) x) k =
        ∑ j ∈ range L.R.n, ∑ l ∈ range L.A.n,
          mget (denseOfCsr L.R L.A.n) i k * (mget (denseOfCsr L.A L.A.n) k l * (mget (denseOfCsr L.P L.R.n) l j * x j)) := by
      intro k hk
      rw [csrOp_dense L.A L.A.n hcA _ k (mem_range.1 hk), Finset.mul_sum, Finset.sum_comm]
      apply Finset.sum_congr rfl
      intro l hl
      rw [csrOp_dense L.P L.R.n hcP x l (by rw [hPn]; exact mem_range.1 hl), Finset.mul_sum, Finset.mul_sum]
    rw [Finset.sum_congr rfl e1, Finset.sum_congr rfl e2, Finset.sum_comm]
  · have h1 : csrOp A'.n (rowOf A') x i = 0 := by
      show (if i < A'.n then _ else 0) = 0
      rw [if_neg (by rw [hAn]; exact hi)]
    have h2 : ∀ y, csrOp L.R.n (rowOf L.R) y i = 0 := by
      intro y
      show (if i < L.R.n then _ else 0) = 0
      rw [if_neg hi]
    rw [h1, h2]

/-! ### inverses, smoother parameters -/

theorem invB_sound (A : K.Csr R) (h : invB A = true) : CoarseInv A (coarseS A) := by
  unfold invB at h
  obtain ⟨y, hy⟩ := Option.isSome_iff_exists.1 h
  exact coarseInv_of_success A _ y hy

theorem nonExpB_sound (isPos : R → Bool) (hpos : ∀ z, isPos z = true → 0 < z) (ofRat : Rat → R)
    (hof : ∀ q, ofRat q = (q : R)) (A : K.Csr R) (hc : colsOk A A.n = true) (s : Sm)
    (h : nonExpB isPos ofRat A s = true) : NonExpSmZ A.n (rowOf A) (diagFn A) s := by
  cases s with
  | none => trivial
  | gs ω sw k =>
    simp only [nonExpB, Bool.and_eq_true, decide_eq_true_eq] at h
    refine ⟨by exact_mod_cast h.1, ?_⟩
    have : ((ω : ℚ) : R) ≤ ((2 : ℚ) : R) := Rat.cast_le.2 h.2
    simpa using this
  | jac ω k =>
    simp only [nonExpB, Bool.and_eq_true, decide_eq_true_eq] at h
    refine ⟨by exact_mod_cast h.1, ?_⟩
    have := jacB_sound isPos hpos (ofRat ω) A hc h.2
    rwa [hof] at this
  | cfjac c ω it fi ci =>
    simp only [nonExpB, Bool.and_eq_true, decide_eq_true_eq] at h
    refine ⟨by exact_mod_cast h.1, ?_⟩
    have := jacB_sound isPos hpos (ofRat ω) A hc h.2
    rwa [hof] at this

theorem strictB_sound (isPos : R → Bool) (hpos : ∀ z, isPos z = true → 0 < z) (ofRat : Rat → R)
    (hof : ∀ q, ofRat q = (q : R)) (A : K.Csr R) (hc : colsOk A A.n = true) (s : Sm)
    (h : strictB isPos ofRat A s = true) : StrictSmZ A.n (rowOf A) (diagFn A) s := by
  cases s with
  | none => exact absurd h (by simp [strictB])
  | gs ω sw k =>
    simp only [strictB, Bool.and_eq_true, decide_eq_true_eq] at h
    refine ⟨by exact_mod_cast h.1.1, ?_, h.2⟩
    have : ((ω : ℚ) : R) < ((2 : ℚ) : R) := Rat.cast_lt.2 h.1.2
    simpa using this
  | jac ω k =>
    simp only [strictB, Bool.and_eq_true, decide_eq_true_eq] at h
    refine ⟨by exact_mod_cast h.1.1, h.1.2, ?_⟩
    have := jacB_sound isPos hpos (ofRat ω) A hc h.2
    rwa [hof] at this
  | cfjac c ω it fi ci =>
    simp only [strictB, Bool.and_eq_true, decide_eq_true_eq] at h
    obtain ⟨⟨⟨⟨h1, h2⟩, h3⟩, h4⟩, h5⟩ := h
    refine ⟨by exact_mod_cast h1, h2, h3, h4, ?_⟩
    have := jacB_sound isPos hpos (ofRat ω) A hc h5
    rwa [hof] at this

theorem fpts_cover (A : K.Csr R) (C : List Nat) (i : Nat) (hi : i < A.n) : i ∈ C ∨ i ∈ fpts A C := by
  by_cases h : i ∈ C
  · exact Or.inl h
  · right
    unfold fpts
    simp [hi, h]

/-! ### the hierarchy -/

/-- the operator of the next level's matrix -/
def topOp (Ac : K.Csr R) (Ls : List (Lvl R)) : (Nat → R) →ₗ[R] (Nat → R) :=
  csrOp (nextA Ac Ls).n (rowOf (nextA Ac Ls))

/-- what `lvlsB` certifies, at the operator level: non-expansive parameters, Galerkin coarse operators, right inverses -/
def SpdH (Ac : K.Csr R) : List (Lvl R) → Prop
  | [] => True
  | L :: rest =>
      NonExpSmZ L.A.n (rowOf L.A) (diagFn L.A) L.pre ∧ NonExpSmZ L.A.n (rowOf L.A) (diagFn L.A) L.post ∧
      topOp Ac rest = csrOp L.R.n (rowOf L.R) ∘ₗ csrOp L.A.n (rowOf L.A) ∘ₗ csrOp L.P.n (rowOf L.P) ∧
      CoarseInv (nextA Ac rest) (coarseS (nextA Ac rest)) ∧ SpdH Ac rest

theorem nextA_n (Ac : K.Csr R) : ∀ (Ls : List (Lvl R)) (n : Nat), C05.Shaped Ac.n n Ls → (nextA Ac Ls).n = n := by
  intro Ls n hs
  cases Ls with
  | nil => exact Eq.symm hs
  | cons L _ => exact hs.1

theorem nextA_cols (Ac : K.Csr R) (Ls : List (Lvl R)) (hr : inRangeH Ac Ls = true) :
    colsOk (nextA Ac Ls) (nextA Ac Ls).n = true := by
  obtain ⟨hL, hc⟩ := inRangeH_spec Ac Ls hr
  cases Ls with
  | nil => exact hc
  | cons L _ => exact (hL L (by simp)).1

theorem inRangeH_tail (Ac : K.Csr R) (L : Lvl R) (rest : List (Lvl R)) (hr : inRangeH Ac (L :: rest) = true) :
    inRangeH Ac rest = true := by
  unfold inRangeH at *
  simp only [List.all_cons, Bool.and_eq_true] at hr
  simp only [Bool.and_eq_true]
  exact ⟨hr.1.2, hr.2⟩

/-- **soundness of `lvlsB`** -/
theorem spdH_of_B (isPos : R → Bool) (hpos : ∀ z, isPos z = true → 0 < z) (ofRat : Rat → R)
    (hof : ∀ q, ofRat q = (q : R)) (Ac : K.Csr R) :
    ∀ (Ls : List (Lvl R)) (n : Nat), C05.Shaped Ac.n n Ls → inRangeH Ac Ls = true →
      lvlsB isPos ofRat Ac Ls = true → SpdH Ac Ls := by
  intro Ls
  induction Ls with
  | nil => intro _ _ _ _; trivial
  | cons L rest ih =>
    intro n hs hr h
    obtain ⟨hAn, hPn, _, hrest⟩ := hs
    obtain ⟨hL, _⟩ := inRangeH_spec Ac (L :: rest) hr
    obtain ⟨c1, c2, c3⟩ := hL L (by simp)
    have hrt := inRangeH_tail Ac L rest hr
    simp only [lvlsB, Bool.and_eq_true] at h
    obtain ⟨⟨⟨⟨h1, h2⟩, h3⟩, h4⟩, h5⟩ := h
    have hn' := nextA_n Ac rest L.R.n hrest
    refine ⟨nonExpB_sound isPos hpos ofRat hof L.A c1 L.pre h1, nonExpB_sound isPos hpos ofRat hof L.A c1 L.post h2,
      ?_, invB_sound _ h4, ih L.R.n hrest hrt h5⟩
    have hc' := nextA_cols Ac rest hrt
    rw [hn'] at hc'
    exact galB_sound L (nextA Ac rest) hn' (by rw [hPn, hAn]) hc' c1 c2 c3 h3

theorem spdH_galerkin (Ac : K.Csr R) : ∀ (Ls : List (Lvl R)), SpdH Ac Ls → GalerkinL (Ls.map absLvl) := by
  intro Ls
  induction Ls with
  | nil => intro _; trivial
  | cons L rest ih =>
    intro h
    obtain ⟨_, _, hg, _, hrest⟩ := h
    cases rest with
    | nil => trivial
    | cons L' rest' => exact ⟨hg, ih hrest⟩

/-- the smoothers are linear iterations and the hierarchy is Galerkin: `WFL` of `cyc_isLinIter` -/
theorem wfl_abs (Ac : K.Csr R) : ∀ (Ls : List (Lvl R)), WFLs (Ls.map absLvl) → SpdH Ac Ls →
    WFL (topOp Ac Ls) (Ls.map absLvl) := by
  intro Ls
  induction Ls with
  | nil => intro _ _; trivial
  | cons L rest ih =>
    intro hw h
    obtain ⟨hpre, hpost, hwr⟩ := hw
    obtain ⟨_, _, hg, _, hrest⟩ := h
    refine ⟨rfl, hpre, hpost, ?_⟩
    have := ih hwr hrest
    rw [hg] at this
    exact this

theorem csrOp_supp (n : Nat) (rows : Nat → Row R) (v : Nat → R) (i : Nat) (hi : n ≤ i) : csrOp n rows v i = 0 := by
  show (if i < n then _ else 0) = 0
  rw [if_neg (by omega)]

/-- the levels of the model hierarchy with their coarse Euclidean forms -/
def eLevels (Ls : List (Lvl R)) : List (EForm R (Nat → R) × Level R (Nat → R)) :=
  Ls.map (fun L => (euc R L.R.n, (absLvl L).toLevel))

theorem eLevels_snd (Ls : List (Lvl R)) : (eLevels Ls).map Prod.snd = (Ls.map absLvl).map (·.toLevel) := by
  unfold eLevels
  simp [List.map_map, Function.comp_def]

/-- **the model hierarchy is a hierarchy as the constructors build it** (`WFG`): `R` adjoint to `P`, Galerkin coarse
matrices, smoothers non-expansive for the level's own energy form, solvable coarse problems, exact coarsest solve -/
theorem wfg_abs (Ac : K.Csr R) (S : (Nat → R) →ₗ[R] (Nat → R)) (hS : CoarseInv Ac S) :
    ∀ (Ls : List (Lvl R)) (n : Nat), C05.Shaped Ac.n n Ls → (∀ L ∈ Ls, LvlOK L) → SymH Ac Ls → SpdH Ac Ls →
      WFG (fun b => S b) (euc R n) (topOp Ac Ls) (eLevels Ls) := by
  intro Ls
  induction Ls with
  | nil =>
    intro n hs _ _ _ b xs hb
    have hn : n = Ac.n := hs
    have hz : csrOp Ac.n (rowOf Ac) (xs - S b) = 0 := by
      funext i
      rw [map_sub]
      have hb' : csrOp Ac.n (rowOf Ac) xs = b := hb
      rw [hb']
      by_cases hi : i < Ac.n
      · simp only [Pi.sub_apply, Pi.zero_apply]
        rw [hS.right b i hi]; ring
      · simp only [Pi.sub_apply, Pi.zero_apply]
        rw [← hb', csrOp_supp _ _ _ i (by omega), csrOp_supp _ _ _ i (by omega)]; ring
    show (euc R n).a (csrOp Ac.n (rowOf Ac) (xs - S b)) (xs - S b) = 0
    rw [hz]; simp
  | cons L rest ih =>
    intro n hs hok hsym hspd
    obtain ⟨hAn, hPn, hC, hrest⟩ := hs
    obtain ⟨hCn, hdiag⟩ := hok L (by simp)
    obtain ⟨hA, hP, hsymr⟩ := hsym
    obtain ⟨hne1, hne2, hg, hinv, hspdr⟩ := hspd
    subst hAn
    have hnn := nextA_n Ac rest L.R.n hrest
    refine ⟨rfl, hP, ?_, ?_, ?_, ?_⟩
    · intro hs' hp'
      exact smFn_nonexpZ L.A.n (rowOf L.A) hs' hp' (diagFn L.A) hdiag L.C (fpts L.A L.C) hC (fpts_lt L.A L.C) hCn
        (fpts_nodup L.A L.C) L.pre hne1
    · intro hs' hp'
      exact smFn_nonexpZ L.A.n (rowOf L.A) hs' hp' (diagFn L.A) hdiag L.C (fpts L.A L.C) hC (fpts_lt L.A L.C) hCn
        (fpts_nodup L.A L.C) L.post hne2
    · intro r
      refine ⟨coarseS (nextA Ac rest) (csrOp L.R.n (rowOf L.R) r), ?_⟩
      show (csrOp L.R.n (rowOf L.R) ∘ₗ csrOp L.A.n (rowOf L.A) ∘ₗ csrOp L.P.n (rowOf L.P)) _ = _
      rw [← hg]
      funext i
      by_cases hi : i < L.R.n
      · exact hinv.right _ i (by rw [hnn]; exact hi)
      · show csrOp (nextA Ac rest).n _ _ i = csrOp L.R.n (rowOf L.R) r i
        rw [csrOp_supp _ _ _ i (by rw [hnn]; omega), csrOp_supp _ _ _ i (by omega)]
    · have := ih L.R.n hrest (fun L' hL' => hok L' (by simp [hL'])) hsymr hspdr
      show WFG (fun b => S b) (euc R L.R.n)
        (csrOp L.R.n (rowOf L.R) ∘ₗ csrOp L.A.n (rowOf L.A) ∘ₗ csrOp L.P.n (rowOf L.P)) (eLevels rest)
      rw [← hg]
      exact this

/-! ### from the operator to the matrix -/

/-- **`⟨M A v, v⟩_A > 0` on vectors of non-zero energy, `A` symmetric, definite and invertible on the first `n`
coordinates ⇒ the matrix of `M` is positive definite** -/
theorem quad_of_op (n : Nat) (A Mo Sf : (Nat → R) →ₗ[R] (Nat → R))
    (hSf : ∀ b i, i < n → A (Sf b) i = b i) (hAsupp : ∀ v i, n ≤ i → A v i = 0)
    (hsymA : IsAdj (euc R n) (euc R n) A A)
    (hdef : ∀ v, (euc R n).a (A v) v = 0 → ∀ i, i < n → A v i = 0)
    (hpd : ∀ v, (euc R n).a (A v) v ≠ 0 → 0 < (euc R n).a (A (Mo (A v))) v)
    (M : Nat → Nat → R) (hM : ∀ i j, i < n → j < n → M i j = Mo (Pi.single j 1) i)
    (x : Nat → R) (hx : ∃ j, j < n ∧ x j ≠ 0) :
    0 < ∑ i ∈ range n, ∑ j ∈ range n, x i * M i j * x j := by
  set x' : Nat → R := trunc n x with hx'
  have hAv : A (Sf x') = x' := by
    funext i
    by_cases hi : i < n
    · exact hSf x' i hi
    · rw [hAsupp _ i (by omega)]
      show 0 = if i < n then x i else 0
      rw [if_neg hi]
  have hen : (euc R n).a (A (Sf x')) (Sf x') ≠ 0 := by
    intro h0
    obtain ⟨j, hj, hxj⟩ := hx
    have := hdef (Sf x') h0 j hj
    rw [hAv] at this
    apply hxj
    have e : x' j = x j := by show (if j < n then x j else 0) = x j; rw [if_pos hj]
    rw [← e]; exact this
  have h1 := hpd (Sf x') hen
  rw [hsymA (Mo (A (Sf x'))) (Sf x'), hAv, euc_apply] at h1
  -- x' = Σ_j x_j e_j
  have hsum : x' = ∑ j ∈ range n, x j • (Pi.single j (1 : R) : Nat → R) := by
    funext i
    rw [Finset.sum_apply]
    simp only [Pi.smul_apply, Pi.single_apply, smul_eq_mul, mul_ite, mul_one, mul_zero]
    rw [Finset.sum_ite_eq (range n) i]
    show (if i < n then x i else 0) = _
    by_cases hi : i < n
    · rw [if_pos hi, if_pos (mem_range.2 hi)]
    · rw [if_neg hi, if_neg (by simpa using hi)]
  have hMx : ∀ i, i < n → Mo x' i = ∑ j ∈ range n, x j * M i j := by
    intro i hi
    rw [hsum, map_sum, Finset.sum_apply]
    apply Finset.sum_congr rfl
    intro j hj
    rw [map_smul, Pi.smul_apply, smul_eq_mul, hM i j hi (mem_range.1 hj)]
  have e : ∑ i ∈ range n, Mo x' i * x' i = ∑ i ∈ range n, ∑ j ∈ range n, x i * M i j * x j := by
    apply Finset.sum_congr rfl
    intro i hi
    have hi' := mem_range.1 hi
    have : x' i = x i := by show (if i < n then x i else 0) = x i; rw [if_pos hi']
    rw [hMx i hi', this, Finset.sum_mul]
    apply Finset.sum_congr rfl
    intro j _
    ring
  rw [e] at h1
  exact h1

/-! ### the executed matrix -/

/-- **definiteness of the executed matrix from the operator-level hypotheses**: shapes, `LvlOK`, `SymH` (what
`c05Check` certifies) and `c05SpdCheck = true` ⇒ `xᵀ M x > 0` for every `x` that does not vanish on the first `n`
coordinates, `M = denseM` (V- and W-cycle) -/
theorem denseM_pd (isPos : R → Bool) (hpos : ∀ z, isPos z = true → 0 < z) (ofRat : Rat → R)
    (hof : ∀ q, ofRat q = (q : R)) (Ac : K.Csr R) (Ls : List (Lvl R)) (n : Nat)
    (hshape : C05.Shaped Ac.n n Ls) (hok : ∀ L ∈ Ls, LvlOK L) (hsym : SymH Ac Ls) (hr : inRangeH Ac Ls = true)
    (hspd : c05SpdCheck isPos ofRat Ac Ls = true)
    (c : Cyc) (M : Mat R) (h : denseM ofRat Ac c Ls = some M)
    (x : Nat → R) (hx : ∃ j, j < n ∧ x j ≠ 0) :
    0 < ∑ i ∈ range n, ∑ j ∈ range n, x i * mget M i j * x j := by
  cases Ls with
  | nil => exact absurd hspd (by simp [c05SpdCheck])
  | cons L rest =>
    have hn0 : 0 < n := by obtain ⟨j, hj, _⟩ := hx; omega
    simp only [c05SpdCheck, Bool.and_eq_true, Bool.or_eq_true] at hspd
    obtain ⟨⟨⟨⟨hpdA, hdpos⟩, hinvA⟩, hstr⟩, hlv⟩ := hspd
    have hspdH := spdH_of_B isPos hpos ofRat hof Ac (L :: rest) n hshape hr hlv
    have hgal := spdH_galerkin Ac (L :: rest) hspdH
    have hS := denseM_coarseInv ofRat Ac c (L :: rest) n hn0 hshape M h
    obtain ⟨_, hent⟩ := denseM_is_Mop ofRat hof Ac c (L :: rest) n hshape hok hgal M h
    have hAn : L.A.n = n := hshape.1
    obtain ⟨hL, _⟩ := inRangeH_spec Ac (L :: rest) hr
    obtain ⟨cA, _, _⟩ := hL L (by simp)
    obtain ⟨hCn, hdiag⟩ := hok L (by simp)
    subst hAn
    have hsymA := hsym.1
    have hpsd := pdB_csr_psd isPos hpos L.A cA hpdA
    have hwfg := wfg_abs Ac (coarseS Ac) hS (L :: rest) L.A.n hshape hok hsym hspdH
    have hwfh := WFG.toWFH' (fun b => coarseS Ac b) (eLevels (L :: rest)) (euc R L.A.n) (topOp Ac (L :: rest))
      hsymA hpsd hwfg
    rw [eLevels_snd] at hwfh
    have hwfl := wfl_abs Ac (L :: rest) (wfls_abs Ac.n (L :: rest) L.A.n hshape hok) hspdH
    have hlin := cyc_isLinIter (coarseS Ac) (rest.map absLvl) (C05.ctype c) (absLvl L) (topOp Ac (L :: rest)) hwfl
    have hdpos' : ∀ i, i < L.A.n → 0 < diagFn L.A i := by
      intro i hi
      unfold diagPosB at hdpos
      rw [List.all_eq_true] at hdpos
      rw [diagFn_dense L.A cA i hi]
      exact hpos _ (hdpos i (List.mem_range.2 hi))
    have hstrict : C05Y.StrictOn ((euc R L.A.n).ofOp (topOp Ac (L :: rest)) hsymA hpsd) (topOp Ac (L :: rest))
          (absLvl L).pre ∨
        C05Y.StrictOn ((euc R L.A.n).ofOp (topOp Ac (L :: rest)) hsymA hpsd) (topOp Ac (L :: rest))
          (absLvl L).post := by
      rcases hstr with hs1 | hs1
      · left
        exact smFn_strictZ L.A.n (rowOf L.A) hsymA hpsd (diagFn L.A) (fun i hi => (hdiag i hi).1) hdpos'
          L.C (fpts L.A L.C) hshape.2.2.1 (fpts_lt L.A L.C) hCn (fpts_nodup L.A L.C) (fpts_cover L.A L.C)
          L.pre (strictB_sound isPos hpos ofRat hof L.A cA L.pre hs1)
      · right
        exact smFn_strictZ L.A.n (rowOf L.A) hsymA hpsd (diagFn L.A) (fun i hi => (hdiag i hi).1) hdpos'
          L.C (fpts L.A L.C) hshape.2.2.1 (fpts_lt L.A L.C) hCn (fpts_nodup L.A L.C) (fpts_cover L.A L.C)
          L.post (strictB_sound isPos hpos ofRat hof L.A cA L.post hs1)
    have hpd := C05Y.cycle_precond_pd (fun b => coarseS Ac b) (C05.ctype c) (absLvl L).toLevel
      ((rest.map absLvl).map (fun (x : LinLevel R (Nat → R)) => x.toLevel)) (topOp Ac (L :: rest))
      (Mop (coarseS Ac) (C05.ctype c) ((L :: rest).map absLvl))
      ((euc R L.A.n).ofOp (topOp Ac (L :: rest)) hsymA hpsd) hwfh hlin hstrict
    have hSf := invB_sound L.A hinvA
    apply quad_of_op L.A.n (topOp Ac (L :: rest)) (Mop (coarseS Ac) (C05.ctype c) ((L :: rest).map absLvl)) (coarseS L.A)
      (fun b i hi => hSf.right b i hi) (fun v i hi => csrOp_supp _ _ v i hi) hsymA ?_ hpd (mget M) hent x hx
    intro v hv i hi
    have hz : ¬ ∃ j, j < L.A.n ∧ v j ≠ 0 := by
      intro hex
      have := pdB_csr isPos hpos L.A cA hpdA v hex
      exact absurd hv (ne_of_gt this)
    show csrOp L.A.n (rowOf L.A) v i = 0
    rw [csrOp_dense L.A L.A.n cA v i hi]
    apply Finset.sum_eq_zero
    intro j hj
    have : v j = 0 := by
      by_contra hne
      exact hz ⟨j, mem_range.1 hj, hne⟩
    rw [this, mul_zero]

/-- **C05 with the definiteness clause, for the executed definition, every hypothesis a Boolean evaluated on the
concrete data.**  `pre`, `post`: the lists handed to `change_smoothers`; `Ls`, `Ac`: the model hierarchy.  If the decision
table reports `symmetric_smoothing = True`, `c05Check id pre post Ac Ls = true` (E23: installed smoothers, shapes, one
non-zero diagonal entry per row, in-range indices, `A = Aᵀ`, `R = Pᵀ`, `Ac = Acᵀ` for the dense copies) and
`c05SpdCheck isPos ofRat Ac Ls = true` (finest matrix positive definite by an exact `Uᵀ D U` certificate, positive
diagonal, a strict finest pre- or post-smoother -- Gauss–Seidel / SOR with `0 < ω < 2`, damped Jacobi with `0 < ω` and
the certificate of `2 D − ω A` --, every smoother non-expansive, every coarse matrix the Galerkin product and inverted
by the elimination), then **whenever `denseM` returns a matrix `M` (V- and W-cycle), `M` is symmetric and
`xᵀ M x > 0` for every `x` that does not vanish on the first `n` coordinates.** -/
theorem flag_denseM_spd_checked (isPos : R → Bool) (hpos : ∀ z, isPos z = true → 0 < z) (ofRat : Rat → R)
    (hof : ∀ q, ofRat q = (q : R)) (pre post : List Cfg) (Ac : K.Csr R) (Ls : List (Lvl R))
    (hflag : flag pre post Ls.length = some true)
    (hchk : c05Check id pre post Ac Ls = true)
    (hspd : c05SpdCheck isPos ofRat Ac Ls = true)
    (c : Cyc) (M : Mat R) (h : denseM ofRat Ac c Ls = some M) :
    M.size = topSize Ac Ls ∧
    (∀ i j, i < topSize Ac Ls → j < topSize Ac Ls → mget M i j = mget M j i) ∧
    ∀ x : Nat → R, (∃ j, j < topSize Ac Ls ∧ x j ≠ 0) →
      0 < ∑ i ∈ range (topSize Ac Ls), ∑ j ∈ range (topSize Ac Ls), x i * mget M i j * x j := by
  obtain ⟨h1, h2⟩ := flag_denseM_symmetric_checked ofRat hof pre post Ac Ls hflag hchk c M h
  refine ⟨h1, h2, ?_⟩
  unfold c05Check at hchk
  simp only [Bool.and_eq_true, decide_eq_true_eq] at hchk
  obtain ⟨_, hdata⟩ := hchk
  obtain ⟨hs, hok, hsym⟩ := dataOk_sound Ac Ls hdata
  have hr : inRangeH Ac Ls = true := by
    unfold dataOk at hdata
    simp only [Bool.and_eq_true] at hdata
    exact hdata.1.2
  intro x hx
  exact denseM_pd isPos hpos ofRat hof Ac Ls (topSize Ac Ls) hs hok hsym hr hspd c M h x hx

theorem posR_pos (z : ℚ) (h : posR z = true) : 0 < z := of_decide_eq_true h

/-- the instance the driver runs (`ext_c05z_spd r`): scalars `ℚ`, `ofRat = id`, `isPos = posR` (`decide (0 < q)`) -/
theorem flag_denseM_spd_checked_rat (pre post : List Cfg) (Ac : K.Csr ℚ) (Ls : List (Lvl ℚ))
    (hflag : flag pre post Ls.length = some true)
    (hchk : c05Check id pre post Ac Ls = true)
    (hspd : c05SpdCheck posR id Ac Ls = true)
    (c : Cyc) (M : Mat ℚ) (h : denseM id Ac c Ls = some M) :
    M.size = topSize Ac Ls ∧
    (∀ i j, i < topSize Ac Ls → j < topSize Ac Ls → mget M i j = mget M j i) ∧
    ∀ x : Nat → ℚ, (∃ j, j < topSize Ac Ls ∧ x j ≠ 0) →
      0 < ∑ i ∈ range (topSize Ac Ls), ∑ j ∈ range (topSize Ac Ls), x i * mget M i j * x j :=
  flag_denseM_spd_checked posR posR_pos id
    (fun q => (Rat.cast_id q).symm) pre post Ac Ls hflag hchk hspd c M h

#print axioms galB_sound
#print axioms wfg_abs
#print axioms denseM_pd
#print axioms flag_denseM_spd_checked
#print axioms flag_denseM_spd_checked_rat
end PyamgV.C05Z
