import PyamgV.Model.C10
import PyamgV.Proofs.C10Fit
import Mathlib.Algebra.BigOperators.Fin

/-! PyamgV (C10, extension E8, part A): the array-level model of `fit_candidates_common`
(`C10M.fitCandidates`, the one compared bit-exactly with the kernel) is split into its loops
(`copyBlocks`, `aggBody`, `colStep`, `innerStep`; `fitCandidates_eq` is `rfl`), and the loop of one
aggregate is proved equal to the proof-side modified Gram-Schmidt `GS.mgs` on the aggregate's
columns read as vectors `Fin n → K` (`aggLoop_spec`). -/
namespace PyamgV.C10R
open PyamgV PyamgV.C10M

variable {T S : Type}

def copyBlocks (o : FitOps T S) (nCol K1 K2 : Nat) (ap ai : Array Nat) (b : Array T) : Array T :=
  let BS := K1 * K2
  (List.range nCol).foldl (fun (ax : Array T) j =>
    (List.range' (rdN ap j) (rdN ap (j+1) - rdN ap j)).foldl (fun (ax : Array T) ii =>
      (List.range BS).foldl (fun (ax : Array T) t =>
        ax.setIfInBounds (BS * ii + t) (b.getD (BS * rdN ai ii + t) o.zeroT)) ax) ax)
    (Array.replicate (BS * ai.size) o.zeroT)

def innerStep (o : FitOps T S) (K2 lo hi rs bj : Nat) (st : FitState T) (bi : Nat) : FitState T :=
  let pj := strided (lo + bj) hi K2
  let pi := strided (lo + bi) hi K2
  let pij := pi.zip pj
  let d := pij.foldl (fun acc (p : Nat × Nat) =>
    o.addT acc (o.dot (st.ax.getD p.2 o.zeroT) (st.ax.getD p.1 o.zeroT))) o.zeroT
  let ax := pij.foldl (fun (ax : Array T) (p : Nat × Nat) =>
    ax.setIfInBounds p.2 (o.subT (ax.getD p.2 o.zeroT) (o.mulT d (ax.getD p.1 o.zeroT)))) st.ax
  { st with ax := ax, r := st.r.setIfInBounds (rs + K2 * bi + bj) d }

def colStep (o : FitOps T S) (K2 lo hi rs : Nat) (tol : S) (st : FitState T) (bj : Nat) : FitState T :=
  let pj := strided (lo + bj) hi K2
  let (n0, ok0) := colNorm o st.ax pj
  let thr := o.mulS tol n0
  let st := (List.range bj).foldl (innerStep o K2 lo hi rs bj) st
  let (n1, ok1) := colNorm o st.ax pj
  let keep := o.gt n1 thr
  let scale := if keep then o.inv n1 else o.zeroT
  let r := st.r.setIfInBounds (rs + K2 * bj + bj) (if keep then o.ofS n1 else o.zeroT)
  let ax := pj.foldl (fun (ax : Array T) p => ax.setIfInBounds p (o.mulT (ax.getD p o.zeroT) scale)) st.ax
  { ax := ax, r := r, ok := st.ok && ok0 && ok1 }

def aggBody (o : FitOps T S) (K1 K2 : Nat) (ap : Array Nat) (tol : S) (st : FitState T) (j : Nat) : FitState T :=
  (List.range K2).foldl (colStep o K2 (K1 * K2 * rdN ap j) (K1 * K2 * rdN ap (j+1)) (j * K2 * K2) tol) st

theorem fitCandidates_eq (o : FitOps T S) (nCol K1 K2 : Nat) (ap ai : Array Nat) (b : Array T) (tol : S) :
    fitCandidates o nCol K1 K2 ap ai b tol =
      (List.range nCol).foldl (aggBody o K1 K2 ap tol)
        ⟨copyBlocks o nCol K1 K2 ap ai b, Array.replicate (nCol * K2 * K2) o.zeroT, true⟩ := rfl


variable {K : Type} [Field K]

theorem getD_set (a : Array K) (i j : Nat) (v : K) :
    (a.setIfInBounds i v).getD j 0 = if i = j ∧ i < a.size then v else a.getD j 0 := by
  simp only [Array.getD_eq_getD_getElem?, Array.getElem?_setIfInBounds]
  by_cases h : i = j
  · subst h
    by_cases hs : i < a.size
    · simp [hs]
    · simp [hs]
  · simp [h]

theorem getD_set_ne (a : Array K) (i j : Nat) (v : K) (h : i ≠ j) :
    (a.setIfInBounds i v).getD j 0 = a.getD j 0 := by
  rw [getD_set]; simp [h]

theorem getD_set_eq (a : Array K) (i : Nat) (v : K) (h : i < a.size) :
    (a.setIfInBounds i v).getD i 0 = v := by
  rw [getD_set]; simp [h]

/-- a loop `for t < n: a[g t] = F(a[g t], a[f t])` whose reads are never positions written earlier -/
theorem fold_upd (g f : Nat → Nat) (F : K → K → K) (a : Array K) (n : Nat)
    (hg : ∀ t < n, g t < a.size) (hinj : ∀ t < n, ∀ t' < n, g t = g t' → t = t')
    (hf : ∀ t < n, ∀ t' < n, t' ≠ t → f t ≠ g t') :
    ∀ m ≤ n,
      ((List.range m).foldl (fun (a : Array K) t =>
        a.setIfInBounds (g t) (F (a.getD (g t) 0) (a.getD (f t) 0))) a).size = a.size ∧
      (∀ t < m, ((List.range m).foldl (fun (a : Array K) t =>
        a.setIfInBounds (g t) (F (a.getD (g t) 0) (a.getD (f t) 0))) a).getD (g t) 0 =
          F (a.getD (g t) 0) (a.getD (f t) 0)) ∧
      (∀ p, (∀ t < m, p ≠ g t) → ((List.range m).foldl (fun (a : Array K) t =>
        a.setIfInBounds (g t) (F (a.getD (g t) 0) (a.getD (f t) 0))) a).getD p 0 = a.getD p 0) := by
  intro m
  induction m with
  | zero => intro _; exact ⟨rfl, fun t ht => absurd ht (Nat.not_lt_zero _), fun p _ => rfl⟩
  | succ m ih =>
    intro hm
    obtain ⟨h1, h2, h3⟩ := ih (Nat.le_of_succ_le hm)
    rw [List.range_succ, List.foldl_append]
    simp only [List.foldl_cons, List.foldl_nil]
    generalize (List.range m).foldl (fun (a : Array K) t =>
        a.setIfInBounds (g t) (F (a.getD (g t) 0) (a.getD (f t) 0))) a = res at h1 h2 h3
    have hgm : res.getD (g m) 0 = a.getD (g m) 0 :=
      h3 _ (fun t ht e => by have := hinj m hm t (by omega) e; omega)
    have hfm : res.getD (f m) 0 = a.getD (f m) 0 :=
      h3 _ (fun t ht e => hf m hm t (by omega) (by omega) e)
    refine ⟨by rw [Array.size_setIfInBounds, h1], ?_, ?_⟩
    · intro t ht
      by_cases htm : t = m
      · subst htm
        rw [getD_set_eq _ _ _ (by rw [h1]; exact hg t hm), hgm, hfm]
      · have hne : g m ≠ g t := fun e => htm (hinj m hm t (by omega) e).symm
        rw [getD_set_ne _ _ _ _ hne]
        exact h2 t (by omega)
    · intro p hp
      rw [getD_set_ne _ _ _ _ (fun e => hp m (by omega) e.symm)]
      exact h3 p (fun t ht => hp t (by omega))

theorem fold_sum (h : Nat → K) (n : Nat) :
    (List.range n).foldl (fun acc t => acc + h t) 0 = ∑ t : Fin n, h t.val := by
  induction n with
  | zero => simp
  | succ n ih =>
    rw [List.range_succ, List.foldl_append, ih, Fin.sum_univ_castSucc]
    simp

theorem zip_map_same {α β γ : Type} (l : List α) (f : α → β) (g : α → γ) :
    (l.map f).zip (l.map g) = l.map (fun x => (f x, g x)) := by
  induction l with
  | nil => rfl
  | cons x l ih => simp [ih]

theorem strided_col (lo K2 n c : Nat) (hc : c < K2) :
    strided (lo + c) (lo + K2 * n) K2 = (List.range n).map (fun t => lo + c + K2 * t) := by
  unfold strided
  have h0 : K2 ≠ 0 := by omega
  rw [if_neg h0]
  have : (lo + K2 * n - (lo + c) + K2 - 1) / K2 = n := by
    rcases Nat.eq_zero_or_pos n with hn | hn
    · subst hn
      rw [Nat.mul_zero]
      exact Nat.div_eq_of_lt (by omega)
    · have e : lo + K2 * n - (lo + c) + K2 - 1 = K2 * n + (K2 - 1 - c) := by
        have : K2 ≤ K2 * n := Nat.le_mul_of_pos_right K2 hn
        generalize K2 * n = m at this ⊢
        omega
      rw [e, Nat.mul_add_div (by omega), Nat.div_eq_of_lt (by omega)]; rfl
  rw [this]

/-- positions `x + K2 * y` with `x < K2` determine `x` and `y` -/
theorem pos_unique (K2 x y x' y' : Nat) (hx : x < K2) (hx' : x' < K2)
    (h : x + K2 * y = x' + K2 * y') : x = x' ∧ y = y' := by
  have h1 : (x + K2 * y) % K2 = x := by rw [Nat.add_mul_mod_self_left, Nat.mod_eq_of_lt hx]
  have h2 : (x' + K2 * y') % K2 = x' := by rw [Nat.add_mul_mod_self_left, Nat.mod_eq_of_lt hx']
  have hxx : x = x' := by rw [← h1, ← h2, h]
  subst hxx
  refine ⟨rfl, ?_⟩
  have : K2 * y = K2 * y' := by omega
  exact Nat.eq_of_mul_eq_mul_left (by omega) this

variable [LinearOrder K] [IsStrictOrderedRing K]

/-- the scalar operations of the real kernel over an ordered field with a square-root function
(`ok` = the exactness flag of the square root, irrelevant for `Ax` and `R`) -/
def fieldOps (sqrt : K → K) (ok : K → Bool) : FitOps K K where
  zeroT := 0
  zeroS := 0
  subT := (· - ·)
  addT := (· + ·)
  mulT := (· * ·)
  dot := fun a b => b * a
  norm := fun a => a * a
  addS := (· + ·)
  mulS := (· * ·)
  sqrt := sqrt
  sqrtOk := ok
  gt := fun a b => decide (a > b)
  inv := fun s => 1 / s
  ofS := id

/-- column `c` of the aggregate stored at `lo`, `n` rows of `K2` entries -/
def colV (ax : Array K) (lo K2 n c : Nat) : Fin n → K := fun t => ax.getD (lo + c + K2 * t.val) 0

section loc
variable (sqrt : K → K) (ok : K → Bool) (tol : K) (K2 lo n rs : Nat)

theorem inner_d (ax : Array K) (bi bj : Nat) :
    (((List.range n).map (fun t => lo + bi + K2 * t)).zip
        ((List.range n).map (fun t => lo + bj + K2 * t))).foldl (fun acc (p : Nat × Nat) =>
      (fieldOps sqrt ok).addT acc ((fieldOps sqrt ok).dot (ax.getD p.2 (fieldOps sqrt ok).zeroT)
        (ax.getD p.1 (fieldOps sqrt ok).zeroT))) (fieldOps sqrt ok).zeroT =
    (C10.dotForm (K := K)).a (colV ax lo K2 n bi) (colV ax lo K2 n bj) := by
  rw [zip_map_same, List.foldl_map, C10.dotForm_apply]
  exact fold_sum (fun t => ax.getD (lo + bi + K2 * t) 0 * ax.getD (lo + bj + K2 * t) 0) n

theorem col_norm (ax : Array K) (bj : Nat) :
    colNorm (fieldOps sqrt ok) ax ((List.range n).map (fun t => lo + bj + K2 * t)) =
      (sqrt ((C10.dotForm (K := K)).a (colV ax lo K2 n bj) (colV ax lo K2 n bj)),
       ok ((C10.dotForm (K := K)).a (colV ax lo K2 n bj) (colV ax lo K2 n bj))) := by
  unfold colNorm
  rw [List.foldl_map, C10.dotForm_apply]
  have := fold_sum (fun t => ax.getD (lo + bj + K2 * t) 0 * ax.getD (lo + bj + K2 * t) 0) n
  exact congrArg (fun s => (sqrt s, ok s)) this

theorem pos_lt (K2 n c t : Nat) (hc : c < K2) (ht : t < n) : c + K2 * t < K2 * n := by
  have := Nat.mul_le_mul_left K2 (Nat.succ_le_of_lt ht)
  rw [Nat.mul_succ] at this
  omega

theorem innerStep_spec (st : FitState K) (bi bj : Nat) (hbi : bi < K2) (hbj : bj < K2) (hne : bi ≠ bj)
    (hsz : lo + K2 * n ≤ st.ax.size) :
    (innerStep (fieldOps sqrt ok) K2 lo (lo + K2 * n) rs bj st bi).ax.size = st.ax.size ∧
    (innerStep (fieldOps sqrt ok) K2 lo (lo + K2 * n) rs bj st bi).r =
      st.r.setIfInBounds (rs + K2 * bi + bj)
        ((C10.dotForm (K := K)).a (colV st.ax lo K2 n bi) (colV st.ax lo K2 n bj)) ∧
    colV (innerStep (fieldOps sqrt ok) K2 lo (lo + K2 * n) rs bj st bi).ax lo K2 n bj =
      colV st.ax lo K2 n bj -
        (C10.dotForm (K := K)).a (colV st.ax lo K2 n bi) (colV st.ax lo K2 n bj) • colV st.ax lo K2 n bi ∧
    (∀ p, (∀ t < n, p ≠ lo + bj + K2 * t) →
      (innerStep (fieldOps sqrt ok) K2 lo (lo + K2 * n) rs bj st bi).ax.getD p 0 = st.ax.getD p 0) := by
  generalize hd : (C10.dotForm (K := K)).a (colV st.ax lo K2 n bi) (colV st.ax lo K2 n bj) = d
  have hax : (innerStep (fieldOps sqrt ok) K2 lo (lo + K2 * n) rs bj st bi).ax =
      (List.range n).foldl (fun (a : Array K) t => a.setIfInBounds (lo + bj + K2 * t)
        ((fun x y => x - d * y) (a.getD (lo + bj + K2 * t) 0) (a.getD (lo + bi + K2 * t) 0))) st.ax := by
    simp only [innerStep, strided_col lo K2 n bi hbi, strided_col lo K2 n bj hbj, inner_d, hd]
    rw [zip_map_same, List.foldl_map]
    rfl
  have hr : (innerStep (fieldOps sqrt ok) K2 lo (lo + K2 * n) rs bj st bi).r =
      st.r.setIfInBounds (rs + K2 * bi + bj) d := by
    simp only [innerStep, strided_col lo K2 n bi hbi, strided_col lo K2 n bj hbj, inner_d, hd]
  obtain ⟨h1, h2, h3⟩ := fold_upd (fun t => lo + bj + K2 * t) (fun t => lo + bi + K2 * t)
    (fun x y => x - d * y) st.ax n
    (fun t ht => by have := pos_lt K2 n bj t hbj ht; omega)
    (fun t _ t' _ e => (pos_unique K2 bj t bj t' hbj hbj (by omega)).2)
    (fun t _ t' _ _ e => hne (pos_unique K2 bi t bj t' hbi hbj (by omega)).1) n (Nat.le_refl n)
  rw [hax]
  refine ⟨h1, hr, ?_, h3⟩
  funext t
  simp only [colV, Pi.sub_apply, Pi.smul_apply, smul_eq_mul]
  exact h2 t.val t.isLt

omit [LinearOrder K] [IsStrictOrderedRing K] in
theorem colV_frame (a a' : Array K) (bj c : Nat) (hbj : bj < K2) (hc : c < K2) (hne : c ≠ bj)
    (h : ∀ p, (∀ t < n, p ≠ lo + bj + K2 * t) → a'.getD p 0 = a.getD p 0) :
    colV a' lo K2 n c = colV a lo K2 n c := by
  funext t
  exact h _ (fun t' _ e => hne (pos_unique K2 c t.val bj t' hc hbj (by omega)).1)

/-- the `bi` loop of column `bj` = `GS.orth` against the columns `s, …, bj-1` -/
theorem innerLoop_spec (bj : Nat) (hbj : bj < K2) :
    ∀ (m s : Nat) (st : FitState K), s + m = bj → lo + K2 * n ≤ st.ax.size →
      rs + K2 * K2 ≤ st.r.size →
      ((List.range' s m).foldl (innerStep (fieldOps sqrt ok) K2 lo (lo + K2 * n) rs bj) st).ax.size
        = st.ax.size ∧
      ((List.range' s m).foldl (innerStep (fieldOps sqrt ok) K2 lo (lo + K2 * n) rs bj) st).r.size
        = st.r.size ∧
      colV ((List.range' s m).foldl (innerStep (fieldOps sqrt ok) K2 lo (lo + K2 * n) rs bj) st).ax
          lo K2 n bj =
        (GS.orth C10.dotForm ((List.range' s m).map (colV st.ax lo K2 n)) (colV st.ax lo K2 n bj)).1 ∧
      (∀ p, (∀ t < n, p ≠ lo + bj + K2 * t) →
        ((List.range' s m).foldl (innerStep (fieldOps sqrt ok) K2 lo (lo + K2 * n) rs bj) st).ax.getD p 0
          = st.ax.getD p 0) ∧
      (∀ i < m,
        ((List.range' s m).foldl (innerStep (fieldOps sqrt ok) K2 lo (lo + K2 * n) rs bj) st).r.getD
            (rs + K2 * (s + i) + bj) 0 =
          (GS.orth C10.dotForm ((List.range' s m).map (colV st.ax lo K2 n))
            (colV st.ax lo K2 n bj)).2.getD i 0) ∧
      (∀ p, (∀ i < m, p ≠ rs + K2 * (s + i) + bj) →
        ((List.range' s m).foldl (innerStep (fieldOps sqrt ok) K2 lo (lo + K2 * n) rs bj) st).r.getD p 0
          = st.r.getD p 0) := by
  intro m
  induction m with
  | zero =>
    intro s st _ _ _
    refine ⟨rfl, rfl, rfl, fun _ _ => rfl, fun i hi => absurd hi (Nat.not_lt_zero _), fun _ _ => rfl⟩
  | succ m ih =>
    intro s st hs hsz hrz
    have hsK : s < K2 := by omega
    have hsne : s ≠ bj := by omega
    obtain ⟨h1, h2, h3, h4⟩ := innerStep_spec sqrt ok K2 lo n rs st s bj hsK hbj hsne hsz
    rw [List.range'_succ, List.foldl_cons, List.map_cons]
    generalize innerStep (fieldOps sqrt ok) K2 lo (lo + K2 * n) rs bj st s = st' at h1 h2 h3 h4
    obtain ⟨i1, i2, i3, i4, i5, i6⟩ := ih (s + 1) st' (by omega) (by rw [h1]; exact hsz)
      (by rw [h2, Array.size_setIfInBounds]; exact hrz)
    have hqs : (List.range' (s + 1) m).map (colV st'.ax lo K2 n) =
        (List.range' (s + 1) m).map (colV st.ax lo K2 n) := by
      apply List.map_congr_left
      intro c hc
      have := List.mem_range'_1.1 hc
      exact colV_frame K2 lo n st.ax st'.ax bj c hbj (by omega) (by omega) h4
    rw [hqs, h3] at i3 i5
    have hpos : rs + K2 * s + bj < st.r.size := by
      have := pos_lt K2 K2 bj s hbj hsK; omega
    refine ⟨by rw [i1, h1], by rw [i2, h2, Array.size_setIfInBounds], ?_, ?_, ?_, ?_⟩
    · rw [i3]; rfl
    · intro p hp; rw [i4 p hp, h4 p hp]
    · intro i hi
      cases i with
      | zero =>
        simp only [Nat.add_zero]
        rw [i6 _ (fun i _ e => by
          have := (pos_unique K2 bj s bj (s + 1 + i) hbj hbj (by omega)).2; omega)]
        rw [h2, getD_set_eq _ _ _ hpos]
        rfl
      | succ i =>
        have := i5 i (by omega)
        rw [show s + (i + 1) = s + 1 + i by omega, this]
        rfl
    · intro p hp
      rw [i6 p (fun i hi => by
        have := hp (i + 1) (by omega); rwa [show s + (i + 1) = s + 1 + i by omega] at this)]
      have h0 := hp 0 (by omega)
      simp only [Nat.add_zero] at h0
      rw [h2, getD_set_ne _ _ _ _ (fun e => h0 e.symm)]

/-- one pass of the `bj` loop = one step of `GS.mgs`: `orth` against the columns before, `newCol` -/
theorem colStep_spec (st : FitState K) (bj : Nat) (hbj : bj < K2) (hsz : lo + K2 * n ≤ st.ax.size)
    (hrz : rs + K2 * K2 ≤ st.r.size) :
    (colStep (fieldOps sqrt ok) K2 lo (lo + K2 * n) rs tol st bj).ax.size = st.ax.size ∧
    (colStep (fieldOps sqrt ok) K2 lo (lo + K2 * n) rs tol st bj).r.size = st.r.size ∧
    colV (colStep (fieldOps sqrt ok) K2 lo (lo + K2 * n) rs tol st bj).ax lo K2 n bj =
      (GS.newCol C10.dotForm sqrt
        (tol * sqrt ((C10.dotForm (K := K)).a (colV st.ax lo K2 n bj) (colV st.ax lo K2 n bj)))
        (GS.orth C10.dotForm ((List.range bj).map (colV st.ax lo K2 n)) (colV st.ax lo K2 n bj)).1).1 ∧
    (∀ p, (∀ t < n, p ≠ lo + bj + K2 * t) →
      (colStep (fieldOps sqrt ok) K2 lo (lo + K2 * n) rs tol st bj).ax.getD p 0 = st.ax.getD p 0) ∧
    (∀ bi < bj, (colStep (fieldOps sqrt ok) K2 lo (lo + K2 * n) rs tol st bj).r.getD
        (rs + K2 * bi + bj) 0 =
      (GS.orth C10.dotForm ((List.range bj).map (colV st.ax lo K2 n)) (colV st.ax lo K2 n bj)).2.getD bi 0) ∧
    (colStep (fieldOps sqrt ok) K2 lo (lo + K2 * n) rs tol st bj).r.getD (rs + K2 * bj + bj) 0 =
      (GS.newCol C10.dotForm sqrt
        (tol * sqrt ((C10.dotForm (K := K)).a (colV st.ax lo K2 n bj) (colV st.ax lo K2 n bj)))
        (GS.orth C10.dotForm ((List.range bj).map (colV st.ax lo K2 n)) (colV st.ax lo K2 n bj)).1).2 ∧
    (∀ p, (∀ bi ≤ bj, p ≠ rs + K2 * bi + bj) →
      (colStep (fieldOps sqrt ok) K2 lo (lo + K2 * n) rs tol st bj).r.getD p 0 = st.r.getD p 0) := by
  obtain ⟨i1, i2, i3, i4, i5, i6⟩ := innerLoop_spec sqrt ok K2 lo n rs bj hbj bj 0 st (by omega) hsz hrz
  rw [← List.range_eq_range'] at i1 i2 i3 i4 i5 i6
  simp only [Nat.zero_add] at i5 i6
  generalize hthr : tol * sqrt ((C10.dotForm (K := K)).a (colV st.ax lo K2 n bj) (colV st.ax lo K2 n bj)) = thr
  generalize hO : GS.orth C10.dotForm ((List.range bj).map (colV st.ax lo K2 n)) (colV st.ax lo K2 n bj) = O
    at i3 i5
  have hcs : colStep (fieldOps sqrt ok) K2 lo (lo + K2 * n) rs tol st bj =
      (let st2 := (List.range bj).foldl (innerStep (fieldOps sqrt ok) K2 lo (lo + K2 * n) rs bj) st
       let n1 := sqrt ((C10.dotForm (K := K)).a (colV st2.ax lo K2 n bj) (colV st2.ax lo K2 n bj))
       let scale : K := if decide (n1 > thr) = true then 1 / n1 else 0
       { ax := (List.range n).foldl (fun (a : Array K) t => a.setIfInBounds (lo + bj + K2 * t)
                  ((fun x _ => x * scale) (a.getD (lo + bj + K2 * t) 0) (a.getD (lo + bj + K2 * t) 0))) st2.ax,
         r := st2.r.setIfInBounds (rs + K2 * bj + bj) (if decide (n1 > thr) = true then n1 else 0),
         ok := st2.ok && ok ((C10.dotForm (K := K)).a (colV st.ax lo K2 n bj) (colV st.ax lo K2 n bj)) &&
           ok ((C10.dotForm (K := K)).a (colV st2.ax lo K2 n bj) (colV st2.ax lo K2 n bj)) }) := by
    simp only [colStep, strided_col lo K2 n bj hbj, col_norm, List.foldl_map]
    rw [← hthr]
    rfl
  rw [hcs]
  generalize (List.range bj).foldl (innerStep (fieldOps sqrt ok) K2 lo (lo + K2 * n) rs bj) st = st2
    at i1 i2 i3 i4 i5 i6
  simp only
  rw [i3]
  generalize hn1 : sqrt ((C10.dotForm (K := K)).a O.1 O.1) = n1
  obtain ⟨h1, h2, h3⟩ := fold_upd (fun t => lo + bj + K2 * t) (fun t => lo + bj + K2 * t)
    (fun x _ => x * (if decide (n1 > thr) = true then 1 / n1 else 0)) st2.ax n
    (fun t ht => by have := pos_lt K2 n bj t hbj ht; omega)
    (fun t _ t' _ e => (pos_unique K2 bj t bj t' hbj hbj (by omega)).2)
    (fun t _ t' _ hne e => hne (pos_unique K2 bj t bj t' hbj hbj (by omega)).2.symm) n (Nat.le_refl n)
  have hpos : rs + K2 * bj + bj < st2.r.size := by
    have := pos_lt K2 K2 bj bj hbj hbj; omega
  refine ⟨by rw [h1, i1], by rw [Array.size_setIfInBounds, i2], ?_, ?_, ?_, ?_, ?_⟩
  · funext t
    have := h2 t.val t.isLt
    simp only [colV] at this ⊢
    rw [this]
    have hO1 : st2.ax.getD (lo + bj + K2 * t.val) 0 = O.1 t := congrFun i3 t
    rw [hO1]
    unfold GS.newCol
    simp only [hn1]
    by_cases hk : n1 > thr
    · simp only [hk, decide_true, if_true, Pi.smul_apply, smul_eq_mul]
      ring
    · simp only [hk, decide_false, if_false, mul_zero, Bool.false_eq_true]
      rfl
  · intro p hp; rw [h3 p hp, i4 p hp]
  · intro bi hbi
    rw [getD_set_ne _ _ _ _ (fun e => by
      have := (pos_unique K2 bj bj bj bi hbj hbj (by omega)).2; omega)]
    exact i5 bi hbi
  · rw [getD_set_eq _ _ _ hpos]
    unfold GS.newCol
    simp only [hn1]
    by_cases hk : n1 > thr
    · simp only [hk, decide_true, if_true]
    · simp only [hk, decide_false, if_false, Bool.false_eq_true]
  · intro p hp
    rw [getD_set_ne _ _ _ _ (fun e => hp bj (Nat.le_refl _) e.symm)]
    exact i6 p (fun i hi => hp i (by omega))

omit [LinearOrder K] [IsStrictOrderedRing K] in
theorem colV_frame' (a a' : Array K) (k c : Nat) (hc : c < k)
    (h : ∀ p, (∀ c t, k ≤ c → c < K2 → t < n → p ≠ lo + c + K2 * t) → a'.getD p 0 = a.getD p 0)
    (hk : k ≤ K2) : colV a' lo K2 n c = colV a lo K2 n c := by
  funext t
  exact h _ (fun c' t' hc' hc'2 _ e => by
    have := (pos_unique K2 c t.val c' t' (by omega) hc'2 (by omega)).1; omega)

/-- the `bj` loop over the columns `k, …, K2-1` = `GS.mgs` on these columns with the already
computed columns `0, …, k-1` -/
theorem colLoop_spec :
    ∀ (m k : Nat) (st : FitState K), k + m = K2 → lo + K2 * n ≤ st.ax.size →
      rs + K2 * K2 ≤ st.r.size →
      ∀ res, res = (List.range' k m).foldl (colStep (fieldOps sqrt ok) K2 lo (lo + K2 * n) rs tol) st →
      ∀ out, out = GS.mgs C10.dotForm sqrt tol ((List.range' k m).map (colV st.ax lo K2 n))
        ((List.range k).map (colV st.ax lo K2 n)) →
      res.ax.size = st.ax.size ∧ res.r.size = st.r.size ∧
      (∀ c < m, colV res.ax lo K2 n (k + c) = out.q.getD c 0) ∧
      (∀ p, (∀ c t, k ≤ c → c < K2 → t < n → p ≠ lo + c + K2 * t) → res.ax.getD p 0 = st.ax.getD p 0) ∧
      (∀ c < m, ∀ bi < k + c,
        res.r.getD (rs + K2 * bi + (k + c)) 0 = (out.r.getD c ([], 0)).1.getD bi 0) ∧
      (∀ c < m, res.r.getD (rs + K2 * (k + c) + (k + c)) 0 = (out.r.getD c ([], 0)).2) ∧
      (∀ p, (∀ c bi, k ≤ c → c < K2 → bi ≤ c → p ≠ rs + K2 * bi + c) →
        res.r.getD p 0 = st.r.getD p 0) := by
  intro m
  induction m with
  | zero =>
    intro k st _ _ _ res hres out _
    subst hres
    refine ⟨rfl, rfl, fun c hc => absurd hc (Nat.not_lt_zero _), fun _ _ => rfl,
      fun c hc => absurd hc (Nat.not_lt_zero _), fun c hc => absurd hc (Nat.not_lt_zero _), fun _ _ => rfl⟩
  | succ m ih =>
    intro k st hk hsz hrz res hres out hout
    have hkK : k < K2 := by omega
    obtain ⟨c1, c2, c3, c4, c5, c6, c7⟩ := colStep_spec sqrt ok tol K2 lo n rs st k hkK hsz hrz
    rw [List.range'_succ, List.foldl_cons] at hres
    rw [List.range'_succ, List.map_cons] at hout
    generalize colStep (fieldOps sqrt ok) K2 lo (lo + K2 * n) rs tol st k = st' at c1 c2 c3 c4 c5 c6 c7 hres
    have hbs : (List.range' (k + 1) m).map (colV st'.ax lo K2 n) =
        (List.range' (k + 1) m).map (colV st.ax lo K2 n) := by
      apply List.map_congr_left
      intro c hc
      have := List.mem_range'_1.1 hc
      exact colV_frame K2 lo n st.ax st'.ax k c hkK (by omega) (by omega) c4
    have hqs : (List.range (k + 1)).map (colV st'.ax lo K2 n) =
        (List.range k).map (colV st.ax lo K2 n) ++ [colV st'.ax lo K2 n k] := by
      rw [List.range_succ, List.map_append, List.map_cons, List.map_nil]
      congr 1
      apply List.map_congr_left
      intro c hc
      have := List.mem_range.1 hc
      exact colV_frame K2 lo n st.ax st'.ax k c hkK (by omega) (by omega) c4
    obtain ⟨i1, i2, i3, i4, i5, i6, i7⟩ := ih (k + 1) st' (by omega) (by rw [c1]; exact hsz)
      (by rw [c2]; exact hrz) res hres _ rfl
    rw [hbs, hqs, c3] at i3 i5 i6
    -- name the pieces of the `mgs` step
    generalize hO : GS.orth C10.dotForm ((List.range k).map (colV st.ax lo K2 n)) (colV st.ax lo K2 n k) = O
      at c3 c5 c6 i3 i5 i6 hout
    generalize hC : GS.newCol C10.dotForm sqrt
      (tol * sqrt ((C10.dotForm (K := K)).a (colV st.ax lo K2 n k) (colV st.ax lo K2 n k))) O.1 = C
      at c3 c6 i3 i5 i6 hout
    have hout' : out = ⟨C.1 :: (GS.mgs C10.dotForm sqrt tol ((List.range' (k + 1) m).map (colV st.ax lo K2 n))
          ((List.range k).map (colV st.ax lo K2 n) ++ [C.1])).q,
        (O.2, C.2) :: (GS.mgs C10.dotForm sqrt tol ((List.range' (k + 1) m).map (colV st.ax lo K2 n))
          ((List.range k).map (colV st.ax lo K2 n) ++ [C.1])).r,
        (O.1 - C.2 • C.1) :: (GS.mgs C10.dotForm sqrt tol ((List.range' (k + 1) m).map (colV st.ax lo K2 n))
          ((List.range k).map (colV st.ax lo K2 n) ++ [C.1])).drop⟩ := by
      rw [hout]; simp only [GS.mgs, hO, hC]
    generalize GS.mgs C10.dotForm sqrt tol ((List.range' (k + 1) m).map (colV st.ax lo K2 n))
          ((List.range k).map (colV st.ax lo K2 n) ++ [C.1]) = rest at i3 i5 i6 hout'
    subst hout'
    refine ⟨by rw [i1, c1], by rw [i2, c2], ?_, ?_, ?_, ?_, ?_⟩
    · intro c hc
      cases c with
      | zero =>
        rw [Nat.add_zero, colV_frame' K2 lo n st'.ax res.ax (k + 1) k (by omega) i4 (by omega), c3]
        rfl
      | succ c =>
        rw [show k + (c + 1) = k + 1 + c by omega, i3 c (by omega)]
        rfl
    · intro p hp
      rw [i4 p (fun c t h1 h2 h3 => hp c t (by omega) h2 h3), c4 p (fun t ht => hp k t (Nat.le_refl _) hkK ht)]
    · intro c hc bi hbi
      cases c with
      | zero =>
        simp only [Nat.add_zero] at hbi ⊢
        rw [i7 _ (fun c' bi' h1 h2 h3 e => by
          have := (pos_unique K2 k bi c' bi' hkK h2 (by omega)).1; omega)]
        exact c5 bi hbi
      | succ c =>
        rw [show k + (c + 1) = k + 1 + c by omega] at hbi ⊢
        rw [i5 c (by omega) bi hbi]
        rfl
    · intro c hc
      cases c with
      | zero =>
        simp only [Nat.add_zero]
        rw [i7 _ (fun c' bi' h1 h2 h3 e => by
          have := (pos_unique K2 k k c' bi' hkK h2 (by omega)).1; omega)]
        exact c6
      | succ c =>
        rw [show k + (c + 1) = k + 1 + c by omega, i6 c (by omega)]
        rfl
    · intro p hp
      rw [i7 p (fun c bi h1 h2 h3 => hp c bi (by omega) h2 h3),
        c7 p (fun bi hbi => hp k bi (Nat.le_refl _) hkK hbi)]

end loc

section agg
variable (sqrt : K → K) (ok : K → Bool) (tol : K) (K2 : Nat)

/-- **one aggregate**: the body of the `j` loop replaces the aggregate's columns (read as vectors
`Fin n → K`) by the columns of `GS.mgs`, writes the entries of `R` into the upper triangle of block
`j` of `R`, and touches nothing else -/
theorem aggBody_spec (K1 : Nat) (ap : Array Nat) (st : FitState K) (j : Nat)
    (hmono : rdN ap j ≤ rdN ap (j+1))
    (hsz : K1 * K2 * rdN ap (j+1) ≤ st.ax.size) (hrz : j * K2 * K2 + K2 * K2 ≤ st.r.size) :
    ∀ res, res = aggBody (fieldOps sqrt ok) K1 K2 ap tol st j →
    ∀ lo, lo = K1 * K2 * rdN ap j → ∀ n, n = K1 * (rdN ap (j+1) - rdN ap j) →
    ∀ rs, rs = j * K2 * K2 →
    ∀ out, out = GS.mgs C10.dotForm sqrt tol ((List.range K2).map (colV st.ax lo K2 n)) [] →
    res.ax.size = st.ax.size ∧ res.r.size = st.r.size ∧
    (∀ c < K2, colV res.ax lo K2 n c = out.q.getD c 0) ∧
    (∀ p, (p < lo ∨ lo + K2 * n ≤ p) → res.ax.getD p 0 = st.ax.getD p 0) ∧
    (∀ c < K2, ∀ bi < c, res.r.getD (rs + K2 * bi + c) 0 = (out.r.getD c ([], 0)).1.getD bi 0) ∧
    (∀ c < K2, res.r.getD (rs + K2 * c + c) 0 = (out.r.getD c ([], 0)).2) ∧
    (∀ c < K2, ∀ bi, c < bi → res.r.getD (rs + K2 * bi + c) 0 = st.r.getD (rs + K2 * bi + c) 0) ∧
    (∀ p, (p < rs ∨ rs + K2 * K2 ≤ p) → res.r.getD p 0 = st.r.getD p 0) := by
  intro res hres lo hlo n hn rs hrs out hout
  have hhi : K1 * K2 * rdN ap (j+1) = lo + K2 * n := by
    obtain ⟨cnt, hcnt⟩ := Nat.exists_eq_add_of_le hmono
    rw [hlo, hn, hcnt, Nat.add_sub_cancel_left]
    ring
  unfold aggBody at hres
  rw [hhi, ← hlo, ← hrs, List.range_eq_range'] at hres
  rw [List.range_eq_range'] at hout
  obtain ⟨h1, h2, h3, h4, h5, h6, h7⟩ := colLoop_spec sqrt ok tol K2 lo n rs K2 0 st (by omega)
    (by rw [← hhi]; exact hsz) (by rw [hrs]; exact hrz) res hres out (by rw [hout]; rfl)
  simp only [Nat.zero_add] at h3 h5 h6
  refine ⟨h1, h2, h3, ?_, h5, h6, ?_, ?_⟩
  · intro p hp
    refine h4 p (fun c t _ hc ht e => ?_)
    have := pos_lt K2 n c t hc ht
    omega
  · intro c hc bi hbi
    refine h7 _ (fun c' bi' _ hc' hbi' e => ?_)
    have := pos_unique K2 c bi c' bi' hc hc' (by omega)
    omega
  · intro p hp
    refine h7 p (fun c bi _ hc hbi e => ?_)
    have := pos_lt K2 K2 c bi hc (by omega)
    omega

end agg
end PyamgV.C10R
