import PyamgV.Proofs.ExtC07CRefine
import PyamgV.Proofs.C07Vec
import Mathlib.LinearAlgebra.Matrix.ConjTranspose

/-! PyamgV (extension E37, property C07): the **complex instance the driver executes**.

The correspondence run of C07 executes the recurrences of `Model/C07Krylov.lean` on `Vector CRat n` with the
operations `vecOps CRat.conj A M` (op `c07_iter … c …`).  Here, for any field `K` with involution and a "real part"
`R : ReMap K F` into an ordered field (`star z · z` has non-negative real part, zero only for `z = 0`):

* `dotH R n` -- the Hermitian form `⟨u, v⟩ = Σ conj(u_i) v_i` on `Kⁿ`, positive definite;
* every operation of `vecOps star A M` commutes with `toFn : Vector K n → (Fin n → K)` (`opsHomH_vec`; the matrix of
  `AH` is the conjugate transpose, `linOf_adjH`), a purely structural homomorphism argument (`OpsHomH`) carries the
  recurrences over (`cgStep_homH` …);
* hence the Hermitian optimality theorems of `Proofs/ExtC07CRefine.lean` hold for **the definitions the driver
  runs**: `cg_hvec_optimal`, `cg_hvec_monotone`, `cgnr_hvec_optimal`, `cgne_hvec_optimal`, `cr_hvec_optimal`
  (preconditioner commuting with `A`; `cr_hvec_optimal_noprec` for the identity matrix), `sd_hvec_step_optimal`,
  `mr_hvec_step_optimal`.

`Proofs/ExtC07CRat.lean` instantiates `K = CRat`, `F = Rat`. -/
set_option linter.unusedSectionVars false
namespace PyamgV.C07.CH
open PyamgV.CHerm PyamgV.C07 Matrix

/-! ### structural homomorphisms of the recurrence models (any `φ` commuting with the seven operations) -/
section hom
variable {K V W : Type} [Div K]

structure OpsHomH (φ : V → W) (ov : Ops K V) (ow : Ops K W) : Prop where
  add : ∀ u v, φ (ov.add u v) = ow.add (φ u) (φ v)
  sub : ∀ u v, φ (ov.sub u v) = ow.sub (φ u) (φ v)
  smul : ∀ c v, φ (ov.smul c v) = ow.smul c (φ v)
  dot : ∀ u v, ov.dot u v = ow.dot (φ u) (φ v)
  A : ∀ v, φ (ov.A v) = ow.A (φ v)
  AH : ∀ v, φ (ov.AH v) = ow.AH (φ v)
  M : ∀ v, φ (ov.M v) = ow.M (φ v)

theorem iter_homH {σ τ : Type} (f : σ → σ) (g : τ → τ) (mp : σ → τ) (h : ∀ s, mp (f s) = g (mp s)) :
    ∀ k s, mp (iter f k s) = iter g k (mp s)
  | 0, _ => rfl
  | k+1, s => by simp only [iter]; rw [h, iter_homH f g mp h k s]

variable (φ : V → W)

def mpCg (s : CgSt K V) : CgSt K W := ⟨φ s.x, φ s.r, φ s.z, φ s.p, s.rz, s.it⟩
def mpCr (s : CrSt K V) : CrSt K W := ⟨φ s.x, φ s.r, φ s.z, φ s.p, φ s.Ap, s.rAz, s.it⟩
def mpNe (s : NeSt K V) : NeSt K W := ⟨φ s.x, φ s.r, φ s.z, φ s.p, s.zr, s.it⟩
def mpNr (s : NrSt K V) : NrSt K W := ⟨φ s.x, φ s.r, φ s.rhat, φ s.z, φ s.p, s.zr, s.it⟩
def mpSd (s : SdSt K V) : SdSt K W := ⟨φ s.x, φ s.r, φ s.z, s.rz, s.it⟩
def mpMr (s : MrSt K V) : MrSt K W := ⟨φ s.x, φ s.z, s.it⟩

theorem map_ite (c : Bool) (u v : V) : φ (if c then u else v) = if c then φ u else φ v := by
  cases c <;> rfl

variable {φ} {ov : Ops K V} {ow : Ops K W} (H : OpsHomH φ ov ow) (b : V)
include H

theorem cgInit_homH (x0 : V) : mpCg φ (cgInit ov b x0) = cgInit ow (φ b) (φ x0) := by
  simp only [mpCg, cgInit, H.sub, H.A, H.M, H.dot]
theorem cgStep_homH (s : CgSt K V) : mpCg φ (cgStep ov b s) = cgStep ow (φ b) (mpCg φ s) := by
  simp only [mpCg, cgStep, map_ite (φ := φ), H.add, H.sub, H.smul, H.A, H.M, H.dot]
  rfl
theorem cg_iter_homH (x0 : V) (k : Nat) :
    mpCg φ (iter (cgStep ov b) k (cgInit ov b x0)) = iter (cgStep ow (φ b)) k (cgInit ow (φ b) (φ x0)) := by
  rw [iter_homH _ _ _ (cgStep_homH H b), cgInit_homH H]

theorem crInit_homH (x0 : V) : mpCr φ (crInit ov b x0) = crInit ow (φ b) (φ x0) := by
  simp only [mpCr, crInit, H.sub, H.A, H.M, H.dot]
theorem crStep_homH (s : CrSt K V) : mpCr φ (crStep ov b s) = crStep ow (φ b) (mpCr φ s) := by
  simp only [mpCr, crStep, map_ite (φ := φ), H.add, H.sub, H.smul, H.A, H.M, H.dot]
  rfl
theorem cr_iter_homH (x0 : V) (k : Nat) :
    mpCr φ (iter (crStep ov b) k (crInit ov b x0)) = iter (crStep ow (φ b)) k (crInit ow (φ b) (φ x0)) := by
  rw [iter_homH _ _ _ (crStep_homH H b), crInit_homH H]

theorem cgneInit_homH (x0 : V) : mpNe φ (cgneInit ov b x0) = cgneInit ow (φ b) (φ x0) := by
  simp only [mpNe, cgneInit, H.sub, H.A, H.AH, H.M, H.dot]
theorem cgneStep_homH (s : NeSt K V) : mpNe φ (cgneStep ov b s) = cgneStep ow (φ b) (mpNe φ s) := by
  simp only [mpNe, cgneStep, map_ite (φ := φ), H.add, H.sub, H.smul, H.A, H.AH, H.M, H.dot]
  rfl
theorem cgne_iter_homH (x0 : V) (k : Nat) :
    mpNe φ (iter (cgneStep ov b) k (cgneInit ov b x0)) = iter (cgneStep ow (φ b)) k (cgneInit ow (φ b) (φ x0)) := by
  rw [iter_homH _ _ _ (cgneStep_homH H b), cgneInit_homH H]

theorem cgnrInit_homH (x0 : V) : mpNr φ (cgnrInit ov b x0) = cgnrInit ow (φ b) (φ x0) := by
  simp only [mpNr, cgnrInit, H.sub, H.A, H.AH, H.M, H.dot]
theorem cgnrStep_homH (s : NrSt K V) : mpNr φ (cgnrStep ov b s) = cgnrStep ow (φ b) (mpNr φ s) := by
  simp only [mpNr, cgnrStep, map_ite (φ := φ), H.add, H.sub, H.smul, H.A, H.AH, H.M, H.dot]
  rfl
theorem cgnr_iter_homH (x0 : V) (k : Nat) :
    mpNr φ (iter (cgnrStep ov b) k (cgnrInit ov b x0)) = iter (cgnrStep ow (φ b)) k (cgnrInit ow (φ b) (φ x0)) := by
  rw [iter_homH _ _ _ (cgnrStep_homH H b), cgnrInit_homH H]

theorem sdStep_homH (s : SdSt K V) : mpSd φ (sdStep ov b s) = sdStep ow (φ b) (mpSd φ s) := by
  simp only [mpSd, sdStep, map_ite (φ := φ), H.add, H.sub, H.smul, H.A, H.M, H.dot]
  rfl
theorem mrStep_homH (s : MrSt K V) : mpMr φ (mrStep ov b s) = mrStep ow (φ b) (mpMr φ s) := by
  simp only [mpMr, mrStep, map_ite (φ := φ), H.add, H.sub, H.smul, H.A, H.M, H.dot]
  rfl

end hom

/-! ### the Hermitian form of `Kⁿ` -/

/-- a "real part": additive, blind to the involution, `star z · z` non-negative and zero only for `z = 0` -/
structure ReMap (K F : Type) [Field K] [StarRing K] [Field F] [LinearOrder F] [IsStrictOrderedRing F] where
  re : K →+ F
  re_star : ∀ z, re (star z) = re z
  sq_nonneg : ∀ z, 0 ≤ re (star z * z)
  sq_def : ∀ z, re (star z * z) = 0 → z = 0

variable {K F : Type} [Field K] [StarRing K] [Field F] [LinearOrder F] [IsStrictOrderedRing F] {n : Nat}

/-- `⟨u, v⟩ = Σ conj(u_i) v_i` on `Kⁿ` -/
def dotH (R : ReMap K F) (n : Nat) : HForm K F (Fin n → K) where
  h u v := ∑ i, star (u i) * v i
  add_left u u' v := by simp [star_add, add_mul, Finset.sum_add_distrib]
  add_right u v v' := by simp [mul_add, Finset.sum_add_distrib]
  smul_left c u v := by
    simp only [Pi.smul_apply, smul_eq_mul, star_mul', Finset.mul_sum]
    exact Finset.sum_congr rfl (fun i _ => by ring)
  smul_right c u v := by
    simp only [Pi.smul_apply, smul_eq_mul, Finset.mul_sum]
    exact Finset.sum_congr rfl (fun i _ => by ring)
  conj_symm u v := by
    rw [star_sum]
    exact Finset.sum_congr rfl (fun i _ => by rw [star_mul', star_star, mul_comm])
  re := R.re
  re_star := R.re_star
  nonneg v := by
    rw [map_sum]
    exact Finset.sum_nonneg (fun i _ => R.sq_nonneg _)

@[simp] theorem dotH_h (R : ReMap K F) (u v : Fin n → K) : (dotH R n).h u v = ∑ i, star (u i) * v i := rfl
@[simp] theorem dotH_re (R : ReMap K F) : (dotH R n).re = R.re := rfl

/-- the form is definite -/
theorem dotH_def (R : ReMap K F) (v : Fin n → K) (h : (dotH R n).h v v = 0) : v = 0 := by
  have h1 : R.re ((dotH R n).h v v) = 0 := by rw [h, map_zero]
  rw [dotH_h, map_sum] at h1
  funext i
  have := (Finset.sum_eq_zero_iff_of_nonneg (fun i _ => R.sq_nonneg (v i))).mp h1 i (Finset.mem_univ i)
  exact R.sq_def _ this

/-! ### `vecOps star A M` is carried by `toFn` onto the module operations -/

theorem vdotN_conj_eq (conj : K → K) (u v : Vector K n) : ∀ k, k ≤ n →
    vdotN conj u v k = ∑ i ∈ Finset.range k, conj (u[i]?.getD 0) * (v[i]?.getD 0)
  | 0, _ => by simp [vdotN]
  | k+1, h => by
    rw [vdotN, vdotN_conj_eq conj u v k (by omega), Finset.sum_range_succ]

theorem vdot_conj_eq (conj : K → K) (u v : Vector K n) :
    vdot conj u v = ∑ i : Fin n, conj (toFn u i) * toFn v i := by
  unfold vdot
  rw [vdotN_conj_eq conj u v n (le_refl n), Finset.sum_range]
  refine Finset.sum_congr rfl (fun i _ => ?_)
  simp [toFn]

theorem matOf_vctrans_star (A : Vector (Vector K n) n) : matOf (vctrans star A) = (matOf A)ᴴ := by
  funext i j
  simp [matOf, vctrans, Matrix.conjTranspose_apply]

/-- the matrix of `AH` (`vctrans star A`, what `runByName` builds) is the adjoint for the Hermitian form -/
theorem linOf_adjH (R : ReMap K F) (A : Vector (Vector K n) n) :
    CKSim.Adj (dotH R n) (linOf A) (linOf (vctrans star A)) := by
  intro u v
  simp only [dotH_h, linOf, Matrix.mulVecLin_apply, matOf_vctrans_star, Matrix.mulVec, dotProduct,
    Matrix.conjTranspose_apply, star_sum, star_mul', star_star]
  simp only [Finset.sum_mul, Finset.mul_sum]
  rw [Finset.sum_comm]
  refine Finset.sum_congr rfl (fun i _ => Finset.sum_congr rfl (fun j _ => ?_))
  ring

/-- the module-level operations that `vecOps star` is carried onto -/
def modOpsH (R : ReMap K F) (A M : Vector (Vector K n) n) : Ops K (Fin n → K) :=
  Ops.ofHerm (linOf A) (linOf (vctrans star A)) (linOf M) (dotH R n)

theorem opsHomH_vec (R : ReMap K F) (A M : Vector (Vector K n) n) :
    OpsHomH toFn (vecOps (star : K → K) A M) (modOpsH R A M) :=
  ⟨toFn_add, toFn_sub, toFn_smul, vdot_conj_eq star, toFn_vmv A, toFn_vmv _, toFn_vmv M⟩

/-! ### the theorems for the executable instance -/
section final
variable (R : ReMap K F) (A M : Vector (Vector K n) n) (b x0 : Vector K n)

local notation "ov" => vecOps (star : K → K) A M

/-- the sequences the driver computes (op `c07_iter`, complex field) -/
def cgVecH (k : Nat) : CgSt K (Vector K n) := iter (cgStep ov b) k (cgInit ov b x0)
def crVecH (k : Nat) : CrSt K (Vector K n) := iter (crStep ov b) k (crInit ov b x0)
def cgneVecH (k : Nat) : NeSt K (Vector K n) := iter (cgneStep ov b) k (cgneInit ov b x0)
def cgnrVecH (k : Nat) : NrSt K (Vector K n) := iter (cgnrStep ov b) k (cgnrInit ov b x0)

/-- `re (dᴴ A d)` and `re (dᴴ d)`, computed with the operations of the executable model -/
def energyH (A : Vector (Vector K n) n) (d : Vector K n) : F := R.re (vdot star (vmv A d) d)
def normSqH (d : Vector K n) : F := R.re (vdot star d d)

theorem energyH_eq (d : Vector K n) : energyH R A d = CPCG.enA (linOf A) (dotH R n) (toFn d) := by
  unfold energyH CPCG.enA; rw [vdot_conj_eq, toFn_vmv]; rfl
theorem normSqH_eq (d : Vector K n) : normSqH R d = (dotH R n).en (toFn d) := by
  unfold normSqH HForm.en; rw [vdot_conj_eq]; rfl

theorem toFn_subH (u v : Vector K n) : toFn (subV u v) = toFn u - toFn v := toFn_sub u v

/-- `A = Aᴴ` entrywise -/
def IsHerm (A : Vector (Vector K n) n) : Prop := ∀ i j : Fin n, A[i][j] = star A[j][i]
/-- `re (vᴴ A v) > 0` for `v ≠ 0` -/
def IsHPD (A : Vector (Vector K n) n) : Prop := ∀ v : Fin n → K, v ≠ 0 → 0 < R.re ((dotH R n).h (linOf A v) v)

theorem linOf_herm {A : Vector (Vector K n) n} (h : IsHerm A) (u v : Fin n → K) :
    (dotH R n).h (linOf A u) v = (dotH R n).h u (linOf A v) := by
  have h1 : linOf (vctrans star A) = linOf A := by
    unfold linOf; rw [matOf_vctrans_star]; congr 1
    funext i j; simp only [Matrix.conjTranspose_apply, matOf]; exact (h i j).symm
  have := linOf_adjH R A u v
  rw [h1] at this; exact this

theorem hyp_ofH {A M : Vector (Vector K n) n} (hA : IsHerm A) (hM : IsHerm M) (hpd : IsHPD R A) :
    CPCG.Hyp (linOf A) (linOf M) (dotH R n) where
  symA := linOf_herm R hA
  symM := linOf_herm R hM
  pd := by
    intro v h; by_contra hv
    have := hpd v hv; rw [h, map_zero] at this; exact lt_irrefl _ this
  psd := by
    intro v
    by_cases hv : v = 0
    · subst hv; simp
    · exact le_of_lt (hpd v hv)

theorem cgVecH_map (k : Nat) : mpCg toFn (cgVecH A M b x0 k) =
    cgSeq (linOf A) (linOf (vctrans star A)) (linOf M) (dotH R n) (toFn b) (toFn x0) k :=
  cg_iter_homH (opsHomH_vec R A M) b x0 k
theorem crVecH_map (k : Nat) : mpCr toFn (crVecH A M b x0 k) =
    crSeq (linOf A) (linOf (vctrans star A)) (linOf M) (dotH R n) (toFn b) (toFn x0) k :=
  cr_iter_homH (opsHomH_vec R A M) b x0 k
theorem cgneVecH_map (k : Nat) : mpNe toFn (cgneVecH A M b x0 k) =
    cgneSeq (linOf A) (linOf (vctrans star A)) (linOf M) (dotH R n) (toFn b) (toFn x0) k :=
  cgne_iter_homH (opsHomH_vec R A M) b x0 k
theorem cgnrVecH_map (k : Nat) : mpNr toFn (cgnrVecH A M b x0 k) =
    cgnrSeq (linOf A) (linOf (vctrans star A)) (linOf M) (dotH R n) (toFn b) (toFn x0) k :=
  cgnr_iter_homH (opsHomH_vec R A M) b x0 k

/-- **C07, conjugate gradients, complex executable model**: `A`, `M` Hermitian, `A` positive definite, no breakdown
before step `k` ⇒ the `k`-th iterate of the model of `_cg.py` lies in `x₀ + K_k(MA, M r₀)` (complex span) and
minimises the energy norm `re (eᴴ A e)` of the error over it -/
theorem cg_hvec_optimal (hA : IsHerm A) (hM : IsHerm M) (hpd : IsHPD R A) (xs : Vector K n)
    (hxs : vmv A xs = b) (k : Nat) (hnb : ∀ j, j < k → (cgVecH A M b x0 j).rz ≠ 0) :
    toFn (cgVecH A M b x0 k).x - toFn x0 ∈
      CPCG.kry (linOf A) (linOf M) (dotH R n) (toFn b) (toFn x0) k ∧
    ∀ y : Vector K n,
      toFn y - toFn x0 ∈ CPCG.kry (linOf A) (linOf M) (dotH R n) (toFn b) (toFn x0) k →
      energyH R A (subV xs (cgVecH A M b x0 k).x) ≤ energyH R A (subV xs y) := by
  have hx : linOf A (toFn xs) = toFn b := by rw [← toFn_vmv, hxs]
  have hmap := fun j => cgVecH_map R A M b x0 j
  have h := cg_cmodel_optimal (linOf A) (linOf (vctrans star A)) (linOf M) (dotH R n)
    (toFn b) (toFn x0) (hyp_ofH R hA hM hpd) (toFn xs) hx k
    (fun j hj => by rw [← hmap j]; exact hnb j hj)
  rw [← hmap k] at h
  refine ⟨h.1, fun y hy => ?_⟩
  rw [energyH_eq, energyH_eq, toFn_subH, toFn_subH]
  exact h.2 (toFn y) hy

/-- … the energy norm of the error is monotonically non-increasing along the iteration -/
theorem cg_hvec_monotone (hA : IsHerm A) (hM : IsHerm M) (hpd : IsHPD R A) (xs : Vector K n)
    (hxs : vmv A xs = b) (k : Nat) (hnb : ∀ j, j < k + 1 → (cgVecH A M b x0 j).rz ≠ 0) :
    energyH R A (subV xs (cgVecH A M b x0 (k+1)).x) ≤ energyH R A (subV xs (cgVecH A M b x0 k).x) := by
  have hx : linOf A (toFn xs) = toFn b := by rw [← toFn_vmv, hxs]
  have hmap := fun j => cgVecH_map R A M b x0 j
  have h := cg_cmodel_monotone (linOf A) (linOf (vctrans star A)) (linOf M) (dotH R n)
    (toFn b) (toFn x0) (hyp_ofH R hA hM hpd) (toFn xs) hx k
    (fun j hj => by rw [← hmap j]; exact hnb j hj)
  rw [← hmap k, ← hmap (k+1)] at h
  rw [energyH_eq, energyH_eq, toFn_subH, toFn_subH]
  exact h

/-- **CGNR, complex executable model**: `A` injective, `M` Hermitian ⇒ the `k`-th iterate minimises the 2-norm of the
residual over `x₀ + K_k(M AᴴA, M Aᴴ r₀)` -/
theorem cgnr_hvec_optimal (hM : IsHerm M) (hinj : ∀ v : Fin n → K, linOf A v = 0 → v = 0)
    (xs : Vector K n) (hxs : vmv A xs = b) (k : Nat)
    (hnb : ∀ j, j < k → (cgnrVecH A M b x0 j).zr ≠ 0) :
    let AT := linOf (vctrans star A)
    toFn (cgnrVecH A M b x0 k).x - toFn x0 ∈
      CPCG.kry (AT ∘ₗ linOf A) (linOf M) (dotH R n) (AT (toFn b)) (toFn x0) k ∧
    ∀ y : Vector K n,
      toFn y - toFn x0 ∈ CPCG.kry (AT ∘ₗ linOf A) (linOf M) (dotH R n) (AT (toFn b)) (toFn x0) k →
      normSqH R (subV b (vmv A (cgnrVecH A M b x0 k).x)) ≤ normSqH R (subV b (vmv A y)) := by
  intro AT
  have hx : linOf A (toFn xs) = toFn b := by rw [← toFn_vmv, hxs]
  have hmap := fun j => cgnrVecH_map R A M b x0 j
  have h := cgnr_cmodel_optimal (linOf A) AT (linOf M) (dotH R n) (toFn b) (toFn x0)
    (linOf_adjH R A) (linOf_herm R hM) (dotH_def R) hinj (toFn xs) hx k
    (fun j hj => by rw [← hmap j]; exact hnb j hj)
  rw [← hmap k] at h
  refine ⟨h.1, fun y hy => ?_⟩
  rw [normSqH_eq, normSqH_eq, toFn_subH, toFn_subH, toFn_vmv, toFn_vmv]
  exact h.2 (toFn y) hy

/-- **CGNE, complex executable model**: `Aᴴ` injective, `M` Hermitian ⇒ the `k`-th iterate lies in
`x₀ + Aᴴ K_k(M A Aᴴ, M r₀)` and minimises the 2-norm of the error `x* − x` (`x* = x₀ + Aᴴ y*`) over it -/
theorem cgne_hvec_optimal (hM : IsHerm M)
    (hinj : ∀ v : Fin n → K, linOf (vctrans star A) v = 0 → v = 0)
    (ys : Fin n → K)
    (hys : linOf A (linOf (vctrans star A) ys) = toFn b - linOf A (toFn x0)) (k : Nat)
    (hnb : ∀ j, j < k → (cgneVecH A M b x0 j).zr ≠ 0) :
    let AT := linOf (vctrans star A)
    (∃ y, y ∈ CPCG.kry (linOf A ∘ₗ AT) (linOf M) (dotH R n) (toFn b - linOf A (toFn x0)) 0 k ∧
      toFn (cgneVecH A M b x0 k).x = toFn x0 + AT y) ∧
    ∀ y, y ∈ CPCG.kry (linOf A ∘ₗ AT) (linOf M) (dotH R n) (toFn b - linOf A (toFn x0)) 0 k →
      (dotH R n).en ((toFn x0 + AT ys) - toFn (cgneVecH A M b x0 k).x) ≤
        (dotH R n).en ((toFn x0 + AT ys) - (toFn x0 + AT y)) := by
  intro AT
  have hmap := fun j => cgneVecH_map R A M b x0 j
  have h := cgne_cmodel_optimal (linOf A) AT (linOf M) (dotH R n) (toFn b) (toFn x0)
    (linOf_adjH R A) (linOf_herm R hM) (dotH_def R) hinj ys hys k
    (fun j hj => by rw [← hmap j]; exact hnb j hj)
  rw [← hmap k] at h
  exact h

/-- **CR, complex executable model, preconditioner commuting with `A`**: `A` Hermitian positive definite, `M`
Hermitian with `M A = A M` (`M = I`, `c I + d A`, …) ⇒ the `k`-th iterate minimises the 2-norm of the residual over
`x₀ + K_k(MA, M r₀)` -/
theorem cr_hvec_optimal (hA : IsHerm A) (hM : IsHerm M) (hpd : IsHPD R A)
    (hcomm : ∀ v : Fin n → K, linOf M (linOf A v) = linOf A (linOf M v))
    (xs : Vector K n) (hxs : vmv A xs = b) (k : Nat)
    (hnb : ∀ j, j < k → (crVecH A M b x0 j).rAz ≠ 0) :
    toFn (crVecH A M b x0 k).x - toFn x0 ∈ CPCG.kry (linOf A) (linOf M) (dotH R n) (toFn b) (toFn x0) k ∧
    ∀ y : Vector K n, toFn y - toFn x0 ∈ CPCG.kry (linOf A) (linOf M) (dotH R n) (toFn b) (toFn x0) k →
      normSqH R (subV b (vmv A (crVecH A M b x0 k).x)) ≤ normSqH R (subV b (vmv A y)) := by
  have hx : linOf A (toFn xs) = toFn b := by rw [← toFn_vmv, hxs]
  have hH := hyp_ofH R hA hM hpd
  have hinj : ∀ v : Fin n → K, linOf A v = 0 → v = 0 := by
    intro v h; exact hH.pd v (by rw [h]; simp)
  have hmap := fun j => crVecH_map R A M b x0 j
  have h := cr_cmodel_optimal (linOf A) (linOf (vctrans star A)) (linOf M) (dotH R n) (toFn b) (toFn x0)
    hH.symA hH.psd hH.symM hcomm (dotH_def R) hinj (toFn xs) hx k
    (fun j hj => by rw [← hmap j]; exact hnb j hj)
  rw [← hmap k] at h
  refine ⟨h.1, fun y hy => ?_⟩
  rw [normSqH_eq, normSqH_eq, toFn_subH, toFn_subH, toFn_vmv, toFn_vmv]
  exact h.2 (toFn y) hy

theorem linOf_vone' : linOf (vone (K := K) (n := n)) = LinearMap.id := by
  have : matOf (vone (K := K) (n := n)) = 1 := by
    funext i j; simp [matOf, vone, Matrix.one_apply, Fin.ext_iff]
  unfold linOf; rw [this, Matrix.mulVecLin_one]

theorem vone_herm : IsHerm (vone (K := K) (n := n)) := by
  intro i j
  simp only [vone, Fin.getElem_fin, Vector.getElem_ofFn]
  by_cases h : i = j
  · subst h; simp
  · have h' : ¬ j = i := fun e => h e.symm
    simp [Fin.ext_iff] at h h'
    simp [h, h', Fin.ext_iff]

/-- **CR without preconditioner** (`M` = the identity matrix the driver receives) -/
theorem cr_hvec_optimal_noprec (hA : IsHerm A) (hpd : IsHPD R A)
    (xs : Vector K n) (hxs : vmv A xs = b) (k : Nat)
    (hnb : ∀ j, j < k → (crVecH A vone b x0 j).rAz ≠ 0) :
    toFn (crVecH A vone b x0 k).x - toFn x0 ∈ CPCG.kry (linOf A) LinearMap.id (dotH R n) (toFn b) (toFn x0) k ∧
    ∀ y : Vector K n, toFn y - toFn x0 ∈ CPCG.kry (linOf A) LinearMap.id (dotH R n) (toFn b) (toFn x0) k →
      normSqH R (subV b (vmv A (crVecH A vone b x0 k).x)) ≤ normSqH R (subV b (vmv A y)) := by
  have h := cr_hvec_optimal R A vone b x0 hA vone_herm hpd (by intro v; rw [linOf_vone']; rfl) xs hxs k hnb
  rw [linOf_vone'] at h
  exact h

/-- **steepest descent, complex executable model**: from a consistent state (`r = b − A x`, `z = M r`,
`rz = ⟨r, z⟩`; `A`, `M` Hermitian) one step of the model of `_steepest_descent.py` minimises the energy norm of the
error on the complex line `x + t z` -/
theorem sd_hvec_step_optimal (hA : IsHerm A) (hM : IsHerm M) (hpd : IsHPD R A) (xs : Vector K n)
    (hxs : vmv A xs = b)
    (s : SdSt K (Vector K n)) (hr : s.r = subV b (vmv A s.x)) (hz : s.z = vmv M s.r) (hrz : s.rz = vdot star s.r s.z)
    (hden : vdot star s.z (vmv A s.z) ≠ 0) (t : K) :
    energyH R A (subV xs (sdStep ov b s).x) ≤
      energyH R A (subV xs (Vector.zipWith (· + ·) s.x (s.z.map (t * ·)))) := by
  have hx : linOf A (toFn xs) = toFn b := by rw [← toFn_vmv, hxs]
  have hH := hyp_ofH R hA hM hpd
  have h := sd_cstep_optimal (linOf A) (linOf (vctrans star A)) (linOf M) (dotH R n) (toFn b)
    hH.symA hH.psd hH.symM (toFn xs) hx (mpSd toFn s)
    (by simp only [mpSd]; rw [hr, toFn_subH, toFn_vmv])
    (by simp only [mpSd]; rw [hz, toFn_vmv])
    (by simp only [mpSd]; rw [hrz, vdot_conj_eq]; rfl)
    (by simp only [mpSd]; rw [vdot_conj_eq, toFn_vmv] at hden; exact hden) t
  rw [energyH_eq, energyH_eq, toFn_subH, toFn_subH, toFn_add, toFn_smul]
  have e1 : toFn (sdStep ov b s).x = (sdStep (modOpsH R A M) (toFn b) (mpSd toFn s)).x := by
    rw [← sdStep_homH (opsHomH_vec R A M)]; rfl
  rw [e1]
  exact h

/-- **minimal residual, complex executable model**: from a state with `z = M (b − A x)` one step of the model of
`_minimal_residual.py` minimises the 2-norm of the preconditioned residual on the complex line `x + t z` -/
theorem mr_hvec_step_optimal (s : MrSt K (Vector K n)) (hz : s.z = vmv M (subV b (vmv A s.x)))
    (hden : vdot star (vmv M (vmv A s.z)) (vmv M (vmv A s.z)) ≠ 0) (t : K) :
    normSqH R (vmv M (subV b (vmv A (mrStep ov b s).x))) ≤
      normSqH R (vmv M (subV b (vmv A (Vector.zipWith (· + ·) s.x (s.z.map (t * ·)))))) := by
  have h := mr_cstep_optimal (linOf A) (linOf (vctrans star A)) (linOf M) (dotH R n) (toFn b)
    (mpMr toFn s)
    (by simp only [mpMr]; rw [hz, toFn_vmv, toFn_subH, toFn_vmv])
    (by simp only [mpMr]; rw [vdot_conj_eq, toFn_vmv, toFn_vmv] at hden; exact hden) t
  rw [normSqH_eq, normSqH_eq, toFn_vmv, toFn_vmv, toFn_subH, toFn_subH, toFn_vmv, toFn_vmv, toFn_add, toFn_smul]
  have e1 : toFn (mrStep ov b s).x = (mrStep (modOpsH R A M) (toFn b) (mpMr toFn s)).x := by
    rw [← mrStep_homH (opsHomH_vec R A M)]; rfl
  rw [e1]
  exact h

end final

#print axioms cg_hvec_optimal
#print axioms cgnr_hvec_optimal
#print axioms cgne_hvec_optimal
#print axioms cr_hvec_optimal
#print axioms cr_hvec_optimal_noprec
#print axioms sd_hvec_step_optimal
#print axioms mr_hvec_step_optimal
end PyamgV.C07.CH
