import PyamgV.Proofs.GsSweep

/-! PyamgV (C05 definiteness, C02 strict form): a Gauss–Seidel sweep that visits every row of a
symmetric positive semidefinite matrix with positive diagonal *strictly* decreases the energy of
the error unless the residual already vanishes. With `precond_pd` this makes the V-cycle
preconditioner positive definite, not just semidefinite. -/
namespace PyamgV

variable {K : Type*} [Field K] [LinearOrder K] [IsStrictOrderedRing K] [DecidableEq K]

theorem EForm.en_sub_eq {V : Type*} [AddCommGroup V] [Module K V] (E : EForm K V) (e d : V)
    (h : E.a (e - d) d = 0) : E.en e = E.en (e - d) + E.en d := by
  unfold EForm.en
  have : e = (e - d) + d := by abel
  conv_lhs => rw [this]
  simp only [map_add, LinearMap.add_apply]
  rw [h, E.symm d (e - d), h]; ring

/-- residual of row `i` at `x` -/
def resid (rows : Nat → Row K) (b x : Nat → K) (i : Nat) : K := b i - rowDot (rows i) x

/-- the row update in closed form: `x' = x + (resid_i / d) e_i` -/
theorem gsRowFn_eq (i : Nat) (row : Row K) (b x : Nat → K) (d : K) (hd : HasDiag i row d)
    (hd0 : d ≠ 0) :
    gsRowFn i row b x = x + ((b i - rowDot row x) / d) • Pi.single i 1 := by
  obtain ⟨h1, h2⟩ := rowScan_spec i row x (0, 0)
  have hdiag : (rowScan i row x).2 = d := by
    unfold rowScan; rw [h2]; unfold HasDiag at hd; rw [hd]; simp
  have hrs : (rowScan i row x).1 =
      ((row.filter (fun cv => cv.1 ≠ i)).map (fun cv => cv.2 * x cv.1)).sum := by
    unfold rowScan; rw [h1]; simp
  unfold gsRowFn
  rw [show rowScan i row x = ((rowScan i row x).1, (rowScan i row x).2) from rfl]
  simp only [hdiag, hd0, if_false]
  rw [hrs, rowDot_split i row x d hd]
  funext j
  by_cases hj : j = i
  · subst hj
    simp only [Function.update_self, Pi.add_apply, Pi.smul_apply, Pi.single_eq_same, smul_eq_mul]
    field_simp
    ring
  · simp [Function.update_of_ne hj, Pi.single_apply, hj]

theorem gsRow_energy_eq (n : Nat) (rows : Nat → Row K) (hsym) (hpsd) (i : Nat) (hi : i < n)
    (d : K) (hd : HasDiag i (rows i) d) (hd0 : d ≠ 0) (b x xs : Nat → K)
    (hxs : ∀ j, j < n → csrOp n rows xs j = b j) :
    (energy n rows hsym hpsd).en (xs - x) =
      (energy n rows hsym hpsd).en (xs - gsRowFn i (rows i) b x) +
        (resid rows b x i) * (resid rows b x i) / d := by
  have hform := gsRowFn_eq i (rows i) b x d hd hd0
  have hres := gsRow_residual_zero i (rows i) b x d hd hd0
  set c := (b i - rowDot (rows i) x) / d with hc
  have key : xs - gsRowFn i (rows i) b x = (xs - x) - c • Pi.single i 1 := by rw [hform]; abel
  have horth : (energy n rows hsym hpsd).a ((xs - x) - c • Pi.single i 1) (c • Pi.single i 1) = 0 := by
    rw [← key]
    show (euc K n).a (csrOp n rows (xs - gsRowFn i (rows i) b x)) (c • Pi.single i 1) = 0
    rw [euc_single n i hi, map_sub]
    simp only [Pi.sub_apply, csrOp_apply n rows _ i hi]
    have hxi : rowDot (rows i) xs = b i := by
      have := hxs i hi; rwa [csrOp_apply n rows xs i hi] at this
    rw [hxi, hres]; ring
  rw [key, (energy n rows hsym hpsd).en_sub_eq (xs - x) (c • Pi.single i 1) horth]
  congr 1
  -- energy of c e_i is c² d
  unfold EForm.en
  show (euc K n).a (csrOp n rows (c • Pi.single i 1)) (c • Pi.single i 1) = _
  rw [euc_single n i hi]
  simp only [csrOp_apply n rows _ i hi, rowDot_smul]
  have hdiag : rowDot (rows i) (Pi.single i (1 : K)) = d := by
    rw [rowDot_split i (rows i) _ d hd]
    have : ((List.filter (fun cv => cv.1 ≠ i) (rows i)).map
        (fun cv => cv.2 * (Pi.single i (1 : K) : Nat → K) cv.1)).sum = 0 := by
      apply List.sum_eq_zero
      intro v hv
      rw [List.mem_map] at hv
      obtain ⟨cv, hcv, rfl⟩ := hv
      have := (List.mem_filter.1 hcv).2
      have hne : cv.1 ≠ i := by simpa using this
      simp [Pi.single_apply, hne]
    rw [this]; simp
  rw [hdiag]
  unfold resid
  rw [hc]
  field_simp

/-- a row whose residual vanishes is left alone -/
theorem gsRow_fixed (i : Nat) (rows : Nat → Row K) (b x : Nat → K) (d : K)
    (hd : HasDiag i (rows i) d) (hd0 : d ≠ 0) (h : resid rows b x i = 0) :
    gsRowFn i (rows i) b x = x := by
  rw [gsRowFn_eq i (rows i) b x d hd hd0]
  unfold resid at h
  rw [h]; simp

/-- **strict decrease** -/
theorem gsSweep_strict (n : Nat) (rows : Nat → Row K) (hsym) (hpsd)
    (diag : Nat → K) (hdiag : ∀ i, i < n → HasDiag i (rows i) (diag i))
    (hpos : ∀ i, i < n → 0 < diag i) (b xs : Nat → K) (hb : csrOp n rows xs = b) :
    ∀ (order : List Nat), (∀ i ∈ order, i < n) → ∀ x : Nat → K,
      (∃ i ∈ order, resid rows b x i ≠ 0) →
      (energy n rows hsym hpsd).en (xs - gsSweepFn rows b order x) <
        (energy n rows hsym hpsd).en (xs - x) := by
  have hxs : ∀ j, j < n → csrOp n rows xs j = b j := fun j _ => by rw [hb]
  intro order
  induction order with
  | nil => intro _ x ⟨i, hi, _⟩; simp at hi
  | cons i rest ih =>
    intro horder x hex
    have hi : i < n := horder i (by simp)
    have hd0 : diag i ≠ 0 := ne_of_gt (hpos i hi)
    have hrest : ∀ j ∈ rest, j < n := fun j hj => horder j (by simp [hj])
    have hne := gsSweep_nonexp n rows hsym hpsd diag hdiag rest hrest
      (gsRowFn i (rows i) b x) b xs hb
    have heq := gsRow_energy_eq n rows hsym hpsd i hi (diag i) (hdiag i hi) hd0 b x xs hxs
    have hstep : gsSweepFn rows b (i :: rest) x = gsSweepFn rows b rest (gsRowFn i (rows i) b x) := rfl
    rw [hstep]
    by_cases hri : resid rows b x i = 0
    · -- nothing happens at row i; the non-zero residual is met later
      have hfix := gsRow_fixed i rows b x (diag i) (hdiag i hi) hd0 hri
      rw [hfix]
      obtain ⟨j, hj, hjr⟩ := hex
      rcases List.mem_cons.1 hj with rfl | hj'
      · exact absurd hri hjr
      · exact ih hrest x ⟨j, hj', hjr⟩
    · have hsq : 0 < resid rows b x i * resid rows b x i / diag i :=
        div_pos (mul_self_pos.2 hri) (hpos i hi)
      have : (energy n rows hsym hpsd).en (xs - gsRowFn i (rows i) b x) <
          (energy n rows hsym hpsd).en (xs - x) := by rw [heq]; linarith
      exact lt_of_le_of_lt hne this

/-- a full sweep strictly reduces every error of non-zero energy -/
theorem gsSweep_strict_full (n : Nat) (rows : Nat → Row K) (hsym) (hpsd)
    (diag : Nat → K) (hdiag : ∀ i, i < n → HasDiag i (rows i) (diag i))
    (hpos : ∀ i, i < n → 0 < diag i) (b xs : Nat → K) (hb : csrOp n rows xs = b)
    (order : List Nat) (horder : ∀ i ∈ order, i < n) (hcover : ∀ i, i < n → i ∈ order)
    (x : Nat → K) (hne : (energy n rows hsym hpsd).en (xs - x) ≠ 0) :
    (energy n rows hsym hpsd).en (xs - gsSweepFn rows b order x) <
      (energy n rows hsym hpsd).en (xs - x) := by
  apply gsSweep_strict n rows hsym hpsd diag hdiag hpos b xs hb order horder x
  apply Classical.byContradiction
  intro hall
  apply hne
  -- all residuals vanish, so A (xs - x) = 0 on the first n coordinates
  have hz : ∀ i, i < n → csrOp n rows (xs - x) i = 0 := by
    intro i hi
    have h0 : resid rows b x i = 0 := by
      apply Classical.byContradiction
      intro h; exact hall ⟨i, hcover i hi, h⟩
    unfold resid at h0
    rw [map_sub]
    simp only [Pi.sub_apply, csrOp_apply n rows _ i hi]
    have hxi : rowDot (rows i) xs = b i := by
      have : csrOp n rows xs i = b i := by rw [hb]
      rwa [csrOp_apply n rows xs i hi] at this
    rw [hxi]; exact h0
  show (euc K n).a (csrOp n rows (xs - x)) (xs - x) = 0
  rw [euc_apply]
  apply Finset.sum_eq_zero
  intro i hi
  rw [hz i (Finset.mem_range.1 hi)]; ring

#print axioms gsSweep_strict
#print axioms gsSweep_strict_full
end PyamgV
