import Mathlib.LinearAlgebra.Matrix.NonsingularInverse
import Mathlib.LinearAlgebra.Matrix.DotProduct
import Mathlib.Algebra.Order.BigOperators.Group.Finset
import Mathlib.Tactic.Linarith
import Mathlib.Tactic.Ring

/-! PyamgV (C16): the linear algebra behind the direct coarse solvers, for square matrices over an
ordered field (ℚ, ℝ).

* `Penrose A X`                        the four Penrose equations (real form)
* `penrose_least_squares`              `X b` minimises `‖A y − b‖²`
* `penrose_min_norm`                   among the minimisers `X b` has the smallest `‖y‖²`
* `inverse_solution_unique`            `A X = 1`: `X b` is *the* solution of `A x = b`
* `compress_solves`                    the `splu` compression `x = Map (Mapᵀ A Map)⁻¹ Mapᵀ b` for a
                                       selection matrix `Map = I[:, e]` -/
namespace PyamgV.C16LA
open Matrix
set_option linter.unusedSectionVars false

section ordered
variable {K : Type*} [Field K] [LinearOrder K] [IsStrictOrderedRing K] {n : Type*} [Fintype n] [DecidableEq n]

/-- the Moore-Penrose equations for a real square matrix -/
structure Penrose (A X : Matrix n n K) : Prop where
  axa : A * X * A = A
  xax : X * A * X = X
  ax : (A * X)ᵀ = A * X
  xa : (X * A)ᵀ = X * A

theorem dot_self_nonneg (v : n → K) : 0 ≤ v ⬝ᵥ v :=
  Finset.sum_nonneg (fun i _ => mul_self_nonneg (v i))

theorem dot_add_self (u v : n → K) : (u + v) ⬝ᵥ (u + v) = u ⬝ᵥ u + 2 * (u ⬝ᵥ v) + v ⬝ᵥ v := by
  rw [add_dotProduct, dotProduct_add, dotProduct_add, dotProduct_comm v u]; ring

/-- `(A z) · r = z · (Aᵀ r)` -/
theorem mulVec_dot (A : Matrix n n K) (z r : n → K) : (A *ᵥ z) ⬝ᵥ r = z ⬝ᵥ (Aᵀ *ᵥ r) := by
  rw [dotProduct_comm, dotProduct_mulVec, ← mulVec_transpose, dotProduct_comm]

/-- the residual of `X b` is orthogonal to the range of `A`: `Aᵀ (A X b − b) = 0` -/
theorem penrose_normal (A X : Matrix n n K) (h : Penrose A X) (b : n → K) :
    Aᵀ *ᵥ (A *ᵥ (X *ᵥ b) - b) = 0 := by
  have h1 : Aᵀ * (A * X) = Aᵀ := by
    have : Aᵀ * (A * X)ᵀ = (A * X * A)ᵀ := by rw [transpose_mul (A * X) A]
    rw [h.ax, h.axa] at this
    exact this
  rw [mulVec_sub, mulVec_mulVec, mulVec_mulVec, Matrix.mul_assoc, h1, sub_self]

/-- `‖A y − b‖² = ‖A (y − X b)‖² + ‖A X b − b‖²` -/
theorem penrose_pythagoras (A X : Matrix n n K) (h : Penrose A X) (b y : n → K) :
    (A *ᵥ y - b) ⬝ᵥ (A *ᵥ y - b) =
      (A *ᵥ (y - X *ᵥ b)) ⬝ᵥ (A *ᵥ (y - X *ᵥ b)) + (A *ᵥ (X *ᵥ b) - b) ⬝ᵥ (A *ᵥ (X *ᵥ b) - b) := by
  have hsplit : A *ᵥ y - b = A *ᵥ (y - X *ᵥ b) + (A *ᵥ (X *ᵥ b) - b) := by
    rw [mulVec_sub]; abel
  have horth : (A *ᵥ (y - X *ᵥ b)) ⬝ᵥ (A *ᵥ (X *ᵥ b) - b) = 0 := by
    rw [mulVec_dot, penrose_normal A X h b, dotProduct_zero]
  rw [hsplit, dot_add_self, horth]; ring

/-- **least squares**: if `X` satisfies the Penrose equations for `A`, then `X b` minimises the
residual norm `‖A y − b‖₂` over all `y` -/
theorem penrose_least_squares (A X : Matrix n n K) (h : Penrose A X) (b y : n → K) :
    (A *ᵥ (X *ᵥ b) - b) ⬝ᵥ (A *ᵥ (X *ᵥ b) - b) ≤ (A *ᵥ y - b) ⬝ᵥ (A *ᵥ y - b) := by
  rw [penrose_pythagoras A X h b y]
  have := dot_self_nonneg (A *ᵥ (y - X *ᵥ b))
  linarith

/-- **minimum norm**: every other minimiser `y` of the residual is at least as long as `X b` -/
theorem penrose_min_norm (A X : Matrix n n K) (h : Penrose A X) (b y : n → K)
    (hy : (A *ᵥ y - b) ⬝ᵥ (A *ᵥ y - b) ≤ (A *ᵥ (X *ᵥ b) - b) ⬝ᵥ (A *ᵥ (X *ᵥ b) - b)) :
    (X *ᵥ b) ⬝ᵥ (X *ᵥ b) ≤ y ⬝ᵥ y := by
  -- A (y − X b) = 0
  have hz : A *ᵥ (y - X *ᵥ b) = 0 := by
    have hp := penrose_pythagoras A X h b y
    have hn := dot_self_nonneg (A *ᵥ (y - X *ᵥ b))
    have h0 : (A *ᵥ (y - X *ᵥ b)) ⬝ᵥ (A *ᵥ (y - X *ᵥ b)) = 0 := by linarith
    exact dotProduct_self_eq_zero.1 h0
  -- X b ⟂ (y − X b)
  have key : ∀ z : n → K, A *ᵥ z = 0 → (X *ᵥ b) ⬝ᵥ z = 0 := by
    intro z hz
    have h1 : X *ᵥ b = (X * A) *ᵥ (X *ᵥ b) := by
      rw [mulVec_mulVec, h.xax]
    rw [h1, mulVec_dot, h.xa, ← mulVec_mulVec, hz, mulVec_zero, dotProduct_zero]
  have horth : (X *ᵥ b) ⬝ᵥ (y - X *ᵥ b) = 0 := key _ hz
  have hsplit : y = X *ᵥ b + (y - X *ᵥ b) := by abel
  have hn := dot_self_nonneg (y - X *ᵥ b)
  calc (X *ᵥ b) ⬝ᵥ (X *ᵥ b)
      ≤ (X *ᵥ b) ⬝ᵥ (X *ᵥ b) + 2 * ((X *ᵥ b) ⬝ᵥ (y - X *ᵥ b)) + (y - X *ᵥ b) ⬝ᵥ (y - X *ᵥ b) := by
        rw [horth]; linarith
    _ = y ⬝ᵥ y := by rw [← dot_add_self, ← hsplit]

/-- an inverse satisfies the Penrose equations (so the pseudo-inverse branch gives the ordinary
solution on nonsingular matrices) -/
theorem penrose_of_inverse (A X : Matrix n n K) (h : A * X = 1) : Penrose A X := by
  have h' : X * A = 1 := (mul_eq_one_comm).1 h
  refine ⟨?_, ?_, ?_, ?_⟩
  · rw [h, Matrix.one_mul]
  · rw [h', Matrix.one_mul]
  · rw [h, transpose_one]
  · rw [h', transpose_one]

end ordered

section field
variable {K : Type*} [Field K] {n r : Type*} [Fintype n] [DecidableEq n] [Fintype r] [DecidableEq r]

/-- **direct solve**: with `A X = 1`, `X b` solves `A x = b` and is the only solution -/
theorem inverse_solution_unique (A X : Matrix n n K) (h : A * X = 1) (b : n → K) :
    A *ᵥ (X *ᵥ b) = b ∧ ∀ y, A *ᵥ y = b → y = X *ᵥ b := by
  have h' : X * A = 1 := (mul_eq_one_comm).1 h
  refine ⟨by rw [mulVec_mulVec, h, one_mulVec], ?_⟩
  intro y hy
  rw [← hy, mulVec_mulVec, h', one_mulVec]

/-- the selection matrix `Map = I[:, e]` of the `splu` branch -/
def sel (e : r → n) : Matrix n r K := fun j k => if e k = j then 1 else 0

theorem mul_sel (A : Matrix n n K) (e : r → n) : A * sel e = A.submatrix id e := by
  ext i l
  simp [Matrix.mul_apply, sel]

theorem selT_mul (B : Matrix n r K) (e : r → n) : (sel e)ᵀ * B = B.submatrix e id := by
  ext k l
  simp [Matrix.mul_apply, sel, Matrix.transpose_apply]

/-- `Mapᵀ A Map = A[e, e]` -/
theorem compressed_eq (A : Matrix n n K) (e : r → n) : (sel e)ᵀ * A * sel e = A.submatrix e e := by
  rw [Matrix.mul_assoc, mul_sel, selT_mul]; rfl

/-- `(Mapᵀ b)_k = b_{e k}` -/
theorem selT_mulVec (e : r → n) (b : n → K) : (sel e)ᵀ *ᵥ b = b ∘ e := by
  funext k
  simp [Matrix.mulVec, dotProduct, sel, Matrix.transpose_apply]

/-- `Map y` vanishes outside the selected indices -/
theorem sel_mulVec_off (e : r → n) (y : r → K) (j : n) (hj : ∀ k, e k ≠ j) : (sel e *ᵥ y) j = 0 := by
  simp [Matrix.mulVec, dotProduct, sel, hj]

/-- `Map y` carries `y` on the selected indices -/
theorem sel_mulVec_on (e : r → n) (he : Function.Injective e) (y : r → K) (k : r) : (sel e *ᵥ y) (e k) = y k := by
  have : ∀ l, (if e l = e k then (1 : K) else 0) = if l = k then 1 else 0 := by
    intro l; by_cases h : l = k
    · simp [h]
    · have : e l ≠ e k := fun h' => h (he h'); simp [h, this]
  simp [Matrix.mulVec, dotProduct, sel, this]

/-- **the `splu` compression**: with `y` the solution of the compressed system `A[e,e] y = b[e]`,
`x = Map y` (i) satisfies every equation of a selected row, (ii) is zero outside the selection and
(iii) gives `0` in every identically zero row; no assumption on `e`. -/
theorem compress_solves (A : Matrix n n K) (e : r → n) (b : n → K) (y : r → K)
    (hy : A.submatrix e e *ᵥ y = b ∘ e) :
    (∀ k, (A *ᵥ (sel e *ᵥ y)) (e k) = b (e k)) ∧
    (∀ j, (∀ k, e k ≠ j) → (sel e *ᵥ y) j = 0) ∧
    (∀ i, (∀ j, A i j = 0) → (A *ᵥ (sel e *ᵥ y)) i = 0) := by
  refine ⟨?_, fun j hj => sel_mulVec_off e y j hj, ?_⟩
  · intro k
    have h1 : (sel e)ᵀ *ᵥ (A *ᵥ (sel e *ᵥ y)) = b ∘ e := by
      rw [mulVec_mulVec, mulVec_mulVec, compressed_eq, hy]
    have h2 := congrFun h1 k
    rw [selT_mulVec] at h2
    exact h2
  · intro i hi
    simp [Matrix.mulVec, dotProduct, hi]

/-- when the rows outside the selection are identically zero and `b` vanishes there, `x` solves the
whole system (the situation of a hierarchy with zero rows *and* columns `i`) -/
theorem compress_solves_all (A : Matrix n n K) (e : r → n) (b : n → K) (y : r → K)
    (hy : A.submatrix e e *ᵥ y = b ∘ e)
    (hz : ∀ i, (∀ k, e k ≠ i) → (∀ j, A i j = 0) ∧ b i = 0) :
    A *ᵥ (sel e *ᵥ y) = b := by
  obtain ⟨h1, _, h3⟩ := compress_solves A e b y hy
  funext i
  by_cases hi : ∃ k, e k = i
  · obtain ⟨k, rfl⟩ := hi; exact h1 k
  · have hi' : ∀ k, e k ≠ i := fun k hk => hi ⟨k, hk⟩
    rw [h3 i (hz i hi').1, (hz i hi').2]

end field

end PyamgV.C16LA
