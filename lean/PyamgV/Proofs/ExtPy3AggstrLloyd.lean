import PyamgV.Proofs.ExtPy3AggstrBase
/-! PyamgV (extension E59, property C12): theorems about the definitions GENERATED from the working tree by
`harness/py2lean3_aggstr.py` for the Python wrappers `lloyd_aggregation`, `balanced_lloyd_aggregation`,
`standard_aggregation`, `naive_aggregation` (pyamg/aggregation/aggregate.py), with the numerical work abstracted as
events (`Model/ExtPy2Rt.lean`, `Model/ExtPy3AggstrRt.lean`).

Lloyd wrappers, on the finite grid `lGrid` (both wrappers x every measure + an unknown one x real / complex C x empty /
non-empty data x four (format, n, ratio) triples, CSR and CSC): the run of the generated definition is EXACTLY the specification
`lExpected` -- validation, the documented measure table applied to `C.data`, the real part taken AFTER the measure
(repair 30b9508), positivity check, graph `C.__class__((data, indices, indptr), shape=C.shape)`, clustering call with
`naggs = int(min(max(ratio n, 1), n))`, assembly `coo_array((data, (row, col)), shape=(n, naggs)).tocsr()`. -/
open PyamgV.ExtPy PyamgV.ExtPy2 PyamgV.ExtPy3Aggstr PyamgV.Generated.PyLogic3_aggstr
namespace PyamgV.ExtPy3AggstrP

inductive Measure where
  | none | abs | inv | unit | min | bogus
deriving Repr, DecidableEq

def Measure.val : Measure → PyVal
  | .none => PyVal.none
  | .abs => .str "abs"
  | .inv => .str "inv"
  | .unit => .str "unit"
  | .min => .str "min"
  | .bogus => .str "bogus"

/-- a scenario of the Lloyd wrappers -/
structure LSc where
  bal : Bool
  m : Measure
  cplx : Bool
  nnz : Int
  fmt : String
  n : Int
  ratio : Rat
deriving Repr

def dataObjs : List String := ["C.data", "d_abs", "d_inv", "d_unit", "d_min", "d_real"]

def lWorld (sc : LSc) : World :=
  { heap := [("C", [("format", .str sc.fmt), ("shape", .tuple [.int sc.n, .int sc.n]), ("nnz", .int sc.nnz),
                    ("dtype", .obj (if sc.cplx then "complex" else "float64")), ("__class__", .obj "csr_array")])]
      ++ dataObjs.map (fun d => (d, [("__len__", PyVal.int sc.nnz)]))
      ++ [("row", [("__len__", .int sc.n)]), ("nz[0]", [("__len__", .int sc.n)])] }

def lScript (sc : LSc) : List (String × List PyVal) :=
  [("sparse.issparse", [.bool true]), ("np.abs", [.obj "d_abs"]), ("<abs>", [.obj "absd"]), ("<div>", [.obj "d_inv"]),
   ("np.ones_like", [.obj "ones"]), ("ones.astype", [.obj "d_unit"]), ("<sub>", [.obj "d_min"]),
   ("np.real", [.obj "re"]), ("np.ascontiguousarray", [.obj "d_real"]),
   ("C.data.min", [.float (1/2), .float (1/2)]), ("d_abs.min", [.float 0]), ("d_inv.min", [.float (1/4)]),
   ("d_unit.min", [.float 1]), ("d_min.min", [.float 0]), ("d_real.min", [.float 0]),
   (if sc.bal then "balanced_lloyd_cluster" else "lloyd_cluster", [.tuple [.obj "clusters", .obj "centers"]]),
   ("<lt>", [.obj "mask_lt"]), ("np.any", [.bool false]), ("clusters.min", [.int 0]), ("<ge>", [.obj "mask_ge"]),
   ("mask_ge.nonzero", [.obj "nz"]), ("nz[0].astype", [.obj "row"]), ("<getitem>", [.obj "col"]),
   ("np.ones", [.obj "ones1"]), ("sparse.coo_array", [.obj "coo"]), ("coo.tocsr", [.obj "AggOp"])]

def lRun (sc : LSc) : Except String PyVal × List PyVal :=
  outcome (PyM2.exec
    (if sc.bal then
      aggregate_balanced_lloyd_aggregation (lWorld sc) (.obj "C") (.float sc.ratio) sc.m.val (.int 5) (.int 5) .none .none
     else aggregate_lloyd_aggregation (lWorld sc) (.obj "C") (.float sc.ratio) sc.m.val (.int 5))
    { trace := [], script := lScript sc })

/-! ### the specification -/

/-- the documented measure table: (events applied to `C.data`, the resulting data object) -/
def measureEvents (sc : LSc) : List PyVal × String :=
  match sc.m with
  | .none => ([], "C.data")
  | .abs => ([callEv "np.abs" [.obj "C.data"] []], "d_abs")
  | .inv => ([unEv "abs" (.obj "C.data"), binEv "div" (.float 1) (.obj "absd")], "d_inv")
  | .unit => ([callEv "np.ones_like" [.obj "C.data"] [], callEv "ones.astype" [.obj "float"] []], "d_unit")
  | .min => if sc.nnz > 0 then ([callEv "C.data.min" [] [], binEv "sub" (.obj "C.data") (.float (1/2))], "d_min")
            else ([], "C.data")
  | .bogus => ([], "")

/-- the real part of a complex strength matrix, taken of the MEASURED data `d` -/
def realEvents (cplx : Bool) (d : String) : List PyVal × String :=
  if cplx then ([callEv "np.real" [.obj d] [], callEv "np.ascontiguousarray" [.obj "re"] []], "d_real") else ([], d)

/-- `int(min(max(ratio * n, 1), n))` for `ratio * n >= 0` -/
def naggsSpec (ratio : Rat) (n : Int) : Int := min (max (ratio * (n : Rat)).floor 1) n

def issparseEv : PyVal := callEv "sparse.issparse" [.obj "C"] []

/-- the data object handed to the clustering routine -/
def finalData (sc : LSc) : String := (realEvents sc.cplx (measureEvents sc).2).2

/-- the row-index object of the assembly: `lloyd_aggregation` casts it to the index type of C -/
def rowObj (sc : LSc) : String := if sc.bal then "nz[0]" else "row"

/-- the call that assembles AggOp, with its EXPLICIT shape -/
def aggOpEv (sc : LSc) : PyVal :=
  callEv "sparse.coo_array" [.tuple [.obj "ones1", .tuple [.obj (rowObj sc), .obj "col"]]]
    [("shape", .tuple [.int sc.n, .int (naggsSpec sc.ratio sc.n)])]

/-- validation, measure, real part, positivity check -/
def lHead (sc : LSc) : List PyVal :=
  [issparseEv] ++ (measureEvents sc).1 ++ (realEvents sc.cplx (measureEvents sc).2).1
    ++ (if sc.nnz > 0 then [callEv (finalData sc ++ ".min") [] []] else [])

/-- graph construction, clustering, warnings tests, assembly -/
def lTail (sc : LSc) : List PyVal :=
  [callEv "csr_array" [.tuple [.obj (finalData sc), .obj "C.indices", .obj "C.indptr"]]
      [("shape", .tuple [.int sc.n, .int sc.n])],
   callEv (if sc.bal then "balanced_lloyd_cluster" else "lloyd_cluster")
      [.obj ("#" ++ toString (lHead sc).length), .int (naggsSpec sc.ratio sc.n)]
      ([("maxiter", .int 5)] ++ (if sc.bal then [("rebalance_iters", .int 5)] else [])),
   binEv "lt" (.obj "clusters") (.int 0), callEv "np.any" [.obj "mask_lt"] [], callEv "clusters.min" [] [],
   binEv "ge" (.obj "clusters") (.int 0), callEv "mask_ge.nonzero" [] []]
  ++ (if sc.bal then [] else [callEv "nz[0].astype" [.obj "C.indices.dtype"] []])
  ++ [getEv (.obj "clusters") (.obj (rowObj sc)),
      callEv "np.ones" [.int sc.n] [("dtype", .obj "np.int32")],
      aggOpEv sc,
      callEv "coo.tocsr" [] []]

def lExpected (sc : LSc) : Except String PyVal × List PyVal :=
  if sc.m = .bogus then (.error "ValueError", [issparseEv])
  else (.ok (.tuple [.obj "AggOp", .obj "centers"]), lHead sc ++ lTail sc)

/-! ### the grid -/

def lGrid : List LSc :=
  bools.flatMap fun bal => [Measure.none, .abs, .inv, .unit, .min, .bogus].flatMap fun m => bools.flatMap fun cplx =>
  [(0 : Int), 3].flatMap fun nnz =>
  [("csr", (8 : Int), (1/2 : Rat)), ("csc", 8, 1/16), ("csc", 5, 1/4), ("csr", 4, 1)].map fun fnr =>
    { bal := bal, m := m, cplx := cplx, nnz := nnz, fmt := fnr.1, n := fnr.2.1, ratio := fnr.2.2 }

set_option maxRecDepth 100000 in
theorem lGrid_eq : lGrid.map lRun = lGrid.map lExpected := by kernel_rfl

/-- the generated Lloyd wrappers perform exactly the events of the specification and return `(AggOp, centers)` (or raise
`ValueError` for an unknown measure), for every scenario of the grid -/
theorem lloyd_refines_spec : ∀ sc ∈ lGrid, lRun sc = lExpected sc := List.map_inj_left.mp lGrid_eq

/-- after the validation the trace continues with EXACTLY the documented measure table applied to `C.data`, and the
real part of a complex matrix is taken AFTER it, of the measured data (`np.real(data)`, not `np.real(C.data)`) -/
theorem lloyd_measure_then_real (sc : LSc) (h : sc ∈ lGrid) (hb : sc.m ≠ .bogus) :
    ∃ tail, (lRun sc).2 = [issparseEv] ++ (measureEvents sc).1 ++ (realEvents sc.cplx (measureEvents sc).2).1 ++ tail := by
  rw [lloyd_refines_spec sc h]
  unfold lExpected lHead
  rw [if_neg hb]
  exact ⟨(if sc.nnz > 0 then [callEv (finalData sc ++ ".min") [] []] else []) ++ lTail sc, by simp only [List.append_assoc]⟩

/-- AggOp is constructed with the explicit shape `(n, naggs)` -/
theorem lloyd_aggop_shape (sc : LSc) (h : sc ∈ lGrid) (hb : sc.m ≠ .bogus) : aggOpEv sc ∈ (lRun sc).2 := by
  rw [lloyd_refines_spec sc h]
  unfold lExpected lTail
  rw [if_neg hb]
  simp

/-- an unknown measure raises `ValueError` before anything is computed -/
theorem lloyd_unknown_measure (sc : LSc) (h : sc ∈ lGrid) (hb : sc.m = .bogus) :
    lRun sc = (.error "ValueError", [issparseEv]) := by
  rw [lloyd_refines_spec sc h]
  unfold lExpected
  rw [if_pos hb]

set_option maxRecDepth 100000 in
theorem lGrid_nomut : lGrid.map (fun sc => noMutationOf ["C"] (lExpected sc).2) = lGrid.map (fun _ => true) := by kernel_rfl

/-- no event of a Lloyd wrapper (called without `pad`) mutates the argument `C` or an object reached from it
(`setitem` / `setattr` / in-place `+=`) -/
theorem lloyd_no_argument_mutation : ∀ sc ∈ lGrid, noMutationOf ["C"] (lRun sc).2 = true := by
  intro sc h
  rw [lloyd_refines_spec sc h]
  exact List.map_inj_left.mp lGrid_nomut sc h

/-! ### `balanced_lloyd_aggregation(..., pad=p, A=A)` with `measure='inv'`: the one documented in-place update -/

def padRun : Except String PyVal × List PyVal :=
  let sc : LSc := { bal := true, m := .inv, cplx := false, nnz := 3, fmt := "csr", n := 8, ratio := 1/2 }
  outcome (PyM2.exec
    (aggregate_balanced_lloyd_aggregation (lWorld sc) (.obj "C") (.float (1/2)) (.str "inv") (.int 5) (.int 5) (.float (1/2)) (.obj "A"))
    { trace := [], script := lScript sc ++ [("sparse.csr_array", [.obj "Acsr"]), ("Acsr.copy", [.obj "Epad"]), ("<iadd>", [.obj "C"])] })

/-- with `pad` the wrapper fills a COPY of `A` (`Epad = csr_array(A).copy(); Epad.data[:] = pad`) and then updates the
caller's `C` in place (`C += Epad`): the first events after the validation, the only mutation of an argument in these wrappers -/
theorem balanced_pad_events : padRun.2.take 5 =
    [issparseEv, callEv "sparse.csr_array" [.obj "A"] [], callEv "Acsr.copy" [] [],
     setEv (.obj "Epad.data") (sliceKey .none .none) (.float (1/2)), binEv "iadd" (.obj "C") (.obj "Epad")] := by
  kernel_rfl

theorem balanced_pad_mutates_only_C : noMutationOf ["A"] padRun.2 = true ∧ noMutationOf ["C"] padRun.2 = false := by
  constructor <;> kernel_rfl

/-! ### standard_aggregation / naive_aggregation -/

structure SSc where
  naive : Bool
  fmt : String
  n : Int
  m : Int
  nagg : Int
  tjmin : Int
deriving Repr

def sWorld (sc : SSc) : World :=
  { heap := [("C", [("format", .str sc.fmt), ("shape", .tuple [.int sc.n, .int sc.m])]),
             ("Tj", [("__len__", .int sc.n)]), ("Tj1", [("__len__", .int sc.n)]), ("col", [("__len__", .int 2)])] }

def sScript (sc : SSc) : List (String × List PyVal) :=
  [("sparse.issparse", [.bool true]), ("np.empty", [.obj "Tj", .obj "Cpts"]),
   (if sc.naive then "amg_core.naive_aggregation" else "amg_core.standard_aggregation", [.int sc.nagg]),
   ("<sub>", [.obj "Tj1"]), ("Tj.min", [.int sc.tjmin]), ("<ne>", [.obj "mask"]),
   ("<getitem>", [.obj "Cpts2", .obj "row", .obj "col"]), ("np.arange", [.obj "ar"]), ("np.ones", [.obj "Tx"]),
   ("sparse.csr_array", [.obj "T"]), ("sparse.coo_array", [.obj "coo"]), ("coo.tocsr", [.obj "T"])]

def sRun (sc : SSc) : Except String PyVal × List PyVal :=
  outcome (PyM2.exec
    (if sc.naive then aggregate_naive_aggregation (sWorld sc) (.obj "C") else aggregate_standard_aggregation (sWorld sc) (.obj "C"))
    { trace := [], script := sScript sc })

def i32 : List (String × PyVal) := [("dtype", .obj "np.int32")]
def ity : List (String × PyVal) := [("dtype", .obj "C.indptr.dtype")]

/-- validation; work arrays; kernel call `fn(num_rows, C.indptr, C.indices, Tj, Cpts)`; `Cpts[:num_aggregates]`;
then the assembly with the explicit shape `(num_rows, num_aggregates)` (`(num_rows, 1)` without aggregates):
CSR directly (naive: after `Tj - 1`), or through COO without the unaggregated rows when `Tj.min() == -1` (standard) -/
def sExpected (sc : SSc) : Except String PyVal × List PyVal :=
  let pre := [callEv "sparse.issparse" [.obj "C"] []]
  if sc.fmt ≠ "csr" then (.error "TypeError", pre)
  else if sc.n ≠ sc.m then (.error "ValueError", pre)
  else
    let kern := pre ++ [callEv "np.empty" [.int sc.n] ity, callEv "np.empty" [.int sc.n] ity,
      callEv (if sc.naive then "amg_core.naive_aggregation" else "amg_core.standard_aggregation")
        [.int sc.n, .obj "C.indptr", .obj "C.indices", .obj "Tj", .obj "Cpts"] [],
      getEv (.obj "Cpts") (sliceKey .none (.int sc.nagg))]
    let shape : List (String × PyVal) := [("shape", .tuple [.int sc.n, .int sc.nagg])]
    if sc.naive then
      let k2 := kern ++ [binEv "sub" (.obj "Tj") (.int 1)]
      if sc.nagg = 0 then
        (.ok (.tuple [.obj "T", .obj "Cpts2"]), k2 ++ [callEv "sparse.csr_array" [.tuple [.int sc.n, .int 1]] i32])
      else
        (.ok (.tuple [.obj "T", .obj "Cpts2"]), k2 ++ [callEv "np.arange" [.int (sc.n + 1)] ity, callEv "np.ones" [.int sc.n] i32,
          callEv "sparse.csr_array" [.tuple [.obj "Tx", .obj "Tj1", .obj "ar"]] shape])
    else if sc.nagg = 0 then
      (.ok (.tuple [.obj "T", .obj ("#" ++ toString (kern.length + 1))]),
        kern ++ [callEv "sparse.csr_array" [.tuple [.int sc.n, .int 1]] i32, callEv "np.array" [.list []] ity])
    else if sc.tjmin = -1 then
      (.ok (.tuple [.obj "T", .obj "Cpts2"]), kern ++ [callEv "Tj.min" [] [], binEv "ne" (.obj "Tj") (.int (-1)),
        callEv "np.arange" [.int sc.n] ity, getEv (.obj "ar") (.obj "mask"), getEv (.obj "Tj") (.obj "mask"),
        callEv "np.ones" [.int 2] i32,
        callEv "sparse.coo_array" [.tuple [.obj "Tx", .tuple [.obj "row", .obj "col"]]] shape, callEv "coo.tocsr" [] []])
    else
      (.ok (.tuple [.obj "T", .obj "Cpts2"]), kern ++ [callEv "Tj.min" [] [], callEv "np.arange" [.int (sc.n + 1)] ity,
        callEv "np.ones" [.int sc.n] i32, callEv "sparse.csr_array" [.tuple [.obj "Tx", .obj "Tj", .obj "ar"]] shape])

def sGrid : List SSc :=
  bools.flatMap fun naive => ["csr", "csc"].flatMap fun fmt => [((6 : Int), (6 : Int)), (6, 7), (1, 1)].flatMap fun nm =>
  [(0 : Int), 2, 6].flatMap fun nagg => [(-1 : Int), 0].map fun tjmin =>
    { naive := naive, fmt := fmt, n := nm.1, m := nm.2, nagg := nagg, tjmin := tjmin }

set_option maxRecDepth 100000 in
theorem sGrid_eq : sGrid.map sRun = sGrid.map sExpected := by kernel_rfl

/-- the generated `standard_aggregation` / `naive_aggregation` wrappers perform exactly the events of the specification
(validation of C, kernel call, assembly of AggOp with its explicit shape) on the grid -/
theorem simple_refines_spec : ∀ sc ∈ sGrid, sRun sc = sExpected sc := List.map_inj_left.mp sGrid_eq

set_option maxRecDepth 100000 in
theorem sGrid_nomut : sGrid.map (fun sc => noMutationOf ["C"] (sExpected sc).2) = sGrid.map (fun _ => true) := by kernel_rfl

/-- neither wrapper mutates its argument -/
theorem simple_no_argument_mutation : ∀ sc ∈ sGrid, noMutationOf ["C"] (sRun sc).2 = true := by
  intro sc h
  rw [simple_refines_spec sc h]
  exact List.map_inj_left.mp sGrid_nomut sc h

end PyamgV.ExtPy3AggstrP
