import PyamgV.Proofs.ExtC17R4Graph

/-! PyamgV (C17, extension E32, round 4): bounds-safety of the `Ck` models of `csr_propagate_max` and
`maximal_independent_set_k_parallel` (`Model/ExtC17R4Graph.lean`): the five private `std::vector`s of `num_rows` entries
are only indexed by row numbers and column indices.  Core Lean only. -/
namespace PyamgV.C17R4
open PyamgV.Ck PyamgV.C17

set_option linter.unusedSectionVars false
set_option linter.unusedVariables false

variable {ρ : Type} [Inhabited ρ]

/-- **`csr_propagate_max`** -/
theorem propagateMax_safe (w : WOps ρ) {n : Nat} {ap aj : Array Int} (hA : WFm (patS n ap aj) n) (ik : Array Int)
    (hik : ik.size = n) (iv : Array ρ) (hiv : iv.size = n) (okv : Array Int × Array ρ) (h1 : okv.1.size = n)
    (h2 : okv.2.size = n) :
    Safe (propagateMax w n ap aj ik iv okv) (fun o => o.1.size = n ∧ o.2.size = n) := by
  unfold propagateMax
  apply forRange_safe (fun o : Array Int × Array ρ => o.1.size = n ∧ o.2.size = n) _ _ _ _ ⟨h1, h2⟩
  intro i i0 i1 st hst
  refine Safe.bind (rd_safe ik i i0 (by rw [hik]; omega)) (fun k0 _ => ?_)
  refine Safe.bind (rd_safe iv i i0 (by rw [hiv]; omega)) (fun v0 _ => ?_)
  obtain ⟨q1, q2, hrow⟩ := row_facts hA i i0 i1
  refine Safe.bind q1 (fun s hs => ?_)
  refine Safe.bind q2 (fun e he => ?_)
  subst hs; subst he
  refine Safe.bind (P := fun _ => True) ?_ (fun km _ => ?_)
  · apply forRange_safe (fun _ => True) _ _ _ _ trivial
    intro jj j1 j2 km _
    refine Safe.bind (hrow jj j1 j2) (fun j hj => ?_)
    refine Safe.bind (rd_safe ik j hj.2.1 (by rw [hik]; omega)) (fun kj _ => ?_)
    refine Safe.bind (rd_safe iv j hj.2.1 (by rw [hiv]; omega)) (fun vj _ => ?_)
    by_cases c1 : kj = km.1
    · rw [if_pos c1]; exact Safe.pure trivial
    · rw [if_neg c1]
      by_cases c2 : w.gt km.2 vj = true
      · rw [if_pos c2]; exact Safe.pure trivial
      · rw [if_neg c2]
        by_cases c3 : w.gt vj km.2 = true ∨ kj > km.1
        · rw [if_pos c3]; exact Safe.pure trivial
        · rw [if_neg c3]; exact Safe.pure trivial
  · refine Safe.bind (wr_safe st.1 i km.1 i0 (by rw [hst.1]; omega)) (fun ok' hok => ?_)
    refine Safe.bind (wr_safe st.2 i km.2 i0 (by rw [hst.2]; omega)) (fun ov' hov => ?_)
    exact Safe.pure ⟨by rw [hok, hst.1], by rw [hov, hst.2]⟩

/-- the four vectors have `n` entries -/
def KVInv (n : Nat) (kv : KV ρ) : Prop := kv.ik.size = n ∧ kv.ok.size = n ∧ kv.iv.size = n ∧ kv.ov.size = n

theorem propagateK_safe (w : WOps ρ) {n : Nat} {ap aj : Array Int} (hA : WFm (patS n ap aj) n) (k : Int) (kv : KV ρ)
    (hkv : KVInv n kv) : Safe (propagateK w n ap aj k kv) (KVInv n) := by
  unfold propagateK
  apply forRange_safe (KVInv n) _ _ _ _ hkv
  intro i _ _ kv' h
  obtain ⟨a1, a2, a3, a4⟩ := h
  refine Safe.bind (propagateMax_safe w hA kv'.ik a1 kv'.iv a3 (kv'.ok, kv'.ov) a2 a4) (fun o ho => ?_)
  exact Safe.pure ⟨ho.1, a1, ho.2, a3⟩

def MKInv (n : Nat) (st : MK ρ) : Prop := st.x.size = n ∧ st.act.size = n ∧ KVInv n st.kv

/-- one iteration of the outer loop -/
theorem mkIter_safe (w : WOps ρ) {n : Nat} {ap aj : Array Int} (hA : WFm (patS n ap aj) n) (k : Int) (y : Array ρ)
    (hy : y.size = n) (st : MK ρ) (hst : MKInv n st) : Safe (mkIter w n ap aj k y st) (MKInv n) := by
  obtain ⟨hx, hact, hkv⟩ := hst
  unfold mkIter
  refine Safe.bind (propagateK_safe w hA k st.kv hkv) (fun kv1 h1 => ?_)
  refine Safe.bind (P := fun r : Array Int × KV ρ => r.1.size = n ∧ KVInv n r.2) ?_ (fun r hr => ?_)
  · apply forRange_safe (fun r : Array Int × KV ρ => r.1.size = n ∧ KVInv n r.2) _ _ _ _ ⟨hx, h1⟩
    intro i i0 i1 s hs
    obtain ⟨sx, a1, a2, a3, a4⟩ := hs
    refine Safe.bind (rd_safe s.2.ik i i0 (by rw [a1]; omega)) (fun ki _ => ?_)
    refine Safe.bind (rd_safe st.act i i0 (by rw [hact]; omega)) (fun ai _ => ?_)
    refine Safe.bind (P := fun x' : Array Int => x'.size = n) ?_ (fun x' hx' => ?_)
    · by_cases hc : ki = i ∧ ai = true
      · rw [if_pos hc]
        exact Safe.mono (wr_safe s.1 i 1 i0 (by rw [sx]; omega)) (fun x' h => by rw [h, sx])
      · rw [if_neg hc]; exact Safe.pure sx
    · refine Safe.bind (wr_safe s.2.ik i i i0 (by rw [a1]; omega)) (fun ik' hik => ?_)
      refine Safe.bind (rd_safe x' i i0 (by rw [hx']; omega)) (fun xi _ => ?_)
      refine Safe.bind (wr_safe s.2.iv i _ i0 (by rw [a3]; omega)) (fun iv' hiv => ?_)
      exact Safe.pure ⟨hx', by show ik'.size = n; rw [hik, a1], a2, by show iv'.size = n; rw [hiv, a3], a4⟩
  · refine Safe.bind (propagateK_safe w hA k r.2 hr.2) (fun kv2 h2 => ?_)
    refine Safe.bind (P := fun f : Array Bool × KV ρ × Bool => f.1.size = n ∧ KVInv n f.2.1) ?_
      (fun f hf => Safe.pure ⟨hr.1, hf.1, hf.2⟩)
    apply forRange_safe (fun f : Array Bool × KV ρ × Bool => f.1.size = n ∧ KVInv n f.2.1) _ _ _ _ ⟨hact, h2⟩
    intro i i0 i1 s hs
    obtain ⟨sa, a1, a2, a3, a4⟩ := hs
    refine Safe.bind (rd_safe s.2.1.iv i i0 (by rw [a3]; omega)) (fun vi _ => ?_)
    by_cases hc : w.eq vi (w.ofInt 1) = true
    · rw [if_pos hc]
      refine Safe.bind (wr_safe s.1 i false i0 (by rw [sa]; omega)) (fun a' ha => ?_)
      refine Safe.bind (wr_safe s.2.1.iv i _ i0 (by rw [a3]; omega)) (fun iv' hiv => ?_)
      refine Safe.bind (wr_safe s.2.1.ik i i i0 (by rw [a1]; omega)) (fun ik' hik => ?_)
      exact Safe.pure ⟨by show a'.size = n; rw [ha, sa], by show ik'.size = n; rw [hik, a1], a2,
        by show iv'.size = n; rw [hiv, a3], a4⟩
    · rw [if_neg hc]
      refine Safe.bind (rd_safe y i i0 (by rw [hy]; omega)) (fun yi _ => ?_)
      refine Safe.bind (wr_safe s.2.1.iv i _ i0 (by rw [a3]; omega)) (fun iv' hiv => ?_)
      refine Safe.bind (wr_safe s.2.1.ik i i i0 (by rw [a1]; omega)) (fun ik' hik => ?_)
      exact Safe.pure ⟨sa, by show ik'.size = n; rw [hik, a1], a2, by show iv'.size = n; rw [hiv, a3], a4⟩

/-- the outer loop, any fuel: a run that returns was in range -/
theorem mkLoop_safe (w : WOps ρ) {n : Nat} {ap aj : Array Int} (hA : WFm (patS n ap aj) n) (k : Int) (y : Array ρ)
    (hy : y.size = n) (maxIters : Int) :
    ∀ (fuel : Nat) (iter : Int) (st : Ck (MK ρ)), Safe st (MKInv n) → ∀ r,
      mkLoop w n ap aj k y maxIters fuel iter st = some r → Safe r (MKInv n) := by
  intro fuel
  induction fuel with
  | zero =>
    intro iter st hst r hr
    unfold mkLoop at hr
    split at hr
    · cases hr
    · cases hr; exact hst
  | succ f ih =>
    intro iter st hst r hr
    unfold mkLoop at hr
    have hb : Safe (st >>= mkIter w n ap aj k y) (MKInv n) := Safe.bind hst (fun s hs => mkIter_safe w hA k y hy s hs)
    split at hr
    · simp only at hr
      split at hr
      · exact ih _ _ hb r hr
      · cases hr; exact hb
    · cases hr; exact hst

/-- with `max_iters >= 0` the loop returns within `max_iters - iter` iterations -/
theorem mkLoop_bounded (w : WOps ρ) {n : Nat} {ap aj : Array Int} (k : Int) (y : Array ρ) (maxIters : Int) (hm : 0 ≤ maxIters) :
    ∀ (fuel : Nat) (iter : Int) (st : Ck (MK ρ)), (maxIters - iter).toNat ≤ fuel →
      ∃ r, mkLoop w n ap aj k y maxIters fuel iter st = some r := by
  intro fuel
  induction fuel with
  | zero =>
    intro iter st hf
    unfold mkLoop
    have : ¬ (maxIters = -1 ∨ iter < maxIters) := by intro h; rcases h with h | h <;> omega
    rw [if_neg this]; exact ⟨st, rfl⟩
  | succ f ih =>
    intro iter st hf
    unfold mkLoop
    by_cases hc : maxIters = -1 ∨ iter < maxIters
    · rw [if_pos hc]
      simp only
      split
      · exact ih _ _ (by omega)
      · exact ⟨_, rfl⟩
    · rw [if_neg hc]; exact ⟨st, rfl⟩

theorem mkInit_safe (w : WOps ρ) (n : Nat) (x : Array Int) (hx : x.size = n) (y : Array ρ) (hy : y.size = n) :
    Safe (forRange 0 (n : Int) (x, (Array.replicate n (0 : Int)), (Array.replicate n (w.ofInt 0)))
      (fun i (s : Array Int × Array Int × Array ρ) => do
        let ik ← wr s.2.1 i i
        let yi ← rd y i
        let iv ← wr s.2.2 i yi
        let x ← wr s.1 i 0
        pure (x, ik, iv)))
      (fun r => r.1.size = n ∧ r.2.1.size = n ∧ r.2.2.size = n) := by
  apply forRange_safe (fun r : Array Int × Array Int × Array ρ => r.1.size = n ∧ r.2.1.size = n ∧ r.2.2.size = n) _ _ _ _
    ⟨hx, by simp, by simp⟩
  intro i i0 i1 s hs
  obtain ⟨a1, a2, a3⟩ := hs
  refine Safe.bind (wr_safe s.2.1 i i i0 (by rw [a2]; omega)) (fun ik' hik => ?_)
  refine Safe.bind (rd_safe y i i0 (by rw [hy]; omega)) (fun yi _ => ?_)
  refine Safe.bind (wr_safe s.2.2 i yi i0 (by rw [a3]; omega)) (fun iv' hiv => ?_)
  refine Safe.bind (wr_safe s.1 i 0 i0 (by rw [a1]; omega)) (fun x' hx' => ?_)
  exact Safe.pure ⟨by rw [hx', a1], by show ik'.size = n; rw [hik, a2], by show iv'.size = n; rw [hiv, a3]⟩

/-- **`maximal_independent_set_k_parallel`**: any structurally valid `n × n` pattern, `x`, `y` of length `n`, any `k`, any
weights, any `max_iters`, any number of iterations: a run that returns made no access outside `Ap`, `Aj`, `x`, `y` and the five
private vectors (termination for `max_iters = -1` needs weights above `-1`: `misK_total`, property C18) -/
theorem misKParallel_safe (w : WOps ρ) {n : Nat} {ap aj : Array Int} (hA : WFm (patS n ap aj) n) (k : Int)
    (x : Array Int) (hx : x.size = n) (y : Array ρ) (hy : y.size = n) (maxIters : Int) (fuel : Nat) :
    ∀ r, misKParallel w n ap aj k x y maxIters fuel = some r → Safe r (fun x' => x'.size = n) := by
  intro r hr
  unfold misKParallel at hr
  simp only at hr
  have hinit := Safe.bind (Q := MKInv n) (mkInit_safe w n x hx y hy) (fun r0 h0 =>
    Safe.pure (a := (⟨r0.1, Array.replicate n true, ⟨r0.2.1, Array.replicate n 0, r0.2.2, Array.replicate n (w.ofInt 0)⟩, true⟩ : MK ρ))
      ⟨h0.1, by simp, h0.2.1, by simp, h0.2.2, by simp⟩)
  revert hr
  generalize hl : mkLoop w n ap aj k y maxIters fuel 0 _ = res
  intro hr
  cases res with
  | none => cases hr
  | some r0 =>
    simp only [Option.map_some] at hr
    have e := (Option.some.inj hr).symm
    rw [e]
    exact Safe.bind (mkLoop_safe w hA k y hy maxIters fuel 0 _ hinit r0 hl) (fun st hs => Safe.pure hs.1)

/-- … and with `max_iters >= 0` it returns within `max_iters` iterations -/
theorem misKParallel_bounded (w : WOps ρ) {n : Nat} {ap aj : Array Int} (hA : WFm (patS n ap aj) n) (k : Int)
    (x : Array Int) (hx : x.size = n) (y : Array ρ) (hy : y.size = n) (maxIters : Int) (hm : 0 ≤ maxIters) :
    ∃ r, misKParallel w n ap aj k x y maxIters maxIters.toNat = some r ∧ Safe r (fun x' => x'.size = n) := by
  have hex : ∃ r, misKParallel w n ap aj k x y maxIters maxIters.toNat = some r := by
    unfold misKParallel
    simp only
    obtain ⟨r0, h0⟩ := mkLoop_bounded (n := n) (ap := ap) (aj := aj) w k y maxIters hm maxIters.toNat 0
      (do
        let r ← forRange 0 (n : Int) (x, (Array.replicate n (0 : Int)), (Array.replicate n (w.ofInt 0)))
          (fun i (s : Array Int × Array Int × Array ρ) => do
            let ik ← wr s.2.1 i i
            let yi ← rd y i
            let iv ← wr s.2.2 i yi
            let x ← wr s.1 i 0
            pure (x, ik, iv))
        pure (⟨r.1, Array.replicate n true, ⟨r.2.1, Array.replicate n 0, r.2.2, Array.replicate n (w.ofInt 0)⟩, true⟩ : MK ρ))
      (by omega)
    rw [h0]; exact ⟨_, rfl⟩
  obtain ⟨r, e⟩ := hex
  exact ⟨r, e, misKParallel_safe w hA k x hx y hy maxIters _ r e⟩

end PyamgV.C17R4
