import PyamgV.Model.KGraph
import PyamgV.Proofs.Mis

/-! PyamgV (one definition per kernel): the CSR-array MIS model that was validated against the real
kernel (`PyamgV.G.misSerial`) is the proof-side model `PyamgV.misSerial` instantiated with
`adj := G.row`, so `misSerial_correct` is a statement about the validated definition. -/
namespace PyamgV

theorem kgraph_misSerial_eq (Gc : G.Graph) (act C F : Int) :
    ∀ (l : List Nat) (x : Array Int) (cnt : Nat),
      (l.foldl (fun (acc : Array Int × Nat) i =>
        let (x, cnt) := acc
        if G.rdI x i ≠ act then (x, cnt) else
          let x := G.wrI x i C
          ((Gc.row i).foldl (fun x j => if G.rdI x j = act then G.wrI x j F else x) x, cnt + 1))
        (x, cnt)).1 =
      l.foldl (misStep ⟨Gc.n, Gc.row⟩ act C F) x := by
  intro l
  induction l with
  | nil => intro x cnt; rfl
  | cons i is ih =>
    intro x cnt
    rw [List.foldl_cons, List.foldl_cons]
    by_cases h : G.rdI x i ≠ act
    · have h' : rd x i ≠ act := h
      simp only [h, ne_eq, not_false_eq_true, if_true]
      rw [ih]
      congr 1
      unfold misStep
      rw [if_pos h']
    · have h' : ¬ rd x i ≠ act := h
      simp only [h, if_false]
      rw [ih]
      congr 1
      unfold misStep
      rw [if_neg h']
      rfl

theorem kgraph_misSerial (Gc : G.Graph) (act C F : Int) (x : Array Int) :
    (G.misSerial Gc act C F x).1 = misSerial ⟨Gc.n, Gc.row⟩ act C F x := by
  unfold G.misSerial misSerial
  exact kgraph_misSerial_eq Gc act C F (List.range Gc.n) x 0

#print axioms kgraph_misSerial
end PyamgV
