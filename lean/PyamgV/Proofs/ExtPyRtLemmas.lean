import PyamgV.Model.ExtPyRt
/-! PyamgV (extension E31): simp lemmas that evaluate the run-time library of the Python -> Lean
translator (`Model/ExtPyRt.lean`) on constructor-headed arguments, and the algebra of `pyEq`
(reflexive / symmetric on well-formed values). Used by the proofs about the generated definitions. -/
namespace PyamgV.ExtPy

@[simp] theorem pure_eq_ok {α : Type} (x : α) : (pure x : PyM α) = Except.ok x := rfl
@[simp] theorem ok_bind {α β : Type} (x : α) (f : α → PyM β) : (Except.ok x >>= f) = f x := rfl
@[simp] theorem error_bind {α β : Type} (e : PyErr) (f : α → PyM β) :
    ((Except.error e : PyM α) >>= f) = Except.error e := rfl
@[simp] theorem raise_bind {α β : Type} (c m : String) (f : α → PyM β) :
    ((raise c m : PyM α) >>= f) = raise c m := rfl
theorem raise_def {α : Type} (c m : String) : (raise c m : PyM α) = Except.error ⟨c, m⟩ := rfl

@[simp] theorem pySub_int (a b : Int) : pySub (.int a) (.int b) = .ok (.int (a - b)) := rfl
@[simp] theorem pyAdd_int (a b : Int) : pyAdd (.int a) (.int b) = .ok (.int (a + b)) := rfl
@[simp] theorem pyLen_list (xs : List PyVal) : pyLen (.list xs) = .ok (.int xs.length) := rfl
@[simp] theorem pyLen_tuple (xs : List PyVal) : pyLen (.tuple xs) = .ok (.int xs.length) := rfl
@[simp] theorem pyRange_one (n : Int) :
    pyRange [.int n] = .ok ((List.range n.toNat).map (fun (k : Nat) => PyVal.int (k : Int))) := rfl
@[simp] theorem pyRange_two (a b : Int) :
    pyRange [.int a, .int b] = .ok ((List.range (b - a).toNat).map (fun (k : Nat) => PyVal.int (a + (k : Int)))) := rfl
@[simp] theorem pyLt_int (a b : Int) : pyLt (.int a) (.int b) = .ok (decide (a < b)) := by
  simp only [pyLt, pyCmp, PyVal.num?, Rat.intCast_lt_intCast]
  by_cases h : a < b
  · simp [h]
  · by_cases h2 : a = b <;> simp [h, h2]
@[simp] theorem pyGt_int (a b : Int) : pyGt (.int a) (.int b) = .ok (decide (b < a)) := by
  simp only [pyGt, pyCmp, PyVal.num?, Rat.intCast_lt_intCast]
  by_cases h : a < b
  · have : ¬ b < a := by omega
    simp [h, this]
  · by_cases h2 : a = b
    · subst h2; simp
    · have : b < a := by omega
      simp [h, h2, this]

@[simp] theorem pyExtend_list (xs ys : List PyVal) : pyExtend (.list xs) (.list ys) = .ok (.list (xs ++ ys)) := rfl
@[simp] theorem pyList_tuple (xs : List PyVal) : pyList (.tuple xs) = .ok (.list xs) := rfl

/-- the last element through Python's index `-1` -/
theorem pyGetItem_last (xs : List PyVal) (h : xs ≠ []) :
    pyGetItem (.list xs) (.int (-1)) = .ok (xs.getLast h) := by
  have hl : 0 < xs.length := List.length_pos_iff.mpr h
  simp only [pyGetItem, PyVal.int?, normIdx]
  have h1 : ¬ (0 : Int) ≤ -1 := by omega
  have h2 : (- (-1 : Int)) ≤ (xs.length : Int) := by omega
  rw [if_neg h1, if_pos h2]
  have h3 : ((xs.length : Int) + -1).toNat = xs.length - 1 := by omega
  simp only [h3, pure_eq_ok]
  rw [List.getLast_eq_getElem]
  simp [List.getD_eq_getElem?_getD]
  rw [List.getElem?_eq_getElem (by omega)]
  rfl

theorem pyGetItem_last_nil : pyGetItem (.list []) (.int (-1)) = raise "IndexError" "index out of range" := rfl

@[simp] theorem pyGetItem_zero_cons (x : PyVal) (xs : List PyVal) : pyGetItem (.tuple (x :: xs)) (.int 0) = .ok x := by
  simp [pyGetItem, PyVal.int?, normIdx]
@[simp] theorem pyGetItem_zero_nil : pyGetItem (.tuple []) (.int 0) = raise "IndexError" "index out of range" := rfl
@[simp] theorem pyGetItem_one_cons (x y : PyVal) (xs : List PyVal) :
    pyGetItem (.tuple (x :: y :: xs)) (.int 1) = .ok y := by
  simp [pyGetItem, PyVal.int?, normIdx]

/-- a comprehension whose element does not depend on the loop variable and does not raise -/
theorem pyComp_const {α : Type} (xs : List PyVal) (c : α) :
    pyComp xs (fun _ => (Except.ok (some c) : PyM (Option α))) = .ok (List.replicate xs.length c) := by
  induction xs with
  | nil => rfl
  | cons x r ih => simp [pyComp, ih, List.replicate_succ]

theorem map_const_range (n : Nat) (f : Nat → PyVal) (c : PyVal) :
    List.map (fun _ => c) (List.map f (List.range n)) = List.replicate n c := by
  rw [List.map_map]
  have : ((fun _ => c) ∘ f) = (fun _ => c) := rfl
  rw [this, List.map_const', List.length_range]

@[simp] theorem map_const_comp {α : Type} (l : List α) (f : α → PyVal) (c : PyVal) :
    List.map ((fun _ => c) ∘ f) l = List.replicate l.length c := by
  have : ((fun _ => c) ∘ f) = (fun _ => c) := rfl
  rw [this, List.map_const']

end PyamgV.ExtPy
