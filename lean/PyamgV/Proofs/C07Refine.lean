import PyamgV.Model.C07Krylov
import PyamgV.Proofs.PCG
import PyamgV.Proofs.KrylovSim
import PyamgV.Proofs.Petrov

/-! PyamgV (C07): the executable recurrence models of `Model/C07Krylov.lean`, instantiated with the
operations of a `K`-module (`Ops.ofModule`), *are* the abstract sequences the optimality theorems
are about (`PCG.seq`, `KSim.nrSeq`, `KSim.neSeq`, `KSim.crSeq`) — including the periodic
recomputation `r = b − A x` of the Python loops, which coincides with the recursive update because
`r = b − A x` is an invariant.  Hence the optimality theorems hold for the model definitions
themselves (`cg_model_optimal`, `cgnr_model_optimal`, `cgne_model_optimal`, `cr_model_optimal`),
and the line-search steps of steepest descent / minimal residual are exact (`sd_step_optimal`,
`mr_step_optimal`). -/
namespace PyamgV.C07

variable {K : Type} [Field K] [LinearOrder K] [IsStrictOrderedRing K]
variable {V : Type} [AddCommGroup V] [Module K V]

/-- the vector operations of a `K`-module with a Euclidean form `e` -/
def Ops.ofModule (A AH M : V →ₗ[K] V) (e : EForm K V) : Ops K V :=
  { add := fun u v => u + v, sub := fun u v => u - v, smul := fun c v => c • v,
    dot := fun u v => e.a u v, A := fun v => A v, AH := fun v => AH v, M := fun v => M v }

variable (A AH M : V →ₗ[K] V) (e : EForm K V) (b x0 : V)

/-- both forms of the residual update agree when `r = b − A x` -/
theorem resid_update (c : Bool) (x r p : V) (α : K) (h : r = b - A x) :
    (if c then r - α • A p else b - A (x + α • p)) = r - α • A p := by
  cases c
  · simp only [Bool.false_eq_true, if_false]; rw [h, map_add, map_smul]; abel
  · simp

/-! ### CG -/
def cgSeq (k : Nat) : CgSt K V :=
  iter (cgStep (Ops.ofModule A AH M e) b) k (cgInit (Ops.ofModule A AH M e) b x0)

theorem cgSeq_succ (k : Nat) :
    cgSeq A AH M e b x0 (k+1) = cgStep (Ops.ofModule A AH M e) b (cgSeq A AH M e b x0 k) := rfl

theorem cg_refines (k : Nat) :
    (cgSeq A AH M e b x0 k).x = (PCG.seq A M e b x0 k).x ∧
    (cgSeq A AH M e b x0 k).r = (PCG.seq A M e b x0 k).r ∧
    (cgSeq A AH M e b x0 k).p = (PCG.seq A M e b x0 k).p ∧
    (cgSeq A AH M e b x0 k).rz = (PCG.seq A M e b x0 k).rz ∧
    (cgSeq A AH M e b x0 k).r = b - A (cgSeq A AH M e b x0 k).x := by
  induction k with
  | zero => simp [cgSeq, iter, cgInit, PCG.seq, PCG.init, Ops.ofModule]
  | succ k ih =>
    obtain ⟨hx, hr, hp, hrz, hres⟩ := ih
    rw [cgSeq_succ]
    generalize cgSeq A AH M e b x0 k = s at *
    have hPs : PCG.seq A M e b x0 (k+1) = PCG.step A M e (PCG.seq A M e b x0 k) := rfl
    rw [hPs]
    generalize PCG.seq A M e b x0 k = t at *
    obtain ⟨sx, sr, sz, sp, srz, sit⟩ := s
    obtain ⟨tx, tr, tp, trz⟩ := t
    simp only at hx hr hp hrz hres
    subst hx hr hp hrz
    have hu := resid_update A b (recur sit 8) sx sr sp (srz / e.a (A sp) sp) hres
    simp only [cgStep, Ops.ofModule, PCG.step, hu]
    refine ⟨trivial, trivial, trivial, trivial, ?_⟩
    rw [hres, map_add, map_smul]; abel

/-- **CG, model level**: the `k`-th iterate of the recurrence model minimises the energy norm of the
error over `x₀ + K_k(MA, M r₀)` -/
theorem cg_model_optimal (hA : PCG.Hyp A M e) (xs : V) (hxs : A xs = b) (k : Nat)
    (hnb : ∀ j, j < k → (cgSeq A AH M e b x0 j).rz ≠ 0) :
    (cgSeq A AH M e b x0 k).x - x0 ∈ PCG.kry A M e b x0 k ∧
    ∀ y, y - x0 ∈ PCG.kry A M e b x0 k →
      PCG.enA A e (xs - (cgSeq A AH M e b x0 k).x) ≤ PCG.enA A e (xs - y) := by
  have h := PCG.pcg_optimal_krylov (b := b) (x0 := x0) hA xs hxs k
    (fun j hj => by rw [← (cg_refines A AH M e b x0 j).2.2.2.1]; exact hnb j hj)
  rw [← (cg_refines A AH M e b x0 k).1] at h
  exact h

/-- … hence the energy norm of the error does not increase from one iterate to the next -/
theorem cg_model_monotone (hA : PCG.Hyp A M e) (xs : V) (hxs : A xs = b) (k : Nat)
    (hnb : ∀ j, j < k + 1 → (cgSeq A AH M e b x0 j).rz ≠ 0) :
    PCG.enA A e (xs - (cgSeq A AH M e b x0 (k+1)).x) ≤ PCG.enA A e (xs - (cgSeq A AH M e b x0 k).x) := by
  have h := PCG.pcg_monotone (b := b) (x0 := x0) hA xs hxs k
    (fun j hj => by rw [← (cg_refines A AH M e b x0 j).2.2.2.1]; exact hnb j hj)
  rw [← (cg_refines A AH M e b x0 k).1, ← (cg_refines A AH M e b x0 (k+1)).1] at h
  exact h

/-! ### CGNR -/
def cgnrSeq (k : Nat) : NrSt K V :=
  iter (cgnrStep (Ops.ofModule A AH M e) b) k (cgnrInit (Ops.ofModule A AH M e) b x0)

theorem cgnrSeq_succ (k : Nat) :
    cgnrSeq A AH M e b x0 (k+1) = cgnrStep (Ops.ofModule A AH M e) b (cgnrSeq A AH M e b x0 k) := rfl

theorem cgnr_refines (k : Nat) :
    (cgnrSeq A AH M e b x0 k).x = (KSim.nrSeq A AH M e b x0 k).x ∧
    (cgnrSeq A AH M e b x0 k).r = (KSim.nrSeq A AH M e b x0 k).r ∧
    (cgnrSeq A AH M e b x0 k).p = (KSim.nrSeq A AH M e b x0 k).p ∧
    (cgnrSeq A AH M e b x0 k).zr = (KSim.nrSeq A AH M e b x0 k).zr ∧
    (cgnrSeq A AH M e b x0 k).r = b - A (cgnrSeq A AH M e b x0 k).x := by
  induction k with
  | zero => simp [cgnrSeq, iter, cgnrInit, KSim.nrSeq, KSim.nrInit, Ops.ofModule]
  | succ k ih =>
    obtain ⟨hx, hr, hp, hzr, hres⟩ := ih
    rw [cgnrSeq_succ]
    generalize cgnrSeq A AH M e b x0 k = s at *
    have hPs : KSim.nrSeq A AH M e b x0 (k+1) = KSim.nrStep A AH M e (KSim.nrSeq A AH M e b x0 k) := rfl
    rw [hPs]
    generalize KSim.nrSeq A AH M e b x0 k = t at *
    obtain ⟨sx, sr, srh, sz, sp, szr, sit⟩ := s
    obtain ⟨tx, tr, tp, tzr⟩ := t
    simp only at hx hr hp hzr hres
    subst hx hr hp hzr
    have hu := resid_update A b (recur sit 8) sx sr sp (szr / e.a (A sp) (A sp)) hres
    simp only [cgnrStep, Ops.ofModule, KSim.nrStep, hu]
    refine ⟨trivial, trivial, trivial, trivial, ?_⟩
    rw [hres, map_add, map_smul]; abel

/-- **CGNR, model level**: the `k`-th iterate minimises the residual norm over
`x₀ + K_k(M AᴴA, M Aᴴ r₀)` -/
theorem cgnr_model_optimal (hadj : KSim.Adj e A AH) (hM : ∀ u v, e.a (M u) v = e.a u (M v))
    (hdef : ∀ v, e.a v v = 0 → v = 0) (hinj : ∀ v, A v = 0 → v = 0)
    (xs : V) (hxs : A xs = b) (k : Nat)
    (hnb : ∀ j, j < k → (cgnrSeq A AH M e b x0 j).zr ≠ 0) :
    (cgnrSeq A AH M e b x0 k).x - x0 ∈ PCG.kry (AH ∘ₗ A) M e (AH b) x0 k ∧
    ∀ y, y - x0 ∈ PCG.kry (AH ∘ₗ A) M e (AH b) x0 k →
      e.en (b - A (cgnrSeq A AH M e b x0 k).x) ≤ e.en (b - A y) := by
  have h := KSim.cgnr_optimal hadj hM hdef hinj b x0 xs hxs k
    (fun j hj => by rw [← (cgnr_refines A AH M e b x0 j).2.2.2.1]; exact hnb j hj)
  rw [← (cgnr_refines A AH M e b x0 k).1] at h
  exact h

/-! ### CGNE -/
def cgneSeq (k : Nat) : NeSt K V :=
  iter (cgneStep (Ops.ofModule A AH M e) b) k (cgneInit (Ops.ofModule A AH M e) b x0)

theorem cgneSeq_succ (k : Nat) :
    cgneSeq A AH M e b x0 (k+1) = cgneStep (Ops.ofModule A AH M e) b (cgneSeq A AH M e b x0 k) := rfl

theorem cgne_refines (k : Nat) :
    (cgneSeq A AH M e b x0 k).x = (KSim.neSeq A AH M e b x0 k).x ∧
    (cgneSeq A AH M e b x0 k).r = (KSim.neSeq A AH M e b x0 k).r ∧
    (cgneSeq A AH M e b x0 k).p = (KSim.neSeq A AH M e b x0 k).p ∧
    (cgneSeq A AH M e b x0 k).zr = (KSim.neSeq A AH M e b x0 k).zr ∧
    (cgneSeq A AH M e b x0 k).r = b - A (cgneSeq A AH M e b x0 k).x := by
  induction k with
  | zero => simp [cgneSeq, iter, cgneInit, KSim.neSeq, KSim.neInit, Ops.ofModule]
  | succ k ih =>
    obtain ⟨hx, hr, hp, hzr, hres⟩ := ih
    rw [cgneSeq_succ]
    generalize cgneSeq A AH M e b x0 k = s at *
    have hPs : KSim.neSeq A AH M e b x0 (k+1) = KSim.neStep A AH M e (KSim.neSeq A AH M e b x0 k) := rfl
    rw [hPs]
    generalize KSim.neSeq A AH M e b x0 k = t at *
    obtain ⟨sx, sr, sz, sp, szr, sit⟩ := s
    obtain ⟨tx, tr, tp, tzr⟩ := t
    simp only at hx hr hp hzr hres
    subst hx hr hp hzr
    have hu := resid_update A b (recur sit 8) sx sr sp (szr / e.a sp sp) hres
    simp only [cgneStep, Ops.ofModule, KSim.neStep, hu]
    refine ⟨trivial, trivial, trivial, trivial, ?_⟩
    rw [hres, map_add, map_smul]; abel

/-- **CGNE, model level**: the `k`-th iterate minimises the 2-norm of the error over
`x₀ + Aᴴ K_k(M A Aᴴ, M r₀)` -/
theorem cgne_model_optimal (hadj : KSim.Adj e A AH) (hM : ∀ u v, e.a (M u) v = e.a u (M v))
    (hdef : ∀ v, e.a v v = 0 → v = 0) (hinj : ∀ v, AH v = 0 → v = 0)
    (ys : V) (hys : A (AH ys) = b - A x0) (k : Nat)
    (hnb : ∀ j, j < k → (cgneSeq A AH M e b x0 j).zr ≠ 0) :
    ∀ y, y ∈ PCG.kry (A ∘ₗ AH) M e (b - A x0) 0 k →
      e.en ((x0 + AH ys) - (cgneSeq A AH M e b x0 k).x) ≤ e.en ((x0 + AH ys) - (x0 + AH y)) := by
  have h := KSim.cgne_optimal hadj hM hdef hinj b x0 ys hys k
    (fun j hj => by rw [← (cgne_refines A AH M e b x0 j).2.2.2.1]; exact hnb j hj)
  rw [← (cgne_refines A AH M e b x0 k).1] at h
  exact h

/-! ### CR -/
def crSeq (k : Nat) : CrSt K V :=
  iter (crStep (Ops.ofModule A AH M e) b) k (crInit (Ops.ofModule A AH M e) b x0)

theorem crSeq_succ (k : Nat) :
    crSeq A AH M e b x0 (k+1) = crStep (Ops.ofModule A AH M e) b (crSeq A AH M e b x0 k) := rfl

theorem cr_refines (k : Nat) :
    (crSeq A AH M e b x0 k).x = (KSim.crSeq A M e b x0 k).x ∧
    (crSeq A AH M e b x0 k).r = (KSim.crSeq A M e b x0 k).r ∧
    (crSeq A AH M e b x0 k).p = (KSim.crSeq A M e b x0 k).p ∧
    (crSeq A AH M e b x0 k).Ap = (KSim.crSeq A M e b x0 k).Ap ∧
    (crSeq A AH M e b x0 k).rAz = (KSim.crSeq A M e b x0 k).rAz ∧
    (crSeq A AH M e b x0 k).Ap = A (crSeq A AH M e b x0 k).p ∧
    (crSeq A AH M e b x0 k).r = b - A (crSeq A AH M e b x0 k).x := by
  induction k with
  | zero => simp [crSeq, iter, crInit, KSim.crSeq, KSim.crInit, Ops.ofModule]
  | succ k ih =>
    obtain ⟨hx, hr, hp, hAp, hrAz, hApp, hres⟩ := ih
    rw [crSeq_succ]
    generalize crSeq A AH M e b x0 k = s at *
    have hPs : KSim.crSeq A M e b x0 (k+1) = KSim.crStep A M e (KSim.crSeq A M e b x0 k) := rfl
    rw [hPs]
    generalize KSim.crSeq A M e b x0 k = t at *
    obtain ⟨sx, sr, sz, sp, sAp, srAz, sit⟩ := s
    obtain ⟨tx, tr, tp, tAp, trAz⟩ := t
    simp only at hx hr hp hAp hrAz hApp hres
    subst hx hr hp hAp hrAz
    have hu := resid_update A b (recur sit 8) sx sr sp (srAz / e.a sAp sAp) hres
    rw [← hApp] at hu
    simp only [crStep, Ops.ofModule, KSim.crStep, hu]
    refine ⟨trivial, trivial, trivial, trivial, trivial, ?_, ?_⟩
    · rw [map_add, map_smul, hApp]
    · rw [hres, map_add, map_smul, hApp]; abel

/-- **CR, model level** (`M = I`): the `k`-th iterate minimises the residual norm over `x₀ + K_k(A, r₀)` -/
theorem cr_model_optimal (hs : ∀ u v, e.a (A u) v = e.a u (A v))
    (hp : ∀ v, 0 ≤ e.a (A v) v) (hdef : ∀ v, e.a v v = 0 → v = 0) (hinj : ∀ v, A v = 0 → v = 0)
    (xs : V) (hxs : A xs = b) (k : Nat)
    (hnb : ∀ j, j < k → (crSeq A AH LinearMap.id e b x0 j).rAz ≠ 0) :
    (crSeq A AH LinearMap.id e b x0 k).x - x0 ∈ PCG.kry A LinearMap.id (KSim.aForm A e hs hp) b x0 k ∧
    ∀ y, y - x0 ∈ PCG.kry A LinearMap.id (KSim.aForm A e hs hp) b x0 k →
      e.en (b - A (crSeq A AH LinearMap.id e b x0 k).x) ≤ e.en (b - A y) := by
  have h := KSim.cr_optimal hs hp hdef hinj b x0 xs hxs k
    (fun j hj => by rw [← (cr_refines A AH LinearMap.id e b x0 j).2.2.2.2.1]; exact hnb j hj)
  rw [← (cr_refines A AH LinearMap.id e b x0 k).1] at h
  exact h

/-! ### steepest descent and minimal residual: every step is an exact line search -/

/-- one step of `_steepest_descent.py` from a state with `r = b − A x`, `z = M r`, `rz = ⟨r, z⟩`
minimises the energy norm of the error along the preconditioned residual `z` (any `M`) -/
theorem sd_step_optimal (hs : ∀ u v, e.a (A u) v = e.a u (A v)) (hp : ∀ v, 0 ≤ e.a (A v) v)
    (xs : V) (hxs : A xs = b) (s : SdSt K V) (hr : s.r = b - A s.x) (hrz : s.rz = e.a s.r s.z)
    (hden : e.a s.z (A s.z) ≠ 0) (t : K) :
    PCG.enA A e (xs - (sdStep (Ops.ofModule A AH M e) b s).x) ≤ PCG.enA A e (xs - (s.x + t • s.z)) := by
  obtain ⟨x, r, z, rz, it⟩ := s
  simp only at hr hrz hden
  subst hr hrz
  simp only [sdStep, Ops.ofModule]
  set α := e.a (b - A x) z / e.a z (A z) with hα
  have key := (KSim.aForm A e hs hp).en_sub_le (xs - (x + t • z)) ((α - t) • z) ?_
  · have h1 : xs - (x + t • z) - (α - t) • z = xs - (x + α • z) := by
      rw [sub_smul]; abel
    rw [h1] at key
    exact key
  · have h1 : xs - (x + t • z) - (α - t) • z = xs - (x + α • z) := by
      rw [sub_smul]; abel
    rw [h1]
    simp only [KSim.aForm_a, map_sub, map_add, map_smul, hxs, LinearMap.sub_apply, LinearMap.add_apply,
      LinearMap.smul_apply, smul_eq_mul]
    have h2 : e.a (A z) z = e.a z (A z) := by rw [hs]
    have h3 : e.a (b - A x) z - α * e.a z (A z) = 0 := by rw [hα, div_mul_cancel₀ _ hden]; ring
    have : e.a b z - (e.a (A x) z + α * e.a (A z) z) = 0 := by
      rw [h2]; simp only [map_sub, LinearMap.sub_apply] at h3; linarith
    rw [this]; ring

/-- one step of `_minimal_residual.py` from a state with `z = M (b − A x)` minimises the norm of the
preconditioned residual `M (b − A y)` along `z` (no symmetry needed) -/
theorem mr_step_optimal (s : MrSt K V) (hz : s.z = M (b - A s.x))
    (hden : e.a (M (A s.z)) (M (A s.z)) ≠ 0) (t : K) :
    e.en (M (b - A (mrStep (Ops.ofModule A AH M e) b s).x)) ≤ e.en (M (b - A (s.x + t • s.z))) := by
  obtain ⟨x, z, it⟩ := s
  simp only at hz hden
  simp only [mrStep, Ops.ofModule]
  set p := M (A z) with hp
  set α := e.a p z / e.a p p with hα
  have e1 : ∀ c : K, M (b - A (x + c • z)) = z - c • p := by
    intro c; rw [map_add, map_smul, sub_add_eq_sub_sub, map_sub, ← hz, map_smul]
  rw [e1 α, e1 t]
  have key := e.en_sub_le (z - t • p) ((α - t) • p) ?_
  · have h1 : z - t • p - (α - t) • p = z - α • p := by rw [sub_smul]; abel
    rw [h1] at key; exact key
  · have h1 : z - t • p - (α - t) • p = z - α • p := by rw [sub_smul]; abel
    rw [h1]
    simp only [map_sub, map_smul, LinearMap.sub_apply, LinearMap.smul_apply, smul_eq_mul]
    have h3 : e.a z p - α * e.a p p = 0 := by rw [hα, div_mul_cancel₀ _ hden, e.symm]; ring
    rw [h3]; ring

#print axioms cg_model_optimal
#print axioms cgnr_model_optimal
#print axioms cgne_model_optimal
#print axioms cr_model_optimal
#print axioms sd_step_optimal
#print axioms mr_step_optimal
end PyamgV.C07
