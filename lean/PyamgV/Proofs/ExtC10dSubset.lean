import PyamgV.Proofs.ExtC10dEnergy
import PyamgV.Proofs.C19Filter
import PyamgV.Proofs.ExtC19Trunc

/-! PyamgV (extension E53, property C10): the pre-filter of `energy_prolongation_smoother` only removes blocks:
the selected pattern `energyPattern … prefilter` is contained in the unfiltered pattern
`Atilde^degree·pattern(T)` (+ root rows) `energyPattern … {}` (`energyPattern_subset`), because the `theta` rule
(`C19.filterRowsMax`), the `k` rule (`C19.truncateRows`), their union and `eliminate_zeros` only drop stored
entries (`applyFilt_sub`).  With `energyFull_property` this gives the clause the independent oracle of the check
judges: `supp(P − T) ⊆ Atilde^degree·pattern(T)` for every pre-filter (`energyFull_support_unfiltered`). -/
namespace PyamgV.C10d
set_option linter.unusedSectionVars false
open PyamgV PyamgV.C10M PyamgV.C10dM
open PyamgV.C19 (RowOf Rows filterRowsMax filterRowsMax_getD truncateRow truncateRows truncateRow_spec_unconditional TruncSpec)

variable {K : Type} [Field K] [DecidableEq K]

/-- every stored column of `rows'` is a stored column of `rows`, row by row -/
def ColsSub (rows' rows : Rows K) : Prop :=
  ∀ i, ∀ cv ∈ rows'.getD i [], ∃ cv' ∈ rows.getD i [], cv'.1 = cv.1

theorem colsSub_refl (rows : Rows K) : ColsSub rows rows := fun _ cv h => ⟨cv, h, rfl⟩

theorem colsSub_trans {a b c : Rows K} (h1 : ColsSub a b) (h2 : ColsSub b c) : ColsSub a c := by
  intro i cv h
  obtain ⟨cv', h', e'⟩ := h1 i cv h
  obtain ⟨cv'', h'', e''⟩ := h2 i cv' h'
  exact ⟨cv'', h'', by rw [e'', e']⟩

theorem dropZeros_sub (rows : Rows K) : ColsSub (dropZeros rows) rows := by
  intro i cv h
  unfold dropZeros at h
  simp only [List.getD_eq_getElem?_getD, List.getElem?_map] at h
  cases hr : rows[i]? with
  | none => rw [hr] at h; simp at h
  | some r =>
    rw [hr] at h
    simp only [Option.map_some, Option.getD_some, List.mem_filter] at h
    exact ⟨cv, by simp [List.getD_eq_getElem?_getD, hr, h.1], rfl⟩

theorem filterRowsMax_sub (nsq : K → Rat) (θ : Rat) (rows : Rows K) : ColsSub (filterRowsMax nsq θ rows) rows := by
  intro i cv h
  by_cases hi : i < rows.length
  · rw [filterRowsMax_getD nsq θ rows i hi, List.mem_filter] at h
    exact ⟨cv, h.1, rfl⟩
  · unfold filterRowsMax at h
    simp only [List.getD_eq_getElem?_getD, List.getElem?_mapIdx] at h
    rw [List.getElem?_eq_none (by omega)] at h
    simp at h

theorem truncateRow_sub (nsq : K → Rat) (k : Nat) (r : RowOf K) :
    ∀ cv ∈ truncateRow nsq k r, ∃ cv' ∈ r, cv'.1 = cv.1 := by
  intro cv h
  have hs := truncateRow_spec_unconditional nsq k r
  unfold TruncSpec at hs
  by_cases hk : r.length ≤ k
  · rw [if_pos hk] at hs
    rw [hs] at h
    exact ⟨cv, h, rfl⟩
  · rw [if_neg hk] at hs
    obtain ⟨a, hperm, hout, _⟩ := hs
    rw [hout, List.mem_mapIdx] at h
    obtain ⟨t, ht, rfl⟩ := h
    refine ⟨a[t], hperm.mem_iff.1 (List.getElem_mem ht), ?_⟩
    by_cases hz : t < r.length - k
    · rw [if_pos hz]
    · rw [if_neg hz]

theorem truncateRows_sub (nsq : K → Rat) (k : Nat) (rows : Rows K) : ColsSub (truncateRows nsq k rows) rows := by
  intro i cv h
  unfold truncateRows at h
  simp only [List.getD_eq_getElem?_getD, List.getElem?_map] at h
  cases hr : rows[i]? with
  | none => rw [hr] at h; simp at h
  | some r =>
    rw [hr] at h
    simp only [Option.map_some, Option.getD_some] at h
    obtain ⟨cv', h', e'⟩ := truncateRow_sub nsq k r cv h
    exact ⟨cv', by simp [List.getD_eq_getElem?_getD, hr, h'], e'⟩

theorem unionRows_sub {a b rows : Rows K} (ha : ColsSub a rows) (hb : ColsSub b rows) : ColsSub (unionRows a b) rows := by
  intro i cv h
  unfold unionRows at h
  simp only [List.getD_eq_getElem?_getD, List.getElem?_zipWith] at h
  cases hx : a[i]? with
  | none => rw [hx] at h; simp at h
  | some x =>
    cases hy : b[i]? with
    | none => rw [hx, hy] at h; simp at h
    | some y =>
      rw [hx, hy] at h
      simp only [Option.getD_some, List.mem_append] at h
      rcases h with h | h
      · exact ha i cv (by simp [List.getD_eq_getElem?_getD, hx, h])
      · exact hb i cv (by simp [List.getD_eq_getElem?_getD, hy, h])

/-- **the filters only remove stored entries** -/
theorem applyFilt_sub (nsq : K → Rat) (f : Filt) (rows : Rows K) : ColsSub (applyFilt nsq f rows) rows := by
  unfold applyFilt
  have ht : ∀ θ, ColsSub (thetaRows nsq θ rows) rows := fun θ =>
    colsSub_trans (dropZeros_sub _) (filterRowsMax_sub nsq θ rows)
  have hk : ∀ k, ColsSub (truncRows nsq k rows) rows := fun k =>
    colsSub_trans (dropZeros_sub _) (truncateRows_sub nsq k rows)
  cases f.thetaEff with
  | none =>
    cases f.k with
    | none => exact colsSub_refl rows
    | some k => exact hk k
  | some θ =>
    cases f.k with
    | none => exact ht θ
    | some k => exact unionRows_sub (hk k) (ht θ)



/-! ### block patterns -/

theorem contains_rangeFilter (k ncb : Nat) (p : Nat → Nat → Bool) (I J : Nat) :
    (((Array.range k).map fun I => ((List.range ncb).filter (p I)).toArray).getD I #[]).contains J = true ↔
      I < k ∧ J < ncb ∧ p I J = true := by
  by_cases hI : I < k
  · have e : ((Array.range k).map fun I => ((List.range ncb).filter (p I)).toArray).getD I #[] =
        ((List.range ncb).filter (p I)).toArray := by
      simp [Array.getD_eq_getD_getElem?, hI]
    rw [e]
    simp [hI]
  · have e : ((Array.range k).map fun I => ((List.range ncb).filter (p I)).toArray).getD I #[] = #[] := by
      simp [Array.getD_eq_getD_getElem?, hI]
    rw [e]
    simp [hI]

/-- fewer stored entries, fewer blocks -/
theorem patOf_mono (nbr ncb rpb cpb : Nat) {rows' rows : Rows K} (h : ColsSub rows' rows) (I J : Nat)
    (hm : ((patOf nbr ncb rpb cpb rows').getD I #[]).contains J = true) :
    ((patOf nbr ncb rpb cpb rows).getD I #[]).contains J = true := by
  unfold patOf at hm ⊢
  rw [contains_rangeFilter] at hm ⊢
  obtain ⟨h1, h2, h3⟩ := hm
  refine ⟨h1, h2, ?_⟩
  rw [List.any_eq_true] at h3 ⊢
  obtain ⟨bi, hbi, h4⟩ := h3
  refine ⟨bi, hbi, ?_⟩
  rw [List.any_eq_true] at h4 ⊢
  obtain ⟨cv, hcv, h5⟩ := h4
  obtain ⟨cv', hcv', e⟩ := h (I * rpb + bi) cv hcv
  exact ⟨cv', hcv', by rw [e]; exact h5⟩

theorem rootPat_mono (ncb rpb cpb : Nat) (cpts : Array Nat) {pat' pat : Pat} (hs : pat'.size = pat.size)
    (h : ∀ I J, (pat'.getD I #[]).contains J = true → (pat.getD I #[]).contains J = true) (I J : Nat)
    (hm : ((rootPat ncb rpb cpb cpts pat').getD I #[]).contains J = true) :
    ((rootPat ncb rpb cpb cpts pat).getD I #[]).contains J = true := by
  unfold rootPat at hm ⊢
  rw [contains_rangeFilter] at hm ⊢
  obtain ⟨h1, h2, h3⟩ := hm
  refine ⟨by rw [← hs]; exact h1, h2, ?_⟩
  rw [Bool.or_eq_true] at h3 ⊢
  rcases h3 with h3 | h3
  · left
    by_cases hall : ((List.range rpb).all fun bi => cpts.contains (I * rpb + bi)) = true
    · rw [if_pos hall] at h3; simp at h3
    · rw [if_neg hall] at h3 ⊢
      exact h I J h3
  · right; exact h3

/-- **the pre-filter only removes blocks**: the selected pattern lies inside the unfiltered pattern
`Atilde^degree·pattern(T)` (`degree = 0`: the stored blocks of `T`) with the same root rows -/
theorem energyPattern_subset (nsq : K → Rat) (degree : Nat) (pre : Filt) (root : Bool) (n m rpb cpb : Nat)
    (atilde : Rows K) (tpat : Pat) (T : Mat K) (cpts : Array Nat) (I J : Nat)
    (hm : ((energyPattern nsq degree pre root n m rpb cpb atilde tpat T cpts).getD I #[]).contains J = true) :
    ((energyPattern nsq degree ⟨none, none⟩ root n m rpb cpb atilde tpat T cpts).getD I #[]).contains J = true := by
  have hnone : ∀ rows : Rows K, applyFilt nsq ⟨none, none⟩ rows = rows := fun _ => rfl
  have key : ∀ I J,
      ((if degree = 0 then patOf (n / rpb) (m / cpb) rpb cpb (applyFilt nsq pre (bsrRows rpb cpb tpat T))
        else patOf (n / rpb) (m / cpb) 1 1 (applyFilt nsq pre (spmmPow atilde degree (onesRows tpat)))).getD I #[]).contains J = true →
      ((if degree = 0 then patOf (n / rpb) (m / cpb) rpb cpb (applyFilt nsq ⟨none, none⟩ (bsrRows rpb cpb tpat T))
        else patOf (n / rpb) (m / cpb) 1 1 (applyFilt nsq ⟨none, none⟩ (spmmPow atilde degree (onesRows tpat)))).getD I #[]).contains J = true := by
    intro I J h
    by_cases hd : degree = 0
    · rw [if_pos hd] at h ⊢
      rw [hnone]
      exact patOf_mono _ _ _ _ (applyFilt_sub nsq pre _) I J h
    · rw [if_neg hd] at h ⊢
      rw [hnone]
      exact patOf_mono _ _ _ _ (applyFilt_sub nsq pre _) I J h
  unfold energyPattern at hm ⊢
  dsimp only at hm ⊢
  cases root with
  | false =>
    simp only [Bool.false_eq_true, if_false] at hm ⊢
    exact key I J hm
  | true =>
    simp only [if_true] at hm ⊢
    refine rootPat_mono _ _ _ _ ?_ key I J hm
    by_cases hd : degree = 0
    · rw [if_pos hd, if_pos hd]; simp [patOf]
    · rw [if_neg hd, if_neg hd]; simp [patOf]

/-- **`supp(P − T) ⊆ Atilde^degree·pattern(T)` for every pre-filter** (single pass, no fitting pass, non-root rows):
the clause the independent oracle of the check judges, for the composed model -/
theorem energyFull_support_unfiltered {ι : Type} {n m : Nat} (nsq : K → Rat) (o : Opts) (nd rpb cpb : Nat)
    (atilde : Rows K) (tpat : Pat) (T B Bf : Mat K) (cpts : Array Nat) (out : Out K ι)
    (h : FullProp nsq o n m nd rpb cpb atilde tpat T B Bf cpts out) (hf : out.fitted = false) (hs : out.second = false)
    (i : Fin n) (hroot : PyamgV.C10c.rootIdx cpts i.val = none) (j : Fin m)
    (hj : ¬ (((energyPattern nsq o.degree ⟨none, none⟩ o.root n m rpb cpb atilde tpat T cpts).getD (i.val / rpb) #[]).contains
      (j.val / cpb) = true)) :
    out.P.get i.val j.val = T.get i.val j.val := by
  obtain ⟨hp1, _, _, _, hrel, _⟩ := h
  have hpat : out.pat = out.pat1 := by
    unfold Out.pat
    rw [hs]; simp
  have := ((hrel hf hs).2.1 i hroot).2 j (by
    rw [hpat, hp1]
    intro hc
    exact hj (energyPattern_subset nsq o.degree o.pre o.root n m rpb cpb atilde tpat T cpts _ _ hc))
  exact this

end PyamgV.C10d
