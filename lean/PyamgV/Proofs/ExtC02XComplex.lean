import PyamgV.Proofs.ExtC02XRefine
import PyamgV.Proofs.ExtC02XField
import PyamgV.Proofs.ExtComplexGsEnergy

/-! PyamgV (extension E35, property C02): **the executable cycle model over the Gaussian rationals**
(`C02.cycle` on `CRat` data: the same definition the real check runs, the kernel models contain no conjugation;
`R = Pᴴ` is built by `C02X.mkHierarchyH`).

A complex vector `x : Array CRat` is read as the pair `cread.ρ x = toPair (fn x) = (Re x, Im x)` in
`(ℕ → ℚ) × (ℕ → ℚ)`, a CSR matrix as `ccsrOp n (rowOf A)` (its realification; `ccsrOp_apply`: the complex
matrix-vector product), the complex energy `⟨e, A e⟩` (real for Hermitian `A`) is `cEnergy`.

* `cspmv_refines`, `csm_refines` : the model's `A @ x` and smoothers, read through `cread`, are `ccsrOp` and `csmF`.
* `csorRow_energy`, `csorSweep_cnonexp` : the SOR kernel with real `0 ≤ ω ≤ 2` on a Hermitian PSD matrix.
* `cjacobi_cnonexp` : the Jacobi kernel with real `ω ≥ 0` under the damping bound, complex diagonal allowed.
* `csmF_cnonexp` : every admissible smoother of the model is `CNonExp`.
* `ccycle_refines` : the model cycle on `CRat` arrays read through `cread` is the abstract recursion `cyc`.
* `cmodel_cycle_nonexp` : **C02 for the executable complex model**. -/
set_option linter.unusedSectionVars false
set_option linter.unusedVariables false
namespace PyamgV.C02X
open PyamgV Finset

abbrev CPair := (Nat → ℚ) × (Nat → ℚ)

/-! ### reading `CRat` arrays as pairs -/

theorem toPair_add (x y : Nat → CRat) : toPair (x + y) = toPair x + toPair y := by
  unfold toPair; ext i <;> simp

theorem toPair_zero : toPair (0 : Nat → CRat) = 0 := by
  unfold toPair; ext i <;> simp

theorem toPair_injective {x y : Nat → CRat} (h : toPair x = toPair y) : x = y := by
  have := congrArg ofPair h
  simpa using this

/-- the reading of complex arrays: real and imaginary part -/
def cread : Reading CRat CPair where
  ρ x := toPair (fn x)
  sub x y h := by rw [vsub_refines x y h, toPair_sub]
  add x y h := by rw [vadd_refines x y h, toPair_add]
  zero n := by rw [zeros_refines, toPair_zero]

theorem cread_apply (x : Array CRat) : cread.ρ x = toPair (fn x) := rfl

theorem csrOp_ge (n : Nat) (rows : Nat → Row ℚ) (u : Nat → ℚ) (i : Nat) (h : ¬ i < n) :
    csrOp n rows u i = 0 := by simp [csrOp, h]

/-- the model's `A @ x` over `CRat` is the realified CSR operator -/
theorem cspmv_refines (A : K.Csr CRat) (x : Array CRat) :
    cread.ρ (C02.spmv A x) = ccsrOp A.n (rowOf A) (cread.ρ x) := by
  rw [cread_apply, cread_apply]
  have key : ∀ i, ((toPair (fn (C02.spmv A x))).1 i = (ccsrOp A.n (rowOf A) (toPair (fn x))).1 i) ∧
      ((toPair (fn (C02.spmv A x))).2 i = (ccsrOp A.n (rowOf A) (toPair (fn x))).2 i) := by
    intro i
    by_cases hi : i < A.n
    · obtain ⟨h1, h2⟩ := ccsrOp_apply A.n (rowOf A) (fn x) i hi
      rw [h1, h2]
      have := spmv_rd_field A x i hi
      unfold toPair fn
      simp only
      rw [this]
      exact ⟨rfl, rfl⟩
    · have hz : fn (C02.spmv A x) i = 0 := fn_zero_of_size _ i (by rw [spmv_size]; omega)
      unfold ccsrOp
      simp only [cx_apply, Pi.sub_apply, Pi.add_apply, csrOp_ge _ _ _ i hi]
      unfold toPair
      simp only [hz]
      constructor <;> simp
  apply Prod.ext
  · funext i; exact (key i).1
  · funext i; exact (key i).2

/-! ### the smoothers of the model over a field without order -/

variable {F : Type} [Field F] [DecidableEq F]

theorem kiter_refines (f : Array F → Array F) (g : (Nat → F) → (Nat → F) → (Nat → F)) (b : Nat → F) (n : Nat)
    (h : ∀ x : Array F, x.size = n → (f x).size = n ∧ fn (f x) = g (fn x) b) :
    ∀ (k : Nat) (x : Array F), x.size = n →
      (K.iter f k x).size = n ∧ fn (K.iter f k x) = PyamgV.iter g b k (fn x) := by
  intro k
  induction k with
  | zero => intro x hx; exact ⟨hx, rfl⟩
  | succ k ih =>
    intro x hx
    obtain ⟨h1, h2⟩ := h x hx
    have := ih (f x) h1
    simp only [K.iter, PyamgV.iter]
    rw [← h2]; exact this

/-- `sm_refines` over any field: the smoother of the model read as functions is `smF` -/
theorem sm_refines_field (s : C02.Sm F) (A : K.Csr F) (b x : Array F) (hx : x.size = A.n) :
    (s.run A b x).size = x.size ∧ fn (s.run A b x) = smF s A (fn x) (fn b) := by
  cases s with
  | none => exact ⟨rfl, rfl⟩
  | jac ω it =>
    simp only [C02.Sm.run, smF, K.pyJacobi]
    have := kiter_refines (fun x => K.jacobi ω A b (List.range A.n) (Array.replicate x.size 0) x)
      (fun x b => jacSweepFn ω (rowOf A) b x (List.range A.n) x) (fn b) A.n
      (fun x hx => jacobi_refines ω A b x A.n hx) it x hx
    exact ⟨by rw [this.1, hx], this.2⟩
  | gs ω sw it =>
    have hrows : ∀ i ∈ pyOrder A.n it sw, i < x.size := fun i hi => by
      rw [hx]; exact pyOrder_lt _ _ _ i hi
    simp only [C02.Sm.run, smF]
    rw [pyGaussSeidel_eq]
    by_cases hω : ω = 1
    · rw [if_pos hω, if_pos hω]; exact gaussSeidel_refines_field A b _ x hrows
    · rw [if_neg hω, if_neg hω]; exact sorGaussSeidel_refines ω A b _ x hrows

/-- the smoother of the complex model on pairs -/
def csmF (s : C02.Sm CRat) (A : K.Csr CRat) (X B : CPair) : CPair :=
  toPair (smF s A (ofPair X) (ofPair B))

theorem csm_refines (s : C02.Sm CRat) (A : K.Csr CRat) (b x : Array CRat) (hx : x.size = A.n) :
    (s.run A b x).size = x.size ∧ cread.ρ (s.run A b x) = csmF s A (cread.ρ x) (cread.ρ b) := by
  obtain ⟨h1, h2⟩ := sm_refines_field s A b x hx
  refine ⟨h1, ?_⟩
  rw [cread_apply, h2]
  simp [csmF, cread_apply]

/-! ### SOR with a real relaxation parameter on a Hermitian PSD matrix -/

/-- SOR is the damped Gauss-Seidel correction (any field) -/
theorem sorRow_eq_field (ω : F) (i : Nat) (row : Row F) (b x : Nat → F) :
    sorRowFn ω i row b x = x + ω • (gsRowFn i row b x - x) := by
  unfold sorRowFn gsRowFn
  rw [show rowScan i row x = ((rowScan i row x).1, (rowScan i row x).2) from rfl]
  by_cases h : (rowScan i row x).2 = 0
  · simp [h]
  · simp only [h, if_false]
    funext j
    by_cases hj : j = i
    · subst hj; simp; ring
    · simp [Function.update_of_ne hj]

/-- multiplication by a real scalar on the realified space -/
theorem toPair_rsmul (w : ℚ) (v : Nat → CRat) : toPair ((⟨w, 0⟩ : CRat) • v) = w • toPair v := by
  unfold toPair
  ext i <;> simp

/-- **the complex Gauss-Seidel correction is energy-orthogonal to the new error** -/
theorem cgsRow_orth (n : Nat) (rows : Nat → Row CRat)
    (hH : IsCAdj (euc ℚ n) (euc ℚ n) (ccsrOp n rows) (ccsrOp n rows))
    (hp : ∀ w, 0 ≤ (cip (euc ℚ n) (ccsrOp n rows w) w).1)
    (i : Nat) (hi : i < n) (d : CRat) (hd : HasDiag i (rows i) d) (hd0 : d ≠ 0) (b x xs : Nat → CRat)
    (hxs : ∀ j, j < n → rowDot (rows j) xs = b j) :
    (cEnergy (euc ℚ n) (ccsrOp n rows) hH hp).a
      ((toPair xs - toPair x) - toPair (gsRowFn i (rows i) b x - x)) (toPair (gsRowFn i (rows i) b x - x)) = 0 := by
  set x' := gsRowFn i (rows i) b x with hx'
  have hres := gsRow_residual_zero_field i (rows i) b x d hd hd0
  rw [← hx'] at hres
  obtain ⟨v, hv⟩ : ∃ v : CRat, x' = Function.update x i v :=
    ⟨_, gsRowFn_eq_field i (rows i) b x d hd hd0⟩
  set dv : CPair :=
    (((v - x i).re) • Pi.single i (1 : ℚ), ((v - x i).im) • Pi.single i (1 : ℚ)) with hdv
  have hupd : toPair (x' - x) = dv := by
    rw [hv, hdv]; unfold toPair
    ext j
    · by_cases hj : j = i
      · subst hj; simp
      · simp [Function.update_of_ne hj, Pi.single_apply, hj]
    · by_cases hj : j = i
      · subst hj; simp
      · simp [Function.update_of_ne hj, Pi.single_apply, hj]
  have key : (toPair xs - toPair x) - toPair (x' - x) = toPair xs - toPair x' := by
    rw [toPair_sub x' x]; abel
  rw [key, hupd]
  show (euc ℚ n).realify.a (ccsrOp n rows (toPair xs - toPair x')) dv = 0
  rw [EForm.realify_apply, hdv]
  simp only
  rw [euc_single n i hi, euc_single n i hi, map_sub]
  obtain ⟨a1, a2⟩ := ccsrOp_apply n rows xs i hi
  obtain ⟨c1, c2⟩ := ccsrOp_apply n rows x' i hi
  simp only [Prod.fst_sub, Prod.snd_sub, Pi.sub_apply]
  rw [a1, a2, c1, c2, hxs i hi]
  have r1 := congrArg CRat.re hres
  have r2 := congrArg CRat.im hres
  rw [CRat.sub_re, CRat.zero_re] at r1
  rw [CRat.sub_im, CRat.zero_im] at r2
  rw [r1, r2]; ring

/-- **one row of the complex SOR kernel, real `0 ≤ ω ≤ 2`, does not increase the complex energy of the error** -/
theorem csorRow_energy (n : Nat) (rows : Nat → Row CRat)
    (hH : IsCAdj (euc ℚ n) (euc ℚ n) (ccsrOp n rows) (ccsrOp n rows))
    (hp : ∀ w, 0 ≤ (cip (euc ℚ n) (ccsrOp n rows w) w).1)
    (i : Nat) (hi : i < n) (d : CRat) (hd : HasDiag i (rows i) d) (w : ℚ) (h0 : 0 ≤ w) (h2 : w ≤ 2)
    (b x xs : Nat → CRat) (hxs : ∀ j, j < n → rowDot (rows j) xs = b j) :
    (cEnergy (euc ℚ n) (ccsrOp n rows) hH hp).en (toPair xs - toPair (sorRowFn ⟨w, 0⟩ i (rows i) b x)) ≤
    (cEnergy (euc ℚ n) (ccsrOp n rows) hH hp).en (toPair xs - toPair x) := by
  by_cases hd0 : d = 0
  · obtain ⟨_, hh⟩ := rowScan_spec_field i (rows i) x (0, 0)
    have hdiag : (rowScan i (rows i) x).2 = 0 := by
      unfold rowScan; rw [hh]; unfold HasDiag at hd; rw [hd]; simp [hd0]
    have : sorRowFn (⟨w, 0⟩ : CRat) i (rows i) b x = x := by
      unfold sorRowFn
      rw [show rowScan i (rows i) x = ((rowScan i (rows i) x).1, (rowScan i (rows i) x).2) from rfl]
      simp [hdiag]
    rw [this]
  · rw [sorRow_eq_field]
    have horth := cgsRow_orth n rows hH hp i hi d hd hd0 b x xs hxs
    have : toPair xs - toPair (x + (⟨w, 0⟩ : CRat) • (gsRowFn i (rows i) b x - x)) =
        (toPair xs - toPair x) - w • toPair (gsRowFn i (rows i) b x - x) := by
      rw [toPair_add, toPair_rsmul]; abel
    rw [this, EForm.en_sub_smul _ _ _ w horth]
    have hn := (cEnergy (euc ℚ n) (ccsrOp n rows) hH hp).nonneg (toPair (gsRowFn i (rows i) b x - x))
    have : 0 ≤ w * (2 - w) := mul_nonneg h0 (by linarith)
    unfold EForm.en at *
    nlinarith [mul_nonneg this hn]

theorem csorSweep_energy (n : Nat) (rows : Nat → Row CRat) (hH) (hp)
    (diag : Nat → CRat) (hdiag : ∀ i, i < n → HasDiag i (rows i) (diag i)) (w : ℚ) (h0 : 0 ≤ w) (h2 : w ≤ 2)
    (order : List Nat) (horder : ∀ i ∈ order, i < n) (b xs : Nat → CRat)
    (hxs : ∀ j, j < n → rowDot (rows j) xs = b j) :
    ∀ x, (cEnergy (euc ℚ n) (ccsrOp n rows) hH hp).en
          (toPair xs - toPair (sorSweepFn ⟨w, 0⟩ rows b order x)) ≤
        (cEnergy (euc ℚ n) (ccsrOp n rows) hH hp).en (toPair xs - toPair x) := by
  induction order with
  | nil => intro x; simp [sorSweepFn]
  | cons i rest ih =>
    intro x
    have hi : i < n := horder i (by simp)
    have h1 := csorRow_energy n rows hH hp i hi (diag i) (hdiag i hi) w h0 h2 b x xs hxs
    have h2' := ih (fun j hj => horder j (by simp [hj])) (sorRowFn ⟨w, 0⟩ i (rows i) b x)
    unfold sorSweepFn at h2' ⊢
    simp only [List.foldl_cons]
    exact le_trans h2' h1

/-- a solution of the realified system solves the complex rows -/
theorem rows_of_ccsrOp (n : Nat) (rows : Nat → Row CRat) (XS B : CPair) (hb : ccsrOp n rows XS = B) :
    ∀ j, j < n → rowDot (rows j) (ofPair XS) = ofPair B j := by
  intro j hj
  obtain ⟨h1, h2⟩ := ccsrOp_apply n rows (ofPair XS) j hj
  rw [toPair_ofPair, hb] at h1 h2
  exact CRat.ext' h1.symm h2.symm

/-- **the complex SOR sweep (any row list, real `0 ≤ ω ≤ 2`) is a non-expansive smoother in the complex energy norm** -/
theorem csorSweep_cnonexp (n : Nat) (rows : Nat → Row CRat)
    (hH : IsCAdj (euc ℚ n) (euc ℚ n) (ccsrOp n rows) (ccsrOp n rows))
    (hp : ∀ w, 0 ≤ (cip (euc ℚ n) (ccsrOp n rows w) w).1)
    (diag : Nat → CRat) (hdiag : ∀ i, i < n → HasDiag i (rows i) (diag i)) (w : ℚ) (h0 : 0 ≤ w) (h2 : w ≤ 2)
    (order : List Nat) (horder : ∀ i ∈ order, i < n) :
    CNonExp (euc ℚ n) (ccsrOp n rows)
      (fun X B => toPair (sorSweepFn ⟨w, 0⟩ rows (ofPair B) order (ofPair X))) := by
  rw [cNonExp_iff (euc ℚ n) (ccsrOp n rows) hH hp]
  intro X B XS hb
  have := csorSweep_energy n rows hH hp diag hdiag w h0 h2 order horder (ofPair B) (ofPair XS)
    (rows_of_ccsrOp n rows XS B hb) (ofPair X)
  simpa using this

/-! ### Jacobi with a real damping parameter -/

/-- `r ↦ (cᵢ rᵢ)_{i<n}` -/
def dscale (n : Nat) (c : Nat → ℚ) : (Nat → ℚ) →ₗ[ℚ] (Nat → ℚ) where
  toFun r := fun i => if i < n then c i * r i else 0
  map_add' u v := by funext i; by_cases h : i < n <;> simp [h, mul_add]
  map_smul' a u := by funext i; by_cases h : i < n <;> simp [h]; ring

/-- the realification of `r ↦ D⁻¹ r` (complex diagonal `D`) on the first `n` coordinates -/
def cjacDinv (n : Nat) (diag : Nat → CRat) : CPair →ₗ[ℚ] CPair :=
  cx (dscale n (fun i => ((diag i)⁻¹).re)) (dscale n (fun i => ((diag i)⁻¹).im))

/-- **the complex Jacobi kernel call with real `ω` is `x + ω D⁻¹ (b − A x)`** on the realified space -/
theorem cjacSweep_eq_operator (w : ℚ) (n : Nat) (rows : Nat → Row CRat) (diag : Nat → CRat)
    (hdiag : ∀ i, i < n → HasDiag i (rows i) (diag i) ∧ diag i ≠ 0) (b x : Nat → CRat) :
    toPair (jacSweepFn ⟨w, 0⟩ rows b x (List.range n) x) =
      toPair x + w • cjacDinv n diag (toPair b - ccsrOp n rows (toPair x)) := by
  have hf := fun j => jacSweep_formula (⟨w, 0⟩ : CRat) n rows diag hdiag b x (List.range n)
    (fun i hi => by simpa using hi) x j
  have key : ∀ j, (toPair (jacSweepFn ⟨w, 0⟩ rows b x (List.range n) x)).1 j =
        (toPair x + w • cjacDinv n diag (toPair b - ccsrOp n rows (toPair x))).1 j ∧
      (toPair (jacSweepFn ⟨w, 0⟩ rows b x (List.range n) x)).2 j =
        (toPair x + w • cjacDinv n diag (toPair b - ccsrOp n rows (toPair x))).2 j := by
    intro j
    have hj' := hf j
    by_cases hj : j < n
    · have hm : j ∈ List.range n := by simpa using hj
      rw [if_pos hm] at hj'
      obtain ⟨c1, c2⟩ := ccsrOp_apply n rows x j hj
      unfold toPair at c1 c2 ⊢
      simp only [cjacDinv, cx_apply, Prod.fst_add, Prod.snd_add, Prod.smul_fst, Prod.smul_snd, Pi.add_apply,
        Pi.smul_apply, Pi.sub_apply, Prod.fst_sub, Prod.snd_sub, smul_eq_mul, dscale, LinearMap.coe_mk,
        AddHom.coe_mk, hj, if_true, c1, c2, hj']
      rw [div_eq_mul_inv]
      simp only [CRat.add_re, CRat.add_im, CRat.mul_re, CRat.mul_im, CRat.sub_re, CRat.sub_im]
      constructor <;> ring
    · have hm : j ∉ List.range n := by simpa using hj
      rw [if_neg hm] at hj'
      unfold toPair
      simp only [cjacDinv, cx_apply, Prod.fst_add, Prod.snd_add, Prod.smul_fst, Prod.smul_snd, Pi.add_apply,
        Pi.smul_apply, Pi.sub_apply, smul_eq_mul, dscale, LinearMap.coe_mk, AddHom.coe_mk, hj, if_false, hj']
      constructor <;> ring
  apply Prod.ext
  · funext j; exact (key j).1
  · funext j; exact (key j).2

theorem toPair_iter (g : (Nat → CRat) → (Nat → CRat) → (Nat → CRat)) (G : CPair → CPair → CPair)
    (h : ∀ x b, toPair (g x b) = G (toPair x) (toPair b)) (b : Nat → CRat) :
    ∀ (k : Nat) (x : Nat → CRat), toPair (PyamgV.iter g b k x) = PyamgV.iter G (toPair b) k (toPair x) := by
  intro k
  induction k with
  | zero => intro x; rfl
  | succ k ih => intro x; simp only [PyamgV.iter]; rw [ih, h]

/-- **the complex Jacobi kernel (real `ω ≥ 0`, any number of iterations) is non-expansive in the complex energy
norm under the damping bound** `ω ‖D⁻¹ r‖²_A ≤ 2 Re⟨D⁻¹ r, r⟩` (i.e. `ω λ_max(D⁻¹ A) ≤ 2`) -/
theorem cjacobi_cnonexp (n : Nat) (rows : Nat → Row CRat)
    (hH : IsCAdj (euc ℚ n) (euc ℚ n) (ccsrOp n rows) (ccsrOp n rows))
    (hp : ∀ w, 0 ≤ (cip (euc ℚ n) (ccsrOp n rows w) w).1)
    (diag : Nat → CRat) (hdiag : ∀ i, i < n → HasDiag i (rows i) (diag i) ∧ diag i ≠ 0)
    (w : ℚ) (h0 : 0 ≤ w)
    (hD : ∀ r, w * (euc ℚ n).realify.a (ccsrOp n rows (cjacDinv n diag r)) (cjacDinv n diag r) ≤
      2 * (euc ℚ n).realify.a (cjacDinv n diag r) r) (it : Nat) :
    CNonExp (euc ℚ n) (ccsrOp n rows)
      (fun X B => toPair (PyamgV.iter (fun x b => jacSweepFn ⟨w, 0⟩ rows b x (List.range n) x)
        (ofPair B) it (ofPair X))) := by
  rw [cNonExp_iff (euc ℚ n) (ccsrOp n rows) hH hp]
  have h1 := jacobi_nonexp (euc ℚ n).realify (ccsrOp n rows) (cjacDinv n diag) hH.isAdj hp w h0 hD
  have h2 := h1.iter it
  intro X B XS hb
  have := h2 X B XS hb
  beta_reduce
  rw [toPair_iter _ (fun X B => X + w • cjacDinv n diag (B - ccsrOp n rows X))
    (fun x b => cjacSweep_eq_operator w n rows diag hdiag b x)]
  simp only [toPair_ofPair]
  exact this

/-! ### every admissible smoother of the complex model -/

/-- admissible smoothers of the complex model: none; Gauss-Seidel / SOR with real `0 ≤ ω ≤ 2`; Jacobi with real
`ω ≥ 0`, non-zero diagonal and the damping bound -/
def csmOK : C02.Sm CRat → K.Csr CRat → (Nat → CRat) → Prop
  | .none, _, _ => True
  | .gs ω _ _, _, _ => ω.im = 0 ∧ 0 ≤ ω.re ∧ ω.re ≤ 2
  | .jac ω _, A, diag => ω.im = 0 ∧ 0 ≤ ω.re ∧ (∀ i, i < A.n → diag i ≠ 0) ∧
      ∀ r, ω.re * (euc ℚ A.n).realify.a (ccsrOp A.n (rowOf A) (cjacDinv A.n diag r)) (cjacDinv A.n diag r) ≤
        2 * (euc ℚ A.n).realify.a (cjacDinv A.n diag r) r

theorem csmF_cnonexp (s : C02.Sm CRat) (A : K.Csr CRat)
    (hH : IsCAdj (euc ℚ A.n) (euc ℚ A.n) (ccsrOp A.n (rowOf A)) (ccsrOp A.n (rowOf A)))
    (hp : ∀ w, 0 ≤ (cip (euc ℚ A.n) (ccsrOp A.n (rowOf A) w) w).1)
    (diag : Nat → CRat) (hdiag : ∀ i, i < A.n → HasDiag i (rowOf A i) (diag i)) (hok : csmOK s A diag) :
    CNonExp (euc ℚ A.n) (ccsrOp A.n (rowOf A)) (csmF s A) := by
  cases s with
  | none => intro x b xs _; exact le_refl _
  | jac ω it =>
    obtain ⟨him, h0, hnz, hD⟩ := hok
    have hω : ω = ⟨ω.re, 0⟩ := CRat.ext' rfl him
    have := cjacobi_cnonexp A.n (rowOf A) hH hp diag (fun i hi => ⟨hdiag i hi, hnz i hi⟩) ω.re h0 hD it
    unfold csmF
    simp only [smF]
    rw [hω]
    exact this
  | gs ω sw it =>
    obtain ⟨him, h0, h2⟩ := hok
    unfold csmF
    simp only [smF]
    by_cases hω : ω = 1
    · simp only [hω, if_true]
      exact cgsSweep_cnonexp A.n (rowOf A) hH hp diag hdiag (pyOrder A.n it sw) (pyOrder_lt _ _ _)
    · simp only [hω, if_false]
      have hω' : ω = ⟨ω.re, 0⟩ := CRat.ext' rfl him
      have := csorSweep_cnonexp A.n (rowOf A) hH hp diag hdiag ω.re h0 h2 (pyOrder A.n it sw) (pyOrder_lt _ _ _)
      rw [hω']
      exact this

/-! ### the complex model cycle is the abstract recursion -/

/-- a level of the complex model as a level of the abstract recursion on the realified space -/
def ctoLevel (L : C02.Lvl CRat) : Level ℚ CPair :=
  ⟨ccsrOp L.A.n (rowOf L.A), ccsrOp L.P.n (rowOf L.P), ccsrOp L.R.n (rowOf L.R), csmF L.pre L.A, csmF L.post L.A⟩

theorem ctoO_refL (L : C02.Lvl CRat) (hP : L.P.n = L.A.n) :
    RefL cread (toO L) (ctoLevel L) L.A.n L.R.n where
  A x _ := ⟨spmv_size _ _, cspmv_refines _ _⟩
  R r _ := ⟨spmv_size _ _, cspmv_refines _ _⟩
  P cx _ := ⟨by rw [← hP]; exact spmv_size _ _, cspmv_refines _ _⟩
  pre b x _ hx := by
    obtain ⟨h1, h2⟩ := csm_refines L.pre L.A b x hx
    exact ⟨by rw [← hx]; exact h1, h2⟩
  post b x _ hx := by
    obtain ⟨h1, h2⟩ := csm_refines L.post L.A b x hx
    exact ⟨by rw [← hx]; exact h1, h2⟩

theorem shaped_refH (nc : Nat) : ∀ (ls : List (C02.Lvl CRat)) (n : Nat), Shaped nc n ls →
    RefH (K := ℚ) cread nc n (ls.map toO) (ls.map ctoLevel) := by
  intro ls
  induction ls with
  | nil => intro n h; exact h
  | cons L rest ih =>
    intro n h
    obtain ⟨hA, hP, hrest⟩ := h
    subst hA
    exact ⟨L.R.n, ctoO_refL L hP, ih _ hrest⟩

/-- **the executable cycle model on `CRat` arrays, read as pairs of real functions, is the abstract recursion
`cyc`** for V, W, F(cycles_per_level), any depth, Gauss-Seidel / SOR / Jacobi smoothers (and keeps the sizes) -/
theorem ccycle_refines (solve : Array CRat → Array CRat) (solveF : CPair → CPair) (nc : Nat)
    (hsolve : ∀ b : Array CRat, b.size = nc → (solve b).size = nc ∧ cread.ρ (solve b) = solveF (cread.ρ b))
    (ls : List (C02.Lvl CRat)) (c : C02.Cyc) (cpl n : Nat) (x b : Array CRat)
    (hs : Shaped nc n ls) (hx : x.size = n) (hb : b.size = n) :
    (C02.cycle solve c cpl ls x b).size = n ∧
    cread.ρ (C02.cycle solve c cpl ls x b) =
      cyc solveF (ctype c cpl) (ls.map ctoLevel) (cread.ρ x) (cread.ρ b) := by
  rw [cycle_eq_cycleO]
  exact cycleO_refines cread solve solveF nc hsolve _ _ c cpl n x b (shaped_refH nc ls n hs) hx hb

/-! ### C02 for the executable complex model -/

/-- what the data of a complex model hierarchy has to satisfy (in the semantics of the arrays): per level `R` is
the Hermitian adjoint of `P`, the next matrix is the Galerkin product and has the matching size, every row of `A`
stores exactly one diagonal entry, the smoothers are admissible, the coarse problems are solvable; the coarsest
solve is exact in the energy norm -/
def CWFModel (solveF : CPair → CPair) (Ac : K.Csr CRat) : List (C02.Lvl CRat) → Prop
  | [] => ∀ b xs, ccsrOp Ac.n (rowOf Ac) xs = b →
      (cip (euc ℚ Ac.n) (ccsrOp Ac.n (rowOf Ac) (xs - solveF b)) (xs - solveF b)).1 = 0
  | L :: rest =>
      IsCAdj (euc ℚ L.A.n) (euc ℚ L.R.n) (ccsrOp L.P.n (rowOf L.P)) (ccsrOp L.R.n (rowOf L.R)) ∧
      (nextA Ac rest).n = L.R.n ∧
      ccsrOp L.R.n (rowOf (nextA Ac rest)) =
        ccsrOp L.R.n (rowOf L.R) ∘ₗ ccsrOp L.A.n (rowOf L.A) ∘ₗ ccsrOp L.P.n (rowOf L.P) ∧
      (∃ diag : Nat → CRat, (∀ i, i < L.A.n → HasDiag i (rowOf L.A i) (diag i)) ∧
        csmOK L.pre L.A diag ∧ csmOK L.post L.A diag) ∧
      (∀ r, ∃ w, (ccsrOp L.R.n (rowOf L.R) ∘ₗ ccsrOp L.A.n (rowOf L.A) ∘ₗ ccsrOp L.P.n (rowOf L.P)) w =
        ccsrOp L.R.n (rowOf L.R) r) ∧
      CWFModel solveF Ac rest

theorem CWFModel.toCWFG (solveF : CPair → CPair) (Ac : K.Csr CRat) :
    ∀ (ls : List (C02.Lvl CRat)), CWFModel solveF Ac ls →
      IsCAdj (euc ℚ (nextA Ac ls).n) (euc ℚ (nextA Ac ls).n)
        (ccsrOp (nextA Ac ls).n (rowOf (nextA Ac ls))) (ccsrOp (nextA Ac ls).n (rowOf (nextA Ac ls))) →
      (∀ w, 0 ≤ (cip (euc ℚ (nextA Ac ls).n) (ccsrOp (nextA Ac ls).n (rowOf (nextA Ac ls)) w) w).1) →
      CWFG solveF (euc ℚ (nextA Ac ls).n) (ccsrOp (nextA Ac ls).n (rowOf (nextA Ac ls)))
        (ls.map (fun L => (euc ℚ L.R.n, ctoLevel L))) := by
  intro ls
  induction ls with
  | nil => intro h _ _; exact h
  | cons L rest ih =>
    intro h hH hp
    obtain ⟨hadj, hn, hgal, ⟨diag, hdiag, hpre, hpost⟩, hsolv, hrest⟩ := h
    have hH0 : IsCAdj (euc ℚ L.A.n) (euc ℚ L.A.n) (ccsrOp L.A.n (rowOf L.A)) (ccsrOp L.A.n (rowOf L.A)) := hH
    have hp0 : ∀ w, 0 ≤ (cip (euc ℚ L.A.n) (ccsrOp L.A.n (rowOf L.A) w) w).1 := hp
    obtain ⟨g1, g2⟩ := cgalerkin_herm_psd (euc ℚ L.A.n) (euc ℚ L.R.n) _ _ _ hH0 hp0 hadj
    have := ih hrest (by rw [hn, hgal]; exact g1) (by rw [hn, hgal]; exact g2)
    rw [hn, hgal] at this
    exact ⟨rfl, hadj, csmF_cnonexp L.pre L.A hH0 hp0 diag hdiag hpre,
      csmF_cnonexp L.post L.A hH0 hp0 diag hdiag hpost, hsolv, this⟩

/-- **C02 for the executable model on complex Hermitian problems**: on a `CRat` model hierarchy whose data satisfy
`CWFModel` (Galerkin products, `R = Pᴴ`, Gauss-Seidel / SOR smoothing with real `0 ≤ ω ≤ 2` in any sweep mode,
Jacobi smoothing with real `ω` under its damping bound, energy-exact coarsest solve) and a Hermitian positive
semidefinite finest matrix, one V-, W- or F(k)-cycle *of the arrays-and-kernels model the driver runs against the
code* does not increase the complex energy `⟨e, A e⟩` of the error, for every `x`, `b` of the right size and every
solution `x*` of `A x* = b`. -/
theorem cmodel_cycle_nonexp (solve : Array CRat → Array CRat) (solveF : CPair → CPair)
    (Ac : K.Csr CRat) (ls : List (C02.Lvl CRat))
    (hsolve : ∀ b : Array CRat, b.size = Ac.n → (solve b).size = Ac.n ∧ cread.ρ (solve b) = solveF (cread.ρ b))
    (hshape : Shaped Ac.n (nextA Ac ls).n ls) (hwf : CWFModel solveF Ac ls)
    (hH : IsCAdj (euc ℚ (nextA Ac ls).n) (euc ℚ (nextA Ac ls).n)
      (ccsrOp (nextA Ac ls).n (rowOf (nextA Ac ls))) (ccsrOp (nextA Ac ls).n (rowOf (nextA Ac ls))))
    (hp : ∀ w, 0 ≤ (cip (euc ℚ (nextA Ac ls).n) (ccsrOp (nextA Ac ls).n (rowOf (nextA Ac ls)) w) w).1)
    (c : C02.Cyc) (cpl : Nat) (x b : Array CRat) (hx : x.size = (nextA Ac ls).n)
    (hb : b.size = (nextA Ac ls).n) (xs : CPair)
    (hxs : ccsrOp (nextA Ac ls).n (rowOf (nextA Ac ls)) xs = cread.ρ b) :
    (cEnergy (euc ℚ (nextA Ac ls).n) (ccsrOp (nextA Ac ls).n (rowOf (nextA Ac ls))) hH hp).en
        (xs - cread.ρ (C02.cycle solve c cpl ls x b)) ≤
    (cEnergy (euc ℚ (nextA Ac ls).n) (ccsrOp (nextA Ac ls).n (rowOf (nextA Ac ls))) hH hp).en
        (xs - cread.ρ x) := by
  obtain ⟨_, href⟩ := ccycle_refines solve solveF Ac.n hsolve ls c cpl _ x b hshape hx hb
  rw [href]
  have hg := ccycle_nonexp solveF (ctype c cpl) _ _ _ hH hp (CWFModel.toCWFG solveF Ac ls hwf hH hp)
  have hmap : (ls.map (fun L => (euc ℚ L.R.n, ctoLevel L))).map Prod.snd = ls.map ctoLevel := by
    rw [List.map_map]; rfl
  rw [hmap] at hg
  exact hg (cread.ρ x) (cread.ρ b) xs hxs

/-- the complex energy functional the driver compares: for Hermitian `A` and `A x* = b`,
`Re⟨x* − x, A (x* − x)⟩ = Re⟨x, A x⟩ − 2 Re⟨b, x⟩ + Re⟨x*, b⟩` -/
theorem cfunctional_eq (e : EForm ℚ (Nat → ℚ)) (A : CPair →ₗ[ℚ] CPair) (hH : IsCAdj e e A A)
    (hp : ∀ w, 0 ≤ (cip e (A w) w).1) (xs x b : CPair) (hxs : A xs = b) :
    (cEnergy e A hH hp).en (xs - x) =
      e.realify.a (A x) x - 2 * e.realify.a b x + e.realify.a b xs := by
  show e.realify.a (A (xs - x)) (xs - x) = _
  have hsym := hH.isAdj
  simp only [map_sub, LinearMap.sub_apply]
  rw [hxs, hsym x xs, hxs, e.realify.symm x b]
  ring

#print axioms csorRow_energy
#print axioms cjacobi_cnonexp
#print axioms csmF_cnonexp
#print axioms ccycle_refines
#print axioms cmodel_cycle_nonexp
#print axioms cfunctional_eq
end PyamgV.C02X
