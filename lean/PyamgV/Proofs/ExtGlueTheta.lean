import PyamgV.Proofs.ExtGlueApi
import PyamgV.Proofs.C14KNum

/-! PyamgV (extension E30, C11): the public functions with `theta` given.  The strength matrix is
`classical_strength_of_connection(A, theta, norm)` = kernel (array models `N.classicalAbs` /
`N.classicalMin`, whose rows are `C14.socRow` by `C14.kstep_eq`), `abs`, `scale_rows_by_largest_entry`,
`eliminate_zeros` (`Glue.apiSoc`).  For a canonical `A` with columns below `n` this matrix satisfies
every hypothesis of the `api_*_end_to_end` theorems by itself (canonical, inside the non-zero pattern
of `A`), so `classical_interpolation(A, ·, splitting, theta, norm, modified)` and
`direct_interpolation(A, ·, splitting, theta, norm)` are related to the proof-side operators on the
strength rows `socRows … .filter nz` = "the kernel's rule applied to row `i` of `A`, stored zeros
dropped", with no hypothesis on a strength matrix left. -/
namespace PyamgV.Glue
open PyamgV.N PyamgV.C11 PyamgV.C11M PyamgV.C11X

/-- row `i` of the strength kernel's output (`C14.socRow`: the rule of
`classical_strength_of_connection_abs/min` on the stored entries of row `i`, diagonal always kept) -/
def socRows (tiny θ : Rat) (normAbs : Bool) (A : Csr) (i : Nat) : List (Nat × Rat) :=
  if normAbs then C14.socRow absQ tiny θ i (row A i) else C14.socRow C14.negQ 0 θ i (row A i)

theorem ofRows_congr (n : Nat) (r1 r2 : Nat → List (Nat × Rat)) (h : ∀ i < n, r1 i = r2 i) :
    ofRows n r1 = ofRows n r2 := by
  unfold ofRows
  have : (List.range n).foldl (ofRowsStep r1) (#[0], #[], #[]) =
      (List.range n).foldl (ofRowsStep r2) (#[0], #[], #[]) := by
    apply List.foldl_ext
    intro acc i hi
    unfold ofRowsStep
    rw [h i (List.mem_range.1 hi)]
  rw [this]

theorem eliminateZeros_idem (X : Csr) : eliminateZeros (eliminateZeros X) = eliminateZeros X := by
  show ofRows X.n (fun i => (row (eliminateZeros X) i).filter nz) = ofRows X.n (fun i => (row X i).filter nz)
  apply ofRows_congr
  intro i hi
  rw [eliminateZeros_row X hi, List.filter_filter]
  simp

/-- the kernels' array models produce the CSR matrix with the rows `C14.socRow` -/
theorem kernel_csr (nrm : Rat → Rat) (tiny θ : Rat) (A : Csr) :
    (⟨A.n, ((List.range A.n).foldl (C14.kstep nrm tiny θ A) {}).sp,
      ((List.range A.n).foldl (C14.kstep nrm tiny θ A) {}).sj,
      ((List.range A.n).foldl (C14.kstep nrm tiny θ A) {}).sx⟩ : Csr) =
    ofRows A.n (fun i => C14.socRow nrm tiny θ i (row A i)) := by
  have hφ := foldl_hom (fun o : Out => (o.sp, o.sj, o.sx)) (C14.kstep nrm tiny θ A)
    (ofRowsStep (fun i => C14.socRow nrm tiny θ i (row A i)))
    (by
      intro o i
      rw [C14.kstep_eq]
      have : C14.rowOf A i = row A i := rfl
      simp [ofRowsStep, this]) (List.range A.n) {}
  unfold ofRows
  have h0 : ((#[0], #[], #[]) : Array Nat × Array Nat × Array Rat) =
      (fun o : Out => (o.sp, o.sj, o.sx)) {} := rfl
  rw [h0, hφ]

theorem apiSoc_kernel_row (tiny θ : Rat) (normAbs : Bool) (A : Csr) {i : Nat} (hi : i < A.n) :
    row ⟨A.n, (if normAbs then classicalAbs tiny θ A else classicalMin θ A).sp,
      (if normAbs then classicalAbs tiny θ A else classicalMin θ A).sj,
      (if normAbs then classicalAbs tiny θ A else classicalMin θ A).sx⟩ i = socRows tiny θ normAbs A i := by
  unfold socRows
  cases normAbs with
  | true =>
    simp only [if_true]
    have h : N.classicalAbs tiny θ A = (List.range A.n).foldl (C14.kstep absQ tiny θ A) {} := rfl
    rw [h, kernel_csr absQ tiny θ A, ofRows_row _ _ hi]
  | false =>
    simp only [Bool.false_eq_true, if_false]
    have h : N.classicalMin θ A = (List.range A.n).foldl (C14.kstep C14.negQ 0 θ A) {} := rfl
    rw [h, kernel_csr C14.negQ 0 θ A, ofRows_row _ _ hi]

@[simp] theorem apiSoc_n (tiny θ : Rat) (normAbs : Bool) (A : Csr) : (apiSoc tiny θ normAbs A).n = A.n := rfl

/-- **`classical_strength_of_connection(A, theta, norm)`, row `i`**: the kernel's entries with non-zero
value, in storage order, with positive values -/
theorem apiSoc_row (tiny θ : Rat) (ht : 0 < tiny) (normAbs : Bool) (A : Csr) {i : Nat} (hi : i < A.n) :
    ∃ s : Rat, 0 < s ∧ row (apiSoc tiny θ normAbs A) i =
      ((socRows tiny θ normAbs A i).filter nz).map (fun cv => (cv.1, absQ cv.2 * s)) := by
  unfold apiSoc
  rw [strengthTail_row tiny ht A.n _ hi, apiSoc_kernel_row tiny θ normAbs A hi]
  exact ⟨_, rowScale_pos tiny ht _, rfl⟩

theorem apiSoc_nz (tiny θ : Rat) (normAbs : Bool) (A : Csr) {i : Nat} (hi : i < A.n) :
    ∀ cv ∈ row (apiSoc tiny θ normAbs A) i, cv.2 ≠ 0 := by
  unfold apiSoc strengthTail
  exact eliminateZeros_nz _ (by exact hi)

theorem socRows_sublist (tiny θ : Rat) (normAbs : Bool) (A : Csr) (i : Nat) :
    (socRows tiny θ normAbs A i).Sublist (row A i) := by
  unfold socRows
  split <;> exact C14.socRow_sublist _ _ _ _ _

theorem lookup_of_mem (r : List (Nat × Rat)) (h : (r.map Prod.fst).Pairwise (· < ·)) {cv : Nat × Rat}
    (hcv : cv ∈ r) : Classical.lookup r cv.1 = cv.2 := by
  induction r with
  | nil => cases hcv
  | cons a r ih =>
    simp only [List.map_cons, List.pairwise_cons] at h
    rcases List.mem_cons.1 hcv with rfl | hcv
    · exact lookup_cons_eq _ r
    · have := h.1 cv.1 (List.mem_map.2 ⟨cv, hcv, rfl⟩)
      rw [lookup_cons_ne a r cv.1 (by omega), ih h.2 hcv]

section theta
variable (tiny θ : Rat) (ht : 0 < tiny) (normAbs : Bool) (A : Csr) (split : Array Int)
  (hcanA : isCanonical A = true) (hcolsA : ∀ i < A.n, ∀ cv ∈ row A i, cv.1 < A.n)
include ht hcanA hcolsA

/-- the recomputed strength matrix satisfies the hypotheses of the `api_*_end_to_end` theorems -/
theorem apiSoc_hyps :
    isCanonical (apiSoc tiny θ normAbs A) = true ∧
    (∀ i < (apiSoc tiny θ normAbs A).n, ∀ cv ∈ row (apiSoc tiny θ normAbs A) i, cv.1 < (apiSoc tiny θ normAbs A).n) ∧
    (∀ i < (apiSoc tiny θ normAbs A).n, ∀ cv ∈ row (apiSoc tiny θ normAbs A) i, cv.2 ≠ 0 → entry A i cv.1 ≠ 0) := by
  have hmem : ∀ i < A.n, ∀ cv ∈ row (apiSoc tiny θ normAbs A) i,
      ∃ cv' ∈ row A i, cv'.1 = cv.1 ∧ cv'.2 ≠ 0 := by
    intro i hi cv hcv
    obtain ⟨s, _, hrow⟩ := apiSoc_row tiny θ ht normAbs A hi
    rw [hrow] at hcv
    obtain ⟨cv', h1, rfl⟩ := List.mem_map.1 hcv
    obtain ⟨h2, h3⟩ := List.mem_filter.1 h1
    exact ⟨cv', (socRows_sublist tiny θ normAbs A i).subset h2, rfl, by simpa [nz] using h3⟩
  refine ⟨?_, ?_, ?_⟩
  · rw [isCanonical_iff]
    intro i hi
    have hi' : i < A.n := hi
    refine ⟨eliminateZeros_ap_mono _ hi, ?_⟩
    obtain ⟨s, _, hrow⟩ := apiSoc_row tiny θ ht normAbs A hi'
    rw [hrow, List.map_map]
    have hsub : (((socRows tiny θ normAbs A i).filter nz).map Prod.fst).Sublist ((row A i).map Prod.fst) :=
      ((List.filter_sublist).trans (socRows_sublist tiny θ normAbs A i)).map Prod.fst
    exact ((isCanonical_iff A).1 hcanA i hi').2.sublist hsub
  · intro i hi cv hcv
    obtain ⟨cv', h1, h2, _⟩ := hmem i hi cv hcv
    have := hcolsA i hi cv' h1
    show cv.1 < A.n
    omega
  · intro i hi cv hcv _
    obtain ⟨cv', h1, h2, h3⟩ := hmem i hi cv hcv
    rw [entry_eq_lookup, ← h2, ← row_eq_rowOf, lookup_of_mem (row A i) ((isCanonical_iff A).1 hcanA i hi).2 h1]
    exact h3

omit hcolsA in
/-- the strength matrix the theorems below are about: **row `i` is the kernel's rule applied to the
stored entries of row `i` of `A`, stored zeros dropped** (values of `A`) -/
theorem apiSoc_strength_row {i : Nat} (hi : i < A.n) :
    rowOf (strengthCsr A (apiSoc tiny θ normAbs A)) i = (socRows tiny θ normAbs A i).filter nz := by
  rw [strengthCsr_row A _ (show i < (apiSoc tiny θ normAbs A).n from hi)]
  unfold strengthRows
  obtain ⟨s, hs, hrow⟩ := apiSoc_row tiny θ ht normAbs A hi
  have hall : (row (apiSoc tiny θ normAbs A) i).filter nz = row (apiSoc tiny θ normAbs A) i := by
    apply List.filter_eq_self.2
    intro cv hcv
    have : cv.2 ≠ 0 := apiSoc_nz tiny θ normAbs A hi cv hcv
    simpa [nz] using this
  rw [hall, hrow, List.map_map]
  conv_rhs => rw [← List.map_id ((socRows tiny θ normAbs A i).filter nz)]
  apply List.map_congr_left
  intro cv hcv
  have hin : cv ∈ row A i := (socRows_sublist tiny θ normAbs A i).subset (List.mem_filter.1 hcv).1
  simp only [Function.comp_def, id]
  rw [entry_eq_lookup, ← row_eq_rowOf, lookup_of_mem (row A i) ((isCanonical_iff A).1 hcanA i hi).2 hin]

omit ht hcanA hcolsA in
theorem apiStrengthTheta_eq (modified : Bool) :
    apiStrengthTheta modified tiny θ normAbs A split = apiStrength modified A (apiSoc tiny θ normAbs A) split := by
  have h : eliminateZeros (apiSoc tiny θ normAbs A) = apiSoc tiny θ normAbs A := by
    unfold apiSoc strengthTail
    exact eliminateZeros_idem _
  unfold apiStrengthTheta apiStrength
  simp only [h]

omit ht hcanA hcolsA in
theorem apiClassicalTheta_eq (eps : Rat) (modified : Bool) :
    apiClassicalTheta eps modified tiny θ normAbs A split =
      apiClassical eps modified A (apiSoc tiny θ normAbs A) split := by
  unfold apiClassicalTheta apiClassical
  rw [apiStrengthTheta_eq]

/-- **`classical_interpolation(A, ·, splitting, theta, norm, modified=True)` end to end** (model
`apiClassicalTheta`, op `ext_c11_api_classical_theta`): strength kernel, its SciPy tail, the glue, pass 1
and pass 2 against `classicalModP` on the strength rows of `apiSoc_strength_row` -/
theorem apiClassicalTheta_modified_refines (hv : Valid split A.n) (eps : Rat) {i : Nat} (hi : i < A.n) :
    List.Forall₂ (fun (m : Int × Option Rat) (p : Nat × Rat) => m.1 = (p.1 : Int) ∧ ∀ x, m.2 = some x → x = p.2)
      (rowAt (-1 : Int) (none : Option Rat) (apiClassicalTheta eps true tiny θ normAbs A split).1
        (apiClassicalTheta eps true tiny θ normAbs A split).2.1
        (apiClassicalTheta eps true tiny θ normAbs A split).2.2 i)
      ((classicalModP eps (isC split) A.n (rowOf A)
        (rowOf (strengthCsr A (apiSoc tiny θ normAbs A)))).getD i []) := by
  obtain ⟨h1, h2, h3⟩ := apiSoc_hyps tiny θ ht normAbs A hcanA hcolsA
  rw [apiClassicalTheta_eq]
  exact apiClassical_modified_refines A (apiSoc tiny θ normAbs A) split rfl hv hcanA h1 h2 h3 eps hi

/-- **`classical_interpolation(A, ·, splitting, theta, norm, modified=False)` end to end** -/
theorem apiClassicalTheta_unmodified_refines (hv : Valid split A.n) (eps : Rat) {i : Nat} (hi : i < A.n) :
    List.Forall₂ (fun (m : Int × Option Rat) (p : Nat × Rat) => m.1 = (p.1 : Int) ∧ ∀ x, m.2 = some x → x = p.2)
      (rowAt (-1 : Int) (none : Option Rat) (apiClassicalTheta eps false tiny θ normAbs A split).1
        (apiClassicalTheta eps false tiny θ normAbs A split).2.1
        (apiClassicalTheta eps false tiny θ normAbs A split).2.2 i)
      ((classicalP eps (isC split) A.n (rowOf A)
        (rowOf (strengthCsr A (apiSoc tiny θ normAbs A)))).getD i []) := by
  obtain ⟨h1, h2, h3⟩ := apiSoc_hyps tiny θ ht normAbs A hcanA hcolsA
  rw [apiClassicalTheta_eq]
  exact apiClassical_unmodified_refines A (apiSoc tiny θ normAbs A) split rfl hv hcanA h1 h2 h3 eps hi

/-- **`direct_interpolation(A, ·, splitting, theta, norm)` end to end** -/
theorem apiDirectTheta_refines (hv : Valid split A.n) {i : Nat} (hi : i < A.n) :
    List.Forall₂ (fun (m : Nat × Option Rat) (p : Nat × Rat) => m.1 = p.1 ∧ ∀ x, m.2 = some x → x = p.2)
      (rowAt (0 : Nat) (none : Option Rat) (apiDirectTheta tiny θ normAbs A split).1
        (apiDirectTheta tiny θ normAbs A split).2.1 (apiDirectTheta tiny θ normAbs A split).2.2 i)
      ((directP (isC split) A.n (rowOf A) (rowOf (strengthCsr A (apiSoc tiny θ normAbs A)))).getD i []) := by
  obtain ⟨h1, h2, h3⟩ := apiSoc_hyps tiny θ ht normAbs A hcanA hcolsA
  exact apiDirect_refines A (apiSoc tiny θ normAbs A) split rfl hv hcanA h1 h2 h3 hi

end theta

end PyamgV.Glue
