import PyamgV.Proofs.ExtC03XPoly
import PyamgV.Proofs.ExtC03XNE
import PyamgV.Proofs.ExtC03XNR
import PyamgV.Proofs.ExtC03XSchwarz
import PyamgV.Proofs.ExtC03XJac
import PyamgV.Proofs.ExtC03XBlock

/-! PyamgV (extension E38, C03): the property theorems for the extended cycle model `cycX` / `solveX` / `precX` of
`Model/ExtC03XCyc.lean` -- the cycle whose smoothers are the executed relaxation kernels (polynomial / Chebyshev /
Richardson, block Jacobi, block Gauss-Seidel, `jacobi_ne`, `gauss_seidel_ne`, `gauss_seidel_nr`, CF / FC Jacobi, Schwarz,
Gauss-Seidel / SOR / Jacobi) on recorded data.

`Sm.opQ` is the operator of a recorded call, `sm_semLin` : every recorded call that is a call for the level matrix
(`Sm.OK`, decidable, evaluated by the driver) is the linear iteration `x + Q (b − A x)` of that matrix; hence
`cycX_affine` (one cycle is `x + M (b − A x)`, `M = MopX` the textbook composition), `cycX_fixed_point`,
`cycX_iter_error`, `precX_eq`.  `cycX_mat` / `mopX_mat`: with matrix smoothers the extended model is `C03.cycM` and its
operator is the matrix `mopM`. -/
namespace PyamgV.C03X
open PyamgV PyamgV.C03

/-- the operator `Q` of a recorded relaxation call (as a linear map on `ℕ → ℚ`) -/
noncomputable def Sm.opQ : Sm → (F →ₗ[Rat] F)
  | .mat Q => msem Q
  | .poly M cs it => Tn M.n ∘ₗ polyQ M cs it ∘ₗ Tn M.n
  | .bjac ω M Dinv it => Tn (M.nb * M.bs) ∘ₗ bjacQ ω M Dinv it ∘ₗ Tn (M.nb * M.bs)
  | .bgs M Dinv it sw => Tn (M.nb * M.bs) ∘ₗ bgsQ M Dinv it sw ∘ₗ Tn (M.nb * M.bs)
  | .jacne ω M it => Tn M.n ∘ₗ jacneQ ω M it ∘ₗ Tn M.n
  | .gsne ω M it sw => Tn M.n ∘ₗ gsneQ ω M it sw ∘ₗ Tn M.n
  | .gsnr ω M it sw => Tn M.n ∘ₗ gsnrQ ω M it sw ∘ₗ Tn M.n
  | .cfjac cf ω M C Fp it fIt cIt => Tn M.n ∘ₗ cfjacQ cf ω M C Fp it fIt cIt ∘ₗ Tn M.n
  | .schwarz M Tx Tp Sj Sp it sw => Tn M.n ∘ₗ schwarzQ M Tx Tp Sj Sp it sw ∘ₗ Tn M.n
  | .gs ω M it sw => Tn M.n ∘ₗ gsQ ω M it sw ∘ₗ Tn M.n
  | .jac ω M it => Tn M.n ∘ₗ jacQ ω M it ∘ₗ Tn M.n

/-- **every recorded relaxation call for the level matrix `A` is the linear iteration `x ← x + Q (b − A x)`**:
polynomial / Chebyshev / Richardson, block Jacobi, block Gauss-Seidel, `jacobi_ne`, `gauss_seidel_ne`,
`gauss_seidel_nr`, CF / FC Jacobi, Schwarz, Gauss-Seidel / SOR, Jacobi, matrix smoothers -/
theorem sm_semLin (A : Mat) (s : Sm) (h : s.OK A) : SemLin A (applySm A s) s.opQ := by
  cases s with
  | mat Q => exact semLin_smooth A Q
  | poly M cs it =>
    obtain ⟨hA, hc, hcs⟩ := h
    subst hA
    exact poly_semLin M cs it hc hcs
  | bjac ω M Dinv it =>
    obtain ⟨hA, hc, hbs, hD, hL⟩ := h
    subst hA
    exact bjac_semLin ω M Dinv it hc hbs hD hL
  | bgs M Dinv it sw =>
    obtain ⟨hA, hc, hbs, hD, hL⟩ := h
    subst hA
    exact bgs_semLin M Dinv it sw hc hbs hD hL
  | jacne ω M it =>
    obtain ⟨hA, hc⟩ := h
    subst hA
    exact jacne_semLin ω M it hc
  | gsne ω M it sw =>
    obtain ⟨hA, hc⟩ := h
    subst hA
    exact gsne_semLin ω M it sw hc
  | gsnr ω M it sw =>
    obtain ⟨hA, _⟩ := h
    subst hA
    exact gsnr_semLin ω M it sw
  | cfjac cf ω M C Fp it fIt cIt =>
    obtain ⟨hA, hc, hd, hC, hF⟩ := h
    subst hA
    exact cfjac_semLin cf ω M C Fp it fIt cIt hc hd hC hF
  | schwarz M Tx Tp Sj Sp it sw =>
    obtain ⟨hA, hc, hs⟩ := h
    subst hA
    exact schwarz_semLin M Tx Tp Sj Sp it sw hc hs
  | gs ω M it sw =>
    obtain ⟨hA, hc, hd⟩ := h
    subst hA
    exact gs_semLin ω M it sw hc hd
  | jac ω M it =>
    obtain ⟨hA, hc, hd⟩ := h
    subst hA
    exact jac_semLin ω M it hc hd

/-- each added smoother, seen through `sem`, satisfies the `IsLinIter` hypothesis of the abstract cycle theorems -/
theorem sm_isLinIter (A : Mat) (s : Sm) :
    IsLinIter (msem A) (fun x b => x + s.opQ (b - msem A x)) s.opQ := fun _ _ => rfl

/-- the level with the operators of its recorded smoothers -/
noncomputable def LvlX.toQ (L : LvlX) : LvlQ := ⟨L.toF, L.pre.opQ, L.post.opQ⟩

theorem LvlX.good (L : LvlX) (h : L.OK) : L.toQ.Good := ⟨sm_semLin L.A L.pre h.1, sm_semLin L.A L.post h.2⟩

/-- the abstract hierarchy denoted by recorded levels -/
noncomputable def absX (Ls : List LvlX) : List (LinLevel Rat F) := (Ls.map LvlX.toQ).map LvlQ.abs

/-- **the textbook operator of the extended model**: pre-smoother, `P · Mc · R`, post-smoother, with the recorded
smoothers' operators (`MopL` of Proofs/C03Lin.lean; no Galerkin condition) -/
noncomputable def MopX (S : Mat) (c : Cyc) (cpl : Nat) (Ls : List LvlX) : F →ₗ[Rat] F :=
  MopL (msem S) (C03.ctype c cpl) (absX Ls)

theorem map_toQ_L (Ls : List LvlX) : (Ls.map LvlX.toQ).map (·.L) = Ls.map LvlX.toF := by
  simp [List.map_map, LvlX.toQ, Function.comp_def]

/-- **refinement**: under `sem` the extended model is the abstract recursion `cyc` on the levels `absX` -/
theorem cycX_sem (S : Mat) (c : Cyc) (cpl : Nat) (L : LvlX) (Ls : List LvlX) (h : AllOK (L :: Ls)) (x b : Vec) :
    sem (cycX S c cpl (L :: Ls) x b) =
      cyc (fun v => msem S v) (C03.ctype c cpl) ((absX (L :: Ls)).map (·.toLevel)) (sem x) (sem b) := by
  have hL : L.toQ.Good := L.good (h L (by simp))
  have hLs : ∀ l ∈ Ls.map LvlX.toQ, l.Good := by
    intro l hl
    obtain ⟨l', hl', rfl⟩ := List.mem_map.1 hl
    exact l'.good (h l' (by simp [hl']))
  have := cycF_sem S (Ls.map LvlX.toQ) hLs c cpl L.toQ hL x b
  rw [← List.map_cons, map_toQ_L, map_toLevelQ] at this
  exact this

/-- **one cycle of the extended model is `x ← x + M (b − A x)`**, `M = MopX` a function of the hierarchy data, the
recorded smoothers, the cycle type and `cycles_per_level` only -/
theorem cycX_affine (S : Mat) (c : Cyc) (cpl : Nat) (L : LvlX) (Ls : List LvlX) (h : AllOK (L :: Ls)) (x b : Vec) :
    sem (cycX S c cpl (L :: Ls) x b) =
      sem x + MopX S c cpl (L :: Ls) (sem b - msem L.A (sem x)) := by
  have hL : L.toQ.Good := L.good (h L (by simp))
  have hLs : ∀ l ∈ Ls.map LvlX.toQ, l.Good := by
    intro l hl
    obtain ⟨l', hl', rfl⟩ := List.mem_map.1 hl
    exact l'.good (h l' (by simp [hl']))
  have := cycF_affine S c cpl L.toQ (Ls.map LvlX.toQ) hL hLs x b
  rw [← List.map_cons, map_toQ_L] at this
  exact this

/-- the exact solution is a fixed point of every cycle of the extended model -/
theorem cycX_fixed_point (S : Mat) (c : Cyc) (cpl : Nat) (L : LvlX) (Ls : List LvlX) (h : AllOK (L :: Ls))
    (xs b : Vec) (hb : msem L.A (sem xs) = sem b) : sem (cycX S c cpl (L :: Ls) xs b) = sem xs := by
  rw [cycX_affine S c cpl L Ls h, hb]; simp

/-- a cycle from the zero guess applies `M` -/
theorem cycX_zero (S : Mat) (c : Cyc) (cpl : Nat) (L : LvlX) (Ls : List LvlX) (h : AllOK (L :: Ls)) (n : Nat) (b : Vec) :
    sem (cycX S c cpl (L :: Ls) (zeros n) b) = MopX S c cpl (L :: Ls) (sem b) := by
  rw [cycX_affine S c cpl L Ls h, sem_zeros]; simp

/-- `k` cycles propagate the error by `e ↦ e − M A e`, `k` times -/
theorem cycX_iter_error (S : Mat) (c : Cyc) (cpl : Nat) (L : LvlX) (Ls : List LvlX) (h : AllOK (L :: Ls))
    (xs b : Vec) (hb : msem L.A (sem xs) = sem b) (k : Nat) (x : Vec) :
    sem xs - sem (iterN (fun x => cycX S c cpl (L :: Ls) x b) k x) =
      Nat.iterate (fun e => e - MopX S c cpl (L :: Ls) (msem L.A e)) k (sem xs - sem x) := by
  induction k generalizing x with
  | zero => rfl
  | succ k ih =>
    simp only [iterN, Nat.iterate]
    rw [ih, cycX_affine S c cpl L Ls h, ← hb]
    congr 1
    simp only [map_sub]
    abel

/-- **`aspreconditioner(cycle)` of the extended model is the linear map `M`** of the requested cycle type
(`cycles_per_level = 1`), whatever the tolerance test does -/
theorem precX_eq (S : Mat) (c : Cyc) (L : LvlX) (Ls : List LvlX) (h : AllOK (L :: Ls)) (stop : Vec → Bool) (v : Vec) :
    sem (precX S c (L :: Ls) stop v) = MopX S c 1 (L :: Ls) (sem v) := by
  simp only [precX, solveX, loopM_one, stepX]
  exact cycX_zero S c 1 L Ls h _ v

/-- `k` one-cycle calls equal one `k`-cycle call when the residual test of the latter does not fire early -/
theorem solveX_k_calls (S : Mat) (c : Cyc) (cpl : Nat) (Ls : List LvlX) (stop stop₁ : Vec → Bool)
    (b x0 : Vec) (k : Nat)
    (hstop : ∀ j, 1 ≤ j → j ≤ k → stop (iterN (stepX S c cpl Ls b) j x0) = false) :
    iterN (fun x => solveX S c cpl Ls stop₁ 1 b x) (k + 1) x0 = solveX S c cpl Ls stop (k + 1) b x0 := by
  unfold solveX
  rw [loopM_eq_iterN _ _ k x0 hstop]
  exact iterN_congr _ _ (fun x => loopM_one _ _ x) _ _

/-! ## the extended model contains the original one -/

/-- a level of `C03.cycM` as a level with recorded (matrix) smoothers -/
def ofLvlX (L : Lvl) : LvlX := ⟨L.A, L.P, L.R, .mat L.Qpre, .mat L.Qpost⟩

theorem levelStepF_ofLvl (L : Lvl) (coarse : Vec → Vec) (x b : Vec) :
    levelStepF (ofLvl L) coarse x b = levelStep L coarse x b := rfl

theorem cycF_ofLvl (S : Mat) : ∀ (Ls : List Lvl) (c : Cyc) (cpl : Nat) (x b : Vec),
    cycF S c cpl (Ls.map ofLvl) x b = cycM S c cpl Ls x b := by
  intro Ls
  induction Ls with
  | nil => intro c cpl x b; cases c <;> rfl
  | cons L rest ih =>
    intro c cpl x b
    cases rest with
    | nil => cases c <;> rfl
    | cons L' rest' =>
      cases c with
      | V =>
        have h1 : cycF S .V cpl ((L :: L' :: rest').map ofLvl) x b =
            levelStepF (ofLvl L) (fun cb => cycF S .V 1 ((L' :: rest').map ofLvl) (zeros cb.length) cb) x b := rfl
        have h2 : cycM S .V cpl (L :: L' :: rest') x b =
            levelStep L (fun cb => cycM S .V 1 (L' :: rest') (zeros cb.length) cb) x b := rfl
        rw [h1, h2, levelStepF_ofLvl]
        congr 1
        funext cb
        exact ih .V 1 _ _
      | W =>
        have h1 : cycF S .W cpl ((L :: L' :: rest').map ofLvl) x b =
            levelStepF (ofLvl L) (fun cb => cycF S .W 1 ((L' :: rest').map ofLvl)
              (cycF S .W 1 ((L' :: rest').map ofLvl) (zeros cb.length) cb) cb) x b := rfl
        have h2 : cycM S .W cpl (L :: L' :: rest') x b =
            levelStep L (fun cb => cycM S .W 1 (L' :: rest')
              (cycM S .W 1 (L' :: rest') (zeros cb.length) cb) cb) x b := rfl
        rw [h1, h2, levelStepF_ofLvl]
        congr 1
        funext cb
        rw [ih .W 1, ih .W 1]
      | F =>
        have h1 : cycF S .F cpl ((L :: L' :: rest').map ofLvl) x b =
            levelStepF (ofLvl L) (fun cb => iterN (fun cx => cycF S .V 1 ((L' :: rest').map ofLvl) cx cb) cpl
              (cycF S .F cpl ((L' :: rest').map ofLvl) (zeros cb.length) cb)) x b := rfl
        have h2 : cycM S .F cpl (L :: L' :: rest') x b =
            levelStep L (fun cb => iterN (fun cx => cycM S .V 1 (L' :: rest') cx cb) cpl
              (cycM S .F cpl (L' :: rest') (zeros cb.length) cb)) x b := rfl
        rw [h1, h2, levelStepF_ofLvl]
        congr 1
        funext cb
        rw [ih .F cpl]
        exact iterN_congr _ _ (fun cx => ih .V 1 cx cb) _ _

/-- **with matrix smoothers the extended model is `C03.cycM`** -/
theorem cycX_mat (S : Mat) (Ls : List Lvl) (c : Cyc) (cpl : Nat) (x b : Vec) :
    cycX S c cpl (Ls.map ofLvlX) x b = cycM S c cpl Ls x b := by
  rw [← cycF_ofLvl]
  unfold cycX
  rw [List.map_map]
  rfl

theorem allOK_mat (Ls : List Lvl) : AllOK (Ls.map ofLvlX) := by
  intro L hL
  obtain ⟨l, _, rfl⟩ := List.mem_map.1 hL
  exact ⟨trivial, trivial⟩

/-- ... and its operator is the matrix `mopM` -/
theorem mopX_mat (S : Mat) (Ls : List Lvl) (c : Cyc) (cpl : Nat) :
    MopX S c cpl (Ls.map ofLvlX) = msem (mopM S c cpl Ls) := by
  rw [msem_mopM]
  unfold MopX absX
  rw [List.map_map, List.map_map]
  rfl

end PyamgV.C03X
