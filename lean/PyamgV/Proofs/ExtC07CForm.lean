import Mathlib.Algebra.Star.Basic
import Mathlib.Algebra.Star.BigOperators
import Mathlib.Algebra.Order.Field.Basic
import Mathlib.Algebra.Module.LinearMap.Defs
import Mathlib.LinearAlgebra.Span.Basic
import Mathlib.Tactic.Linarith
import Mathlib.Tactic.Ring
import Mathlib.Tactic.Abel
import Mathlib.Tactic.FieldSimp

/-! PyamgV (extension E37, property C07): the **Hermitian setting** of the Krylov optimality theorems.

`K` is a field with an involution (`StarRing K`: the complex numbers, the Gaussian rationals `CRat` the driver
computes with, or an ordered field with the trivial involution), `V` a `K`-module and `HForm K F V` a
*positive semidefinite Hermitian sesquilinear form* on `V`:

* `h u v` is conjugate-linear in `u` and linear in `v` -- the convention of `np.inner(u.conjugate(), v)` /
  `np.vdot(u, v)`, i.e. of the `dot` of `Model/C07Krylov.lean`;
* `h v u = star (h u v)`, so the diagonal `h v v` is fixed by the involution ("real");
* its size is measured by an additive map `re : K → F` into an ordered field `F` that does not see the involution
  (`re (star z) = re z`: the real part), and `0 ≤ re (h v v)`.

Everything the optimality proofs need follows: Pythagoras (`en_add_of_orth`), the projection theorem
(`proj_optimal`: error `h`-orthogonal to `W` ⇒ minimal over `x₀ + W`), its Petrov-Galerkin form for residuals
(`petrov_optimal`: GMRES, CR, minimal residual), the exact line search (`line_search_optimal`). -/
namespace PyamgV.CHerm

/-- positive semidefinite Hermitian sesquilinear form with values in `K`, measured in the ordered field `F` -/
structure HForm (K F V : Type*) [Field K] [StarRing K] [Field F] [LinearOrder F] [IsStrictOrderedRing F]
    [AddCommGroup V] [Module K V] where
  h : V → V → K
  add_left : ∀ u u' v, h (u + u') v = h u v + h u' v
  add_right : ∀ u v v', h u (v + v') = h u v + h u v'
  smul_left : ∀ (c : K) u v, h (c • u) v = star c * h u v
  smul_right : ∀ (c : K) u v, h u (c • v) = c * h u v
  conj_symm : ∀ u v, h v u = star (h u v)
  re : K →+ F
  re_star : ∀ z, re (star z) = re z
  nonneg : ∀ v, 0 ≤ re (h v v)

variable {K F V : Type*} [Field K] [StarRing K] [Field F] [LinearOrder F] [IsStrictOrderedRing F]
  [AddCommGroup V] [Module K V]

namespace HForm
variable (E : HForm K F V)

@[simp] theorem zero_left (v : V) : E.h 0 v = 0 := by
  have := E.add_left 0 0 v
  rw [add_zero] at this
  exact left_eq_add.mp this
@[simp] theorem zero_right (u : V) : E.h u 0 = 0 := by
  have := E.add_right u 0 0
  rw [add_zero] at this
  exact left_eq_add.mp this
theorem neg_left (u v : V) : E.h (-u) v = -E.h u v := by
  have := E.add_left u (-u) v
  rw [add_neg_cancel, zero_left] at this
  exact eq_neg_of_add_eq_zero_right this.symm
theorem neg_right (u v : V) : E.h u (-v) = -E.h u v := by
  have := E.add_right u v (-v)
  rw [add_neg_cancel, zero_right] at this
  exact eq_neg_of_add_eq_zero_right this.symm
theorem sub_left (u u' v : V) : E.h (u - u') v = E.h u v - E.h u' v := by
  rw [sub_eq_add_neg, add_left, neg_left, ← sub_eq_add_neg]
theorem sub_right (u v v' : V) : E.h u (v - v') = E.h u v - E.h u v' := by
  rw [sub_eq_add_neg, add_right, neg_right, ← sub_eq_add_neg]

theorem sum_right {ι : Type*} (s : Finset ι) (u : V) (f : ι → V) : E.h u (∑ i ∈ s, f i) = ∑ i ∈ s, E.h u (f i) := by
  classical
  induction s using Finset.induction_on with
  | empty => simp
  | insert a s ha ih => rw [Finset.sum_insert ha, Finset.sum_insert ha, add_right, ih]
theorem sum_left {ι : Type*} (s : Finset ι) (f : ι → V) (v : V) : E.h (∑ i ∈ s, f i) v = ∑ i ∈ s, E.h (f i) v := by
  classical
  induction s using Finset.induction_on with
  | empty => simp
  | insert a s ha ih => rw [Finset.sum_insert ha, Finset.sum_insert ha, add_left, ih]

/-- `h u v = 0 ↔ h v u = 0` -/
theorem orth_symm {u v : V} (h : E.h u v = 0) : E.h v u = 0 := by
  rw [E.conj_symm, h, star_zero]

/-- the diagonal is fixed by the involution -/
theorem self_star (v : V) : star (E.h v v) = E.h v v := (E.conj_symm v v).symm

/-- `⟨T v, v⟩` is fixed by the involution for a Hermitian operator `T` -/
theorem herm_star {T : V → V} (hT : ∀ u v, E.h (T u) v = E.h u (T v)) (v : V) :
    star (E.h (T v) v) = E.h (T v) v := by
  rw [← E.conj_symm, ← hT]
theorem herm_star' {T : V → V} (hT : ∀ u v, E.h (T u) v = E.h u (T v)) (v : V) :
    star (E.h v (T v)) = E.h v (T v) := by
  rw [← E.conj_symm, hT]

/-- the squared (semi)norm `re ⟨v, v⟩ ∈ F` -/
def en (v : V) : F := E.re (E.h v v)

theorem en_nonneg (v : V) : 0 ≤ E.en v := E.nonneg v

/-- Pythagoras -/
theorem en_add_of_orth (u v : V) (h : E.h u v = 0) : E.en (u + v) = E.en u + E.en v := by
  unfold en
  rw [add_left, add_right, add_right, h, E.orth_symm h]
  simp

/-- removing the `h`-orthogonal projection does not increase the norm -/
theorem en_sub_le (e d : V) (h : E.h (e - d) d = 0) : E.en (e - d) ≤ E.en e := by
  have key : E.en e = E.en (e - d) + E.en d := by
    have : e = (e - d) + d := by abel
    conv_lhs => rw [this]
    exact E.en_add_of_orth _ _ h
  have := E.en_nonneg d
  linarith

/-- orthogonality to a spanning family is orthogonality to the span -/
theorem orth_span (r : V) (s : Set V) (h : ∀ w ∈ s, E.h r w = 0) : ∀ w ∈ Submodule.span K s, E.h r w = 0 := by
  intro w hw
  induction hw using Submodule.span_induction with
  | mem w hw => exact h w hw
  | zero => simp
  | add u w _ _ hu hw => rw [add_right, hu, hw, add_zero]
  | smul c u _ hu => rw [smul_right, hu, mul_zero]

/-- **projection theorem**: `x ∈ x₀ + W` whose error `t − x` is `h`-orthogonal to `W` minimises `‖t − y‖` over
`y ∈ x₀ + W` -/
theorem proj_optimal (t x0 x : V) (W : Submodule K V) (hx : x - x0 ∈ W) (horth : ∀ w ∈ W, E.h (t - x) w = 0) :
    ∀ y, y - x0 ∈ W → E.en (t - x) ≤ E.en (t - y) := by
  intro y hy
  have hw : x - y ∈ W := by
    have : x - y = (x - x0) - (y - x0) := by abel
    rw [this]; exact Submodule.sub_mem _ hx hy
  have hsplit : t - y = (t - x) + (x - y) := by abel
  rw [hsplit, E.en_add_of_orth _ _ (horth _ hw)]
  have := E.en_nonneg (x - y)
  linarith

/-- the form `⟨T u, T v⟩` -/
def pull (T : V →ₗ[K] V) : HForm K F V where
  h u v := E.h (T u) (T v)
  add_left u u' v := by rw [map_add, E.add_left]
  add_right u v v' := by rw [map_add, E.add_right]
  smul_left c u v := by rw [map_smul, E.smul_left]
  smul_right c u v := by rw [map_smul, E.smul_right]
  conj_symm u v := E.conj_symm _ _
  re := E.re
  re_star := E.re_star
  nonneg v := E.nonneg _

@[simp] theorem pull_h (T : V →ₗ[K] V) (u v : V) : (E.pull T).h u v = E.h (T u) (T v) := rfl
@[simp] theorem pull_en (T : V →ₗ[K] V) (v : V) : (E.pull T).en v = E.en (T v) := rfl

/-- the energy form `⟨A u, v⟩` of a Hermitian positive semidefinite operator -/
def aForm (A : V →ₗ[K] V) (hs : ∀ u v, E.h (A u) v = E.h u (A v)) (hp : ∀ v, 0 ≤ E.re (E.h (A v) v)) :
    HForm K F V where
  h u v := E.h (A u) v
  add_left u u' v := by rw [map_add, E.add_left]
  add_right u v v' := E.add_right _ _ _
  smul_left c u v := by rw [map_smul, E.smul_left]
  smul_right c u v := E.smul_right _ _ _
  conj_symm u v := by rw [hs v u]; exact E.conj_symm _ _
  re := E.re
  re_star := E.re_star
  nonneg := hp

@[simp] theorem aForm_h (A : V →ₗ[K] V) hs hp (u v : V) : (E.aForm A hs hp).h u v = E.h (A u) v := rfl
@[simp] theorem aForm_re (A : V →ₗ[K] V) hs hp : (E.aForm A hs hp).re = E.re := rfl

end HForm

variable (E : HForm K F V)

/-- **Petrov-Galerkin condition ⇒ minimal residual** (GMRES, FGMRES with `W = span{z_j}`, CR, minimal residual):
`x ∈ x₀ + W` with `b − A x ⟂ A W` minimises `‖b − A y‖` over `x₀ + W`; no symmetry of `A` is needed -/
theorem petrov_optimal (A : V →ₗ[K] V) (b x0 x : V) (W : Submodule K V)
    (hx : x - x0 ∈ W) (horth : ∀ w ∈ W, E.h (b - A x) (A w) = 0) :
    ∀ y, y - x0 ∈ W → E.en (b - A x) ≤ E.en (b - A y) := by
  intro y hy
  have hw : x - y ∈ W := by
    have : x - y = (x - x0) - (y - x0) := by abel
    rw [this]; exact Submodule.sub_mem _ hx hy
  have hsplit : b - A y = (b - A x) + A (x - y) := by rw [map_sub]; abel
  rw [hsplit, E.en_add_of_orth _ _ (horth _ hw)]
  have := E.en_nonneg (A (x - y))
  linarith

/-- the orthogonality condition need only be checked on a spanning family -/
theorem petrov_of_span (A : V →ₗ[K] V) (r : V) (s : Set V) (h : ∀ w ∈ s, E.h r (A w) = 0) :
    ∀ w ∈ Submodule.span K s, E.h r (A w) = 0 := by
  intro w hw
  induction hw using Submodule.span_induction with
  | mem w hw => exact h w hw
  | zero => simp
  | add u w _ _ hu hw => rw [map_add, E.add_right, hu, hw, add_zero]
  | smul c u _ hu => rw [map_smul, E.smul_right, hu, mul_zero]

/-- monotonicity along nested search spaces -/
theorem petrov_monotone (A : V →ₗ[K] V) (b x0 x x' : V) (W W' : Submodule K V) (hWW : W ≤ W')
    (hx : x - x0 ∈ W) (hx' : x' - x0 ∈ W') (horth' : ∀ w ∈ W', E.h (b - A x') (A w) = 0) :
    E.en (b - A x') ≤ E.en (b - A x) :=
  petrov_optimal E A b x0 x' W' hx' horth' x (hWW hx)

/-- **exact line search** in the Hermitian setting: with `α = ⟨d, e⟩ / ⟨d, d⟩` (conjugate-linear slot first) the
point `e − α d` is the one of smallest norm on the whole complex line `e − t d`, `t ∈ K` -/
theorem line_search_optimal (e d : V) (hd : E.h d d ≠ 0) (t : K) :
    E.en (e - (E.h d e / E.h d d) • d) ≤ E.en (e - t • d) := by
  set α := E.h d e / E.h d d with hα
  have horth : E.h (e - α • d) d = 0 := by
    apply E.orth_symm
    rw [E.sub_right, E.smul_right, hα, div_mul_cancel₀ _ hd, sub_self]
  have h1 : e - α • d = (e - t • d) - (α - t) • d := by rw [sub_smul]; abel
  have h2 : E.h (e - t • d - (α - t) • d) ((α - t) • d) = 0 := by
    rw [← h1, E.smul_right, horth, mul_zero]
  rw [h1]
  exact E.en_sub_le _ _ h2

/-- the step length of the line search is fixed by the involution when numerator and denominator are -/
theorem star_div_of_real {a c : K} (ha : star a = a) (hc : star c = c) : star (a / c) = a / c := by
  rw [star_div₀, ha, hc]

#print axioms HForm.proj_optimal
#print axioms petrov_optimal
#print axioms line_search_optimal
end PyamgV.CHerm
