import PyamgV.Model.ExtC17CkR3Schwarz
import PyamgV.Proofs.ExtC17SafeBlock
import PyamgV.Proofs.ExtC17SafeR3Split

/-! PyamgV (C17, extension E19): bounds-safety + termination for the `Ck` models of `extract_subblocks`
and `overlapping_schwarz_csr` (`Model/ExtC17CkR3Schwarz.lean`), and of `gemm` in the accumulate mode
`('F','F','F','F')`.  Core Lean only. -/
namespace PyamgV.C17
open PyamgV.Ck

set_option linter.unusedSectionVars false
set_option linter.unusedVariables false
variable {α : Type} [Inhabited α]

/-! ### `gemm`, mode `('F','F','F','F')` -/

/-- **`gemm`** without overwrite (row-major `A`, column-major `B`, row-major `S`): `A` occupies
`arows*acols` entries from offset `ao`, `B` `brows*bcols` from `bo`, `S` `arows*bcols` from `so`, with
`brows ≤ acols` -/
theorem gemmFFacc_safe (o : KOps α) (ax : Array α) (ao : Int) (arows acols : Int) (bx : Array α) (bo : Int)
    (brows bcols : Int) (sx : Array α) (so : Int)
    (hr0 : 0 ≤ arows) (hk0 : 0 ≤ brows) (hc0 : 0 ≤ bcols)
    (ha0 : 0 ≤ ao) (ha : ao + arows * acols ≤ (ax.size : Int))
    (hb0 : 0 ≤ bo) (hb : bo + bcols * brows ≤ (bx.size : Int))
    (hs0 : 0 ≤ so) (hs : so + arows * bcols ≤ (sx.size : Int))
    (hk : brows ≤ acols) :
    Safe (gemmFFacc o ax ao arows acols bx bo brows bcols sx so) (fun s' => s'.size = sx.size) := by
  unfold gemmFFacc
  refine Safe.bind (P := fun st : Array α × Int × Int => st.1.size = sx.size) ?_ (fun r hr => Safe.pure hr)
  refine Safe.mono (forRange_safe_idx
    (fun (i : Int) (st : Array α × Int × Int) =>
      st.1.size = sx.size ∧ st.2.1 = i * bcols ∧ st.2.2 = i * acols)
    0 arows hr0 _ _
    ⟨rfl, by show (0 : Int) = 0 * bcols; omega, by show (0 : Int) = 0 * acols; omega⟩
    ?_) (fun st h => h.1)
  intro i i0 i1 st hst
  obtain ⟨g1, g2, g3⟩ := hst
  refine Safe.bind
    (P := fun st2 : Array α × Int × Int => st2.1.size = sx.size ∧ st2.2.1 = i * bcols + bcols)
    ?_ (fun r hr => ?_)
  · refine Safe.mono (forRange_safe_idx
      (fun (j : Int) (st2 : Array α × Int × Int) =>
        st2.1.size = sx.size ∧ st2.2.1 = i * bcols + j ∧ st2.2.2 = j * brows)
      0 bcols hc0 _ _
      ⟨g1, by show st.2.1 = i * bcols + 0; omega, by show (0 : Int) = 0 * brows; omega⟩
      ?_) (fun st2 h => ⟨h.1, h.2.1⟩)
    intro j j0 j1 st2 hst2
    obtain ⟨q1, q2, q3⟩ := hst2
    refine Safe.bind
      (P := fun st3 : Array α × Int × Int => st3.1.size = sx.size ∧ st3.2.2 = j * brows + brows)
      ?_ (fun r hr => ?_)
    · refine Safe.mono (forRange_safe_idx
        (fun (k : Int) (st3 : Array α × Int × Int) =>
          st3.1.size = sx.size ∧ st3.2.1 = i * acols + k ∧ st3.2.2 = j * brows + k)
        0 brows hk0 _ _
        ⟨q1, by show st.2.2 = i * acols + 0; omega, by show st2.2.2 = j * brows + 0; omega⟩
        ?_) (fun st3 h => ⟨h.1, h.2.2⟩)
      intro k k0 k1 st3 hst3
      obtain ⟨p1, p2, p3⟩ := hst3
      have hS := idx_lt i0 i1 j0 j1
      have hA := idx_lt (A := arows) (B := acols) i0 i1 k0 (by omega)
      have hB := idx_lt (A := bcols) (B := brows) j0 j1 k0 k1
      have hsi0 : 0 ≤ so + st2.2.1 := by rw [q2]; omega
      have hsi1 : so + st2.2.1 < (st3.1.size : Int) := by rw [q2, p1]; omega
      refine Safe.bind (rd_ok st3.1 _ hsi0 hsi1) (fun s _ => ?_)
      refine Safe.bind (rd_ok ax (ao + st3.2.1) (by rw [p2]; omega) (by rw [p2]; omega)) (fun a _ => ?_)
      refine Safe.bind (rd_ok bx (bo + st3.2.2) (by rw [p3]; omega) (by rw [p3]; omega)) (fun b _ => ?_)
      refine Safe.bind (wr_ok st3.1 _ _ hsi0 hsi1) (fun sx' hsx' => ?_)
      exact Safe.pure ⟨by show sx'.size = sx.size; rw [hsx', p1],
        by show st3.2.1 + 1 = i * acols + (k + 1); omega,
        by show st3.2.2 + 1 = j * brows + (k + 1); omega⟩
    · refine Safe.pure ⟨hr.1, ?_, ?_⟩
      · show st2.2.1 + 1 = i * bcols + (j + 1); omega
      · show r.2.2 = (j + 1) * brows; rw [hr.2, Int.add_mul, Int.one_mul]
  · refine Safe.pure ⟨hr.1, ?_, ?_⟩
    · show r.2.1 = (i + 1) * bcols; rw [hr.2, Int.add_mul, Int.one_mul]
    · show st.2.2 + acols = (i + 1) * acols; rw [g3, Int.add_mul, Int.one_mul]

/-! ### subdomain lists -/

/-- the subdomain arrays: `Sp`, `Sj` a structurally valid list of `nsd` subdomains of nodes `< n`
(sorted or not, repetitions allowed), and `Tp[d]` the offset of a block of `(Sp[d+1]-Sp[d])²` values
inside an array of `tsize` values -/
structure WFsub (n nsd : Nat) (sp sj tp : Array Int) (tsize : Nat) : Prop where
  pat : WFm (patS nsd sp sj) n
  tp_size : tp.size = nsd + 1
  blocks : ∀ d, d < nsd → 0 ≤ tp.getD d 0 ∧
    tp.getD d 0 + (sp.getD (d+1) 0 - sp.getD d 0) * (sp.getD (d+1) 0 - sp.getD d 0) ≤ (tsize : Int)

/-- facts about position `j` of subdomain `d`: inside `Sj`, the entry is a node -/
theorem sub_range {n nsd : Nat} {sp sj tp : Array Int} {tsize : Nat} (h : WFsub n nsd sp sj tp tsize)
    (d : Int) (d0 : 0 ≤ d) (d1 : d < (nsd : Int)) (j : Int) (j1 : sp.getD d.toNat 0 ≤ j)
    (j2 : j < sp.getD (d.toNat + 1) 0) :
    0 ≤ j ∧ j.toNat < sj.size ∧ 0 ≤ sj.getD j.toNat 0 ∧ sj.getD j.toNat 0 < (n : Int) := by
  have hr := row_range_m (patS nsd sp sj) h.pat d.toNat (by show d.toNat < nsd; omega) j j1 j2
  have hr1 : j.toNat < sj.size := hr.2.1
  have hc := h.pat.cols j.toNat hr1
  exact ⟨hr.1, hr1, hc.1, hc.2⟩

theorem sub_rd {n nsd : Nat} {sp sj tp : Array Int} {tsize : Nat} (h : WFsub n nsd sp sj tp tsize)
    (d : Int) (d0 : 0 ≤ d) (d1 : d < (nsd : Int)) (j : Int) (j1 : sp.getD d.toNat 0 ≤ j)
    (j2 : j < sp.getD (d.toNat + 1) 0) :
    Safe (rd sj j) (fun row => 0 ≤ row ∧ row < (n : Int)) := by
  obtain ⟨f1, f2, f3, f4⟩ := sub_range h d d0 d1 j j1 j2
  refine Safe.mono (rd_safe sj j f1 f2) (fun row hrow => ?_)
  have hrow' : row = sj.getD j.toNat 0 := hrow
  rw [hrow']; exact ⟨f3, f4⟩

/-! ### `extract_subblocks` -/

/-- invariant of the search inside row `j` of a subdomain starting at `s0`: `local_col` and
`placeholder` move together -/
def ESInv (tsize : Nat) (s0 : Int) (st : ES α) : Prop :=
  st.1.size = tsize ∧ s0 ≤ st.2.2 ∧ st.2.1 = st.2.2 - s0

theorem esStep_safe (G : Csr α) (sj : Array Int) (tsize : Nat) (s0 s1 toff k col : Int)
    (hs0 : 0 ≤ s0) (hs1 : s1 ≤ (sj.size : Int)) (ht0 : 0 ≤ toff) (ht1 : toff + (s1 - s0) ≤ (tsize : Int))
    (k0 : 0 ≤ k) (k1 : k < (G.ax.size : Int)) (st : ES α) (hst : ESInv tsize s0 st)
    (hcond : st.2.2 < s1) :
    Safe (esStep G sj toff k col st)
      (fun r => ESInv tsize s0 r.1 ∧ (r.2 = true → r.1.2.2 = st.2.2 + 1)) := by
  obtain ⟨h1, h2, h3⟩ := hst
  unfold esStep
  refine Safe.bind (rd_ok sj st.2.2 (by omega) (by omega)) (fun p _ => ?_)
  by_cases hp : p = col
  · rw [if_pos hp]
    refine Safe.bind (rd_ok G.ax k k0 k1) (fun a _ => ?_)
    refine Safe.bind (wr_ok st.1 _ a (by omega) (by rw [h1]; omega)) (fun tx htx => ?_)
    refine Safe.pure ⟨⟨by show tx.size = tsize; rw [htx, h1], ?_, ?_⟩, fun hc => (by cases hc)⟩
    · show s0 ≤ st.2.2 + 1; omega
    · show st.2.1 + 1 = st.2.2 + 1 - s0; omega
  · rw [if_neg hp]
    by_cases hg : p > col
    · rw [if_pos hg]; exact Safe.pure ⟨⟨h1, h2, h3⟩, fun hc => (by cases hc)⟩
    · rw [if_neg hg]
      refine Safe.pure ⟨⟨h1, ?_, ?_⟩, fun _ => rfl⟩
      · show s0 ≤ st.2.2 + 1; omega
      · show st.2.1 + 1 = st.2.2 + 1 - s0; omega

theorem map_fst_safe {β γ : Type} {r : Ck (β × γ)} {P : β → Prop} (h : Safe r (fun x => P x.1)) :
    Safe (r >>= fun x => (pure x.1 : Ck β)) P :=
  Safe.bind h (fun a ha => Safe.pure ha)

/-- the search loop terminates within `Sp[i+1] - placeholder` iterations and stays inside `Sj`, `Ax`, `Tx` -/
theorem esWhile_safe (G : Csr α) (sj : Array Int) (tsize : Nat) (s0 s1 toff k col : Int)
    (hs0 : 0 ≤ s0) (hs1 : s1 ≤ (sj.size : Int)) (ht0 : 0 ≤ toff) (ht1 : toff + (s1 - s0) ≤ (tsize : Int))
    (k0 : 0 ≤ k) (k1 : k < (G.ax.size : Int)) :
    ∀ (fuel : Nat) (st : Ck (ES α)), Safe st (ESInv tsize s0) → (s1 - st.val.2.2).toNat ≤ fuel →
      ∃ r, esWhile G sj s1 toff k col fuel st = some r ∧ Safe r (ESInv tsize s0) := by
  intro fuel
  induction fuel with
  | zero =>
    intro st hst hm
    have hn : ¬ st.val.2.2 < s1 := by omega
    exact ⟨st, by unfold esWhile; rw [if_neg hn], hst⟩
  | succ f ih =>
    intro st hst hm
    unfold esWhile
    by_cases hcnd : st.val.2.2 < s1
    · rw [if_pos hcnd]
      have hb := Safe.bind_val hst.1
        (esStep_safe G sj tsize s0 s1 toff k col hs0 hs1 ht0 ht1 k0 k1 st.val hst.2 hcnd)
      by_cases hgo : (st >>= esStep G sj toff k col).val.2 = true
      · simp only [hgo, if_true]
        have hnext := hb.2.2 hgo
        refine ih _ (map_fst_safe (Safe.mono hb (fun _ h => h.1))) ?_
        show (s1 - (st >>= esStep G sj toff k col).val.1.2.2).toNat ≤ f
        rw [hnext]; omega
      · simp only [hgo]
        exact ⟨_, rfl, map_fst_safe (Safe.mono hb (fun _ h => h.1))⟩
    · rw [if_neg hcnd]; exact ⟨st, rfl, hst⟩

theorem esRow_safe (G : Csr α) {m : Nat} (hG : WFm G m) (sj : Array Int) (tsize : Nat)
    (s0 s1 lower upper toff : Int) (hs0 : 0 ≤ s0) (hs01 : s0 ≤ s1) (hs1 : s1 ≤ (sj.size : Int))
    (ht0 : 0 ≤ toff) (ht1 : toff + (s1 - s0) ≤ (tsize : Int)) (row : Int) (r0 : 0 ≤ row)
    (r1 : row < (G.n : Int)) (tx : Array α) (htx : tx.size = tsize) :
    Safe (esRow G sj s0 s1 lower upper toff row tx) (fun st => st.1.size = tsize) := by
  have hin : row.toNat < G.n := by omega
  obtain ⟨q1, q2⟩ := rd_ap_safe G hG row r0 r1
  unfold esRow
  refine Safe.bind q1 (fun s hs => ?_)
  refine Safe.bind q2 (fun e he => ?_)
  subst hs; subst he
  refine Safe.mono (forRange_safe (ESInv tsize s0) _ _ _ _ ⟨htx, Int.le_refl _, by show (0 : Int) = s0 - s0; omega⟩ ?_)
    (fun st h => h.1)
  intro k k1 k2 st hst
  have hr := row_range_m G hG row.toNat hin k k1 k2
  refine Safe.bind (rd_safe G.aj k hr.1 hr.2.1) (fun col _ => ?_)
  by_cases hc : lower ≤ col ∧ col ≤ upper
  · rw [if_pos hc]
    apply orFault_safe
    exact esWhile_safe G sj tsize s0 s1 toff k col hs0 hs1 ht0 ht1 hr.1 (by have := hr.2.2; omega) _ (pure st)
      (Safe.pure hst) (Nat.le_refl _)
  · rw [if_neg hc]; exact Safe.pure hst

/-- **`extract_subblocks`**: `A` any structurally valid CSR matrix with `n` rows, the subdomains any lists
of rows (sorted or not, repetitions allowed, empty allowed), `Tp[d]` the offset of a block of
`(Sp[d+1]-Sp[d])²` values inside `Tx`, `Tp[nsdomains] ≤ |Tx|`.  Every search loop terminates within
`Sp[i+1] - placeholder` iterations; the write `Tx[Tx_offset + local_col]` stays inside block `d`
because `local_col = placeholder - Sp[i] < Sp[i+1] - Sp[i]`. -/
theorem extractSubblocks_safe (o : KOps α) (G : Csr α) {m : Nat} (hG : WFm G m) (tx : Array α)
    (tp sj sp : Array Int) (nsd : Nat) (hsub : WFsub G.n nsd sp sj tp tx.size)
    (hfill : tp.getD nsd 0 ≤ (tx.size : Int)) :
    Safe (extractSubblocks o G tx tp sj sp nsd) (fun tx' => tx'.size = tx.size) := by
  unfold extractSubblocks
  refine Safe.bind (rd_safe tp (nsd : Int) (by omega) (by rw [hsub.tp_size]; omega)) (fun tend htend => ?_)
  have htend' : tend = tp.getD nsd 0 := by rw [htend]; simp
  refine Safe.bind (P := fun t : Array α => t.size = tx.size) ?_ (fun tx0 htx0 => ?_)
  · apply forRange_safe (fun t : Array α => t.size = tx.size) _ _ _ _ rfl
    intro t t0 t1 a ha
    exact Safe.mono (wr_ok a t _ t0 (by rw [ha]; omega)) (fun a' h => by rw [h, ha])
  apply forRange_safe (fun t : Array α => t.size = tx.size) _ _ _ _ htx0
  intro i i0 i1 t ht
  have hin : i.toNat < nsd := by omega
  obtain ⟨q1, q2⟩ := rd_ap_safe (patS nsd sp sj) hsub.pat i i0 i1
  refine Safe.bind q2 (fun s1 hs1 => ?_)
  refine Safe.bind q1 (fun s0 hs0 => ?_)
  have hs0' : s0 = sp.getD i.toNat 0 := hs0
  have hs1' : s1 = sp.getD (i.toNat + 1) 0 := hs1
  by_cases hemp : s1 = s0
  · rw [if_pos hemp]; exact Safe.pure ht
  · rw [if_neg hemp]
    have hmono : s0 ≤ s1 := by rw [hs0', hs1']; exact hsub.pat.mono i.toNat hin
    have hfirst := sub_range hsub i i0 i1 s0 (by omega) (by omega)
    have hlast := sub_range hsub i i0 i1 (s1 - 1) (by omega) (by omega)
    have hend : s1 ≤ (sj.size : Int) := by omega
    refine Safe.bind (rd_safe sj s0 hfirst.1 hfirst.2.1) (fun lower _ => ?_)
    refine Safe.bind (rd_safe sj (s1 - 1) hlast.1 hlast.2.1) (fun upper _ => ?_)
    refine Safe.bind (rd_safe tp i i0 (by rw [hsub.tp_size]; omega)) (fun toff htoff => ?_)
    have hblk := hsub.blocks i.toNat hin
    have htoff' : toff = tp.getD i.toNat 0 := htoff
    rw [← htoff', ← hs0', ← hs1'] at hblk
    refine Safe.bind (P := fun st : Array α × Int => st.1.size = tx.size) ?_ (fun r hr => Safe.pure hr)
    refine Safe.mono (forRange_safe_idx
      (fun (j : Int) (st : Array α × Int) => st.1.size = tx.size ∧ st.2 = toff + (j - s0) * (s1 - s0))
      s0 s1 hmono _ _ ⟨ht, by show toff = toff + (s0 - s0) * (s1 - s0); rw [Int.sub_self, Int.zero_mul]; omega⟩ ?_)
      (fun st h => h.1)
    intro j j1 j2 st hst
    have hix := idx_lt (i := j - s0) (j := 0) (A := s1 - s0) (B := s1 - s0) (by omega) (by omega)
      (Int.le_refl 0) (by omega)
    have hnext : (j + 1 - s0) * (s1 - s0) = (j - s0) * (s1 - s0) + (s1 - s0) := by
      have e : j + 1 - s0 = (j - s0) + 1 := by omega
      rw [e, Int.add_mul, Int.one_mul]
    have hfull : (j + 1 - s0) * (s1 - s0) ≤ (s1 - s0) * (s1 - s0) :=
      Int.mul_le_mul_of_nonneg_right (by omega) (by omega)
    refine Safe.bind (sub_rd hsub i i0 i1 j (by omega) (by omega)) (fun row hrow => ?_)
    refine Safe.bind (esRow_safe G hG sj tx.size s0 s1 lower upper st.2 hfirst.1 hmono hend
      (by rw [hst.2]; omega) (by rw [hst.2]; omega) row hrow.1 hrow.2 st.1 hst.1) (fun r hr => ?_)
    exact Safe.pure ⟨hr, by show st.2 + (s1 - s0) = toff + (j + 1 - s0) * (s1 - s0); rw [hst.2, hnext]; omega⟩

/-! ### `overlapping_schwarz_csr` -/

theorem swMaxSize_safe {n nsd : Nat} {sp sj tp : Array Int} {tsize : Nat} (h : WFsub n nsd sp sj tp tsize)
    (nrows : Int) :
    Safe (swMaxSize sp nsd nrows)
      (fun ms => nrows ≤ ms ∧ ∀ d : Nat, d < nsd → sp.getD (d+1) 0 - sp.getD d 0 ≤ ms) := by
  unfold swMaxSize
  refine Safe.mono (forRange_safe_idx
    (fun (d : Int) (ms : Int) => nrows ≤ ms ∧ ∀ d' : Nat, (d' : Int) < d → sp.getD (d'+1) 0 - sp.getD d' 0 ≤ ms)
    0 (nsd : Int) (by omega) _ _ ⟨Int.le_refl _, fun d' hd' => by omega⟩ ?_)
    (fun ms hms => ⟨hms.1, fun d hd => hms.2 d (by omega)⟩)
  intro d d0 d1 ms hms
  obtain ⟨q1, q2⟩ := rd_ap_safe (patS nsd sp sj) h.pat d d0 d1
  refine Safe.bind q2 (fun a ha => ?_)
  refine Safe.bind q1 (fun b hb => ?_)
  have ha' : a = sp.getD (d.toNat + 1) 0 := ha
  have hb' : b = sp.getD d.toNat 0 := hb
  by_cases hgt : a - b > ms
  · rw [if_pos hgt]
    refine Safe.pure ⟨by omega, fun d' hd' => ?_⟩
    by_cases he : (d' : Int) = d
    · have e : d' = d.toNat := by omega
      rw [e, ← ha', ← hb']; exact Int.le_refl _
    · have := hms.2 d' (by omega); omega
  · rw [if_neg hgt]
    refine Safe.pure ⟨hms.1, fun d' hd' => ?_⟩
    by_cases he : (d' : Int) = d
    · have e : d' = d.toNat := by omega
      rw [e, ← ha', ← hb']; omega
    · exact hms.2 d' (by omega)

theorem swZero_safe (o : KOps α) (len : Int) (rsum dinv : Array α) (M : Nat) (hr : rsum.size = M)
    (hd : dinv.size = M) (hlen : len ≤ (M : Int)) :
    Safe (swZero o len rsum dinv) (fun st => st.1.size = M ∧ st.2.size = M) := by
  unfold swZero
  apply forRange_safe (fun st : Array α × Array α => st.1.size = M ∧ st.2.size = M) _ _ _ _ ⟨hr, hd⟩
  intro k k0 k1 st hst
  refine Safe.bind (wr_ok st.1 k _ k0 (by rw [hst.1]; omega)) (fun r hr' => ?_)
  refine Safe.bind (wr_ok st.2 k _ k0 (by rw [hst.2]; omega)) (fun d hd' => ?_)
  exact Safe.pure ⟨by show r.size = M; rw [hr', hst.1], by show d.size = M; rw [hd', hst.2]⟩

theorem swResid_safe (o : KOps α) (G : Csr α) (hG : WFm G G.n) (x b : Array α) (hx : x.size = G.n)
    (hb : b.size = G.n) {nsd : Nat} {sp sj tp : Array Int} {tsize : Nat}
    (hsub : WFsub G.n nsd sp sj tp tsize) (d : Int) (d0 : 0 ≤ d) (d1 : d < (nsd : Int)) (M : Nat)
    (hM : sp.getD (d.toNat + 1) 0 - sp.getD d.toNat 0 ≤ (M : Int)) (rsum : Array α) (hr : rsum.size = M) :
    Safe (swResid o G x b sj (sp.getD d.toNat 0) (sp.getD (d.toNat + 1) 0) rsum) (fun st => st.1.size = M) := by
  have hmono := hsub.pat.mono d.toNat (by show d.toNat < nsd; omega)
  have hmono' : sp.getD d.toNat 0 ≤ sp.getD (d.toNat + 1) 0 := hmono
  unfold swResid
  refine Safe.mono (forRange_safe_idx
    (fun (j : Int) (st : Array α × Int) => st.1.size = M ∧ st.2 = j - sp.getD d.toNat 0)
    _ _ hmono' _ _ ⟨hr, by show (0 : Int) = sp.getD d.toNat 0 - sp.getD d.toNat 0; omega⟩ ?_) (fun st h => h.1)
  intro j j1 j2 st hst
  refine Safe.bind (sub_rd hsub d d0 d1 j j1 j2) (fun row hrow => ?_)
  have hin : row.toNat < G.n := by omega
  obtain ⟨q1, q2⟩ := rd_ap_safe G hG row hrow.1 hrow.2
  refine Safe.bind q1 (fun s hs => ?_)
  refine Safe.bind q2 (fun e he => ?_)
  subst hs; subst he
  have c0 : 0 ≤ st.2 := by rw [hst.2]; omega
  have c1 : st.2 < (M : Int) := by rw [hst.2]; omega
  refine Safe.bind (P := fun rs : Array α => rs.size = M) ?_ (fun rs hrs => ?_)
  · apply forRange_safe (fun rs : Array α => rs.size = M) _ _ _ _ hst.1
    intro jj jj1 jj2 rs hrs
    have hr' := row_range_m G hG row.toNat hin jj jj1 jj2
    refine Safe.bind (rd_ok rs st.2 c0 (by rw [hrs]; exact c1)) (fun r _ => ?_)
    refine Safe.bind (rd_safe G.ax jj hr'.1 hr'.2.2) (fun a _ => ?_)
    refine Safe.bind (rd_safe G.aj jj hr'.1 hr'.2.1) (fun c hc => ?_)
    have hcc := col_ok G hG jj hr'.1 hr'.2.1 c hc
    refine Safe.bind (rd_safe x c hcc.1 (by rw [hx]; exact hcc.2)) (fun xc _ => ?_)
    exact Safe.mono (wr_ok rs st.2 _ c0 (by rw [hrs]; exact c1)) (fun a' h => by rw [h, hrs])
  refine Safe.bind (rd_ok rs st.2 c0 (by rw [hrs]; exact c1)) (fun r _ => ?_)
  refine Safe.bind (rd_safe b row hrow.1 (by rw [hb]; exact hin)) (fun br _ => ?_)
  refine Safe.bind (wr_ok rs st.2 _ c0 (by rw [hrs]; exact c1)) (fun rs2 hrs2 => ?_)
  exact Safe.pure ⟨by show rs2.size = M; rw [hrs2, hrs], by show st.2 + 1 = j + 1 - sp.getD d.toNat 0; omega⟩

theorem swAdd_safe (o : KOps α) (n : Nat) {nsd : Nat} {sp sj tp : Array Int} {tsize : Nat}
    (hsub : WFsub n nsd sp sj tp tsize) (d : Int) (d0 : 0 ≤ d) (d1 : d < (nsd : Int)) (M : Nat)
    (hM : sp.getD (d.toNat + 1) 0 - sp.getD d.toNat 0 ≤ (M : Int)) (dinv : Array α) (hd : dinv.size = M)
    (x : Array α) (hx : x.size = n) :
    Safe (swAdd o sj (sp.getD d.toNat 0) (sp.getD (d.toNat + 1) 0) dinv x) (fun st => st.1.size = n) := by
  have hmono := hsub.pat.mono d.toNat (by show d.toNat < nsd; omega)
  have hmono' : sp.getD d.toNat 0 ≤ sp.getD (d.toNat + 1) 0 := hmono
  unfold swAdd
  refine Safe.mono (forRange_safe_idx
    (fun (j : Int) (st : Array α × Int) => st.1.size = n ∧ st.2 = j - sp.getD d.toNat 0)
    _ _ hmono' _ _ ⟨hx, by show (0 : Int) = sp.getD d.toNat 0 - sp.getD d.toNat 0; omega⟩ ?_) (fun st h => h.1)
  intro j j1 j2 st hst
  refine Safe.bind (sub_rd hsub d d0 d1 j j1 j2) (fun row hrow => ?_)
  refine Safe.bind (rd_ok st.1 row hrow.1 (by rw [hst.1]; exact hrow.2)) (fun xr _ => ?_)
  refine Safe.bind (rd_ok dinv st.2 (by rw [hst.2]; omega) (by rw [hst.2, hd]; omega)) (fun dv _ => ?_)
  refine Safe.bind (wr_ok st.1 row _ hrow.1 (by rw [hst.1]; exact hrow.2)) (fun x' hx' => ?_)
  exact Safe.pure ⟨by show x'.size = n; rw [hx', hst.1], by show st.2 + 1 = j + 1 - sp.getD d.toNat 0; omega⟩

/-- `x` has one entry per row, the two work arrays hold `M` entries -/
def SwInv (n M : Nat) (st : SwSt α) : Prop := st.1.size = n ∧ st.2.1.size = M ∧ st.2.2.size = M

theorem swDomain_safe (o : KOps α) (G : Csr α) (hG : WFm G G.n) (b tx : Array α) (hb : b.size = G.n)
    {nsd : Nat} {sp sj tp : Array Int} (hsub : WFsub G.n nsd sp sj tp tx.size) (M : Nat)
    (hM : ∀ d : Nat, d < nsd → sp.getD (d+1) 0 - sp.getD d 0 ≤ (M : Int)) (d : Int) (d0 : 0 ≤ d)
    (d1 : d < (nsd : Int)) (st : SwSt α) (hst : SwInv G.n M st) :
    Safe (swDomain o G b tx tp sj sp d st) (SwInv G.n M) := by
  obtain ⟨h1, h2, h3⟩ := hst
  have hin : d.toNat < nsd := by omega
  have hMd := hM d.toNat hin
  have hmono : sp.getD d.toNat 0 ≤ sp.getD (d.toNat + 1) 0 := hsub.pat.mono d.toNat hin
  obtain ⟨q1, q2⟩ := rd_ap_safe (patS nsd sp sj) hsub.pat d d0 d1
  unfold swDomain
  refine Safe.bind q2 (fun s1 hs1 => ?_)
  refine Safe.bind q1 (fun s0 hs0 => ?_)
  have hs0' : s0 = sp.getD d.toNat 0 := hs0
  have hs1' : s1 = sp.getD (d.toNat + 1) 0 := hs1
  subst hs0'; subst hs1'
  refine Safe.bind (swResid_safe o G hG st.1 b h1 hb hsub d d0 d1 M hMd st.2.1 h2) (fun r hr => ?_)
  refine Safe.bind (rd_safe tp d d0 (by rw [hsub.tp_size]; omega)) (fun t0 ht0 => ?_)
  have hblk := hsub.blocks d.toNat hin
  have ht0' : t0 = tp.getD d.toNat 0 := ht0
  rw [← ht0'] at hblk
  refine Safe.bind (gemmFFacc_safe o tx t0 _ _ r.1 0 _ 1 st.2.2 0 (by omega) (by omega) (by omega) hblk.1 hblk.2
    (Int.le_refl 0) (by rw [hr]; omega) (Int.le_refl 0) (by rw [h3]; omega) (Int.le_refl _)) (fun dinv hdinv => ?_)
  have hdinv' : dinv.size = M := by rw [hdinv, h3]
  refine Safe.bind (swAdd_safe o G.n hsub d d0 d1 M hMd dinv hdinv' st.1 h1) (fun xr hxr => ?_)
  refine Safe.bind (swZero_safe o _ r.1 dinv M hr hdinv' hMd) (fun z hz => ?_)
  exact Safe.pure ⟨hxr, hz.1, hz.2⟩

/-- **`overlapping_schwarz_csr`**: `A` a structurally valid `n × n` CSR matrix, `x`, `b` of length `n`, the
subdomains any lists of rows (repetitions allowed, so a subdomain may be longer than `n`: the work arrays
`rsum`, `Dinv_rsum` hold `max(nrows, max_d |subdomain d|)` entries), `Tx` holding a block of
`|subdomain d|²` values at `Tp[d]`, any `nrows`, and every admissible range of subdomains: the sweep
terminates and no access leaves an array -/
theorem schwarz_safe (o : KOps α) (G : Csr α) (hG : WFm G G.n) (b tx : Array α) (hb : b.size = G.n)
    (tp sj sp : Array Int) (nsd : Nat) (hsub : WFsub G.n nsd sp sj tp tx.size) (nrows : Int)
    (start stop step : Int) (k : Nat) (hadm : Adm nsd start stop step k) (fuel : Nat) (hf : k ≤ fuel)
    (x : Array α) (hx : x.size = G.n) :
    ∃ r, schwarz o G b tx tp sj sp nsd nrows start stop step fuel x = some r ∧
      Safe r (fun st => st.1.size = G.n) := by
  unfold schwarz
  have hms := swMaxSize_safe hsub nrows
  have hM : ∀ d : Nat, d < nsd →
      sp.getD (d+1) 0 - sp.getD d 0 ≤ (((swMaxSize sp nsd nrows).val.toNat : Nat) : Int) := by
    intro d hd
    have := hms.2.2 d hd
    omega
  have h0 : Safe (do
      let ms ← swMaxSize sp nsd nrows
      let z ← swZero o ms (Array.replicate ms.toNat default) (Array.replicate ms.toNat default)
      (pure (x, z.1, z.2) : Ck (SwSt α))) (SwInv G.n (swMaxSize sp nsd nrows).val.toNat) := by
    refine Safe.bind_val hms.1 ?_
    refine Safe.bind (swZero_safe o _ _ _ (swMaxSize sp nsd nrows).val.toNat (by simp) (by simp) (by omega)) (fun z hz => ?_)
    exact Safe.pure ⟨hx, hz.1, hz.2⟩
  obtain ⟨r, e, hr⟩ := forStride_safe (SwInv G.n (swMaxSize sp nsd nrows).val.toNat) nsd stop step
    (swDomain o G b tx tp sj sp)
    (fun d d0 d1 st hst => swDomain_safe o G hG b tx hb hsub _ hM d d0 d1 st hst) k start hadm fuel hf _ h0
  exact ⟨r, e, Safe.mono hr (fun st h => h.1)⟩

end PyamgV.C17
