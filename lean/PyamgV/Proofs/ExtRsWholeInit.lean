import PyamgV.Proofs.ExtRsWholeVal

/-! PyamgV (C17/C13, extension E25): the initialisation loops and the clean-up loop of the checked
model compute what `RS.init` / `RS.run` compute (which state them as `map`s and pair folds), hence
`runCk_val : (runCk S T).val = run S T` for all inputs.  No Mathlib. -/
namespace PyamgV.RS
open PyamgV.Ck

/-! ### loops that touch entry `i` in iteration `i` -/
theorem arr_ext_getD {α : Type} (d : α) (a b : Array α) (hs : a.size = b.size)
    (h : ∀ j, j < a.size → a.getD j d = b.getD j d) : a = b := by
  apply Array.ext hs
  intro j h1 h2
  have := h j h1
  simpa [Array.getD, h1, h2] using this

theorem fold_pointwise {α : Type} (d : α) (step : Array α → Nat → Array α) (ψ : Nat → α → α)
    (hsz : ∀ a i, (step a i).size = a.size)
    (hpt : ∀ a i j, i < a.size →
      (step a i).getD j d = if j = i then ψ i (a.getD i d) else a.getD j d)
    (a : Array α) : ∀ m, m ≤ a.size →
      ((List.range m).foldl step a).size = a.size ∧
      ∀ j, ((List.range m).foldl step a).getD j d = if j < m then ψ j (a.getD j d) else a.getD j d := by
  intro m
  induction m with
  | zero => intro _; exact ⟨rfl, fun j => by simp⟩
  | succ m ih =>
    intro hm
    obtain ⟨s1, s2⟩ := ih (by omega)
    rw [List.range_succ, List.foldl_append]
    simp only [List.foldl_cons, List.foldl_nil]
    generalize (List.range m).foldl step a = b at s1 s2
    refine ⟨by rw [hsz, s1], ?_⟩
    intro j
    rw [hpt b m j (by omega)]
    by_cases hj : j = m
    · subst hj
      rw [if_pos rfl, if_pos (by omega), s2, if_neg (by omega)]
    · rw [if_neg hj, s2]
      by_cases hlt : j < m
      · rw [if_pos hlt, if_pos (by omega)]
      · rw [if_neg hlt, if_neg (by omega)]

theorem fold_pointwiseN (step : Array Nat → Nat → Array Nat) (ψ : Nat → Nat → Nat)
    (hsz : ∀ a i, (step a i).size = a.size)
    (hpt : ∀ a i j, i < a.size → rdN (step a i) j = if j = i then ψ i (rdN a i) else rdN a j)
    (a : Array Nat) : ∀ m, m ≤ a.size →
      ((List.range m).foldl step a).size = a.size ∧
      ∀ j, rdN ((List.range m).foldl step a) j = if j < m then ψ j (rdN a j) else rdN a j :=
  fold_pointwise 0 step ψ hsz hpt a

theorem fold_pointwiseI (step : Array Int → Nat → Array Int) (ψ : Nat → Int → Int)
    (hsz : ∀ a i, (step a i).size = a.size)
    (hpt : ∀ a i j, i < a.size → rdI (step a i) j = if j = i then ψ i (rdI a i) else rdI a j)
    (a : Array Int) : ∀ m, m ≤ a.size →
      ((List.range m).foldl step a).size = a.size ∧
      ∀ j, rdI ((List.range m).foldl step a) j = if j < m then ψ j (rdI a j) else rdI a j :=
  fold_pointwise 0 step ψ hsz hpt a

theorem arr_extN (a b : Array Nat) (hs : a.size = b.size)
    (h : ∀ j, j < a.size → rdN a j = rdN b j) : a = b := arr_ext_getD 0 a b hs h
theorem arr_extI (a b : Array Int) (hs : a.size = b.size)
    (h : ∀ j, j < a.size → rdI a j = rdI b j) : a = b := arr_ext_getD 0 a b hs h

theorem rdN_replicate (v n j : Nat) (hj : j < n) : rdN (Array.replicate n v) j = v := by
  simp [rdN, Array.getD, hj]
theorem rdI_replicate (v : Int) (n j : Nat) (hj : j < n) : rdI (Array.replicate n v) j = v := by
  simp [rdI, Array.getD, hj]
theorem rdN_map_range (φ : Nat → Nat) (n j : Nat) (hj : j < n) : rdN ((Array.range n).map φ) j = φ j := by
  simp [rdN, Array.getD, hj]
theorem rdI_map_range (φ : Nat → Int) (n j : Nat) (hj : j < n) : rdI ((Array.range n).map φ) j = φ j := by
  simp [rdI, Array.getD, hj]

theorem getD_replicate {α : Type} (d v : α) (n j : Nat) (hj : j < n) :
    (Array.replicate n v).getD j d = v := by
  simp [Array.getD, hj]

theorem getD_map_range {α : Type} (d : α) (φ : Nat → α) (n j : Nat) (hj : j < n) :
    ((Array.range n).map φ).getD j d = φ j := by
  simp [Array.getD, hj]

/-- `lambda` -/
theorem lamCk_val (S T : Csr) : (lamCk S T).val = lamArr S T := by
  unfold lamCk lamArr
  rw [foldCk_val]
  simp only [bind_val, rdc_val, subc_val, wrc_val]
  obtain ⟨h1, h2⟩ := fold_pointwiseN
    (fun lam i => wrN lam i (rdN T.ap (i+1) - rdN T.ap i))
    (fun i _ => rdN T.ap (i+1) - rdN T.ap i)
    (fun a i => size_wrN a i _)
    (fun a i j hi => by
      rw [rdN_wrN]
      by_cases hji : j = i
      · subst hji; rw [if_pos ⟨rfl, hi⟩, if_pos rfl]
      · rw [if_neg (fun hh => hji hh.1.symm), if_neg hji])
    (Array.replicate S.n 0) S.n (by simp)
  apply arr_extN
  · rw [h1]; simp
  · intro j hj
    rw [h1] at hj
    have hj' : j < S.n := by simpa using hj
    rw [h2 j, if_pos hj', rdN_map_range _ _ _ hj']

/-- folding over an array = folding over its indices -/
theorem array_foldl_range {β : Type} (a : Array Nat) (f : β → Nat → β) (init : β) :
    a.foldl f init = (List.range a.size).foldl (fun c i => f c (rdN a i)) init := by
  have e : a.toList = (List.range a.size).map (rdN a) := by
    apply List.ext_getElem
    · simp
    · intro i h1 h2
      have hi : i < a.size := by simpa using h1
      simp [rdN, Array.getD, hi]
  rw [← Array.foldl_toList, e, List.foldl_map]

/-- histogram -/
theorem histCk_val (lam : Array Nat) (n L : Nat) (hn : lam.size = n) :
    (histCk lam n L).val = histFold lam L := by
  unfold histCk histFold
  rw [foldCk_val, array_foldl_range, hn]
  simp only [bind_val, rdc_val, wrc_val]

/-- prefix sums, with the counts zeroed in the same loop -/
theorem prefix3_spec (icnt0 : Array Nat) (L : Nat) (hsz : icnt0.size = L) : ∀ m, m ≤ L →
    let a3 := (List.range m).foldl (fun (acc : Array Nat × Nat × Array Nat) v =>
      (wrN acc.1 v acc.2.1, acc.2.1 + rdN acc.2.2 v, wrN acc.2.2 v 0)) (Array.replicate L 0, 0, icnt0)
    let a2 := (List.range m).foldl (fun (acc : Array Nat × Nat) v =>
      (wrN acc.1 v acc.2, acc.2 + rdN icnt0 v)) (Array.replicate L 0, 0)
    a3.1 = a2.1 ∧ a3.2.1 = a2.2 ∧ a3.2.2.size = L ∧
      ∀ j, rdN a3.2.2 j = if j < m then 0 else rdN icnt0 j := by
  intro m
  induction m with
  | zero => intro _; exact ⟨rfl, rfl, hsz, fun j => by simp⟩
  | succ m ih =>
    intro hm
    obtain ⟨e1, e2, e3, e4⟩ := ih (by omega)
    simp only [List.range_succ, List.foldl_append, List.foldl_cons, List.foldl_nil]
    generalize (List.range m).foldl (fun (acc : Array Nat × Nat × Array Nat) v =>
      (wrN acc.1 v acc.2.1, acc.2.1 + rdN acc.2.2 v, wrN acc.2.2 v 0)) (Array.replicate L 0, 0, icnt0) = a3
      at e1 e2 e3 e4
    generalize (List.range m).foldl (fun (acc : Array Nat × Nat) v =>
      (wrN acc.1 v acc.2, acc.2 + rdN icnt0 v)) (Array.replicate L 0, 0) = a2 at e1 e2
    have hm' : rdN a3.2.2 m = rdN icnt0 m := by rw [e4, if_neg (by omega)]
    refine ⟨by rw [e1, e2], by rw [e2, hm'], by rw [size_wrN, e3], ?_⟩
    intro j
    rw [rdN_wrN, e3]
    by_cases hj : m = j
    · subst hj; rw [if_pos ⟨rfl, by omega⟩, if_pos (by omega)]
    · rw [if_neg (fun hh => hj hh.1), e4]
      by_cases hlt : j < m
      · rw [if_pos hlt, if_pos (by omega)]
      · rw [if_neg hlt, if_neg (by omega)]

theorem prefixCk_val (icnt0 : Array Nat) (L : Nat) (hsz : icnt0.size = L) :
    (prefixCk icnt0 L).val.1 = (prefixFold icnt0 L).1 ∧
    (prefixCk icnt0 L).val.2.2 = Array.replicate L 0 := by
  unfold prefixCk prefixFold
  rw [foldCk_val]
  simp only [bind_val, rdc_val, wrc_val, pure_val]
  obtain ⟨e1, _, e3, e4⟩ := prefix3_spec icnt0 L hsz L (Nat.le_refl _)
  refine ⟨e1, ?_⟩
  apply arr_extN
  · rw [e3]; simp
  · intro j hj
    rw [e3] at hj
    rw [e4 j, if_pos hj, rdN_replicate 0 L j hj]

/-- placement -/
theorem placeCk_val (lam iptr : Array Nat) (n L : Nat) :
    (placeCk lam iptr (Array.replicate L 0) n).val = placeFold lam iptr n L := by
  unfold placeCk placeFold
  rw [foldCk_val]
  simp only [bind_val, rdc_val, wrc_val, pure_val]

/-- `std::fill` + isolated nodes -/
theorem spCk_val (T : Csr) (lam : Array Nat) (n : Nat) :
    (spCk T lam n).val = (Array.range n).map (fun i =>
      if rdN lam i = 0 ∨ (rdN lam i = 1 ∧ rdN T.aj (rdN T.ap i) = i) then F else U) := by
  unfold spCk
  rw [foldCk_val]
  obtain ⟨h1, h2⟩ := fold_pointwiseI
    (fun sp i => (do
      let l ← rdc lam i
      if l = 0 then wrcI sp i F
      else if l = 1 then do
        let p ← rdc T.ap i
        let j ← rdc T.aj p
        if j = i then wrcI sp i F else pure sp
      else pure sp : Ck (Array Int)).val)
    (fun i v => if rdN lam i = 0 ∨ (rdN lam i = 1 ∧ rdN T.aj (rdN T.ap i) = i) then F else v)
    (fun a i => by
      simp only [bind_val, rdc_val]
      split
      · simp
      · split
        · simp only [bind_val, rdc_val]
          split <;> simp
        · simp)
    (fun a i j hi => by
      have hw : rdI (wrI a i F) j = if j = i then F else rdI a j := by
        rw [rdI_wrI]
        by_cases hji : j = i
        · subst hji; rw [if_pos ⟨rfl, hi⟩, if_pos rfl]
        · rw [if_neg (fun hh => hji hh.1.symm), if_neg hji]
      have hp : rdI a j = if j = i then rdI a i else rdI a j := by
        by_cases hji : j = i
        · subst hji; rw [if_pos rfl]
        · rw [if_neg hji]
      simp only [bind_val, rdc_val]
      by_cases h0 : rdN lam i = 0
      · rw [if_pos h0, wrcI_val, hw, if_pos (Or.inl h0)]
      · rw [if_neg h0]
        by_cases h1 : rdN lam i = 1
        · rw [if_pos h1]
          simp only [bind_val, rdc_val]
          by_cases h2 : rdN T.aj (rdN T.ap i) = i
          · rw [if_pos h2, wrcI_val, hw, if_pos (Or.inr ⟨h1, h2⟩)]
          · have hc : ¬(rdN lam i = 0 ∨ (rdN lam i = 1 ∧ rdN T.aj (rdN T.ap i) = i)) :=
              fun hh => hh.elim h0 (fun hh => h2 hh.2)
            rw [if_neg h2, if_neg hc, pure_val]
            exact hp
        · have hc : ¬(rdN lam i = 0 ∨ (rdN lam i = 1 ∧ rdN T.aj (rdN T.ap i) = i)) :=
            fun hh => hh.elim h0 (fun hh => h1 hh.1)
          rw [if_neg h1, if_neg hc, pure_val]
          exact hp)
    (Array.replicate n U) n (by simp)
  apply arr_extI
  · rw [h1]; simp
  · intro j hj
    rw [h1] at hj
    have hj' : j < n := by simpa using hj
    rw [h2 j, if_pos hj', rdI_map_range _ _ _ hj', rdI_replicate U n j hj']

theorem lamArr_size (S T : Csr) : (lamArr S T).size = S.n := by simp [lamArr]

theorem histFold_size (S T : Csr) (L : Nat) : (histFold (lamArr S T) L).size = L := by
  have : ∀ (l : List Nat) (c : Array Nat), (l.foldl (fun c i =>
      wrN c (rdN T.ap (i+1) - rdN T.ap i) (rdN c (rdN T.ap (i+1) - rdN T.ap i) + 1)) c).size = c.size := by
    intro l; induction l with
    | nil => intro c; rfl
    | cons x l ih => intro c; simp only [List.foldl_cons]; rw [ih, size_wrN]
  rw [histFold_list, this]; simp

/-- **everything before the main loop** -/
theorem initCk_val (S T : Csr) : (initCk S T).val = init S T := by
  have hinit : init S T = ⟨lamArr S T,
      (prefixFold (histFold (lamArr S T) (lmaxOf S T)) (lmaxOf S T)).1,
      (placeFold (lamArr S T) (prefixFold (histFold (lamArr S T) (lmaxOf S T)) (lmaxOf S T)).1 S.n (lmaxOf S T)).2.2,
      (placeFold (lamArr S T) (prefixFold (histFold (lamArr S T) (lmaxOf S T)) (lmaxOf S T)).1 S.n (lmaxOf S T)).1,
      (placeFold (lamArr S T) (prefixFold (histFold (lamArr S T) (lmaxOf S T)) (lmaxOf S T)).1 S.n (lmaxOf S T)).2.1,
      (Array.range S.n).map (fun i =>
        if rdN (lamArr S T) i = 0 ∨ (rdN (lamArr S T) i = 1 ∧ rdN T.aj (rdN T.ap i) = i) then F else U)⟩ := rfl
  rw [hinit]
  unfold initCk
  simp only [bind_val, pure_val, lamCk_val]
  have hL : max (2 * Array.foldl max 0 (lamArr S T)) (S.n + 1) = lmaxOf S T := rfl
  rw [hL, histCk_val _ _ _ (lamArr_size S T)]
  obtain ⟨p1, p2⟩ := prefixCk_val (histFold (lamArr S T) (lmaxOf S T)) (lmaxOf S T) (histFold_size S T _)
  rw [p1, p2, placeCk_val, spCk_val]

/-! ### the marking array always has `n` entries -/
theorem markPF_size (l : List Nat) : ∀ sp : Array Int, (markPF sp l).size = sp.size := by
  unfold markPF
  induction l with
  | nil => intro sp; rfl
  | cons x l ih =>
    intro sp; simp only [List.foldl_cons]; rw [ih]; split <;> simp

theorem markF_size (l : List Nat) : ∀ sp : Array Int, (markF sp l).size = sp.size := by
  unfold markF
  induction l with
  | nil => intro sp; rfl
  | cons x l ih =>
    intro sp; simp only [List.foldl_cons]; rw [ih]; split <;> simp

theorem step_sp_size (S T : Csr) (s s' : St) (top : Nat) (h : step S T s top = some s') :
    s'.sp.size = s.sp.size := by
  rw [step_sp S T s top s' h]
  simp only
  split
  · rfl
  · rw [markF_size, markPF_size, size_wrI]

theorem go_sp_size (S T : Csr) : ∀ (fuel top : Nat) (s : St),
    (run.go S T fuel top s).sp.size = s.sp.size := by
  intro fuel
  induction fuel with
  | zero => intro top s; rfl
  | succ fuel ih =>
    intro top s
    unfold run.go
    cases h : step S T s top with
    | none => rfl
    | some s' =>
      simp only
      split
      · exact step_sp_size S T s s' top h
      · rw [ih, step_sp_size S T s s' top h]

theorem init_sp_size (S T : Csr) : (init S T).sp.size = S.n := by simp [init]

/-- the clean-up loop -/
theorem finalCk_val (sp : Array Int) (n : Nat) (hn : sp.size = n) :
    (finalCk sp n).val = sp.map (fun v => if v = U then F else v) := by
  unfold finalCk
  rw [foldCk_val]
  obtain ⟨h1, h2⟩ := fold_pointwiseI
    (fun sp i => (do
      let v ← rdcI sp i
      if v = U then wrcI sp i F else pure sp : Ck (Array Int)).val)
    (fun _ v => if v = U then F else v)
    (fun a i => by
      simp only [bind_val, rdcI_val]
      split <;> simp)
    (fun a i j hi => by
      simp only [bind_val, rdcI_val]
      by_cases h0 : rdI a i = U
      · rw [if_pos h0, wrcI_val, rdI_wrI, if_pos h0]
        by_cases hji : j = i
        · subst hji; rw [if_pos ⟨rfl, hi⟩, if_pos rfl]
        · rw [if_neg (fun hh => hji hh.1.symm), if_neg hji]
      · rw [if_neg h0, if_neg h0, pure_val]
        by_cases hji : j = i
        · subst hji; rw [if_pos rfl]
        · rw [if_neg hji])
    sp n (by omega)
  apply arr_extI
  · rw [h1]; simp
  · intro j hj
    rw [h1] at hj
    rw [h2 j, if_pos (by omega)]
    simp [rdI, Array.getD, hj]

/-- **the checked model computes the executable model `RS.run`** (which the driver compares with
the kernel), for every input -/
theorem runCk_val (S T : Csr) : (runCk S T).val = run S T := by
  unfold runCk run
  by_cases h0 : S.n = 0
  · simp only [bind_val, initCk_val, if_pos h0, pure_val]
    exact finalCk_val _ _ (init_sp_size S T)
  · simp only [bind_val, initCk_val, if_neg h0, goCk_val]
    exact finalCk_val (run.go S T S.n (S.n - 1) (init S T)).sp S.n
      (by rw [go_sp_size, init_sp_size])

#print axioms runCk_val
end PyamgV.RS
