import PyamgV.Proofs.ExtC05YFlag
import PyamgV.Proofs.ExtC05YPd

/-! PyamgV (extension E36, property C05): concrete instances.

1. **The counterexample behind finding `ne-nr-smoothers-flagged-symmetric`** on the 2×2 matrix `A = [[2,1],[1,3]]` with
   `P = [1,1]ᵀ`, `R = Pᵀ`, `A_c = [7]` (exact Galerkin product), evaluated by the kernel on the executed model
   `denseMY`: the flag is `True` for `jacobi_ne` / `jacobi_ne`, `gauss_seidel_ne` forward / backward and
   `gauss_seidel_nr` forward / backward, the hierarchy is exactly symmetric, `Q_post ≠ Q_preᵀ`, the V-cycle matrix is not
   symmetric -- while `Q_post A = (Q_pre A)ᵀ` (NE) resp. `A Q_post = (A Q_pre)ᵀ` (NR) do hold, as `ne_sweep_err_adj`,
   `jacobi_ne_err_selfadj`, `nr_sweep_res_adj` say.
2. Positive instances of the executed extended model (block size 2, polynomial smoother): adjoint pairs, symmetric `M`.
3. Non-vacuity of `flag_cycle_spd`: a two-level hierarchy over `ℚ` (1×1 matrix `[2]`, forward / backward
   Gauss–Seidel) satisfies every hypothesis, so its V- and W-cycle operators are symmetric positive definite. -/
namespace PyamgV.C05YEx
open PyamgV PyamgV.C05 PyamgV.C05Y PyamgV.K

/-! ## 1. the normal-equation counterexample -/

def A2 : Csr ℚ := ⟨2, #[0, 2, 4], #[0, 1, 0, 1], #[2, 1, 1, 3]⟩
def P2 : Csr ℚ := ⟨2, #[0, 1, 2], #[0, 0], #[1, 1]⟩
def R2 : Csr ℚ := ⟨1, #[0, 2], #[0, 1], #[1, 1]⟩
def Ac2 : Csr ℚ := ⟨1, #[0, 1], #[0], #[7]⟩

def noOrc : Oracle := fun _ _ => none

def cJne : Cfg := ⟨some "jacobi_ne", [("withrho", .num 0)]⟩
def cNeF : Cfg := ⟨some "gauss_seidel_ne", [("sweep", .str "forward")]⟩
def cNeB : Cfg := ⟨some "gauss_seidel_ne", [("sweep", .str "backward")]⟩
def cNrF : Cfg := ⟨some "gauss_seidel_nr", [("sweep", .str "forward")]⟩
def cNrB : Cfg := ⟨some "gauss_seidel_nr", [("sweep", .str "backward")]⟩

def Ljne : LvlY ℚ := ⟨A2, P2, R2, [0], .ext (.jacne 1) .forward 1, .ext (.jacne 1) .forward 1⟩
def Lgsne : LvlY ℚ := ⟨A2, P2, R2, [0], .ext (.gsne 1) .forward 1, .ext (.gsne 1) .backward 1⟩
def Lgsnr : LvlY ℚ := ⟨A2, P2, R2, [0], .ext (.gsnr 1) .forward 1, .ext (.gsnr 1) .backward 1⟩

/-- the flag is `True` for the three pairs, and the extended model installs exactly the smoothers of `Ljne`, `Lgsne`,
`Lgsnr` -/
theorem ne_flagged :
    flag [cJne] [cJne] 1 = some true ∧ flag [cNeF] [cNeB] 1 = some true ∧ flag [cNrF] [cNrB] 1 = some true ∧
    smOfY noOrc cJne = some Ljne.pre ∧ smOfY noOrc cNeF = some Lgsne.pre ∧ smOfY noOrc cNeB = some Lgsne.post ∧
    smOfY noOrc cNrF = some Lgsnr.pre ∧ smOfY noOrc cNrB = some Lgsnr.post := by
  decide

/-- the hierarchy is exactly symmetric (`A = Aᵀ`, `R = Pᵀ`, `A_c = A_cᵀ`) and Galerkin (`A_c = R A P = [7]`) -/
theorem ne_hierarchy_symmetric :
    hermitianHierarchy id Ac2 [⟨A2, P2, R2, [0], .none, .none⟩] = true ∧
    mmul (denseOfCsr R2 2) (mmul (denseOfCsr A2 2) (denseOfCsr P2 1) 2 1) 2 1 = denseOfCsr Ac2 1 := by
  decide +kernel

/-- `jacobi_ne`: `Q = ω Aᵀ Dinv = [[2/5, 1/10], [1/5, 3/10]]` is not symmetric … -/
theorem jacobi_ne_Q : smMatY id id Ljne.pre A2 [0] = some #[#[2/5, 1/10], #[1/5, 3/10]] := by
  decide +kernel

/-- … so the pair is not an adjoint pair, the V- and W-cycle matrices are not symmetric, but the error propagator
`I − Q A` is symmetric -/
theorem jacobi_ne_counterexample :
    adjointPairsY id id [Ljne] = false ∧ errAdjointPairsY id id [Ljne] = true ∧
    (denseMY id id Ac2 .V [Ljne]).map (fun M => M == mconjT id M 2 2) = some false ∧
    (denseMY id id Ac2 .W [Ljne]).map (fun M => M == mconjT id M 2 2) = some false := by
  decide +kernel

/-- `gauss_seidel_ne` forward / backward: not an adjoint pair, `M` not symmetric, error propagators Euclidean-adjoint -/
theorem gauss_seidel_ne_counterexample :
    adjointPairsY id id [Lgsne] = false ∧ errAdjointPairsY id id [Lgsne] = true ∧
    (denseMY id id Ac2 .V [Lgsne]).map (fun M => M == mconjT id M 2 2) = some false := by
  decide +kernel

/-- `gauss_seidel_nr` forward / backward: not an adjoint pair, `M` not symmetric, residual propagators Euclidean-adjoint -/
theorem gauss_seidel_nr_counterexample :
    adjointPairsY id id [Lgsnr] = false ∧ resAdjointPairsY id id [Lgsnr] = true ∧
    (denseMY id id Ac2 .V [Lgsnr]).map (fun M => M == mconjT id M 2 2) = some false := by
  decide +kernel

/-! ## 2. positive instances of the executed extended model -/

def A4 : Csr ℚ := ⟨4, #[0, 2, 5, 8, 10], #[0, 1, 0, 1, 2, 1, 2, 3, 2, 3], #[2, -1, -1, 2, -1, -1, 2, -1, -1, 2]⟩
def P4 : Csr ℚ := ⟨4, #[0, 1, 2, 3, 4], #[0, 0, 1, 1], #[1, 1, 1, 1]⟩
def R4 : Csr ℚ := ⟨2, #[0, 2, 4], #[0, 1, 2, 3], #[1, 1, 1, 1]⟩
def Ac4 : Csr ℚ := ⟨2, #[0, 2, 4], #[0, 1, 0, 1], #[2, -1, -1, 2]⟩

def Lbgs : LvlY ℚ := ⟨A4, P4, R4, [0, 2], .ext (.bgs 2) .forward 1, .ext (.bgs 2) .backward 1⟩
def Lbjac : LvlY ℚ := ⟨A4, P4, R4, [0, 2], .ext (.bjac 2 (1/2)) .forward 2, .ext (.bjac 2 (1/2)) .forward 2⟩
def Lpoly : LvlY ℚ := ⟨A4, P4, R4, [0, 2], .ext (.poly (-1/8) [3/4]) .forward 1, .ext (.poly (-1/8) [3/4]) .forward 1⟩

/-- block Gauss–Seidel forward / backward, block Jacobi and a degree-1 polynomial smoother on the 4-point Poisson
two-level hierarchy (block size 2): adjoint pairs, and `denseMY` is symmetric (V and W) -/
theorem extended_model_symmetric :
    hermitianHierarchy id Ac4 [⟨A4, P4, R4, [0, 2], .none, .none⟩] = true ∧
    adjointPairsY id id [Lbgs] = true ∧ adjointPairsY id id [Lbjac] = true ∧ adjointPairsY id id [Lpoly] = true ∧
    (denseMY id id Ac4 .V [Lbgs]).map (fun M => M == mconjT id M 4 4) = some true ∧
    (denseMY id id Ac4 .W [Lbgs]).map (fun M => M == mconjT id M 4 4) = some true ∧
    (denseMY id id Ac4 .V [Lbjac]).map (fun M => M == mconjT id M 4 4) = some true ∧
    (denseMY id id Ac4 .V [Lpoly]).map (fun M => M == mconjT id M 4 4) = some true := by
  decide +kernel

/-! ## 3. non-vacuity of `flag_cycle_spd` -/

def rows1 : Nat → Row ℚ := fun _ => [(0, 2)]
def A1 : Op ℚ := csrOp 1 rows1
/-- the exact coarsest solve `b ↦ b/2` -/
def S1 : Op ℚ := csrOp 1 (fun _ => [(0, 1/2)])
def diag1 : Nat → ℚ := fun _ => 2

theorem A1_apply (u : Nat → ℚ) (i : Nat) : A1 u i = if i = 0 then 2 * u 0 else 0 := by
  by_cases h : i = 0
  · subst h; simp [A1, csrOp, rows1, rowDot]
  · simp [A1, csrOp, h]

theorem S1_apply (u : Nat → ℚ) (i : Nat) : S1 u i = if i = 0 then 1/2 * u 0 else 0 := by
  by_cases h : i = 0
  · subst h; simp [S1, csrOp, rowDot]
  · simp [S1, csrOp, h]

theorem A1_zero (u : Nat → ℚ) : csrOp 1 rows1 u 0 = 2 * u 0 := by
  have := A1_apply u 0
  simpa [A1] using this

theorem hsym1 : ∀ u v, (euc ℚ 1).a (csrOp 1 rows1 u) v = (euc ℚ 1).a u (csrOp 1 rows1 v) := by
  intro u v
  simp only [euc_apply, Finset.sum_range_one, A1_zero]; ring

theorem hpsd1 : ∀ v, 0 ≤ (euc ℚ 1).a (csrOp 1 rows1 v) v := by
  intro v
  simp only [euc_apply, Finset.sum_range_one, A1_zero]
  nlinarith [mul_self_nonneg (v 0)]

theorem hdiag1 : ∀ i, i < 1 → HasDiag i (rows1 i) (diag1 i) ∧ diag1 i ≠ 0 := by
  intro i hi
  obtain rfl : i = 0 := by omega
  simp [HasDiag, rows1, diag1]

def E1 : EForm ℚ (Nat → ℚ) := energy 1 rows1 hsym1 hpsd1

def pre1 : List Cfg := [⟨some "gauss_seidel", [("sweep", .str "forward")]⟩]
def post1 : List Cfg := [⟨some "gauss_seidel", [("sweep", .str "backward")]⟩]

def L1 : LinLevel ℚ (Nat → ℚ) :=
  { A := A1, P := LinearMap.id, R := LinearMap.id,
    pre := smFn rows1 1 [] [] (.gs 1 .forward 1), post := smFn rows1 1 [] [] (.gs 1 .backward 1),
    Qpre := smOp A1 diag1 1 [] [] (.gs 1 .forward 1), Qpost := smOp A1 diag1 1 [] [] (.gs 1 .backward 1) }

def d1 : LvlData ℚ := ⟨1, diag1, [], []⟩

theorem wfl1 : WFL A1 [L1] := by
  refine ⟨rfl, ?_, ?_, trivial⟩
  · show IsLinIter (csrOp 1 rows1) (smFn rows1 1 [] [] (.gs 1 .forward 1)) (smOp (csrOp 1 rows1) diag1 1 [] [] (.gs 1 .forward 1))
    exact sm_isLinIter 1 rows1 diag1 hdiag1 [] [] (by simp) (by simp) List.nodup_nil List.nodup_nil _
  · show IsLinIter (csrOp 1 rows1) (smFn rows1 1 [] [] (.gs 1 .backward 1)) (smOp (csrOp 1 rows1) diag1 1 [] [] (.gs 1 .backward 1))
    exact sm_isLinIter 1 rows1 diag1 hdiag1 [] [] (by simp) (by simp) List.nodup_nil List.nodup_nil _

theorem symS1 : IsAdj (euc ℚ 1) (euc ℚ 1) S1 S1 := by
  intro u v
  simp [euc_apply, S1_apply]; ring

theorem wfflag1 : WFFlag S1 pre1 post1 0 d1 [d1] [L1] := by
  refine ⟨hsym1, by simp [d1], by simp [d1], ⟨.gs 1 .forward 1, .gs 1 .backward 1, by decide, by decide, rfl, rfl⟩, ?_, symS1⟩
  intro u v; rfl

theorem gs_nonexp1 (sw : Sweep) : NonExp E1 A1 (smFn rows1 1 [] [] (.gs 1 sw 1)) := by
  show NonExp (energy 1 rows1 hsym1 hpsd1) (csrOp 1 rows1) (smFn rows1 1 [] [] (.gs 1 sw 1))
  exact smFn_nonexp 1 rows1 hsym1 hpsd1 diag1 hdiag1 [] [] (.gs 1 sw 1) (by simp [NonExpSm])

theorem wfh1 : WFH' (fun b => S1 b) A1 E1 [L1.toLevel] := by
  refine ⟨rfl, gs_nonexp1 .forward, gs_nonexp1 .backward, ?_, fun e => ⟨e, rfl⟩, ?_⟩
  · intro e w hw v
    show (euc ℚ 1).a (A1 w) v = (euc ℚ 1).a (A1 e) v
    have : A1 w = A1 e := by simpa [L1] using hw
    rw [this]
  · intro b xs hb
    have hb' : A1 xs = b := by simpa [L1] using hb
    show (euc ℚ 1).a (A1 (xs - S1 b)) (xs - S1 b) = 0
    subst hb'
    simp [euc_apply, A1_apply, S1_apply]

theorem strict1 : StrictOn E1 A1 L1.pre := by
  show StrictOn (energy 1 rows1 hsym1 hpsd1) (csrOp 1 rows1) (smFn rows1 1 [] [] (.gs 1 .forward 1))
  exact smFn_strict 1 rows1 hsym1 hpsd1 diag1 (fun i hi => (hdiag1 i hi).1) (fun _ _ => by simp [diag1]) [] []
    (.gs 1 .forward 1) (by simp [StrictSm])

/-- **every hypothesis of `flag_cycle_spd` holds on the example**, so its V- and W-cycle operators are symmetric and
positive definite -/
theorem example_flag_cycle_spd :
    ((∀ u v, (euc ℚ 1).a (Mop S1 .V [L1] u) v = (euc ℚ 1).a u (Mop S1 .V [L1] v)) ∧
      ∀ v, E1.en v ≠ 0 → 0 < E1.a (Mop S1 .V [L1] (A1 v)) v) ∧
    ((∀ u v, (euc ℚ 1).a (Mop S1 .W [L1] u) v = (euc ℚ 1).a u (Mop S1 .W [L1] v)) ∧
      ∀ v, E1.en v ≠ 0 → 0 < E1.a (Mop S1 .W [L1] (A1 v)) v) :=
  flag_cycle_spd S1 pre1 post1 1 (by decide) (by decide) (by decide) L1 [] rfl A1 wfl1 d1 [d1] wfflag1 E1 wfh1
    (Or.inl strict1)

/-- … and there are vectors of non-zero energy -/
theorem example_energy_ne : E1.en (fun _ => 1) ≠ 0 := by
  show (euc ℚ 1).a (A1 (fun _ => 1)) (fun _ => 1) ≠ 0
  simp [euc_apply, A1_apply]

end PyamgV.C05YEx
