import PyamgV.Proofs.ExtSpmm

/-! PyamgV (extension E27): the array version of the transpose (`transposeArr`: `csr_tocsc` loop by loop --
count the entries per column, exclusive cumulative sum, scatter with a moving insertion pointer per
column) returns, row by row, what the functional model `transpose` returns: a stable counting sort. -/
namespace PyamgV.Spmm

variable {α : Type}

/-- all stored entries `(row, column, value)` in storage order -/
def entries [OfNat α 0] (A : Csr α) : List (Nat × Nat × α) :=
  (List.range A.rows).flatMap fun i => (A.row i).map fun e => (i, e.1, e.2)

/-- number of entries of column `c` -/
def cntOf (l : List (Nat × Nat × α)) (c : Nat) : Nat := (l.filter fun e => decide (e.2.1 = c)).length

/-- the entries of column `c` as `(row, value)`, in order -/
def bucket (l : List (Nat × Nat × α)) (c : Nat) : List (Nat × α) :=
  l.filterMap fun e => if e.2.1 = c then some (e.1, e.2.2) else none

theorem cntOf_nil (c : Nat) : cntOf ([] : List (Nat × Nat × α)) c = 0 := rfl
theorem cntOf_cons (e : Nat × Nat × α) (l : List (Nat × Nat × α)) (c : Nat) :
    cntOf (e :: l) c = (if e.2.1 = c then 1 else 0) + cntOf l c := by
  unfold cntOf
  rw [List.filter_cons]
  by_cases h : e.2.1 = c
  · simp [h]; omega
  · simp [h]
theorem cntOf_append (l m : List (Nat × Nat × α)) (c : Nat) : cntOf (l ++ m) c = cntOf l c + cntOf m c := by
  unfold cntOf; rw [List.filter_append, List.length_append]

theorem bucket_append (l m : List (Nat × Nat × α)) (c : Nat) : bucket (l ++ m) c = bucket l c ++ bucket m c := by
  unfold bucket; rw [List.filterMap_append]

theorem bucket_length (l : List (Nat × Nat × α)) (c : Nat) : (bucket l c).length = cntOf l c := by
  induction l with
  | nil => rfl
  | cons e l ih =>
    rw [cntOf_cons]
    unfold bucket at ih ⊢
    rw [List.filterMap_cons]
    by_cases h : e.2.1 = c
    · simp only [h, if_true, List.length_cons, ih]; omega
    · simp only [h, if_false, ih]; omega

/-! ### first pass: counts -/

theorem cnt_fold (l : List (Nat × Nat × α)) (a : Array Nat) :
    (l.foldl (fun cnt e => cnt.setIfInBounds e.2.1 (rdN cnt e.2.1 + 1)) a).size = a.size ∧
    ∀ c, c < a.size →
      rdN (l.foldl (fun cnt e => cnt.setIfInBounds e.2.1 (rdN cnt e.2.1 + 1)) a) c = rdN a c + cntOf l c := by
  induction l generalizing a with
  | nil => simp [cntOf_nil]
  | cons e l ih =>
    rw [List.foldl_cons]
    obtain ⟨h1, h2⟩ := ih (a.setIfInBounds e.2.1 (rdN a e.2.1 + 1))
    refine ⟨by rw [h1]; simp, ?_⟩
    intro c hc
    rw [h2 c (by simpa using hc), cntOf_cons]
    unfold rdN
    rw [getD_set]
    by_cases h : e.2.1 = c
    · subst h; simp [hc]; omega
    · simp [h]

/-! ### second pass: exclusive cumulative sum -/

theorem scan_fold (l : List Nat) (acc : Array Nat) (s : Nat) :
    (l.foldl (fun (acc : Array Nat × Nat) c => (acc.1.push acc.2, acc.2 + c)) (acc, s)).1.size = acc.size + l.length ∧
    (∀ k, k < acc.size →
      rdN (l.foldl (fun (acc : Array Nat × Nat) c => (acc.1.push acc.2, acc.2 + c)) (acc, s)).1 k = rdN acc k) ∧
    (∀ k, k < l.length →
      rdN (l.foldl (fun (acc : Array Nat × Nat) c => (acc.1.push acc.2, acc.2 + c)) (acc, s)).1 (acc.size + k)
        = s + (l.take k).sum) := by
  induction l generalizing acc s with
  | nil => simp
  | cons c l ih =>
    rw [List.foldl_cons]
    obtain ⟨h1, h2, h3⟩ := ih (acc.push s) (s + c)
    have hpush : ∀ k, k < acc.size → rdN (acc.push s) k = rdN acc k := by
      intro k hk
      unfold rdN
      simp [Array.getD_eq_getD_getElem?, Array.getElem?_push, Nat.ne_of_lt hk]
    have hlast : rdN (acc.push s) acc.size = s := by
      unfold rdN
      simp [Array.getD_eq_getD_getElem?]
    refine ⟨by rw [h1]; simp; omega, ?_, ?_⟩
    · intro k hk
      rw [h2 k (by simp; omega), hpush k hk]
    · intro k hk
      cases k with
      | zero => rw [Nat.add_zero, h2 acc.size (by simp), hlast]; simp
      | succ k =>
        have := h3 k (by simpa using hk)
        rw [Array.size_push, Nat.add_assoc, Nat.add_comm 1 k] at this
        rw [this, List.take_succ_cons, List.sum_cons]; omega

theorem foldl_add_sum (l : List Nat) (a : Nat) : l.foldl (· + ·) a = a + l.sum := by
  induction l generalizing a with
  | nil => simp
  | cons c l ih => rw [List.foldl_cons, ih, List.sum_cons]; omega

/-- `S cnt c` = the sum of the first `c` counts -/
def S (cnt : Array Nat) (c : Nat) : Nat := (cnt.toList.take c).sum

theorem S_succ (cnt : Array Nat) (c : Nat) (hc : c < cnt.size) : S cnt (c + 1) = S cnt c + rdN cnt c := by
  unfold S rdN
  have hc' : c < cnt.toList.length := by simpa using hc
  rw [List.take_succ_eq_append_getElem hc', List.sum_append]
  simp [Array.getD_eq_getD_getElem?, Array.getElem?_eq_getElem hc]

theorem S_le_succ (cnt : Array Nat) (c : Nat) : S cnt c ≤ S cnt (c + 1) := by
  by_cases hc : c < cnt.size
  · rw [S_succ cnt c hc]; omega
  · unfold S
    rw [List.take_of_length_le (by simp; omega), List.take_of_length_le (by simp; omega)]

theorem S_mono (cnt : Array Nat) (c c' : Nat) (h : c ≤ c') : S cnt c ≤ S cnt c' :=
  mono_chain (S cnt) c' (fun i _ => S_le_succ cnt i) c c' h (Nat.le_refl _)

theorem exclusiveScan_spec (cnt : Array Nat) :
    (exclusiveScan cnt).size = cnt.size ∧ ∀ c, c < cnt.size → rdN (exclusiveScan cnt) c = S cnt c := by
  unfold exclusiveScan
  obtain ⟨h1, _, h3⟩ := scan_fold cnt.toList #[] 0
  refine ⟨by rw [h1]; simp, ?_⟩
  intro c hc
  have := h3 c (by simpa using hc)
  simp only [Array.size_empty, Nat.zero_add] at this
  rw [this]; rfl

/-! ### third pass: scatter -/

section scatter
variable [OfNat α 0]

/-- one step of the scatter loop on the state `(Bp, Bi, Bx)` -/
def scStep (st : Array Nat × Array Nat × Array α) (e : Nat × Nat × α) : Array Nat × Array Nat × Array α :=
  (st.1.setIfInBounds e.2.1 (rdN st.1 e.2.1 + 1), st.2.1.setIfInBounds (rdN st.1 e.2.1) e.1,
   st.2.2.setIfInBounds (rdN st.1 e.2.1) e.2.2)

/-- after the prefix `pre`: the insertion pointers have advanced by the counts of `pre`, and column `c`'s
segment holds the bucket of `pre` -/
structure ScInv (n nnz : Nat) (Sf : Nat → Nat) (pre : List (Nat × Nat × α))
    (st : Array Nat × Array Nat × Array α) : Prop where
  s1 : st.1.size = n
  s2 : st.2.1.size = nnz
  s3 : st.2.2.size = nnz
  next : ∀ c, c < n → rdN st.1 c = Sf c + cntOf pre c
  seg : ∀ c, c < n → ∀ k, k < cntOf pre c → (bucket pre c)[k]? = some (rdN st.2.1 (Sf c + k), rd st.2.2 (Sf c + k))

theorem scatter_inv (E : List (Nat × Nat × α)) (n nnz : Nat) (Sf : Nat → Nat)
    (hcol : ∀ e ∈ E, e.2.1 < n) (hS : ∀ c, c < n → Sf (c + 1) = Sf c + cntOf E c)
    (hmono : ∀ c c', c ≤ c' → Sf c ≤ Sf c') (hn : Sf n = nnz) :
    ∀ (post pre : List (Nat × Nat × α)) (st : Array Nat × Array Nat × Array α),
      pre ++ post = E → ScInv n nnz Sf pre st → ScInv n nnz Sf E (post.foldl scStep st) := by
  intro post
  induction post with
  | nil => intro pre st h hinv; rw [List.append_nil] at h; subst h; exact hinv
  | cons e post ih =>
    intro pre st h hinv
    rw [List.foldl_cons]
    apply ih (pre ++ [e]) (scStep st e) (by rw [List.append_assoc]; exact h)
    have heE : e ∈ E := by rw [← h]; simp
    have hc0 : e.2.1 < n := hcol e heE
    have hcntE : ∀ c, cntOf E c = cntOf pre c + (if e.2.1 = c then 1 else 0) + cntOf post c := by
      intro c; rw [← h, cntOf_append, cntOf_cons]; omega
    have hdest : rdN st.1 e.2.1 = Sf e.2.1 + cntOf pre e.2.1 := hinv.next _ hc0
    have hlt : rdN st.1 e.2.1 < Sf (e.2.1 + 1) := by
      have := hcntE e.2.1
      rw [if_pos rfl] at this
      rw [hdest, hS _ hc0]; omega
    have hnnz : rdN st.1 e.2.1 < nnz := by
      have := hmono (e.2.1 + 1) n (by omega); omega
    have hcnt1 : ∀ c, cntOf (pre ++ [e]) c = cntOf pre c + (if e.2.1 = c then 1 else 0) := by
      intro c; rw [cntOf_append, cntOf_cons, cntOf_nil]; omega
    refine ⟨by simp [scStep, hinv.s1], by simp [scStep, hinv.s2], by simp [scStep, hinv.s3], ?_, ?_⟩
    · intro c hc
      show rdN (st.1.setIfInBounds e.2.1 (rdN st.1 e.2.1 + 1)) c = _
      unfold rdN
      rw [getD_set, hcnt1]
      by_cases hec : e.2.1 = c
      · subst hec
        have := hinv.next _ hc0
        unfold rdN at this
        simp [hinv.s1, hc0, this]; omega
      · have := hinv.next c hc
        unfold rdN at this
        simp [hec, this]
    · intro c hc k hk
      rw [hcnt1] at hk
      show (bucket (pre ++ [e]) c)[k]? = some (rdN (st.2.1.setIfInBounds (rdN st.1 e.2.1) e.1) (Sf c + k),
        rd (st.2.2.setIfInBounds (rdN st.1 e.2.1) e.2.2) (Sf c + k))
      have hb : bucket (pre ++ [e]) c = bucket pre c ++ (if e.2.1 = c then [(e.1, e.2.2)] else []) := by
        rw [bucket_append]; congr 1
        unfold bucket
        by_cases hec : e.2.1 = c <;> simp [hec]
      have hrdN : ∀ p, rdN (st.2.1.setIfInBounds (rdN st.1 e.2.1) e.1) p
          = if rdN st.1 e.2.1 = p then e.1 else rdN st.2.1 p := by
        intro p
        unfold rdN
        rw [getD_set]
        by_cases hp : st.1.getD e.2.1 0 = p
        · have hsz : st.1.getD e.2.1 0 < st.2.1.size := by rw [hinv.s2]; exact hnnz
          rw [if_pos ⟨hp, hsz⟩, if_pos hp]
        · rw [if_neg (fun hh => hp hh.1), if_neg hp]
      have hrd : ∀ p, rd (st.2.2.setIfInBounds (rdN st.1 e.2.1) e.2.2) p
          = if rdN st.1 e.2.1 = p then e.2.2 else rd st.2.2 p := by
        intro p
        have := rd_wr st.2.2 (rdN st.1 e.2.1) p e.2.2
        unfold wr at this
        rw [this]
        by_cases hp : rdN st.1 e.2.1 = p
        · have h2 : rdN st.1 e.2.1 < st.2.2.size := by rw [hinv.s3]; exact hnnz
          rw [if_pos ⟨hp, h2⟩, if_pos hp]
        · rw [if_neg (fun hh => hp hh.1), if_neg hp]
      rw [hrdN, hrd, hb]
      by_cases hnew : e.2.1 = c ∧ k = cntOf pre c
      · obtain ⟨hec, hk'⟩ := hnew
        subst hec
        have hpos : rdN st.1 e.2.1 = Sf e.2.1 + k := by rw [hdest, hk']
        rw [if_pos hpos, if_pos hpos, if_pos rfl]
        rw [List.getElem?_append_right (by rw [bucket_length]; omega), bucket_length, hk']
        simp
      · -- an older position of some segment: not the one just written
        have hkold : k < cntOf pre c := by
          by_cases hec : e.2.1 = c
          · simp only [hec, if_true] at hk
            have : k ≠ cntOf pre c := fun hh => hnew ⟨hec, hh⟩
            omega
          · simpa [hec] using hk
        have hne : rdN st.1 e.2.1 ≠ Sf c + k := by
          by_cases hec : e.2.1 = c
          · rw [hdest, hec]; omega
          · have hkE : k < cntOf E c := by rw [hcntE]; omega
            have hseg : Sf c + k < Sf (c + 1) := by rw [hS c hc]; omega
            rcases Nat.lt_or_gt_of_ne hec with hlt' | hgt
            · -- e.2.1 < c
              have := hmono (e.2.1 + 1) c (by omega); omega
            · have := hmono (c + 1) e.2.1 (by omega)
              rw [hdest]; omega
        rw [if_neg hne, if_neg hne, List.getElem?_append_left (by rw [bucket_length]; exact hkold)]
        exact hinv.seg c hc k hkold

end scatter

/-! ### the three passes together -/

section final
variable [AddCommMonoid α]

theorem colCounts_eq (A : Csr α) :
    colCounts A = (entries A).foldl (fun cnt e => cnt.setIfInBounds e.2.1 (rdN cnt e.2.1 + 1)) (Array.replicate A.cols 0) := by
  unfold colCounts entries
  rw [List.foldl_flatMap]
  simp only [List.foldl_map]

theorem scatter_eq (A : Csr α) (start : Array Nat) (nnz : Nat) :
    scatter A start nnz = (entries A).foldl scStep (start, Array.replicate nnz 0, Array.replicate nnz 0) := by
  unfold scatter entries
  rw [List.foldl_flatMap]
  simp only [List.foldl_map]
  rfl

theorem entries_col_lt (A : Csr α) (hA : A.wf = true) : ∀ e ∈ entries A, e.2.1 < A.cols := by
  intro e he
  unfold entries at he
  simp only [List.mem_flatMap, List.mem_map] at he
  obtain ⟨i, _, f, hf, rfl⟩ := he
  exact A.wf_colsOK hA i f hf

theorem bucket_entries (A : Csr α) (c : Nat) : bucket (entries A) c = transposeRow A c := by
  unfold bucket entries transposeRow
  rw [List.filterMap_flatMap]
  congr 1
  funext i
  rw [List.filterMap_map]
  rfl

theorem rdN_replicate_zero (n c : Nat) : rdN (Array.replicate n 0) c = 0 := by
  unfold rdN
  simp only [Array.getD_eq_getD_getElem?]
  by_cases hc : c < n <;> simp [hc]

theorem rdN_push (a : Array Nat) (x c : Nat) :
    rdN (a.push x) c = if c < a.size then rdN a c else if c = a.size then x else 0 := by
  unfold rdN
  simp only [Array.getD_eq_getD_getElem?, Array.getElem?_push]
  by_cases h1 : c < a.size
  · simp [h1, Nat.ne_of_lt h1]
  · by_cases h2 : c = a.size
    · simp [h2]
    · simp [h1, h2]

/-- **`csr_tocsc` loop by loop returns, row by row, what the functional transpose model returns** -/
theorem transposeArr_row (A : Csr α) (hA : A.wf = true) (c : Nat) : (transposeArr A).row c = (transpose A).row c := by
  -- first pass
  have hcnt := cnt_fold (entries A) (Array.replicate A.cols 0)
  rw [← colCounts_eq] at hcnt
  obtain ⟨hsz, hval⟩ := hcnt
  have hsz' : (colCounts A).size = A.cols := by rw [hsz]; simp
  have hval' : ∀ c, c < A.cols → rdN (colCounts A) c = cntOf (entries A) c := by
    intro c hc
    rw [hval c (by simpa using hc), rdN_replicate_zero, Nat.zero_add]
  -- second pass
  obtain ⟨hstsz, hstart⟩ := exclusiveScan_spec (colCounts A)
  have hnnz : (colCounts A).toList.foldl (· + ·) 0 = S (colCounts A) A.cols := by
    rw [foldl_add_sum, Nat.zero_add]
    unfold S
    rw [List.take_of_length_le (by simp [hsz'])]
  have hS : ∀ c, c < A.cols → S (colCounts A) (c + 1) = S (colCounts A) c + cntOf (entries A) c := by
    intro c hc
    rw [S_succ _ c (by omega), hval' c hc]
  -- third pass
  have hinit : ScInv A.cols (S (colCounts A) A.cols) (S (colCounts A)) []
      (exclusiveScan (colCounts A), Array.replicate (S (colCounts A) A.cols) 0,
        (Array.replicate (S (colCounts A) A.cols) 0 : Array α)) := by
    refine ⟨by rw [hstsz, hsz'], by simp, by simp, ?_, ?_⟩
    · intro c hc
      show rdN (exclusiveScan (colCounts A)) c = _
      rw [hstart c (by omega), cntOf_nil, Nat.add_zero]
    · intro c _ k hk
      rw [cntOf_nil] at hk; omega
  have hfin := scatter_inv (entries A) A.cols (S (colCounts A) A.cols) (S (colCounts A))
    (entries_col_lt A hA) hS (S_mono _) rfl (entries A) [] _ (List.nil_append _) hinit
  rw [← scatter_eq] at hfin
  -- the rows
  rw [transpose_row A c]
  unfold Csr.row
  show (List.range' (rdN ((exclusiveScan (colCounts A)).push ((colCounts A).toList.foldl (· + ·) 0)) c)
      (rdN ((exclusiveScan (colCounts A)).push ((colCounts A).toList.foldl (· + ·) 0)) (c + 1)
        - rdN ((exclusiveScan (colCounts A)).push ((colCounts A).toList.foldl (· + ·) 0)) c)).map
      (fun jj => (rdN (scatter A (exclusiveScan (colCounts A)) ((colCounts A).toList.foldl (· + ·) 0)).2.1 jj,
        rd (scatter A (exclusiveScan (colCounts A)) ((colCounts A).toList.foldl (· + ·) 0)).2.2 jj)) = _
  rw [hnnz]
  have hap : ∀ t, t ≤ A.cols → rdN ((exclusiveScan (colCounts A)).push (S (colCounts A) A.cols)) t = S (colCounts A) t := by
    intro t ht
    rw [rdN_push, hstsz, hsz']
    by_cases h1 : t < A.cols
    · rw [if_pos h1, hstart t (by omega)]
    · have : t = A.cols := by omega
      rw [if_neg h1, if_pos this, this]
  have hbig : ∀ t, A.cols < t → rdN ((exclusiveScan (colCounts A)).push (S (colCounts A) A.cols)) t = 0 := by
    intro t ht
    rw [rdN_push, hstsz, hsz', if_neg (by omega), if_neg (by omega)]
  by_cases hc : c < A.cols
  · rw [if_pos hc, hap c (by omega), hap (c + 1) (by omega), hS c hc, Nat.add_sub_cancel_left, ← bucket_entries]
    apply List.ext_getElem
    · simp [bucket_length]
    · intro k h1 h2
      have hk : k < cntOf (entries A) c := by simpa using h1
      have := hfin.seg c hc k hk
      rw [List.getElem?_eq_getElem h2] at this
      simp only [List.getElem_map, List.getElem_range', Nat.one_mul]
      exact (Option.some.inj this).symm
  · rw [if_neg hc]
    have h0 : rdN ((exclusiveScan (colCounts A)).push (S (colCounts A) A.cols)) (c + 1) = 0 := hbig (c + 1) (by omega)
    rw [h0, Nat.zero_sub]
    rfl

/-- hence the array version transposes the dense meaning as well -/
theorem val_transposeArr (A : Csr α) (hA : A.wf = true) (i j : Nat) : (transposeArr A).val i j = A.val j i := by
  have h : (transposeArr A).val i j = (transpose A).val i j := by
    unfold Csr.val
    show (if i < A.cols then rowVal ((transposeArr A).row i) j else 0) = if i < A.cols then rowVal ((transpose A).row i) j else 0
    rw [transposeArr_row A hA]
  rw [h, val_transpose A hA]

end final

end PyamgV.Spmm
