import PyamgV.Model.ExtC10bImm
import Mathlib.Algebra.BigOperators.Intervals
import Mathlib.Algebra.BigOperators.Ring.Finset
import Mathlib.Order.Interval.Finset.Nat
import Mathlib.Tactic.Ring

/-! PyamgV (extension E24, property C10): `incomplete_mat_mult_csr` computes exactly the entries of
`A·B` on the stored pattern of `S`.

Precondition of the kernel (its doc string: "Indices for A, B and S must all be sorted", "free of
duplicate entries"): the column indices of every row of `A` and the row indices of every column of `B`
are **strictly increasing** (`SortedSeg`).  `S` needs only ascending row pointers inside `Sx`.

* `innerLoop_spec` / `myInner_spec`: the two-pointer merge returns
  `Σ_{p ∈ row of A} Σ_{q ∈ column of B} [Aj p = Bj q]·Ax p·Bx q`;
* `entry_dot`: that double sum is `Σ_{k<n} A[row,k]·B[k,col]` with the matrix entries
  `csEntry` (sum of the stored values carrying the index, one value at most when sorted);
* `incompleteMatMultCsr_spec`: every stored position `ptr` of row `row` of `S` receives
  `(A·B)[row, Sj ptr]`, positions outside the rows stay as they were, the size is unchanged. -/
namespace PyamgV.C10b
open PyamgV.C10bM Finset
open PyamgV.C10M (rdN)

variable {α : Type} [CommSemiring α]

/-- the index array is strictly increasing on the positions `lo ≤ p < hi` -/
def SortedSeg (idx : Array Nat) (lo hi : Nat) : Prop :=
  ∀ p q, lo ≤ p → p < q → q < hi → rdN idx p < rdN idx q

/-- the sparse dot product of positions `[a0, a1)` of `(aj, ax)` with positions `[b0, b1)` of `(bj, bx)` -/
def segDot (aj : Array Nat) (ax : Array α) (bj : Array Nat) (bx : Array α) (a0 a1 b0 b1 : Nat) : α :=
  ∑ p ∈ Ico a0 a1, ∑ q ∈ Ico b0 b1, if rdN aj p = rdN bj q then ax.getD p 0 * bx.getD q 0 else 0

theorem segDot_empty_left (aj : Array Nat) (ax : Array α) (bj : Array Nat) (bx : Array α) (a0 a1 b0 b1 : Nat)
    (h : a1 ≤ a0) : segDot aj ax bj bx a0 a1 b0 b1 = 0 := by
  simp [segDot, Ico_eq_empty_of_le h]

theorem segDot_empty_right (aj : Array Nat) (ax : Array α) (bj : Array Nat) (bx : Array α) (a0 a1 b0 b1 : Nat)
    (h : b1 ≤ b0) : segDot aj ax bj bx a0 a1 b0 b1 = 0 := by
  simp [segDot, Ico_eq_empty_of_le h]

/-- the smaller head of `A` matches nothing in the rest of `B`: drop it -/
theorem segDot_skip_left (aj : Array Nat) (ax : Array α) (bj : Array Nat) (bx : Array α) (a0 a1 b0 b1 : Nat)
    (ha : a0 < a1) (_hb : b0 < b1) (hB : SortedSeg bj b0 b1) (hlt : rdN aj a0 < rdN bj b0) :
    segDot aj ax bj bx a0 a1 b0 b1 = segDot aj ax bj bx (a0 + 1) a1 b0 b1 := by
  unfold segDot
  rw [sum_eq_sum_Ico_succ_bot ha]
  have : ∑ q ∈ Ico b0 b1, (if rdN aj a0 = rdN bj q then ax.getD a0 0 * bx.getD q 0 else 0) = 0 := by
    apply sum_eq_zero
    intro q hq
    rw [mem_Ico] at hq
    have : rdN bj b0 ≤ rdN bj q := by
      rcases Nat.eq_or_lt_of_le hq.1 with e | l
      · rw [e]
      · exact Nat.le_of_lt (hB b0 q (Nat.le_refl _) l hq.2)
    rw [if_neg (by omega)]
  rw [this, zero_add]

/-- the smaller head of `B` matches nothing in the rest of `A`: drop it -/
theorem segDot_skip_right (aj : Array Nat) (ax : Array α) (bj : Array Nat) (bx : Array α) (a0 a1 b0 b1 : Nat)
    (_ha : a0 < a1) (hb : b0 < b1) (hA : SortedSeg aj a0 a1) (hlt : rdN bj b0 < rdN aj a0) :
    segDot aj ax bj bx a0 a1 b0 b1 = segDot aj ax bj bx a0 a1 (b0 + 1) b1 := by
  unfold segDot
  apply sum_congr rfl
  intro p hp
  rw [mem_Ico] at hp
  rw [sum_eq_sum_Ico_succ_bot hb]
  have : rdN aj a0 ≤ rdN aj p := by
    rcases Nat.eq_or_lt_of_le hp.1 with e | l
    · rw [e]
    · exact Nat.le_of_lt (hA a0 p (Nat.le_refl _) l hp.2)
  rw [if_neg (by omega), zero_add]

/-- equal heads: one product, and neither head matches anything else -/
theorem segDot_match (aj : Array Nat) (ax : Array α) (bj : Array Nat) (bx : Array α) (a0 a1 b0 b1 : Nat)
    (ha : a0 < a1) (hb : b0 < b1) (hA : SortedSeg aj a0 a1) (hB : SortedSeg bj b0 b1)
    (heq : rdN aj a0 = rdN bj b0) :
    segDot aj ax bj bx a0 a1 b0 b1 =
      ax.getD a0 0 * bx.getD b0 0 + segDot aj ax bj bx (a0 + 1) a1 (b0 + 1) b1 := by
  unfold segDot
  rw [sum_eq_sum_Ico_succ_bot ha, sum_eq_sum_Ico_succ_bot hb, if_pos heq]
  have h1 : ∑ q ∈ Ico (b0 + 1) b1, (if rdN aj a0 = rdN bj q then ax.getD a0 0 * bx.getD q 0 else 0) = 0 := by
    apply sum_eq_zero
    intro q hq
    rw [mem_Ico] at hq
    have := hB b0 q (Nat.le_refl _) (by omega) hq.2
    rw [if_neg (by omega)]
  rw [h1, add_zero]
  congr 1
  apply sum_congr rfl
  intro p hp
  rw [mem_Ico] at hp
  rw [sum_eq_sum_Ico_succ_bot hb]
  have := hA a0 p (Nat.le_refl _) (by omega) hp.2
  rw [if_neg (by omega), zero_add]

theorem SortedSeg.tail {idx : Array Nat} {lo hi : Nat} (h : SortedSeg idx lo hi) : SortedSeg idx (lo + 1) hi :=
  fun p q hp hpq hq => h p q (by omega) hpq hq

/-- **the merge loop**: with enough fuel and sorted segments it adds the sparse dot product of the
remaining segments to the running sum -/
theorem innerLoop_spec (aj : Array Nat) (ax : Array α) (bj : Array Nat) (bx : Array α) (aEnd bEnd : Nat) :
    ∀ (fuel aPos bPos : Nat) (sum : α), (aEnd - aPos) + (bEnd - bPos) ≤ fuel →
      SortedSeg aj aPos aEnd → SortedSeg bj bPos bEnd →
      innerLoop aj ax bj bx aEnd bEnd fuel aPos bPos sum = sum + segDot aj ax bj bx aPos aEnd bPos bEnd := by
  intro fuel
  induction fuel with
  | zero =>
    intro aPos bPos sum hf _ _
    have : aEnd ≤ aPos := by omega
    rw [segDot_empty_left _ _ _ _ _ _ _ _ this, add_zero]
    rfl
  | succ fuel ih =>
    intro aPos bPos sum hf hA hB
    unfold innerLoop
    by_cases hc : aPos < aEnd ∧ bPos < bEnd
    · rw [if_pos hc]
      obtain ⟨ha, hb⟩ := hc
      by_cases heq : rdN aj aPos = rdN bj bPos
      · simp only [heq, if_true]
        rw [ih (aPos + 1) (bPos + 1) _ (by omega) hA.tail hB.tail,
          segDot_match aj ax bj bx aPos aEnd bPos bEnd ha hb hA hB heq, add_assoc]
      · simp only [heq, if_false]
        by_cases hlt : rdN aj aPos < rdN bj bPos
        · rw [if_pos hlt, ih (aPos + 1) bPos _ (by omega) hA.tail hB,
            segDot_skip_left aj ax bj bx aPos aEnd bPos bEnd ha hb hB hlt]
        · rw [if_neg hlt, ih aPos (bPos + 1) _ (by omega) hA hB.tail,
            segDot_skip_right aj ax bj bx aPos aEnd bPos bEnd ha hb hA (by omega)]
    · rw [if_neg hc]
      rcases Nat.lt_or_ge aPos aEnd with h | h
      · have : bEnd ≤ bPos := by
          rcases Nat.lt_or_ge bPos bEnd with h' | h'
          · exact absurd ⟨h, h'⟩ hc
          · exact h'
        rw [segDot_empty_right _ _ _ _ _ _ _ _ this, add_zero]
      · rw [segDot_empty_left _ _ _ _ _ _ _ _ h, add_zero]

/-- the fuel of `myInner` always reaches the exit test of the `while` loop, sorted or not: more fuel
does not change the value -/
theorem innerLoop_exit (aj : Array Nat) (ax : Array α) (bj : Array Nat) (bx : Array α) (aEnd bEnd : Nat) :
    ∀ (fuel aPos bPos : Nat) (sum : α) (extra : Nat), (aEnd - aPos) + (bEnd - bPos) ≤ fuel →
      innerLoop aj ax bj bx aEnd bEnd (fuel + extra) aPos bPos sum =
        innerLoop aj ax bj bx aEnd bEnd fuel aPos bPos sum := by
  intro fuel
  induction fuel with
  | zero =>
    intro aPos bPos sum extra hf
    have : ¬ (aPos < aEnd ∧ bPos < bEnd) := by omega
    cases extra with
    | zero => rfl
    | succ e =>
      show innerLoop aj ax bj bx aEnd bEnd (0 + e + 1) aPos bPos sum = sum
      unfold innerLoop
      rw [if_neg this]
  | succ fuel ih =>
    intro aPos bPos sum extra hf
    have e : fuel + 1 + extra = (fuel + extra) + 1 := by omega
    rw [e]
    unfold innerLoop
    by_cases hc : aPos < aEnd ∧ bPos < bEnd
    · rw [if_pos hc, if_pos hc]
      obtain ⟨ha, hb⟩ := hc
      by_cases heq : rdN aj aPos = rdN bj bPos
      · simp only [heq, if_true]
        exact ih _ _ _ _ (by omega)
      · simp only [heq, if_false]
        by_cases hlt : rdN aj aPos < rdN bj bPos
        · rw [if_pos hlt, if_pos hlt]; exact ih _ _ _ _ (by omega)
        · rw [if_neg hlt, if_neg hlt]; exact ih _ _ _ _ (by omega)
    · rw [if_neg hc, if_neg hc]

/-- **`my_inner`** on a sorted row of `A` and a sorted column of `B` -/
theorem myInner_spec (ap aj : Array Nat) (ax : Array α) (bp bj : Array Nat) (bx : Array α) (row col : Nat)
    (hA : SortedSeg aj (rdN ap row) (rdN ap (row + 1))) (hB : SortedSeg bj (rdN bp col) (rdN bp (col + 1))) :
    myInner ap aj ax bp bj bx row col =
      segDot aj ax bj bx (rdN ap row) (rdN ap (row + 1)) (rdN bp col) (rdN bp (col + 1)) := by
  unfold myInner
  simp only
  rw [innerLoop_spec aj ax bj bx _ _ _ _ _ 0 (Nat.le_refl _) hA hB, zero_add]

/-! ### the matrices the arrays denote -/

/-- entry `k` of the compressed row (CSR) / column (CSC) `i`: the sum of the stored values that carry
index `k` (exactly one or none when the indices are sorted strictly) -/
def csEntry (p idx : Array Nat) (x : Array α) (i k : Nat) : α :=
  ∑ q ∈ Ico (rdN p i) (rdN p (i + 1)), if rdN idx q = k then x.getD q 0 else 0

/-- the sparse dot product is the dense one: `Σ_{k<n} A[row,k]·B[k,col]` (any `n` bounding the inner
indices of the row of `A`; no sortedness needed) -/
theorem entry_dot (ap aj : Array Nat) (ax : Array α) (bp bj : Array Nat) (bx : Array α) (row col n : Nat)
    (hn : ∀ p, rdN ap row ≤ p → p < rdN ap (row + 1) → rdN aj p < n) :
    segDot aj ax bj bx (rdN ap row) (rdN ap (row + 1)) (rdN bp col) (rdN bp (col + 1)) =
      ∑ k ∈ range n, csEntry ap aj ax row k * csEntry bp bj bx col k := by
  unfold segDot csEntry
  symm
  calc ∑ k ∈ range n, (∑ p ∈ Ico (rdN ap row) (rdN ap (row + 1)), if rdN aj p = k then ax.getD p 0 else 0) *
          (∑ q ∈ Ico (rdN bp col) (rdN bp (col + 1)), if rdN bj q = k then bx.getD q 0 else 0)
      = ∑ k ∈ range n, ∑ p ∈ Ico (rdN ap row) (rdN ap (row + 1)), ∑ q ∈ Ico (rdN bp col) (rdN bp (col + 1)),
          (if rdN aj p = k then ax.getD p 0 else 0) * (if rdN bj q = k then bx.getD q 0 else 0) := by
        apply sum_congr rfl; intro k _; rw [sum_mul_sum]
    _ = ∑ p ∈ Ico (rdN ap row) (rdN ap (row + 1)), ∑ k ∈ range n, ∑ q ∈ Ico (rdN bp col) (rdN bp (col + 1)),
          (if rdN aj p = k then ax.getD p 0 else 0) * (if rdN bj q = k then bx.getD q 0 else 0) := sum_comm
    _ = ∑ p ∈ Ico (rdN ap row) (rdN ap (row + 1)), ∑ q ∈ Ico (rdN bp col) (rdN bp (col + 1)),
          if rdN aj p = rdN bj q then ax.getD p 0 * bx.getD q 0 else 0 := by
        apply sum_congr rfl
        intro p hp
        rw [mem_Ico] at hp
        rw [sum_comm]
        apply sum_congr rfl
        intro q _
        rw [sum_eq_single (rdN aj p)]
        · by_cases h : rdN aj p = rdN bj q
          · rw [if_pos rfl, if_pos h.symm, if_pos h]
          · rw [if_pos rfl, if_neg (fun e => h e.symm), if_neg h, mul_zero]
        · intro k _ hk
          rw [if_neg (fun e => hk e.symm), zero_mul]
        · intro h
          exact absurd (mem_range.2 (hn p hp.1 hp.2)) h

/-! ### the two loops of `incomplete_mat_mult_csr` -/

theorem getD_set (a : Array α) (i j : Nat) (v : α) :
    (a.setIfInBounds i v).getD j 0 = if i = j ∧ j < a.size then v else a.getD j 0 := by
  simp only [Array.getD_eq_getD_getElem?, Array.getElem?_setIfInBounds]
  by_cases h : i = j
  · subst h
    by_cases h2 : i < a.size
    · simp [h2]
    · simp [h2]
  · simp [h]

/-- a loop writing `f p` at every position of `[lo, lo+len)` -/
theorem fold_write (f : Nat → α) : ∀ (len lo : Nat) (a : Array α),
    ((List.range' lo len).foldl (fun (s : Array α) p => s.setIfInBounds p (f p)) a).size = a.size ∧
    ∀ q, ((List.range' lo len).foldl (fun (s : Array α) p => s.setIfInBounds p (f p)) a).getD q 0 =
      if lo ≤ q ∧ q < lo + len ∧ q < a.size then f q else a.getD q 0 := by
  intro len
  induction len with
  | zero =>
    intro lo a
    refine ⟨rfl, fun q => ?_⟩
    rw [if_neg (by omega)]; rfl
  | succ len ih =>
    intro lo a
    rw [List.range'_succ, List.foldl_cons]
    obtain ⟨h1, h2⟩ := ih (lo + 1) (a.setIfInBounds lo (f lo))
    refine ⟨by rw [h1, Array.size_setIfInBounds], fun q => ?_⟩
    rw [h2 q, Array.size_setIfInBounds, getD_set]
    by_cases hq : lo = q
    · subst hq
      by_cases hs : lo < a.size
      · rw [if_neg (by omega), if_pos ⟨rfl, hs⟩, if_pos ⟨Nat.le_refl _, by omega, hs⟩]
      · rw [if_neg (by omega), if_neg (by omega), if_neg (by omega)]
    · by_cases hc : lo + 1 ≤ q ∧ q < lo + 1 + len ∧ q < a.size
      · rw [if_pos hc, if_pos (by omega)]
      · rw [if_neg hc, if_neg (by omega), if_neg (by omega)]

/-- ascending row pointers -/
def MonoPtr (sp : Array Nat) (n : Nat) : Prop := ∀ r, r < n → rdN sp r ≤ rdN sp (r + 1)

theorem MonoPtr.le {sp : Array Nat} {n : Nat} (h : MonoPtr sp n) : ∀ b, b ≤ n → ∀ a, a ≤ b → rdN sp a ≤ rdN sp b := by
  intro b
  induction b with
  | zero => intro _ a ha; have : a = 0 := by omega
            subst this; exact Nat.le_refl _
  | succ b ih =>
    intro hb a ha
    rcases Nat.eq_or_lt_of_le ha with e | l
    · rw [e]
    · exact Nat.le_trans (ih (by omega) a (by omega)) (h b (by omega))

/-- rows of positions written one after the other: row `r` writes `g r p` at `p ∈ [sp r, sp (r+1))` -/
theorem fold_rows (g : Nat → Nat → α) (sp : Array Nat) : ∀ (n : Nat) (a : Array α), MonoPtr sp n →
    let out := (List.range n).foldl (fun (s : Array α) r =>
      (List.range' (rdN sp r) (rdN sp (r + 1) - rdN sp r)).foldl (fun (s : Array α) p => s.setIfInBounds p (g r p)) s) a
    out.size = a.size ∧
    (∀ r, r < n → ∀ p, rdN sp r ≤ p → p < rdN sp (r + 1) → p < a.size → out.getD p 0 = g r p) ∧
    (∀ p, (p < rdN sp 0 ∨ rdN sp n ≤ p) → out.getD p 0 = a.getD p 0) := by
  intro n
  induction n with
  | zero =>
    intro a _
    exact ⟨rfl, fun r hr => absurd hr (Nat.not_lt_zero _), fun p _ => rfl⟩
  | succ n ih =>
    intro a hm
    have hm' : MonoPtr sp n := fun r hr => hm r (by omega)
    obtain ⟨i1, i2, i3⟩ := ih a hm'
    simp only [List.range_succ, List.foldl_append, List.foldl_cons, List.foldl_nil]
    generalize hS : (List.range n).foldl (fun (s : Array α) r =>
      (List.range' (rdN sp r) (rdN sp (r + 1) - rdN sp r)).foldl (fun (s : Array α) p => s.setIfInBounds p (g r p)) s) a = S
      at i1 i2 i3
    obtain ⟨w1, w2⟩ := fold_write (g n) (rdN sp (n + 1) - rdN sp n) (rdN sp n) S
    have hle := hm n (Nat.lt_succ_self n)
    refine ⟨by rw [w1, i1], ?_, ?_⟩
    · intro r hr p hp1 hp2 hps
      rw [w2 p]
      rcases Nat.eq_or_lt_of_le (Nat.le_of_lt_succ hr) with e | l
      · subst e
        rw [if_pos ⟨hp1, by omega, by rw [i1]; exact hps⟩]
      · have : rdN sp (r + 1) ≤ rdN sp n := hm'.le n (Nat.le_refl _) (r + 1) (by omega)
        rw [if_neg (by omega)]
        exact i2 r l p hp1 hp2 hps
    · intro p hp
      rw [w2 p]
      have h0 : rdN sp 0 ≤ rdN sp n := hm'.le n (Nat.le_refl _) 0 (Nat.zero_le _)
      rw [if_neg (by omega)]
      exact i3 p (by omega)

/-- **`incomplete_mat_mult_csr`**: for `A` (CSR) with strictly increasing column indices in every row,
`B` (CSC) with strictly increasing row indices in every column that `S` names, inner indices `< n`,
and ascending row pointers of `S` inside `Sx`: every stored position `ptr` of row `row` of `S` holds
`Σ_{k<n} A[row,k]·B[k, Sj ptr]`, whatever `Sx` held before; positions outside the `num_rows` rows are
untouched. -/
theorem incompleteMatMultCsr_spec (ap aj : Array Nat) (ax : Array α) (bp bj : Array Nat) (bx : Array α)
    (sp sj : Array Nat) (sx : Array α) (numRows n : Nat)
    (hS : MonoPtr sp numRows) (hsz : rdN sp numRows ≤ sx.size)
    (hA : ∀ row, row < numRows → SortedSeg aj (rdN ap row) (rdN ap (row + 1)))
    (hAn : ∀ row, row < numRows → ∀ p, rdN ap row ≤ p → p < rdN ap (row + 1) → rdN aj p < n)
    (hB : ∀ row, row < numRows → ∀ ptr, rdN sp row ≤ ptr → ptr < rdN sp (row + 1) →
      SortedSeg bj (rdN bp (rdN sj ptr)) (rdN bp (rdN sj ptr + 1))) :
    (incompleteMatMultCsr ap aj ax bp bj bx sp sj sx numRows).size = sx.size ∧
    (∀ row, row < numRows → ∀ ptr, rdN sp row ≤ ptr → ptr < rdN sp (row + 1) →
      (incompleteMatMultCsr ap aj ax bp bj bx sp sj sx numRows).getD ptr 0 =
        ∑ k ∈ range n, csEntry ap aj ax row k * csEntry bp bj bx (rdN sj ptr) k) ∧
    (∀ ptr, (ptr < rdN sp 0 ∨ rdN sp numRows ≤ ptr) →
      (incompleteMatMultCsr ap aj ax bp bj bx sp sj sx numRows).getD ptr 0 = sx.getD ptr 0) := by
  obtain ⟨h1, h2, h3⟩ := fold_rows (fun row ptr => myInner ap aj ax bp bj bx row (rdN sj ptr)) sp numRows sx hS
  refine ⟨h1, ?_, h3⟩
  intro row hrow ptr hp1 hp2
  have hlt : ptr < sx.size := by
    have := hS.le numRows (Nat.le_refl _) (row + 1) (by omega)
    omega
  have := h2 row hrow ptr hp1 hp2 hlt
  unfold incompleteMatMultCsr
  rw [this, myInner_spec ap aj ax bp bj bx row (rdN sj ptr) (hA row hrow) (hB row hrow ptr hp1 hp2),
    entry_dot ap aj ax bp bj bx row (rdN sj ptr) n (hAn row hrow)]

/-- a sorted segment stores every index at most once, so `csEntry` is the stored value itself -/
theorem csEntry_sorted (p idx : Array Nat) (x : Array α) (i q : Nat) (hs : SortedSeg idx (rdN p i) (rdN p (i + 1)))
    (h1 : rdN p i ≤ q) (h2 : q < rdN p (i + 1)) : csEntry p idx x i (rdN idx q) = x.getD q 0 := by
  unfold csEntry
  rw [sum_eq_single q]
  · rw [if_pos rfl]
  · intro q' hq' hne
    rw [mem_Ico] at hq'
    rcases Nat.lt_or_gt_of_ne hne with l | l
    · have := hs q' q hq'.1 l h2
      rw [if_neg (by omega)]
    · have := hs q q' h1 l hq'.2
      rw [if_neg (by omega)]
  · intro h
    exact absurd (mem_Ico.2 ⟨h1, h2⟩) h

#print axioms incompleteMatMultCsr_spec
end PyamgV.C10b
