import PyamgV.Proofs.ExtC07Gh

/-! PyamgV (C07, extension E11): an Arnoldi relation with non-zero subdiagonal makes the basis span the Krylov
space -- independent of how the basis was computed (`arnoldi_span_krylov`); applied to the Householder model:
`gmres_hh_basis_span`, `gmres_hh_optimal_krylov` (C07 as stated for `_gmres_householder.py`). -/
namespace PyamgV.C07
open Finset

variable {K : Type} [Field K] [LinearOrder K] [IsStrictOrderedRing K]
variable {V : Type} [AddCommGroup V] [Module K V]

omit [LinearOrder K] [IsStrictOrderedRing K] in
/-- `B v_j = Σ_{l ≤ j+1} H_{l j} v_l` with `H_{j+1, j} ≠ 0` for `j < k` and `r = β v_0`, `β ≠ 0`:
`span{v_0 … v_k} = span{r, B r, …, B^k r}` -/
theorem arnoldi_span_krylov (B : V →ₗ[K] V) (v : Nat → V) (H : Nat → Nat → K) (r : V) (β : K) (hβ : β ≠ 0)
    (hr : r = β • v 0) : ∀ k, (∀ j, j < k → B (v j) = ∑ l ∈ range (j + 2), H l j • v l) →
      (∀ j, j < k → H (j + 1) j ≠ 0) →
      Submodule.span K (v '' {i | i ≤ k}) = Submodule.span K ((fun i => (B ^ i) r) '' {i | i ≤ k}) := by
  intro k
  induction k with
  | zero =>
    intro _ _
    have h0 : {i : Nat | i ≤ 0} = {0} := by ext i; simp
    rw [h0, Set.image_singleton, Set.image_singleton]
    simp only [pow_zero, Module.End.one_apply]
    apply le_antisymm
    · rw [Submodule.span_singleton_le_iff_mem]
      have : v 0 = β⁻¹ • r := by rw [hr, smul_smul, inv_mul_cancel₀ hβ, one_smul]
      rw [this]; exact Submodule.smul_mem _ _ (Submodule.mem_span_singleton_self r)
    · rw [Submodule.span_singleton_le_iff_mem, hr]
      exact Submodule.smul_mem _ _ (Submodule.mem_span_singleton_self (v 0))
  | succ k ih =>
    intro hrel hsub
    have ihk := ih (fun j hj => hrel j (by omega)) (fun j hj => hsub j (by omega))
    have hSmono : Submodule.span K (v '' {i | i ≤ k}) ≤ Submodule.span K (v '' {i | i ≤ k + 1}) :=
      Submodule.span_mono (Set.image_mono (fun i (hi : i ≤ k) => (by show i ≤ k + 1; omega)))
    have hPmono : Submodule.span K ((fun i => (B ^ i) r) '' {i | i ≤ k}) ≤
        Submodule.span K ((fun i => (B ^ i) r) '' {i | i ≤ k + 1}) :=
      Submodule.span_mono (Set.image_mono (fun i (hi : i ≤ k) => (by show i ≤ k + 1; omega)))
    -- B maps the old spans into the new ones
    have hBP : ∀ x ∈ Submodule.span K ((fun i => (B ^ i) r) '' {i | i ≤ k}),
        B x ∈ Submodule.span K ((fun i => (B ^ i) r) '' {i | i ≤ k + 1}) := by
      intro x hx
      induction hx using Submodule.span_induction with
      | mem x hx =>
        obtain ⟨i, hi, rfl⟩ := hx
        refine Submodule.subset_span ⟨i + 1, (by show i + 1 ≤ k + 1; have : i ≤ k := hi; omega), ?_⟩
        show (B ^ (i + 1)) r = B ((B ^ i) r)
        rw [pow_succ', Module.End.mul_apply]
      | zero => simp
      | add u w _ _ hu hw => rw [map_add]; exact Submodule.add_mem _ hu hw
      | smul c u _ hu => rw [map_smul]; exact Submodule.smul_mem _ _ hu
    have hBS : ∀ x ∈ Submodule.span K (v '' {i | i ≤ k}),
        B x ∈ Submodule.span K (v '' {i | i ≤ k + 1}) := by
      intro x hx
      induction hx using Submodule.span_induction with
      | mem x hx =>
        obtain ⟨i, hi, rfl⟩ := hx
        have hik : i ≤ k := hi
        rw [hrel i (by omega)]
        refine Submodule.sum_mem _ (fun l hl => Submodule.smul_mem _ _ (Submodule.subset_span ⟨l, ?_, rfl⟩))
        show l ≤ k + 1
        have := Finset.mem_range.mp hl; omega
      | zero => simp
      | add u w _ _ hu hw => rw [map_add]; exact Submodule.add_mem _ hu hw
      | smul c u _ hu => rw [map_smul]; exact Submodule.smul_mem _ _ hu
    apply le_antisymm
    · apply Submodule.span_le.mpr
      rintro x ⟨i, hi, rfl⟩
      have hik : i ≤ k + 1 := hi
      by_cases hle : i ≤ k
      · exact hPmono (ihk ▸ Submodule.subset_span ⟨i, hle, rfl⟩)
      · have : i = k + 1 := by omega
        subst this
        -- H_{k+1,k} v_{k+1} = B v_k − Σ_{l ≤ k} H_{l k} v_l
        have hvk : v k ∈ Submodule.span K ((fun i => (B ^ i) r) '' {i | i ≤ k}) :=
          ihk ▸ Submodule.subset_span ⟨k, le_refl k, rfl⟩
        have hsum : ∑ l ∈ range (k + 1), H l k • v l ∈
            Submodule.span K ((fun i => (B ^ i) r) '' {i | i ≤ k + 1}) := by
          refine Submodule.sum_mem _ (fun l hl => Submodule.smul_mem _ _ (hPmono ?_))
          exact ihk ▸ Submodule.subset_span ⟨l, (by have := Finset.mem_range.mp hl; show l ≤ k; omega), rfl⟩
        have heq : H (k + 1) k • v (k + 1) = B (v k) - ∑ l ∈ range (k + 1), H l k • v l := by
          rw [hrel k (by omega), Finset.sum_range_succ]; abel
        have hmem := Submodule.sub_mem _ (hBP _ hvk) hsum
        rw [← heq] at hmem
        have := Submodule.smul_mem _ (H (k + 1) k)⁻¹ hmem
        rwa [smul_smul, inv_mul_cancel₀ (hsub k (by omega)), one_smul] at this
    · apply Submodule.span_le.mpr
      rintro x ⟨i, hi, rfl⟩
      have hik : i ≤ k + 1 := hi
      by_cases hle : i ≤ k
      · exact hSmono (ihk ▸ Submodule.subset_span ⟨i, hle, rfl⟩)
      · have : i = k + 1 := by omega
        subst this
        show (B ^ (k + 1)) r ∈ _
        rw [pow_succ', Module.End.mul_apply]
        apply hBS
        rw [ihk]
        exact Submodule.subset_span ⟨k, le_refl k, rfl⟩

variable (A AH M : V →ₗ[K] V) (e : EForm K V) (E : Nat → V) (sqrt : K → K) (n : Nat) (b x0 : V)
variable (hdef : ∀ v, e.a v v = 0 → v = 0) (hsq : ∀ a, 0 ≤ a → sqrt a * sqrt a = a) (hsq0 : ∀ a, 0 ≤ sqrt a)
variable (hE : OrthoFam e E n)

local notation "St" => ghSeq A AH M e E sqrt n b x0

theorem kry_eq_span_pow (k : Nat) : PCG.kry A M e b x0 (k + 1) =
    Submodule.span K ((fun i => ((M ∘ₗ A) ^ i) (M (b - A x0))) '' {i | i ≤ k}) := by
  unfold PCG.kry
  congr 1
  ext x
  constructor
  · rintro ⟨j, hj, rfl⟩
    exact ⟨j, (by show j ≤ k; omega), rfl⟩
  · rintro ⟨j, hj, rfl⟩
    have : j ≤ k := hj
    exact ⟨j, by omega, rfl⟩

include hdef hsq hsq0 hE in
/-- without breakdown (non-zero subdiagonal entries `H_{j+1,j} = −alpha_j`) the Householder--Arnoldi vectors of
the model span the preconditioned Krylov space: `span{v_0 … v_m} = K_{m+1}(MA, M r₀)` -/
theorem gmres_hh_basis_span (m : Nat) (hmn : m + 1 < n)
    (hbeta : sqrt (e.a (M (b - A x0)) (M (b - A x0))) ≠ 0)
    (hsub : ∀ j, j < m → F ((St (m+1)).cols.getD j []) (j + 1) ≠ 0) :
    Submodule.span K (Set.range (fun j : Fin (m+1) => (St (m+1)).zs.getD j 0)) = PCG.kry A M e b x0 (m + 1) := by
  obtain ⟨iH, _, iD⟩ := ghSeq_inv A AH M e E sqrt n b x0 hdef hsq hsq0 hE hbeta (m+1) hmn
  set s := St (m+1) with hs
  have hset : Set.range (fun j : Fin (m+1) => s.zs.getD j 0) =
      (fun l => hhL e s.ws.reverse (E l)) '' {i | i ≤ m} := by
    ext x
    constructor
    · rintro ⟨j, rfl⟩
      exact ⟨j, (by show (j : Nat) ≤ m; have := j.2; omega), (iD j j.2).symm⟩
    · rintro ⟨j, hj, rfl⟩
      have hjm : j ≤ m := hj
      exact ⟨⟨j, by omega⟩, iD j (by omega)⟩
  have hβ : ghBeta A M e E sqrt b x0 ≠ 0 := by
    unfold ghBeta
    rw [neg_ne_zero]
    refine mul_ne_zero ?_ hbeta
    rcases sgnK_unit (e.a (E 0) (M (b - A x0))) with h | h <;> rw [h] <;> norm_num
  rw [hset, kry_eq_span_pow]
  apply arnoldi_span_krylov (M ∘ₗ A) (fun l => hhL e s.ws.reverse (E l))
    (fun l j => F (s.cols.getD j []) l) (M (b - A x0)) _ hβ iH.hr0 m
  · intro j hj
    have hzj : s.zs.getD j 0 = hhL e s.ws.reverse (E j) := iD j (by omega)
    show (M ∘ₗ A) (hhL e s.ws.reverse (E j)) = _
    rw [← hzj, iH.rel j (by omega)]
    rw [← Finset.sum_range_add_sum_Ico _ (show j + 2 ≤ m + 1 + 1 by omega)]
    have hz : ∑ l ∈ Finset.Ico (j + 2) (m + 1 + 1), F (s.cols.getD j []) l • hhL e s.ws.reverse (E l) = 0 := by
      apply Finset.sum_eq_zero
      intro l hl
      have hl2 : j + 2 ≤ l := (Finset.mem_Ico.mp hl).1
      have : F (s.cols.getD j []) l = 0 := by
        simp only [F]
        rw [List.getD_eq_getElem?_getD, List.getElem?_eq_none (by rw [iH.collen j (by omega)]; omega)]; rfl
      rw [this, zero_smul]
    rw [hz, add_zero]
  · exact hsub

include hdef hsq hsq0 hE in
/-- **C07 for GMRES (Householder) as stated**: the iterate lies in `x₀ + K_{m+1}(MA, M r₀)` and minimises the 2-norm
of the left-preconditioned residual over it -/
theorem gmres_hh_optimal_krylov (m : Nat) (hmn : m + 1 < n)
    (hbeta : sqrt (e.a (M (b - A x0)) (M (b - A x0))) ≠ 0)
    (hsub : ∀ j, j < m → F ((St (m+1)).cols.getD j []) (j + 1) ≠ 0)
    (hnbr : ∀ i, i < m + 1 → Rent (St (m+1)).rcols i i ≠ 0) :
    ∃ xk, (St (m+1)).xs.getLast? = some xk ∧ xk - x0 ∈ PCG.kry A M e b x0 (m + 1) ∧
      ∀ x', x' - x0 ∈ PCG.kry A M e b x0 (m + 1) →
        e.en (M b - (M ∘ₗ A) xk) ≤ e.en (M b - (M ∘ₗ A) x') := by
  have hspan := gmres_hh_basis_span A AH M e E sqrt n b x0 hdef hsq hsq0 hE m hmn hbeta hsub
  obtain ⟨xk, h1, h2, h3⟩ := gmres_hh_optimal A AH M e E sqrt n b x0 hdef hsq hsq0 hE m hmn hbeta hnbr
  rw [hspan] at h2 h3
  exact ⟨xk, h1, h2, h3⟩

include hdef hsq hsq0 hE in
/-- … hence the preconditioned residual norm does not increase from one inner iteration to the next -/
theorem gmres_hh_monotone (m : Nat) (hmn : m + 2 < n)
    (hbeta : sqrt (e.a (M (b - A x0)) (M (b - A x0))) ≠ 0)
    (hsub : ∀ j, j < m → F ((St (m+1)).cols.getD j []) (j + 1) ≠ 0)
    (hnbr : ∀ i, i < m + 1 → Rent (St (m+1)).rcols i i ≠ 0)
    (hsub' : ∀ j, j < m + 1 → F ((St (m+2)).cols.getD j []) (j + 1) ≠ 0)
    (hnbr' : ∀ i, i < m + 2 → Rent (St (m+2)).rcols i i ≠ 0) :
    ∃ xk xk', (St (m+1)).xs.getLast? = some xk ∧ (St (m+2)).xs.getLast? = some xk' ∧
      e.en (M b - (M ∘ₗ A) xk') ≤ e.en (M b - (M ∘ₗ A) xk) := by
  obtain ⟨xk, h1, h2, _⟩ := gmres_hh_optimal_krylov A AH M e E sqrt n b x0 hdef hsq hsq0 hE m (by omega) hbeta hsub hnbr
  obtain ⟨xk', h1', _, h3'⟩ := gmres_hh_optimal_krylov A AH M e E sqrt n b x0 hdef hsq hsq0 hE (m+1) hmn hbeta
    hsub' hnbr'
  exact ⟨xk, xk', h1, h1', h3' xk (PCG.kry_mono (by omega) h2)⟩

#print axioms gmres_hh_optimal_krylov
end PyamgV.C07
