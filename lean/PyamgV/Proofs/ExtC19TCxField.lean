import PyamgV.Model.ExtC19TCx
import PyamgV.Proofs.ExtC07CVec
import Mathlib.Algebra.Field.Defs
import Mathlib.Algebra.Star.Basic
import Mathlib.Algebra.Order.Field.Basic
import Mathlib.Tactic.Ring
import Mathlib.Tactic.FieldSimp
import Mathlib.Tactic.Linarith
import Mathlib.Tactic.Positivity

/-! PyamgV (C19, extension E52): the pairs `Cx F` of `Model/ExtC19TCx.lean` over an ordered field `F`, *with the
operations the model uses*, are a field with the involution `Cx.conj` (`StarRing`), and `re` is a real part in the
sense of `C07.CH.ReMap` (`cxRe`): the Hermitian-form machinery of the complex Krylov theorems (C07, E37) applies to
them.  Facts about the model's `sqrtC`, `ltC`, `absC` over an ordered field with an exact square root. -/
set_option linter.unusedSectionVars false
namespace PyamgV.C19T
open PyamgV.C07 PyamgV.C07.CH

namespace Cx
variable {F : Type} [Field F] [LinearOrder F] [IsStrictOrderedRing F]

theorem ext' {a b : Cx F} (h1 : a.re = b.re) (h2 : a.im = b.im) : a = b := by
  cases a; cases b; simp_all

@[simp] theorem add_re (a b : Cx F) : (a + b).re = a.re + b.re := rfl
@[simp] theorem add_im (a b : Cx F) : (a + b).im = a.im + b.im := rfl
@[simp] theorem sub_re (a b : Cx F) : (a - b).re = a.re - b.re := rfl
@[simp] theorem sub_im (a b : Cx F) : (a - b).im = a.im - b.im := rfl
@[simp] theorem neg_re (a : Cx F) : (-a).re = -a.re := rfl
@[simp] theorem neg_im (a : Cx F) : (-a).im = -a.im := rfl
@[simp] theorem mul_re (a b : Cx F) : (a * b).re = a.re * b.re - a.im * b.im := rfl
@[simp] theorem mul_im (a b : Cx F) : (a * b).im = a.re * b.im + a.im * b.re := rfl
@[simp] theorem zero_re : (0 : Cx F).re = 0 := rfl
@[simp] theorem zero_im : (0 : Cx F).im = 0 := rfl
@[simp] theorem one_re : (1 : Cx F).re = 1 := rfl
@[simp] theorem one_im : (1 : Cx F).im = 0 := rfl
theorem div_re (a b : Cx F) : (a / b).re = (a.re * b.re + a.im * b.im) / normSq b := rfl
theorem div_im (a b : Cx F) : (a / b).im = (a.im * b.re - a.re * b.im) / normSq b := rfl
@[simp] theorem conj_re (a : Cx F) : (conj a).re = a.re := rfl
@[simp] theorem conj_im (a : Cx F) : (conj a).im = -a.im := rfl
@[simp] theorem ofRe_re (a : F) : (ofRe a).re = a := rfl
@[simp] theorem ofRe_im (a : F) : (ofRe a).im = 0 := rfl

instance : CommRing (Cx F) where
  add := (· + ·)
  zero := 0
  neg := Neg.neg
  sub := (· - ·)
  mul := (· * ·)
  one := 1
  add_assoc a b c := by apply ext' <;> simp <;> ring
  zero_add a := by apply ext' <;> simp
  add_zero a := by apply ext' <;> simp
  add_comm a b := by apply ext' <;> simp <;> ring
  neg_add_cancel a := by apply ext' <;> simp
  sub_eq_add_neg a b := by apply ext' <;> simp <;> ring
  mul_assoc a b c := by apply ext' <;> simp <;> ring
  one_mul a := by apply ext' <;> simp
  mul_one a := by apply ext' <;> simp
  left_distrib a b c := by apply ext' <;> simp <;> ring
  right_distrib a b c := by apply ext' <;> simp <;> ring
  mul_comm a b := by apply ext' <;> simp <;> ring
  zero_mul a := by apply ext' <;> simp
  mul_zero a := by apply ext' <;> simp
  nsmul := nsmulRec
  zsmul := zsmulRec

instance : Inv (Cx F) := ⟨fun a => ⟨a.re / normSq a, -a.im / normSq a⟩⟩
theorem inv_re (a : Cx F) : (a⁻¹).re = a.re / normSq a := rfl
theorem inv_im (a : Cx F) : (a⁻¹).im = -a.im / normSq a := rfl

theorem normSq_nonneg (a : Cx F) : 0 ≤ normSq a := add_nonneg (mul_self_nonneg _) (mul_self_nonneg _)

theorem normSq_eq_zero {a : Cx F} (h : normSq a = 0) : a = 0 := by
  unfold normSq at h
  have hre : a.re = 0 := by nlinarith [mul_self_nonneg a.re, mul_self_nonneg a.im]
  have him : a.im = 0 := by nlinarith [mul_self_nonneg a.re, mul_self_nonneg a.im]
  exact ext' hre him

theorem normSq_pos_of_ne {a : Cx F} (h : a ≠ 0) : 0 < normSq a :=
  lt_of_le_of_ne (normSq_nonneg a) (fun h0 => h (normSq_eq_zero h0.symm))

instance : Field (Cx F) where
  inv := Inv.inv
  div := (· / ·)
  div_eq_mul_inv a b := by
    apply ext'
    · rw [div_re, mul_re, inv_re, inv_im]; ring
    · rw [div_im, mul_im, inv_re, inv_im]; ring
  exists_pair_ne := ⟨0, 1, fun h => by
    have : (0 : Cx F).re = (1 : Cx F).re := by rw [h]
    simp at this⟩
  mul_inv_cancel a ha := by
    have hp := normSq_pos_of_ne ha
    have hne : normSq a ≠ 0 := ne_of_gt hp
    apply ext'
    · rw [mul_re, inv_re, inv_im, one_re]
      field_simp
      unfold normSq; ring
    · rw [mul_im, inv_re, inv_im, one_im]
      field_simp
      ring
  inv_zero := by
    apply ext'
    · rw [inv_re]; simp
    · rw [inv_im]; simp
  nnqsmul := _
  nnqsmul_def := fun _ _ => rfl
  qsmul := _
  qsmul_def := fun _ _ => rfl

instance : StarRing (Cx F) where
  star := conj
  star_involutive a := by apply ext' <;> simp
  star_mul a b := by apply ext' <;> simp <;> ring
  star_add a b := by apply ext' <;> simp <;> ring

theorem star_eq_conj : (star : Cx F → Cx F) = conj := rfl
@[simp] theorem star_re (a : Cx F) : (star a).re = a.re := rfl
@[simp] theorem star_im (a : Cx F) : (star a).im = -a.im := rfl

/-- the field and star operations are the ones of the model -/
theorem cx_instances :
    (inferInstance : Add (Cx F)) = Cx.instAdd ∧ (inferInstance : Sub (Cx F)) = Cx.instSub ∧
    (inferInstance : Mul (Cx F)) = Cx.instMul ∧ (inferInstance : Div (Cx F)) = Cx.instDiv ∧
    (star : Cx F → Cx F) = Cx.conj := ⟨rfl, rfl, rfl, rfl, rfl⟩

/-- fixed by the involution = imaginary part zero -/
theorem im_eq_zero_of_star {z : Cx F} (h : star z = z) : z.im = 0 := by
  have : -z.im = z.im := by
    have := congrArg Cx.im h
    simpa using this
  linarith

theorem eq_ofRe_of_star {z : Cx F} (h : star z = z) : z = ofRe z.re :=
  ext' rfl (im_eq_zero_of_star h)

theorem star_ofRe (a : F) : star (ofRe a : Cx F) = ofRe a := ext' rfl (by simp)

theorem ofRe_mul (a b : F) : (ofRe a * ofRe b : Cx F) = ofRe (a * b) := by apply ext' <;> simp
theorem ofRe_zero : (ofRe 0 : Cx F) = 0 := rfl
theorem ofRe_one : (ofRe 1 : Cx F) = 1 := rfl
theorem ofRe_injective {a b : F} (h : (ofRe a : Cx F) = ofRe b) : a = b := congrArg Cx.re h

theorem star_mul_self_re (z : Cx F) : (star z * z).re = normSq z := by
  simp [normSq]
theorem star_mul_self_im (z : Cx F) : (star z * z).im = 0 := by
  simp; ring
theorem star_mul_self (z : Cx F) : star z * z = ofRe (normSq z) :=
  ext' (star_mul_self_re z) (star_mul_self_im z)

/-- `re` as an additive map -/
def reHom : Cx F →+ F := { toFun := Cx.re, map_zero' := rfl, map_add' := add_re }
@[simp] theorem reHom_apply (z : Cx F) : reHom z = z.re := rfl

end Cx

variable {F : Type} [Field F] [LinearOrder F] [IsStrictOrderedRing F]

/-- `re : Cx F → F` is a real part in the sense of the Hermitian machinery of C07 -/
def cxRe : ReMap (Cx F) F where
  re := Cx.reHom
  re_star z := rfl
  sq_nonneg z := by
    show 0 ≤ (star z * z).re
    rw [Cx.star_mul_self_re]; exact Cx.normSq_nonneg z
  sq_def z h := by
    have h' : (star z * z).re = 0 := h
    rw [Cx.star_mul_self_re] at h'
    exact Cx.normSq_eq_zero h'

@[simp] theorem cxRe_re (z : Cx F) : (cxRe (F := F)).re z = z.re := rfl

/-! ### the model's square root, order test and modulus over an ordered field with an exact square root -/
section sqrt
variable (sqrt : F → F)

/-- `sqrtC z * sqrtC z = z` for real `z >= 0` -/
theorem sqrtC_mul_self (hsq : ∀ a, 0 ≤ a → sqrt a * sqrt a = a) {z : Cx F} (hz : star z = z) (h0 : 0 ≤ z.re) :
    Cx.sqrtC sqrt z * Cx.sqrtC sqrt z = z := by
  apply Cx.ext'
  · simp [Cx.sqrtC, hsq _ h0]
  · simp [Cx.sqrtC, Cx.im_eq_zero_of_star hz]

theorem star_sqrtC (z : Cx F) : star (Cx.sqrtC sqrt z) = Cx.sqrtC sqrt z := by
  apply Cx.ext' <;> simp [Cx.sqrtC]

theorem sqrtC_eq_ofRe (z : Cx F) : Cx.sqrtC sqrt z = Cx.ofRe (sqrt z.re) := rfl

theorem ltC_iff (a b : Cx F) :
    Cx.ltC (fun x y => decide (x < y)) a b = true ↔ a.re < b.re ∨ (a.re = b.re ∧ a.im < b.im) := by
  simp only [Cx.ltC, Bool.or_eq_true, Bool.and_eq_true, Bool.not_eq_eq_eq_not, Bool.not_true,
    decide_eq_true_eq, decide_eq_false_iff_not, not_lt]
  constructor
  · rintro (h | ⟨h1, h2⟩)
    · exact Or.inl h
    · rcases lt_or_eq_of_le h1 with h | h
      · exact Or.inl h
      · exact Or.inr ⟨h, h2⟩
  · rintro (h | ⟨h1, h2⟩)
    · exact Or.inl h
    · exact Or.inr ⟨le_of_eq h1, h2⟩

/-- the order test of the model on real arguments -/
theorem ltC_ofRe (a b : F) :
    Cx.ltC (fun x y => decide (x < y)) (Cx.ofRe a) (Cx.ofRe b) = true ↔ a < b := by
  rw [ltC_iff]
  simp

theorem iszC_iff (a : Cx F) : Cx.iszC (fun x => decide (x = 0)) a = true ↔ a = 0 := by
  simp only [Cx.iszC, Bool.and_eq_true, decide_eq_true_eq]
  constructor
  · rintro ⟨h1, h2⟩; exact Cx.ext' h1 h2
  · intro h; subst h; exact ⟨rfl, rfl⟩

theorem absC_eq_ofRe (z : Cx F) : Cx.absC sqrt z = Cx.ofRe (sqrt (Cx.normSq z)) := rfl

/-- `|z|` of the model for real `z`: `sqrt (re^2)` -/
theorem absC_sq (hsq : ∀ a, 0 ≤ a → sqrt a * sqrt a = a) (z : Cx F) :
    (Cx.absC sqrt z).re * (Cx.absC sqrt z).re = Cx.normSq z := by
  simp [Cx.absC, hsq _ (Cx.normSq_nonneg z)]
end sqrt

end PyamgV.C19T
