import PyamgV.Proofs.ExtC05BridgeF5
import PyamgV.Proofs.ExtComplexGs
import PyamgV.Proofs.CRatStar

/-! PyamgV (C05, extension E23, complex case, part C3): **flag `True` and the Hermitian data checkers ⇒ the
executed complex matrix `denseM` is Hermitian.**

* `isAdjS_of_dense`, `symHS_of_check`: the model's Boolean `hermitianHierarchy star` (dense copies:
  `A = Aᴴ`, `R = Pᴴ`, `Ac = Acᴴ`) and in-range column indices give `SymHS`;
* `flag_denseM_hermitian_checked`: over any field with involution, flag `True` and `c05Check star = true`
  ⇒ `denseM` returns Hermitian matrices -- every hypothesis a Boolean on the concrete data;
* `StarRing CRat` (`star = CRat.conj`), `CRat.ofRat q = (q : CRat)`;
* `flag_denseM_hermitian_checked_crat`: the instance the driver runs -- `denseM CRat.ofRat`, checker
  `c05Check CRat.conj` (op `ext_c05_symh c`), conclusion `M i j = conj (M j i)`. -/
set_option linter.unusedSectionVars false
namespace PyamgV.CF.C05
open PyamgV PyamgV.C05 PyamgV.CF Finset

section field
variable {F : Type} [Field F] [DecidableEq F] [StarRing F]

/-- **`Q = Pᴴ` as dense copies, in-range indices ⇒ `csrOp Q` is the Hermitian adjoint of `csrOp P`**
(`P : n × m`, `Q : m × n`) -/
theorem isAdjS_of_dense (P Q : K.Csr F) (n m : Nat) (hPn : P.n = n) (hQn : Q.n = m)
    (hPc : colsOk P m = true) (hQc : colsOk Q n = true)
    (hd : denseOfCsr Q n = mconjT star (denseOfCsr P m) n m) :
    IsAdjS n m (csrOp P.n (rowOf P)) (csrOp Q.n (rowOf Q)) := by
  intro u v
  unfold sdot
  have e1 : ∀ i ∈ range n, star (csrOp P.n (rowOf P) u i) * v i =
      ∑ k ∈ range m, star (mget (denseOfCsr P m) i k) * star (u k) * v i := by
    intro i hi
    rw [csrOp_dense P m hPc u i (by rw [hPn]; exact mem_range.1 hi), star_sum, Finset.sum_mul]
    apply sum_congr rfl
    intro k _
    rw [star_mul']
  have e2 : ∀ k ∈ range m, star (u k) * csrOp Q.n (rowOf Q) v k =
      ∑ i ∈ range n, star (mget (denseOfCsr P m) i k) * star (u k) * v i := by
    intro k hk
    rw [csrOp_dense Q n hQc v k (by rw [hQn]; exact mem_range.1 hk), Finset.mul_sum]
    apply sum_congr rfl
    intro i hi
    rw [hd, mget_mconjT star _ n m k i (mem_range.1 hk) (mem_range.1 hi)]
    ring
  rw [sum_congr rfl e1, sum_congr rfl e2, sum_comm]

/-- **the model's Boolean `hermitianHierarchy star` and in-range column indices give `SymHS`** -/
theorem symHS_of_check (Ac : K.Csr F) : ∀ (Ls : List (Lvl F)) (n : Nat), PyamgV.C05.Shaped Ac.n n Ls →
    inRangeH Ac Ls = true → hermitianHierarchy star Ac Ls = true → SymHS Ac Ls := by
  intro Ls n hs hr hh
  obtain ⟨hrL, hrc⟩ := inRangeH_spec Ac Ls hr
  obtain ⟨hhL, hhc⟩ := hermitianHierarchy_spec star Ac Ls hh
  clear hr hh
  induction Ls generalizing n with
  | nil => exact isAdjS_of_dense Ac Ac Ac.n Ac.n rfl rfl hrc hrc hhc
  | cons L rest ih =>
    obtain ⟨hAn, hPn, _, hrest⟩ := hs
    obtain ⟨c1, c2, c3⟩ := hrL L (by simp)
    obtain ⟨d1, d2⟩ := hhL L (by simp)
    refine ⟨isAdjS_of_dense L.A L.A L.A.n L.A.n rfl rfl c1 c1 d1,
      isAdjS_of_dense L.P L.R L.A.n L.R.n (by rw [hPn, hAn]) rfl c2 c3 d2, ?_⟩
    exact ih L.R.n hrest (fun L' hL' => hrL L' (by simp [hL'])) (fun L' hL' => hhL L' (by simp [hL']))

/-- soundness of `dataOk star`: shapes, `LvlOK` on every level, `SymHS` -/
theorem dataOk_soundS (Ac : K.Csr F) (Ls : List (Lvl F)) (h : dataOk star Ac Ls = true) :
    PyamgV.C05.Shaped Ac.n (topSize Ac Ls) Ls ∧ (∀ L ∈ Ls, LvlOK L) ∧ SymHS Ac Ls := by
  unfold dataOk at h
  simp only [Bool.and_eq_true] at h
  obtain ⟨⟨⟨h1, h2⟩, h3⟩, h4⟩ := h
  have hs := shaped_of_B Ac.n Ls _ h1
  refine ⟨hs, ?_, symHS_of_check Ac Ls _ hs h3 h4⟩
  intro L hL
  rw [List.all_eq_true] at h2
  exact lvlOK_of_B L (h2 L hL)

/-- **C05 for the executed definition over a field with involution, every hypothesis a Boolean evaluated
on the concrete data**: flag `True` and `c05Check star pre post Ac Ls = true` ⇒ whenever `denseM` returns a
matrix `M` (V- and W-cycle), `M i j = star (M j i)`. -/
theorem flag_denseM_hermitian_checked (ofRat : Rat → F) (hof : ∀ q, ofRat q = (q : F))
    (pre post : List Cfg) (Ac : K.Csr F) (Ls : List (Lvl F))
    (hflag : flag pre post Ls.length = some true)
    (hchk : c05Check star pre post Ac Ls = true)
    (c : Cyc) (M : Mat F) (h : denseM ofRat Ac c Ls = some M) :
    M.size = topSize Ac Ls ∧
    ∀ i j, i < topSize Ac Ls → j < topSize Ac Ls → mget M i j = star (mget M j i) := by
  unfold c05Check at hchk
  simp only [Bool.and_eq_true, decide_eq_true_eq] at hchk
  obtain ⟨⟨⟨hp, hq⟩, hinst⟩, hdata⟩ := hchk
  obtain ⟨hs, hok, hsym⟩ := dataOk_soundS Ac Ls hdata
  exact flag_denseM_hermitian ofRat hof pre post hp hq Ac Ls hflag (installed_of_B pre post Ls 0 hinst)
    (topSize Ac Ls) hs hok hsym c M h

end field
end PyamgV.CF.C05

/-! ### the Gaussian rationals -/
namespace PyamgV.CRat

theorem natCast_eq (n : ℕ) : ((n : ℕ) : CRat) = ⟨n, 0⟩ := by
  induction n with
  | zero => rw [Nat.cast_zero]; rfl
  | succ n ih =>
    rw [Nat.cast_succ, ih]
    apply ext'
    · simp
    · simp

theorem intCast_eq (z : ℤ) : ((z : ℤ) : CRat) = ⟨z, 0⟩ := by
  cases z with
  | ofNat n =>
    rw [Int.ofNat_eq_natCast, Int.cast_natCast, natCast_eq]
    simp
  | negSucc n =>
    rw [Int.cast_negSucc, natCast_eq]
    apply ext'
    · simp
    · simp

/-- the scalar embedding `CRat.ofRat` of the model is the rational cast of the field `CRat` -/
theorem ofRat_eq_cast (q : ℚ) : ofRat q = (q : CRat) := by
  rw [Rat.cast_def, intCast_eq, natCast_eq]
  have hd : (q.den : ℚ) ≠ 0 := by exact_mod_cast q.den_ne_zero
  apply ext'
  · rw [div_re]
    unfold normSq ofRat
    simp only [mul_zero, add_zero]
    rw [mul_div_mul_right _ _ hd, Rat.num_div_den]
  · rw [div_im]
    unfold ofRat
    simp

end PyamgV.CRat

namespace PyamgV.CF.C05
open PyamgV PyamgV.C05 PyamgV.CF

/-- **the instance the driver runs for complex data**: Gaussian rationals, `ofRat = CRat.ofRat`, checker
`c05Check CRat.conj` (op `ext_c05_symh c`): flag `True` and checker `true` ⇒ whenever the executed complex
cycle model returns the matrix `M` of `aspreconditioner(cycle)`, V or W, **`M` is Hermitian**,
`M i j = conj (M j i)`. -/
theorem flag_denseM_hermitian_checked_crat (pre post : List Cfg) (Ac : K.Csr CRat) (Ls : List (Lvl CRat))
    (hflag : flag pre post Ls.length = some true)
    (hchk : c05Check CRat.conj pre post Ac Ls = true)
    (c : Cyc) (M : Mat CRat) (h : denseM CRat.ofRat Ac c Ls = some M) :
    M.size = topSize Ac Ls ∧
    ∀ i j, i < topSize Ac Ls → j < topSize Ac Ls → mget M i j = CRat.conj (mget M j i) :=
  flag_denseM_hermitian_checked CRat.ofRat CRat.ofRat_eq_cast pre post Ac Ls hflag hchk c M h

#print axioms flag_denseM_hermitian_checked
#print axioms flag_denseM_hermitian_checked_crat
end PyamgV.CF.C05
