import PyamgV.Proofs.ExtC04XCheck
import Mathlib.Algebra.BigOperators.Group.List.Basic
/-! PyamgV (extension E50, property C04): the row filter on the stored row and on the dense row.

`amg_core.filter_matrix_rows` works on the stored entries of a CSR row (any order, missing entries, explicit
zeros); the hierarchy checker `checkHierF` applies the same kernel model (`C19.filterRowDiag`) to the DENSE row of
the matrix (`filterMat`).  `sparse_filter_meaning`: for a stored row without duplicate column indices the two agree
in their dense meaning (`C19.entry` = the matrix entry), entry by entry. -/
namespace PyamgV.C04X
open PyamgV PyamgV.C04 PyamgV.C19

theorem sumL_eq_sum (l : List CRat) : C19.sumL l = l.sum := by
  unfold C19.sumL
  rw [List.sum_eq_foldl]

theorem entry_cons (a : Nat × CRat) (l : RowOf CRat) (j : Nat) :
    C19.entry (a :: l) j = (if a.1 = j then a.2 else 0) + C19.entry l j := by
  unfold C19.entry
  rw [sumL_eq_sum, sumL_eq_sum]
  by_cases h : a.1 = j
  · simp [h]
  · simp [h]

theorem entry_nil (j : Nat) : C19.entry ([] : RowOf CRat) j = 0 := rfl

/-- no stored entry in column `j`: the matrix entry is zero -/
theorem entry_zero (r : RowOf CRat) (j : Nat) (h : ∀ cv ∈ r, cv.1 ≠ j) : C19.entry r j = 0 := by
  induction r with
  | nil => rfl
  | cons a l ih =>
    rw [entry_cons, if_neg (h a List.mem_cons_self), ih (fun cv hc => h cv (List.mem_cons_of_mem _ hc)), add_zero]

/-- without duplicate column indices a stored entry IS the matrix entry -/
theorem entry_mem (r : RowOf CRat) (hnd : (r.map (·.1)).Nodup) (cv : Nat × CRat) (hc : cv ∈ r) :
    C19.entry r cv.1 = cv.2 := by
  induction r with
  | nil => cases hc
  | cons a l ih =>
    rw [List.map_cons, List.nodup_cons] at hnd
    obtain ⟨ha, hl⟩ := hnd
    rw [entry_cons]
    rcases List.mem_cons.mp hc with h | h
    · subst h
      rw [if_pos rfl, entry_zero l cv.1 (fun c hcl heq => ha (heq ▸ List.mem_map_of_mem hcl)), add_zero]
    · have hne : a.1 ≠ cv.1 := fun heq => ha (heq ▸ List.mem_map_of_mem h)
      rw [if_neg hne, ih hl h, zero_add]

theorem normSq_zero : CRat.normSq 0 = 0 := by
  unfold CRat.normSq
  simp

theorem normSq_nonneg (z : CRat) : 0 ≤ CRat.normSq z := by
  unfold CRat.normSq
  exact add_nonneg (mul_self_nonneg _) (mul_self_nonneg _)

/-- the threshold of the kernel: the first stored diagonal entry is the diagonal entry (0 if none is stored) -/
theorem diag_sq (r : RowOf CRat) (hnd : (r.map (·.1)).Nodup) (i : Nat) :
    (match r.findIdx? (fun cv => decide (cv.1 = i)) with
      | none => (0 : Rat)
      | some k => CRat.normSq ((r.getD k (0, 0)).2)) = CRat.normSq (C19.entry r i) := by
  cases hd : r.findIdx? (fun cv => decide (cv.1 = i)) with
  | none =>
    rw [List.findIdx?_eq_none_iff] at hd
    rw [entry_zero r i (fun cv hc => by simpa using hd cv hc), normSq_zero]
  | some k =>
    rw [List.findIdx?_eq_some_iff_getElem] at hd
    obtain ⟨hk, hp, _⟩ := hd
    have hki : (r[k]).1 = i := by simpa using hp
    have : r.getD k (0, 0) = r[k] := by
      rw [List.getD_eq_getElem?_getD, List.getElem?_eq_getElem hk]
      rfl
    simp only [this]
    rw [← hki, entry_mem r hnd r[k] (List.getElem_mem hk)]

/-- sum over the stored entries selected by a predicate on the column = sum over the columns -/
theorem sum_ite_range (n c : Nat) (v : CRat) (q : Nat → Bool) :
    (((List.range n).filter q).map fun k => if c = k then v else 0).sum = if q c = true ∧ c < n then v else 0 := by
  induction n with
  | zero => simp
  | succ n ih =>
    rw [List.range_succ, List.filter_append, List.map_append, List.sum_append, ih]
    by_cases hq : q n = true
    · simp only [List.filter_cons, hq, if_true, List.filter_nil, List.map_cons, List.map_nil, List.sum_cons, List.sum_nil,
        add_zero]
      by_cases hc : c = n
      · subst hc
        simp [hq]
      · by_cases h2 : q c = true ∧ c < n
        · have : q c = true ∧ c < n + 1 := ⟨h2.1, by omega⟩
          simp [h2, this, hc]
        · have : ¬ (q c = true ∧ c < n + 1) := fun h => h2 ⟨h.1, by omega⟩
          simp [h2, this, hc]
    · simp only [List.filter_cons, hq, Bool.false_eq_true, if_false, List.filter_nil, List.map_nil, List.sum_nil, add_zero]
      by_cases h2 : q c = true ∧ c < n
      · have : q c = true ∧ c < n + 1 := ⟨h2.1, by omega⟩
        simp [h2, this]
      · have : ¬ (q c = true ∧ c < n + 1) := by
          rintro ⟨h3, h4⟩
          by_cases hc : c = n
          · subst hc; exact hq h3
          · exact h2 ⟨h3, by omega⟩
        simp [h2, this]

theorem sum_stored_eq_sum_cols (r : RowOf CRat) (n : Nat) (hcols : ∀ cv ∈ r, cv.1 < n) (q : Nat → Bool) :
    ((r.filter fun cv => q cv.1).map (·.2)).sum = (((List.range n).filter q).map fun k => C19.entry r k).sum := by
  induction r with
  | nil =>
    simp only [List.filter_nil, List.map_nil, List.sum_nil]
    symm
    apply List.sum_eq_zero
    intro x hx
    rcases List.mem_map.mp hx with ⟨k, _, rfl⟩
    rfl
  | cons a l ih =>
    have ha : a.1 < n := hcols a List.mem_cons_self
    have ih' := ih (fun cv hc => hcols cv (List.mem_cons_of_mem _ hc))
    have hsplit : (((List.range n).filter q).map fun k => C19.entry (a :: l) k)
        = (((List.range n).filter q).map fun k => (if a.1 = k then a.2 else 0) + C19.entry l k) := by
      apply List.map_congr_left
      intro k _
      exact entry_cons a l k
    rw [hsplit, List.sum_map_add, sum_ite_range n a.1 a.2 q, ← ih']
    by_cases hq : q a.1 = true
    · simp [hq, ha]
    · simp [hq]

/-- the filter definition with the row given as a function of the column -/
def filtDefE (θ : Rat) (lump : Bool) (e : Nat → CRat) (cols i j : Nat) : CRat :=
  let bel := fun k => decide (CRat.normSq (e k) < θ * θ * CRat.normSq (e i))
  if lump then
    if j = i then e i + C19.sumL (((List.range cols).filter fun k => bel k && decide (k ≠ i)).map e)
    else if bel j then 0 else e j
  else if bel j then 0 else e j

theorem filtDef_eq_E (θ : Rat) (lump : Bool) (M : Mat) (e : Nat → CRat) (i j : Nat)
    (hM : ∀ k, k < M.cols → M.ent i k = e k) (hii : i < M.cols) (hj : j < M.cols) :
    filtDef θ lump M i j = filtDefE θ lump e M.cols i j := by
  unfold filtDef filtDefE below
  simp only
  rw [hM i hii, hM j hj]
  congr 2
  congr 1
  have h1 : ((List.range M.cols).filter fun k =>
        decide (CRat.normSq (M.ent i k) < θ * θ * CRat.normSq (e i)) && decide (k ≠ i))
      = ((List.range M.cols).filter fun k => decide (CRat.normSq (e k) < θ * θ * CRat.normSq (e i)) && decide (k ≠ i)) := by
    apply List.filter_congr
    intro k hk
    rw [hM k (List.mem_range.mp hk)]
  rw [h1]
  apply congrArg
  apply List.map_congr_left
  intro k hk
  exact hM k (List.mem_range.mp (List.mem_filter.mp hk).1)

/-! ### the dense meaning of the filtered stored row -/

theorem entry_getElem? (r : RowOf CRat) (hnd : (r.map (·.1)).Nodup) (t : Nat) (cv : Nat × CRat)
    (h : r[t]? = some cv) : C19.entry r cv.1 = cv.2 :=
  entry_mem r hnd cv (List.mem_of_getElem? h)

/-- plain filter: every stored value below the threshold is zeroed -/
theorem entry_map_thr (r : RowOf CRat) (hnd : (r.map (·.1)).Nodup) (T : Rat) (j : Nat) :
    C19.entry (r.map fun cv => if CRat.normSq cv.2 < T then (cv.1, (0 : CRat)) else cv) j
      = if CRat.normSq (C19.entry r j) < T then 0 else C19.entry r j := by
  have hfst : ∀ cv : Nat × CRat, (if CRat.normSq cv.2 < T then (cv.1, (0 : CRat)) else cv).1 = cv.1 := by
    intro cv
    split <;> rfl
  have hnd' : ((r.map fun cv => if CRat.normSq cv.2 < T then (cv.1, (0 : CRat)) else cv).map (·.1)).Nodup := by
    rw [List.map_map]
    have : ((fun x : Nat × CRat => x.1) ∘ fun cv => if CRat.normSq cv.2 < T then (cv.1, (0 : CRat)) else cv)
        = fun x => x.1 := funext hfst
    rw [this]
    exact hnd
  by_cases h : ∃ cv ∈ r, cv.1 = j
  · obtain ⟨cv, hc, rfl⟩ := h
    have hm := List.mem_map_of_mem (f := fun cv => if CRat.normSq cv.2 < T then (cv.1, (0 : CRat)) else cv) hc
    have h1 := entry_mem _ hnd' _ hm
    rw [hfst] at h1
    rw [h1, entry_mem r hnd cv hc]
    by_cases hb : CRat.normSq cv.2 < T
    · simp [hb]
    · simp [hb]
  · have h' : ∀ cv ∈ r, cv.1 ≠ j := fun cv hc he => h ⟨cv, hc, he⟩
    rw [entry_zero r j h', entry_zero]
    · simp
    · intro c hc
      rcases List.mem_map.mp hc with ⟨cv, hcv, rfl⟩
      rw [hfst]
      exact h' cv hcv

/-- lumped filter: the stored off-diagonal values below the threshold are zeroed, `s` is added to the stored
diagonal value at position `k` -/
theorem entry_lump (r : RowOf CRat) (hnd : (r.map (·.1)).Nodup) (T : Rat) (i k : Nat) (hk : k < r.length)
    (hki : (r[k]).1 = i) (s : CRat) (j : Nat) :
    C19.entry ((r.map fun cv => if CRat.normSq cv.2 < T ∧ cv.1 ≠ i then (cv.1, (0 : CRat)) else cv).modify k
        fun cv => (cv.1, cv.2 + s)) j
      = if j = i then C19.entry r i + s else if CRat.normSq (C19.entry r j) < T then 0 else C19.entry r j := by
  let g : Nat × CRat → Nat × CRat := fun cv => if CRat.normSq cv.2 < T ∧ cv.1 ≠ i then (cv.1, (0 : CRat)) else cv
  let out := (r.map g).modify k fun cv => (cv.1, cv.2 + s)
  show C19.entry out j = _
  have hfst : ∀ cv : Nat × CRat, (g cv).1 = cv.1 := by
    intro cv
    show (if CRat.normSq cv.2 < T ∧ cv.1 ≠ i then (cv.1, (0 : CRat)) else cv).1 = cv.1
    split <;> rfl
  have hget : ∀ t, out[t]? = (r[t]?).map fun cv => if k = t then ((g cv).1, (g cv).2 + s) else g cv := by
    intro t
    show ((r.map g).modify k fun cv => (cv.1, cv.2 + s))[t]? = _
    rw [List.getElem?_modify, List.getElem?_map]
    cases r[t]? with
    | none => rfl
    | some cv => rfl
  have hmapfst : out.map (·.1) = r.map (·.1) := by
    apply List.ext_getElem?
    intro t
    rw [List.getElem?_map, List.getElem?_map, hget t]
    cases r[t]? with
    | none => rfl
    | some cv =>
      simp only [Option.map_some]
      by_cases hkt : k = t
      · rw [if_pos hkt]
        exact congrArg some (hfst cv)
      · rw [if_neg hkt]
        exact congrArg some (hfst cv)
  have hnd' : (out.map (·.1)).Nodup := by rw [hmapfst]; exact hnd
  have hrk : r[k]? = some r[k] := List.getElem?_eq_getElem hk
  have hgk : g r[k] = r[k] := by
    show (if CRat.normSq (r[k]).2 < T ∧ (r[k]).1 ≠ i then ((r[k]).1, (0 : CRat)) else r[k]) = r[k]
    rw [if_neg (fun h => h.2 hki)]
  have hei : C19.entry r i = (r[k]).2 := by
    rw [← hki]
    exact entry_getElem? r hnd k _ hrk
  by_cases hji : j = i
  · subst hji
    rw [if_pos rfl]
    have hok : out[k]? = some ((r[k]).1, (r[k]).2 + s) := by
      rw [hget k, hrk]
      simp only [Option.map_some, if_true, hgk]
    have h1 := entry_getElem? out hnd' k _ hok
    simp only at h1
    rw [hki] at h1
    rw [h1, hei]
  · rw [if_neg hji]
    by_cases h : ∃ (t : Nat) (cv : Nat × CRat), r[t]? = some cv ∧ cv.1 = j
    · obtain ⟨t, cv, ht, rfl⟩ := h
      have hkt : k ≠ t := by
        intro hkt
        subst hkt
        rw [hrk] at ht
        have : r[k] = cv := Option.some.inj ht
        rw [← this] at hji
        exact hji hki
      have hot : out[t]? = some (g cv) := by
        rw [hget t, ht]
        simp only [Option.map_some, if_neg hkt]
      have h1 := entry_getElem? out hnd' t _ hot
      rw [hfst] at h1
      rw [h1, entry_getElem? r hnd t cv ht]
      show (if CRat.normSq cv.2 < T ∧ cv.1 ≠ i then (cv.1, (0 : CRat)) else cv).2 = _
      by_cases hb : CRat.normSq cv.2 < T
      · simp [hb, hji]
      · simp [hb]
    · have h' : ∀ cv ∈ r, cv.1 ≠ j := by
        intro cv hc he
        obtain ⟨t, ht⟩ := List.mem_iff_getElem?.mp hc
        exact h ⟨t, cv, ht, he⟩
      have h'' : ∀ c ∈ out, c.1 ≠ j := by
        intro c hc he
        have : c.1 ∈ out.map (·.1) := List.mem_map_of_mem hc
        rw [hmapfst] at this
        rcases List.mem_map.mp this with ⟨cv, hcv, hcv1⟩
        exact h' cv hcv (hcv1.trans he)
      rw [entry_zero out j h'', entry_zero r j h']
      simp

theorem not_below_zero (θ : Rat) (z : CRat) : ¬ CRat.normSq z < θ * θ * 0 := by
  rw [mul_zero]
  exact not_lt.mpr (normSq_nonneg z)

/-- **the kernel model on a stored row without duplicate columns has the dense meaning of the definition** -/
theorem filterRowDiag_meaning (θ : Rat) (lump : Bool) (i cols : Nat) (r : RowOf CRat)
    (hnd : (r.map (·.1)).Nodup) (hcols : ∀ cv ∈ r, cv.1 < cols) (j : Nat) :
    C19.entry (C19.filterRowDiag CRat.normSq θ lump i r) j = filtDefE θ lump (C19.entry r) cols i j := by
  have hsq := diag_sq r hnd i
  unfold C19.filterRowDiag filtDefE
  simp only
  cases hd : r.findIdx? (fun cv => decide (cv.1 = i)) with
  | none =>
    rw [hd] at hsq
    simp only at hsq
    simp only [← hsq]
    cases lump with
    | false =>
      simp only [Bool.false_eq_true, if_false]
      rw [entry_map_thr r hnd]
      simp only [decide_eq_true_eq]
    | true =>
      simp only [if_true, decide_eq_true_eq, not_below_zero, if_false]
      have : ((List.range cols).filter fun k => decide False && decide (k ≠ i)) = [] := by
        rw [List.filter_eq_nil_iff]
        intro k _
        simp
      rw [this]
      by_cases hji : j = i
      · rw [if_pos hji, hji]
        show _ = _ + (0 : CRat)
        rw [add_zero]
      · rw [if_neg hji]
  | some k =>
    rw [hd] at hsq
    simp only at hsq
    rw [List.findIdx?_eq_some_iff_getElem] at hd
    obtain ⟨hk, hp, _⟩ := hd
    have hki : (r[k]).1 = i := by simpa using hp
    simp only [hsq]
    cases lump with
    | false =>
      simp only [Bool.false_eq_true, if_false]
      rw [entry_map_thr r hnd]
      simp only [decide_eq_true_eq]
    | true =>
      simp only [if_true]
      rw [entry_lump r hnd _ i k hk hki]
      simp only [decide_eq_true_eq]
      by_cases hji : j = i
      · rw [if_pos hji, if_pos hji]
        congr 1
        rw [sumL_eq_sum, sumL_eq_sum]
        have hq := sum_stored_eq_sum_cols r cols hcols
          (fun k => decide (CRat.normSq (C19.entry r k) < θ * θ * CRat.normSq (C19.entry r i)) && decide (k ≠ i))
        rw [← hq]
        congr 2
        apply List.filter_congr
        intro cv hc
        rw [entry_mem r hnd cv hc]
        simp
      · rw [if_neg hji, if_neg hji]

/-- **stored row vs dense row**: `r` = the stored entries of row `i` (no duplicate columns; any order, entries may be
missing or explicitly zero), `M` = a matrix with that row as dense meaning.  Filtering the stored row (what
`amg_core.filter_matrix_rows` does) and filtering the dense row (what `filterMat`, hence the checker `checkHierF`,
does) give the same matrix entries -/
theorem sparse_filter_meaning (θ : Rat) (lump : Bool) (M : Mat) (i : Nat) (r : RowOf CRat)
    (hnd : (r.map (·.1)).Nodup) (hcols : ∀ cv ∈ r, cv.1 < M.cols)
    (hM : ∀ k, k < M.cols → M.ent i k = C19.entry r k)
    (hi : i < M.rows) (hii : i < M.cols) (j : Nat) (hj : j < M.cols) :
    C19.entry (C19.filterRowDiag CRat.normSq θ lump i r) j = (filterMat θ lump M).ent i j := by
  rw [filterMat_ent θ lump M i j hi hj hii, filtDef_eq_E θ lump M (C19.entry r) i j hM hii hj]
  exact filterRowDiag_meaning θ lump i M.cols r hnd hcols j

#print axioms filterRowDiag_meaning
#print axioms sparse_filter_meaning
end PyamgV.C04X
