import PyamgV.Proofs.StencilPf
import PyamgV.Model.C20Gallery

/-! PyamgV (C20): `stencil_grid` as called, with a dense odd-shaped stencil array: entry by entry
characterisation of the result (homogeneous Dirichlet truncation) and the argument checks. Core only. -/
namespace PyamgV.C20
open PyamgV.Stencil

theorem coordsR_length : ∀ (grid : List Nat) (idx : Nat), (coordsR grid idx).length = grid.length := by
  intro grid
  induction grid with
  | nil => intro idx; rfl
  | cons g gs ih => intro idx; simp [coordsR, ih]

theorem offsetOf_length (shape : List Nat) (k : Nat) (hk : k < prod shape) : (offsetOf shape k).length = shape.length := by
  unfold offsetOf
  rw [List.length_zipWith, coords_eq shape k hk, coordsR_length]
  exact Nat.min_self _

theorem mem_sparse (shape : List Nat) (vals : List Rat) (ov : List Int × Rat) :
    ov ∈ sparse shape vals ↔ ∃ k, k < prod shape ∧ vals.getD k 0 ≠ 0 ∧ ov = (offsetOf shape k, vals.getD k 0) := by
  unfold sparse
  simp only [List.mem_filterMap, List.mem_range]
  constructor
  · rintro ⟨k, hk, h⟩
    by_cases hz : vals.getD k 0 = 0
    · rw [if_pos hz] at h; exact absurd h (by simp)
    · rw [if_neg hz] at h
      exact ⟨k, hk, hz, (Option.some.inj h).symm⟩
  · rintro ⟨k, hk, hz, rfl⟩
    refine ⟨k, hk, ?_⟩
    rw [if_neg hz]

/-- **C20, stencil_grid as called**: when the arguments are accepted, `(p, q, w)` is generated iff `w` is a
nonzero stencil entry whose offset `index - shape//2` carries grid point `p` to grid point `q` -/
theorem stencilDense_entry (shape : List Nat) (vals : List Rat) (grid : List Nat) (T : List Triple)
    (h : stencilDense shape vals grid = .ok T) (p q : Nat) (w : Rat) :
    (p, q, w) ∈ T ↔ ∃ k, k < prod shape ∧ w = vals.getD k 0 ∧ w ≠ 0 ∧ q < prod grid ∧ p < prod grid ∧
      Shift grid (offsetOf shape k) (coordsR grid p) (coordsR grid q) := by
  unfold stencilDense at h
  split at h
  · exact absurd h (by simp)
  · split at h
    · exact absurd h (by simp)
    · rename_i hlen
      split at h
      · exact absurd h (by simp)
      · simp only [Except.ok.injEq] at h
        subst h
        have hlen' : grid.length = shape.length := by simpa using hlen
        rw [stencilGrid_eq]
        simp only [List.mem_flatMap]
        constructor
        · rintro ⟨ov, hov, hmem⟩
          obtain ⟨k, hk, hz, rfl⟩ := (mem_sparse shape vals ov).1 hov
          have hl : (offsetOf shape k).length = grid.length := by rw [offsetOf_length shape k hk, hlen']
          obtain ⟨hw, hq, hp, hs⟩ := (contrib_mem grid _ _ hl p q w).1 hmem
          exact ⟨k, hk, hw, by rw [hw]; exact hz, hq, hp, hs⟩
        · rintro ⟨k, hk, hw, hz, hq, hp, hs⟩
          refine ⟨(offsetOf shape k, vals.getD k 0), (mem_sparse shape vals _).2 ⟨k, hk, by rw [← hw]; exact hz, rfl⟩, ?_⟩
          have hl : (offsetOf shape k).length = grid.length := by rw [offsetOf_length shape k hk, hlen']
          exact (contrib_mem grid _ _ hl p q w).2 ⟨hw, hq, hp, hs⟩

/-- the arguments are accepted exactly when every stencil extent is odd, the dimensions agree and the
grid is non-empty with positive extents -/
theorem stencilDense_ok_iff (shape : List Nat) (vals : List Rat) (grid : List Nat) :
    (∃ T, stencilDense shape vals grid = .ok T) ↔
      (∀ s ∈ shape, s % 2 = 1) ∧ grid.length = shape.length ∧ grid ≠ [] ∧ ∀ g ∈ grid, 1 ≤ g := by
  unfold stencilDense
  constructor
  · rintro ⟨T, h⟩
    split at h
    · exact absurd h (by simp)
    · rename_i h1
      split at h
      · exact absurd h (by simp)
      · rename_i h2
        split at h
        · exact absurd h (by simp)
        · rename_i h3
          refine ⟨?_, by simpa using h2, ?_, ?_⟩
          · simpa using h1
          · intro he; apply h3; left; simp [he]
          · intro g hg
            have : ¬ (grid.any fun g => decide (g < 1)) = true := fun h' => h3 (Or.inr h')
            simp only [List.any_eq_true, decide_eq_true_eq, not_exists, not_and] at this
            have := this g hg; omega
  · rintro ⟨h1, h2, h3, h4⟩
    have c1 : (shape.all fun s => decide (s % 2 = 1)) = true := by simpa using h1
    have c3 : ¬ (grid.isEmpty = true ∨ (grid.any fun g => decide (g < 1)) = true) := by
      rintro (h | h)
      · exact h3 (by simpa using h)
      · simp only [List.any_eq_true, decide_eq_true_eq] at h
        obtain ⟨g, hg, hlt⟩ := h
        have := h4 g hg; omega
    simp only [c1, not_true_eq_false, if_false, h2, ne_eq, not_true_eq_false, c3]
    exact ⟨_, rfl⟩

end PyamgV.C20
