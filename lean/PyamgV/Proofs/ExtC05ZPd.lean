import PyamgV.Proofs.ExtC05ZCheck
import PyamgV.Proofs.ExtC05Bridge
import PyamgV.Proofs.ExtC05YPd

/-! PyamgV (C05, extension E47): **soundness of the exact positive-definiteness certificate** `pdB`
(`Proofs/ExtC05ZCheck.lean`).

* `pdCert_sound`: positive `d_k`, `U` unit upper triangular, `B i j = Σ_k d_k U_ki U_kj` on the first `n` indices
  ⇒ `Σ_i Σ_j z_i B_ij z_j > 0` for every `z` that does not vanish on the first `n` coordinates
  (`zᵀ B z = Σ_k d_k (U z)_k²`, and `(U z)_m = z_m` for the last non-zero coordinate `m`);
* `pdB_sound`: the same for the Boolean `pdB` the driver evaluates (the factors come from `ldl`, which is not trusted);
* `pdB_csr`: for the dense copy of a CSR matrix with in-range column indices the quadratic form is
  `⟨A z, z⟩` of the CSR operator `csrOp`;
* `jacB_sound`: `jacB isPos ω A = true` ⇒ `JacBound` (`ω A < 2 D` as quadratic forms), the hypothesis of the
  strictness / non-expansiveness of damped Jacobi (`jac_strictOn`, `jac_nonexp` of E36). -/
namespace PyamgV.C05Z
open PyamgV PyamgV.C05 Finset

set_option linter.unusedSectionVars false
variable {R : Type} [Field R] [LinearOrder R] [IsStrictOrderedRing R] [DecidableEq R]

theorem sumTo_eq (n : Nat) (f : Nat → R) : sumTo n f = ∑ k ∈ range n, f k := by
  unfold sumTo
  induction n with
  | zero => simp
  | succ n ih => rw [List.range_succ, List.foldl_append, ih, Finset.sum_range_succ]; rfl

/-- the last index below `n` with property `p` -/
theorem exists_last (p : Nat → Prop) : ∀ n, (∃ j, j < n ∧ p j) →
    ∃ m, m < n ∧ p m ∧ ∀ i, m < i → i < n → ¬ p i := by
  intro n
  induction n with
  | zero => rintro ⟨j, hj, _⟩; omega
  | succ n ih =>
    rintro ⟨j, hj, hpj⟩
    by_cases hn : p n
    · exact ⟨n, by omega, hn, fun i h1 h2 => by omega⟩
    · have hjn : j < n := by
        rcases Nat.lt_or_ge j n with h | h
        · exact h
        · have : j = n := by omega
          subst this; exact absurd hpj hn
      obtain ⟨m, hm, hpm, hlast⟩ := ih ⟨j, hjn, hpj⟩
      refine ⟨m, by omega, hpm, ?_⟩
      intro i h1 h2
      by_cases hin : i = n
      · subst hin; exact hn
      · exact hlast i h1 (by omega)

/-- what the Boolean `pdCertB` says -/
theorem pdCertB_spec (isPos : R → Bool) (n : Nat) (B U : Nat → Nat → R) (d : Nat → R)
    (h : pdCertB isPos n B U d = true) :
    (∀ k, k < n → isPos (d k) = true ∧ U k k = 1 ∧ ∀ i, i < k → U k i = 0) ∧
    ∀ i, i < n → ∀ j, j < n → B i j = ∑ k ∈ range n, d k * U k i * U k j := by
  unfold pdCertB at h
  simp only [Bool.and_eq_true, List.all_eq_true, List.mem_range, decide_eq_true_eq] at h
  refine ⟨fun k hk => ⟨(h.1 k hk).1.1, (h.1 k hk).1.2, (h.1 k hk).2⟩, ?_⟩
  intro i hi j hj
  rw [h.2 i hi j hj, sumTo_eq]

/-- **soundness of the `Uᵀ D U` certificate** -/
theorem pdCert_sound (isPos : R → Bool) (hpos : ∀ z, isPos z = true → 0 < z) (n : Nat)
    (B U : Nat → Nat → R) (d : Nat → R) (h : pdCertB isPos n B U d = true)
    (z : Nat → R) (hz : ∃ j, j < n ∧ z j ≠ 0) :
    0 < ∑ i ∈ range n, ∑ j ∈ range n, z i * B i j * z j := by
  obtain ⟨hU, hB⟩ := pdCertB_spec isPos n B U d h
  -- zᵀ B z = Σ_k d_k y_k², y = U z
  have hform : ∑ i ∈ range n, ∑ j ∈ range n, z i * B i j * z j =
      ∑ k ∈ range n, d k * ((∑ i ∈ range n, U k i * z i) * (∑ i ∈ range n, U k i * z i)) := by
    have e1 : ∀ i ∈ range n, ∑ j ∈ range n, z i * B i j * z j =
        ∑ j ∈ range n, ∑ k ∈ range n, d k * ((U k i * z i) * (U k j * z j)) := by
      intro i hi
      apply Finset.sum_congr rfl
      intro j hj
      rw [hB i (mem_range.1 hi) j (mem_range.1 hj), Finset.mul_sum, Finset.sum_mul]
      apply Finset.sum_congr rfl
      intro k _
      ring
    rw [Finset.sum_congr rfl e1]
    have e2 : ∀ i ∈ range n, ∑ j ∈ range n, ∑ k ∈ range n, d k * ((U k i * z i) * (U k j * z j)) =
        ∑ k ∈ range n, ∑ j ∈ range n, d k * ((U k i * z i) * (U k j * z j)) := fun i _ => Finset.sum_comm
    rw [Finset.sum_congr rfl e2, Finset.sum_comm]
    apply Finset.sum_congr rfl
    intro k _
    rw [Finset.sum_mul_sum, Finset.mul_sum]
    apply Finset.sum_congr rfl
    intro i _
    rw [Finset.mul_sum]
  rw [hform]
  obtain ⟨m, hm, hzm, hlast⟩ := exists_last (fun j => z j ≠ 0) n hz
  have hym : ∑ i ∈ range n, U m i * z i = z m := by
    rw [Finset.sum_eq_single m]
    · rw [(hU m hm).2.1, one_mul]
    · intro i hi him
      rcases Nat.lt_or_ge i m with h1 | h1
      · rw [(hU m hm).2.2 i h1, zero_mul]
      · have : z i = 0 := by
          by_contra hne
          exact hlast i (by omega) (mem_range.1 hi) hne
        rw [this, mul_zero]
    · intro hnm; exact absurd (mem_range.2 hm) hnm
  apply Finset.sum_pos'
  · intro k hk
    exact mul_nonneg (le_of_lt (hpos _ (hU k (mem_range.1 hk)).1)) (mul_self_nonneg _)
  · refine ⟨m, mem_range.2 hm, ?_⟩
    rw [hym]
    exact mul_pos (hpos _ (hU m hm).1) (mul_self_pos.2 hzm)

/-- **soundness of the Boolean `pdB`** (the matrix the driver hands over, read through `mget`) -/
theorem pdB_sound (isPos : R → Bool) (hpos : ∀ z, isPos z = true → 0 < z) (n : Nat) (B : Mat R)
    (h : pdB isPos n B = true) (z : Nat → R) (hz : ∃ j, j < n ∧ z j ≠ 0) :
    0 < ∑ i ∈ range n, ∑ j ∈ range n, z i * mget B i j * z j :=
  pdCert_sound isPos hpos n (mget B) _ _ h z hz

/-! ### the dense copy of a CSR matrix -/

/-- `⟨A z, z⟩` of the CSR operator is the quadratic form of the dense copy (in-range column indices) -/
theorem quad_csr (A : K.Csr R) (hc : colsOk A A.n = true) (z : Nat → R) :
    (euc R A.n).a (csrOp A.n (rowOf A) z) z =
      ∑ i ∈ range A.n, ∑ j ∈ range A.n, z i * mget (denseOfCsr A A.n) i j * z j := by
  rw [euc_apply]
  apply Finset.sum_congr rfl
  intro i hi
  rw [csrOp_dense A A.n hc z i (mem_range.1 hi), Finset.sum_mul]
  apply Finset.sum_congr rfl
  intro j _
  ring

/-- **a certified CSR matrix is positive definite on the first `n` coordinates** -/
theorem pdB_csr (isPos : R → Bool) (hpos : ∀ z, isPos z = true → 0 < z) (A : K.Csr R)
    (hc : colsOk A A.n = true) (h : pdB isPos A.n (denseOfCsr A A.n) = true)
    (z : Nat → R) (hz : ∃ j, j < A.n ∧ z j ≠ 0) :
    0 < (euc R A.n).a (csrOp A.n (rowOf A) z) z := by
  rw [quad_csr A hc z]
  exact pdB_sound isPos hpos A.n _ h z hz

/-- … and positive semidefinite on all of `Nat → R` -/
theorem pdB_csr_psd (isPos : R → Bool) (hpos : ∀ z, isPos z = true → 0 < z) (A : K.Csr R)
    (hc : colsOk A A.n = true) (h : pdB isPos A.n (denseOfCsr A A.n) = true) (z : Nat → R) :
    0 ≤ (euc R A.n).a (csrOp A.n (rowOf A) z) z := by
  by_cases hz : ∃ j, j < A.n ∧ z j ≠ 0
  · exact le_of_lt (pdB_csr isPos hpos A hc h z hz)
  · rw [euc_apply]
    apply le_of_eq
    symm
    apply Finset.sum_eq_zero
    intro i hi
    have : z i = 0 := by
      by_contra hne
      exact hz ⟨i, mem_range.1 hi, hne⟩
    rw [this, mul_zero]

/-! ### the stored diagonal is the diagonal of the dense copy -/

theorem rowDot_single (row : Row R) (i : Nat) :
    rowDot row (Pi.single i 1) = ((row.filter (fun cv => cv.1 = i)).map (·.2)).sum := by
  unfold rowDot
  induction row with
  | nil => simp
  | cons cv rest ih =>
    rw [List.map_cons, List.sum_cons, ih]
    by_cases h : cv.1 = i
    · rw [List.filter_cons_of_pos (by simpa using h), List.map_cons, List.sum_cons, h]
      simp
    · rw [List.filter_cons_of_neg (by simpa using h), Pi.single_apply, if_neg h]
      simp

theorem diagFn_dense (A : K.Csr R) (hc : colsOk A A.n = true) (i : Nat) (hi : i < A.n) :
    diagFn A i = mget (denseOfCsr A A.n) i i := by
  have h1 := csrOp_dense A A.n hc (Pi.single i 1) i hi
  rw [csrOp_apply _ _ _ _ hi, rowDot_single] at h1
  unfold diagFn
  rw [h1, Finset.sum_eq_single i]
  · simp
  · intro j _ hji
    rw [Pi.single_apply, if_neg hji, mul_zero]
  · intro hni; exact absurd (mem_range.2 hi) hni

/-! ### the bound of damped Jacobi -/

theorem mget_mk (n m : Nat) (f : Nat → Nat → R) (i j : Nat) (hi : i < n) (hj : j < m) :
    mget ((Array.range n).map (fun i => (Array.range m).map (fun j => f i j))) i j = f i j := by
  unfold mget
  rw [getD_map_range n _ i #[] hi, rd_map_range m _ j hj]

/-- **`jacB isPos ω A = true` ⇒ `ω A < 2 D` as quadratic forms** (`JacBound` of `Proofs/ExtC05YPd.lean`) -/
theorem jacB_sound (isPos : R → Bool) (hpos : ∀ z, isPos z = true → 0 < z) (ω : R) (A : K.Csr R)
    (hc : colsOk A A.n = true) (h : jacB isPos ω A = true) :
    C05Y.JacBound A.n (rowOf A) (diagFn A) ω := by
  intro z hz
  have hq := pdB_sound isPos hpos A.n _ h z hz
  have e : ∑ i ∈ range A.n, ∑ j ∈ range A.n, z i * mget (jacMat ω A.n (denseOfCsr A A.n)) i j * z j =
      2 * ∑ j ∈ range A.n, diagFn A j * (z j * z j) - ω * (euc R A.n).a (csrOp A.n (rowOf A) z) z := by
    rw [quad_csr A hc z, Finset.mul_sum, Finset.mul_sum, ← Finset.sum_sub_distrib]
    apply Finset.sum_congr rfl
    intro i hi
    have hi' := mem_range.1 hi
    have e1 : ∀ j ∈ range A.n, z i * mget (jacMat ω A.n (denseOfCsr A A.n)) i j * z j =
        (if i = j then 2 * (diagFn A i * (z i * z i)) else 0) -
          ω * (z i * mget (denseOfCsr A A.n) i j * z j) := by
      intro j hj
      unfold jacMat
      rw [mget_mk A.n A.n _ i j hi' (mem_range.1 hj)]
      by_cases hij : i = j
      · subst hij
        rw [if_pos rfl, if_pos rfl, ← diagFn_dense A hc i hi']
        ring
      · rw [if_neg hij, if_neg hij]
        ring
    rw [Finset.sum_congr rfl e1, Finset.sum_sub_distrib, Finset.sum_ite_eq (range A.n) i, if_pos hi,
      ← Finset.mul_sum]
  rw [e] at hq
  linarith

#print axioms pdCert_sound
#print axioms pdB_sound
#print axioms pdB_csr
#print axioms jacB_sound
end PyamgV.C05Z
