import PyamgV.Model.ExtC09Block
import Mathlib.Algebra.BigOperators.Group.Finset.Basic
import Mathlib.Algebra.BigOperators.Ring.Finset
import Mathlib.Algebra.BigOperators.Group.Finset.Sigma
import Mathlib.Algebra.BigOperators.Group.Finset.Piecewise
import Mathlib.Algebra.BigOperators.Group.List.Basic
import Mathlib.Algebra.Field.Basic
import Mathlib.Algebra.Module.Pi
import Mathlib.Algebra.Module.LinearMap.End
import Mathlib.Algebra.Polynomial.AlgebraMap
import Mathlib.Tactic.Ring
import Mathlib.Tactic.FieldSimp

/-! PyamgV (extension E15, property C09): the executable models of `Model/ExtC09Block.lean` (the ones the
correspondence run compares with `block_jacobi`, `block_gauss_seidel`, `polynomial`, `jacobi_ne`,
`gauss_seidel_ne`, `gauss_seidel_nr`, `schwarz`) compute their defining splitting updates, over any field
(so for `Rat` and for complex scalars), any storage pattern, any `x`, `b`. -/
namespace PyamgV.ExtC09
open PyamgV PyamgV.K Finset

set_option linter.unusedSectionVars false

variable {R : Type} [Field R] [DecidableEq R]

/-! ### arrays, lists, sums -/

theorem rd_wr (a : Array R) (i j : Nat) (v : R) :
    rd (wr a i v) j = if i = j ∧ i < a.size then v else rd a j := by
  unfold K.rd K.wr
  simp only [Array.getD_eq_getD_getElem?, Array.getElem?_setIfInBounds]
  by_cases h : i = j
  · subst h; by_cases hi : i < a.size <;> simp [hi]
  · simp [h]

@[simp] theorem size_wr (a : Array R) (i : Nat) (v : R) : (wr a i v).size = a.size := by simp [K.wr]

theorem rd_of_le (a : Array R) (i : Nat) (h : a.size ≤ i) : rd a i = 0 := by
  unfold K.rd; simp [Array.getD_eq_getD_getElem?, h]

theorem wr_self (a : Array R) (i : Nat) : wr a i (rd a i) = a := by
  apply Array.ext_getElem?
  intro j
  unfold K.wr K.rd
  rw [Array.getElem?_setIfInBounds]
  by_cases h : i = j
  · subst h
    by_cases hi : i < a.size
    · simp [hi]
    · simp [hi]
  · simp [h]

theorem array_ext_rd (x y : Array R) (hs : x.size = y.size) (h : ∀ p, p < x.size → rd x p = rd y p) : x = y := by
  apply Array.ext hs
  intro i h1 h2
  have := h i h1
  unfold K.rd at this
  simpa [Array.getD_eq_getD_getElem?, h1, h2] using this

theorem foldl_add {ι : Type} (l : List ι) (f : ι → R) (a : R) :
    l.foldl (fun s k => s + f k) a = a + (l.map f).sum := by
  induction l generalizing a with
  | nil => simp
  | cons k l ih => simp only [List.foldl_cons, List.map_cons, List.sum_cons]; rw [ih]; ring

theorem foldl_sub {ι : Type} (l : List ι) (f : ι → R) (a : R) :
    l.foldl (fun s k => s - f k) a = a - (l.map f).sum := by
  induction l generalizing a with
  | nil => simp
  | cons k l ih => simp only [List.foldl_cons, List.map_cons, List.sum_cons]; rw [ih]; ring

theorem range_sum (n : Nat) (f : Nat → R) : ((List.range n).map f).sum = ∑ k ∈ range n, f k := by
  induction n with
  | zero => simp
  | succ n ih => rw [List.range_succ, List.map_append, List.sum_append, ih, Finset.sum_range_succ]; simp

/-- a list sum and a finite sum commute -/
theorem list_sum_comm {ι : Type} (l : List ι) (n : Nat) (g : ι → Nat → R) :
    (l.map (fun a => ∑ m ∈ range n, g a m)).sum = ∑ m ∈ range n, (l.map (fun a => g a m)).sum := by
  induction l with
  | nil => simp
  | cons a l ih => simp only [List.map_cons, List.sum_cons, ih, Finset.sum_add_distrib]

theorem list_sum_mul_left {ι : Type} (l : List ι) (c : R) (g : ι → R) :
    (l.map (fun a => c * g a)).sum = c * (l.map g).sum := by
  induction l with
  | nil => simp
  | cons a l ih => simp only [List.map_cons, List.sum_cons, ih]; ring

theorem list_sum_mul_right {ι : Type} (l : List ι) (c : R) (g : ι → R) :
    (l.map (fun a => g a * c)).sum = (l.map g).sum * c := by
  induction l with
  | nil => simp
  | cons a l ih => simp only [List.map_cons, List.sum_cons, ih]; ring

/-- split a list sum by a predicate -/
theorem list_sum_filter_split {ι : Type} (l : List ι) (p : ι → Bool) (g : ι → R) :
    (l.map g).sum = ((l.filter p).map g).sum + ((l.filter (fun a => !p a)).map g).sum := by
  induction l with
  | nil => simp
  | cons a l ih =>
    by_cases h : p a
    · simp only [List.map_cons, List.sum_cons, List.filter_cons, h, if_true, Bool.not_true]
      rw [ih]; simp; ring
    · have h' : p a = false := by simpa using h
      simp only [List.map_cons, List.sum_cons, List.filter_cons, h', Bool.not_false, if_true]
      rw [ih]; simp; ring

theorem lrd_map_range (n : Nat) (f : Nat → R) (l : Nat) :
    lrd ((List.range n).map f) l = if l < n then f l else 0 := by
  unfold K.lrd
  by_cases h : l < n
  · simp [List.getD_eq_getElem?_getD, h]
  · simp [List.getD_eq_getElem?_getD, h]

theorem lrd_replicate (n l : Nat) : lrd (List.replicate n (0 : R)) l = 0 := by
  unfold K.lrd
  by_cases h : l < n <;> simp [List.getD_eq_getElem?_getD, h]

theorem dotRow_eq (M : Array R) (off n : Nat) (y : Nat → R) :
    dotRow M off n y = ∑ k ∈ range n, rd M (off + k) * y k := by
  unfold K.dotRow; rw [foldl_add, range_sum]; simp

theorem lrd_gemv (M : Array R) (off n : Nat) (y : Nat → R) (i : Nat) :
    lrd (gemv M off n y) i = if i < n then ∑ k ∈ range n, rd M (off + i * n + k) * y k else 0 := by
  unfold K.gemv; rw [lrd_map_range]; simp only [dotRow_eq]

/-! ### block positions -/

theorem blk_iff {bs : Nat} (hbs : 0 < bs) (i p : Nat) : (i * bs ≤ p ∧ p < i * bs + bs) ↔ p / bs = i := by
  constructor
  · rintro ⟨h1, h2⟩
    exact Nat.div_eq_of_lt_le h1 (by rw [Nat.succ_mul]; exact h2)
  · intro h; subst h
    exact ⟨Nat.div_mul_le_self p bs, Nat.lt_div_mul_add hbs⟩

theorem blk_sub {bs : Nat} (p : Nat) : p - p / bs * bs = p % bs := by
  have := Nat.div_add_mod' p bs
  omega

theorem blk_div {bs : Nat} (hbs : 0 < bs) (i k : Nat) (hk : k < bs) : (i * bs + k) / bs = i :=
  (blk_iff hbs i _).1 ⟨by omega, by omega⟩

theorem blk_mod {bs : Nat} (i k : Nat) (hk : k < bs) : (i * bs + k) % bs = k := by
  rw [Nat.add_comm, Nat.add_mul_mod_self_right]; exact Nat.mod_eq_of_lt hk

/-- `cnt` leading entries of block `i` written -/
theorem rd_writePrefix (bs : Nat) (i : Nat) (g : Nat → R) (cnt : Nat) (x : Array R) (p : Nat) :
    rd ((List.range cnt).foldl (fun x k => wr x (i * bs + k) (g k)) x) p =
      (if i * bs ≤ p ∧ p < i * bs + cnt ∧ p < x.size then g (p - i * bs) else rd x p) ∧
    ((List.range cnt).foldl (fun x k => wr x (i * bs + k) (g k)) x).size = x.size := by
  induction cnt with
  | zero => simp; intro h1 h2; omega
  | succ cnt ih =>
    rw [List.range_succ, List.foldl_append]
    simp only [List.foldl_cons, List.foldl_nil]
    obtain ⟨ih1, ih2⟩ := ih
    refine ⟨?_, by simp [ih2]⟩
    rw [rd_wr, ih1, ih2]
    by_cases h : i * bs + cnt = p
    · subst h
      by_cases hs : i * bs + cnt < x.size
      · simp [hs]
      · simp [hs]
    · by_cases h1 : i * bs ≤ p ∧ p < i * bs + cnt ∧ p < x.size
      · have h2 : i * bs ≤ p ∧ p < i * bs + (cnt + 1) ∧ p < x.size := ⟨h1.1, by omega, h1.2.2⟩
        simp [h, h1, h2]
      · have h2 : ¬ (i * bs ≤ p ∧ p < i * bs + (cnt + 1) ∧ p < x.size) := by
          intro hc; apply h1; exact ⟨hc.1, by omega, hc.2.2⟩
        simp [h, h1, h2]

theorem size_writeBlock (bs : Nat) (x : Array R) (i : Nat) (g : Nat → R) : (writeBlock bs x i g).size = x.size :=
  (rd_writePrefix bs i g bs x 0).2

theorem rd_writeBlock {bs : Nat} (hbs : 0 < bs) (x : Array R) (i : Nat) (g : Nat → R) (p : Nat) :
    rd (writeBlock bs x i g) p = if p / bs = i ∧ p < x.size then g (p % bs) else rd x p := by
  unfold K.writeBlock
  rw [(rd_writePrefix bs i g bs x p).1]
  by_cases h : p / bs = i
  · have h' := (blk_iff hbs i p).2 h
    subst h
    by_cases hs : p < x.size
    · simp [h', hs, blk_sub]
    · simp [hs]
  · have h' : ¬ (i * bs ≤ p ∧ p < i * bs + bs) := fun hc => h ((blk_iff hbs i p).1 hc)
    have h'' : ¬ (i * bs ≤ p ∧ p < i * bs + bs ∧ p < x.size) := fun hc => h' ⟨hc.1, hc.2.1⟩
    simp [h, h'']

/-- a sweep that writes into each visited block values that do not depend on the running vector -/
theorem rd_blockSweep {bs : Nat} (hbs : 0 < bs) (G : Nat → Nat → R) (rows : List Nat) (x : Array R) (p : Nat) :
    rd (rows.foldl (fun x i => writeBlock bs x i (G i)) x) p =
      (if p / bs ∈ rows ∧ p < x.size then G (p / bs) (p % bs) else rd x p) ∧
    (rows.foldl (fun x i => writeBlock bs x i (G i)) x).size = x.size := by
  induction rows generalizing x with
  | nil => simp
  | cons i rows ih =>
    simp only [List.foldl_cons]
    obtain ⟨ih1, ih2⟩ := ih (writeBlock bs x i (G i))
    rw [size_writeBlock] at ih1 ih2
    refine ⟨?_, ih2⟩
    rw [ih1, rd_writeBlock hbs]
    by_cases h1 : p / bs ∈ rows
    · have : p / bs ∈ i :: rows := List.mem_cons_of_mem _ h1
      by_cases hs : p < x.size <;> simp [h1, this, hs]
    · by_cases h2 : p / bs = i
      · by_cases hs : p < x.size
        · simp [h2, hs]
        · simp [hs]
      · have : ¬ p / bs ∈ i :: rows := by simp [h1, h2]
        simp [h1, h2, this]

/-! ### block rows of a BSR matrix -/

/-- entry `(l, m)` of stored block `jj` -/
def blkAt (A : Bsr R) (jj l m : Nat) : R := rd A.bx (jj * (A.bs * A.bs) + l * A.bs + m)
/-- entry `(k, l)` of the `i`-th block of `Dinv` -/
def dinvAt (bs : Nat) (Dinv : Array R) (i k l : Nat) : R := rd Dinv (i * (bs * bs) + k * bs + l)

/-- entry `l` of `Σ_{jj ∈ js} A_jj y_{bj jj}` -/
def blkDot (A : Bsr R) (js : List Nat) (y : Nat → R) (l : Nat) : R :=
  (js.map (fun jj => ∑ m ∈ range A.bs, blkAt A jj l m * y (rdN A.bj jj * A.bs + m))).sum

def offJs (A : Bsr R) (i : Nat) : List Nat := (A.jjs i).filter (fun jj => !decide (rdN A.bj jj = i))
def diagJs (A : Bsr R) (i : Nat) : List Nat := (A.jjs i).filter (fun jj => decide (rdN A.bj jj = i))
/-- entry `l` of the off-diagonal part `Σ_{j ≠ i} A_ij y_j` of block row `i` -/
def offDot (A : Bsr R) (i : Nat) (y : Nat → R) (l : Nat) : R := blkDot A (offJs A i) y l
/-- entry `l` of `(A y)_i`, the whole block row -/
def rowDotB (A : Bsr R) (i : Nat) (y : Nat → R) (l : Nat) : R := blkDot A (A.jjs i) y l
/-- entry `(l, m)` of the diagonal block `A_ii` (the sum of the stored diagonal blocks of block row `i`) -/
def diagBlk (A : Bsr R) (i l m : Nat) : R := ((diagJs A i).map (fun jj => blkAt A jj l m)).sum

theorem blkDot_congr (A : Bsr R) (js : List Nat) (y y' : Nat → R) (l : Nat)
    (h : ∀ jj ∈ js, ∀ m < A.bs, y (rdN A.bj jj * A.bs + m) = y' (rdN A.bj jj * A.bs + m)) :
    blkDot A js y l = blkDot A js y' l := by
  unfold blkDot
  congr 1
  apply List.map_congr_left
  intro jj hjj
  apply Finset.sum_congr rfl
  intro m hm
  rw [h jj hjj m (mem_range.1 hm)]

/-- `(A y)_i = Σ_{j≠i} A_ij y_j + A_ii y_i` -/
theorem rowDotB_split (A : Bsr R) (i : Nat) (y : Nat → R) (l : Nat) :
    rowDotB A i y l = offDot A i y l + ∑ m ∈ range A.bs, diagBlk A i l m * y (i * A.bs + m) := by
  unfold rowDotB offDot blkDot
  rw [list_sum_filter_split (A.jjs i) (fun jj => decide (rdN A.bj jj = i))]
  rw [add_comm]
  congr 1
  unfold diagBlk diagJs
  have : ∀ jj ∈ (A.jjs i).filter (fun jj => decide (rdN A.bj jj = i)),
      (∑ m ∈ range A.bs, blkAt A jj l m * y (rdN A.bj jj * A.bs + m)) =
      ∑ m ∈ range A.bs, blkAt A jj l m * y (i * A.bs + m) := by
    intro jj hjj
    have : rdN A.bj jj = i := by simpa using (List.mem_filter.1 hjj).2
    rw [this]
  rw [List.map_congr_left this, list_sum_comm]
  apply Finset.sum_congr rfl
  intro m _
  rw [list_sum_mul_right]

theorem lrd_blockOffSum_aux (A : Bsr R) (i : Nat) (y : Array R) (l : Nat) (hl : l < A.bs) (L : List Nat) (acc : List R) :
    lrd (L.foldl (fun rsum jj =>
      let j := rdN A.bj jj
      if i = j then rsum
      else
        let v := gemv A.bx (jj * (A.bs * A.bs)) A.bs (fun k => rd y (j * A.bs + k))
        (List.range A.bs).map (fun k => lrd rsum k + lrd v k)) acc) l
    = lrd acc l + blkDot A (L.filter (fun jj => !decide (rdN A.bj jj = i))) (fun q => rd y q) l := by
  induction L generalizing acc with
  | nil => simp [blkDot]
  | cons jj L ih =>
    simp only [List.foldl_cons]
    rw [ih]
    by_cases h : i = rdN A.bj jj
    · have h' : rdN A.bj jj = i := h.symm
      simp [h']
    · have h' : ¬ rdN A.bj jj = i := fun e => h e.symm
      simp only [h, if_false, List.filter_cons, h', decide_false, Bool.not_false, if_true]
      rw [lrd_map_range, if_pos hl, lrd_gemv, if_pos hl]
      unfold blkDot blkAt
      simp only [List.map_cons, List.sum_cons]
      ring

theorem lrd_blockOffSum (A : Bsr R) (i : Nat) (y : Array R) (l : Nat) (hl : l < A.bs) :
    lrd (blockOffSum A i y) l = offDot A i (fun q => rd y q) l := by
  unfold K.blockOffSum
  rw [lrd_blockOffSum_aux A i y l hl, lrd_replicate, zero_add]
  rfl

theorem lrd_blockSolve (A : Bsr R) (b Dinv : Array R) (i : Nat) (rsum : List R) (k : Nat) (hk : k < A.bs) :
    lrd (blockSolve A b Dinv i rsum) k =
      ∑ l ∈ range A.bs, dinvAt A.bs Dinv i k l * (rd b (i * A.bs + l) - lrd rsum l) := by
  unfold K.blockSolve
  rw [lrd_gemv, if_pos hk]
  apply Finset.sum_congr rfl
  intro l hl
  rw [lrd_map_range, if_pos (mem_range.1 hl)]
  rfl

/-- `Dinv_i A_ii = I` -/
def LeftInv (A : Bsr R) (Dinv : Array R) (i : Nat) : Prop :=
  ∀ k < A.bs, ∀ m < A.bs, ∑ l ∈ range A.bs, dinvAt A.bs Dinv i k l * diagBlk A i l m = if k = m then 1 else 0
/-- `A_ii Dinv_i = I` -/
def RightInv (A : Bsr R) (Dinv : Array R) (i : Nat) : Prop :=
  ∀ l < A.bs, ∀ l' < A.bs, ∑ m ∈ range A.bs, diagBlk A i l m * dinvAt A.bs Dinv i m l' = if l = l' then 1 else 0

/-- with `Dinv_i A_ii = I`: `Dinv_i (c - Σ_{j≠i} A_ij y_j) = y_i + Dinv_i (c - (A y)_i)` -/
theorem dinv_split (A : Bsr R) (Dinv : Array R) (i : Nat) (hL : LeftInv A Dinv i) (k : Nat) (hk : k < A.bs)
    (c y : Nat → R) :
    ∑ l ∈ range A.bs, dinvAt A.bs Dinv i k l * (c l - offDot A i y l) =
      y (i * A.bs + k) + ∑ l ∈ range A.bs, dinvAt A.bs Dinv i k l * (c l - rowDotB A i y l) := by
  have h1 : ∀ l, c l - offDot A i y l =
      (c l - rowDotB A i y l) + ∑ m ∈ range A.bs, diagBlk A i l m * y (i * A.bs + m) := by
    intro l; rw [rowDotB_split]; ring
  simp only [h1, mul_add, Finset.sum_add_distrib]
  rw [add_comm]
  congr 1
  simp only [Finset.mul_sum]
  rw [Finset.sum_comm]
  have h2 : ∀ m ∈ range A.bs, (∑ l ∈ range A.bs, dinvAt A.bs Dinv i k l * (diagBlk A i l m * y (i * A.bs + m))) =
      (if k = m then 1 else 0) * y (i * A.bs + m) := by
    intro m hm
    rw [← hL k hk m (mem_range.1 hm), Finset.sum_mul]
    apply Finset.sum_congr rfl
    intro l _; ring
  rw [Finset.sum_congr rfl h2]
  simp [Finset.sum_ite_eq, hk]

/-! ### block Jacobi -/

theorem rd_bjacTemp {bs : Nat} (hbs : 0 < bs) (rows : List Nat) (temp0 x : Array R) (hsz : temp0.size = x.size)
    (p : Nat) : rd (bjacTemp bs rows temp0 x) p = if p / bs ∈ rows then rd x p else rd temp0 p := by
  unfold K.bjacTemp
  rw [(rd_blockSweep hbs (fun i k => rd x (i * bs + k)) rows temp0 p).1]
  by_cases h : p / bs ∈ rows
  · by_cases hs : p < temp0.size
    · simp only [h, hs, and_self, if_true]
      rw [Nat.div_add_mod' p bs]
    · simp only [h, hs, and_false, if_false, if_true]
      rw [rd_of_le _ _ (by omega), rd_of_le _ _ (by omega)]
  · simp [h]

/-- the value `block_jacobi` writes to entry `k` of block row `i` -/
def bjacG (ω : R) (A : Bsr R) (b Dinv temp : Array R) (i k : Nat) : R :=
  (1 - ω) * rd temp (i * A.bs + k) + ω * lrd (blockSolve A b Dinv i (blockOffSum A i temp)) k

theorem blockJacobi_eq (ω : R) (A : Bsr R) (b Dinv : Array R) (rows : List Nat) (temp0 x : Array R) :
    blockJacobi ω A b Dinv rows temp0 x =
      rows.foldl (fun y i => writeBlock A.bs y i (bjacG ω A b Dinv (bjacTemp A.bs rows temp0 x) i)) x := rfl

theorem blockSweep_size (bs : Nat) (G : Nat → Nat → R) (rows : List Nat) (x : Array R) :
    (rows.foldl (fun x i => writeBlock bs x i (G i)) x).size = x.size := by
  induction rows generalizing x with
  | nil => rfl
  | cons i rows ih => simp only [List.foldl_cons]; rw [ih, size_writeBlock]

theorem blockJacobi_size (ω : R) (A : Bsr R) (b Dinv : Array R) (rows : List Nat) (temp0 x : Array R) :
    (blockJacobi ω A b Dinv rows temp0 x).size = x.size := by
  rw [blockJacobi_eq, blockSweep_size]

/-- **block Jacobi, kernel form**: on a swept block row whose off-diagonal block columns are swept too
(always the case for the full sweep of the Python driver), every entry becomes
`(1-ω) x + ω Dinv_i (b_i − Σ_{j≠i} A_ij x_j)`; entries of block rows not swept are untouched -/
theorem blockJacobi_entry (ω : R) (A : Bsr R) (b Dinv temp0 x : Array R) (rows : List Nat)
    (hbs : 0 < A.bs) (hsz : temp0.size = x.size)
    (hclosed : ∀ i ∈ rows, ∀ jj ∈ A.jjs i, rdN A.bj jj ∈ rows) (p : Nat) (hp : p < x.size) :
    rd (blockJacobi ω A b Dinv rows temp0 x) p =
      if p / A.bs ∈ rows then
        (1 - ω) * rd x p + ω * ∑ l ∈ range A.bs, dinvAt A.bs Dinv (p / A.bs) (p % A.bs) l *
          (rd b (p / A.bs * A.bs + l) - offDot A (p / A.bs) (fun q => rd x q) l)
      else rd x p := by
  rw [blockJacobi_eq, (rd_blockSweep hbs _ rows x p).1]
  by_cases hrow : p / A.bs ∈ rows
  · simp only [hrow, hp, and_self, if_true]
    have hk : p % A.bs < A.bs := Nat.mod_lt _ hbs
    unfold bjacG
    rw [Nat.div_add_mod' p A.bs, rd_bjacTemp hbs rows temp0 x hsz, if_pos hrow, lrd_blockSolve _ _ _ _ _ _ hk]
    congr 2
    apply Finset.sum_congr rfl
    intro l hl
    rw [lrd_blockOffSum _ _ _ _ (mem_range.1 hl)]
    congr 2
    unfold offDot
    apply blkDot_congr
    intro jj hjj m hm
    have hj : rdN A.bj jj ∈ rows := hclosed _ hrow jj (List.mem_filter.1 hjj).1
    rw [rd_bjacTemp hbs rows temp0 x hsz, blk_div hbs _ _ hm, if_pos hj]
  · simp [hrow]

/-- **block Jacobi = `x + ω D⁻¹ (b − A x)` on the swept block rows** when `Dinv_i` is the inverse of the
diagonal block (`Dinv_i A_ii = I`) -/
theorem blockJacobi_splitting (ω : R) (A : Bsr R) (b Dinv temp0 x : Array R) (rows : List Nat)
    (hbs : 0 < A.bs) (hsz : temp0.size = x.size)
    (hclosed : ∀ i ∈ rows, ∀ jj ∈ A.jjs i, rdN A.bj jj ∈ rows)
    (hinv : ∀ i ∈ rows, LeftInv A Dinv i) (p : Nat) (hp : p < x.size) (hrow : p / A.bs ∈ rows) :
    rd (blockJacobi ω A b Dinv rows temp0 x) p =
      rd x p + ω * ∑ l ∈ range A.bs, dinvAt A.bs Dinv (p / A.bs) (p % A.bs) l *
        (rd b (p / A.bs * A.bs + l) - rowDotB A (p / A.bs) (fun q => rd x q) l) := by
  rw [blockJacobi_entry ω A b Dinv temp0 x rows hbs hsz hclosed p hp, if_pos hrow]
  rw [dinv_split A Dinv (p / A.bs) (hinv _ hrow) (p % A.bs) (Nat.mod_lt _ hbs)
    (fun l => rd b (p / A.bs * A.bs + l)) (fun q => rd x q)]
  rw [Nat.div_add_mod' p A.bs]
  ring

/-- the exact solution (block rows `(A x)_i = b_i` on the swept rows) is a fixed point, as an array -/
theorem blockJacobi_fixed_point (ω : R) (A : Bsr R) (b Dinv temp0 x : Array R) (rows : List Nat)
    (hbs : 0 < A.bs) (hsz : temp0.size = x.size)
    (hclosed : ∀ i ∈ rows, ∀ jj ∈ A.jjs i, rdN A.bj jj ∈ rows)
    (hinv : ∀ i ∈ rows, LeftInv A Dinv i)
    (hsol : ∀ i ∈ rows, ∀ l < A.bs, rowDotB A i (fun q => rd x q) l = rd b (i * A.bs + l)) :
    blockJacobi ω A b Dinv rows temp0 x = x := by
  apply array_ext_rd _ _ (blockJacobi_size _ _ _ _ _ _ _)
  intro p hp
  rw [blockJacobi_size] at hp
  by_cases hrow : p / A.bs ∈ rows
  · rw [blockJacobi_splitting ω A b Dinv temp0 x rows hbs hsz hclosed hinv p hp hrow]
    have : ∑ l ∈ range A.bs, dinvAt A.bs Dinv (p / A.bs) (p % A.bs) l *
        (rd b (p / A.bs * A.bs + l) - rowDotB A (p / A.bs) (fun q => rd x q) l) = 0 := by
      apply Finset.sum_eq_zero
      intro l hl
      rw [hsol _ hrow l (mem_range.1 hl)]; ring
    rw [this]; ring
  · rw [blockJacobi_entry ω A b Dinv temp0 x rows hbs hsz hclosed p hp, if_neg hrow]

theorem iter_fixed {β : Type} (f : β → β) (x : β) (h : f x = x) (k : Nat) : iter f k x = x := by
  induction k with
  | zero => rfl
  | succ k ih => simp only [K.iter]; rw [h]; exact ih

/-- the Python driver `block_jacobi` (all block rows, any `omega`, any `iterations`) returns the exact solution
unchanged -/
theorem pyBlockJacobi_fixed_point (ω : R) (A : Bsr R) (b Dinv x : Array R) (iters : Nat)
    (hbs : 0 < A.bs) (hx : x.size = A.nb * A.bs) (hb : b.size = A.nb * A.bs) (hD : Dinv.size = A.nb * (A.bs * A.bs))
    (hcols : ∀ i < A.nb, ∀ jj ∈ A.jjs i, rdN A.bj jj < A.nb)
    (hinv : ∀ i < A.nb, LeftInv A Dinv i)
    (hsol : ∀ i < A.nb, ∀ l < A.bs, rowDotB A i (fun q => rd x q) l = rd b (i * A.bs + l)) :
    pyBlockJacobi ω A b Dinv iters x = some x := by
  unfold K.pyBlockJacobi
  rw [if_neg (by simp [hx, hb, hD])]
  congr 1
  apply iter_fixed
  apply blockJacobi_fixed_point ω A b Dinv _ x (List.range A.nb) hbs (by simp)
  · intro i hi jj hjj; exact List.mem_range.2 (hcols i (List.mem_range.1 hi) jj hjj)
  · intro i hi; exact hinv i (List.mem_range.1 hi)
  · intro i hi; exact hsol i (List.mem_range.1 hi)

/-- one iteration of the driver is one full-range kernel call with a fresh buffer -/
theorem pyBlockJacobi_one (ω : R) (A : Bsr R) (b Dinv x : Array R)
    (hx : x.size = A.nb * A.bs) (hb : b.size = A.nb * A.bs) (hD : Dinv.size = A.nb * (A.bs * A.bs)) :
    pyBlockJacobi ω A b Dinv 1 x =
      some (blockJacobi ω A b Dinv (List.range A.nb) (Array.replicate x.size 0) x) := by
  unfold K.pyBlockJacobi
  rw [if_neg (by simp [hx, hb, hD])]
  rfl

/-! ### block Gauss-Seidel -/

theorem bgsStep_size (A : Bsr R) (b Dinv x : Array R) (i : Nat) : (bgsStep A b Dinv x i).size = x.size := by
  unfold K.bgsStep; exact size_writeBlock _ _ _ _

/-- **block Gauss-Seidel, kernel form**: block `i` becomes `Dinv_i (b_i − Σ_{j≠i} A_ij x_j)`, the rest is untouched -/
theorem bgsStep_entry (A : Bsr R) (b Dinv x : Array R) (i : Nat) (hbs : 0 < A.bs) (p : Nat) (hp : p < x.size) :
    rd (bgsStep A b Dinv x i) p =
      if p / A.bs = i then
        ∑ l ∈ range A.bs, dinvAt A.bs Dinv i (p % A.bs) l * (rd b (i * A.bs + l) - offDot A i (fun q => rd x q) l)
      else rd x p := by
  unfold K.bgsStep
  rw [rd_writeBlock hbs]
  by_cases h : p / A.bs = i
  · simp only [h, hp, and_self, if_true]
    rw [lrd_blockSolve _ _ _ _ _ _ (Nat.mod_lt _ hbs)]
    apply Finset.sum_congr rfl
    intro l hl
    rw [lrd_blockOffSum _ _ _ _ (mem_range.1 hl)]
  · simp [h]

/-- the update of block `i` does not change what the other block rows' couplings `Σ_{j≠i} A_ij x_j` read -/
theorem offDot_bgsStep (A : Bsr R) (b Dinv x : Array R) (i : Nat) (hbs : 0 < A.bs) (l : Nat) :
    offDot A i (fun q => rd (bgsStep A b Dinv x i) q) l = offDot A i (fun q => rd x q) l := by
  unfold offDot
  apply blkDot_congr
  intro jj hjj m hm
  have hne : ¬ rdN A.bj jj = i := by simpa [offJs] using (List.mem_filter.1 hjj).2
  unfold K.bgsStep
  rw [rd_writeBlock hbs, blk_div hbs _ _ hm]
  simp [hne]

/-- **each swept block row satisfies its block equation right after its update**: with `A_ii Dinv_i = I`,
`(A x')_i = b_i` for the vector `x'` the step returns -/
theorem bgsStep_residual_zero (A : Bsr R) (b Dinv x : Array R) (i : Nat) (hbs : 0 < A.bs)
    (hin : i * A.bs + A.bs ≤ x.size) (hR : RightInv A Dinv i) (l : Nat) (hl : l < A.bs) :
    rowDotB A i (fun q => rd (bgsStep A b Dinv x i) q) l = rd b (i * A.bs + l) := by
  rw [rowDotB_split, offDot_bgsStep A b Dinv x i hbs]
  have h1 : ∀ m ∈ range A.bs, diagBlk A i l m * rd (bgsStep A b Dinv x i) (i * A.bs + m) =
      ∑ l' ∈ range A.bs, diagBlk A i l m * dinvAt A.bs Dinv i m l' *
        (rd b (i * A.bs + l') - offDot A i (fun q => rd x q) l') := by
    intro m hm
    have hm' := mem_range.1 hm
    rw [bgsStep_entry A b Dinv x i hbs _ (by omega), blk_div hbs _ _ hm', if_pos rfl, blk_mod _ _ hm', Finset.mul_sum]
    apply Finset.sum_congr rfl
    intro l' _; ring
  rw [Finset.sum_congr rfl h1, Finset.sum_comm]
  have h2 : ∀ l' ∈ range A.bs, (∑ m ∈ range A.bs, diagBlk A i l m * dinvAt A.bs Dinv i m l' *
        (rd b (i * A.bs + l') - offDot A i (fun q => rd x q) l')) =
      (if l = l' then 1 else 0) * (rd b (i * A.bs + l') - offDot A i (fun q => rd x q) l') := by
    intro l' hl'
    rw [← hR l hl l' (mem_range.1 hl'), Finset.sum_mul]
  rw [Finset.sum_congr rfl h2]
  simp [Finset.sum_ite_eq, hl]

/-- block Gauss-Seidel row step in splitting form: `x_i ← x_i + Dinv_i (b − A x)_i` when `Dinv_i A_ii = I` -/
theorem bgsStep_splitting (A : Bsr R) (b Dinv x : Array R) (i : Nat) (hbs : 0 < A.bs) (hL : LeftInv A Dinv i)
    (p : Nat) (hp : p < x.size) (hpi : p / A.bs = i) :
    rd (bgsStep A b Dinv x i) p =
      rd x p + ∑ l ∈ range A.bs, dinvAt A.bs Dinv i (p % A.bs) l *
        (rd b (i * A.bs + l) - rowDotB A i (fun q => rd x q) l) := by
  rw [bgsStep_entry A b Dinv x i hbs p hp, if_pos hpi,
    dinv_split A Dinv i hL (p % A.bs) (Nat.mod_lt _ hbs) (fun l => rd b (i * A.bs + l)) (fun q => rd x q)]
  subst hpi
  rw [Nat.div_add_mod' p A.bs]

theorem bgsStep_fixed (A : Bsr R) (b Dinv x : Array R) (i : Nat) (hbs : 0 < A.bs) (hL : LeftInv A Dinv i)
    (hsol : ∀ l < A.bs, rowDotB A i (fun q => rd x q) l = rd b (i * A.bs + l)) :
    bgsStep A b Dinv x i = x := by
  apply array_ext_rd _ _ (bgsStep_size _ _ _ _ _)
  intro p hp
  rw [bgsStep_size] at hp
  by_cases hpi : p / A.bs = i
  · rw [bgsStep_splitting A b Dinv x i hbs hL p hp hpi]
    have : ∑ l ∈ range A.bs, dinvAt A.bs Dinv i (p % A.bs) l *
        (rd b (i * A.bs + l) - rowDotB A i (fun q => rd x q) l) = 0 := by
      apply Finset.sum_eq_zero
      intro l hl
      rw [hsol l (mem_range.1 hl)]; ring
    rw [this]; ring
  · rw [bgsStep_entry A b Dinv x i hbs p hp, if_neg hpi]

/-- the exact solution is a fixed point of the block Gauss-Seidel kernel, any row order -/
theorem blockGaussSeidel_fixed_point (A : Bsr R) (b Dinv x : Array R) (rows : List Nat) (hbs : 0 < A.bs)
    (hinv : ∀ i ∈ rows, LeftInv A Dinv i)
    (hsol : ∀ i ∈ rows, ∀ l < A.bs, rowDotB A i (fun q => rd x q) l = rd b (i * A.bs + l)) :
    blockGaussSeidel A b Dinv rows x = x := by
  unfold K.blockGaussSeidel
  induction rows with
  | nil => rfl
  | cons i rows ih =>
    simp only [List.foldl_cons]
    rw [bgsStep_fixed A b Dinv x i hbs (hinv i (by simp)) (hsol i (by simp))]
    exact ih (fun j hj => hinv j (by simp [hj])) (fun j hj => hsol j (by simp [hj]))

theorem mem_dirRows (n : Nat) (bw : Bool) (i : Nat) : i ∈ dirRows n bw ↔ i < n := by
  unfold K.dirRows; cases bw <;> simp

/-- the Python driver `block_gauss_seidel` (forward, backward, symmetric; any `iterations`) returns the exact
solution unchanged -/
theorem pyBlockGaussSeidel_fixed_point (A : Bsr R) (b Dinv x : Array R) (iters : Nat) (sw : Sweep)
    (hbs : 0 < A.bs) (hx : x.size = A.nb * A.bs) (hb : b.size = A.nb * A.bs) (hD : Dinv.size = A.nb * (A.bs * A.bs))
    (hinv : ∀ i < A.nb, LeftInv A Dinv i)
    (hsol : ∀ i < A.nb, ∀ l < A.bs, rowDotB A i (fun q => rd x q) l = rd b (i * A.bs + l)) :
    pyBlockGaussSeidel A b Dinv iters sw x = some x := by
  have hpass : ∀ bw, bgsPass A b Dinv bw x = x := by
    intro bw
    unfold K.bgsPass
    apply blockGaussSeidel_fixed_point A b Dinv x _ hbs
    · intro i hi; exact hinv i ((mem_dirRows _ _ _).1 hi)
    · intro i hi; exact hsol i ((mem_dirRows _ _ _).1 hi)
  unfold K.pyBlockGaussSeidel
  rw [if_neg (by simp [hx, hb, hD])]
  congr 1
  cases sw
  · exact iter_fixed _ _ (hpass false) _
  · exact iter_fixed _ _ (hpass true) _
  · exact iter_fixed _ _ (by show bgsPass A b Dinv true (bgsPass A b Dinv false x) = x; rw [hpass false, hpass true]) _

/-- `sweep='symmetric'` is a forward pass followed by a backward pass, with the caller's `Dinv` -/
theorem pyBlockGaussSeidel_symmetric (A : Bsr R) (b Dinv x : Array R)
    (hx : x.size = A.nb * A.bs) (hb : b.size = A.nb * A.bs) (hD : Dinv.size = A.nb * (A.bs * A.bs)) :
    pyBlockGaussSeidel A b Dinv 1 .symmetric x =
      some (blockGaussSeidel A b Dinv (List.range A.nb).reverse (blockGaussSeidel A b Dinv (List.range A.nb) x)) := by
  unfold K.pyBlockGaussSeidel
  rw [if_neg (by simp [hx, hb, hD])]
  rfl

/-! ### polynomial relaxation -/

/-- an array read as a vector (zero beyond its size) -/
def vec (x : Array R) : Nat → R := fun i => rd x i

/-- entry `i` of `A u` for the CSR structure (duplicates add up, any column order) -/
def csrRow (A : Csr R) (i : Nat) (u : Nat → R) : R := ((A.jjs i).map (fun jj => rd A.ax jj * u (rdN A.aj jj))).sum

/-- the linear operator of a CSR matrix with `A.n` rows -/
def csrLin (A : Csr R) : (Nat → R) →ₗ[R] (Nat → R) where
  toFun u := fun i => if i < A.n then csrRow A i u else 0
  map_add' u v := by
    funext i
    by_cases h : i < A.n
    · simp only [h, if_true, Pi.add_apply, csrRow]
      induction A.jjs i with
      | nil => simp
      | cons a l ih => simp only [List.map_cons, List.sum_cons, ih]; ring
    · simp [h]
  map_smul' c u := by
    funext i
    by_cases h : i < A.n
    · simp only [h, if_true, Pi.smul_apply, smul_eq_mul, RingHom.id_apply, csrRow]
      induction A.jjs i with
      | nil => simp
      | cons a l ih => simp only [List.map_cons, List.sum_cons, ih]; ring
    · simp [h]

theorem csrLin_apply (A : Csr R) (u : Nat → R) (i : Nat) :
    csrLin A u i = if i < A.n then csrRow A i u else 0 := rfl

theorem rd_toArray_map_range (n : Nat) (f : Nat → R) (i : Nat) :
    rd ((List.range n).map f).toArray i = if i < n then f i else 0 := by
  unfold K.rd
  by_cases h : i < n <;> simp [Array.getD_eq_getD_getElem?, h]

theorem size_spmv (A : Csr R) (x : Array R) : (spmv A x).size = A.n := by simp [K.spmv]
theorem size_vadd (a b : Array R) : (vadd a b).size = a.size := by simp [K.vadd, K.vmap2]
theorem size_vsub (a b : Array R) : (vsub a b).size = a.size := by simp [K.vsub, K.vmap2]
theorem size_smul (c : R) (a : Array R) : (K.smul c a).size = a.size := by simp [K.smul]

theorem vec_spmv (A : Csr R) (x : Array R) : vec (spmv A x) = csrLin A (vec x) := by
  funext i
  unfold vec K.spmv
  rw [rd_toArray_map_range, csrLin_apply, foldl_add, zero_add]
  rfl

theorem vec_vadd (a b : Array R) (h : b.size ≤ a.size) : vec (vadd a b) = vec a + vec b := by
  funext i
  unfold vec K.vadd K.vmap2
  rw [rd_toArray_map_range]
  by_cases hi : i < a.size
  · simp [hi]
  · simp [hi, rd_of_le a i (by omega), rd_of_le b i (by omega)]

theorem vec_vsub (a b : Array R) (h : b.size ≤ a.size) : vec (vsub a b) = vec a - vec b := by
  funext i
  unfold vec K.vsub K.vmap2
  rw [rd_toArray_map_range]
  by_cases hi : i < a.size
  · simp [hi]
  · simp [hi, rd_of_le a i (by omega), rd_of_le b i (by omega)]

theorem vec_smul (c : R) (a : Array R) : vec (K.smul c a) = c • vec a := by
  funext i
  unfold vec K.smul
  rw [rd_toArray_map_range]
  by_cases hi : i < a.size
  · simp [hi]
  · simp [hi, rd_of_le a i (by omega)]

theorem vec_eq_zero_of_all (x : Array R) (h : x.all (fun v => decide (v = 0)) = true) : vec x = 0 := by
  funext i
  unfold vec K.rd
  rw [Array.all_eq_true] at h
  by_cases hi : i < x.size
  · have := h i hi
    simp only [decide_eq_true_eq] at this
    simp [Array.getD_eq_getD_getElem?, hi, this]
  · simp [Array.getD_eq_getD_getElem?, hi]

/-- Horner's scheme on vectors: `h = c0 v; for c in rest: h = c v + T h` -/
def hornerV {V : Type} [AddCommGroup V] [Module R V] (T : V →ₗ[R] V) (c0 : R) (rest : List R) (v : V) : V :=
  rest.foldl (fun h c => c • v + T h) (c0 • v)

/-- the polynomial with the given coefficients, highest degree first (`numpy.poly1d` convention of
`relaxation.polynomial`) -/
noncomputable def polyOf (c0 : R) (rest : List R) : Polynomial R :=
  rest.foldl (fun p c => Polynomial.C c + Polynomial.X * p) (Polynomial.C c0)

theorem polyOf_nil (c0 : R) : polyOf c0 [] = Polynomial.C c0 := rfl
theorem polyOf_snoc (c0 : R) (rest : List R) (c : R) :
    polyOf c0 (rest ++ [c]) = Polynomial.C c + Polynomial.X * polyOf c0 rest := by
  unfold polyOf; rw [List.foldl_append]; rfl

/-- Horner's scheme evaluates `p(T) v` -/
theorem hornerV_eq_aeval {V : Type} [AddCommGroup V] [Module R V] (T : V →ₗ[R] V) (c0 : R) (rest : List R) (v : V) :
    hornerV T c0 rest v = (Polynomial.aeval T (polyOf c0 rest)) v := by
  unfold hornerV polyOf
  have key : ∀ (rest : List R) (p : Polynomial R) (h : V), h = (Polynomial.aeval T p) v →
      rest.foldl (fun h c => c • v + T h) h =
        (Polynomial.aeval T (rest.foldl (fun p c => Polynomial.C c + Polynomial.X * p) p)) v := by
    intro rest
    induction rest with
    | nil => intro p h hh; exact hh
    | cons c rest ih =>
      intro p h hh
      simp only [List.foldl_cons]
      apply ih
      rw [hh]
      simp [Polynomial.aeval_C, Module.algebraMap_end_apply]
  apply key
  simp [Polynomial.aeval_C, Module.algebraMap_end_apply]

theorem hornerArr_vec (A : Csr R) (c0 : R) (rest : List R) (r : Array R) (hr : r.size = A.n) :
    (hornerArr A c0 rest r).size = A.n ∧
    vec (hornerArr A c0 rest r) = hornerV (csrLin A) c0 rest (vec r) := by
  unfold K.hornerArr hornerV
  have key : ∀ (rest : List R) (h : Array R) (hv : Nat → R), h.size = A.n → vec h = hv →
      (rest.foldl (fun h c => vadd (K.smul c r) (spmv A h)) h).size = A.n ∧
      vec (rest.foldl (fun h c => vadd (K.smul c r) (spmv A h)) h) =
        rest.foldl (fun h c => c • vec r + csrLin A h) hv := by
    intro rest
    induction rest with
    | nil => intro h hv hs hh; exact ⟨hs, hh⟩
    | cons c rest ih =>
      intro h hv hs hh
      simp only [List.foldl_cons]
      apply ih
      · rw [size_vadd, size_smul, hr]
      · rw [vec_vadd _ _ (by rw [size_spmv, size_smul, hr]), vec_smul, vec_spmv, hh]
  exact key rest _ _ (by rw [size_smul, hr]) (vec_smul _ _)

/-- **one iteration of `polynomial` is `x + p(A)(b − A x)`**, `p` the polynomial with the caller's coefficients
(highest degree first); the `norm(x) == 0` shortcut changes nothing -/
theorem polyStep_eq (A : Csr R) (b x : Array R) (c0 : R) (rest : List R) (hx : x.size = A.n) (hb : b.size = A.n) :
    ∃ y, polyStep A b (c0 :: rest) x = some y ∧ y.size = A.n ∧
      vec y = vec x + (Polynomial.aeval (csrLin A) (polyOf c0 rest)) (vec b - csrLin A (vec x)) := by
  unfold K.polyStep
  refine ⟨_, rfl, ?_, ?_⟩
  · rw [size_vadd, hx]
  · have hr : ∀ r : Array R, r.size = A.n →
        vec (vadd x (hornerArr A c0 rest r)) = vec x + (Polynomial.aeval (csrLin A) (polyOf c0 rest)) (vec r) := by
      intro r hrs
      obtain ⟨h1, h2⟩ := hornerArr_vec A c0 rest r hrs
      rw [vec_vadd _ _ (by rw [h1, hx]), h2, hornerV_eq_aeval]
    by_cases h0 : x.all (fun v => decide (v = 0)) = true
    · rw [if_pos h0, hr b hb, vec_eq_zero_of_all x h0, map_zero, sub_zero]
    · rw [if_neg h0, hr _ (by rw [size_vsub, hb]), vec_vsub _ _ (by rw [size_spmv, hb]), vec_spmv]

theorem iterO_fixed {β : Type} (f : β → Option β) (x : β) (h : f x = some x) (k : Nat) : iterO f k x = some x := by
  induction k with
  | zero => rfl
  | succ k ih => simp only [K.iterO, h, Option.bind_some]; exact ih

/-- the exact solution (`A x = b`) is a fixed point of `polynomial`, any coefficients, any `iterations` -/
theorem pyPolynomial_fixed_point (A : Csr R) (b x : Array R) (c0 : R) (rest : List R) (iters : Nat)
    (hx : x.size = A.n) (hb : b.size = A.n) (hsol : csrLin A (vec x) = vec b) :
    pyPolynomial A b (c0 :: rest) iters x = some x := by
  unfold K.pyPolynomial
  apply iterO_fixed
  obtain ⟨y, hy, hs, hv⟩ := polyStep_eq A b x c0 rest hx hb
  rw [hy]
  congr 1
  apply array_ext_rd _ _ (by rw [hs, hx])
  intro p _
  have := congrFun hv p
  rw [hsol, sub_self, map_zero] at this
  simpa [vec] using this

/-! ### normal equations: `gauss_seidel_ne` (Kaczmarz) -/

/-- scattering `x[col jj] += t jj` over a list of stored entries adds, at position `p`, the terms of the entries
whose column is `p` -/
theorem rd_scatter (col : Nat → Nat) (t : Nat → R) (L : List Nat) (x : Array R) (p : Nat) (hp : p < x.size) :
    rd (L.foldl (fun x jj => wr x (col jj) (rd x (col jj) + t jj)) x) p =
      rd x p + ((L.filter (fun jj => col jj = p)).map t).sum ∧
    (L.foldl (fun x jj => wr x (col jj) (rd x (col jj) + t jj)) x).size = x.size := by
  induction L generalizing x with
  | nil => simp
  | cons jj L ih =>
    simp only [List.foldl_cons]
    obtain ⟨ih1, ih2⟩ := ih (wr x (col jj) (rd x (col jj) + t jj)) (by simpa using hp)
    refine ⟨?_, by rw [ih2, size_wr]⟩
    rw [ih1, rd_wr]
    by_cases h : col jj = p
    · subst h; simp [hp]; ring
    · simp [h]

theorem scatter_zero (col : Nat → Nat) (t : Nat → R) (L : List Nat) (x : Array R) (ht : ∀ jj ∈ L, t jj = 0) :
    L.foldl (fun x jj => wr x (col jj) (rd x (col jj) + t jj)) x = x := by
  induction L generalizing x with
  | nil => rfl
  | cons jj L ih =>
    simp only [List.foldl_cons]
    rw [ht jj (by simp), add_zero, wr_self]
    exact ih x (fun j hj => ht j (by simp [hj]))

/-- one row of `gauss_seidel_ne` -/
def neStep (conj : R → R) (ω : R) (A : Csr R) (b Dinv x : Array R) (i : Nat) : Array R :=
  let s := (A.jjs i).foldl (fun s jj => s + rd A.ax jj * rd x (rdN A.aj jj)) (0 : R)
  let delta := (rd b i - s) * rd Dinv i * ω
  (A.jjs i).foldl (fun x jj => wr x (rdN A.aj jj) (rd x (rdN A.aj jj) + conj (rd A.ax jj) * delta)) x

theorem gaussSeidelNE_eq (conj : R → R) (ω : R) (A : Csr R) (b Dinv : Array R) (rows : List Nat) (x : Array R) :
    gaussSeidelNE conj ω A b Dinv rows x = rows.foldl (neStep conj ω A b Dinv) x := rfl

/-- `conj` of entry `(i, p)` of the matrix (stored duplicates add up) -/
def conjEntry (conj : R → R) (A : Csr R) (i p : Nat) : R :=
  (((A.jjs i).filter (fun jj => rdN A.aj jj = p)).map (fun jj => conj (rd A.ax jj))).sum

theorem scatter_size (col : Nat → Nat) (t : Nat → R) (L : List Nat) (x : Array R) :
    (L.foldl (fun x jj => wr x (col jj) (rd x (col jj) + t jj)) x).size = x.size := by
  induction L generalizing x with
  | nil => rfl
  | cons jj L ih => simp only [List.foldl_cons]; rw [ih, size_wr]

theorem neStep_size (conj : R → R) (ω : R) (A : Csr R) (b Dinv x : Array R) (i : Nat) :
    (neStep conj ω A b Dinv x i).size = x.size := by
  unfold neStep
  exact scatter_size _ _ _ _

/-- **`gauss_seidel_ne` row step = Kaczmarz row projection**: `x ← x + δ a_iᴴ`,
`δ = ω Dinv_i (b_i − ⟨a_i, x⟩)` -/
theorem neStep_entry (conj : R → R) (ω : R) (A : Csr R) (b Dinv x : Array R) (i p : Nat) (hp : p < x.size) :
    rd (neStep conj ω A b Dinv x i) p =
      rd x p + conjEntry conj A i p * ((rd b i - csrRow A i (vec x)) * rd Dinv i * ω) := by
  unfold neStep
  simp only
  rw [(rd_scatter (fun jj => rdN A.aj jj) _ (A.jjs i) x p hp).1, foldl_add, zero_add, list_sum_mul_right]
  rfl

theorem neStep_fixed (conj : R → R) (ω : R) (A : Csr R) (b Dinv x : Array R) (i : Nat)
    (hsol : csrRow A i (vec x) = rd b i) : neStep conj ω A b Dinv x i = x := by
  unfold neStep
  simp only
  apply scatter_zero
  intro jj _
  rw [foldl_add, zero_add]
  have : ((A.jjs i).map (fun k => rd A.ax k * rd x (rdN A.aj k))).sum = csrRow A i (vec x) := rfl
  rw [this, hsol]; ring

/-- the exact solution is a fixed point of the `gauss_seidel_ne` kernel: any row order, `omega`, `Dinv` -/
theorem gaussSeidelNE_fixed_point (conj : R → R) (ω : R) (A : Csr R) (b Dinv x : Array R) (rows : List Nat)
    (hsol : ∀ i ∈ rows, csrRow A i (vec x) = rd b i) : gaussSeidelNE conj ω A b Dinv rows x = x := by
  rw [gaussSeidelNE_eq]
  induction rows with
  | nil => rfl
  | cons i rows ih =>
    simp only [List.foldl_cons]
    rw [neStep_fixed conj ω A b Dinv x i (hsol i (by simp))]
    exact ih (fun j hj => hsol j (by simp [hj]))

/-- ... and of the Python driver (default or given `Dinv`; forward, backward, symmetric; any `iterations`) -/
theorem pyGaussSeidelNE_fixed_point (conj : R → R) (ω : R) (A : Csr R) (b x : Array R) (Dinv? : Option (Array R))
    (iters : Nat) (sw : Sweep) (hsol : ∀ i < x.size, csrRow A i (vec x) = rd b i) :
    pyGaussSeidelNE conj ω A b Dinv? iters sw x = x := by
  have hpass : ∀ D bw, gsnePass conj ω A b D bw x = x := by
    intro D bw
    unfold K.gsnePass
    apply gaussSeidelNE_fixed_point
    intro i hi; exact hsol i ((mem_dirRows _ _ _).1 hi)
  unfold K.pyGaussSeidelNE
  cases sw
  · exact iter_fixed _ _ (hpass _ false) _
  · exact iter_fixed _ _ (hpass _ true) _
  · exact iter_fixed _ _ (by
      show gsnePass conj ω A b _ true (gsnePass conj ω A b _ false x) = x
      rw [hpass _ false, hpass _ true]) _

/-! ### normal equations: `gauss_seidel_nr` (columns of a CSC matrix) -/

/-- `delta = ω Dinv_i ⟨A e_i, r⟩` -/
def nrDelta (conj : R → R) (ω : R) (A : Csr R) (Dinv r : Array R) (i : Nat) : R :=
  (A.jjs i).foldl (fun s jj => s + conj (rd A.ax jj) * rd r (rdN A.aj jj)) (0 : R) * (rd Dinv i * ω)

/-- one column of `gauss_seidel_nr` -/
def nrStep (conj : R → R) (ω : R) (A : Csr R) (Dinv : Array R) (xr : Array R × Array R) (i : Nat) : Array R × Array R :=
  (wr xr.1 i (rd xr.1 i + nrDelta conj ω A Dinv xr.2 i),
   (A.jjs i).foldl (fun r jj => wr r (rdN A.aj jj) (rd r (rdN A.aj jj) - nrDelta conj ω A Dinv xr.2 i * rd A.ax jj)) xr.2)

theorem gaussSeidelNR_eq (conj : R → R) (ω : R) (A : Csr R) (Dinv : Array R) (cols : List Nat) (x r : Array R) :
    gaussSeidelNR conj ω A Dinv cols x r = cols.foldl (nrStep conj ω A Dinv) (x, r) := rfl

/-- entry `(q, j)` of the matrix whose `j`-th stored line is column `j` (stored duplicates add up) -/
def cscEntry (A : Csr R) (j q : Nat) : R :=
  (((A.jjs j).filter (fun ii => rdN A.aj ii = q)).map (fun ii => rd A.ax ii)).sum

/-- entry `q` of `A u` for the CSC structure -/
def cscDot (A : Csr R) (q : Nat) (u : Nat → R) : R := ∑ j ∈ range A.n, cscEntry A j q * u j

theorem nrStep_r (conj : R → R) (ω : R) (A : Csr R) (Dinv x r : Array R) (i q : Nat) (hq : q < r.size) :
    rd (nrStep conj ω A Dinv (x, r) i).2 q = rd r q - nrDelta conj ω A Dinv r i * cscEntry A i q := by
  unfold nrStep
  simp only
  have hfun : (fun (r' : Array R) jj => wr r' (rdN A.aj jj) (rd r' (rdN A.aj jj) - nrDelta conj ω A Dinv r i * rd A.ax jj)) =
      (fun (r' : Array R) jj => wr r' (rdN A.aj jj) (rd r' (rdN A.aj jj) + -(nrDelta conj ω A Dinv r i * rd A.ax jj))) := by
    funext r' jj; rw [sub_eq_add_neg]
  rw [hfun, (rd_scatter (fun jj => rdN A.aj jj) _ (A.jjs i) r q hq).1]
  unfold cscEntry
  rw [← list_sum_mul_left]
  have : ∀ (L : List Nat), (L.map (fun jj => -(nrDelta conj ω A Dinv r i * rd A.ax jj))).sum =
      -(L.map (fun jj => nrDelta conj ω A Dinv r i * rd A.ax jj)).sum := by
    intro L; induction L with
    | nil => simp
    | cons a L ih => simp only [List.map_cons, List.sum_cons, ih]; ring
  rw [this]; ring

theorem nrStep_sizes (conj : R → R) (ω : R) (A : Csr R) (Dinv : Array R) (xr : Array R × Array R) (i : Nat) :
    (nrStep conj ω A Dinv xr i).1.size = xr.1.size ∧ (nrStep conj ω A Dinv xr i).2.size = xr.2.size := by
  unfold nrStep
  refine ⟨by simp, ?_⟩
  simp only
  have hfun : (fun (r' : Array R) jj => wr r' (rdN A.aj jj) (rd r' (rdN A.aj jj) - nrDelta conj ω A Dinv xr.2 i * rd A.ax jj)) =
      (fun (r' : Array R) jj => wr r' (rdN A.aj jj) (rd r' (rdN A.aj jj) + -(nrDelta conj ω A Dinv xr.2 i * rd A.ax jj))) := by
    funext r' jj; rw [sub_eq_add_neg]
  rw [hfun, scatter_size]

/-- **`gauss_seidel_nr` keeps `r = b − A x`**: the column step `x_i += δ`, `r −= δ A e_i` preserves the residual
relation the Python driver establishes before the first kernel call -/
theorem nrStep_residual (conj : R → R) (ω : R) (A : Csr R) (b Dinv x r : Array R) (i : Nat)
    (hi : i < A.n) (hix : i < x.size)
    (hres : ∀ q < r.size, rd r q = rd b q - cscDot A q (vec x)) (q : Nat) (hq : q < r.size) :
    rd (nrStep conj ω A Dinv (x, r) i).2 q = rd b q - cscDot A q (vec (nrStep conj ω A Dinv (x, r) i).1) := by
  rw [nrStep_r conj ω A Dinv x r i q hq, hres q hq]
  have hx : ∀ j, vec (nrStep conj ω A Dinv (x, r) i).1 j = vec x j + if i = j then nrDelta conj ω A Dinv r i else 0 := by
    intro j
    unfold nrStep vec
    simp only
    rw [rd_wr]
    by_cases h : i = j
    · subst h; simp [hix]
    · simp [h]
  unfold cscDot
  simp only [hx, mul_add, Finset.sum_add_distrib, mul_ite, mul_zero]
  rw [Finset.sum_ite_eq]
  simp only [mem_range, hi, if_true]
  ring

theorem nrStep_fixed (conj : R → R) (ω : R) (A : Csr R) (Dinv x r : Array R) (i : Nat)
    (hr : ∀ q, rd r q = 0) : nrStep conj ω A Dinv (x, r) i = (x, r) := by
  have hd : nrDelta conj ω A Dinv r i = 0 := by
    unfold nrDelta
    rw [foldl_add, zero_add]
    have : ((A.jjs i).map (fun jj => conj (rd A.ax jj) * rd r (rdN A.aj jj))).sum = 0 := by
      apply List.sum_eq_zero
      intro v hv
      obtain ⟨jj, _, rfl⟩ := List.mem_map.1 hv
      rw [hr]; ring
    rw [this]; ring
  unfold nrStep
  simp only [hd, add_zero, zero_mul, sub_zero, wr_self]
  congr 1
  generalize A.jjs i = L
  induction L with
  | nil => rfl
  | cons a L ih => simp only [List.foldl_cons]; exact ih

theorem rd_replicate_zero (n q : Nat) : rd (Array.replicate n (0 : R)) q = 0 := by
  unfold K.rd
  by_cases h : q < n <;> simp [Array.getD_eq_getD_getElem?, h]

/-- SciPy's `csc_matvec` as a sum -/
theorem rd_cscmv (A : Csr R) (x : Array R) (q : Nat) (hq : q < A.n) :
    rd (cscmv A x) q = cscDot A q (vec x) := by
  unfold K.cscmv cscDot
  have key : ∀ (L : List Nat) (y : Array R), q < y.size →
      rd (L.foldl (fun y j => (A.jjs j).foldl (fun y ii =>
        wr y (rdN A.aj ii) (rd y (rdN A.aj ii) + rd A.ax ii * rd x j)) y) y) q =
      rd y q + (L.map (fun j => cscEntry A j q * vec x j)).sum := by
    intro L
    induction L with
    | nil => intro y _; simp
    | cons j L ih =>
      intro y hy
      simp only [List.foldl_cons, List.map_cons, List.sum_cons]
      rw [ih _ (by rw [scatter_size]; exact hy),
        (rd_scatter (fun ii => rdN A.aj ii) (fun ii => rd A.ax ii * rd x j) (A.jjs j) y q hy).1]
      unfold cscEntry vec
      rw [list_sum_mul_right]
      ring
  rw [key _ _ (by simpa using hq), rd_replicate_zero, zero_add, range_sum]

/-- the exact solution is a fixed point of the Python driver `gauss_seidel_nr` (any `omega`, `Dinv`, sweep,
`iterations`): the residual the driver computes is zero, every column correction vanishes -/
theorem pyGaussSeidelNR_fixed_point (conj : R → R) (ω : R) (A : Csr R) (b x : Array R) (Dinv? : Option (Array R))
    (iters : Nat) (sw : Sweep) (hb : b.size = A.n) (hsol : ∀ q < A.n, cscDot A q (vec x) = rd b q) :
    pyGaussSeidelNR conj ω A b Dinv? iters sw x = x := by
  have hr : ∀ q, rd (vsub b (cscmv A x)) q = 0 := by
    intro q
    unfold K.vsub K.vmap2
    rw [rd_toArray_map_range]
    by_cases h : q < b.size
    · rw [if_pos h, rd_cscmv A x q (by omega), hsol q (by omega)]; ring
    · rw [if_neg h]
  have hsweep : ∀ D (cols : List Nat), gaussSeidelNR conj ω A D cols x (vsub b (cscmv A x)) = (x, vsub b (cscmv A x)) := by
    intro D cols
    rw [gaussSeidelNR_eq]
    induction cols with
    | nil => rfl
    | cons i cols ih => simp only [List.foldl_cons]; rw [nrStep_fixed conj ω A D x _ i hr]; exact ih
  have hcall : ∀ D bw k, gsnrCall conj ω A b D bw k x = x := by
    intro D bw k
    unfold K.gsnrCall
    rw [iter_fixed _ _ (by simp only; exact hsweep D _)]
  unfold K.pyGaussSeidelNR
  cases sw
  · exact hcall _ _ _
  · exact hcall _ _ _
  · exact iter_fixed _ _ (by
      show gsnrCall conj ω A b _ true 1 (gsnrCall conj ω A b _ false 1 x) = x
      rw [hcall, hcall]) _

/-! ### normal equations: `jacobi_ne` -/

theorem jacobiNE_eq (conj : R → R) (ω : R) (A : Csr R) (delta : Array R) (rows : List Nat) (x : Array R) :
    jacobiNE conj ω A delta rows x =
      rows.foldl (fun y i => wr y i (rd y i + rd
        (rows.foldl (fun t i => (A.jjs i).foldl (fun t jj =>
          wr t (rdN A.aj jj) (rd t (rdN A.aj jj) + ω * conj (rd A.ax jj) * rd delta i)) t)
          (rows.foldl (fun t i => wr t i 0) (Array.replicate x.size 0))) i)) x := rfl

theorem zero_fill (rows : List Nat) (n : Nat) :
    rows.foldl (fun (t : Array R) i => wr t i 0) (Array.replicate n 0) = Array.replicate n 0 := by
  induction rows with
  | nil => rfl
  | cons i rows ih =>
    simp only [List.foldl_cons]
    have : wr (Array.replicate n (0 : R)) i 0 = Array.replicate n 0 := by
      have h0 : rd (Array.replicate n (0 : R)) i = 0 := rd_replicate_zero n i
      have h1 := wr_self (Array.replicate n (0 : R)) i
      rw [h0] at h1; exact h1
    rw [this]; exact ih

/-- `temp` of `jacobi_ne`: `temp_p = Σ_{i ∈ rows} ω conj(a_ip) delta_i` -/
theorem rd_neTemp (conj : R → R) (ω : R) (A : Csr R) (delta : Array R) (rows : List Nat) (t : Array R)
    (p : Nat) (hp : p < t.size) :
    rd (rows.foldl (fun t i => (A.jjs i).foldl (fun t jj =>
        wr t (rdN A.aj jj) (rd t (rdN A.aj jj) + ω * conj (rd A.ax jj) * rd delta i)) t) t) p =
      rd t p + (rows.map (fun i => ω * conjEntry conj A i p * rd delta i)).sum := by
  induction rows generalizing t with
  | nil => simp
  | cons i rows ih =>
    simp only [List.foldl_cons, List.map_cons, List.sum_cons]
    rw [ih _ (by rw [scatter_size]; exact hp),
      (rd_scatter (fun jj => rdN A.aj jj) (fun jj => ω * conj (rd A.ax jj) * rd delta i) (A.jjs i) t p hp).1]
    unfold conjEntry
    rw [list_sum_mul_right, add_assoc]
    congr 2
    rw [← list_sum_mul_left]

theorem rd_addTemp (temp : Array R) (n : Nat) (x : Array R) (p : Nat) :
    rd ((List.range n).foldl (fun y i => wr y i (rd y i + rd temp i)) x) p =
      (if p < n ∧ p < x.size then rd x p + rd temp p else rd x p) ∧
    ((List.range n).foldl (fun y i => wr y i (rd y i + rd temp i)) x).size = x.size := by
  induction n with
  | zero => simp
  | succ n ih =>
    rw [List.range_succ, List.foldl_append]
    simp only [List.foldl_cons, List.foldl_nil]
    obtain ⟨ih1, ih2⟩ := ih
    refine ⟨?_, by rw [size_wr, ih2]⟩
    rw [rd_wr, ih2]
    by_cases h : n = p
    · subst h
      rw [ih1]
      by_cases hs : n < x.size <;> simp [hs]
    · rw [if_neg (fun hc => h hc.1), ih1]
      by_cases h1 : p < n ∧ p < x.size
      · have : p < n + 1 ∧ p < x.size := ⟨by omega, h1.2⟩
        rw [if_pos h1, if_pos this]
      · have : ¬ (p < n + 1 ∧ p < x.size) := fun hc => h1 ⟨by omega, hc.2⟩
        rw [if_neg h1, if_neg this]

/-- **`jacobi_ne` kernel over all rows = `x + ω Aᴴ delta`** (entry `p`) -/
theorem jacobiNE_entry (conj : R → R) (ω : R) (A : Csr R) (delta x : Array R) (n p : Nat) (hp : p < x.size) :
    rd (jacobiNE conj ω A delta (List.range n) x) p =
      if p < n then rd x p + ∑ i ∈ range n, ω * conjEntry conj A i p * rd delta i else rd x p := by
  rw [jacobiNE_eq, (rd_addTemp _ n x p).1, zero_fill]
  by_cases h : p < n
  · simp only [h, hp, and_self, if_true]
    rw [rd_neTemp conj ω A delta _ _ p (by simpa using hp), rd_replicate_zero, zero_add, range_sum]
  · simp [h]

theorem jacobiNE_size (conj : R → R) (ω : R) (A : Csr R) (delta x : Array R) (n : Nat) :
    (jacobiNE conj ω A delta (List.range n) x).size = x.size := by
  rw [jacobiNE_eq]; exact (rd_addTemp _ n x 0).2

/-- `1/‖a_i‖²` (0 for an empty or zero row): what `get_diagonal(A, norm_eq=2, inv=True)` returns -/
def rowNormInv (conj : R → R) (A : Csr R) (i : Nat) : R :=
  if ((A.jjs i).map (fun jj => rd A.ax jj * conj (rd A.ax jj))).sum = 0 then 0
  else 1 / ((A.jjs i).map (fun jj => rd A.ax jj * conj (rd A.ax jj))).sum

theorem rd_normInv (conj : R → R) (A : Csr R) (i : Nat) (hi : i < A.n) :
    rd (normInv conj A) i = rowNormInv conj A i := by
  unfold K.normInv rowNormInv
  rw [rd_toArray_map_range, if_pos hi]
  simp only [foldl_add, zero_add]

theorem rd_neDelta (A : Csr R) (b Dinv x : Array R) (i : Nat) (hi : i < A.n) :
    rd (neDelta A b Dinv x) i = (rd b i - csrRow A i (vec x)) * rd Dinv i := by
  unfold K.neDelta
  rw [rd_toArray_map_range, if_pos hi]
  have := congrFun (vec_spmv A x) i
  unfold vec at this
  rw [this, csrLin_apply, if_pos hi]
  rfl

/-- **one iteration of the Python driver `jacobi_ne` is `x + ω Aᴴ diag(A Aᴴ)⁻¹ (b − A x)`** -/
theorem pyJacobiNE_step_entry (conj : R → R) (ω : R) (A : Csr R) (b x : Array R) (p : Nat)
    (hp : p < x.size) (hpn : p < A.n) :
    rd (pyJacobiNE conj ω A b 1 x) p =
      rd x p + ∑ i ∈ range A.n, ω * conjEntry conj A i p *
        ((rd b i - csrRow A i (vec x)) * rowNormInv conj A i) := by
  show rd (jacobiNE conj ω A (neDelta A b (normInv conj A) x) (List.range A.n) x) p = _
  rw [jacobiNE_entry conj ω A _ x A.n p hp, if_pos hpn]
  congr 1
  apply Finset.sum_congr rfl
  intro i hi
  rw [rd_neDelta A b _ x i (mem_range.1 hi), rd_normInv conj A i (mem_range.1 hi)]

/-- the exact solution is a fixed point of the Python driver `jacobi_ne` -/
theorem pyJacobiNE_fixed_point (conj : R → R) (ω : R) (A : Csr R) (b x : Array R) (iters : Nat)
    (hsol : ∀ i < A.n, csrRow A i (vec x) = rd b i) : pyJacobiNE conj ω A b iters x = x := by
  unfold K.pyJacobiNE
  apply iter_fixed
  apply array_ext_rd _ _ (jacobiNE_size _ _ _ _ _ _)
  intro p hp
  rw [jacobiNE_size] at hp
  rw [jacobiNE_entry conj ω A _ x A.n p hp]
  by_cases h : p < A.n
  · rw [if_pos h]
    have : ∑ i ∈ range A.n, ω * conjEntry conj A i p * rd (neDelta A b (normInv conj A) x) i = 0 := by
      apply Finset.sum_eq_zero
      intro i hi
      rw [rd_neDelta A b _ x i (mem_range.1 hi), hsol i (mem_range.1 hi)]; ring
    rw [this]; ring
  · rw [if_neg h]

/-! ### overlapping multiplicative Schwarz -/

/-- `c`-th index of subdomain `d` -/
def sIdx (Sj Sp : Array Nat) (d c : Nat) : Nat := rdN Sj (rdN Sp d + c)
/-- size of subdomain `d` -/
def sSize (Sp : Array Nat) (d : Nat) : Nat := rdN Sp (d + 1) - rdN Sp d
/-- residual of the `c`-th row of subdomain `d` -/
def sRes (A : Csr R) (b x : Array R) (Sj Sp : Array Nat) (d c : Nat) : R :=
  rd b (sIdx Sj Sp d c) - csrRow A (sIdx Sj Sp d c) (vec x)
/-- entry `(c, c')` of the stored inverse block of subdomain `d` (row major) -/
def sT (Tx : Array R) (Tp Sp : Array Nat) (d c c' : Nat) : R := rd Tx (rdN Tp d + c * sSize Sp d + c')
/-- the correction `T_d r_d` of subdomain `d` -/
def sCorr (A : Csr R) (b Tx x : Array R) (Tp Sj Sp : Array Nat) (d c : Nat) : R :=
  ∑ c' ∈ range (sSize Sp d), sT Tx Tp Sp d c c' * sRes A b x Sj Sp d c'
/-- entry `(i, q)` of the CSR matrix (stored duplicates add up) -/
def csrEntry (A : Csr R) (i q : Nat) : R :=
  (((A.jjs i).filter (fun jj => rdN A.aj jj = q)).map (fun jj => rd A.ax jj)).sum

theorem schwarzStep_eq (A : Csr R) (b Tx : Array R) (Tp Sj Sp : Array Nat) (x : Array R) (d : Nat) :
    schwarzStep A b Tx Tp Sj Sp x d =
      (List.range (sSize Sp d)).foldl (fun y c => wr y (sIdx Sj Sp d c) (rd y (sIdx Sj Sp d c) +
        lrd (gemv Tx (rdN Tp d) (sSize Sp d) (lrd ((List.range (sSize Sp d)).map (fun c =>
          (A.jjs (sIdx Sj Sp d c)).foldl (fun s jj => s - rd A.ax jj * rd x (rdN A.aj jj)) 0 + rd b (sIdx Sj Sp d c))))) c)) x := rfl

theorem schwarz_v (A : Csr R) (b Tx : Array R) (Tp Sj Sp : Array Nat) (x : Array R) (d c : Nat) (hc : c < sSize Sp d) :
    lrd (gemv Tx (rdN Tp d) (sSize Sp d) (lrd ((List.range (sSize Sp d)).map (fun c =>
      (A.jjs (sIdx Sj Sp d c)).foldl (fun s jj => s - rd A.ax jj * rd x (rdN A.aj jj)) 0 + rd b (sIdx Sj Sp d c))))) c =
    sCorr A b Tx x Tp Sj Sp d c := by
  rw [lrd_gemv, if_pos hc]
  unfold sCorr
  apply Finset.sum_congr rfl
  intro c' hc'
  rw [lrd_map_range, if_pos (mem_range.1 hc'), foldl_sub]
  unfold sT sRes csrRow vec
  ring

theorem schwarzStep_size (A : Csr R) (b Tx : Array R) (Tp Sj Sp : Array Nat) (x : Array R) (d : Nat) :
    (schwarzStep A b Tx Tp Sj Sp x d).size = x.size := by
  rw [schwarzStep_eq]; exact scatter_size _ _ _ _

theorem list_sum_filter_ite {ι : Type} (L : List ι) (P : ι → Prop) [DecidablePred P] (t : ι → R) :
    ((L.filter (fun a => decide (P a))).map t).sum = (L.map (fun a => if P a then t a else 0)).sum := by
  induction L with
  | nil => simp
  | cons a L ih =>
    by_cases h : P a
    · simp [h, ih]
    · simp [h, ih]

/-- **Schwarz step, kernel form**: `x_p += Σ_{c : idx_c = p} (T_d (b − A x)|_d)_c` -/
theorem schwarzStep_entry (A : Csr R) (b Tx : Array R) (Tp Sj Sp : Array Nat) (x : Array R) (d p : Nat) (hp : p < x.size) :
    rd (schwarzStep A b Tx Tp Sj Sp x d) p =
      rd x p + ∑ c ∈ range (sSize Sp d), if sIdx Sj Sp d c = p then sCorr A b Tx x Tp Sj Sp d c else 0 := by
  rw [schwarzStep_eq, (rd_scatter (fun c => sIdx Sj Sp d c) _ _ x p hp).1]
  congr 1
  rw [list_sum_filter_ite _ (fun c => sIdx Sj Sp d c = p), range_sum]
  apply Finset.sum_congr rfl
  intro c hc
  rw [schwarz_v A b Tx Tp Sj Sp x d c (mem_range.1 hc)]

theorem csrRow_add (A : Csr R) (i : Nat) (u v : Nat → R) : csrRow A i (u + v) = csrRow A i u + csrRow A i v := by
  unfold csrRow
  simp only [Pi.add_apply, mul_add]
  exact List.sum_map_add

/-- a row applied to a vector supported on the subdomain: `Σ_jj a_jj Σ_{c : idx_c = col jj} w_c = Σ_c a_{i, idx_c} w_c` -/
theorem csrRow_supported (A : Csr R) (i m : Nat) (idx : Nat → Nat) (w : Nat → R) :
    csrRow A i (fun p => ∑ c ∈ range m, if idx c = p then w c else 0) =
      ∑ c ∈ range m, csrEntry A i (idx c) * w c := by
  unfold csrRow csrEntry
  simp only [Finset.mul_sum]
  rw [list_sum_comm]
  apply Finset.sum_congr rfl
  intro c _
  rw [list_sum_filter_ite _ (fun jj => rdN A.aj jj = idx c), ← list_sum_mul_right]
  congr 1
  apply List.map_congr_left
  intro jj _
  by_cases h : rdN A.aj jj = idx c
  · simp [h]
  · have h' : ¬ idx c = rdN A.aj jj := fun e => h e.symm
    simp [h, h']

/-- `A|_d T_d = I` for the stored inverse block of subdomain `d` -/
def SubRightInv (A : Csr R) (Tx : Array R) (Tp Sj Sp : Array Nat) (d : Nat) : Prop :=
  ∀ c < sSize Sp d, ∀ c' < sSize Sp d,
    ∑ c'' ∈ range (sSize Sp d), csrEntry A (sIdx Sj Sp d c) (sIdx Sj Sp d c'') * sT Tx Tp Sp d c'' c' =
      if c = c' then 1 else 0

/-- **after the step of subdomain `d` every row of the subdomain satisfies its equation** (exact subdomain solve),
given the stored block is the inverse of `A` restricted to the subdomain -/
theorem schwarzStep_residual_zero (A : Csr R) (b Tx : Array R) (Tp Sj Sp : Array Nat) (x : Array R) (d : Nat)
    (hin : ∀ c < sSize Sp d, sIdx Sj Sp d c < x.size) (hT : SubRightInv A Tx Tp Sj Sp d)
    (c : Nat) (hc : c < sSize Sp d) :
    csrRow A (sIdx Sj Sp d c) (vec (schwarzStep A b Tx Tp Sj Sp x d)) = rd b (sIdx Sj Sp d c) := by
  have hx : vec (schwarzStep A b Tx Tp Sj Sp x d) =
      vec x + fun p => ∑ c ∈ range (sSize Sp d), if sIdx Sj Sp d c = p then sCorr A b Tx x Tp Sj Sp d c else 0 := by
    funext p
    by_cases hp : p < x.size
    · simp only [vec, Pi.add_apply]
      exact schwarzStep_entry A b Tx Tp Sj Sp x d p hp
    · simp only [vec, Pi.add_apply]
      rw [rd_of_le _ _ (by rw [schwarzStep_size]; omega), rd_of_le _ _ (by omega)]
      have : ∑ c ∈ range (sSize Sp d), (if sIdx Sj Sp d c = p then sCorr A b Tx x Tp Sj Sp d c else 0) = 0 := by
        apply Finset.sum_eq_zero
        intro c hc
        have := hin c (mem_range.1 hc)
        rw [if_neg (by omega)]
      rw [this]; ring
  rw [hx, csrRow_add, csrRow_supported]
  unfold sCorr
  simp only [Finset.mul_sum]
  rw [Finset.sum_comm]
  have h2 : ∀ c' ∈ range (sSize Sp d),
      (∑ c'' ∈ range (sSize Sp d), csrEntry A (sIdx Sj Sp d c) (sIdx Sj Sp d c'') *
        (sT Tx Tp Sp d c'' c' * sRes A b x Sj Sp d c')) =
      (if c = c' then 1 else 0) * sRes A b x Sj Sp d c' := by
    intro c' hc'
    rw [← hT c hc c' (mem_range.1 hc'), Finset.sum_mul]
    apply Finset.sum_congr rfl
    intro c'' _; ring
  rw [Finset.sum_congr rfl h2]
  simp only [ite_mul, one_mul, zero_mul, Finset.sum_ite_eq, mem_range, hc, if_true]
  unfold sRes; ring

theorem schwarzStep_fixed (A : Csr R) (b Tx : Array R) (Tp Sj Sp : Array Nat) (x : Array R) (d : Nat)
    (hsol : ∀ c < sSize Sp d, csrRow A (sIdx Sj Sp d c) (vec x) = rd b (sIdx Sj Sp d c)) :
    schwarzStep A b Tx Tp Sj Sp x d = x := by
  rw [schwarzStep_eq]
  apply scatter_zero
  intro c hc
  have hc' : c < sSize Sp d := List.mem_range.1 hc
  rw [schwarz_v A b Tx Tp Sj Sp x d c hc']
  unfold sCorr
  apply Finset.sum_eq_zero
  intro c' hc''
  unfold sRes
  rw [hsol c' (mem_range.1 hc'')]; ring

/-- the exact solution is a fixed point of the Schwarz kernel (any subdomains, any stored blocks, any order) -/
theorem schwarzSweep_fixed_point (A : Csr R) (b Tx : Array R) (Tp Sj Sp : Array Nat) (x : Array R) (doms : List Nat)
    (hsol : ∀ d ∈ doms, ∀ c < sSize Sp d, csrRow A (sIdx Sj Sp d c) (vec x) = rd b (sIdx Sj Sp d c)) :
    schwarzSweep A b Tx Tp Sj Sp doms x = x := by
  unfold K.schwarzSweep
  induction doms with
  | nil => rfl
  | cons d doms ih =>
    simp only [List.foldl_cons]
    rw [schwarzStep_fixed A b Tx Tp Sj Sp x d (hsol d (by simp))]
    exact ih (fun e he => hsol e (by simp [he]))

/-- ... and of the Python driver `schwarz` (forward, backward, symmetric; any `iterations`) -/
theorem pySchwarz_fixed_point (A : Csr R) (b Tx : Array R) (Tp Sj Sp : Array Nat) (x : Array R) (iters : Nat) (sw : Sweep)
    (hsol : ∀ i, csrRow A i (vec x) = rd b i) :
    pySchwarz A b Tx Tp Sj Sp iters sw x = x := by
  have hpass : ∀ bw, schwarzSweep A b Tx Tp Sj Sp (dirRows (Sp.size - 1) bw) x = x := by
    intro bw
    apply schwarzSweep_fixed_point
    intro d _ c _; exact hsol _
  unfold K.pySchwarz
  cases sw
  · exact iter_fixed _ _ (hpass false) _
  · exact iter_fixed _ _ (hpass true) _
  · exact iter_fixed _ _ (by simp only; rw [hpass false, hpass true]) _

end PyamgV.ExtC09
