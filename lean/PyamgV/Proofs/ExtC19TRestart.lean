import PyamgV.Proofs.ExtC19TRitz
import PyamgV.Proofs.ExtC19SArnoldiThm

/-! PyamgV (C19, extension E52): **the restart loop of `approximate_spectral_radius`** (`Model/ExtC19TCx.lean`:
`asrCycle`, `asrLoop`, `asr`) in exact arithmetic, scalars = pairs over an ordered field with an exact square root,
verification tolerance of the oracle eigenpairs `vtolSq = 0`.

* `eigOk_isRitz`: a recorded pair that the model accepts with tolerance zero is an exact eigenpair of the leading
  block of `H` with `y != 0` (`ArnF.IsRitz`);
* `asrCycle_spec`: a pass that succeeds from a start vector `!= 0` is the Krylov run `cRun` of that vector, its
  `(theta, y)` is a Ritz pair of that run, `error = H_{m,m-1} y_{m-1}` (the residual coefficient of
  `cmodel_residual`), the new start vector is the Ritz vector `V y` and is `!= 0`;
* `asr_spec`: hence every pass of `asr` (at least one, at most `restart + 1`) is such a run, from a start vector
  `!= 0`: the initial guess in the first pass, the Ritz vector of the dominant Ritz pair of the previous pass
  afterwards; a pass is followed by another one only if it neither converged nor broke down;
* `asr_estimate_le`: **for Hermitian `A` with `|<x, A x>| <= rho <x, x>` every `|theta|` the loop can return is
  `<= rho`**, in particular the returned value `asrRho`. -/
set_option linter.unusedSectionVars false
namespace PyamgV.C19T
open PyamgV.C07 PyamgV.CHerm PyamgV.C19S PyamgV.C07.CH

variable {F : Type} [Field F] [LinearOrder F] [IsStrictOrderedRing F]

/-! ### sums of the model -/

theorem sumN_eq_sum {K : Type} [Field K] (f : Nat → K) : ∀ n, sumN f n = ∑ i ∈ Finset.range n, f i
  | 0 => by simp [sumN]
  | n+1 => by rw [sumN, sumN_eq_sum f n, Finset.sum_range_succ]

theorem ofRe_add (a b : F) : (Cx.ofRe (a + b) : Cx F) = Cx.ofRe a + Cx.ofRe b := by
  apply Cx.ext' <;> simp

/-- `sum conj(g_i) g_i` is the real number `sum |g_i|^2` -/
theorem sumN_sq (g : Nat → Cx F) : ∀ n, sumN (fun i => Cx.conj (g i) * g i) n
    = Cx.ofRe (∑ i ∈ Finset.range n, Cx.normSq (g i))
  | 0 => by simp [sumN]; rfl
  | n+1 => by
    rw [sumN, sumN_sq g n, Finset.sum_range_succ, ofRe_add]
    congr 1
    exact Cx.star_mul_self (g n)

theorem sum_normSq_eq_zero (g : Nat → Cx F) (n : Nat) (h : ∑ i ∈ Finset.range n, Cx.normSq (g i) ≤ 0) :
    ∀ i, i < n → g i = 0 := by
  intro i hi
  have h0 : ∑ i ∈ Finset.range n, Cx.normSq (g i) = 0 :=
    le_antisymm h (Finset.sum_nonneg (fun i _ => Cx.normSq_nonneg _))
  have := (Finset.sum_eq_zero_iff_of_nonneg (fun i _ => Cx.normSq_nonneg (g i))).mp h0 i (Finset.mem_range.2 hi)
  exact Cx.normSq_eq_zero this

theorem sum_normSq_pos (g : Nat → Cx F) (n : Nat) (h : 0 < ∑ i ∈ Finset.range n, Cx.normSq (g i)) :
    ∃ i, i < n ∧ g i ≠ 0 := by
  by_contra hc
  have hc' : ∀ i, i < n → g i = 0 := fun i hi => by
    by_contra hne
    exact hc ⟨i, hi, hne⟩
  have : ∑ i ∈ Finset.range n, Cx.normSq (g i) = 0 := by
    apply Finset.sum_eq_zero
    intro i hi
    rw [hc' i (Finset.mem_range.1 hi)]
    simp [Cx.normSq]
  rw [this] at h
  exact lt_irrefl _ h

/-- **an oracle pair accepted with tolerance zero is an exact eigenpair** of the leading `m x m` block -/
theorem eigOk_isRitz (cols : List (List (Cx F))) (m : Nat) (θ : Cx F) (y : List (Cx F))
    (h : eigOk Cx.conj (Cx.ltC ltF) 0 cols m θ y = true) :
    y.length = m ∧ ArnF.IsRitz m (hEntry cols) θ (fun i => y.getD i 0) := by
  unfold eigOk at h
  simp only [Bool.and_eq_true, beq_iff_eq, Bool.not_eq_eq_eq_not, Bool.not_true] at h
  obtain ⟨⟨h1, h2⟩, h3⟩ := h
  refine ⟨h1, ?_, ?_⟩
  · -- `|y|^2 > 0`
    unfold vecSq at h3
    rw [sumN_sq (fun i => y.getD i 0) m] at h3
    have : (0 : Cx F) = Cx.ofRe 0 := rfl
    rw [this, ltC_ofRe] at h3
    exact sum_normSq_pos _ _ h3
  · -- residual zero
    intro i hi
    have hz : (0 : Cx F) * vecSq Cx.conj m y = Cx.ofRe 0 := by rw [zero_mul]; rfl
    unfold eigResSq at h2
    rw [hz, sumN_sq (fun i => hRow cols m y i - θ * y.getD i 0) m] at h2
    have hle : ∑ i ∈ Finset.range m, Cx.normSq (hRow cols m y i - θ * y.getD i 0) ≤ 0 := by
      by_contra hc
      have := (ltC_ofRe (0 : F) _).2 (not_le.mp hc)
      rw [this] at h2; cases h2
    have := sum_normSq_eq_zero _ _ hle i hi
    rw [sub_eq_zero] at this
    rw [← this, hRow, sumN_eq_sum]

theorem eigAllOk_getD (cols : List (List (Cx F))) (m : Nat) : ∀ (ev : List (Cx F)) (evect : List (List (Cx F))),
    eigAllOk Cx.conj (Cx.ltC ltF) 0 cols m ev evect = true → ∀ i, i < ev.length →
    eigOk Cx.conj (Cx.ltC ltF) 0 cols m (ev.getD i 0) (evect.getD i []) = true
  | [], _, _, i, hi => by simp at hi
  | θ :: ev, [], h, _, _ => by simp [eigAllOk] at h
  | θ :: ev, y :: ys, h, i, hi => by
    simp only [eigAllOk, Bool.and_eq_true] at h
    cases i with
    | zero => simpa using h.1
    | succ i =>
      simp only [List.getD_cons_succ]
      exact eigAllOk_getD cols m ev ys h.2 i (by simpa using hi)

/-! ### `argmax` returns a valid index -/

theorem argmaxGo_lt {K : Type} (lt : K → K → Bool) : ∀ (xs : List K) (i best : Nat) (bv : K),
    best < i → argmaxGo lt xs i best bv < i + xs.length
  | [], i, best, _, h => by simpa [argmaxGo] using h
  | x :: xs, i, best, bv, h => by
    simp only [argmaxGo, List.length_cons]
    split
    · have := argmaxGo_lt lt xs (i + 1) i x (by omega); omega
    · have := argmaxGo_lt lt xs (i + 1) best bv (by omega); omega

theorem argmaxO_lt {K : Type} (lt : K → K → Bool) (xs : List K) (h : xs ≠ []) : argmaxO lt xs < xs.length := by
  cases xs with
  | nil => exact absurd rfl h
  | cons x xs =>
    simp only [argmaxO, List.length_cons]
    have := argmaxGo_lt lt xs 1 0 x (by omega); omega

theorem pickIdx_lt {K : Type} [Add K] (lt : K → K → Bool) (absf : K → K) [OfNat K 0] (tieTol : K) (ev : List K)
    (hint : Option Nat) (idx : Nat) (h : pickIdx lt absf tieTol ev hint = some idx) (hev : ev ≠ []) : idx < ev.length := by
  cases hint with
  | none =>
    simp only [pickIdx, Option.some.injEq] at h
    rw [← h]
    have := argmaxO_lt lt (ev.map absf) (by simpa using hev)
    simpa using this
  | some k =>
    simp only [pickIdx] at h
    split at h
    · rename_i hc
      simp only [Option.some.injEq] at h
      rw [← h]
      simp only [Bool.and_eq_true, decide_eq_true_eq] at hc
      exact hc.1
    · cases h

/-! ### the restart vector is the Ritz vector -/
section restart
variable {V : Type} [AddCommGroup V] [Module (Cx F) V]
variable (A AH M : V →ₗ[Cx F] V) (E : HForm (Cx F) F V) (sqrt : F → F) (t : F)

theorem combO_herm_eq : ∀ (cs : List (Cx F)) (vs : List V) (x : V), cs.length ≤ vs.length →
    combO (Ops.ofHerm A AH M E) x cs vs = x + ∑ j ∈ Finset.range cs.length, cs.getD j 0 • vs.getD j 0
  | [], vs, x, _ => by cases vs <;> simp [combO]
  | c :: cs, [], x, h => by simp at h
  | c :: cs, v :: vs, x, h => by
    have ih := combO_herm_eq cs vs (x + c • v) (by simpa using h)
    simp only [combO, List.length_cons]
    rw [Finset.sum_range_succ']
    simp only [List.getD_cons_succ, List.getD_cons_zero]
    have : (Ops.ofHerm A AH M E).add x ((Ops.ofHerm A AH M E).smul c v) = x + c • v := rfl
    rw [this, ih]; abel

theorem rvO_herm_eq (ys : List (Cx F)) (vs : List V) (hl : ys.length ≤ vs.length) (hne : ys ≠ []) :
    rvO (Ops.ofHerm A AH M E) ys vs = some (∑ j ∈ Finset.range ys.length, ys.getD j 0 • vs.getD j 0) := by
  cases ys with
  | nil => exact absurd rfl hne
  | cons y ys =>
    cases vs with
    | nil => simp at hl
    | cons v vs =>
      simp only [rvO, List.length_cons]
      rw [combO_herm_eq A AH M E ys vs _ (by simpa using hl), Finset.sum_range_succ']
      simp only [List.getD_cons_succ, List.getD_cons_zero]
      have : (Ops.ofHerm A AH M E).smul y v = y • v := rfl
      rw [this, add_comm]

theorem getD_dropLast (vs : List V) (j : Nat) (hj : j + 1 < vs.length) : vs.dropLast.getD j 0 = vs.getD j 0 := by
  rw [List.getD_eq_getElem?_getD, List.getD_eq_getElem?_getD, List.dropLast_eq_take, List.getElem?_take]
  simp [show j < vs.length - 1 by omega]

/-- the model's parameters in exact arithmetic -/
abbrev asrCycleC (tol tieTol : Cx F) (n maxiter : Nat) (v0 : V) (ev : List (Cx F)) (evect : List (List (Cx F)))
    (hint : Option Nat) :=
  asrCycle (Ops.ofHerm A AH M E) mDiv (Cx.sqrtC sqrt) (Cx.ltC ltF) (Cx.iszC iszF) Cx.conj (Cx.absC sqrt)
    (Cx.ofRe t) tol 0 tieTol n maxiter v0 ev evect hint

/-- what a successful pass from `w` is -/
structure CycSpec (tol : Cx F) (n maxiter : Nat) (w : V) (c : Cyc (Cx F) V) : Prop where
  start_ne : w ≠ 0
  run : c.st = cRun A AH M E sqrt t w (min n maxiter)
  passes : min n maxiter ≠ 0
  ritz : ArnF.IsRitz c.st.cols.length (hEntry c.st.cols) c.theta (fun i => c.y.getD i 0)
  err : c.err = hEntry c.st.cols c.st.cols.length (c.st.cols.length - 1) * c.y.getD (c.st.cols.length - 1) 0
  next : c.next = ArnF.rv c.st.cols.length (basisOf c.st) (fun i => c.y.getD i 0)
  next_ne : c.next ≠ 0
  conv : c.conv = Cx.ltC ltF (Cx.absC sqrt c.err / Cx.absC sqrt c.theta) tol

variable {E sqrt t}

theorem asrCycle_spec (hx0 : ∀ w : V, w ≠ 0 → ExactC E sqrt t w) (tol tieTol : Cx F) (n maxiter : Nat) (v0 : V)
    (hv0 : v0 ≠ 0) (ev : List (Cx F)) (evect : List (List (Cx F))) (hint : Option Nat) (c : Cyc (Cx F) V)
    (h : asrCycleC A AH M E sqrt t tol tieTol n maxiter v0 ev evect hint = .ok c) :
    CycSpec A AH M E sqrt t tol n maxiter v0 c := by
  unfold asrCycleC asrCycle at h
  rw [approxEig_eq_run] at h
  by_cases hm : min n maxiter = 0
  · rw [if_pos hm] at h; cases h
  · rw [if_neg hm] at h
    simp only at h
    have hrun : aeRun (Ops.ofHerm A AH M E) mDiv (Cx.sqrtC sqrt) (Cx.ltC ltF) (Cx.iszC iszF) (Cx.ofRe t) false v0
        (min n maxiter) = cRun A AH M E sqrt t v0 (min n maxiter) := rfl
    rw [hrun] at h
    generalize hs : cRun A AH M E sqrt t v0 (min n maxiter) = s at h
    have hx := hx0 v0 hv0
    have hF : ArnFH A E s.cols.length (basisOf s) (hEntry s.cols) := by rw [← hs]; exact cmodel_F A AH M hx _
    have hlen : s.vs.length = s.cols.length + 1 := by rw [← hs]; exact (cmodel_orthonormal A AH M hx _).2.2.2
    by_cases h1 : ev.length ≠ s.cols.length
    · rw [if_pos h1] at h; cases h
    · rw [if_neg h1] at h
      have h1' : ev.length = s.cols.length := not_not.mp h1
      by_cases h2 : (!eigAllOk Cx.conj (Cx.ltC ltF) 0 s.cols s.cols.length ev evect) = true
      · rw [if_pos h2] at h; cases h
      · rw [if_neg h2] at h
        have h2' : eigAllOk Cx.conj (Cx.ltC ltF) 0 s.cols s.cols.length ev evect = true := by simpa using h2
        cases hidx : pickIdx (Cx.ltC ltF) (Cx.absC sqrt) tieTol ev hint with
        | none => rw [hidx] at h; cases h
        | some idx =>
        rw [hidx] at h
        simp only at h
        -- the oracle is not empty: otherwise there is no restart vector
        by_cases hev : ev = []
        · subst hev
          have hy : evect.getD idx [] = [] := by
            cases evect with
            | nil => simp
            | cons a b => simp [eigAllOk] at h2'
          rw [hy] at h
          simp only [rvO] at h
          cases h
        · have hi : idx < ev.length := pickIdx_lt _ _ _ _ _ _ hidx hev
          obtain ⟨hyl, hritz⟩ := eigOk_isRitz s.cols s.cols.length _ _ (eigAllOk_getD s.cols s.cols.length ev evect h2' idx hi)
          have hmpos : 1 ≤ s.cols.length := by rw [← h1']; omega
          have hyne : evect.getD idx [] ≠ [] := by
            intro hc; rw [hc] at hyl; simp at hyl; omega
          have hrv := rvO_herm_eq A AH M E (evect.getD idx []) s.vs.dropLast
            (by rw [List.length_dropLast, hlen, hyl]; omega) hyne
          rw [hrv] at h
          simp only [Except.ok.injEq] at h
          have hnext : (∑ j ∈ Finset.range (evect.getD idx []).length, (evect.getD idx []).getD j 0 • s.vs.dropLast.getD j 0)
              = ArnF.rv s.cols.length (basisOf s) (fun i => (evect.getD idx []).getD i 0) := by
            rw [hyl]
            unfold ArnF.rv basisOf
            refine Finset.sum_congr rfl (fun j hj => ?_)
            rw [getD_dropLast s.vs j (by have := Finset.mem_range.1 hj; omega)]
          subst h
          refine ⟨hv0, hs.symm, hm, hritz, rfl, hnext, ?_, rfl⟩
          simp only
          rw [hnext]
          exact hF.rv_ne hritz

/-! ### the loop -/

abbrev asrLoopC (tol tieTol : Cx F) (n maxiter : Nat) :=
  asrLoop (Ops.ofHerm A AH M E) mDiv (Cx.sqrtC sqrt) (Cx.ltC ltF) (Cx.iszC iszF) Cx.conj (Cx.absC sqrt)
    (Cx.ofRe t) tol 0 tieTol n maxiter

/-- the passes of a successful loop: each is a run from a start vector `!= 0`; consecutive passes are linked by the
restart vector, and only the last one may have converged or broken down -/
inductive Chain (tol : Cx F) (n maxiter : Nat) : V → List (Cyc (Cx F) V) → Prop
  | last (w : V) (c : Cyc (Cx F) V) : CycSpec A AH M E sqrt t tol n maxiter w c → Chain tol n maxiter w [c]
  | cons (w : V) (c : Cyc (Cx F) V) (cs : List (Cyc (Cx F) V)) : CycSpec A AH M E sqrt t tol n maxiter w c →
      c.conv = false → c.st.brk = false → Chain tol n maxiter c.next cs → Chain tol n maxiter w (c :: cs)

theorem Chain.all {tol : Cx F} {n maxiter : Nat} {w : V} {cs : List (Cyc (Cx F) V)}
    (h : Chain A AH M (E := E) (sqrt := sqrt) (t := t) tol n maxiter w cs) :
    cs ≠ [] ∧ ∀ c ∈ cs, ∃ w', CycSpec A AH M E sqrt t tol n maxiter w' c := by
  induction h with
  | last w c hc => exact ⟨by simp, fun c' hc' => by simp at hc'; subst hc'; exact ⟨w, hc⟩⟩
  | cons w c cs hc _ _ _ ih =>
    refine ⟨by simp, fun c' hc' => ?_⟩
    rcases List.mem_cons.1 hc' with rfl | hm
    · exact ⟨w, hc⟩
    · exact ih.2 c' hm

theorem Chain.length_le {tol : Cx F} {n maxiter : Nat} {w : V} {cs : List (Cyc (Cx F) V)}
    (h : Chain A AH M (E := E) (sqrt := sqrt) (t := t) tol n maxiter w cs) : 1 ≤ cs.length := by
  cases h <;> simp

theorem asrLoop_spec (hx0 : ∀ w : V, w ≠ 0 → ExactC E sqrt t w) (tol tieTol : Cx F) (n maxiter : Nat) :
    ∀ (f : Nat) (v0 : V) (oracle : List (List (Cx F) × List (List (Cx F)) × Option Nat)) (acc cs : List (Cyc (Cx F) V)),
    v0 ≠ 0 → asrLoopC A AH M (E := E) (sqrt := sqrt) (t := t) tol tieTol n maxiter f v0 oracle acc = .ok cs →
    (f = 0 ∧ cs = acc) ∨
      ∃ tl, cs = acc ++ tl ∧ tl.length ≤ f ∧ Chain A AH M (E := E) (sqrt := sqrt) (t := t) tol n maxiter v0 tl := by
  intro f
  induction f with
  | zero =>
    intro v0 oracle acc cs _ h
    simp only [asrLoopC, asrLoop, Except.ok.injEq] at h
    exact Or.inl ⟨rfl, h.symm⟩
  | succ f ih =>
    intro v0 oracle acc cs hv0 h
    right
    cases oracle with
    | nil => simp only [asrLoopC, asrLoop] at h; cases h
    | cons p rest =>
      obtain ⟨ev, evect, hint⟩ := p
      simp only [asrLoopC, asrLoop] at h
      cases hc : asrCycle (Ops.ofHerm A AH M E) mDiv (Cx.sqrtC sqrt) (Cx.ltC ltF) (Cx.iszC iszF) Cx.conj (Cx.absC sqrt)
          (Cx.ofRe t) tol 0 tieTol n maxiter v0 ev evect hint with
      | error e => rw [hc] at h; cases h
      | ok c =>
        rw [hc] at h
        simp only at h
        have hspec := asrCycle_spec A AH M hx0 tol tieTol n maxiter v0 hv0 ev evect hint c hc
        by_cases hstop : (c.conv || c.st.brk) = true
        · rw [if_pos hstop] at h
          simp only [Except.ok.injEq] at h
          exact ⟨[c], h.symm, by simp, Chain.last v0 c hspec⟩
        · rw [if_neg hstop] at h
          have hstop' : c.conv = false ∧ c.st.brk = false := by
            simpa [Bool.or_eq_false_iff] using hstop
          rcases ih c.next rest (acc ++ [c]) cs hspec.next_ne h with ⟨hf, hcs⟩ | ⟨tl, hcs, hlen, hch⟩
          · exact ⟨[c], hcs, by simp, Chain.last v0 c hspec⟩
          · refine ⟨c :: tl, by rw [hcs]; simp, by simp; omega, Chain.cons v0 c tl hspec hstop'.1 hstop'.2 hch⟩

/-- **`approximate_spectral_radius` in exact arithmetic**: between 1 and `restart + 1` passes, each the Krylov run of
a start vector `!= 0` (the initial guess, then the dominant Ritz vector of the previous pass), each `theta` a Ritz
value of its pass -/
theorem asr_spec (hx0 : ∀ w : V, w ≠ 0 → ExactC E sqrt t w) (tol tieTol : Cx F) (n maxiter restart : Nat) (v0 : V)
    (hv0 : v0 ≠ 0) (oracle : List (List (Cx F) × List (List (Cx F)) × Option Nat)) (cs : List (Cyc (Cx F) V))
    (h : asr (Ops.ofHerm A AH M E) mDiv (Cx.sqrtC sqrt) (Cx.ltC ltF) (Cx.iszC iszF) Cx.conj (Cx.absC sqrt)
      (Cx.ofRe t) tol 0 tieTol n maxiter restart v0 oracle = .ok cs) :
    1 ≤ cs.length ∧ cs.length ≤ restart + 1 ∧
      Chain A AH M (E := E) (sqrt := sqrt) (t := t) tol n maxiter v0 cs := by
  unfold asr at h
  rcases asrLoop_spec A AH M hx0 tol tieTol n maxiter (restart + 1) v0 oracle [] cs hv0 h with ⟨hf, _⟩ | ⟨tl, hcs, hlen, hch⟩
  · omega
  · simp only [List.nil_append] at hcs
    subst hcs
    exact ⟨hch.length_le, hlen, hch⟩

/-- **every estimate the loop can return is `|theta|` of a Ritz pair of one of its passes, hence `<= rho` for a
Hermitian operator** with `|<x, A x>| <= rho <x, x>` -/
theorem asr_estimate_le (hx0 : ∀ w : V, w ≠ 0 → ExactC E sqrt t w) (hs0 : ∀ a, 0 ≤ sqrt a)
    (hA : ∀ x y, E.h (A x) y = E.h x (A y)) (ρ : F) (hray : ∀ x, |(E.h x (A x)).re| ≤ ρ * (E.h x x).re)
    (tol tieTol : Cx F) (n maxiter restart : Nat) (v0 : V) (hv0 : v0 ≠ 0)
    (oracle : List (List (Cx F) × List (List (Cx F)) × Option Nat)) (cs : List (Cyc (Cx F) V))
    (h : asr (Ops.ofHerm A AH M E) mDiv (Cx.sqrtC sqrt) (Cx.ltC ltF) (Cx.iszC iszF) Cx.conj (Cx.absC sqrt)
      (Cx.ofRe t) tol 0 tieTol n maxiter restart v0 oracle = .ok cs) :
    (∀ c ∈ cs, c.theta.im = 0 ∧ |c.theta.re| ≤ ρ ∧ (Cx.absC sqrt c.theta).re ≤ ρ) ∧
    ∃ r, asrRho (Cx.absC sqrt) cs = some r ∧ r.re ≤ ρ ∧ r.im = 0 := by
  obtain ⟨h1, _, hch⟩ := asr_spec A AH M hx0 tol tieTol n maxiter restart v0 hv0 oracle cs h
  have hall : ∀ c ∈ cs, c.theta.im = 0 ∧ |c.theta.re| ≤ ρ ∧ (Cx.absC sqrt c.theta).re ≤ ρ := by
    intro c hc
    obtain ⟨w, hw⟩ := hch.all.2 c hc
    have hx := hx0 w hw.start_ne
    have hr := hw.ritz
    rw [hw.run] at hr
    obtain ⟨a, b⟩ := cmodel_ritz_abs_le A AH M hx hA _ ρ hray c.theta _ hr
    exact ⟨a, b, cmodel_estimate_le A AH M hx hs0 hA _ ρ hray c.theta _ hr⟩
  refine ⟨hall, ?_⟩
  unfold asrRho
  cases hl : cs.getLast? with
  | none =>
    rw [List.getLast?_eq_none_iff] at hl
    subst hl; simp at h1
  | some c =>
    refine ⟨_, rfl, (hall c (List.mem_of_getLast? hl)).2.2, rfl⟩

end restart

#print axioms eigOk_isRitz
#print axioms asr_spec
#print axioms asr_estimate_le
end PyamgV.C19T
