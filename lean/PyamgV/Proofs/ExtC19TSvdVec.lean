import PyamgV.Proofs.ExtC19TSvd

/-! PyamgV (C19, extension E52): the certificate theorem of `Proofs/ExtC19TSvd.lean` read on `Fin n -> Cx F` with the
matrix `toMat? n A` the driver builds, and the final statement **`condest <= cond`** between the two executable models:
for the same matrix (given by rows as a list), a `condest` run of the model that succeeds returns a value `<=` the value
`max sigma / min sigma` of every accepted singular-value certificate with positive `min sigma`
(`cvec_condest_le_condCert`). -/
set_option linter.unusedSectionVars false
namespace PyamgV.C19T
open PyamgV.C07 PyamgV.CHerm PyamgV.C19S PyamgV.C07.CH

variable {F : Type} [Field F] [LinearOrder F] [IsStrictOrderedRing F]

/-! ### entries of `toVec?` / `toMat?` -/

theorem toVec?_getD {K : Type} [OfNat K 0] {n : Nat} (l : List K) (v : Vector K n) (h : toVec? n l = some v)
    (i : Nat) (hi : i < n) : v[i] = l.getD i 0 := by
  unfold toVec? at h
  split at h
  · rename_i hs
    simp only [Option.some.injEq] at h
    subst h
    have hl : i < l.length := by
      have : l.toArray.size = l.length := by simp
      omega
    simp [List.getElem?_eq_getElem hl]
  · cases h

theorem mapM_some_getElem {α β : Type} (f : α → Option β) : ∀ (l : List α) (rs : List β), l.mapM f = some rs →
    rs.length = l.length ∧ ∀ i (h1 : i < l.length) (h2 : i < rs.length), f l[i] = some rs[i]
  | [], rs, h => by
    simp at h; subst h; simp
  | a :: as, rs, h => by
    rw [List.mapM_cons] at h
    cases hfa : f a with
    | none => rw [hfa] at h; simp at h
    | some b =>
      rw [hfa] at h
      cases hm : as.mapM f with
      | none => rw [hm] at h; simp at h
      | some bs =>
        rw [hm] at h
        simp at h
        subst h
        obtain ⟨i1, i2⟩ := mapM_some_getElem f as bs hm
        refine ⟨by simp [i1], ?_⟩
        intro i h1 h2
        cases i with
        | zero => simpa using hfa
        | succ i => simpa using i2 i (by simpa using h1) (by simpa using h2)

theorem toMat?_entry {n : Nat} (A : List (List (Cx F))) (Am : Vector (Vector (Cx F) n) n)
    (h : toMat? n A = some Am) (i j : Nat) (hi : i < n) (hj : j < n) : Am[i][j] = aEnt A i j := by
  unfold toMat? at h
  split at h
  · cases h
  · rename_i rows hrows
    obtain ⟨hl, hget⟩ := mapM_some_getElem (toVec? n) A rows hrows
    have hrow : Am[i] = rows.getD i (Vector.replicate n 0) := by
      unfold toVec? at h
      split at h
      · rename_i hs
        simp only [Option.some.injEq] at h
        subst h
        have hl' : i < rows.length := by
          have : rows.toArray.size = rows.length := by simp
          omega
        simp [List.getElem?_eq_getElem hl']
      · cases h
    have hsz : rows.length = n := by
      unfold toVec? at h
      split at h
      · rename_i hs; simpa using hs
      · cases h
    have hi1 : i < A.length := by omega
    have hi2 : i < rows.length := by omega
    have := hget i hi1 hi2
    rw [hrow, List.getD_eq_getElem _ _ hi2]
    rw [toVec?_getD _ _ this j hj]
    unfold aEnt
    rw [List.getD_eq_getElem _ _ hi1]

/-! ### `Fin n` functions as functions on `Nat` -/

def extN {n : Nat} (x : Fin n → Cx F) : Nat → Cx F := fun i => if h : i < n then x ⟨i, h⟩ else 0

theorem extN_fin {n : Nat} (x : Fin n → Cx F) (i : Fin n) : extN x i = x i := by
  simp [extN]

theorem sum_range_extN {n : Nat} {β : Type} [AddCommMonoid β] (x : Fin n → Cx F) (g : Nat → Cx F → β) :
    ∑ i ∈ Finset.range n, g i (extN x i) = ∑ i : Fin n, g i (x i) := by
  rw [Finset.sum_range]
  exact Finset.sum_congr rfl (fun i _ => by rw [extN_fin])

theorem cdot_self_re {n : Nat} (x : Fin n → Cx F) :
    (cdot n x x).re = ∑ r ∈ Finset.range n, Cx.normSq (extN x r) := by
  rw [sum_range_extN x (fun _ z => Cx.normSq z)]
  show ((dotH (cxRe (F := F)) n).h x x).re = _
  rw [dotH_h, ← Cx.reHom_apply, map_sum]
  exact Finset.sum_congr rfl (fun i _ => Cx.star_mul_self_re (x i))

theorem linOf_extN {n : Nat} (A : List (List (Cx F))) (Am : Vector (Vector (Cx F) n) n)
    (h : toMat? n A = some Am) (x : Fin n → Cx F) (r : Nat) :
    extN (linOf Am x) r = if r < n then aMul n A (extN x) r else 0 := by
  by_cases hr : r < n
  · rw [if_pos hr]
    unfold extN aMul
    rw [dif_pos hr]
    simp only [linOf, Matrix.mulVecLin_apply, Matrix.mulVec, dotProduct, matOf]
    rw [Finset.sum_range]
    refine Finset.sum_congr rfl (fun s _ => ?_)
    rw [dif_pos s.2]
    have := toMat?_entry A Am h r s hr s.2
    simp only [Fin.getElem_fin]
    rw [this]
  · rw [if_neg hr]; simp [extN, hr]

theorem cdot_lin_re {n : Nat} (A : List (List (Cx F))) (Am : Vector (Vector (Cx F) n) n)
    (h : toMat? n A = some Am) (x : Fin n → Cx F) :
    (cdot n (linOf Am x) (linOf Am x)).re = ∑ r ∈ Finset.range n, Cx.normSq (aMul n A (extN x) r) := by
  rw [cdot_self_re]
  refine Finset.sum_congr rfl (fun r hr => ?_)
  rw [linOf_extN A Am h x r, if_pos (Finset.mem_range.1 hr)]

/-- **accepted certificate => Rayleigh bounds of `A^H A` on `(Cx F)^n`** for the matrix the driver builds -/
theorem condCert_bounds {n : Nat} (A us vs : List (List (Cx F))) (sig : List (Cx F)) (κ : Cx F)
    (Am : Vector (Vector (Cx F) n) n) (hA : toMat? n A = some Am)
    (h : condCert Cx.conj (Cx.ltC ltF) 0 n A us vs sig = .ok κ) (hpos : 0 < (minO (Cx.ltC ltF) sig).re) :
    κ = Cx.ofRe ((maxO (Cx.ltC ltF) sig).re / (minO (Cx.ltC ltF) sig).re) ∧
    (∀ x : Fin n → Cx F,
      (minO (Cx.ltC ltF) sig).re ^ 2 * (cdot n x x).re ≤ (cdot n (linOf Am x) (linOf Am x)).re) ∧
    (∀ x : Fin n → Cx F,
      (cdot n (linOf Am x) (linOf Am x)).re ≤ (maxO (Cx.ltC ltF) sig).re ^ 2 * (cdot n x x).re) := by
  obtain ⟨h1, h2⟩ := condCert_spec n A us vs sig κ h hpos
  refine ⟨h1, fun x => ?_, fun x => ?_⟩
  · rw [cdot_lin_re A Am hA, cdot_self_re]; exact (h2 (extN x)).1
  · rw [cdot_lin_re A Am hA, cdot_self_re]; exact (h2 (extN x)).2

/-- **`condest <= cond` between the two executable models** (exact arithmetic, tolerance zero): for the matrix `A` (rows),
every accepted singular-value certificate with positive smallest `sigma` gives `kappa = max sigma / min sigma`, and the
value `c` of every successful `condest` run (general branch, any `maxiter`, any start vector `!= 0`, any verified oracle)
is a real number with `c <= kappa` -/
theorem cvec_condest_le_condCert {n : Nat} (sqrt : F → F) (t : F)
    (hsq : ∀ a, 0 ≤ a → sqrt a * sqrt a = a) (hs0 : ∀ a, 0 ≤ sqrt a) (htol : 0 < t)
    (A us vs : List (List (Cx F))) (sig : List (Cx F)) (κ : Cx F)
    (Am : Vector (Vector (Cx F) n) n) (hA : toMat? n A = some Am)
    (hcert : condCert Cx.conj (Cx.ltC ltF) 0 n A us vs sig = .ok κ) (hpos : 0 < (minO (Cx.ltC ltF) sig).re)
    (maxiter : Nat) (v0 : Vector (Cx F) n) (hv0 : toFn v0 ≠ 0) (ev : List (Cx F)) (evect : List (List (Cx F)))
    (c mx mn : Cx F) (s : AeSt (Cx F) (Vector (Cx F) n))
    (h : cvecCondest Am sqrt t maxiter v0 ev evect = .ok (c, mx, mn, s)) :
    c.im = 0 ∧ κ.im = 0 ∧ c.re ≤ κ.re := by
  obtain ⟨hk, hlo, hhi⟩ := condCert_bounds A us vs sig κ Am hA hcert hpos
  have hmax : 0 ≤ (maxO (Cx.ltC ltF) sig).re := by
    -- `min sigma <= max sigma`: both bound `|A x|^2 / |x|^2` of the start vector
    have hne : sig ≠ [] := by
      intro hs; rw [hs] at hpos; simp [minO] at hpos
    exact le_trans (le_of_lt hpos) (le_trans (minO_le sig _ (maxO_mem (Cx.ltC ltF) sig hne)) (le_refl _))
  obtain ⟨c1, c2, _⟩ := cvec_condest_le_cond Am sqrt t hsq hs0 htol _ _ hpos hmax hlo hhi maxiter v0 hv0 ev evect
    c mx mn s h
  rw [hk]
  exact ⟨c1, rfl, c2⟩

/-- the instances the driver runs are these definitions -/
theorem condCertCx_eq : condCertCx (F := F) ltF = condCert Cx.conj (Cx.ltC ltF) := rfl

#print axioms toMat?_entry
#print axioms condCert_bounds
#print axioms cvec_condest_le_condCert
end PyamgV.C19T
