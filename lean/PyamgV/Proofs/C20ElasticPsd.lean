import Mathlib.Tactic.Positivity
import PyamgV.Proofs.C20Elastic

/-! PyamgV (C20): the Q1 element matrix of a rectangle is positive semi-definite when `mu ≥ 0` and
`lame + mu ≥ 0` (every `E > 0`, `-1 < nu < 1/2`): `yᵀ K y` is the tensor Simpson sum (exact for the
biquadratic energy density) of `(lame+mu)(u_x+v_y)² + mu (u_x-v_y)² + mu (u_y+v_x)²`. -/
namespace PyamgV.C20

/-- energy density of the bilinear displacement with nodal values `y` at the reference point `(s, t)` -/
def density (DX DY lame mu : Rat) (y : Nat → Rat) (s t : Rat) : Rat :=
  let ux := ((y 2 - y 0) * (1 - t) + (y 4 - y 6) * t) / DX
  let uy := ((y 6 - y 0) * (1 - s) + (y 4 - y 2) * s) / DY
  let vx := ((y 3 - y 1) * (1 - t) + (y 5 - y 7) * t) / DX
  let vy := ((y 7 - y 1) * (1 - s) + (y 5 - y 3) * s) / DY
  (lame + mu) * (ux + vy) ^ 2 + mu * (ux - vy) ^ 2 + mu * (uy + vx) ^ 2

theorem density_nonneg (DX DY lame mu : Rat) (hmu : 0 ≤ mu) (hl : 0 ≤ lame + mu) (y : Nat → Rat) (s t : Rat) :
    0 ≤ density DX DY lame mu y s t := by
  unfold density
  exact add_nonneg (add_nonneg (mul_nonneg hl (sq_nonneg _)) (mul_nonneg hmu (sq_nonneg _))) (mul_nonneg hmu (sq_nonneg _))

/-- Simpson nodes and weights on `[0, 1]` -/
def simpson : List (Rat × Rat) := [(0, 1 / 6), (1 / 2, 4 / 6), (1, 1 / 6)]

theorem kloc_sos (DX DY lame mu : Rat) (hDX : DX ≠ 0) (hDY : DY ≠ 0) (y : Nat → Rat) :
    ((List.range 8).map fun a => ((List.range 8).map fun b =>
        y b * kloc (M2.inv ⟨DX, 0, 0, DY⟩) lame mu a b * y a).sum).sum =
      DX * DY * (simpson.map fun p => (simpson.map fun q => p.2 * q.2 * density DX DY lame mu y p.1 q.1).sum).sum := by
  rw [range8]
  simp [kloc, blockE, r11, r12, r22, tab, M2.mul, M2.tr, M2.inv, M2.det, simpson, density]
  field_simp
  ring

theorem sum_map_nonneg {α : Type} (l : List α) (f : α → Rat) (h : ∀ e ∈ l, 0 ≤ f e) : 0 ≤ (l.map f).sum := by
  induction l with
  | nil => simp
  | cons a l ih =>
    simp only [List.map_cons, List.sum_cons]
    exact add_nonneg (h a (by simp)) (ih (fun e he => h e (by simp [he])))

/-- **the element matrix is positive semi-definite** -/
theorem kloc_psd (DX DY lame mu : Rat) (hDX : 0 < DX) (hDY : 0 < DY) (hmu : 0 ≤ mu) (hl : 0 ≤ lame + mu) (y : Nat → Rat) :
    0 ≤ ((List.range 8).map fun a => ((List.range 8).map fun b =>
        y b * kloc (M2.inv ⟨DX, 0, 0, DY⟩) lame mu a b * y a).sum).sum := by
  rw [kloc_sos DX DY lame mu (ne_of_gt hDX) (ne_of_gt hDY)]
  apply mul_nonneg (le_of_lt (mul_pos hDX hDY))
  apply sum_map_nonneg
  intro p hp
  apply sum_map_nonneg
  intro q hq
  have hp2 : 0 ≤ p.2 := by
    simp only [simpson, List.mem_cons, List.not_mem_nil, or_false] at hp
    rcases hp with rfl | rfl | rfl <;> norm_num
  have hq2 : 0 ≤ q.2 := by
    simp only [simpson, List.mem_cons, List.not_mem_nil, or_false] at hq
    rcases hq with rfl | rfl | rfl <;> norm_num
  exact mul_nonneg (mul_nonneg hp2 hq2) (density_nonneg DX DY lame mu hmu hl y _ _)

end PyamgV.C20
