import PyamgV.Proofs.MisPar

/-! PyamgV: termination of the parallel MIS sweep — every pass that starts with an active node
decides at least one (the lexicographic maximum of (weight, index) among the active nodes), and
decided nodes never become active again. Weights in a linear order. Core only. -/
namespace PyamgV

variable {W : Type} [LT W] [DecidableRel (α := W) (· < ·)] [DecidableEq W]

/-- decided nodes stay decided, sizes are kept -/
theorem parStep_mono (G : Graph) (act C F : Int) (hCA : C ≠ act) (hFA : F ≠ act) (y : Nat → W)
    (x : Array Int) (i m : Nat) (hb : ∀ j ∈ G.adj i, j < x.size) (hm : rd x m ≠ act) :
    rd (parStep G act C F y x i) m ≠ act := by
  unfold parStep
  by_cases hx : rd x i ≠ act
  · simp only [hx, ne_eq, not_false_eq_true, if_true]; exact hm
  · simp only [hx, if_false]
    cases hs : scanP act C x y i (G.adj i) with
    | some b =>
      cases b with
      | false => exact hm
      | true =>
        simp only [rd_wr]; split
        · exact hFA
        · exact hm
    | none =>
      obtain ⟨hsz, hsp⟩ := misInner_spec act F hFA (G.adj i) x hb
      simp only [rd_wr]; split
      · exact hCA
      · rw [hsp m]; split
        · exact hFA
        · exact hm

theorem parStep_size (G : Graph) (act C F : Int) (hFA : F ≠ act) (y : Nat → W)
    (x : Array Int) (i : Nat) (hb : ∀ j ∈ G.adj i, j < x.size) :
    (parStep G act C F y x i).size = x.size := by
  unfold parStep
  by_cases hx : rd x i ≠ act
  · simp [hx]
  · simp only [hx, if_false]
    cases hs : scanP act C x y i (G.adj i) with
    | some b => cases b <;> simp
    | none =>
      obtain ⟨hsz, _⟩ := misInner_spec act F hFA (G.adj i) x hb
      simp [hsz]

/-- if every active neighbour is lexicographically smaller, the scan is not blocked -/
theorem scanP_not_blocked (hirr : ∀ a : W, ¬ a < a) (hasym : ∀ a b : W, a < b → ¬ b < a)
    (act C : Int) (x : Array Int) (y : Nat → W) (i : Nat) :
    ∀ l, (∀ j ∈ l, rd x j = act → (y j < y i ∨ (y j = y i ∧ j ≤ i))) →
      scanP act C x y i l ≠ some false := by
  intro l; induction l with
  | nil => intro _; simp [scanP]
  | cons j js ih =>
    intro h
    simp only [scanP]
    split
    · simp
    · split
      · rename_i hja
        have := h j (by simp) hja
        have h1 : ¬ (y i < y j) := by
          rcases this with h | h
          · exact hasym _ _ h
          · rw [h.1]; exact hirr _
        have h2 : ¬ (y j = y i ∧ j > i) := by
          rintro ⟨he, hg⟩
          rcases this with h | h
          · rw [he] at h; exact hirr _ h
          · omega
        simp only [h1, h2, if_false]
        exact ih (fun k hk => h k (by simp [hk]))
      · exact ih (fun k hk => h k (by simp [hk]))

/-- the node visited is decided by its step unless it is blocked -/
theorem parStep_decides (hirr : ∀ a : W, ¬ a < a) (hasym : ∀ a b : W, a < b → ¬ b < a) (G : Graph) (act C F : Int) (hCA : C ≠ act) (hFA : F ≠ act) (y : Nat → W)
    (x : Array Int) (i : Nat) (hi : i < x.size) (hb : ∀ j ∈ G.adj i, j < x.size)
    (hmax : ∀ j ∈ G.adj i, rd x j = act → (y j < y i ∨ (y j = y i ∧ j ≤ i))) :
    rd (parStep G act C F y x i) i ≠ act := by
  unfold parStep
  by_cases hx : rd x i ≠ act
  · simpa [hx] using hx
  · simp only [hx, if_false]
    have hnb := scanP_not_blocked hirr hasym act C x y i (G.adj i) hmax
    cases hs : scanP act C x y i (G.adj i) with
    | some b =>
      cases b with
      | false => exact absurd hs hnb
      | true => simp [rd_wr, hi, hFA]
    | none =>
      obtain ⟨hsz, _⟩ := misInner_spec act F hFA (G.adj i) x hb
      simp [rd_wr, hsz, hi, hCA]

#print axioms parStep_decides
end PyamgV
