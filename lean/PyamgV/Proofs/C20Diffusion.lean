import Mathlib.Algebra.Order.Field.Rat
import Mathlib.Tactic.Ring
import Mathlib.Tactic.FieldSimp
import Mathlib.Tactic.Linarith
import PyamgV.Model.C20Gallery

/-! PyamgV (C20): the rotated anisotropic diffusion stencils sum to zero — for every anisotropy
ratio and every pair `(C, S)` (FE, 3d FD: no relation between `C` and `S` needed; 2d FD: `C² + S² = 1`). -/
namespace PyamgV.C20

theorem diffusion2dFE_sum (eps C S : Rat) : (diffusion2d true eps C S).sum = 0 := by
  simp only [diffusion2d, if_true, List.sum_cons, List.sum_nil]
  ring

theorem diffusion2dFD_sum (eps C S : Rat) (h : C * C + S * S = 1) : (diffusion2d false eps C S).sum = 0 := by
  have : S * S = 1 - C * C := by linarith
  simp only [diffusion2d, Bool.false_eq_true, ↓reduceIte, List.sum_cons, List.sum_nil]
  rw [this]; ring

/-- the 2d stencils are invariant under the point reflection `(i, j) ↦ (2 - i, 2 - j)`: the operator
`stencil_grid` builds from them is symmetric (`stencilGrid_symm`) -/
theorem diffusion2d_reflect (fe : Bool) (eps C S : Rat) :
    (diffusion2d fe eps C S).reverse = diffusion2d fe eps C S := by
  cases fe <;> simp [diffusion2d]

theorem diffusion3dOfTensor_sum (D : List Rat) : (diffusion3dOfTensor D).sum = 0 := by
  simp [diffusion3dOfTensor, accum27, List.range_succ, List.filter]
  ring

theorem diffusion3dFD_sum (epsy epsz cphi sphi cth sth cpsi spsi : Rat) :
    (diffusion3dFD epsy epsz cphi sphi cth sth cpsi spsi).sum = 0 := diffusion3dOfTensor_sum _

end PyamgV.C20
