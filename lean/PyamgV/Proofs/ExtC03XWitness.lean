import PyamgV.Proofs.ExtC03XThm

/-! PyamgV (extension E38, C03): concrete recorded hierarchies for the extended cycle model, evaluated by the kernel
(`decide +kernel`: no extra axioms): the hypothesis `AllOK` of the theorems is satisfiable for every smoother family, is
violated by a stale matrix copy and by a wrong inverse block, and the recorded calls are not trivial. -/
namespace PyamgV.C03X.Witness
open PyamgV.C03 PyamgV.C03X

/-- `[[2,-1],[-1,2]]` dense, as CSR / CSC arrays and as one `2 × 2` BSR block with its exact inverse -/
def A2 : Mat := [[2, -1], [-1, 2]]
def M2 : K.Csr Rat := ⟨2, #[0, 2, 4], #[0, 1, 0, 1], #[2, -1, -1, 2]⟩
def B2 : K.Bsr Rat := ⟨1, 2, #[0, 1], #[0], #[2, -1, -1, 2]⟩
def Dinv2 : Array Rat := #[2/3, 1/3, 1/3, 2/3]
def P2 : Mat := [[1], [1]]
def R2 : Mat := [[1, 1]]
/-- exact Galerkin coarse solve: `(R A P)⁻¹ = 1/2` -/
def S2 : Mat := [[1/2]]

/-- Chebyshev-like polynomial pre-smoother, symmetric Kaczmarz post-smoother -/
def L1 : LvlX := ⟨A2, P2, R2, .poly M2 [-1/5, 1] 2, .gsne (3/2) M2 1 .symmetric⟩
/-- block Gauss-Seidel / Schwarz with two one-point subdomains and the recorded "inverses" `1/2` -/
def L2 : LvlX := ⟨A2, P2, R2, .bgs B2 Dinv2 1 .forward, .schwarz M2 #[1/2, 1/2] #[0, 1, 2] #[0, 1] #[0, 1, 2] 1 .backward⟩
/-- block Jacobi / `jacobi_ne` -/
def L3 : LvlX := ⟨A2, P2, R2, .bjac (2/3) B2 Dinv2 2, .jacne (1/2) M2 1⟩
/-- `gauss_seidel_nr` on the CSC arrays / CF Jacobi with `C = {0}`, `F = {1}` -/
def L4 : LvlX := ⟨A2, P2, R2, .gsnr 1 M2 1 .symmetric, .cfjac true (2/3) M2 [0] [1] 1 2 1⟩
/-- SOR / Jacobi kernels -/
def L5 : LvlX := ⟨A2, P2, R2, .gs (5/4) M2 1 .backward, .jac (2/3) M2 2⟩

/-- **non-vacuity**: every smoother family has recorded calls satisfying the hypothesis of the theorems -/
theorem all_ok : AllOK [L1, L2, L3, L4, L5] := by decide +kernel

/-- a stale matrix copy (the closure holds the CSR arrays of `diag(2, 2)`, the level matrix is `A2`) is rejected -/
theorem stale_copy_rejected :
    ¬ (Sm.gsne 1 ⟨2, #[0, 1, 2], #[0, 1], #[2, 2]⟩ 1 .forward).OK A2 := by decide +kernel

/-- an inverse block that is not the inverse of the diagonal block is rejected -/
theorem wrong_inverse_rejected : ¬ (Sm.bjac 1 B2 #[1/2, 0, 0, 1/2] 1).OK A2 := by decide +kernel

/-- ... and for it the conclusion fails: block Jacobi with that block moves the exact solution `x = (1, 1)` of
`A2 x = (1, 1)`, so it is not of the form `x + Q (b − A x)` -- the hypothesis `LeftInvOK` cannot be dropped -/
theorem wrong_inverse_moves_solution :
    applySm A2 (Sm.bjac 1 B2 #[1/2, 0, 0, 1/2] 1) [1, 1] [1, 1] ≠ [1, 1] := by decide +kernel

/-- concrete runs of the extended model (two levels, exact coarse solve) -/
theorem run_V : cycX S2 .V 1 [L1] [1, 0] [0, 3] = [12487/12500, 24689/12500] := by decide +kernel
theorem run_blocks : cycX S2 .W 1 [L2] [0, 0] [3, 0] = [2, 1] := by decide +kernel

/-- the recorded calls do something: they are not the identity -/
theorem poly_nontrivial : applySm A2 (.poly M2 [-1/5, 1] 2) [0, 0] [1, 0] ≠ [0, 0] := by decide +kernel

theorem exact_solution : matVec A2 [1, 2] = [0, 3] := by decide +kernel

end PyamgV.C03X.Witness
