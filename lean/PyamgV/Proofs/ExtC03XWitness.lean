import PyamgV.Proofs.ExtC03XThm
namespace PyamgV.C03X.Witness
open PyamgV.C03 PyamgV.C03X

/-- `[[2,-1],[-1,2]]` as CSR arrays -/
def M2 : K.Csr Rat := ⟨2, #[0, 2, 4], #[0, 1, 0, 1], #[2, -1, -1, 2]⟩
def A2 : Mat := [[2, -1], [-1, 2]]
/-- the same matrix as one 2 × 2 BSR block with its exact inverse -/
def B2 : K.Bsr Rat := ⟨1, 2, #[0, 1], #[0], #[2, -1, -1, 2]⟩
def Dinv2 : Array Rat := #[2/3, 1/3, 1/3, 2/3]

def LX : LvlX := ⟨A2, [[1], [1]], [[1, 1]], .poly M2 [-1/5, 1] 2, .gsne (3/2) M2 1 .symmetric⟩
def LB : LvlX := ⟨A2, [[1], [1]], [[1, 1]], .bgs B2 Dinv2 1 .forward, .schwarz M2 #[1/2, 1/2] #[0, 1, 2] #[0, 1] #[0, 1, 2] 1 .backward⟩

theorem lx_ok : AllOK [LX, LB] := by decide +kernel
end PyamgV.C03X.Witness
