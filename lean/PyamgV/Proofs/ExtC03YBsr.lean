import PyamgV.Proofs.ExtC03YBlock
import PyamgV.Proofs.ExtC03YJac
import PyamgV.Proofs.ExtC09XDense
import PyamgV.Proofs.ExtC03YBsrRows

/-! PyamgV (extension E55, C03): the smoothers of BSR levels that E38 left to probed matrices, as recorded calls of the
scalar-polymorphic extended cycle model, over any field:

* `bsrgs` / `bsrjac` -- `relaxation.gauss_seidel` / `sor` / `jacobi` on a BSR level.  The kernels `bsr_gauss_seidel` /
  `bsr_jacobi` are the point kernels on the point rows of the BSR arrays (`C03Y.bsrToCsr`, the reading C09 part A compares
  with the kernels); the dense form of these point rows is the dense form of the BSR arrays (`csrDense_bsrToCsr`), so when the
  BSR arrays are the level matrix and every point row stores exactly one non-zero diagonal entry the theorems `gs_semLin` /
  `jac_semLin` apply;
* `cfbjac` -- `relaxation.cf_block_jacobi` / `fc_block_jacobi` (kernel `block_jacobi_indexed`, model
  `ExtC09X.pyCFBlockJacobi`) with inverse diagonal blocks `Dinv_i A_ii = I`: `c_iterations` sweeps `x + ω E_C D⁻¹ E_Cᵀ (b − A x)`
  over the C block rows and `f_iterations` sweeps over the F block rows in the stated order, `iterations` times. -/
set_option linter.unusedSectionVars false
namespace PyamgV.C03Y
open PyamgV PyamgV.K Finset
open PyamgV.C03 (Cyc iterN)

variable {𝕜 : Type} [Field 𝕜] [DecidableEq 𝕜] {conj : 𝕜 → 𝕜}

/-! ## point smoothers on BSR arrays -/

/-- operator of the recorded `gauss_seidel` / `sor` call on BSR arrays -/
noncomputable def bsrgsQ (ω : 𝕜) (M : Bsr 𝕜) (it : Nat) (sw : Sweep) : Fn 𝕜 →ₗ[𝕜] Fn 𝕜 := gsQ ω (bsrToCsr M) it sw

/-- operator of the recorded `jacobi` call on BSR arrays -/
noncomputable def bsrjacQ (ω : 𝕜) (M : Bsr 𝕜) (it : Nat) : Fn 𝕜 →ₗ[𝕜] Fn 𝕜 := jacQ ω (bsrToCsr M) it

theorem bsrToCsr_n (M : Bsr 𝕜) : (bsrToCsr M).n = M.nb * M.bs := rfl

/-- **Gauss-Seidel / SOR on a BSR level (`bsr_gauss_seidel`, resp. `tocsr` + SOR kernel) is a linear iteration of the level
matrix** -/
theorem bsrgs_semLin (ω : 𝕜) (M : Bsr 𝕜) (it : Nat) (sw : Sweep) (hbs : 0 < M.bs) (hc : ColsOK (bsrToCsr M))
    (hd : DiagOK (bsrToCsr M)) :
    SemLin (bsrDense M) (viaArr (M.nb * M.bs) (Sm.arr conj (.bsrgs ω M it sw)))
      (Tn (M.nb * M.bs) ∘ₗ bsrgsQ ω M it sw ∘ₗ Tn (M.nb * M.bs)) := by
  rw [← csrDense_bsrToCsr M hbs]
  exact gs_semLin (conj := conj) ω (bsrToCsr M) it sw hc hd

/-- **weighted Jacobi on a BSR level (`bsr_jacobi`) is `x ← x + ω D⁻¹ (b − A x)`, `iterations` times** -/
theorem bsrjac_semLin (ω : 𝕜) (M : Bsr 𝕜) (it : Nat) (hbs : 0 < M.bs) (hc : ColsOK (bsrToCsr M))
    (hd : DiagOK (bsrToCsr M)) :
    SemLin (bsrDense M) (viaArr (M.nb * M.bs) (Sm.arr conj (.bsrjac ω M it)))
      (Tn (M.nb * M.bs) ∘ₗ bsrjacQ ω M it ∘ₗ Tn (M.nb * M.bs)) := by
  rw [← csrDense_bsrToCsr M hbs]
  exact jac_semLin (conj := conj) ω (bsrToCsr M) it hc hd

/-! ## CF / FC block Jacobi -/

/-- `blockdiag(Dinv)` on the block rows listed in `idx` -/
def bIdxDinvOp (M : Bsr 𝕜) (Dinv : Array 𝕜) (idx : List Nat) : Fn 𝕜 →ₗ[𝕜] Fn 𝕜 where
  toFun r := fun p => if p / M.bs ∈ idx ∧ p < M.nb * M.bs then
    ∑ l ∈ range M.bs, ExtC09.dinvAt M.bs Dinv (p / M.bs) (p % M.bs) l * r (p / M.bs * M.bs + l) else 0
  map_add' u v := by
    funext p; by_cases h : p / M.bs ∈ idx ∧ p < M.nb * M.bs <;> simp [h, mul_add, Finset.sum_add_distrib]
  map_smul' c u := by
    funext p; by_cases h : p / M.bs ∈ idx ∧ p < M.nb * M.bs
    · simp only [h, and_self, if_true, Pi.smul_apply, smul_eq_mul, RingHom.id_apply, Finset.mul_sum]
      apply Finset.sum_congr rfl; intro l _; ring
    · simp [h]

def bjacIdxF (ω : 𝕜) (M : Bsr 𝕜) (Dinv : Array 𝕜) (idx : List Nat) : Fn 𝕜 → Fn 𝕜 → Fn 𝕜 :=
  fun x b => x + ω • bIdxDinvOp M Dinv idx (b - bsrLin M x)

/-- **the `block_jacobi_indexed` kernel model computes `x + ω E D⁻¹ Eᵀ (b − A x)`** on vectors of the size of the matrix -/
theorem bjacIdx_refines (ω : 𝕜) (M : Bsr 𝕜) (Dinv : Array 𝕜) (hbs : 0 < M.bs) (hL : LeftInvOK M Dinv) (idx : List Nat)
    (hidx : ∀ i ∈ idx, i < M.nb) :
    Refines (M.nb * M.bs) (fun x b => ExtC09X.blockJacobiIndexed ω M b Dinv idx x) (bjacIdxF ω M Dinv idx) := by
  intro x b hx _
  refine ⟨by rw [ExtC09X.blockJacobiIndexed_size, hx], ?_⟩
  funext p
  unfold bjacIdxF
  simp only [Pi.add_apply, Pi.smul_apply, smul_eq_mul]
  by_cases hp : p < x.size
  · have hpn : p < M.nb * M.bs := by omega
    by_cases hrow : p / M.bs ∈ idx
    · have hi : p / M.bs < M.nb := hidx _ hrow
      have := ExtC09X.blockJacobiIndexed_splitting ω M b Dinv x idx hbs
        (fun i hi => leftInv_of_ok M Dinv hL i (hidx i hi)) p hp hrow
      unfold ExtC09.vec at this ⊢
      rw [this]
      congr 2
      simp only [bIdxDinvOp, LinearMap.coe_mk, AddHom.coe_mk, if_pos (And.intro hrow hpn)]
      apply Finset.sum_congr rfl
      intro l hl
      have := res_blk M hbs x b (p / M.bs) l hi (mem_range.1 hl)
      unfold ExtC09.vec at this
      rw [this]
    · have := ExtC09X.blockJacobiIndexed_entry ω M b Dinv x idx hbs p hp
      unfold ExtC09.vec at this ⊢
      rw [this, if_neg hrow]
      have h3 : ¬ (p / M.bs ∈ idx ∧ p < M.nb * M.bs) := fun hc => hrow hc.1
      simp [bIdxDinvOp, h3]
  · have h1 : ExtC09.vec (ExtC09X.blockJacobiIndexed ω M b Dinv idx x) p = 0 :=
      ExtC09.rd_of_le _ _ (by rw [ExtC09X.blockJacobiIndexed_size]; omega)
    have h2 : ExtC09.vec x p = 0 := ExtC09.rd_of_le _ _ (by omega)
    have h3 : ¬ (p / M.bs ∈ idx ∧ p < M.nb * M.bs) := fun hc => by omega
    rw [h1, h2]
    simp [bIdxDinvOp, h3]

theorem bjacIdx_isLinIter (ω : 𝕜) (M : Bsr 𝕜) (Dinv : Array 𝕜) (idx : List Nat) :
    IsLinIter (bsrLin M) (bjacIdxF ω M Dinv idx) (ω • bIdxDinvOp M Dinv idx) :=
  jacobi_isLinIter (bsrLin M) (bIdxDinvOp M Dinv idx) ω

/-- one iteration of `cf_block_jacobi` (`cFirst`) / `fc_block_jacobi` -/
def cfbStepF (cf : Bool) (ω : 𝕜) (M : Bsr 𝕜) (Dinv : Array 𝕜) (C Fp : List Nat) (fIt cIt : Nat) : Fn 𝕜 → Fn 𝕜 → Fn 𝕜 :=
  fun x b =>
    if cf then iter (bjacIdxF ω M Dinv Fp) b fIt (iter (bjacIdxF ω M Dinv C) b cIt x)
    else iter (bjacIdxF ω M Dinv C) b cIt (iter (bjacIdxF ω M Dinv Fp) b fIt x)

noncomputable def cfbStepQ (cf : Bool) (ω : 𝕜) (M : Bsr 𝕜) (Dinv : Array 𝕜) (C Fp : List Nat) (fIt cIt : Nat) :
    Fn 𝕜 →ₗ[𝕜] Fn 𝕜 :=
  if cf then compM (bsrLin M) (powM (bsrLin M) (ω • bIdxDinvOp M Dinv C) cIt)
      (powM (bsrLin M) (ω • bIdxDinvOp M Dinv Fp) fIt)
  else compM (bsrLin M) (powM (bsrLin M) (ω • bIdxDinvOp M Dinv Fp) fIt)
      (powM (bsrLin M) (ω • bIdxDinvOp M Dinv C) cIt)

/-- operator of the recorded `cf_block_jacobi` / `fc_block_jacobi` call -/
noncomputable def cfbjacQ (cf : Bool) (ω : 𝕜) (M : Bsr 𝕜) (Dinv : Array 𝕜) (C Fp : List Nat) (it fIt cIt : Nat) :
    Fn 𝕜 →ₗ[𝕜] Fn 𝕜 :=
  powM (bsrLin M) (cfbStepQ cf ω M Dinv C Fp fIt cIt) it

theorem cfbStep_isLinIter (cf : Bool) (ω : 𝕜) (M : Bsr 𝕜) (Dinv : Array 𝕜) (C Fp : List Nat) (fIt cIt : Nat) :
    IsLinIter (bsrLin M) (cfbStepF cf ω M Dinv C Fp fIt cIt) (cfbStepQ cf ω M Dinv C Fp fIt cIt) := by
  have hc := CF.IsLinIter.pow (bjacIdx_isLinIter ω M Dinv C) cIt
  have hf := CF.IsLinIter.pow (bjacIdx_isLinIter ω M Dinv Fp) fIt
  cases cf
  · have := CF.IsLinIter.comp hf hc
    intro x b
    simpa [cfbStepF, cfbStepQ] using this x b
  · have := CF.IsLinIter.comp hc hf
    intro x b
    simpa [cfbStepF, cfbStepQ] using this x b

theorem cfbjac_refines (cf : Bool) (ω : 𝕜) (M : Bsr 𝕜) (Dinv : Array 𝕜) (C Fp : List Nat) (it fIt cIt : Nat)
    (hbs : 0 < M.bs) (hD : Dinv.size = M.nb * (M.bs * M.bs)) (hL : LeftInvOK M Dinv)
    (hC : ∀ i ∈ C, i < M.nb) (hF : ∀ i ∈ Fp, i < M.nb) :
    Refines (M.nb * M.bs) (Sm.arr conj (.cfbjac cf ω M Dinv C Fp it fIt cIt))
      (fun x b => iter (cfbStepF cf ω M Dinv C Fp fIt cIt) b it x) := by
  have hc := (bjacIdx_refines ω M Dinv hbs hL C hC).iter cIt
  have hf := (bjacIdx_refines ω M Dinv hbs hL Fp hF).iter fIt
  have hall : (C ++ Fp).all (fun i => decide (i < M.nb)) = true := by
    apply ExtC09X.all_lt_of_mem
    intro i hi
    rcases List.mem_append.1 hi with h | h
    · exact hC i h
    · exact hF i h
  intro x b hx hb
  simp only [Sm.arr, ExtC09X.pyCFBlockJacobi]
  rw [if_neg (by simp [hx, hb, hD]), if_neg (by simp [hall])]
  simp only [Option.getD_some]
  cases cf
  · exact ((hf.comp hc).iter it) x b hx hb
  · exact ((hc.comp hf).iter it) x b hx hb

/-- **CF / FC block Jacobi in the extended cycle model is a linear iteration of the level matrix** -/
theorem cfbjac_semLin (cf : Bool) (ω : 𝕜) (M : Bsr 𝕜) (Dinv : Array 𝕜) (C Fp : List Nat) (it fIt cIt : Nat)
    (hc : BColsOK M) (hbs : 0 < M.bs) (hD : Dinv.size = M.nb * (M.bs * M.bs)) (hL : LeftInvOK M Dinv)
    (hC : ∀ i ∈ C, i < M.nb) (hF : ∀ i ∈ Fp, i < M.nb) :
    SemLin (bsrDense M) (viaArr (M.nb * M.bs) (Sm.arr conj (.cfbjac cf ω M Dinv C Fp it fIt cIt)))
      (Tn (M.nb * M.bs) ∘ₗ cfbjacQ cf ω M Dinv C Fp it fIt cIt ∘ₗ Tn (M.nb * M.bs)) :=
  semLin_bsr M hbs hc _ _ _ (cfbjac_refines cf ω M Dinv C Fp it fIt cIt hbs hD hL hC hF)
    (CF.IsLinIter.pow (cfbStep_isLinIter cf ω M Dinv C Fp fIt cIt) it)

end PyamgV.C03Y
