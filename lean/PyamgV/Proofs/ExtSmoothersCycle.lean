import PyamgV.Proofs.ExtSmoothersNE
import PyamgV.Proofs.C03Lin
import Mathlib.Algebra.Module.Prod
import Mathlib.LinearAlgebra.Prod
import Mathlib.Tactic.NormNum
import Mathlib.Data.Fintype.BigOperators

/-! PyamgV (extension E22): the smoother families of Proofs/ExtSmoothers*.lean feed the cycle theorems.

* `EnergySmoother e A f` -- `f` is built from: no smoother, `polynomial` / Chebyshev under `0 ≤ a(p(A)A v, v) ≤ 2a(v, v)`,
  Richardson under `ω A ≤ 2`, weighted / block Jacobi under `ω A ≤ 2 D`, anything already known to be non-expansive
  (Gauss-Seidel, SOR, Schwarz, ...), closed under composition and `iterations = k`.  `EnergySmoother.nonexp`: each is
  non-expansive in the energy norm; `cycle_nonexp_of_smoother_family`: on a Galerkin hierarchy (`WFGS`, the `WFG` of
  Proofs/C02Thm.lean with the smoother hypothesis replaced by membership in the family) every V/W/F(k) cycle is
  non-expansive.
* `LinSmoother A f Q` -- the same families plus the NE/NR sweeps and `jacobi_ne`, with their operators;
  `LinSmoother.isLinIter`; `cycle_isLinIter_of_smoother_family`: the cycle is the linear iteration with operator `MopL`,
  and the exact solution is its fixed point.
* non-vacuity: every hypothesis set is met on `ℚ²`, `A = [[2,−1],[−1,2]]`. -/
namespace PyamgV

variable {K : Type*} [Field K] [LinearOrder K] [IsStrictOrderedRing K]
variable {V : Type*} [AddCommGroup V] [Module K V]

/-! ## C02: energy non-expansive smoother family -/

inductive EnergySmoother (e : EForm K V) (A : V →ₗ[K] V) : (V → V → V) → Prop
  | none : EnergySmoother e A (fun x _ => x)
  | polynomial (c0 : K) (cs : List K)
      (h0 : ∀ v, 0 ≤ e.a (A (polyOp A c0 cs (A v))) v)
      (h2 : ∀ v, e.a (A (polyOp A c0 cs (A v))) v ≤ 2 * e.a (A v) v) :
      EnergySmoother e A (polyFn A c0 cs)
  | richardson (ω : K) (h0 : 0 ≤ ω) (hD : ∀ r, ω * e.a (A r) r ≤ 2 * e.a r r) :
      EnergySmoother e A (fun x b => x + ω • (b - A x))
  | jacobi (ω : K) (D Dinv : V →ₗ[K] V) (h0 : 0 ≤ ω) (hinv : ∀ r, D (Dinv r) = r)
      (hb : ∀ w, ω * e.a (A w) w ≤ 2 * e.a (D w) w) :
      EnergySmoother e A (fun x b => x + ω • Dinv (b - A x))
  | blockJacobi (ω : K) (D N Dinv : V →ₗ[K] V) (h0 : 0 ≤ ω) (hA : A = D + N)
      (hl : ∀ x, Dinv (D x) = x) (hr : ∀ r, D (Dinv r) = r)
      (hb : ∀ w, ω * e.a (A w) w ≤ 2 * e.a (D w) w) :
      EnergySmoother e A (blockJacobiFn N Dinv ω)
  | ofNonExp {f : V → V → V} (h : ∀ hs hp, NonExp (e.ofOp A hs hp) A f) : EnergySmoother e A f
  | comp {f g : V → V → V} : EnergySmoother e A f → EnergySmoother e A g →
      EnergySmoother e A (fun x b => g (f x b) b)
  | iter {f : V → V → V} (k : Nat) : EnergySmoother e A f → EnergySmoother e A (fun x b => iter f b k x)

/-- every member of the family never increases the energy norm of the error -/
theorem EnergySmoother.nonexp {e : EForm K V} {A : V →ₗ[K] V} {f : V → V → V}
    (h : EnergySmoother e A f) (hs hp) : NonExp (e.ofOp A hs hp) A f := by
  induction h with
  | none => exact NonExp.id _ _
  | polynomial c0 cs h0 h2 => exact polynomial_nonexp e A hs hp c0 cs h0 h2
  | richardson ω h0 hD => exact richardson_nonexp e A hs hp ω h0 hD
  | jacobi ω D Dinv h0 hinv hb => exact jacobi_nonexp_of_bound e A D Dinv hs hp ω h0 hinv hb
  | blockJacobi ω D N Dinv h0 hA hl hr hb => exact blockJacobi_nonexp e A D N Dinv hs hp ω h0 hA hl hr hb
  | ofNonExp h => exact h hs hp
  | comp _ _ ihf ihg => exact ihf.comp ihg
  | iter k _ ih => exact fun x b xs hb => ih.iter k x b xs hb

/-- `WFG` with the smoother hypothesis replaced by membership in the family -/
def WFGS (solve : V → V) : EForm K V → (V →ₗ[K] V) → List (EForm K V × Level K V) → Prop
  | e, A, [] => ∀ b xs, A xs = b → e.a (A (xs - solve b)) (xs - solve b) = 0
  | e, A, (ec, L) :: rest =>
      L.A = A ∧ IsAdj e ec L.P L.R ∧ EnergySmoother e A L.pre ∧ EnergySmoother e A L.post ∧
      (∀ r, ∃ w, (L.R ∘ₗ A ∘ₗ L.P) w = L.R r) ∧
      WFGS solve ec (L.R ∘ₗ A ∘ₗ L.P) rest

theorem WFGS.toWFG (solve : V → V) :
    ∀ (Ls : List (EForm K V × Level K V)) (e : EForm K V) (A : V →ₗ[K] V),
      WFGS solve e A Ls → WFG solve e A Ls := by
  intro Ls
  induction Ls with
  | nil => intro e A h; exact h
  | cons eL rest ih =>
    obtain ⟨ec, L⟩ := eL
    intro e A h
    obtain ⟨hA, hadj, hpre, hpost, hsolv, hrest⟩ := h
    exact ⟨hA, hadj, fun hs hp => hpre.nonexp hs hp, fun hs hp => hpost.nonexp hs hp, hsolv, ih _ _ hrest⟩

/-- **C02 with Chebyshev / polynomial, Richardson, Jacobi, block Jacobi smoothers**: on a Galerkin hierarchy whose
smoothers belong to the family (under their damping conditions) every V-, W-, F(k)-cycle of any depth is non-expansive
in the energy norm -/
theorem cycle_nonexp_of_smoother_family (solve : V → V) (c : CType)
    (Ls : List (EForm K V × Level K V)) (e : EForm K V) (A : V →ₗ[K] V) (hs hp)
    (h : WFGS solve e A Ls) :
    NonExp (e.ofOp A hs hp) A (cyc solve c (Ls.map Prod.snd)) :=
  cycle_nonexp_of_galerkin solve c Ls e A hs hp (WFGS.toWFG solve Ls e A h)

/-! ## C03: linear smoother family -/

inductive LinSmoother (A : V →ₗ[K] V) : (V → V → V) → (V →ₗ[K] V) → Prop
  | none : LinSmoother A (fun x _ => x) 0
  | polynomial (c0 : K) (cs : List K) : LinSmoother A (polyFn A c0 cs) (polyOp A c0 cs)
  | richardson (ω : K) : LinSmoother A (fun x b => x + ω • (b - A x)) (ω • LinearMap.id)
  | jacobi (ω : K) (Dinv : V →ₗ[K] V) : LinSmoother A (fun x b => x + ω • Dinv (b - A x)) (ω • Dinv)
  | blockJacobi (ω : K) (D N Dinv : V →ₗ[K] V) (hA : A = D + N) (hl : ∀ x, Dinv (D x) = x) :
      LinSmoother A (blockJacobiFn N Dinv ω) (ω • Dinv)
  | neSweep (e : EForm K V) (ω : K) (rows : List (NERow K V)) (hr : ∀ r ∈ rows, r.IsRow e A) :
      LinSmoother A (neSweepFn e ω rows) (sweepM A (rows.map (neRowOp ω)))
  | nrSweep (e : EForm K V) (ω : K) (cols : List (NRCol K V)) :
      LinSmoother A (nrLoopFn e ω A cols) (sweepM A (cols.map (nrColOp e ω A)))
  | jacobiNE (ω : K) (At Dinv : V →ₗ[K] V) :
      LinSmoother A (fun x b => x + ω • At (Dinv (b - A x))) (ω • (At ∘ₗ Dinv))
  | ofLinIter {f : V → V → V} {Q : V →ₗ[K] V} (h : IsLinIter A f Q) : LinSmoother A f Q
  | comp {f g : V → V → V} {Q₁ Q₂ : V →ₗ[K] V} : LinSmoother A f Q₁ → LinSmoother A g Q₂ →
      LinSmoother A (fun x b => g (f x b) b) (compM A Q₁ Q₂)
  | iter {f : V → V → V} {Q : V →ₗ[K] V} (k : Nat) : LinSmoother A f Q →
      LinSmoother A (fun x b => iter f b k x) (powM A Q k)

theorem LinSmoother.isLinIter {A : V →ₗ[K] V} {f : V → V → V} {Q : V →ₗ[K] V}
    (h : LinSmoother A f Q) : IsLinIter A f Q := by
  induction h with
  | none => exact IsLinIter.id A
  | polynomial c0 cs => exact polynomial_isLinIter A c0 cs
  | richardson ω => exact richardson_isLinIter A ω
  | jacobi ω Dinv => exact jacobi_isLinIter A Dinv ω
  | blockJacobi ω D N Dinv hA hl => exact blockJacobi_isLinIter A D N Dinv ω hA hl
  | neSweep e ω rows hr => exact ne_sweep_isLinIter e A ω rows hr
  | nrSweep e ω cols => exact nr_sweep_isLinIter e A ω cols
  | jacobiNE ω At Dinv => exact jacobi_ne_isLinIter A At Dinv ω
  | ofLinIter h => exact h
  | comp _ _ ihf ihg => exact ihf.comp ihg
  | iter k _ ih => exact ih.pow k

/-- the smoothers of every level belong to the family, for that level's own matrix -/
def WFLS : List (LinLevel K V) → Prop
  | [] => True
  | L :: rest => LinSmoother L.A L.pre L.Qpre ∧ LinSmoother L.A L.post L.Qpost ∧ WFLS rest

theorem WFLS.toWFLs : ∀ (Ls : List (LinLevel K V)), WFLS Ls → WFLs Ls := by
  intro Ls
  induction Ls with
  | nil => intro _; trivial
  | cons L rest ih => intro h; exact ⟨h.1.isLinIter, h.2.1.isLinIter, ih h.2.2⟩

/-- **C03 with polynomial / Chebyshev, Richardson, (block) Jacobi, NE/NR smoothers**: the cycle is the linear iteration
`x ← x + M (b − A x)` with the textbook operator `MopL` composed from `p(A)`, `ω Dinv`, the row-projection products -/
theorem cycle_isLinIter_of_smoother_family (S : V →ₗ[K] V) (Ls : List (LinLevel K V)) (c : CType)
    (L : LinLevel K V) (h : WFLS (L :: Ls)) :
    IsLinIter L.A (cyc (fun b => S b) c ((L :: Ls).map (·.toLevel))) (MopL S c (L :: Ls)) :=
  cycL_isLinIter S Ls c L (WFLS.toWFLs _ h)

/-- ... and the exact solution is its fixed point -/
theorem cycle_fixed_point_of_smoother_family (S : V →ₗ[K] V) (Ls : List (LinLevel K V)) (c : CType)
    (L : LinLevel K V) (h : WFLS (L :: Ls)) (xs b : V) (hb : L.A xs = b) :
    cyc (fun b => S b) c ((L :: Ls).map (·.toLevel)) xs b = xs :=
  (cycle_isLinIter_of_smoother_family S Ls c L h).fixed_point xs b hb

/-! ## non-vacuity on `ℚ²` -/

namespace ExSm

/-- Euclidean form on `ℚ²` -/
def e2 : EForm ℚ (ℚ × ℚ) :=
  { a := LinearMap.mk₂ ℚ (fun u v => u.1 * v.1 + u.2 * v.2)
      (by intros; simp; ring) (by intros; simp; ring) (by intros; simp; ring) (by intros; simp; ring)
    symm := by intro u v; simp [LinearMap.mk₂_apply]; ring
    nonneg := by intro v; simp [LinearMap.mk₂_apply]; nlinarith [mul_self_nonneg v.1, mul_self_nonneg v.2] }

theorem e2_apply (u v : ℚ × ℚ) : e2.a u v = u.1 * v.1 + u.2 * v.2 := by simp [e2, LinearMap.mk₂_apply]

/-- `[[2, −1], [−1, 2]]` -/
def A2 : (ℚ × ℚ) →ₗ[ℚ] (ℚ × ℚ) :=
  { toFun := fun u => (2 * u.1 - u.2, 2 * u.2 - u.1)
    map_add' := by intro u v; ext <;> simp <;> ring
    map_smul' := by intro c u; ext <;> simp <;> ring }

theorem A2_apply (u : ℚ × ℚ) : A2 u = (2 * u.1 - u.2, 2 * u.2 - u.1) := rfl

theorem A2_sym : IsAdj e2 e2 A2 A2 := by
  intro u v; simp only [e2_apply, A2_apply]; ring

theorem A2_psd : ∀ v, 0 ≤ e2.a (A2 v) v := by
  intro v; simp only [e2_apply, A2_apply]
  nlinarith [mul_self_nonneg (v.1 - v.2), mul_self_nonneg v.1, mul_self_nonneg v.2]

/-- `p(t) = 1 − t/5` (coefficients `[−1/5, 1]`, descending): `p(A) A v` in closed form -/
theorem poly_A2 (v : ℚ × ℚ) : polyOp A2 (-1/5) [1] (A2 v) = (v.1 - v.2 / 5, v.2 - v.1 / 5) := by
  simp only [polyOp, List.foldl_cons, List.foldl_nil, LinearMap.add_apply, LinearMap.smul_apply,
    LinearMap.id_apply, LinearMap.comp_apply, A2_apply, Prod.smul_mk, Prod.mk_add_mk, smul_eq_mul, Prod.mk.injEq]
  constructor <;> ring

/-- the quadratic-form hypotheses of `polynomial_nonexp` hold for `p(t) = 1 − t/5` on `A2` -/
theorem example_polynomial_nonexp : NonExp (e2.ofOp A2 A2_sym A2_psd) A2 (polyFn A2 (-1/5) [1]) := by
  apply polynomial_nonexp
  · intro v; rw [poly_A2]; simp only [e2_apply, A2_apply]
    nlinarith [mul_self_nonneg (v.1 - v.2), mul_self_nonneg v.1, mul_self_nonneg v.2]
  · intro v; rw [poly_A2]; simp only [e2_apply, A2_apply]
    nlinarith [mul_self_nonneg (v.1 - v.2), mul_self_nonneg v.1, mul_self_nonneg v.2]

/-- the spectral hypotheses of `polynomial_nonexp_of_spectrum`: eigenpairs `(1, (1,1))`, `(3, (1,−1))`,
`|1 − λ p(λ)| = 1/5` at both -/
theorem example_polynomial_spectrum : NonExp (e2.ofOp A2 A2_sym A2_psd) A2 (polyFn A2 (-1/5) [1]) := by
  apply polynomial_nonexp_of_spectrum e2 A2 A2_sym A2_psd (-1/5) [1]
    (fun i : Bool => if i then 1 else 3) (fun i : Bool => if i then (1, 1) else (1, -1))
  · intro i; cases i <;> simp [A2_apply] <;> norm_num
  · intro i j hij; cases i <;> cases j <;> simp_all [e2_apply]
  · intro v
    refine ⟨fun i => if i then (v.1 + v.2) / 2 else (v.1 - v.2) / 2, ?_⟩
    rw [Fintype.sum_bool]
    ext <;> simp <;> ring
  · intro i; cases i <;> simp [polyScalar, abs_le] <;> norm_num

/-- weighted Jacobi `ω = 2/3`, `D = 2 I` -/
theorem example_jacobi_nonexp :
    NonExp (e2.ofOp A2 A2_sym A2_psd) A2
      (fun x b => x + (2/3 : ℚ) • ((1/2 : ℚ) • LinearMap.id : (ℚ × ℚ) →ₗ[ℚ] (ℚ × ℚ)) (b - A2 x)) := by
  apply jacobi_nonexp_of_bound e2 A2 ((2 : ℚ) • LinearMap.id) _ A2_sym A2_psd (2/3) (by norm_num)
  · intro r; ext <;> simp
  · intro w; simp only [e2_apply, A2_apply, LinearMap.smul_apply, LinearMap.id_apply, Prod.smul_fst, Prod.smul_snd,
      smul_eq_mul]
    nlinarith [mul_self_nonneg (w.1 + w.2), mul_self_nonneg w.1, mul_self_nonneg w.2]

/-- the two rows of `A2` with `Dinv = 1/‖row‖² = 1/5` -/
def rows2 : List (NERow ℚ (ℚ × ℚ)) :=
  [⟨(2, -1), LinearMap.fst ℚ ℚ ℚ, 1/5⟩, ⟨(-1, 2), LinearMap.snd ℚ ℚ ℚ, 1/5⟩]

theorem rows2_ok : ∀ r ∈ rows2, r.IsRow e2 A2 ∧ r.Scaled e2 := by
  intro r hr
  simp only [rows2, List.mem_cons, List.not_mem_nil, or_false] at hr
  rcases hr with rfl | rfl
  · refine ⟨fun x => by simp [e2_apply, A2_apply]; ring, Or.inr ⟨by simp [e2_apply]; norm_num, by simp [e2_apply]; norm_num⟩⟩
  · refine ⟨fun x => by simp [e2_apply, A2_apply]; ring, Or.inr ⟨by simp [e2_apply]; norm_num, by simp [e2_apply]; norm_num⟩⟩

/-- a symmetric Kaczmarz sweep (rows 0, 1, 1, 0), `ω = 3/2`, is non-expansive in the 2-norm of the error -/
theorem example_ne_sweep_nonexp : NonExp e2 A2 (neSweepFn e2 (3/2) (rows2 ++ rows2.reverse)) := by
  apply ne_sweep_nonexp e2 A2 (3/2) (by norm_num) (by norm_num)
  intro r hr
  rcases List.mem_append.1 hr with h | h
  · exact rows2_ok r h
  · exact rows2_ok r (List.mem_reverse.1 h)

def cols2 : List (NRCol ℚ (ℚ × ℚ)) := [⟨(1, 0), 1/5⟩, ⟨(0, 1), 1/5⟩]

theorem cols2_ok : ∀ c ∈ cols2, c.Scaled e2 A2 := by
  intro c hc
  simp only [cols2, List.mem_cons, List.not_mem_nil, or_false] at hc
  rcases hc with rfl | rfl
  · exact Or.inr ⟨by simp [e2_apply, A2_apply]; norm_num, by simp [e2_apply, A2_apply]; norm_num⟩
  · exact Or.inr ⟨by simp [e2_apply, A2_apply]; norm_num, by simp [e2_apply, A2_apply]; norm_num⟩

theorem example_nr_sweep_nonexp (x b : ℚ × ℚ) :
    e2.en (b - A2 (nrLoopFn e2 (1/2) A2 cols2 x b)) ≤ e2.en (b - A2 x) :=
  nr_sweep_residual_nonexp e2 A2 (1/2) (by norm_num) (by norm_num) cols2 cols2_ok x b

/-- a two-level Galerkin hierarchy on `ℚ²` (`P = (1,1)ᵀ` padded, `R = Pᵀ`, coarse solve `b ↦ (b₁/2, 0)`) with a
degree-1 polynomial pre-smoother and two weighted Jacobi post-smoothing steps is in `WFGS` -/
theorem example_wfgs : ∃ (solve : ℚ × ℚ → ℚ × ℚ) (Ls : List (EForm ℚ (ℚ × ℚ) × Level ℚ (ℚ × ℚ))),
    Ls.length = 1 ∧ WFGS solve e2 A2 Ls := by
  let P : (ℚ × ℚ) →ₗ[ℚ] (ℚ × ℚ) :=
    { toFun := fun u => (u.1, u.1)
      map_add' := by intro u v; ext <;> simp
      map_smul' := by intro c u; ext <;> simp }
  let R : (ℚ × ℚ) →ₗ[ℚ] (ℚ × ℚ) :=
    { toFun := fun u => (u.1 + u.2, 0)
      map_add' := by intro u v; ext <;> simp; ring
      map_smul' := by intro c u; ext <;> simp; ring }
  let Dinv : (ℚ × ℚ) →ₗ[ℚ] (ℚ × ℚ) := (1/2 : ℚ) • LinearMap.id
  let L : Level ℚ (ℚ × ℚ) := ⟨A2, P, R, polyFn A2 (-1/5) [1],
    fun x b => iter (fun x b => x + (2/3 : ℚ) • Dinv (b - A2 x)) b 2 x⟩
  refine ⟨fun b => (b.1 / 2, 0), [(e2, L)], rfl, rfl, ?_, ?_, ?_, ?_, ?_⟩
  · intro u v; simp [L, P, R, e2_apply]; ring
  · apply EnergySmoother.polynomial
    · intro v; rw [poly_A2]; simp only [e2_apply, A2_apply]
      nlinarith [mul_self_nonneg (v.1 - v.2), mul_self_nonneg v.1, mul_self_nonneg v.2]
    · intro v; rw [poly_A2]; simp only [e2_apply, A2_apply]
      nlinarith [mul_self_nonneg (v.1 - v.2), mul_self_nonneg v.1, mul_self_nonneg v.2]
  · show EnergySmoother e2 A2 (fun x b => iter (fun x b => x + (2/3 : ℚ) • Dinv (b - A2 x)) b 2 x)
    apply EnergySmoother.iter 2
    apply EnergySmoother.jacobi (2/3) ((2 : ℚ) • LinearMap.id) Dinv (by norm_num)
    · intro r; ext <;> simp [Dinv]
    · intro w; simp only [e2_apply, A2_apply, LinearMap.smul_apply, LinearMap.id_apply, Prod.smul_fst, Prod.smul_snd,
        smul_eq_mul]
      nlinarith [mul_self_nonneg (w.1 + w.2), mul_self_nonneg w.1, mul_self_nonneg w.2]
  · intro r; refine ⟨((r.1 + r.2) / 2, 0), ?_⟩
    ext <;> simp [L, A2_apply, P, R]; ring
  · intro b xs hb
    have h1 : b.1 = 2 * xs.1 := by
      have := congrArg Prod.fst hb; simp [L, A2_apply, P, R] at this; linarith
    simp [L, e2_apply, A2_apply, P, R, h1]

end ExSm

#print axioms EnergySmoother.nonexp
#print axioms cycle_nonexp_of_smoother_family
#print axioms cycle_isLinIter_of_smoother_family
#print axioms ExSm.example_polynomial_spectrum
#print axioms ExSm.example_wfgs
end PyamgV
