import PyamgV.Proofs.ExtSolvePath
import PyamgV.Proofs.C02Model
import PyamgV.Proofs.C02Example

/-! PyamgV (extension E17; C01 ∘ C02): the stand-alone solve on C02's arrays-and-kernels cycle model.
`solvePyK` (Model/ExtSolvePath.lean) is C01's statement-by-statement loop `solvePy` whose cycle is
`C02.cycle` (CSR levels, the relaxation kernel models C09 compares bit-exactly with relaxation.h, a
direct coarse solve).  Under the hypotheses of C02's `model_cycle_nonexpansive` the energy norm of the
error of its iterates is non-increasing. -/
namespace PyamgV.SolvePath
open PyamgV

variable {R : Type} [Field R] [LinearOrder R] [IsStrictOrderedRing R] [DecidableEq R]

omit [LinearOrder R] [IsStrictOrderedRing R] in
/-- the loop body of C01 on C02's cycle: `C02.cycle` already contains the one-level branch -/
theorem cyc_eq_cycle (solve : Array R → Array R) (c : C02.Cyc) (cpl : Nat) (ls : List (C02.Lvl R))
    (b : Array R) :
    C01.cyc (fun x => C02.cycle solve c cpl ls x b) (solve b) ls.isEmpty =
      fun x => C02.cycle solve c cpl ls x b := by
  funext x
  cases ls with
  | nil => simp [C01.cyc, C02.cycle]
  | cons L ls => simp [C01.cyc]

/-- **C01 ∘ C02 on the executed definitions.**  Hierarchy data satisfying `WFModel` (Galerkin products,
`R = Pᵀ`, one stored diagonal per row, admissible smoothers, solvable coarse problems, energy-exact
coarsest solve), symmetric positive semidefinite finest matrix, `b` and `x0` of the finest size,
`A x* = b`: for `maxiter ≥ 1`, every tolerance test and every combination of the options the stand-alone
solve returns the `k`-th iterate (`1 ≤ k ≤ maxiter`, of the right size); its error energy is at most that
of the start vector (`x0`, or zeros); the error energy never increases from one cycle to the next; the
vectors the callback receives have non-increasing error energy. -/
theorem solvePyK_energy_monotone (solve : Array R → Array R) (solveF : (Nat → R) → (Nat → R))
    (Ac : K.Csr R) (ls : List (C02.Lvl R))
    (hsolve : ∀ b : Array R, b.size = Ac.n → (solve b).size = Ac.n ∧ fn (solve b) = solveF (fn b))
    (hshape : Shaped Ac.n (nextA Ac ls).n ls) (hwf : WFModel solveF Ac ls)
    (hsym : IsAdj (euc R (nextA Ac ls).n) (euc R (nextA Ac ls).n)
      (csrOp (nextA Ac ls).n (rowOf (nextA Ac ls))) (csrOp (nextA Ac ls).n (rowOf (nextA Ac ls))))
    (hpsd : ∀ v, 0 ≤ (euc R (nextA Ac ls).n).a (csrOp (nextA Ac ls).n (rowOf (nextA Ac ls)) v) v)
    (c : C02.Cyc) (cpl : Nat) {Q : Type} (resnorm : Array R → Q) (below : Q → Bool)
    (maxiter : Nat) (hm : 1 ≤ maxiter) (b : Array R) (hb : b.size = (nextA Ac ls).n)
    (x0 : Option (Array R)) (hx0 : ∀ v, x0 = some v → v.size = (nextA Ac ls).n)
    (residuals : Option (List Q)) (hasCb returnInfo : Bool)
    (xs : Nat → R) (hxs : csrOp (nextA Ac ls).n (rowOf (nextA Ac ls)) xs = fn b) :
    ∃ p k, solvePyK solve c cpl ls resnorm below maxiter b x0 residuals hasCb returnInfo = some p ∧
      1 ≤ k ∧ k ≤ maxiter ∧
      p.x = iterate (fun x => C02.cycle solve c cpl ls x b) k (x0.getD (C02.zeros b.size)) ∧
      p.x.size = (nextA Ac ls).n ∧
      ((euc R (nextA Ac ls).n).ofOp _ hsym hpsd).en (xs - fn p.x) ≤
        ((euc R (nextA Ac ls).n).ofOp _ hsym hpsd).en (xs - fn (x0.getD (C02.zeros b.size))) ∧
      (∀ j, ((euc R (nextA Ac ls).n).ofOp _ hsym hpsd).en
            (xs - fn (iterate (fun x => C02.cycle solve c cpl ls x b) (j + 1) (x0.getD (C02.zeros b.size)))) ≤
          ((euc R (nextA Ac ls).n).ofOp _ hsym hpsd).en
            (xs - fn (iterate (fun x => C02.cycle solve c cpl ls x b) j (x0.getD (C02.zeros b.size))))) ∧
      (hasCb = true → p.cb.length = k ∧ ∀ i j, i ≤ j → j < k →
        ((euc R (nextA Ac ls).n).ofOp _ hsym hpsd).en (xs - fn (p.cb.getD j #[])) ≤
          ((euc R (nextA Ac ls).n).ofOp _ hsym hpsd).en (xs - fn (p.cb.getD i #[]))) := by
  have h0 : (x0.getD (C02.zeros b.size)).size = (nextA Ac ls).n := by
    cases x0 with
    | none => simp [C02.zeros, hb]
    | some v => exact hx0 v rfl
  obtain ⟨p, k, hsol, h1, h2, hx, hinv, h5, h6, h7⟩ :=
    solvePy_measure_monotone (C02.zeros b.size) (fun x => C02.cycle solve c cpl ls x b) (solve b)
      ls.isEmpty resnorm below maxiter hm x0 residuals hasCb returnInfo
      (fun x => x.size = (nextA Ac ls).n)
      (fun x => ((euc R (nextA Ac ls).n).ofOp _ hsym hpsd).en (xs - fn x))
      (fun x hx => by
        rw [cyc_eq_cycle]
        exact ⟨(cycle_refines solve solveF Ac.n hsolve ls c cpl _ x b hshape hx hb).1,
          model_cycle_nonexp solve solveF Ac ls hsolve hshape hwf hsym hpsd c cpl x b hx hb xs hxs⟩)
      h0 #[]
  rw [cyc_eq_cycle] at hx h6 h7
  exact ⟨p, k, hsol, h1, h2, hx, hinv, h5, h6, fun hc => ⟨(h7 hc).1, (h7 hc).2.2⟩⟩

/-- non-vacuity: on the 3-point Poisson hierarchy of Proofs/C02Example.lean (two Jacobi(2/3) steps
before, symmetric SOR(3/2) after, exact Galerkin matrix and coarse solve) every hypothesis holds; hence
for every cycle type, `cycles_per_level`, tolerance test, `maxiter ≥ 1`, start vector and option
combination the returned iterate is at least as good as the start vector in the energy norm -/
theorem example_solvePyK_energy (c : C02.Cyc) (cpl : Nat) {Q : Type} (resnorm : Array ℚ → Q)
    (below : Q → Bool) (maxiter : Nat) (hm : 1 ≤ maxiter) (b : Array ℚ) (hb : b.size = 3)
    (x0 : Option (Array ℚ)) (hx0 : ∀ v, x0 = some v → v.size = 3)
    (residuals : Option (List Q)) (hasCb returnInfo : Bool)
    (xs : Nat → ℚ) (hxs : csrOp 3 (rowOf C02Ex.A3) xs = fn b) :
    ∃ p, solvePyK C02Ex.solveArr c cpl [C02Ex.L3] resnorm below maxiter b x0 residuals hasCb returnInfo
        = some p ∧
      ((euc ℚ 3).ofOp _ C02Ex.symA C02Ex.psdA).en (xs - fn p.x) ≤
        ((euc ℚ 3).ofOp _ C02Ex.symA C02Ex.psdA).en (xs - fn (x0.getD (C02.zeros b.size))) := by
  obtain ⟨p, k, h1, _, _, _, _, h6, _⟩ := solvePyK_energy_monotone C02Ex.solveArr C02Ex.solveF C02Ex.Ac3
    [C02Ex.L3] C02Ex.solve_ok C02Ex.shaped3 C02Ex.wf3 C02Ex.symA C02Ex.psdA c cpl resnorm below maxiter
    hm b hb x0 hx0 residuals hasCb returnInfo xs hxs
  exact ⟨p, h1, h6⟩

end PyamgV.SolvePath
