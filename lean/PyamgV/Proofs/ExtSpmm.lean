import PyamgV.Model.ExtSpmm
import Mathlib.Algebra.BigOperators.Group.List.Basic
import Mathlib.Algebra.BigOperators.Group.Finset.Basic
import Mathlib.Algebra.BigOperators.Ring.Finset
import Mathlib.Algebra.Ring.Defs

/-! PyamgV (extension E27): the CSR algebra of `Model/ExtSpmm.lean` has the dense meaning it should
have.  Scalars: any semiring (commutativity of the multiplication is not used). -/
namespace PyamgV.Spmm

variable {α : Type}

/-! ### arrays -/

theorem rd_wr [OfNat α 0] (a : Array α) (i j : Nat) (v : α) :
    rd (wr a i v) j = if i = j ∧ i < a.size then v else rd a j := by
  unfold rd wr
  simp only [Array.getD_eq_getD_getElem?, Array.getElem?_setIfInBounds]
  by_cases h : i = j
  · subst h
    by_cases h2 : i < a.size <;> simp [h2]
  · simp [h]

theorem rdN_toArray (l : List Nat) (k : Nat) : rdN l.toArray k = l.getD k 0 := by
  unfold rdN
  simp [Array.getD_eq_getD_getElem?, List.getD_eq_getElem?_getD]

theorem rd_toArray [OfNat α 0] (l : List α) (k : Nat) : rd l.toArray k = l.getD k 0 := by
  unfold rd
  simp [Array.getD_eq_getD_getElem?, List.getD_eq_getElem?_getD]

/-! ### the sum of the values stored under a key -/

section ksum
variable [AddCommMonoid α]

/-- proof-side form of `rowVal` -/
def ksum (l : List (Nat × α)) (j : Nat) : α := (l.map fun e => if e.1 = j then e.2 else 0).sum

@[simp] theorem ksum_nil (j : Nat) : ksum ([] : List (Nat × α)) j = 0 := rfl
theorem ksum_cons (e : Nat × α) (l : List (Nat × α)) (j : Nat) :
    ksum (e :: l) j = (if e.1 = j then e.2 else 0) + ksum l j := by
  simp [ksum]
theorem ksum_append (l₁ l₂ : List (Nat × α)) (j : Nat) : ksum (l₁ ++ l₂) j = ksum l₁ j + ksum l₂ j := by
  simp [ksum]

theorem foldl_rowVal (l : List (Nat × α)) (j : Nat) (a : α) :
    l.foldl (fun s e => if e.1 = j then s + e.2 else s) a = a + ksum l j := by
  induction l generalizing a with
  | nil => simp
  | cons e l ih =>
    rw [List.foldl_cons, ih, ksum_cons]
    by_cases h : e.1 = j
    · simp only [h, if_true, add_assoc]
    · simp only [h, if_false, zero_add]

theorem rowVal_eq_ksum (l : List (Nat × α)) (j : Nat) : rowVal l j = ksum l j := by
  unfold rowVal
  rw [foldl_rowVal, zero_add]

theorem ksum_flatMap {β : Type} (l : List β) (f : β → List (Nat × α)) (j : Nat) :
    ksum (l.flatMap f) j = (l.map fun b => ksum (f b) j).sum := by
  induction l with
  | nil => simp
  | cons b l ih => rw [List.flatMap_cons, ksum_append, ih, List.map_cons, List.sum_cons]

theorem ksum_eq_zero (l : List (Nat × α)) (j : Nat) (h : ∀ e ∈ l, e.1 ≠ j) : ksum l j = 0 := by
  induction l with
  | nil => rfl
  | cons e l ih =>
    rw [ksum_cons, ih (fun e he => h e (List.mem_cons_of_mem _ he)), if_neg (h e List.mem_cons_self), add_zero]

end ksum

/-! ### `ofRows`: row `i` of the assembled matrix is the `i`-th list -/

theorem scanAp_length {β : Type} (ls : List (List β)) (off : Nat) : (scanAp ls off).length = ls.length := by
  induction ls generalizing off with
  | nil => rfl
  | cons l ls ih => simp [scanAp, ih]

theorem scanAp_getD {β : Type} (ls : List (List β)) (off t : Nat) (ht : t ≤ ls.length) :
    (off :: scanAp ls off).getD t 0 = off + (ls.take t).flatten.length := by
  induction ls generalizing off t with
  | nil =>
    have : t = 0 := by simpa using ht
    subst this; simp
  | cons l ls ih =>
    cases t with
    | zero => simp
    | succ t =>
      have ht' : t ≤ ls.length := by simpa using ht
      have := ih (off + l.length) t ht'
      simp only [scanAp, List.getD_cons_succ, List.take_succ_cons, List.flatten_cons, List.length_append]
      rw [this]; omega

theorem scanAp_getD_big {β : Type} (ls : List (List β)) (off t : Nat) (ht : ls.length < t) :
    (off :: scanAp ls off).getD t 0 = 0 := by
  rw [List.getD_eq_getElem?_getD, List.getElem?_eq_none]
  · rfl
  · simp [scanAp_length]; omega

theorem ofRows_row [OfNat α 0] (r c : Nat) (ls : List (List (Nat × α))) (i : Nat) :
    (ofRows r c ls).row i = ls.getD i [] := by
  unfold Csr.row ofRows
  simp only [rdN_toArray, rd_toArray]
  by_cases hi : i < ls.length
  · rw [scanAp_getD ls 0 i (by omega), scanAp_getD ls 0 (i + 1) (by omega)]
    have htake : ls.take (i + 1) = ls.take i ++ [ls[i]] := by
      rw [List.take_succ_eq_append_getElem hi]
    have hlen : (ls.take (i + 1)).flatten.length = (ls.take i).flatten.length + ls[i].length := by
      rw [htake, List.flatten_append, List.length_append, List.flatten_singleton]
    rw [hlen, Nat.zero_add, Nat.zero_add, Nat.add_sub_cancel_left]
    have hgetD : ls.getD i [] = ls[i] := by simp [List.getD_eq_getElem?_getD, hi]
    rw [hgetD]
    have hflat : ls.flatten = (ls.take i).flatten ++ (ls[i] ++ (ls.drop (i + 1)).flatten) := by
      conv_lhs => rw [← List.take_append_drop i ls]
      rw [List.flatten_append, List.drop_eq_getElem_cons hi, List.flatten_cons]
    apply List.ext_getElem
    · simp
    · intro m h1 h2
      simp only [List.length_map, List.length_range'] at h1
      simp only [List.getElem_map, List.getElem_range', Nat.one_mul]
      have hm : ls.flatten[(ls.take i).flatten.length + m]? = some ls[i][m] := by
        rw [hflat, List.getElem?_append_right (by omega), Nat.add_sub_cancel_left,
          List.getElem?_append_left h1, List.getElem?_eq_getElem h1]
      simp only [List.getD_eq_getElem?_getD, List.getElem?_map, hm, Option.map_some, Option.getD_some]
  · have hi' : ls.length ≤ i := by omega
    have h1 : (0 :: scanAp ls 0).getD (i + 1) 0 = 0 := scanAp_getD_big ls 0 (i + 1) (by omega)
    rw [h1, Nat.zero_sub]
    simp [List.getD_eq_getElem?_getD, List.getElem?_eq_none hi']

/-! ### the product -/

theorem getD_set {β : Type} (a : Array β) (i j : Nat) (v d : β) :
    (a.setIfInBounds i v).getD j d = if i = j ∧ i < a.size then v else a.getD j d := by
  simp only [Array.getD_eq_getD_getElem?, Array.getElem?_setIfInBounds]
  by_cases h : i = j
  · subst h
    by_cases h2 : i < a.size <;> simp [h2]
  · simp [h]

section mul
variable [Semiring α]

/-- invariant of the accumulator inside a row (`n` = number of columns of `B`) -/
structure Acc.Inv (n : Nat) (s : Acc α) : Prop where
  ssz : s.sums.size = n
  msz : s.mark.size = n
  mark_iff : ∀ k, s.mark.getD k false = true ↔ k ∈ s.touched
  nodup : s.touched.Nodup
  lt : ∀ k ∈ s.touched, k < n

theorem Acc.add_spec {n : Nat} {s : Acc α} (hs : s.Inv n) (k : Nat) (t : α) (hk : k < n) :
    (s.add k t).Inv n ∧ (∀ j, rd (s.add k t).sums j = rd s.sums j + if k = j then t else 0) ∧
    (∀ j, j ∈ (s.add k t).touched ↔ j ∈ s.touched ∨ j = k) := by
  have hsum : ∀ j, rd (wr s.sums k (rd s.sums k + t)) j = rd s.sums j + if k = j then t else 0 := by
    intro j
    rw [rd_wr]
    by_cases h : k = j
    · subst h; simp [hs.ssz, hk]
    · simp [h]
  unfold Acc.add
  by_cases hm : s.mark.getD k false = true
  · rw [if_pos hm]
    refine ⟨⟨by simp [wr, hs.ssz], hs.msz, hs.mark_iff, hs.nodup, hs.lt⟩, hsum, ?_⟩
    intro j
    constructor
    · exact Or.inl
    · rintro (h | rfl)
      · exact h
      · exact (hs.mark_iff _).1 hm
  · rw [if_neg hm]
    have hk' : k ∉ s.touched := fun h => hm ((hs.mark_iff k).2 h)
    refine ⟨⟨by simp [wr, hs.ssz], by simp [hs.msz], ?_, List.nodup_cons.2 ⟨hk', hs.nodup⟩, ?_⟩, hsum, ?_⟩
    · intro j
      show (s.mark.setIfInBounds k true).getD j false = true ↔ j ∈ k :: s.touched
      rw [getD_set, List.mem_cons]
      by_cases h : k = j
      · subst h; simp [hs.msz, hk]
      · have h' : ¬ j = k := fun e => h e.symm
        rw [if_neg (fun hh => h hh.1), hs.mark_iff]
        simp [h']
    · intro j hj
      rcases List.mem_cons.1 hj with rfl | hj
      · exact hk
      · exact hs.lt j hj
    · intro j
      show j ∈ k :: s.touched ↔ _
      rw [List.mem_cons]; tauto

/-- folding `add` over a list of contributions `(column, value)` -/
theorem Acc.foldl_add_spec {n : Nat} (L : List (Nat × α)) (hL : ∀ e ∈ L, e.1 < n) {s : Acc α} (hs : s.Inv n) :
    (L.foldl (fun s f => s.add f.1 f.2) s).Inv n ∧
    (∀ j, rd (L.foldl (fun s f => s.add f.1 f.2) s).sums j = rd s.sums j + ksum L j) ∧
    (∀ j, j ∈ (L.foldl (fun s f => s.add f.1 f.2) s).touched ↔ j ∈ s.touched ∨ ∃ e ∈ L, e.1 = j) := by
  induction L generalizing s with
  | nil => simp [hs]
  | cons e L ih =>
    obtain ⟨h1, h2, h3⟩ := Acc.add_spec hs e.1 e.2 (hL e List.mem_cons_self)
    obtain ⟨i1, i2, i3⟩ := ih (fun e he => hL e (List.mem_cons_of_mem _ he)) h1
    rw [List.foldl_cons]
    refine ⟨i1, ?_, ?_⟩
    · intro j
      rw [i2, h2, ksum_cons, add_assoc]
    · intro j
      rw [i3, h3]
      constructor
      · rintro ((h | rfl) | ⟨e', he', rfl⟩)
        · exact Or.inl h
        · exact Or.inr ⟨e, List.mem_cons_self, rfl⟩
        · exact Or.inr ⟨e', List.mem_cons_of_mem _ he', rfl⟩
      · rintro (h | ⟨e', he', rfl⟩)
        · exact Or.inl (Or.inl h)
        · rcases List.mem_cons.1 he' with rfl | he'
          · exact Or.inl (Or.inr rfl)
          · exact Or.inr ⟨e', he', rfl⟩

/-- the contributions to row `i` of `A @ B` in the order `csr_matmat` meets them -/
def contrib (A B : Csr α) (i : Nat) : List (Nat × α) :=
  (A.row i).flatMap fun e => (B.row e.1).map fun f => (f.1, e.2 * f.2)

theorem accumRow_eq (A B : Csr α) (i : Nat) (s : Acc α) :
    accumRow A B i s = (contrib A B i).foldl (fun s f => s.add f.1 f.2) s := by
  unfold accumRow contrib
  rw [List.foldl_flatMap]
  simp only [List.foldl_map]

/-- every stored column index is in range (what `Csr.wf` guarantees, `wf_colsOK`) -/
def Csr.ColsOK (A : Csr α) : Prop := ∀ i, ∀ e ∈ A.row i, e.1 < A.cols

theorem contrib_lt (A B : Csr α) (hB : B.ColsOK) (i : Nat) : ∀ e ∈ contrib A B i, e.1 < B.cols := by
  intro e he
  unfold contrib at he
  simp only [List.mem_flatMap, List.mem_map] at he
  obtain ⟨a, _, f, hf, rfl⟩ := he
  exact hB _ f hf

theorem sum_map_mul_left {β : Type} (l : List β) (c : α) (g : β → α) :
    (l.map fun b => c * g b).sum = c * (l.map g).sum := by
  induction l with
  | nil => simp
  | cons b l ih => simp [ih, mul_add]

theorem ksum_contrib (A B : Csr α) (i j : Nat) :
    ksum (contrib A B i) j = ((A.row i).map fun e => e.2 * ksum (B.row e.1) j).sum := by
  unfold contrib
  rw [ksum_flatMap]
  congr 1
  apply List.map_congr_left
  intro e _
  unfold ksum
  rw [List.map_map, ← sum_map_mul_left]
  congr 1
  apply List.map_congr_left
  intro f _
  by_cases h : f.1 = j <;> simp [h]

section drain
variable [DecidableEq α]

/-- what the second loop emits for the linked list `T` on the accumulator `sums` -/
def emitted (T : List Nat) (sums : Array α) : List (Nat × α) :=
  T.filterMap fun k => if rd sums k = 0 then none else some (k, rd sums k)

omit [DecidableEq α] in
theorem rd_wr_zero_self (a : Array α) (k : Nat) : rd (wr a k 0) k = 0 := by
  rw [rd_wr]
  by_cases h : k < a.size
  · simp [h]
  · simp only [h, and_false, if_false]
    unfold rd
    simp [Array.getD_eq_getD_getElem?, Array.getElem?_eq_none (Nat.le_of_not_lt h)]

theorem getD_set_false_self (a : Array Bool) (k : Nat) : (a.setIfInBounds k false).getD k false = false := by
  rw [getD_set]
  by_cases h : k < a.size
  · simp [h]
  · simp [h, Array.getD_eq_getD_getElem?]

theorem drain_fold (T : List Nat) (hT : T.Nodup) (out : List (Nat × α)) (sums : Array α) (mark : Array Bool) :
    ∃ sums' mark', T.foldl (fun (acc : List (Nat × α) × Acc α) k =>
        (if rd acc.2.sums k = 0 then acc.1 else acc.1 ++ [(k, rd acc.2.sums k)],
         (⟨wr acc.2.sums k 0, acc.2.mark.setIfInBounds k false, []⟩ : Acc α))) (out, ⟨sums, mark, []⟩)
      = (out ++ emitted T sums, ⟨sums', mark', []⟩) ∧
      sums'.size = sums.size ∧ mark'.size = mark.size ∧
      (∀ k, rd sums' k = if k ∈ T then 0 else rd sums k) ∧
      (∀ k, mark'.getD k false = if k ∈ T then false else mark.getD k false) := by
  induction T generalizing out sums mark with
  | nil => exact ⟨sums, mark, by simp [emitted], rfl, rfl, by simp, by simp⟩
  | cons k T ih =>
    obtain ⟨hk, hT'⟩ := List.nodup_cons.1 hT
    obtain ⟨sums', mark', e1, e2, e3, e4, e5⟩ := ih hT'
      (if rd sums k = 0 then out else out ++ [(k, rd sums k)]) (wr sums k 0) (mark.setIfInBounds k false)
    refine ⟨sums', mark', ?_, by simpa [wr] using e2, by simpa using e3, ?_, ?_⟩
    · rw [List.foldl_cons]
      show List.foldl _ (if rd sums k = 0 then out else out ++ [(k, rd sums k)],
        (⟨wr sums k 0, mark.setIfInBounds k false, []⟩ : Acc α)) T = _
      rw [e1]
      have hem : emitted T (wr sums k 0) = emitted T sums := by
        unfold emitted
        apply List.filterMap_congr
        intro k' hk'
        have hne : k ≠ k' := fun e => hk (e ▸ hk')
        have h : rd (wr sums k 0) k' = rd sums k' := by
          rw [rd_wr]; exact if_neg (fun hh => hne hh.1)
        rw [h]
      rw [hem]
      congr 1
      unfold emitted
      rw [List.filterMap_cons]
      by_cases hz : rd sums k = 0
      · simp [hz]
      · simp [hz]
    · intro j
      rw [e4]
      simp only [List.mem_cons]
      by_cases hj : j ∈ T
      · simp [hj]
      · by_cases hjk : j = k
        · subst hjk; simp [hj, rd_wr_zero_self]
        · have : ¬ k = j := fun e => hjk e.symm
          simp [hj, hjk, rd_wr, this]
    · intro j
      rw [e5]
      simp only [List.mem_cons]
      by_cases hj : j ∈ T
      · simp [hj]
      · by_cases hjk : j = k
        · subst hjk; simp only [hj, if_false, true_or, if_true]; exact getD_set_false_self _ _
        · have : ¬ k = j := fun e => hjk e.symm
          simp [hj, hjk, this]

theorem ksum_emitted (T : List Nat) (hT : T.Nodup) (sums : Array α) (j : Nat) :
    ksum (emitted T sums) j = if j ∈ T then rd sums j else 0 := by
  induction T with
  | nil => simp [emitted]
  | cons k T ih =>
    obtain ⟨hk, hT'⟩ := List.nodup_cons.1 hT
    have ih := ih hT'
    unfold emitted at ih ⊢
    rw [List.filterMap_cons]
    by_cases hz : rd sums k = 0
    · simp only [hz, if_true]
      rw [ih]
      simp only [List.mem_cons]
      by_cases hjk : j = k
      · subst hjk; simp [hk, hz]
      · simp [hjk]
    · simp only [hz, if_false]
      rw [ksum_cons, ih]
      simp only [List.mem_cons]
      by_cases hjk : j = k
      · subst hjk; simp [hk]
      · have : ¬ k = j := fun e => hjk e.symm
        simp [hjk, this]

theorem mem_emitted_key (T : List Nat) (sums : Array α) : ∀ e ∈ emitted T sums, e.1 ∈ T := by
  intro e he
  unfold emitted at he
  rw [List.mem_filterMap] at he
  obtain ⟨k, hk, h⟩ := he
  by_cases hz : rd sums k = 0
  · simp [hz] at h
  · simp only [hz, if_false, Option.some.injEq] at h
    rw [← h]; exact hk

omit [DecidableEq α] in
theorem Acc.eq_init {n : Nat} (s : Acc α) (h1 : s.sums.size = n) (h2 : ∀ k, rd s.sums k = 0)
    (h3 : s.mark.size = n) (h4 : ∀ k, s.mark.getD k false = false) (h5 : s.touched = []) :
    s = Acc.init n := by
  obtain ⟨sums, mark, touched⟩ := s
  simp only at h1 h2 h3 h4 h5
  unfold Acc.init
  congr
  · apply Array.ext
    · simp [h1]
    · intro i hi _
      have := h2 i
      unfold rd at this
      simp only [Array.getD_eq_getD_getElem?, Array.getElem?_eq_getElem hi, Option.getD_some] at this
      rw [this, Array.getElem_replicate]
  · apply Array.ext
    · simp [h3]
    · intro i hi _
      have := h4 i
      simp only [Array.getD_eq_getD_getElem?, Array.getElem?_eq_getElem hi, Option.getD_some] at this
      rw [this, Array.getElem_replicate]

omit [DecidableEq α] in
theorem Acc.init_inv (n : Nat) : (Acc.init n : Acc α).Inv n := by
  refine ⟨by simp [Acc.init], by simp [Acc.init], ?_, List.nodup_nil, by simp [Acc.init]⟩
  intro k
  simp only [Acc.init, List.not_mem_nil, iff_false]
  simp only [Array.getD_eq_getD_getElem?]
  by_cases hk : k < n
  · simp [hk]
  · simp [hk]

omit [DecidableEq α] in
theorem rd_replicate_zero (n k : Nat) : rd (Array.replicate n (0 : α)) k = 0 := by
  unfold rd
  simp only [Array.getD_eq_getD_getElem?]
  by_cases hk : k < n
  · simp [hk]
  · simp [hk]

/-- row `i` of the product: both loops started on the cleared accumulator -/
def mulRow (A B : Csr α) (i : Nat) : List (Nat × α) := (drain (accumRow A B i (Acc.init B.cols))).1

/-- one row of `csr_matmat`: the accumulator comes back cleared, the emitted row has the sums of the
contributions, and its column indices are in range -/
theorem drain_accumRow (A B : Csr α) (hB : B.ColsOK) (i : Nat) :
    (drain (accumRow A B i (Acc.init B.cols))).2 = Acc.init B.cols ∧
    (∀ j, ksum (mulRow A B i) j = ksum (contrib A B i) j) ∧ (∀ e ∈ mulRow A B i, e.1 < B.cols) := by
  obtain ⟨hinv, hsum, htouch⟩ := Acc.foldl_add_spec (contrib A B i) (contrib_lt A B hB i) (Acc.init_inv (α := α) B.cols)
  rw [← accumRow_eq] at hinv hsum htouch
  unfold mulRow
  generalize accumRow A B i (Acc.init B.cols) = s at hinv hsum htouch
  have hsum' : ∀ j, rd s.sums j = ksum (contrib A B i) j := by
    intro j; rw [hsum, Acc.init]; show rd (Array.replicate B.cols 0) j + _ = _
    rw [rd_replicate_zero, zero_add]
  have htouch' : ∀ j, j ∈ s.touched ↔ ∃ e ∈ contrib A B i, e.1 = j := by
    intro j; rw [htouch]; simp [Acc.init]
  obtain ⟨sums', mark', e1, e2, e3, e4, e5⟩ := drain_fold s.touched hinv.nodup [] s.sums s.mark
  unfold drain
  rw [e1]
  have hzero : ∀ k, k ∉ s.touched → rd s.sums k = 0 := by
    intro k hk
    rw [hsum']
    apply ksum_eq_zero
    intro e he hek
    exact hk ((htouch' k).2 ⟨e, he, hek⟩)
  refine ⟨?_, ?_, ?_⟩
  · apply Acc.eq_init
    · show sums'.size = _; rw [e2, hinv.ssz]
    · intro k; show rd sums' k = 0
      rw [e4]
      by_cases hk : k ∈ s.touched
      · simp [hk]
      · simp [hk, hzero k hk]
    · show mark'.size = _; rw [e3, hinv.msz]
    · intro k; show mark'.getD k false = false
      rw [e5]
      by_cases hk : k ∈ s.touched
      · simp [hk]
      · simp only [hk, if_false]
        have := (hinv.mark_iff k).not.2 hk
        simpa using this
    · rfl
  · intro j
    show ksum ([] ++ emitted s.touched s.sums) j = _
    rw [List.nil_append, ksum_emitted _ hinv.nodup]
    by_cases hj : j ∈ s.touched
    · simp [hj, hsum']
    · rw [if_neg hj, ← hsum', hzero j hj]
  · intro e he
    have he' : e ∈ emitted s.touched s.sums := by simpa using he
    exact hinv.lt _ (mem_emitted_key _ _ e he')

theorem mulRows_eq (A B : Csr α) (hB : B.ColsOK) : mulRows A B = (List.range A.rows).map (mulRow A B) := by
  unfold mulRows
  have key : ∀ (is : List Nat) (rows0 : List (List (Nat × α))),
      is.foldl (fun (acc : List (List (Nat × α)) × Acc α) i =>
        let d := drain (accumRow A B i acc.2)
        (acc.1 ++ [d.1], d.2)) (rows0, Acc.init B.cols) = (rows0 ++ is.map (mulRow A B), Acc.init B.cols) := by
    intro is
    induction is with
    | nil => intro rows0; simp
    | cons i is ih =>
      intro rows0
      rw [List.foldl_cons]
      show List.foldl _ (rows0 ++ [(drain (accumRow A B i (Acc.init B.cols))).1],
        (drain (accumRow A B i (Acc.init B.cols))).2) is = _
      rw [(drain_accumRow A B hB i).1, ih]
      simp [mulRow]
  rw [key]; simp

theorem mul_row (A B : Csr α) (hB : B.ColsOK) (i : Nat) :
    (mul A B).row i = if i < A.rows then mulRow A B i else [] := by
  unfold mul
  rw [ofRows_row, mulRows_eq A B hB]
  by_cases hi : i < A.rows
  · simp [hi, List.getD_eq_getElem?_getD]
  · simp [hi, List.getD_eq_getElem?_getD]

theorem mul_colsOK (A B : Csr α) (hB : B.ColsOK) : (mul A B).ColsOK := by
  intro i e he
  rw [mul_row A B hB] at he
  by_cases hi : i < A.rows
  · rw [if_pos hi] at he
    exact (drain_accumRow A B hB i).2.2 e he
  · rw [if_neg hi] at he; simp at he

@[simp] theorem mul_rows (A B : Csr α) : (mul A B).rows = A.rows := rfl
@[simp] theorem mul_cols (A B : Csr α) : (mul A B).cols = B.cols := rfl

omit [DecidableEq α] in
theorem sum_map_key_mul (l : List (Nat × α)) (n : Nat) (hl : ∀ e ∈ l, e.1 < n) (g : Nat → α) :
    (l.map fun e => e.2 * g e.1).sum = ∑ k ∈ Finset.range n, ksum l k * g k := by
  induction l with
  | nil => simp
  | cons e l ih =>
    rw [List.map_cons, List.sum_cons, ih (fun e he => hl e (List.mem_cons_of_mem _ he))]
    simp only [ksum_cons, add_mul, Finset.sum_add_distrib]
    congr 1
    have : ∀ k, (if e.1 = k then e.2 else 0) * g k = if e.1 = k then e.2 * g e.1 else 0 := by
      intro k; by_cases h : e.1 = k <;> simp [h]
    simp only [this]
    rw [Finset.sum_ite_eq]
    simp [hl e List.mem_cons_self]

/-- **the product model computes the matrix product of the dense meanings** (entry form) -/
theorem val_mul (A B : Csr α) (hA : A.ColsOK) (hB : B.ColsOK) (hdim : A.cols ≤ B.rows) (i j : Nat) :
    (mul A B).val i j = ∑ k ∈ Finset.range A.cols, A.val i k * B.val k j := by
  unfold Csr.val
  rw [mul_row A B hB]
  show (if i < A.rows then _ else _) = _
  by_cases hi : i < A.rows
  · simp only [hi, if_true]
    rw [rowVal_eq_ksum, (drain_accumRow A B hB i).2.1, ksum_contrib]
    have h1 : ((A.row i).map fun e => e.2 * ksum (B.row e.1) j).sum =
        ((A.row i).map fun e => e.2 * (fun k => if k < B.rows then ksum (B.row k) j else 0) e.1).sum := by
      congr 1
      apply List.map_congr_left
      intro e he
      have : e.1 < B.rows := Nat.lt_of_lt_of_le (hA i e he) hdim
      simp [this]
    rw [h1, sum_map_key_mul _ A.cols (hA i) (fun k => if k < B.rows then ksum (B.row k) j else 0)]
    apply Finset.sum_congr rfl
    intro k _
    simp only [rowVal_eq_ksum]
  · simp [hi]

end drain

end mul

/-! ### well-formedness: `Csr.wf` (the Boolean check the driver applies to its input) gives `ColsOK`,
and every assembled matrix passes it -/

section wf
variable [OfNat α 0]

theorem mono_chain (f : Nat → Nat) (n : Nat) (h : ∀ i, i < n → f i ≤ f (i + 1)) :
    ∀ i k, i ≤ k → k ≤ n → f i ≤ f k := by
  intro i k hik hk
  induction k with
  | zero => have : i = 0 := by omega
            subst this; exact Nat.le_refl _
  | succ k ih =>
    by_cases h' : i = k + 1
    · subst h'; exact Nat.le_refl _
    · exact Nat.le_trans (ih (by omega) (by omega)) (h k (by omega))

omit [OfNat α 0] in
/-- the positions `indptr[i] .. indptr[i+1]` of any row lie inside the index array -/
theorem range_idx_lt (ap : Array Nat) (n m : Nat) (h1 : ap.size = n + 1)
    (h3 : ∀ i, i < n → rdN ap i ≤ rdN ap (i + 1)) (h4 : rdN ap n = m) (i jj : Nat)
    (hjj : jj ∈ List.range' (rdN ap i) (rdN ap (i + 1) - rdN ap i)) : jj < m := by
  rw [List.mem_range'_1] at hjj
  have hbig : ∀ t, n < t → rdN ap t = 0 := by
    intro t ht
    unfold rdN
    simp [Array.getD_eq_getD_getElem?, Array.getElem?_eq_none (by omega : ap.size ≤ t)]
  by_cases hi : i < n
  · have hle : rdN ap (i + 1) ≤ rdN ap n := mono_chain (rdN ap) n h3 (i + 1) n (by omega) (Nat.le_refl _)
    omega
  · have := hbig (i + 1) (by omega)
    omega

omit [OfNat α 0] in
theorem rdN_lt_of_all (a : Array Nat) (c : Nat) (h : ∀ j ∈ a.toList, j < c) (jj : Nat) (hjj : jj < a.size) :
    rdN a jj < c := by
  apply h
  unfold rdN
  simp [Array.getD_eq_getD_getElem?, Array.getElem?_eq_getElem hjj]

theorem Csr.wf_colsOK (A : Csr α) (h : A.wf = true) : ∀ i, ∀ e ∈ A.row i, e.1 < A.cols := by
  unfold Csr.wf at h
  simp only [Bool.and_eq_true, beq_iff_eq, List.all_eq_true, List.mem_range, decide_eq_true_eq] at h
  obtain ⟨⟨⟨⟨⟨h1, _⟩, h3⟩, h4⟩, _⟩, h6⟩ := h
  intro i e he
  unfold Csr.row at he
  rw [List.mem_map] at he
  obtain ⟨jj, hjj, rfl⟩ := he
  exact rdN_lt_of_all A.aj A.cols h6 jj (range_idx_lt A.ap A.rows A.aj.size h1 h3 h4 i jj hjj)

omit [OfNat α 0] in
theorem ofRows_wf (r c : Nat) (ls : List (List (Nat × α))) (hlen : ls.length = r)
    (hkeys : ∀ l ∈ ls, ∀ e ∈ l, e.1 < c) : (ofRows r c ls).wf = true := by
  have hap : ∀ t, t ≤ r → rdN (ofRows r c ls).ap t = (ls.take t).flatten.length := by
    intro t ht
    show rdN (0 :: scanAp ls 0).toArray t = _
    rw [rdN_toArray, scanAp_getD ls 0 t (by omega), Nat.zero_add]
  have hr : (ofRows r c ls).rows = r := rfl
  have hc : (ofRows r c ls).cols = c := rfl
  unfold Csr.wf
  simp only [Bool.and_eq_true, beq_iff_eq, List.all_eq_true, List.mem_range, decide_eq_true_eq, hr, hc]
  refine ⟨⟨⟨⟨⟨?_, ?_⟩, ?_⟩, ?_⟩, ?_⟩, ?_⟩
  · show (0 :: scanAp ls 0).toArray.size = r + 1
    simp [scanAp_length, hlen]
  · rw [hap 0 (by omega)]; simp
  · intro i hi
    rw [hap i (by omega), hap (i + 1) (by omega)]
    have hi' : i < ls.length := by omega
    rw [List.take_succ_eq_append_getElem hi', List.flatten_append, List.length_append]
    omega
  · rw [hap r (Nat.le_refl _), ← hlen, List.take_length]
    show _ = (ls.flatten.map _).toArray.size
    simp only [List.size_toArray, List.length_map]
  · show (ls.flatten.map _).toArray.size = (ls.flatten.map _).toArray.size
    simp only [List.size_toArray, List.length_map]
  · intro j hj
    simp only [ofRows, List.mem_map, List.mem_flatten] at hj
    obtain ⟨e, ⟨l, hl, hel⟩, rfl⟩ := hj
    exact hkeys l hl e hel

end wf

section mulwf
variable [Semiring α] [DecidableEq α]

theorem mul_wf (A B : Csr α) (hB : B.wf = true) : (mul A B).wf = true := by
  have hB' : B.ColsOK := B.wf_colsOK hB
  unfold mul
  apply ofRows_wf
  · rw [mulRows_eq A B hB']; simp
  · intro l hl e he
    rw [mulRows_eq A B hB', List.mem_map] at hl
    obtain ⟨i, _, rfl⟩ := hl
    exact (drain_accumRow A B hB' i).2.2 e he

end mulwf

/-! ### transpose, entrywise maps -/

section transpose
variable [AddCommMonoid α]

theorem sum_map_range_ite (n i : Nat) (g : Nat → α) :
    ((List.range n).map fun i' => if i' = i then g i' else 0).sum = if i < n then g i else 0 := by
  induction n with
  | zero => simp
  | succ n ih =>
    rw [List.range_succ, List.map_append, List.sum_append, ih]
    by_cases h : i < n
    · have : ¬ n = i := by omega
      simp [h, this, Nat.lt_succ_of_lt h]
    · by_cases h' : n = i
      · subst h'; simp
      · have : ¬ i < n + 1 := by omega
        simp [h, h', this]

theorem ksum_filterMap_col (l : List (Nat × α)) (c i' i : Nat) :
    ksum (l.filterMap fun e => if e.1 = c then some (i', e.2) else none) i = if i' = i then ksum l c else 0 := by
  induction l with
  | nil => simp
  | cons e l ih =>
    rw [List.filterMap_cons]
    by_cases hc : e.1 = c
    · simp only [hc, if_true]
      rw [ksum_cons, ih, ksum_cons]
      by_cases hi : i' = i <;> simp [hi, hc]
    · simp only [hc, if_false]
      rw [ih, ksum_cons]
      simp [hc]

theorem ksum_transposeRow (A : Csr α) (c i : Nat) :
    ksum (transposeRow A c) i = if i < A.rows then ksum (A.row i) c else 0 := by
  unfold transposeRow
  rw [ksum_flatMap]
  simp only [ksum_filterMap_col]
  exact sum_map_range_ite A.rows i (fun i' => ksum (A.row i') c)

theorem transpose_row (A : Csr α) (c : Nat) :
    (transpose A).row c = if c < A.cols then transposeRow A c else [] := by
  unfold transpose
  rw [ofRows_row]
  by_cases hc : c < A.cols <;> simp [hc, List.getD_eq_getElem?_getD]

theorem mem_transposeRow (A : Csr α) (c : Nat) : ∀ e ∈ transposeRow A c, e.1 < A.rows := by
  intro e he
  unfold transposeRow at he
  simp only [List.mem_flatMap, List.mem_range, List.mem_filterMap] at he
  obtain ⟨i, hi, e', _, h⟩ := he
  by_cases hc : e'.1 = c
  · simp only [hc, if_true, Option.some.injEq] at h
    rw [← h]; exact hi
  · simp [hc] at h

theorem transpose_wf (A : Csr α) : (transpose A).wf = true := by
  unfold transpose
  apply ofRows_wf
  · simp
  · intro l hl e he
    rw [List.mem_map] at hl
    obtain ⟨c, _, rfl⟩ := hl
    exact mem_transposeRow A c e he

/-- **the transpose model transposes the dense meaning** -/
theorem val_transpose (A : Csr α) (hA : A.wf = true) (i j : Nat) : (transpose A).val i j = A.val j i := by
  unfold Csr.val
  rw [transpose_row]
  show (if i < A.cols then _ else _) = _
  simp only [rowVal_eq_ksum]
  by_cases hi : i < A.cols
  · simp only [hi, if_true, ksum_transposeRow]
  · simp only [hi, if_false]
    by_cases hj : j < A.rows
    · simp only [hj, if_true]
      symm
      apply ksum_eq_zero
      intro e he h
      have := A.wf_colsOK hA j e he
      omega
    · simp [hj]

theorem rd_map (g : α → α) (hg : g 0 = 0) (a : Array α) (k : Nat) : rd (a.map g) k = g (rd a k) := by
  unfold rd
  simp only [Array.getD_eq_getD_getElem?, Array.getElem?_map]
  by_cases hk : k < a.size
  · simp [hk]
  · simp [hk, hg]

theorem mapVals_row (g : α → α) (hg : g 0 = 0) (A : Csr α) (i : Nat) :
    (mapVals g A).row i = (A.row i).map fun e => (e.1, g e.2) := by
  unfold Csr.row mapVals
  simp only [List.map_map]
  apply List.map_congr_left
  intro jj _
  simp [rd_map g hg]

theorem ksum_map_vals (g : α → α) (hg : g 0 = 0) (hadd : ∀ a b, g (a + b) = g a + g b)
    (l : List (Nat × α)) (j : Nat) : ksum (l.map fun e => (e.1, g e.2)) j = g (ksum l j) := by
  induction l with
  | nil => simp [hg]
  | cons e l ih =>
    rw [List.map_cons, ksum_cons, ksum_cons, ih, hadd]
    by_cases h : e.1 = j <;> simp [h, hg]

/-- entrywise additive maps (`.conjugate()`, a change of sign) act on the dense meaning entrywise -/
theorem val_mapVals (g : α → α) (hg : g 0 = 0) (hadd : ∀ a b, g (a + b) = g a + g b) (A : Csr α) (i j : Nat) :
    (mapVals g A).val i j = g (A.val i j) := by
  unfold Csr.val
  show (if i < A.rows then _ else _) = _
  by_cases hi : i < A.rows
  · simp only [hi, if_true, rowVal_eq_ksum, mapVals_row g hg, ksum_map_vals g hg hadd]
  · simp [hi, hg]

omit [AddCommMonoid α] in
theorem mapVals_wf (g : α → α) (A : Csr α) (hA : A.wf = true) : (mapVals g A).wf = true := by
  unfold Csr.wf at hA ⊢
  show (_ && A.aj.size == (A.ax.map g).size && _) = true
  rw [Array.size_map]
  exact hA

/-- `A.T.conjugate()` -/
theorem val_conjT (g : α → α) (hg : g 0 = 0) (hadd : ∀ a b, g (a + b) = g a + g b) (A : Csr α)
    (hA : A.wf = true) (i j : Nat) : (conjT g A).val i j = g (A.val j i) := by
  unfold conjT
  rw [val_mapVals g hg hadd, val_transpose A hA]

end transpose

/-! ### conversions to CSR preserve the dense meaning -/

section convert
variable [AddCommMonoid α]

theorem foldl_ite_add {β : Type} (l : List β) (p : β → Prop) [DecidablePred p] (g : β → α) (a : α) :
    l.foldl (fun s b => if p b then s + g b else s) a = a + (l.map fun b => if p b then g b else 0).sum := by
  induction l generalizing a with
  | nil => simp
  | cons b l ih =>
    rw [List.foldl_cons, ih, List.map_cons, List.sum_cons]
    by_cases h : p b
    · simp only [h, if_true, add_assoc]
    · simp only [h, if_false, zero_add]

theorem ksum_filterMap_ite {β : Type} (l : List β) (q : β → Prop) [DecidablePred q] (c : β → Nat) (g : β → α) (j : Nat) :
    ksum (l.filterMap fun n => if q n then some (c n, g n) else none) j
      = (l.map fun n => if q n ∧ c n = j then g n else 0).sum := by
  induction l with
  | nil => simp
  | cons b l ih =>
    rw [List.filterMap_cons, List.map_cons, List.sum_cons]
    by_cases h : q b
    · simp only [h, if_true, true_and]
      rw [ksum_cons, ih]
    · simp only [h, if_false, false_and, zero_add]
      exact ih

theorem ksum_insAdd (c : Nat) (v : α) (l : List (Nat × α)) (j : Nat) :
    ksum (insAdd c v l) j = ksum l j + if c = j then v else 0 := by
  induction l with
  | nil => simp [insAdd, ksum_cons]
  | cons e l ih =>
    unfold insAdd
    by_cases h1 : c < e.1
    · rw [if_pos h1, ksum_cons, add_comm]
    · by_cases h2 : c = e.1
      · rw [if_neg h1, if_pos h2, ksum_cons, ksum_cons, h2]
        by_cases h3 : e.1 = j
        · simp only [h3, if_true]
          rw [add_assoc, add_comm v, ← add_assoc]
        · simp [h3]
      · rw [if_neg h1, if_neg h2, ksum_cons, ih, ksum_cons, add_assoc]

theorem ksum_canon_aux (l acc : List (Nat × α)) (j : Nat) :
    ksum (l.foldl (fun acc e => insAdd e.1 e.2 acc) acc) j = ksum acc j + ksum l j := by
  induction l generalizing acc with
  | nil => simp
  | cons e l ih => rw [List.foldl_cons, ih, ksum_insAdd, ksum_cons, add_assoc]

/-- sorting a row and summing its duplicates does not change the sum under any key -/
theorem ksum_canon (l : List (Nat × α)) (j : Nat) : ksum (canon l) j = ksum l j := by
  unfold canon
  rw [ksum_canon_aux, ksum_nil, zero_add]

theorem mem_insAdd (c : Nat) (v : α) (l : List (Nat × α)) :
    ∀ x ∈ insAdd c v l, x.1 = c ∨ ∃ y ∈ l, y.1 = x.1 := by
  induction l with
  | nil => intro x hx; simp [insAdd] at hx; exact Or.inl (by rw [hx])
  | cons e l ih =>
    intro x hx
    unfold insAdd at hx
    by_cases h1 : c < e.1
    · rw [if_pos h1] at hx
      simp only [List.mem_cons] at hx
      rcases hx with rfl | rfl | hx
      · exact Or.inl rfl
      · exact Or.inr ⟨_, List.mem_cons_self, rfl⟩
      · exact Or.inr ⟨x, List.mem_cons_of_mem _ hx, rfl⟩
    · by_cases h2 : c = e.1
      · rw [if_neg h1, if_pos h2] at hx
        simp only [List.mem_cons] at hx
        rcases hx with rfl | hx
        · exact Or.inr ⟨e, List.mem_cons_self, rfl⟩
        · exact Or.inr ⟨x, List.mem_cons_of_mem _ hx, rfl⟩
      · rw [if_neg h1, if_neg h2] at hx
        simp only [List.mem_cons] at hx
        rcases hx with rfl | hx
        · exact Or.inr ⟨_, List.mem_cons_self, rfl⟩
        · rcases ih x hx with h | ⟨y, hy, hyx⟩
          · exact Or.inl h
          · exact Or.inr ⟨y, List.mem_cons_of_mem _ hy, hyx⟩

theorem mem_canon_aux (l acc : List (Nat × α)) :
    ∀ x ∈ l.foldl (fun acc e => insAdd e.1 e.2 acc) acc, (∃ y ∈ acc, y.1 = x.1) ∨ ∃ y ∈ l, y.1 = x.1 := by
  induction l generalizing acc with
  | nil => intro x hx; exact Or.inl ⟨x, hx, rfl⟩
  | cons e l ih =>
    intro x hx
    rw [List.foldl_cons] at hx
    rcases ih _ x hx with ⟨y, hy, hyx⟩ | ⟨y, hy, hyx⟩
    · rcases mem_insAdd _ _ _ y hy with h | ⟨z, hz, hzy⟩
      · exact Or.inr ⟨e, List.mem_cons_self, by rw [← hyx, h]⟩
      · exact Or.inl ⟨z, hz, by rw [hzy, hyx]⟩
    · exact Or.inr ⟨y, List.mem_cons_of_mem _ hy, hyx⟩

/-- the column indices of the canonical row are column indices of the row -/
theorem mem_canon (l : List (Nat × α)) : ∀ x ∈ canon l, ∃ y ∈ l, y.1 = x.1 := by
  intro x hx
  rcases mem_canon_aux l [] x hx with ⟨y, hy, _⟩ | h
  · simp at hy
  · exact h

theorem insAdd_sorted (c : Nat) (v : α) (l : List (Nat × α)) (hl : l.Pairwise (fun a b => a.1 < b.1)) :
    (insAdd c v l).Pairwise (fun a b => a.1 < b.1) := by
  induction l with
  | nil => simp [insAdd]
  | cons e l ih =>
    obtain ⟨he, hl'⟩ := List.pairwise_cons.1 hl
    unfold insAdd
    by_cases h1 : c < e.1
    · rw [if_pos h1]
      refine List.pairwise_cons.2 ⟨?_, hl⟩
      intro x hx
      rcases List.mem_cons.1 hx with rfl | hx
      · exact h1
      · exact Nat.lt_trans h1 (he x hx)
    · by_cases h2 : c = e.1
      · rw [if_neg h1, if_pos h2]
        exact List.pairwise_cons.2 ⟨he, hl'⟩
      · rw [if_neg h1, if_neg h2]
        refine List.pairwise_cons.2 ⟨?_, ih hl'⟩
        intro x hx
        rcases mem_insAdd c v l x hx with h | ⟨y, hy, hyx⟩
        · rw [h]; omega
        · rw [← hyx]; exact he y hy

/-- the canonical row is strictly sorted by column: sorted indices, no duplicates -/
theorem canon_sorted (l : List (Nat × α)) : (canon l).Pairwise (fun a b => a.1 < b.1) := by
  unfold canon
  have : ∀ acc : List (Nat × α), acc.Pairwise (fun a b => a.1 < b.1) →
      (l.foldl (fun acc e => insAdd e.1 e.2 acc) acc).Pairwise (fun a b => a.1 < b.1) := by
    induction l with
    | nil => intro acc h; exact h
    | cons e l ih => intro acc h; rw [List.foldl_cons]; exact ih _ (insAdd_sorted _ _ _ h)
  exact this [] List.Pairwise.nil

/-! COO -/

theorem Coo.ksum_rowEntries (X : Coo α) (i j : Nat) : ksum (X.rowEntries i) j = X.val i j := by
  unfold Coo.rowEntries Coo.val
  rw [ksum_filterMap_ite, foldl_ite_add, zero_add]

omit [AddCommMonoid α] in
theorem Coo.wf_spec (X : Coo α) (h : X.wf = true) :
    (∀ n, n < X.x.size → rdN X.ri n < X.rows) ∧ (∀ n, n < X.x.size → rdN X.ci n < X.cols) := by
  unfold Coo.wf at h
  simp only [Bool.and_eq_true, beq_iff_eq, List.all_eq_true, decide_eq_true_eq] at h
  obtain ⟨⟨⟨h1, h2⟩, h3⟩, h4⟩ := h
  exact ⟨fun n hn => rdN_lt_of_all _ _ h3 n (by omega), fun n hn => rdN_lt_of_all _ _ h4 n (by omega)⟩

theorem cooToCsr_wf (X : Coo α) (h : X.wf = true) : (cooToCsr X).wf = true := by
  unfold cooToCsr
  apply ofRows_wf
  · simp
  · intro l hl e he
    rw [List.mem_map] at hl
    obtain ⟨i, _, rfl⟩ := hl
    obtain ⟨y, hy, hye⟩ := mem_canon _ e he
    unfold Coo.rowEntries at hy
    rw [List.mem_filterMap] at hy
    obtain ⟨n, hn, hh⟩ := hy
    by_cases hr : rdN X.ri n = i
    · simp only [hr, if_true, Option.some.injEq] at hh
      rw [← hye, ← hh]
      exact (X.wf_spec h).2 n (List.mem_range.1 hn)
    · simp [hr] at hh

/-- **COO -> CSR (duplicates summed) preserves the dense meaning** -/
theorem val_cooToCsr (X : Coo α) (h : X.wf = true) (i j : Nat) : (cooToCsr X).val i j = X.val i j := by
  unfold Csr.val cooToCsr
  rw [ofRows_row]
  show (if i < X.rows then _ else _) = _
  by_cases hi : i < X.rows
  · simp only [hi, if_true, rowVal_eq_ksum]
    rw [show ((List.range X.rows).map fun i => canon (X.rowEntries i)).getD i [] = canon (X.rowEntries i) by
      simp [List.getD_eq_getElem?_getD, hi]]
    rw [ksum_canon, Coo.ksum_rowEntries]
  · simp only [hi, if_false]
    unfold Coo.val
    rw [foldl_ite_add, zero_add]
    symm
    apply List.sum_eq_zero
    intro v hv
    rw [List.mem_map] at hv
    obtain ⟨n, hn, rfl⟩ := hv
    have := (X.wf_spec h).1 n (List.mem_range.1 hn)
    have hne : ¬ (rdN X.ri n = i ∧ rdN X.ci n = j) := fun hh => by omega
    simp [hne]

/-- `sum_duplicates()` of a CSR matrix preserves the dense meaning -/
theorem val_sumDuplicates (A : Csr α) (i j : Nat) : (sumDuplicates A).val i j = A.val i j := by
  unfold Csr.val sumDuplicates
  rw [ofRows_row]
  show (if i < A.rows then _ else _) = _
  by_cases hi : i < A.rows
  · simp only [hi, if_true, rowVal_eq_ksum]
    rw [show ((List.range A.rows).map fun i => canon (A.row i)).getD i [] = canon (A.row i) by
      simp [List.getD_eq_getElem?_getD, hi]]
    rw [ksum_canon]
  · simp [hi]

/-- ... and its rows are strictly sorted -/
theorem sumDuplicates_sorted (A : Csr α) (i : Nat) : ((sumDuplicates A).row i).Pairwise (fun a b => a.1 < b.1) := by
  unfold sumDuplicates
  rw [ofRows_row]
  by_cases hi : i < A.rows
  · rw [show ((List.range A.rows).map fun i => canon (A.row i)).getD i [] = canon (A.row i) by
      simp [List.getD_eq_getElem?_getD, hi]]
    exact canon_sorted _
  · simp [List.getD_eq_getElem?_getD, hi]

theorem cooToCsr_sorted (X : Coo α) (i : Nat) : ((cooToCsr X).row i).Pairwise (fun a b => a.1 < b.1) := by
  unfold cooToCsr
  rw [ofRows_row]
  by_cases hi : i < X.rows
  · rw [show ((List.range X.rows).map fun i => canon (X.rowEntries i)).getD i [] = canon (X.rowEntries i) by
      simp [List.getD_eq_getElem?_getD, hi]]
    exact canon_sorted _
  · simp [List.getD_eq_getElem?_getD, hi]

/-! CSC -/

/-- **CSC -> CSR preserves the dense meaning** -/
theorem val_cscToCsr (X : Csc α) (h : X.wf = true) (i j : Nat) : (cscToCsr X).val i j = X.val i j := by
  unfold cscToCsr Csc.val
  exact val_transpose X.asCsrT h i j

theorem cscToCsr_wf (X : Csc α) : (cscToCsr X).wf = true := transpose_wf _

/-- `A.T` (a CSC view of the arrays of `A`) brought back to CSR is the transpose model -/
theorem cscToCsr_asCscT (A : Csr α) : cscToCsr A.asCscT = transpose A := rfl

/-! dense -/

theorem ksum_range_filterMap [DecidableEq α] (n : Nat) (g : Nat → α) (j : Nat) :
    ksum ((List.range n).filterMap fun c => if g c = 0 then none else some (c, g c)) j = if j < n then g j else 0 := by
  induction n with
  | zero => simp
  | succ n ih =>
    rw [List.range_succ, List.filterMap_append, ksum_append, ih]
    have hone : ksum (List.filterMap (fun c => if g c = 0 then none else some (c, g c)) [n]) j
        = if n = j then g n else 0 := by
      by_cases hz : g n = 0
      · simp [hz]
      · simp [hz, ksum_cons]
    rw [hone]
    by_cases h : j < n
    · have : ¬ n = j := by omega
      simp [h, this, Nat.lt_succ_of_lt h]
    · by_cases h' : n = j
      · subst h'; simp
      · have : ¬ j < n + 1 := by omega
        simp [h, h', this]

theorem denseToCsr_wf [DecidableEq α] (D : Dense α) : (denseToCsr D).wf = true := by
  unfold denseToCsr
  apply ofRows_wf
  · simp
  · intro l hl e he
    rw [List.mem_map] at hl
    obtain ⟨i, _, rfl⟩ := hl
    rw [List.mem_filterMap] at he
    obtain ⟨c, hc, hh⟩ := he
    by_cases hz : D.val i c = 0
    · simp [hz] at hh
    · simp only [hz, if_false, Option.some.injEq] at hh
      rw [← hh]; exact List.mem_range.1 hc

/-- **dense -> CSR preserves the dense meaning** (the zeros it drops do not matter) -/
theorem val_denseToCsr [DecidableEq α] (D : Dense α) (h : D.wf = true) (i j : Nat) :
    (denseToCsr D).val i j = D.val i j := by
  unfold Csr.val denseToCsr
  rw [ofRows_row]
  show (if i < D.rows then _ else _) = _
  by_cases hi : i < D.rows
  · simp only [hi, if_true, rowVal_eq_ksum]
    rw [show ((List.range D.rows).map fun i => (List.range D.cols).filterMap fun j =>
        if D.val i j = 0 then none else some (j, D.val i j)).getD i [] =
        (List.range D.cols).filterMap fun j => if D.val i j = 0 then none else some (j, D.val i j) by
      simp [List.getD_eq_getElem?_getD, hi]]
    rw [ksum_range_filterMap D.cols (fun c => D.val i c) j]
    by_cases hj : j < D.cols
    · simp [hj]
    · simp [hj, Dense.val]
  · simp only [hi, if_false]
    unfold Dense.val
    by_cases hj : j < D.cols
    · simp only [hj, if_true]
      unfold Dense.wf at h
      have hsz : D.data.size = D.rows * D.cols := by simpa using h
      have hle : D.rows * D.cols ≤ i * D.cols := Nat.mul_le_mul_right _ (by omega)
      unfold rd
      simp [Array.getD_eq_getD_getElem?, Array.getElem?_eq_none (by omega : D.data.size ≤ i * D.cols + j)]
    · simp [hj]

/-! BSR -/

theorem ksum_range_shift (n b : Nat) (g : Nat → α) (j : Nat) :
    ksum ((List.range n).map fun c => (b + c, g c)) j = if b ≤ j ∧ j < b + n then g (j - b) else 0 := by
  induction n with
  | zero => simp
  | succ n ih =>
    rw [List.range_succ, List.map_append, ksum_append, ih]
    simp only [List.map_cons, List.map_nil, ksum_cons, ksum_nil, add_zero]
    by_cases h : b ≤ j ∧ j < b + n
    · have h1 : ¬ b + n = j := by omega
      have h2 : b ≤ j ∧ j < b + (n + 1) := by omega
      simp [h, h1, h2]
    · by_cases h' : b + n = j
      · have h2 : b ≤ j ∧ j < b + (n + 1) := by omega
        have h3 : j - b = n := by omega
        simp [h', h2, h3]
      · have h2 : ¬ (b ≤ j ∧ j < b + (n + 1)) := by omega
        simp [h, h', h2]

theorem block_col_iff (bj bc j : Nat) (hbc : 0 < bc) : (bj * bc ≤ j ∧ j < bj * bc + bc) ↔ bj = j / bc := by
  constructor
  · rintro ⟨h1, h2⟩
    symm
    apply Nat.div_eq_of_lt_le
    · exact h1
    · rw [Nat.add_mul, Nat.one_mul]; exact h2
  · intro h
    subst h
    have := Nat.div_add_mod j bc
    have h2 := Nat.mod_lt j hbc
    rw [Nat.mul_comm] at this
    omega

omit [AddCommMonoid α] in
theorem Bsr.wf_spec (X : Bsr α) (h : X.wf = true) :
    0 < X.br ∧ 0 < X.bc ∧ X.cols % X.bc = 0 ∧ ∀ I, ∀ b ∈ X.blockRow I, b.1 < X.cols / X.bc := by
  unfold Bsr.wf at h
  simp only [Bool.and_eq_true, beq_iff_eq, List.all_eq_true, List.mem_range, decide_eq_true_eq] at h
  obtain ⟨⟨⟨⟨⟨⟨⟨⟨⟨h1, h2⟩, _⟩, h4⟩, h5⟩, _⟩, h7⟩, h8⟩, _⟩, h10⟩ := h
  refine ⟨h1, h2, h4, ?_⟩
  intro I b hb
  unfold Bsr.blockRow at hb
  rw [List.mem_map] at hb
  obtain ⟨jj, hjj, rfl⟩ := hb
  exact rdN_lt_of_all X.aj _ h10 jj (range_idx_lt X.ap (X.rows / X.br) X.aj.size h5 h7 h8 I jj hjj)

theorem bsrToCsr_wf (X : Bsr α) (h : X.wf = true) : (bsrToCsr X).wf = true := by
  obtain ⟨_, hbc, hmod, hb⟩ := X.wf_spec h
  unfold bsrToCsr
  apply ofRows_wf
  · simp
  · intro l hl e he
    rw [List.mem_map] at hl
    obtain ⟨i, _, rfl⟩ := hl
    simp only [List.mem_flatMap, List.mem_map, List.mem_range] at he
    obtain ⟨b, hbm, c, hc, rfl⟩ := he
    have h1 := hb _ b hbm
    show b.1 * X.bc + c < X.cols
    have h2 : (b.1 + 1) * X.bc ≤ (X.cols / X.bc) * X.bc := Nat.mul_le_mul_right _ h1
    have h3 : (X.cols / X.bc) * X.bc ≤ X.cols := Nat.div_mul_le_self _ _
    rw [Nat.add_mul, Nat.one_mul] at h2
    omega

/-- **BSR -> CSR (any block size; `1 x 1` is the case the task names) preserves the dense meaning** -/
theorem val_bsrToCsr (X : Bsr α) (hbc : 0 < X.bc) (i j : Nat) : (bsrToCsr X).val i j = X.val i j := by
  unfold Csr.val bsrToCsr Bsr.val
  rw [ofRows_row]
  show (if i < X.rows then _ else _) = _
  by_cases hi : i < X.rows
  · simp only [hi, if_true, rowVal_eq_ksum]
    rw [show ((List.range X.rows).map fun i => (X.blockRow (i / X.br)).flatMap fun b =>
        (List.range X.bc).map fun c => (b.1 * X.bc + c, X.blk b.2 (i % X.br) c)).getD i [] =
        (X.blockRow (i / X.br)).flatMap fun b =>
          (List.range X.bc).map fun c => (b.1 * X.bc + c, X.blk b.2 (i % X.br) c) by
      simp [List.getD_eq_getElem?_getD, hi]]
    rw [ksum_flatMap, foldl_ite_add, zero_add]
    congr 1
    apply List.map_congr_left
    intro b _
    rw [ksum_range_shift X.bc (b.1 * X.bc) (fun c => X.blk b.2 (i % X.br) c) j]
    by_cases hb : b.1 = j / X.bc
    · have := (block_col_iff b.1 X.bc j hbc).2 hb
      have hmod : j - b.1 * X.bc = j % X.bc := by
        rw [hb]
        have := Nat.div_add_mod j X.bc
        rw [Nat.mul_comm] at this
        omega
      rw [if_pos this, if_pos hb, hmod]
    · have := (block_col_iff b.1 X.bc j hbc).not.2 hb
      rw [if_neg this, if_neg hb]
  · simp [hi]

end convert

end PyamgV.Spmm
