import PyamgV.Model.ExtC17CkR3Interior
import PyamgV.Proofs.ExtC17SafeInterp
import PyamgV.Proofs.ExtC17Safe

/-! PyamgV (C17, extension E19): bounds-safety of the `Ck` model of `most_interior_nodes`
(`Model/ExtC17CkR3Interior.lean`).  The last loop indexes `c` with `m[i]` *after* `bellman_ford` has
rewritten `m`, so the Bellman-Ford pass is re-proved with the additional invariant that every entry of
`m` is `-1` or a cluster number (it only copies entries of `m`).  Core Lean only. -/
namespace PyamgV.C17
open PyamgV.Ck

set_option linter.unusedSectionVars false
set_option linter.unusedVariables false
variable {α : Type} [Inhabited α]

/-- every entry of `m` is `-1` (unassigned) or a cluster number below `nc` -/
def MOk (nc : Nat) (m : Array Int) : Prop :=
  ∀ k, k < m.size → m.getD k 0 = -1 ∨ (0 ≤ m.getD k 0 ∧ m.getD k 0 < (nc : Int))

theorem mok_set {nc : Nat} {m : Array Int} (h : MOk nc m) (j i : Nat) (hi : i < m.size) :
    MOk nc (m.setIfInBounds j (m.getD i 0)) := by
  intro k hk
  rw [Array.size_setIfInBounds] at hk
  rw [getD_setInt]
  by_cases hc : j = k ∧ j < m.size
  · rw [if_pos hc]; exact h i hi
  · rw [if_neg hc]; exact h k hk

def BFInv2 (n nc : Nat) (st : BF α) : Prop := BFInv n st ∧ MOk nc st.2.1

/-- one Bellman-Ford pass keeps the array lengths and the range of the cluster numbers -/
theorem bfPass_safe2 (o : BOps α) (G : Csr α) (hG : WFm G G.n) (nc : Nat) (st : BF α)
    (hst : BFInv2 G.n nc st) : Safe (bfPass o G st) (BFInv2 G.n nc) := by
  unfold bfPass
  apply forRange_safe (BFInv2 G.n nc) 0 (G.n : Int) _ _
    (show BFInv2 G.n nc (st.1, st.2.1, st.2.2.1, true) from hst)
  intro i i0 i1 st1 hst1
  have hin : i.toNat < G.n := by omega
  obtain ⟨q1, q2⟩ := rd_ap_safe G hG i i0 i1
  refine Safe.bind q1 (fun s hs => ?_)
  refine Safe.bind q2 (fun e he => ?_)
  subst hs; subst he
  apply forRange_safe (BFInv2 G.n nc) _ _ _ _ hst1
  intro jj j1 j2 st2 hst2
  obtain ⟨⟨h1, h2, h3⟩, h4⟩ := hst2
  have hr := row_range_m G hG i.toNat hin jj j1 j2
  refine Safe.bind (rd_safe G.aj jj hr.1 hr.2.1) (fun j hj => ?_)
  have hc := col_ok G hG jj hr.1 hr.2.1 j hj
  refine Safe.bind (rd_safe G.ax jj hr.1 hr.2.2) (fun a _ => ?_)
  refine Safe.bind (rd_safe st2.1 i i0 (by rw [h1]; exact hin)) (fun di _ => ?_)
  refine Safe.bind (rd_safe st2.1 j hc.1 (by rw [h1]; exact hc.2)) (fun dj _ => ?_)
  by_cases hlt : o.lt (o.add di a) dj = true
  · rw [if_pos hlt]
    refine Safe.bind (wr_safe st2.1 j _ hc.1 (by rw [h1]; exact hc.2)) (fun d hd => ?_)
    refine Safe.bind (rd_safe st2.2.1 i i0 (by rw [h2]; exact hin)) (fun mi hmi => ?_)
    refine Safe.bind (wr_val st2.2.1 j mi hc.1 (by rw [h2]; exact hc.2)) (fun m hm => ?_)
    refine Safe.bind (wr_safe st2.2.2.1 j i hc.1 (by rw [h3]; exact hc.2)) (fun p hp => ?_)
    have hmi' : mi = st2.2.1.getD i.toNat 0 := hmi
    refine Safe.pure ⟨⟨by show d.size = G.n; rw [hd, h1], by show m.size = G.n; rw [hm]; simp [h2],
      by show p.size = G.n; rw [hp, h3]⟩, ?_⟩
    show MOk nc m
    rw [hm, hmi']
    exact mok_set h4 j.toNat i.toNat (by rw [h2]; exact hin)
  · rw [if_neg hlt]; exact Safe.pure ⟨⟨h1, h2, h3⟩, h4⟩

theorem bellmanFord_safe2 (o : BOps α) (G : Csr α) (hG : WFm G G.n) (nc : Nat) :
    ∀ (fuel : Nat) (st : Ck (BF α)), Safe st (BFInv2 G.n nc) → Safe (bellmanFord o G fuel st) (BFInv2 G.n nc) := by
  intro fuel
  induction fuel with
  | zero => intro st hst; exact hst
  | succ f ih =>
    intro st hst
    unfold bellmanFord
    by_cases hd : st.val.2.2.2 = true
    · rw [if_pos hd]; exact hst
    · rw [if_neg hd]
      exact ih _ (Safe.bind hst (fun a ha => bfPass_safe2 o G hG nc a ha))

theorem miBoundary_safe (zero : α) (G : Csr α) (hG : WFm G G.n) (m : Array Int) (hm : m.size = G.n)
    (d : Array α) (hd : d.size = G.n) :
    Safe (miBoundary zero G m d) (fun d' => d'.size = G.n) := by
  unfold miBoundary
  apply forRange_safe (fun d' : Array α => d'.size = G.n) _ _ _ _ hd
  intro i i0 i1 d' hd'
  have hin : i.toNat < G.n := by omega
  obtain ⟨q1, q2⟩ := rd_ap_safe G hG i i0 i1
  refine Safe.bind q1 (fun s hs => ?_)
  refine Safe.bind q2 (fun e he => ?_)
  subst hs; subst he
  refine Safe.bind (P := fun st : Array α × Bool => st.1.size = G.n) ?_ (fun r hr => Safe.pure hr)
  apply forRange_safe (fun st : Array α × Bool => st.1.size = G.n) _ _ _ _ hd'
  intro jj j1 j2 st hst
  by_cases hb : st.2 = true
  · rw [if_pos hb]; exact Safe.pure hst
  · rw [if_neg hb]
    have hr := row_range_m G hG i.toNat hin jj j1 j2
    refine Safe.bind (rd_safe G.aj jj hr.1 hr.2.1) (fun j hj => ?_)
    have hc := col_ok G hG jj hr.1 hr.2.1 j hj
    refine Safe.bind (rd_safe m i i0 (by rw [hm]; exact hin)) (fun mi _ => ?_)
    refine Safe.bind (rd_safe m j hc.1 (by rw [hm]; exact hc.2)) (fun mj _ => ?_)
    by_cases hne : mi ≠ mj
    · rw [if_pos hne]
      refine Safe.bind (wr_safe st.1 i zero i0 (by rw [hst]; exact hin)) (fun d2 hd2 => ?_)
      exact Safe.pure (by show d2.size = G.n; rw [hd2, hst])
    · rw [if_neg hne]; exact Safe.pure hst

theorem miCenters_safe (o : BOps α) (n nc : Nat) (d : Array α) (hd : d.size = n) (m : Array Int)
    (hm : m.size = n) (hmok : MOk nc m) (c : Array Int) (hc : c.size = nc) (hcn : IdxIn c n) :
    Safe (miCenters o n d m c) (fun st => st.1.size = nc ∧ IdxIn st.1 n) := by
  unfold miCenters
  apply forRange_safe (fun st : Array Int × Bool => st.1.size = nc ∧ IdxIn st.1 n) _ _ _ _ ⟨hc, hcn⟩
  intro i i0 i1 st hst
  have hin : i.toNat < n := by omega
  refine Safe.bind (rd_safe m i i0 (by rw [hm]; exact hin)) (fun a ha => ?_)
  have ha' : a = m.getD i.toNat 0 := ha
  by_cases hu : a = -1
  · rw [if_pos hu]; exact Safe.pure hst
  · rw [if_neg hu]
    have hr := hmok i.toNat (by rw [hm]; exact hin)
    rw [← ha'] at hr
    have har : 0 ≤ a ∧ a < (nc : Int) := by
      rcases hr with hr | hr
      · exact absurd hr hu
      · exact hr
    have has : a.toNat < st.1.size := by rw [hst.1]; omega
    refine Safe.bind (rd_safe st.1 a har.1 has) (fun ca hca => ?_)
    have hcav := hst.2 a.toNat has
    have hca' : ca = st.1.getD a.toNat 0 := hca
    rw [← hca'] at hcav
    refine Safe.bind (rd_safe d ca hcav.1 (by rw [hd]; omega)) (fun dca _ => ?_)
    refine Safe.bind (rd_safe d i i0 (by rw [hd]; exact hin)) (fun di _ => ?_)
    by_cases hlt : o.lt dca di = true
    · rw [if_pos hlt]
      refine Safe.bind (wr_val st.1 a i har.1 has) (fun c' hc' => ?_)
      refine Safe.pure ⟨by show c'.size = nc; rw [hc']; simp [hst.1], ?_⟩
      show IdxIn c' n
      intro k hk
      rw [hc', getD_setInt]
      by_cases hcnd : a.toNat = k ∧ a.toNat < st.1.size
      · rw [if_pos hcnd]; exact ⟨i0, i1⟩
      · rw [if_neg hcnd]
        refine hst.2 k ?_
        rw [hc', Array.size_setIfInBounds] at hk; exact hk
    · rw [if_neg hlt]; exact Safe.pure hst

/-- **`most_interior_nodes`**: `A` a structurally valid `n × n` CSR matrix, `d`, `m`, `p` of length `n`, every entry of
`m` either `-1` or a cluster number below `|c|`, every entry of `c` a node; whatever the number of Bellman-Ford
passes.  The read `d[c[m[i]]]` is in range because Bellman-Ford only copies entries of `m` and the loop only
stores nodes into `c`. -/
theorem mostInterior_safe (o : BOps α) (zero inf : α) (G : Csr α) (hG : WFm G G.n) (fuel : Nat) (c : Array Int)
    (hcn : IdxIn c G.n) (d : Array α) (hd : d.size = G.n) (m p : Array Int) (hm : m.size = G.n)
    (hp : p.size = G.n) (hmok : MOk c.size m) :
    Safe (mostInterior o zero inf G fuel c d m p)
      (fun r => r.1.1.size = c.size ∧ IdxIn r.1.1 G.n ∧ BFInv G.n r.2) := by
  unfold mostInterior
  refine Safe.bind (P := fun d' : Array α => d'.size = G.n) ?_ (fun d1 hd1 => ?_)
  · apply forRange_safe (fun d' : Array α => d'.size = G.n) _ _ _ _ hd
    intro k k0 k1 d' hd'
    exact Safe.mono (wr_safe d' k inf k0 (by rw [hd', ← hd]; omega)) (fun a' h => by rw [h, hd'])
  refine Safe.bind (miBoundary_safe zero G hG m hm d1 hd1) (fun d2 hd2 => ?_)
  refine Safe.bind (bellmanFord_safe2 o G hG c.size fuel (pure (d2, m, p, false))
    (Safe.pure ⟨⟨hd2, hm, hp⟩, hmok⟩)) (fun bf hbf => ?_)
  refine Safe.bind (miCenters_safe o G.n c.size bf.1 hbf.1.1 bf.2.1 hbf.1.2.1 hbf.2 c rfl hcn) (fun cc hcc => ?_)
  exact Safe.pure ⟨hcc.1, hcc.2, hbf.1⟩

end PyamgV.C17
