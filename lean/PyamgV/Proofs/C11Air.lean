import PyamgV.Model.C11
import Mathlib.Algebra.Order.Ring.Rat
import Mathlib.Algebra.Field.Rat
import Mathlib.Algebra.BigOperators.Group.List.Basic
import Mathlib.Tactic.Ring

/-! PyamgV (C11): the row of the local approximate ideal restriction computed by the executable
model `C11M.airRow` (Model/C11.lean: neighbourhood of `approx_ideal_restriction_pass1/2`, exact
local solve, verified before it is returned).  Whenever the model returns a row `r` for the
C-point `c`:

* `r` = (neighbourhood ↦ solution) followed by the identity entry `(c, 1)`;
* every neighbourhood column is an F-point, strongly connected to `c` or (distance 2) to an
  F-point strongly connected to `c` — hence the only C-column of the row is `c` itself, value 1
  (identity block on the coarse points);
* `(R A)[c, f] = 0` for every column `f` of the neighbourhood. -/
namespace PyamgV.C11M
open PyamgV.N

theorem mem_setInsert {a x : Nat} {l : List Nat} : x ∈ setInsert a l ↔ x = a ∨ x ∈ l := by
  induction l with
  | nil => simp [setInsert]
  | cons b l ih =>
    unfold setInsert
    by_cases h1 : a < b
    · simp [h1]
    · by_cases h2 : a = b
      · subst h2; simp
      · simp only [h1, h2, if_false, List.mem_cons, ih]
        constructor
        · rintro (h | h | h)
          · exact Or.inr (Or.inl h)
          · exact Or.inl h
          · exact Or.inr (Or.inr h)
        · rintro (h | h | h)
          · exact Or.inr (Or.inl h)
          · exact Or.inl h
          · exact Or.inr (Or.inr h)

theorem foldl_inv {α β : Type} (P : β → Prop) (f : β → α → β) (l : List α) (b : β) (hb : P b)
    (hf : ∀ b a, a ∈ l → P b → P (f b a)) : P (l.foldl f b) := by
  induction l generalizing b with
  | nil => exact hb
  | cons a rest ih =>
    simp only [List.foldl_cons]
    exact ih (f b a) (hf b a (by simp) hb) (fun b' a' ha' => hf b' a' (by simp [ha']))

/-- strong neighbours (columns of the strength row) of a point -/
def nbrs (S : Csr) (p : Nat) : List Nat := (S.jjs p).map (fun i => rdN S.aj i)

/-- what membership in the neighbourhood means -/
def InNbhd (S : Csr) (split : Array Int) (distance c x : Nat) : Prop :=
  isF split x = true ∧
    (x ∈ nbrs S c ∨ (distance = 2 ∧ ∃ p ∈ nbrs S c, isF split p = true ∧ x ∈ nbrs S p))

/-- soundness of the neighbourhood: F-points within strength distance `distance` of `c` -/
theorem nbrF_sound (S : Csr) (split : Array Int) (distance c : Nat) :
    ∀ x ∈ nbrF S split distance c, InNbhd S split distance c x := by
  unfold nbrF
  apply foldl_inv (fun cols => ∀ x ∈ cols, InNbhd S split distance c x)
  · intro x hx; simp at hx
  · intro cols i hi hcols
    have hp : rdN S.aj i ∈ nbrs S c := List.mem_map.2 ⟨i, hi, rfl⟩
    by_cases hF : isF split (rdN S.aj i) = true
    · simp only [hF, if_true]
      have h1 : ∀ x ∈ setInsert (rdN S.aj i) cols, InNbhd S split distance c x := by
        intro x hx
        rcases mem_setInsert.1 hx with rfl | hx
        · exact ⟨hF, Or.inl hp⟩
        · exact hcols x hx
      by_cases hd : distance = 2
      · simp only [hd, if_true]
        apply foldl_inv (fun cols => ∀ x ∈ cols, InNbhd S split 2 c x)
        · intro x hx; have := h1 x hx; rwa [hd] at this
        · intro cols' kk hkk hc'
          by_cases hF2 : isF split (rdN S.aj kk) = true
          · simp only [hF2, if_true]
            intro x hx
            rcases mem_setInsert.1 hx with rfl | hx
            · exact ⟨hF2, Or.inr ⟨rfl, rdN S.aj i, hp, hF, List.mem_map.2 ⟨kk, hkk, rfl⟩⟩⟩
            · exact hc' x hx
          · simp only [hF2]; exact hc'
      · simp only [hd, if_false]; exact h1
    · simp only [hF]; exact hcols


/-! completeness of the neighbourhood -/

theorem foldl_mono {α : Type} (f : List Nat → α → List Nat) (hmono : ∀ cols a x, x ∈ cols → x ∈ f cols a)
    (l : List α) (b : List Nat) (x : Nat) (hx : x ∈ b) : x ∈ l.foldl f b := by
  induction l generalizing b with
  | nil => exact hx
  | cons a rest ih => simp only [List.foldl_cons]; exact ih (f b a) (hmono b a x hx)

theorem foldl_contrib {α : Type} (f : List Nat → α → List Nat) (hmono : ∀ cols a x, x ∈ cols → x ∈ f cols a)
    (l : List α) (b : List Nat) (a : α) (ha : a ∈ l) (x : Nat) (hx : ∀ cols, x ∈ f cols a) :
    x ∈ l.foldl f b := by
  induction l generalizing b with
  | nil => simp at ha
  | cons a' rest ih =>
    simp only [List.foldl_cons]
    rcases List.mem_cons.1 ha with rfl | h
    · exact foldl_mono f hmono rest _ x (hx b)
    · exact ih (f b a') h

/-- the inner step (distance-two neighbours of `p`) -/
def inner2 (S : Csr) (split : Array Int) (cols : List Nat) (kk : Nat) : List Nat :=
  if isF split (rdN S.aj kk) then setInsert (rdN S.aj kk) cols else cols

theorem inner2_mono (S : Csr) (split : Array Int) : ∀ cols a x, x ∈ cols → x ∈ inner2 S split cols a := by
  intro cols a x hx
  unfold inner2
  split
  · exact mem_setInsert.2 (Or.inr hx)
  · exact hx

/-- the outer step -/
def outer (S : Csr) (split : Array Int) (distance : Nat) (cols : List Nat) (i : Nat) : List Nat :=
  let p := rdN S.aj i
  if isF split p then
    let cols := setInsert p cols
    if distance = 2 then (S.jjs p).foldl (inner2 S split) cols else cols
  else cols

theorem nbrF_eq (S : Csr) (split : Array Int) (distance c : Nat) :
    nbrF S split distance c = (S.jjs c).foldl (outer S split distance) [] := rfl

theorem outer_mono (S : Csr) (split : Array Int) (distance : Nat) :
    ∀ cols a x, x ∈ cols → x ∈ outer S split distance cols a := by
  intro cols a x hx
  unfold outer
  simp only
  split
  · split
    · exact foldl_mono _ (inner2_mono S split) _ _ x (mem_setInsert.2 (Or.inr hx))
    · exact mem_setInsert.2 (Or.inr hx)
  · exact hx

/-- **the neighbourhood is exactly the set of F-points within strength distance `distance`** -/
theorem nbrF_complete (S : Csr) (split : Array Int) (distance c x : Nat)
    (h : InNbhd S split distance c x) : x ∈ nbrF S split distance c := by
  rw [nbrF_eq]
  obtain ⟨hF, h1 | ⟨hd, p, hp, hpF, hxp⟩⟩ := h
  · obtain ⟨i, hi, rfl⟩ := List.mem_map.1 h1
    apply foldl_contrib _ (outer_mono S split distance) _ _ i hi
    intro cols
    unfold outer
    simp only [hF, if_true]
    split
    · exact foldl_mono _ (inner2_mono S split) _ _ _ (mem_setInsert.2 (Or.inl rfl))
    · exact mem_setInsert.2 (Or.inl rfl)
  · obtain ⟨i, hi, rfl⟩ := List.mem_map.1 hp
    obtain ⟨kk, hkk, rfl⟩ := List.mem_map.1 hxp
    apply foldl_contrib _ (outer_mono S split distance) _ _ i hi
    intro cols
    unfold outer
    simp only [hpF, hd, if_true]
    apply foldl_contrib _ (inner2_mono S split) _ _ kk hkk
    intro cols'
    unfold inner2
    simp only [hF, if_true]
    exact mem_setInsert.2 (Or.inl rfl)

theorem nbrF_iff (S : Csr) (split : Array Int) (distance c x : Nat) :
    x ∈ nbrF S split distance c ↔ InNbhd S split distance c x :=
  ⟨nbrF_sound S split distance c x, nbrF_complete S split distance c x⟩

theorem mem_zip_fst {α β : Type} {l1 : List α} {l2 : List β} {p : α × β} (h : p ∈ l1.zip l2) :
    p.1 ∈ l1 := (List.of_mem_zip h).1

/-- **AIR row**: structure, identity block, and `(R A)[c, f] = 0` on the neighbourhood -/
theorem airRow_spec (A S : Csr) (split : Array Int) (distance c : Nat)
    (r : List (Nat × Rat)) (h : airRow A S split distance c = some r) :
    (∃ x : List Rat, x.length = (nbrF S split distance c).length ∧
        r = (nbrF S split distance c).zip x ++ [(c, 1)]) ∧
    (∀ cv ∈ r, cv = (c, 1) ∨ InNbhd S split distance c cv.1) ∧
    (∀ cv ∈ r, isC split cv.1 = true → cv = (c, 1)) ∧
    (∀ f ∈ nbrF S split distance c, raEntry A r f = 0) := by
  unfold airRow at h
  simp only at h
  cases hs : airSolve A c (nbrF S split distance c) with
  | none => rw [hs] at h; simp at h
  | some x =>
    rw [hs] at h
    simp only at h
    by_cases hck : airCheck A c (nbrF S split distance c) x = true
    · rw [if_pos hck] at h
      have hr : r = airAssemble c (nbrF S split distance c) x := by
        simpa using h.symm
      unfold airCheck at hck
      simp only [Bool.and_eq_true, beq_iff_eq, List.all_eq_true] at hck
      have hstruct : ∀ cv ∈ r, cv = (c, 1) ∨ InNbhd S split distance c cv.1 := by
        intro cv hcv
        rw [hr] at hcv
        unfold airAssemble at hcv
        rcases List.mem_append.1 hcv with hz | hl
        · exact Or.inr (nbrF_sound S split distance c _ (mem_zip_fst hz))
        · exact Or.inl (by simpa using hl)
      refine ⟨⟨x, hck.1, by rw [hr]; rfl⟩, hstruct, ?_, ?_⟩
      · intro cv hcv hC
        rcases hstruct cv hcv with h1 | h1
        · exact h1
        · exfalso
          have hF := h1.1
          unfold isF at hF
          unfold isC at hC
          simp only [beq_iff_eq] at hF hC
          rw [hF] at hC
          exact absurd hC (by decide)
      · intro f hf
        rw [hr]
        exact hck.2 f hf
    · rw [if_neg hck] at h; simp at h

/-- applying the row to a column of `A`: the defining sum of `(R A)[c, f]` -/
theorem raEntry_eq (A : Csr) (c : Nat) (nf : List Nat) (x : List Rat) (f : Nat) :
    raEntry A (airAssemble c nf x) f =
      ((nf.zip x).map (fun kv => kv.2 * entry A kv.1 f)).sum + entry A c f := by
  unfold raEntry airAssemble
  rw [List.map_append, List.sum_append]
  simp

end PyamgV.C11M
