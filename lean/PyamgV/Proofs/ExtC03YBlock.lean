import PyamgV.Proofs.ExtC03YGen
import Mathlib.Algebra.BigOperators.Intervals

/-! PyamgV (extension E55, C03): the recorded `block_jacobi` and `block_gauss_seidel` calls (BSR arrays, inverse diagonal blocks) of the
scalar-polymorphic extended cycle model are linear iterations of the level matrix when `Dinv_i A_ii = I`, over any field
(Proofs/ExtC03XBlock.lean with the scalar as a parameter). -/
set_option linter.unusedSectionVars false
namespace PyamgV.C03Y
open PyamgV PyamgV.K Finset
open PyamgV.C03 (Cyc iterN)

variable {𝕜 : Type} [Field 𝕜] [DecidableEq 𝕜] {conj : 𝕜 → 𝕜}

/-! ## the operator of BSR arrays and its dense form -/

def bsrLin (M : Bsr 𝕜) : Fn 𝕜 →ₗ[𝕜] Fn 𝕜 where
  toFun u := fun p => if p < M.nb * M.bs then ExtC09.rowDotB M (p / M.bs) u (p % M.bs) else 0
  map_add' u v := by
    funext p
    by_cases h : p < M.nb * M.bs
    · simp only [h, if_true, Pi.add_apply, ExtC09.rowDotB, ExtC09.blkDot, mul_add, Finset.sum_add_distrib]
      exact List.sum_map_add
    · simp [h]
  map_smul' c u := by
    funext p
    by_cases h : p < M.nb * M.bs
    · simp only [h, if_true, Pi.smul_apply, smul_eq_mul, RingHom.id_apply, ExtC09.rowDotB, ExtC09.blkDot]
      rw [← ExtC09.list_sum_mul_left]
      congr 1
      apply List.map_congr_left
      intro jj _
      rw [Finset.mul_sum]
      apply Finset.sum_congr rfl
      intro m _; ring
    · simp [h]

theorem bsrLin_apply (M : Bsr 𝕜) (u : Fn 𝕜) (p : Nat) :
    bsrLin M u p = if p < M.nb * M.bs then ExtC09.rowDotB M (p / M.bs) u (p % M.bs) else 0 := rfl

theorem sum_blocks (nb bs : Nat) (g : Nat → 𝕜) :
    ∑ q ∈ range (nb * bs), g q = ∑ c ∈ range nb, ∑ m ∈ range bs, g (c * bs + m) := by
  induction nb with
  | zero => simp
  | succ nb ih =>
    rw [Nat.succ_mul, Finset.sum_range_add, ih, Finset.sum_range_succ]

/-- the entries of block column `c` inside a sum over all columns -/
theorem sum_block_col (nb bs : Nat) (hbs : 0 < bs) (c : Nat) (hc : c < nb) (h : Nat → 𝕜) :
    ∑ q ∈ range (nb * bs), (if c = q / bs then h q else 0) = ∑ m ∈ range bs, h (c * bs + m) := by
  rw [sum_blocks]
  rw [Finset.sum_eq_single c]
  · apply Finset.sum_congr rfl
    intro m hm
    rw [ExtC09.blk_div hbs c m (mem_range.1 hm), if_pos rfl]
  · intro c' _ hne
    apply Finset.sum_eq_zero
    intro m hm
    rw [ExtC09.blk_div hbs c' m (mem_range.1 hm), if_neg (Ne.symm hne)]
  · intro h'; exact absurd (mem_range.2 hc) h'

theorem bsrDense_getD (M : Bsr 𝕜) (p : Nat) (hp : p < M.nb * M.bs) :
    (bsrDense M).getD p [] = (List.range (M.nb * M.bs)).map (fun q =>
      (((M.jjs (p / M.bs)).filter (fun jj => decide (rdN M.bj jj = q / M.bs))).map
        (fun jj => ExtC09.blkAt M jj (p % M.bs) (q % M.bs))).sum) := by
  unfold bsrDense
  rw [List.getD_eq_getElem?_getD, List.getElem?_map, List.getElem?_range hp]
  simp only [Option.map_some, Option.getD_some]
  apply List.map_congr_left
  intro q _
  rw [foldl_ite_add, zero_add]
  rfl

theorem bsrDense_length (M : Bsr 𝕜) : (bsrDense M).length = M.nb * M.bs := by simp [bsrDense]

theorem bsrDense_rows (M : Bsr 𝕜) : ∀ r ∈ bsrDense M, r.length ≤ M.nb * M.bs := by
  intro r hr
  unfold bsrDense at hr
  rw [List.mem_map] at hr
  obtain ⟨i, _, rfl⟩ := hr
  simp

/-- **the dense form of BSR arrays with in-range block columns denotes the BSR operator** -/
theorem msem_bsrDense (M : Bsr 𝕜) (hbs : 0 < M.bs) (hc : BColsOK M) : msem (bsrDense M) = bsrLin M := by
  apply LinearMap.ext
  intro u
  funext p
  rw [msem_apply, bsrLin_apply]
  by_cases hp : p < M.nb * M.bs
  · rw [if_pos hp, bsrDense_getD M p hp, dotF_map_range]
    have hi : p / M.bs < M.nb := Nat.div_lt_of_lt_mul (by rw [Nat.mul_comm]; exact hp)
    unfold ExtC09.rowDotB ExtC09.blkDot
    -- swap the sums
    have h1 : ∀ q ∈ range (M.nb * M.bs),
        (((M.jjs (p / M.bs)).filter (fun jj => decide (rdN M.bj jj = q / M.bs))).map
          (fun jj => ExtC09.blkAt M jj (p % M.bs) (q % M.bs))).sum * u q =
        ((M.jjs (p / M.bs)).map (fun jj => if rdN M.bj jj = q / M.bs then
          ExtC09.blkAt M jj (p % M.bs) (q % M.bs) * u q else 0)).sum := by
      intro q _
      rw [ExtC09.list_sum_filter_ite _ (fun jj => rdN M.bj jj = q / M.bs), ← ExtC09.list_sum_mul_right]
      congr 1
      apply List.map_congr_left
      intro jj _
      split <;> simp
    rw [Finset.sum_congr rfl h1, ← ExtC09.list_sum_comm]
    congr 1
    apply List.map_congr_left
    intro jj hjj
    have hcj := hc (p / M.bs) hi jj hjj
    rw [sum_block_col M.nb M.bs hbs (rdN M.bj jj) hcj (fun q => ExtC09.blkAt M jj (p % M.bs) (q % M.bs) * u q)]
    apply Finset.sum_congr rfl
    intro m hm
    rw [ExtC09.blk_mod _ _ (mem_range.1 hm)]
  · rw [if_neg hp, getD_nil_of_le _ p (by rw [bsrDense_length]; omega)]; rfl

theorem semLin_bsr (M : Bsr 𝕜) (hbs : 0 < M.bs) (hc : BColsOK M) (g : Array 𝕜 → Array 𝕜 → Array 𝕜)
    (f : Fn 𝕜 → Fn 𝕜 → Fn 𝕜) (Q : Fn 𝕜 →ₗ[𝕜] Fn 𝕜) (href : Refines (M.nb * M.bs) g f) (hlin : IsLinIter (bsrLin M) f Q) :
    SemLin (bsrDense M) (viaArr (M.nb * M.bs) g) (Tn (M.nb * M.bs) ∘ₗ Q ∘ₗ Tn (M.nb * M.bs)) := by
  apply semLin_viaArr (M.nb * M.bs) (bsrDense M) (le_of_eq (bsrDense_length M)) (bsrDense_rows M) g f Q href
  rw [msem_bsrDense M hbs hc]; exact hlin

/-! ## the inverse blocks -/

theorem leftInv_of_ok (M : Bsr 𝕜) (Dinv : Array 𝕜) (h : LeftInvOK M Dinv) : ∀ i < M.nb, ExtC09.LeftInv M Dinv i := by
  intro i hi k hk m hm
  have := h i hi k hk m hm
  rw [ExtC09.foldl_add, zero_add, ExtC09.range_sum] at this
  rw [← this]
  apply Finset.sum_congr rfl
  intro l _
  congr 1
  unfold diagBlkL ExtC09.diagBlk ExtC09.diagJs
  rw [foldl_ite_add, zero_add]
  rfl

theorem blk_lt {nb bs : Nat} (i l : Nat) (hi : i < nb) (hl : l < bs) : i * bs + l < nb * bs := by
  have : (i + 1) * bs ≤ nb * bs := Nat.mul_le_mul_right bs hi
  rw [Nat.succ_mul] at this
  omega

/-- the residual the block formulas read: `(b − A x)_{i bs + l}` -/
theorem res_blk (M : Bsr 𝕜) (hbs : 0 < M.bs) (x b : Array 𝕜) (i l : Nat) (hi : i < M.nb) (hl : l < M.bs) :
    (ExtC09.vec b - bsrLin M (ExtC09.vec x)) (i * M.bs + l) =
      rd b (i * M.bs + l) - ExtC09.rowDotB M i (fun q => rd x q) l := by
  simp only [Pi.sub_apply, bsrLin_apply, if_pos (blk_lt i l hi hl), ExtC09.blk_div hbs i l hl, ExtC09.blk_mod i l hl]
  rfl

/-! ## block Jacobi -/

/-- `blockdiag(Dinv)` on the first `nb · bs` coordinates -/
def bDinvOp (M : Bsr 𝕜) (Dinv : Array 𝕜) : Fn 𝕜 →ₗ[𝕜] Fn 𝕜 where
  toFun r := fun p => if p < M.nb * M.bs then
    ∑ l ∈ range M.bs, ExtC09.dinvAt M.bs Dinv (p / M.bs) (p % M.bs) l * r (p / M.bs * M.bs + l) else 0
  map_add' u v := by
    funext p; by_cases h : p < M.nb * M.bs <;> simp [h, mul_add, Finset.sum_add_distrib]
  map_smul' c u := by
    funext p; by_cases h : p < M.nb * M.bs
    · simp only [h, if_true, Pi.smul_apply, smul_eq_mul, RingHom.id_apply, Finset.mul_sum]
      apply Finset.sum_congr rfl; intro l _; ring
    · simp [h]

def bjacF (ω : 𝕜) (M : Bsr 𝕜) (Dinv : Array 𝕜) : Fn 𝕜 → Fn 𝕜 → Fn 𝕜 :=
  fun x b => x + ω • bDinvOp M Dinv (b - bsrLin M x)

theorem bjac_step_refines (ω : 𝕜) (M : Bsr 𝕜) (Dinv : Array 𝕜) (hbs : 0 < M.bs) (hc : BColsOK M)
    (hL : LeftInvOK M Dinv) :
    Refines (M.nb * M.bs) (fun x b => blockJacobi ω M b Dinv (List.range M.nb) (Array.replicate x.size 0) x)
      (bjacF ω M Dinv) := by
  intro x b hx _
  refine ⟨by rw [ExtC09.blockJacobi_size, hx], ?_⟩
  funext p
  unfold bjacF
  simp only [Pi.add_apply, Pi.smul_apply, smul_eq_mul]
  by_cases hp : p < x.size
  · have hpn : p < M.nb * M.bs := by omega
    have hi : p / M.bs < M.nb := Nat.div_lt_of_lt_mul (by rw [Nat.mul_comm]; exact hpn)
    have := ExtC09.blockJacobi_splitting ω M b Dinv (Array.replicate x.size 0) x (List.range M.nb) hbs (by simp)
      (fun i hi jj hjj => List.mem_range.2 (hc i (List.mem_range.1 hi) jj hjj))
      (fun i hi => leftInv_of_ok M Dinv hL i (List.mem_range.1 hi)) p hp (List.mem_range.2 hi)
    unfold ExtC09.vec at this ⊢
    rw [this]
    congr 2
    simp only [bDinvOp, LinearMap.coe_mk, AddHom.coe_mk, if_pos hpn]
    apply Finset.sum_congr rfl
    intro l hl
    have := res_blk M hbs x b (p / M.bs) l hi (mem_range.1 hl)
    unfold ExtC09.vec at this
    rw [this]
  · have h1 : ExtC09.vec (blockJacobi ω M b Dinv (List.range M.nb) (Array.replicate x.size 0) x) p = 0 :=
      ExtC09.rd_of_le _ _ (by rw [ExtC09.blockJacobi_size]; omega)
    have h2 : ExtC09.vec x p = 0 := ExtC09.rd_of_le _ _ (by omega)
    have h3 : ¬ p < M.nb * M.bs := by omega
    rw [h1, h2]
    simp [bDinvOp, h3]

noncomputable def bjacQ (ω : 𝕜) (M : Bsr 𝕜) (Dinv : Array 𝕜) (it : Nat) : Fn 𝕜 →ₗ[𝕜] Fn 𝕜 :=
  powM (bsrLin M) (ω • bDinvOp M Dinv) it

theorem bjac_refines (ω : 𝕜) (M : Bsr 𝕜) (Dinv : Array 𝕜) (it : Nat) (hbs : 0 < M.bs) (hc : BColsOK M)
    (hD : Dinv.size = M.nb * (M.bs * M.bs)) (hL : LeftInvOK M Dinv) :
    Refines (M.nb * M.bs) (Sm.arr conj (.bjac ω M Dinv it)) (fun x b => iter (bjacF ω M Dinv) b it x) := by
  have := (bjac_step_refines ω M Dinv hbs hc hL).iter it
  intro x b hx hb
  have h2 := this x b hx hb
  simp only [Sm.arr, K.pyBlockJacobi]
  rw [if_neg (by simp [hx, hb, hD])]
  exact h2

/-- **block Jacobi in the extended cycle model is `x ← x + ω blockdiag(A)⁻¹ (b − A x)`, `iterations` times** -/
theorem bjac_semLin (ω : 𝕜) (M : Bsr 𝕜) (Dinv : Array 𝕜) (it : Nat) (hc : BColsOK M) (hbs : 0 < M.bs)
    (hD : Dinv.size = M.nb * (M.bs * M.bs)) (hL : LeftInvOK M Dinv) :
    SemLin (bsrDense M) (viaArr (M.nb * M.bs) (Sm.arr conj (.bjac ω M Dinv it)))
      (Tn (M.nb * M.bs) ∘ₗ bjacQ ω M Dinv it ∘ₗ Tn (M.nb * M.bs)) :=
  semLin_bsr M hbs hc _ _ _ (bjac_refines ω M Dinv it hbs hc hD hL)
    (CF.IsLinIter.pow (jacobi_isLinIter (bsrLin M) (bDinvOp M Dinv) ω) it)

/-! ## block Gauss-Seidel -/

/-- `E_i Dinv_i E_iᵀ` -/
def bgsOp (M : Bsr 𝕜) (Dinv : Array 𝕜) (i : Nat) : Fn 𝕜 →ₗ[𝕜] Fn 𝕜 where
  toFun r := fun p => if p / M.bs = i ∧ p < M.nb * M.bs then
    ∑ l ∈ range M.bs, ExtC09.dinvAt M.bs Dinv i (p % M.bs) l * r (i * M.bs + l) else 0
  map_add' u v := by
    funext p; by_cases h : p / M.bs = i ∧ p < M.nb * M.bs <;> simp [h, mul_add, Finset.sum_add_distrib]
  map_smul' c u := by
    funext p; by_cases h : p / M.bs = i ∧ p < M.nb * M.bs
    · simp only [h, and_self, if_true, Pi.smul_apply, smul_eq_mul, RingHom.id_apply, Finset.mul_sum]
      apply Finset.sum_congr rfl; intro l _; ring
    · simp [h]

def bgsF (M : Bsr 𝕜) (Dinv : Array 𝕜) (i : Nat) : Fn 𝕜 → Fn 𝕜 → Fn 𝕜 :=
  fun x b => x + bgsOp M Dinv i (b - bsrLin M x)

theorem bgs_step_refines (M : Bsr 𝕜) (Dinv : Array 𝕜) (hbs : 0 < M.bs) (hL : LeftInvOK M Dinv) (i : Nat)
    (hi : i < M.nb) :
    Refines (M.nb * M.bs) (fun x b => bgsStep M b Dinv x i) (bgsF M Dinv i) := by
  intro x b hx _
  refine ⟨by rw [ExtC09.bgsStep_size, hx], ?_⟩
  funext p
  unfold bgsF
  simp only [Pi.add_apply]
  by_cases hp : p < x.size
  · have hpn : p < M.nb * M.bs := by omega
    by_cases hpi : p / M.bs = i
    · have := ExtC09.bgsStep_splitting M b Dinv x i hbs (leftInv_of_ok M Dinv hL i hi) p hp hpi
      unfold ExtC09.vec at this ⊢
      rw [this]
      congr 1
      simp only [bgsOp, LinearMap.coe_mk, AddHom.coe_mk, if_pos (And.intro hpi hpn)]
      apply Finset.sum_congr rfl
      intro l hl
      have := res_blk M hbs x b i l hi (mem_range.1 hl)
      unfold ExtC09.vec at this
      rw [this]
    · have := ExtC09.bgsStep_entry M b Dinv x i hbs p hp
      unfold ExtC09.vec at this ⊢
      rw [this, if_neg hpi]
      have : ¬ (p / M.bs = i ∧ p < M.nb * M.bs) := fun hc => hpi hc.1
      simp [bgsOp, this]
  · have h1 : ExtC09.vec (bgsStep M b Dinv x i) p = 0 :=
      ExtC09.rd_of_le _ _ (by rw [ExtC09.bgsStep_size]; omega)
    have h2 : ExtC09.vec x p = 0 := ExtC09.rd_of_le _ _ (by omega)
    have h3 : ¬ (p / M.bs = i ∧ p < M.nb * M.bs) := fun hc => by omega
    rw [h1, h2]
    simp [bgsOp, h3]

def bgsPassF (M : Bsr 𝕜) (Dinv : Array 𝕜) (bw : Bool) : Fn 𝕜 → Fn 𝕜 → Fn 𝕜 :=
  fun x b => (dirRows M.nb bw).foldl (fun x i => bgsF M Dinv i x b) x

def bgsPassQ (M : Bsr 𝕜) (Dinv : Array 𝕜) (bw : Bool) : Fn 𝕜 →ₗ[𝕜] Fn 𝕜 :=
  sweepM (bsrLin M) ((dirRows M.nb bw).map (bgsOp M Dinv))

theorem bgs_pass_isLinIter (M : Bsr 𝕜) (Dinv : Array 𝕜) (bw : Bool) :
    IsLinIter (bsrLin M) (bgsPassF M Dinv bw) (bgsPassQ M Dinv bw) :=
  isLinIter_foldl _ _ _ _ (fun _ _ _ _ => rfl)

theorem bgs_pass_refines (M : Bsr 𝕜) (Dinv : Array 𝕜) (hbs : 0 < M.bs) (hL : LeftInvOK M Dinv) (bw : Bool) :
    Refines (M.nb * M.bs) (fun x b => bgsPass M b Dinv bw x) (bgsPassF M Dinv bw) :=
  Refines.foldl (fun i x b => bgsStep M b Dinv x i) (fun i => bgsF M Dinv i) _
    (fun i hi => bgs_step_refines M Dinv hbs hL i ((mem_dirRows _ _ _).1 hi))

noncomputable def bgsQ (M : Bsr 𝕜) (Dinv : Array 𝕜) (it : Nat) (sw : Sweep) : Fn 𝕜 →ₗ[𝕜] Fn 𝕜 :=
  sweepQ (bsrLin M) (bgsPassQ M Dinv) sw it

theorem bgs_refines (M : Bsr 𝕜) (Dinv : Array 𝕜) (it : Nat) (sw : Sweep) (hbs : 0 < M.bs)
    (hD : Dinv.size = M.nb * (M.bs * M.bs)) (hL : LeftInvOK M Dinv) :
    Refines (M.nb * M.bs) (Sm.arr conj (.bgs M Dinv it sw)) (sweepF (bgsPassF M Dinv) sw it) := by
  have := sweep_refines (fun bw x b => bgsPass M b Dinv bw x) _ (fun bw => bgs_pass_refines M Dinv hbs hL bw) sw it
  intro x b hx hb
  have h2 := this x b hx hb
  simp only [Sm.arr, K.pyBlockGaussSeidel]
  rw [if_neg (by simp [hx, hb, hD])]
  cases sw <;> exact h2

/-- **block Gauss-Seidel in the extended cycle model is a linear iteration of the level matrix** -/
theorem bgs_semLin (M : Bsr 𝕜) (Dinv : Array 𝕜) (it : Nat) (sw : Sweep) (hc : BColsOK M) (hbs : 0 < M.bs)
    (hD : Dinv.size = M.nb * (M.bs * M.bs)) (hL : LeftInvOK M Dinv) :
    SemLin (bsrDense M) (viaArr (M.nb * M.bs) (Sm.arr conj (.bgs M Dinv it sw)))
      (Tn (M.nb * M.bs) ∘ₗ bgsQ M Dinv it sw ∘ₗ Tn (M.nb * M.bs)) :=
  semLin_bsr M hbs hc _ _ _ (bgs_refines M Dinv it sw hbs hD hL)
    (sweep_isLinIter _ _ _ (fun bw => bgs_pass_isLinIter M Dinv bw) sw it)

end PyamgV.C03Y
