import PyamgV.Model.ExtC17R4Fit
import PyamgV.Proofs.ExtC17R4Graph
import Mathlib.Tactic.Ring
import Mathlib.Tactic.Linarith

/-! PyamgV (C17, extension E32, round 4): bounds-safety and termination of the pointer loops of the `Ck` model of
`fit_candidates_common` (`Model/ExtC17R4Fit.lean`).  The one access that needs an argument is `*Ax_bj` in the two-pointer
loops (the loop test is on `Ax_bi`): the block column holds `K1·(col_end - col_start)` rows of `K2` entries, so
`Ax_bi = Ax_start + bi + t·K2 < Ax_end` forces `t` below the number of rows and `Ax_bj = Ax_start + bj + t·K2` is in the same
row. -/
namespace PyamgV.C17R4
open PyamgV.Ck PyamgV.C17

set_option linter.unusedSectionVars false
set_option linter.unusedVariables false

variable {α : Type} [Inhabited α]

/-! ### the strided pointer loop -/

theorem whileLt_safe {σ : Type} (Inv : σ → Prop) (s e step : Int) (hstep : 0 < step) (body : Int → σ → Ck σ)
    (hbody : ∀ t : Nat, s + (t : Int) * step < e → ∀ st, Inv st → Safe (body (s + (t : Int) * step) st) Inv) :
    ∀ (fuel : Nat) (t : Nat) (st : Ck σ), Safe st Inv → (e - (s + (t : Int) * step)).toNat ≤ fuel →
      ∃ r, whileLt e step body fuel (s + (t : Int) * step) st = some r ∧ Safe r Inv := by
  intro fuel
  induction fuel with
  | zero =>
    intro t st hst hf
    have : ¬ s + (t : Int) * step < e := by omega
    exact ⟨st, by unfold whileLt; rw [if_neg this], hst⟩
  | succ f ih =>
    intro t st hst hf
    unfold whileLt
    by_cases hlt : s + (t : Int) * step < e
    · rw [if_pos hlt]
      have e1 : s + (t : Int) * step + step = s + ((t + 1 : Nat) : Int) * step := by push_cast; ring
      rw [e1]
      refine ih (t + 1) _ (Safe.bind hst (fun a ha => hbody t hlt a ha)) ?_
      rw [← e1]; omega
    · rw [if_neg hlt]; exact ⟨st, rfl, hst⟩

/-- `for(p = s; p < e; p += step)` with `step ≥ 1`: terminates within `e - s` iterations; the body is entered with
`p = s + t·step < e` -/
theorem forStep_safe {σ : Type} [Inhabited σ] (Inv : σ → Prop) (s e step : Int) (hstep : 0 < step) (init : σ)
    (body : Int → σ → Ck σ) (h0 : Inv init)
    (hbody : ∀ t : Nat, s + (t : Int) * step < e → ∀ st, Inv st → Safe (body (s + (t : Int) * step) st) Inv) :
    Safe (forStep s e step init body) Inv := by
  unfold forStep
  apply orFault_safe
  have h := whileLt_safe Inv s e step hstep body hbody (e - s).toNat 0 (pure init) (Safe.pure h0)
    (by simp)
  simpa using h

/-! ### index arithmetic -/

/-- a pointer into column `b` of a block of `M` rows of `k2` entries stays in its row when moved to column `b' ≥ b` -/
theorem col_in {k2 M b b' : Int} (t : Nat) (hk : 0 < k2) (hb : 0 ≤ b) (hbb : b ≤ b') (hb' : b' < k2)
    (h : b + (t : Int) * k2 < M * k2) : b' + (t : Int) * k2 < M * k2 := by
  have h1 : (t : Int) < M := by
    by_contra hh
    have h2 : M ≤ (t : Int) := by omega
    have h3 : M * k2 ≤ (t : Int) * k2 := Int.mul_le_mul_of_nonneg_right h2 (by omega)
    omega
  have h4 : ((t : Int) + 1) * k2 ≤ M * k2 := Int.mul_le_mul_of_nonneg_right (by omega) (by omega)
  rw [Int.add_mul, Int.one_mul] at h4
  omega

/-- what the loops over one block column need: `Ax_start ≥ 0`, `Ax_end` inside `Ax`, `Ax_end - Ax_start = M·K2` -/
structure ColOK (A : Nat) (K2 as ae M : Int) : Prop where
  as0 : 0 ≤ as
  aeA : ae ≤ (A : Int)
  rows : ae = as + M * K2
  m0 : 0 ≤ M

theorem colNorm_safe (o : FitOps α) (ax : Array α) {A : Nat} (hax : ax.size = A) {K2 as ae M : Int} (hc : ColOK A K2 as ae M)
    (hk : 0 < K2) (b : Int) (hb : 0 ≤ b) : Safe (colNorm o ax (as + b) ae K2) (fun _ => True) := by
  unfold colNorm
  refine Safe.bind (forStep_safe (fun _ => True) _ _ _ hk _ _ trivial ?_) (fun _ _ => Safe.pure trivial)
  intro t ht acc _
  have h0 : 0 ≤ (t : Int) * K2 := Int.mul_nonneg (by omega) (by omega)
  have := hc.as0; have := hc.aeA
  exact Safe.bind (rd_safe ax _ (by omega) (by rw [hax]; omega)) (fun _ _ => Safe.pure trivial)

/-- the lengths of `Ax` and `R` -/
def SzInv (A Rn : Nat) (st : Array α × Array α) : Prop := st.1.size = A ∧ st.2.size = Rn

theorem fitAgainst_safe (o : FitOps α) {A Rn : Nat} {K2 as ae M rs : Int} (hc : ColOK A K2 as ae M) (hk : 0 < K2)
    (hrs : 0 ≤ rs) (hR : rs + K2 * K2 ≤ (Rn : Int)) (bj bi : Int) (hbi : 0 ≤ bi) (hbij : bi < bj) (hbj : bj < K2)
    (st : Array α × Array α) (hst : SzInv A Rn st) :
    Safe (fitAgainst o K2 as ae rs bj bi st) (SzInv A Rn) := by
  have has := hc.as0; have hae := hc.aeA; have hrows := hc.rows
  -- both pointers of the two-pointer loops are inside `Ax`
  have hptr : ∀ t : Nat, as + bi + (t : Int) * K2 < ae →
      0 ≤ as + bi + (t : Int) * K2 ∧ as + bi + (t : Int) * K2 < (A : Int) ∧
      0 ≤ as + bi + (t : Int) * K2 + (bj - bi) ∧ as + bi + (t : Int) * K2 + (bj - bi) < (A : Int) := by
    intro t ht
    have h0 : 0 ≤ (t : Int) * K2 := Int.mul_nonneg (by omega) (by omega)
    have h1 : bj + (t : Int) * K2 < M * K2 := col_in t hk hbi (by omega) hbj (by omega)
    omega
  unfold fitAgainst
  refine Safe.bind (P := fun _ => True) (forStep_safe (fun _ => True) _ _ _ hk _ _ trivial ?_) (fun dp _ => ?_)
  · intro t ht acc _
    obtain ⟨p0, p1, q0, q1⟩ := hptr t ht
    refine Safe.bind (rd_safe st.1 _ q0 (by rw [hst.1]; omega)) (fun _ _ => ?_)
    exact Safe.bind (rd_safe st.1 _ p0 (by rw [hst.1]; omega)) (fun _ _ => Safe.pure trivial)
  refine Safe.bind (P := fun ax : Array α => ax.size = A) (forStep_safe (fun ax : Array α => ax.size = A) _ _ _ hk _ _ hst.1 ?_)
    (fun ax hax => ?_)
  · intro t ht ax hax
    obtain ⟨p0, p1, q0, q1⟩ := hptr t ht
    refine Safe.bind (rd_safe ax _ q0 (by rw [hax]; omega)) (fun _ _ => ?_)
    refine Safe.bind (rd_safe ax _ p0 (by rw [hax]; omega)) (fun _ _ => ?_)
    exact Safe.mono (wr_safe ax _ _ q0 (by rw [hax]; omega)) (fun a' h => by rw [h, hax])
  have hidx : 0 ≤ K2 * bi + bj ∧ K2 * bi + bj < K2 * K2 := by
    have h1 : 0 ≤ K2 * bi := Int.mul_nonneg (by omega) hbi
    have h2 : K2 * (bi + 1) ≤ K2 * K2 := Int.mul_le_mul_of_nonneg_left (by omega) (by omega)
    rw [Int.mul_add, Int.mul_one] at h2
    omega
  refine Safe.bind (wr_safe st.2 _ dp (by omega) (by rw [hst.2]; omega)) (fun R hRw => ?_)
  exact Safe.pure ⟨hax, by show R.size = Rn; rw [hRw, hst.2]⟩

theorem fitColumn_safe (o : FitOps α) (tol : α) {A Rn : Nat} {K2 as ae M rs : Int} (hc : ColOK A K2 as ae M)
    (hrs : 0 ≤ rs) (hR : rs + K2 * K2 ≤ (Rn : Int)) (bj : Int) (hbj0 : 0 ≤ bj) (hbj : bj < K2)
    (st : Array α × Array α) (hst : SzInv A Rn st) :
    Safe (fitColumn o tol K2 as ae rs bj st) (SzInv A Rn) := by
  have hk : 0 < K2 := by omega
  have has := hc.as0; have hae := hc.aeA
  unfold fitColumn
  refine Safe.bind (colNorm_safe o st.1 hst.1 hc hk bj hbj0) (fun nj _ => ?_)
  refine Safe.bind (forRange_safe (SzInv A Rn) 0 bj _ _ hst
    (fun bi b0 b1 s hs => fitAgainst_safe o hc hk hrs hR bj bi b0 b1 hbj s hs)) (fun st2 hst2 => ?_)
  refine Safe.bind (colNorm_safe o st2.1 hst2.1 hc hk bj hbj0) (fun nj2 _ => ?_)
  have hidx : 0 ≤ K2 * bj + bj ∧ K2 * bj + bj < K2 * K2 := by
    have h1 : 0 ≤ K2 * bj := Int.mul_nonneg (by omega) hbj0
    have h2 : K2 * (bj + 1) ≤ K2 * K2 := Int.mul_le_mul_of_nonneg_left (by omega) (by omega)
    rw [Int.mul_add, Int.mul_one] at h2
    omega
  refine Safe.bind (P := fun sr : α × Array α => sr.2.size = Rn) ?_ (fun sr hsr => ?_)
  · by_cases hg : o.gt nj2 (o.mul tol nj) = true
    · rw [if_pos hg]
      refine Safe.bind (wr_safe st2.2 _ nj2 (by omega) (by rw [hst2.2]; omega)) (fun R hRw => ?_)
      exact Safe.pure (by show R.size = Rn; rw [hRw, hst2.2])
    · rw [if_neg hg]
      refine Safe.bind (wr_safe st2.2 _ o.zero (by omega) (by rw [hst2.2]; omega)) (fun R hRw => ?_)
      exact Safe.pure (by show R.size = Rn; rw [hRw, hst2.2])
  refine Safe.bind (P := fun ax : Array α => ax.size = A) (forStep_safe (fun ax : Array α => ax.size = A) _ _ _ hk _ _ hst2.1 ?_)
    (fun ax hax => Safe.pure ⟨hax, hsr⟩)
  intro t ht ax hax
  have h0 : 0 ≤ (t : Int) * K2 := Int.mul_nonneg (by omega) (by omega)
  refine Safe.bind (rd_safe ax _ (by omega) (by rw [hax]; omega)) (fun _ _ => ?_)
  exact Safe.mono (wr_safe ax _ _ (by omega) (by rw [hax]; omega)) (fun a' h => by rw [h, hax])

/-- the block column `j` of a structurally valid pattern -/
theorem colOK_of {ncol nrow : Nat} {ap ai : Array Int} (hP : WFm (patS ncol ap ai) nrow) (K1 K2 : Nat) {A : Nat}
    (hA : (K1 : Int) * (K2 : Int) * ap.getD ncol 0 ≤ (A : Int)) (j : Nat) (hj : j < ncol) :
    ColOK A (K2 : Int) ((K1 : Int) * (K2 : Int) * ap.getD j 0) ((K1 : Int) * (K2 : Int) * ap.getD (j+1) 0)
      ((K1 : Int) * (ap.getD (j+1) 0 - ap.getD j 0)) := by
  have a1 : 0 ≤ ap.getD j 0 := ap_nonneg_m (patS ncol ap ai) hP j (by show j ≤ ncol; omega)
  have a2 : ap.getD j 0 ≤ ap.getD (j+1) 0 := hP.mono j hj
  have a3 : ap.getD (j+1) 0 ≤ ap.getD ncol 0 := ap_le_last_m (patS ncol ap ai) hP (j+1) (by show j + 1 ≤ ncol; omega)
  have hb : 0 ≤ (K1 : Int) * (K2 : Int) := Int.mul_nonneg (by omega) (by omega)
  refine ⟨Int.mul_nonneg hb a1, ?_, by ring, Int.mul_nonneg (by omega) (by omega)⟩
  have : (K1 : Int) * (K2 : Int) * ap.getD (j+1) 0 ≤ (K1 : Int) * (K2 : Int) * ap.getD ncol 0 :=
    Int.mul_le_mul_of_nonneg_left a3 hb
  omega

theorem fitOrth_safe (o : FitOps α) (tol : α) {ncol nrow : Nat} {ap ai : Array Int} (hP : WFm (patS ncol ap ai) nrow)
    (K1 K2 : Nat) {A Rn : Nat} (hA : (K1 : Int) * (K2 : Int) * ap.getD ncol 0 ≤ (A : Int))
    (hRn : (ncol : Int) * (K2 : Int) * (K2 : Int) ≤ (Rn : Int)) (st : Array α × Array α) (hst : SzInv A Rn st) :
    Safe (fitOrth o tol ncol (K1 : Int) (K2 : Int) ap st) (SzInv A Rn) := by
  unfold fitOrth
  apply forRange_safe (SzInv A Rn) _ _ _ _ hst
  intro j j0 j1 s hs
  have hsz : ap.size = ncol + 1 := hP.ap_size
  refine Safe.bind (rd_safe ap j j0 (by rw [hsz]; omega)) (fun cs hcs => ?_)
  refine Safe.bind (rd_safe ap (j+1) (by omega) (by rw [hsz]; omega)) (fun ce hce => ?_)
  have hcs' : cs = ap.getD j.toNat 0 := hcs
  have hce' : ce = ap.getD (j.toNat + 1) 0 := by
    have : (j+1).toNat = j.toNat + 1 := by omega
    rw [this] at hce; exact hce
  subst hcs'; subst hce'
  have hc := colOK_of hP K1 K2 hA j.toNat (by omega)
  have hk2 : 0 ≤ (K2 : Int) * (K2 : Int) := Int.mul_nonneg (by omega) (by omega)
  have hrs0 : 0 ≤ j * (K2 : Int) * (K2 : Int) := by
    rw [Int.mul_assoc]; exact Int.mul_nonneg j0 hk2
  have hrs1 : j * (K2 : Int) * (K2 : Int) + (K2 : Int) * (K2 : Int) ≤ (Rn : Int) := by
    have h1 : (j + 1) * ((K2 : Int) * (K2 : Int)) ≤ (ncol : Int) * ((K2 : Int) * (K2 : Int)) :=
      Int.mul_le_mul_of_nonneg_right (by omega) hk2
    have h2 : (j + 1) * ((K2 : Int) * (K2 : Int)) = j * (K2 : Int) * (K2 : Int) + (K2 : Int) * (K2 : Int) := by ring
    have h3 : (ncol : Int) * ((K2 : Int) * (K2 : Int)) = (ncol : Int) * (K2 : Int) * (K2 : Int) := by ring
    omega
  apply forRange_safe (SzInv A Rn) _ _ _ _ hs
  intro bj b0 b1 s2 hs2
  exact fitColumn_safe o tol hc hrs0 hrs1 bj b0 b1 s2 hs2

theorem fitCopy_safe {ncol nrow : Nat} {ap ai : Array Int} (hP : WFm (patS ncol ap ai) nrow) (K1 K2 : Nat) (B ax : Array α) {A : Nat}
    (hax : ax.size = A) (hA : (K1 : Int) * (K2 : Int) * ap.getD ncol 0 ≤ (A : Int))
    (hB : (nrow : Int) * ((K1 : Int) * (K2 : Int)) ≤ (B.size : Int)) :
    Safe (fitCopy ncol ((K1 : Int) * (K2 : Int)) ap ai B ax) (fun ax' => ax'.size = A) := by
  have hb : 0 ≤ (K1 : Int) * (K2 : Int) := Int.mul_nonneg (by omega) (by omega)
  unfold fitCopy
  apply forRange_safe (fun ax' : Array α => ax'.size = A) _ _ _ _ hax
  intro j j0 j1 ax' hax'
  obtain ⟨q1, q2, hrow⟩ := row_facts hP j j0 j1
  refine Safe.bind q1 (fun s hs => ?_)
  refine Safe.bind q2 (fun e he => ?_)
  subst hs; subst he
  have hmono : ap.getD j.toNat 0 ≤ ap.getD (j.toNat + 1) 0 := hP.mono j.toNat (by show j.toNat < ncol; omega)
  have a1 : 0 ≤ ap.getD j.toNat 0 := ap_nonneg_m (patS ncol ap ai) hP j.toNat (by show j.toNat ≤ ncol; omega)
  have a3 : ap.getD (j.toNat + 1) 0 ≤ ap.getD ncol 0 :=
    ap_le_last_m (patS ncol ap ai) hP (j.toNat + 1) (by show j.toNat + 1 ≤ ncol; omega)
  refine Safe.bind (P := fun r : Array α × Int => r.1.size = A) ?_ (fun r hr => Safe.pure hr)
  refine Safe.mono (forRange_safe_idx
    (fun (ii : Int) (st : Array α × Int) => st.1.size = A ∧ st.2 = (K1 : Int) * (K2 : Int) * ii)
    _ _ hmono _ _ ⟨hax', rfl⟩ ?_) (fun st h => h.1)
  intro ii i1 i2 st hst
  refine Safe.bind (hrow ii i1 i2) (fun row hrow' => ?_)
  obtain ⟨_, r0, r1⟩ := hrow'
  refine Safe.bind (P := fun ax2 : Array α => ax2.size = A) ?_ (fun ax2 hax2 => ?_)
  · apply forRange_safe (fun ax2 : Array α => ax2.size = A) _ _ _ _ hst.1
    intro t t0 t1 ax2 hax2
    have hBi : 0 ≤ (K1 : Int) * (K2 : Int) * row + t ∧ (K1 : Int) * (K2 : Int) * row + t < (B.size : Int) := by
      have h1 : 0 ≤ (K1 : Int) * (K2 : Int) * row := Int.mul_nonneg hb r0
      have h2 : (row + 1) * ((K1 : Int) * (K2 : Int)) ≤ (nrow : Int) * ((K1 : Int) * (K2 : Int)) :=
        Int.mul_le_mul_of_nonneg_right (by omega) hb
      have h3 : (row + 1) * ((K1 : Int) * (K2 : Int)) = (K1 : Int) * (K2 : Int) * row + (K1 : Int) * (K2 : Int) := by ring
      omega
    have hAi : 0 ≤ st.2 + t ∧ st.2 + t < (A : Int) := by
      rw [hst.2]
      have h1 : 0 ≤ (K1 : Int) * (K2 : Int) * ii := Int.mul_nonneg hb (by omega)
      have h2 : (K1 : Int) * (K2 : Int) * (ii + 1) ≤ (K1 : Int) * (K2 : Int) * ap.getD ncol 0 :=
        Int.mul_le_mul_of_nonneg_left (by omega) hb
      have h3 : (K1 : Int) * (K2 : Int) * (ii + 1) = (K1 : Int) * (K2 : Int) * ii + (K1 : Int) * (K2 : Int) := by ring
      omega
    refine Safe.bind (rd_safe B _ hBi.1 (by omega)) (fun b _ => ?_)
    exact Safe.mono (wr_safe ax2 _ b hAi.1 (by rw [hax2]; omega)) (fun a' h => by rw [h, hax2])
  · refine Safe.pure ⟨hax2, ?_⟩
    show st.2 + (K1 : Int) * (K2 : Int) = (K1 : Int) * (K2 : Int) * (ii + 1)
    rw [hst.2]; ring

/-- **`fit_candidates_common`** (both instantiations): `Ap`, `Ai` a structurally valid CSC pattern with `n_col` columns and
row indices below `n_row` (empty columns, repeated rows, any order), `Ax` with `K1·K2` entries per stored index, `B` with
`n_row·K1·K2`, `R` with `n_col·K2²`, any `K1, K2 ≥ 0`, any scalars: no access leaves `Ap`, `Ai`, `Ax`, `B`, `R`, and every
pointer loop terminates -/
theorem fitCandidates_safe (o : FitOps α) (tol : α) {ncol nrow : Nat} {ap ai : Array Int} (hP : WFm (patS ncol ap ai) nrow)
    (K1 K2 : Nat) (ax B R : Array α) (hA : (K1 : Int) * (K2 : Int) * ap.getD ncol 0 ≤ (ax.size : Int))
    (hB : (nrow : Int) * ((K1 : Int) * (K2 : Int)) ≤ (B.size : Int))
    (hR : (ncol : Int) * (K2 : Int) * (K2 : Int) ≤ (R.size : Int)) :
    Safe (fitCandidates o tol ncol (K1 : Int) (K2 : Int) ap ai ax B R) (fun r => r.1.size = ax.size ∧ r.2.size = R.size) := by
  unfold fitCandidates
  refine Safe.bind (P := fun R' : Array α => R'.size = R.size) ?_ (fun R' hR' => ?_)
  · apply forRange_safe (fun R' : Array α => R'.size = R.size) _ _ _ _ rfl
    intro t t0 t1 R' h
    exact Safe.mono (wr_safe R' t o.zero t0 (by rw [h]; omega)) (fun a' h' => by rw [h', h])
  refine Safe.bind (fitCopy_safe hP K1 K2 B ax rfl hA hB) (fun ax' hax' => ?_)
  exact fitOrth_safe o tol hP K1 K2 hA hR (ax', R') ⟨hax', hR'⟩

end PyamgV.C17R4
