import PyamgV.Proofs.ExtSolvePath
import PyamgV.Proofs.GsEnergy
import Mathlib.Tactic.Linarith
import Mathlib.Tactic.Ring

/-! PyamgV (extension E17): non-vacuity of `solvePyM_energy_monotone`.  A concrete two-level hierarchy
in the vocabulary of the C03 model (dense rational matrices, smoothers in linear-iteration form)
satisfies every hypothesis C02 asks for: `A = [[2,−1],[−1,2]]`, `P = (1,1)ᵀ`, `R = Pᵀ`, coarse matrix
`R A P = [[2]]` solved exactly by `S = [[1/2]]`, damped Jacobi (`ω = 1/2`) before and after. -/
namespace PyamgV.SolvePath.Ex
open PyamgV PyamgV.C03 PyamgV.SolvePath Finset

def Q : Mat := [[1/4, 0], [0, 1/4]]
def L : Lvl := ⟨[[2, -1], [-1, 2]], [[1], [1]], [[1, 1]], Q, Q⟩
def S : Mat := [[1/2]]

theorem msem_nil (f : F) (i : Nat) : msem [] f i = 0 := by simp [msem_apply]
theorem msem_cons_zero (r : Vec) (A : Mat) (f : F) : msem (r :: A) f 0 = dotF r f := by simp [msem_apply]
theorem msem_cons_succ (r : Vec) (A : Mat) (f : F) (i : Nat) : msem (r :: A) f (i + 1) = msem A f i := by
  simp [msem_apply]

theorem A_sym : IsAdj (euc Rat 2) (euc Rat 2) (msem L.A) (msem L.A) := by
  intro u v
  simp [L, sum_range_succ, msem_cons_zero, msem_cons_succ, dotF]
  ring

theorem A_psd : ∀ v, 0 ≤ (euc Rat 2).a (msem L.A v) v := by
  intro v
  simp [L, sum_range_succ, msem_cons_zero, msem_cons_succ, dotF]
  nlinarith [sq_nonneg (v 0 - v 1), sq_nonneg (v 0), sq_nonneg (v 1)]

theorem jac_nonexp :
    NonExp ((euc Rat 2).ofOp (msem L.A) A_sym A_psd) (msem L.A) (fun x b => x + msem Q (b - msem L.A x)) := by
  have h := jacobi_nonexp (euc Rat 2) (msem L.A) (msem Q) A_sym A_psd 1 (by norm_num) (by
    intro r
    simp [EForm.ofOp, EForm.en, L, Q, sum_range_succ, msem_cons_zero, msem_cons_succ, dotF]
    nlinarith [sq_nonneg (r 0 + r 1), sq_nonneg (r 0), sq_nonneg (r 1)])
  intro x b xs hb
  have := h x b xs hb
  simpa using this

theorem RAP_apply (w : F) (i : Nat) :
    (msem L.R ∘ₗ msem L.A ∘ₗ msem L.P) w i = if i = 0 then 2 * w 0 else 0 := by
  match i with
  | 0 => simp [L, msem_cons_zero, msem_cons_succ, dotF]; ring
  | i + 1 => simp [L, msem_cons_succ, msem_nil]

theorem R_apply (r : F) (i : Nat) : msem L.R r i = if i = 0 then r 0 + r 1 else 0 := by
  match i with
  | 0 => simp [L, msem_cons_zero, dotF]
  | i + 1 => simp [L, msem_cons_succ, msem_nil]

/-- the hierarchy meets C02's hypotheses -/
theorem wfg : WFG (fun v => msem S v) (euc Rat 2) (msem L.A) (absH [(euc Rat 1, L)]) := by
  refine ⟨rfl, ?_, fun _ _ => jac_nonexp, fun _ _ => jac_nonexp, ?_, ?_⟩
  · intro u v
    simp [absLvl, L, sum_range_succ, msem_cons_zero, msem_cons_succ, dotF]
    ring
  · intro r
    refine ⟨fun _ => (r 0 + r 1) / 2, ?_⟩
    funext i
    show (msem L.R ∘ₗ msem L.A ∘ₗ msem L.P) _ i = msem L.R r i
    rw [RAP_apply, R_apply]
    split <;> ring
  · intro b xs hb
    have h0 : 2 * xs 0 = b 0 := by
      have := congrFun hb 0
      rwa [show ((absLvl L).toLevel.R ∘ₗ msem L.A ∘ₗ (absLvl L).toLevel.P) xs 0 =
        (msem L.R ∘ₗ msem L.A ∘ₗ msem L.P) xs 0 from rfl, RAP_apply, if_pos rfl] at this
    show (euc Rat 1).a ((msem L.R ∘ₗ msem L.A ∘ₗ msem L.P) (xs - msem S b)) (xs - msem S b) = 0
    simp only [euc_apply, sum_range_one, RAP_apply, if_pos]
    have : (xs - msem S b) 0 = 0 := by
      simp [S, msem_cons_zero, dotF, ← h0]
    rw [this]; ring

/-- **non-vacuity of `solvePyM_energy_monotone`**: for this hierarchy, every cycle type, every
`cycles_per_level`, every tolerance test, every `maxiter ≥ 1`, every `x0` and every combination of the
options the stand-alone solve returns an iterate at least as good as the start vector in the energy
norm, for every right-hand side in the range of `A` -/
theorem example_solve_energy (c : Cyc) (cpl : Nat) {R : Type} (resnorm : Vec → R) (below : R → Bool)
    (maxiter : Nat) (hm : 1 ≤ maxiter) (b : Vec) (x0 : Option Vec) (residuals : Option (List R))
    (hasCb returnInfo : Bool) (xs : Vec) (hb : msem L.A (sem xs) = sem b) :
    ∃ p, solvePyM S c cpl [L] resnorm below maxiter b x0 residuals hasCb returnInfo = some p ∧
      ((euc Rat 2).ofOp (msem L.A) A_sym A_psd).en (sem xs - sem p.x) ≤
        ((euc Rat 2).ofOp (msem L.A) A_sym A_psd).en (sem xs - sem (x0.getD (zeros b.length))) := by
  obtain ⟨p, k, h1, _, _, _, h5, _⟩ := solvePyM_energy_monotone S c cpl (euc Rat 2) (euc Rat 1) L []
    A_sym A_psd wfg resnorm below maxiter hm b x0 residuals hasCb returnInfo xs hb
  exact ⟨p, h1, h5⟩

/-- a concrete run of the composed executed definitions (exact residual test on squares, `tol = 1/10`):
one V-cycle from zero reaches the tolerance; the list the caller passed is overwritten -/
theorem example_run : solvePyM S .V 1 [L] (resSq L.A [1, 0]) (belowSq (1/10) 1) 5 [1, 0] none (some [7]) true true =
    some ⟨[21/32, 11/32], some 0, some [1, 1/512], [[21/32, 11/32]]⟩ := by decide +kernel

def exReq : C08.Req where
  cycle := "w"
  symmetry := some "hermitian"
  symSmoothing := true
  accel := .name "cg"
  tol := 0
  maxiter := 7
  x0 := true
  callback := false
  residuals := true
  returnInfo := true

/-- the preconditioner of an accelerated `solve(…, cycle='w', accel='cg')` on this hierarchy, applied to
`(1, 0)`, evaluated through the plan, the C01 loop and the C03 cycle, and `M v` evaluated from the matrix -/
theorem example_precond :
    (match C08.plan C08.tables exReq with
      | .run _ cs _ _ => cs.map (fun cl => callPrecond S [L] (resSq L.A) (belowSq (1/10) 1) cl [1, 0])
      | .raise _ _ => []) = [some (matVec (mopM S .W 1 [L]) [1, 0])] := by decide +kernel

end PyamgV.SolvePath.Ex
