import PyamgV.Proofs.ExtPy3ClassicalBase
/-! PyamgV (extension E58, properties C13 / C11): theorems about the definitions GENERATED from the working tree by
`harness/py2lean3_classical.py` for the Python wrappers of pyamg/classical/split.py (`RS`, `PMIS`, `PMISc`, `CLJP`,
`CLJPc`, `MIS`, `_preprocess`) and pyamg/classical/interpolate.py (`direct_interpolation`, `classical_interpolation`,
`injection_interpolation`, `one_point_interpolation`), evaluated by the kernel on the finite scenario grids of
`Model/ExtPy3ClassicalWorlds.lean` (formats, sparse or not, every option value of the grid).  Each `*_refines_spec` says:
result / exception class and the WHOLE trace (every SciPy / NumPy operation, every call of another pyamg function, every
native kernel with the identity of each argument) are the specification's; the remaining theorems read the consequences
the hand-written wrapper models rely on off the runs themselves: which matrix each kernel receives (`S1` =
`remove_diagonal(S)` or its transpose `T1`; the working copy `Cc` / the recomputed `Cs` / the product `Cm`, never the
caller's `C`), that no event changes an argument object in place, that invalid input raises before any kernel runs.
A source edit inside the translated subset regenerates the definitions and these theorems are re-checked against what
the code says now; the real functions are compared with the same scenario runs on every run of the checks (driver op
`ext_py3_classical_grid`). -/
open PyamgV.ExtPy PyamgV.ExtPy2 PyamgV.ExtPy3Classical PyamgV.ExtPy3ClassicalW
namespace PyamgV.ExtPy3ClassicalP

/-! ## C11: pyamg/classical/interpolate.py -/

set_option maxRecDepth 100000 in
theorem direct_grid_eq : gridDirect.map runDirect = gridDirect.map expectedDirect := by kernel_rfl
set_option maxRecDepth 100000 in
theorem classical_grid_eq : gridClassical.map runClassical = gridClassical.map expectedClassical := by kernel_rfl
set_option maxRecDepth 100000 in
theorem injection_grid_eq : gridInjection.map runInjection = gridInjection.map expectedInjection := by kernel_rfl
set_option maxRecDepth 100000 in
theorem one_point_grid_eq : gridOnePoint.map runOnePoint = gridOnePoint.map expectedOnePoint := by kernel_rfl

/-- the generated `direct_interpolation` performs exactly the events of the specification (`Glue.apiDirect` /
`apiDirectTheta`): copy | recomputed strength, eliminate_zeros, data = 1, multiply(A), pass 1, pass 2 -/
theorem direct_refines_spec : ∀ sc ∈ gridDirect, runDirect sc = expectedDirect sc := List.map_inj_left.mp direct_grid_eq
/-- the generated `classical_interpolation` performs exactly the events of the specification (`Glue.apiClassical` /
`apiClassicalTheta`) -/
theorem classical_refines_spec : ∀ sc ∈ gridClassical, runClassical sc = expectedClassical sc :=
  List.map_inj_left.mp classical_grid_eq
/-- the generated `injection_interpolation`: format dispatch (BSR block size, CSR, implicit conversion with a warning,
`TypeError` when the conversion fails), P assembled from fresh NumPy arrays -/
theorem injection_refines_spec : ∀ sc ∈ gridInjection, runInjection sc = expectedInjection sc :=
  List.map_inj_left.mp injection_grid_eq
/-- the generated `one_point_interpolation`: the kernel writes into three fresh arrays and reads the arrays of `A` when
`by_val` (CSR) and of `C` otherwise; block matrices get identity blocks -/
theorem one_point_refines_spec : ∀ sc ∈ gridOnePoint, runOnePoint sc = expectedOnePoint sc :=
  List.map_inj_left.mp one_point_grid_eq


set_option maxRecDepth 100000 in
/-- classical_interpolation for ANY `splitting` value (handed on to `np.sum` and to every kernel unchanged), on every
scenario of the grid -/
theorem classical_any_splitting (sp : PyVal) :
    gridClassical.map (fun sc => runClassicalG sc sp) = gridClassical.map (fun sc => expectedClassicalG sc sp) := by kernel_rfl

set_option maxRecDepth 100000 in
/-- direct_interpolation for ANY `splitting` value -/
theorem direct_any_splitting (sp : PyVal) :
    gridDirect.map (fun sc => runDirectG sc sp) = gridDirect.map (fun sc => expectedDirectG sc sp) := by kernel_rfl

set_option maxRecDepth 100000 in
/-- with `theta` given, ANY `norm` string is handed on to `classical_strength_of_connection` unchanged (no validation
in the wrappers: an unknown norm is that function's `ValueError`, property C12) -/
theorem classical_any_norm (norm : String) (sp : PyVal) (modified : Bool) :
    runClassicalG { spA := true, spC := true, fmtA := "csr", fmtC := "csr", theta := theta25, norm := norm, modified := modified } sp
      = expectedClassicalG { spA := true, spC := true, fmtA := "csr", fmtC := "csr", theta := theta25, norm := norm, modified := modified } sp := by
  cases modified <;> kernel_rfl

/-- the operations on the strength matrix in `Glue.apiClassical`'s order: copy -> eliminate_zeros ->
remove_strong_FF_connections (modified only) -> eliminate_zeros -> (ones) -> multiply -> pass 1 -> pass 2; with `theta`
the strength matrix is recomputed instead of copied (`Glue.apiClassicalTheta`) -/
def classicalOrder (sc : InterpSc) : List String :=
  (match sc.theta with
   | .none => ["C.copy", "Cc.eliminate_zeros"]
   | _ => ["classical_strength_of_connection"]) ++
  (if sc.modified then ["amg_core.remove_strong_FF_connections"] else []) ++
  [work sc ++ ".eliminate_zeros", work sc ++ ".multiply", "np.empty_like", "amg_core.rs_classical_interpolation_pass1",
   "np.empty", "np.empty", "amg_core.rs_classical_interpolation_pass2", "csr_array"]

def directOrder (sc : InterpSc) : List String :=
  [match sc.theta with | .none => "C.copy" | _ => "classical_strength_of_connection",
   work sc ++ ".eliminate_zeros", work sc ++ ".multiply", "np.empty_like", "amg_core.rs_direct_interpolation_pass1",
   "np.empty", "np.empty", "amg_core.rs_direct_interpolation_pass2", "np.sum", "csr_array"]

set_option maxRecDepth 100000 in
theorem classical_order_eq : gridClassical.map (fun sc => onValid sc.valid (callees (runClassical sc).2))
    = gridClassical.map (fun sc => onValid sc.valid (["issparse", "issparse", "np.sum"] ++ classicalOrder sc)) := by kernel_rfl
set_option maxRecDepth 100000 in
theorem direct_order_eq : gridDirect.map (fun sc => onValid sc.valid (callees (runDirect sc).2))
    = gridDirect.map (fun sc => onValid sc.valid (["issparse", "issparse"] ++ directOrder sc)) := by kernel_rfl

/-- classical_interpolation calls, in this order: copy -> eliminate_zeros -> remove_strong_FF_connections (modified
only) -> eliminate_zeros -> multiply -> pass 1 -> pass 2 -- the order `Glue.apiClassical` composes its models in -/
theorem classical_call_order : ∀ sc ∈ gridClassical, sc.valid = true →
    callees (runClassical sc).2 = ["issparse", "issparse", "np.sum"] ++ classicalOrder sc :=
  fun sc h hv => of_onValid (List.map_inj_left.mp classical_order_eq sc h) hv
/-- direct_interpolation: copy -> eliminate_zeros -> multiply -> pass 1 -> pass 2 (`Glue.apiDirect`) -/
theorem direct_call_order : ∀ sc ∈ gridDirect, sc.valid = true →
    callees (runDirect sc).2 = ["issparse", "issparse"] ++ directOrder sc :=
  fun sc h hv => of_onValid (List.map_inj_left.mp direct_order_eq sc h) hv

/-- the matrix `remove_strong_FF_connections` overwrites and the two passes read: the working matrix (copy `Cc` or
recomputed `Cs`) resp. the product `Cm`; every index / value array of ONE call comes from the same object -/
def classicalKernelShape (sc : InterpSc) : List (String × List PyVal) :=
  (if sc.modified then [("remove_strong_FF_connections",
      [dim0 "A", o (work sc ++ ".indptr"), o (work sc ++ ".indices"), o (work sc ++ ".data"), o "splitting"])] else []) ++
  [("rs_classical_interpolation_pass1", [dim0 "A", o "Cm.indptr", o "Cm.indices", o "splitting", o "P_indptr"]),
   ("rs_classical_interpolation_pass2",
     [dim0 "A", o "A.indptr", o "A.indices", o "A.data", o "Cm.indptr", o "Cm.indices", o "Cm.data", o "splitting",
      o "P_indptr", o "P_indices", o "P_data", .bool sc.modified])]

def directKernelShape : List (String × List PyVal) :=
  [("rs_direct_interpolation_pass1", [dim0 "A", o "Cm.indptr", o "Cm.indices", o "splitting", o "P_indptr"]),
   ("rs_direct_interpolation_pass2",
     [dim0 "A", o "A.indptr", o "A.indices", o "A.data", o "Cm.indptr", o "Cm.indices", o "Cm.data", o "splitting",
      o "P_indptr", o "P_indices", o "P_data"])]

set_option maxRecDepth 100000 in
theorem classical_kernels_eq : gridClassical.map (fun sc => kernelCalls (runClassical sc).2)
    = gridClassical.map (fun sc => if sc.valid then classicalKernelShape sc else []) := by kernel_rfl
set_option maxRecDepth 100000 in
theorem direct_kernels_eq : gridDirect.map (fun sc => kernelCalls (runDirect sc).2)
    = gridDirect.map (fun sc => if sc.valid then directKernelShape else []) := by kernel_rfl

/-- which arrays the native kernels receive: the working copy / the product, pass 2 is told `modified`; on invalid
input (`TypeError`, see `interp_invalid_raises`) no kernel runs -/
theorem interp_kernel_calls :
    (∀ sc ∈ gridClassical, kernelCalls (runClassical sc).2 = (if sc.valid then classicalKernelShape sc else [])) ∧
    (∀ sc ∈ gridDirect, kernelCalls (runDirect sc).2 = (if sc.valid then directKernelShape else [])) :=
  ⟨List.map_inj_left.mp classical_kernels_eq, List.map_inj_left.mp direct_kernels_eq⟩

/-- the outcome of all interpolation scenarios -/
def interpRuns : List Out :=
  gridDirect.map runDirect ++ gridClassical.map runClassical ++ gridInjection.map runInjection ++ gridOnePoint.map runOnePoint

set_option maxRecDepth 100000 in
theorem interp_untouched_all : interpRuns.all (fun r =>
    neverMutates "A" r.2 && neverMutates "C" r.2 && neverMutates "splitting" r.2) = true := by kernel_rfl

/-- no interpolation wrapper changes an argument in place at the Python level: `eliminate_zeros`, `data[:] = 1` target
the copy / the recomputed strength matrix, never the caller's `C` or `A` -/
theorem interp_arguments_untouched : ∀ r ∈ interpRuns,
    (neverMutates "A" r.2 && neverMutates "C" r.2 && neverMutates "splitting" r.2) = true := forall_of_all interp_untouched_all

set_option maxRecDepth 100000 in
theorem interp_c_private_all :
    (gridDirect.map runDirect ++ gridClassical.map runClassical).all (fun r => kernelsAvoid "C" r.2) = true := by kernel_rfl
set_option maxRecDepth 100000 in
theorem injection_no_kernel_eq : gridInjection.map (fun sc => kernelCalls (runInjection sc).2) = gridInjection.map (fun _ => []) := by
  kernel_rfl
set_option maxRecDepth 100000 in
theorem one_point_outputs_eq : gridOnePoint.map (fun sc => (kernelCalls (runOnePoint sc).2).map (fun c => c.2.take 3))
    = gridOnePoint.map (fun sc => (kernelCalls (runOnePoint sc).2).map (fun _ => [o "P_rowptr", o "P_colinds", o "P_data"])) := by
  kernel_rfl

/-- direct / classical interpolation never hand an array of the caller's `C` to a native kernel (the index arrays of
the working matrix are its own: `Cc.indptr`, not `C.indptr`); injection calls no kernel; the one-point kernel's three
output arguments are the freshly allocated arrays -/
theorem interp_kernels_private :
    (∀ r ∈ gridDirect.map runDirect ++ gridClassical.map runClassical, kernelsAvoid "C" r.2 = true) ∧
    (∀ sc ∈ gridInjection, kernelCalls (runInjection sc).2 = []) ∧
    (∀ sc ∈ gridOnePoint, (kernelCalls (runOnePoint sc).2).map (fun c => c.2.take 3)
        = (kernelCalls (runOnePoint sc).2).map (fun _ => [o "P_rowptr", o "P_colinds", o "P_data"])) :=
  ⟨forall_of_all interp_c_private_all, List.map_inj_left.mp injection_no_kernel_eq, List.map_inj_left.mp one_point_outputs_eq⟩


set_option maxRecDepth 100000 in
theorem classical_invalid_eq : gridClassical.map (fun sc => onInvalid sc.valid (brief (runClassical sc), decide ((runClassical sc).2.length ≤ 2)))
    = gridClassical.map (fun sc => onInvalid sc.valid ((.error "TypeError", []), true)) := by kernel_rfl
set_option maxRecDepth 100000 in
theorem direct_invalid_eq : gridDirect.map (fun sc => onInvalid sc.valid (brief (runDirect sc), decide ((runDirect sc).2.length ≤ 2)))
    = gridDirect.map (fun sc => onInvalid sc.valid ((.error "TypeError", []), true)) := by kernel_rfl
set_option maxRecDepth 100000 in
theorem injection_invalid_eq : gridInjection.map (fun sc => onInvalid sc.valid (brief (runInjection sc)))
    = gridInjection.map (fun sc => onInvalid sc.valid (.error "TypeError", [])) := by kernel_rfl
set_option maxRecDepth 100000 in
theorem one_point_invalid_eq : gridOnePoint.map (fun sc => onInvalid sc.valid (brief (runOnePoint sc)))
    = gridOnePoint.map (fun sc => onInvalid sc.valid (.error "TypeError", [])) := by kernel_rfl

/-- invalid input raises `TypeError` before any work: `A` or `C` not sparse CSR (direct / classical: at most the two
`issparse` tests have happened), `A` not sparse or not convertible to CSR (injection / one-point); no kernel has run -/
theorem interp_invalid_raises :
    (∀ sc ∈ gridClassical, sc.valid = false →
        (brief (runClassical sc), decide ((runClassical sc).2.length ≤ 2)) = ((.error "TypeError", []), true)) ∧
    (∀ sc ∈ gridDirect, sc.valid = false →
        (brief (runDirect sc), decide ((runDirect sc).2.length ≤ 2)) = ((.error "TypeError", []), true)) ∧
    (∀ sc ∈ gridInjection, sc.valid = false → brief (runInjection sc) = (.error "TypeError", [])) ∧
    (∀ sc ∈ gridOnePoint, sc.valid = false → brief (runOnePoint sc) = (.error "TypeError", [])) :=
  ⟨fun sc h hv => of_onInvalid (List.map_inj_left.mp classical_invalid_eq sc h) hv,
   fun sc h hv => of_onInvalid (List.map_inj_left.mp direct_invalid_eq sc h) hv,
   fun sc h hv => of_onInvalid (List.map_inj_left.mp injection_invalid_eq sc h) hv,
   fun sc h hv => of_onInvalid (List.map_inj_left.mp one_point_invalid_eq sc h) hv⟩

end PyamgV.ExtPy3ClassicalP
