import Mathlib.Algebra.Order.Field.Rat
import Mathlib.Algebra.Order.Field.Basic
import Mathlib.Algebra.Order.AbsoluteValue.Basic
import Mathlib.Tactic.Linarith
import Mathlib.Tactic.Ring
import Mathlib.Data.List.Basic
import PyamgV.Model.C14

/-! PyamgV (C14): theorems about the executable definitions of `Model/C14.lean` — the ones the
driver runs against the real kernels and public functions.  The norm (`mynorm`, `x ↦ -x`, the
complex modulus) is a parameter, so the `abs` and `min` kernels, real and complex, are one
definition (`socRow`). -/
namespace PyamgV.C14
open PyamgV PyamgV.N

variable {α : Type}

/-! ### classical kernel -/

theorem socRow_fold (nrm : α → Rat) (i : Nat) (thr : Rat) (row acc : RowOf α) :
    row.foldl (fun out cv =>
      let out := if nrm cv.2 ≥ thr ∧ cv.1 ≠ i then out ++ [cv] else out
      if cv.1 = i then out ++ [cv] else out) acc
    = acc ++ row.filter (fun cv => decide (cv.1 = i ∨ nrm cv.2 ≥ thr)) := by
  induction row generalizing acc with
  | nil => simp
  | cons cv rest ih =>
    simp only [List.foldl_cons]
    rw [ih]
    by_cases h1 : cv.1 = i
    · simp [h1]
    · by_cases h2 : nrm cv.2 ≥ thr
      · simp [h1, h2]
      · simp [h1, h2]

/-- the kernel's output row is the order-preserving filter of the input row by
"diagonal, or norm at least θ·max_offdiagonal" -/
theorem socRow_eq_filter (nrm : α → Rat) (tiny θ : Rat) (i : Nat) (row : RowOf α) :
    socRow nrm tiny θ i row =
      row.filter (fun cv => decide (cv.1 = i ∨ nrm cv.2 ≥ θ * maxOff nrm tiny i row)) := by
  unfold socRow
  simpa using socRow_fold nrm i (θ * maxOff nrm tiny i row) row []

/-- **rule** (entry level): a stored entry is in the output iff it is the diagonal or
`nrm a_ij ≥ θ · maxOff` -/
theorem socRow_rule (nrm : α → Rat) (tiny θ : Rat) (i : Nat) (row : RowOf α) (cv : Nat × α) :
    cv ∈ socRow nrm tiny θ i row ↔ cv ∈ row ∧ (cv.1 = i ∨ nrm cv.2 ≥ θ * maxOff nrm tiny i row) := by
  rw [socRow_eq_filter]; simp [List.mem_filter]

/-- pattern containment, with order and multiplicity -/
theorem socRow_sublist (nrm : α → Rat) (tiny θ : Rat) (i : Nat) (row : RowOf α) :
    (socRow nrm tiny θ i row).Sublist row := by
  rw [socRow_eq_filter]; exact List.filter_sublist

theorem maxOff_acc_le (nrm : α → Rat) (i : Nat) (row : RowOf α) (m : Rat) :
    m ≤ row.foldl (fun m cv => if cv.1 ≠ i then max m (nrm cv.2) else m) m := by
  induction row generalizing m with
  | nil => simp
  | cons cv rest ih =>
    simp only [List.foldl_cons]
    split
    · exact le_trans (le_max_left _ _) (ih _)
    · exact ih _

/-- `maxOff` is the maximum of `tiny` and the off-diagonal norms: it bounds them … -/
theorem maxOff_ge (nrm : α → Rat) (tiny : Rat) (i : Nat) (row : RowOf α) :
    tiny ≤ maxOff nrm tiny i row ∧ ∀ cv ∈ row, cv.1 ≠ i → nrm cv.2 ≤ maxOff nrm tiny i row := by
  refine ⟨maxOff_acc_le nrm i row tiny, ?_⟩
  unfold maxOff
  generalize tiny = m
  induction row generalizing m with
  | nil => simp
  | cons c rest ih =>
    intro cv hcv hne
    simp only [List.foldl_cons]
    rcases List.mem_cons.1 hcv with rfl | h
    · simp only [hne, ne_eq, not_false_eq_true, if_true]
      exact le_trans (le_max_right _ _) (maxOff_acc_le nrm i rest _)
    · exact ih _ cv h hne

/-- … and is attained: it is `tiny` or the norm of some off-diagonal stored entry -/
theorem maxOff_attained (nrm : α → Rat) (tiny : Rat) (i : Nat) (row : RowOf α) :
    maxOff nrm tiny i row = tiny ∨ ∃ cv ∈ row, cv.1 ≠ i ∧ nrm cv.2 = maxOff nrm tiny i row := by
  unfold maxOff
  generalize tiny = m
  induction row generalizing m with
  | nil => simp
  | cons c rest ih =>
    simp only [List.foldl_cons]
    by_cases hc : c.1 ≠ i
    · simp only [hc, ne_eq, not_false_eq_true, if_true]
      rcases ih (max m (nrm c.2)) with h | ⟨cv, hcv, hne, heq⟩
      · rcases max_cases m (nrm c.2) with ⟨hm, _⟩ | ⟨hm, _⟩
        · left; rw [h, hm]
        · right; exact ⟨c, List.mem_cons_self, hc, by rw [h, hm]⟩
      · right; exact ⟨cv, List.mem_cons_of_mem _ hcv, hne, heq⟩
    · simp only [hc, if_false]
      rcases ih m with h | ⟨cv, hcv, hne, heq⟩
      · left; exact h
      · right; exact ⟨cv, List.mem_cons_of_mem _ hcv, hne, heq⟩

/-- **monotone in θ** (for `0 ≤ tiny`, which holds for both kernels): a larger threshold
parameter gives a sub-row -/
theorem socRow_mono (nrm : α → Rat) (tiny : Rat) (ht : 0 ≤ tiny) (θ θ' : Rat) (h : θ ≤ θ') (i : Nat)
    (row : RowOf α) : (socRow nrm tiny θ' i row).Sublist (socRow nrm tiny θ i row) := by
  rw [socRow_eq_filter, socRow_eq_filter]
  apply List.monotone_filter_right
  intro cv hcv
  simp only [decide_eq_true_eq] at hcv ⊢
  rcases hcv with h1 | h1
  · exact Or.inl h1
  · right
    have h0 : 0 ≤ maxOff nrm tiny i row := le_trans ht (maxOff_ge nrm tiny i row).1
    exact le_trans (mul_le_mul_of_nonneg_right h h0) h1

/-- **θ = 0**, general norm: exactly the diagonal and the entries of non-negative norm are kept -/
theorem socRow_theta_zero (nrm : α → Rat) (tiny : Rat) (i : Nat) (row : RowOf α) :
    socRow nrm tiny 0 i row = row.filter (fun cv => decide (cv.1 = i ∨ 0 ≤ nrm cv.2)) := by
  rw [socRow_eq_filter]; simp

/-- **θ = 0** for a non-negative norm (`abs`, complex modulus): the whole row is kept -/
theorem socRow_theta_zero_abs (nrm : α → Rat) (hn : ∀ a, 0 ≤ nrm a) (tiny : Rat) (i : Nat) (row : RowOf α) :
    socRow nrm tiny 0 i row = row := by
  rw [socRow_theta_zero]
  apply List.filter_eq_self.2
  intro cv _; simp [hn]

/-- the diagonal is always kept -/
theorem socRow_diag (nrm : α → Rat) (tiny θ : Rat) (i : Nat) (row : RowOf α) (v : α) (h : (i, v) ∈ row) :
    (i, v) ∈ socRow nrm tiny θ i row := by
  rw [socRow_rule]; exact ⟨h, Or.inl rfl⟩

/-- signed (`min`) kernel: with `0 ≤ θ` a positive off-diagonal entry is never strong (the
maximum is floored at `0`) — the documented behaviour behind finding `classical-min-positive-offdiag` -/
theorem min_positive_never_strong (θ : Rat) (hθ : 0 ≤ θ) (i : Nat) (row : Row) (cv : Nat × Rat)
    (h : cv ∈ socRow negQ 0 θ i row) (hne : cv.1 ≠ i) : cv.2 ≤ 0 := by
  rw [socRow_rule] at h
  rcases h.2 with h1 | h1
  · exact absurd h1 hne
  · have h0 : 0 ≤ maxOff negQ 0 i row := (maxOff_ge negQ 0 i row).1
    have : 0 ≤ negQ cv.2 := le_trans (mul_nonneg hθ h0) h1
    unfold negQ at this; linarith

/-! ### symmetric kernel -/

theorem symRow_fold (nsq : α → Rat) (θ : Rat) (d : Nat → Rat) (i : Nat) (row acc : RowOf α) :
    row.foldl (fun out cv =>
      if i = cv.1 then out ++ [cv]
      else if nsq cv.2 ≥ θ * θ * d i * d cv.1 then out ++ [cv] else out) acc
    = acc ++ row.filter (fun cv => decide (i = cv.1 ∨ nsq cv.2 ≥ θ * θ * d i * d cv.1)) := by
  induction row generalizing acc with
  | nil => simp
  | cons cv rest ih =>
    simp only [List.foldl_cons]
    rw [ih]
    by_cases h1 : i = cv.1
    · simp [h1]
    · by_cases h2 : nsq cv.2 ≥ θ * θ * d i * d cv.1
      · simp [h1, h2]
      · simp [h1, h2]

theorem symRow_eq_filter (nsq : α → Rat) (θ : Rat) (d : Nat → Rat) (i : Nat) (row : RowOf α) :
    symRow nsq θ d i row =
      row.filter (fun cv => decide (i = cv.1 ∨ nsq cv.2 ≥ θ * θ * d i * d cv.1)) := by
  unfold symRow
  simpa using symRow_fold nsq θ d i row []

/-- **rule**: kept iff diagonal or `|a_ij|² ≥ θ²·|a_ii|·|a_jj|` -/
theorem sym_rule (nsq : α → Rat) (θ : Rat) (d : Nat → Rat) (i : Nat) (row : RowOf α) (cv : Nat × α) :
    cv ∈ symRow nsq θ d i row ↔ cv ∈ row ∧ (i = cv.1 ∨ nsq cv.2 ≥ θ * θ * d i * d cv.1) := by
  rw [symRow_eq_filter]; simp [List.mem_filter]

theorem sym_sublist (nsq : α → Rat) (θ : Rat) (d : Nat → Rat) (i : Nat) (row : RowOf α) :
    (symRow nsq θ d i row).Sublist row := by
  rw [symRow_eq_filter]; exact List.filter_sublist

/-- **monotone in θ** for `0 ≤ θ₁ ≤ θ₂` and non-negative diagonal norms -/
theorem sym_mono (nsq : α → Rat) (θ₁ θ₂ : Rat) (h0 : 0 ≤ θ₁) (h : θ₁ ≤ θ₂) (d : Nat → Rat) (hd : ∀ j, 0 ≤ d j)
    (i : Nat) (row : RowOf α) : (symRow nsq θ₂ d i row).Sublist (symRow nsq θ₁ d i row) := by
  rw [symRow_eq_filter, symRow_eq_filter]
  apply List.monotone_filter_right
  intro cv hcv
  simp only [decide_eq_true_eq] at hcv ⊢
  rcases hcv with h1 | h1
  · exact Or.inl h1
  · right
    have h2 : θ₁ * θ₁ ≤ θ₂ * θ₂ := mul_le_mul h h h0 (le_trans h0 h)
    have h3 : 0 ≤ d i * d cv.1 := mul_nonneg (hd i) (hd cv.1)
    have h4 : θ₁ * θ₁ * d i * d cv.1 ≤ θ₂ * θ₂ * d i * d cv.1 := by
      have := mul_le_mul_of_nonneg_right h2 h3
      calc θ₁ * θ₁ * d i * d cv.1 = θ₁ * θ₁ * (d i * d cv.1) := by ring
        _ ≤ θ₂ * θ₂ * (d i * d cv.1) := this
        _ = θ₂ * θ₂ * d i * d cv.1 := by ring
    exact le_trans h4 h1

/-- **θ = 0** keeps the whole row (`mynormsq ≥ 0`) -/
theorem sym_theta_zero (nsq : α → Rat) (hn : ∀ a, 0 ≤ nsq a) (d : Nat → Rat) (i : Nat) (row : RowOf α) :
    symRow nsq 0 d i row = row := by
  rw [symRow_eq_filter]
  apply List.filter_eq_self.2
  intro cv _
  simp only [decide_eq_true_eq]
  right
  have : (0 : Rat) * 0 * d i * d cv.1 = 0 := by ring
  rw [this]; exact hn _

theorem sym_diag (nsq : α → Rat) (θ : Rat) (d : Nat → Rat) (i : Nat) (row : RowOf α) (v : α) (h : (i, v) ∈ row) :
    (i, v) ∈ symRow nsq θ d i row := by
  rw [sym_rule]; exact ⟨h, Or.inl rfl⟩

theorem absQ_eq_abs (q : Rat) : absQ q = |q| := by
  unfold absQ; split
  · rw [abs_of_neg ‹_›]
  · rw [abs_of_nonneg (not_lt.1 ‹_›)]

theorem absQ_nonneg (q : Rat) : 0 ≤ absQ q := by rw [absQ_eq_abs]; exact abs_nonneg q

/-! ### `maximum_row_value` and `scale_rows_by_largest_entry` -/

theorem rowMax_acc_le (nrm : α → Rat) (row : RowOf α) (m : Rat) :
    m ≤ row.foldl (fun m cv => max m (nrm cv.2)) m := by
  induction row generalizing m with
  | nil => simp
  | cons cv rest ih => simp only [List.foldl_cons]; exact le_trans (le_max_left _ _) (ih _)

theorem rowMax_ge (nrm : α → Rat) (tiny : Rat) (row : RowOf α) :
    tiny ≤ rowMax nrm tiny row ∧ ∀ cv ∈ row, nrm cv.2 ≤ rowMax nrm tiny row := by
  refine ⟨rowMax_acc_le nrm row tiny, ?_⟩
  unfold rowMax
  generalize tiny = m
  induction row generalizing m with
  | nil => simp
  | cons c rest ih =>
    intro cv hcv
    simp only [List.foldl_cons]
    rcases List.mem_cons.1 hcv with rfl | h
    · exact le_trans (le_max_right _ _) (rowMax_acc_le nrm rest _)
    · exact ih _ cv h

theorem rowMax_attained (nrm : α → Rat) (tiny : Rat) (row : RowOf α) :
    rowMax nrm tiny row = tiny ∨ ∃ cv ∈ row, nrm cv.2 = rowMax nrm tiny row := by
  unfold rowMax
  generalize tiny = m
  induction row generalizing m with
  | nil => simp
  | cons c rest ih =>
    simp only [List.foldl_cons]
    rcases ih (max m (nrm c.2)) with h | ⟨cv, hcv, heq⟩
    · rcases max_cases m (nrm c.2) with ⟨hm, _⟩ | ⟨hm, _⟩
      · left; rw [h, hm]
      · right; exact ⟨c, List.mem_cons_self, by rw [h, hm]⟩
    · right; exact ⟨cv, List.mem_cons_of_mem _ hcv, heq⟩

/-- scaling does not touch the pattern -/
theorem scaleRow_cols (tiny : Rat) (row : Row) : (scaleRow tiny row).map Prod.fst = row.map Prod.fst := by
  unfold scaleRow; simp [List.map_map, Function.comp_def]

/-- with `0 < tiny` the scale factor is the reciprocal of the (positive) row maximum -/
theorem scaleRow_eq (tiny : Rat) (ht : 0 < tiny) (row : Row) :
    scaleRow tiny row = row.map fun cv => (cv.1, cv.2 / rowMax absQ tiny row) := by
  have hm : 0 < rowMax absQ tiny row := lt_of_lt_of_le ht (rowMax_ge absQ tiny row).1
  unfold scaleRow
  simp only [ne_eq, ne_of_gt hm, not_false_eq_true, if_true]
  apply List.map_congr_left
  intro cv _
  simp only [Prod.mk.injEq, true_and]
  ring

/-- **[0,1] and "each non-empty row attains 1"** for `scale_rows_by_largest_entry` applied to
non-negative data — the last step of every strength measure.  Entries lie in `[0,1]`; an entry
is zero iff it was zero; if the row has an entry of at least `tiny` (any normal float), some
entry equals `1`. -/
theorem scaleRow_contract (tiny : Rat) (ht : 0 < tiny) (row : Row) (hnn : ∀ cv ∈ row, 0 ≤ cv.2) :
    (∀ cv ∈ scaleRow tiny row, 0 ≤ cv.2 ∧ cv.2 ≤ 1) ∧
    ((∃ cv ∈ row, tiny ≤ cv.2) → ∃ cv ∈ scaleRow tiny row, cv.2 = 1) := by
  have hm : 0 < rowMax absQ tiny row := lt_of_lt_of_le ht (rowMax_ge absQ tiny row).1
  rw [scaleRow_eq tiny ht]
  constructor
  · intro cv hcv
    simp only [List.mem_map] at hcv
    obtain ⟨c, hc, rfl⟩ := hcv
    have hle : c.2 ≤ rowMax absQ tiny row := by
      have := (rowMax_ge absQ tiny row).2 c hc
      rw [absQ_eq_abs, abs_of_nonneg (hnn c hc)] at this; exact this
    exact ⟨div_nonneg (hnn c hc) (le_of_lt hm), (div_le_one hm).2 hle⟩
  · rintro ⟨c, hc, hct⟩
    rcases rowMax_attained absQ tiny row with h | ⟨cv, hcv, heq⟩
    · -- the maximum is `tiny`, so `c.2 = tiny` is the maximum
      have hle : c.2 ≤ rowMax absQ tiny row := by
        have := (rowMax_ge absQ tiny row).2 c hc
        rw [absQ_eq_abs, abs_of_nonneg (hnn c hc)] at this; exact this
      refine ⟨(c.1, c.2 / rowMax absQ tiny row), List.mem_map.2 ⟨c, hc, rfl⟩, ?_⟩
      have : c.2 = rowMax absQ tiny row := le_antisymm hle (by rw [h]; exact hct)
      simp only
      rw [this]; exact div_self (ne_of_gt hm)
    · refine ⟨(cv.1, cv.2 / rowMax absQ tiny row), List.mem_map.2 ⟨cv, hcv, rfl⟩, ?_⟩
      rw [absQ_eq_abs, abs_of_nonneg (hnn cv hcv)] at heq
      simp only
      rw [heq]; exact div_self (ne_of_gt hm)

theorem scaleRow_zero_iff (tiny : Rat) (ht : 0 < tiny) (row : Row) (cv : Nat × Rat) :
    cv ∈ scaleRow tiny row ↔ ∃ c ∈ row, cv = (c.1, c.2 / rowMax absQ tiny row) := by
  rw [scaleRow_eq tiny ht]; simp [List.mem_map, eq_comm]

end PyamgV.C14
