import PyamgV.Proofs.BellmanFordTerm

/-! PyamgV (C12, E18): further invariants of the Bellman–Ford function model `BF.loop` that the
Lloyd clustering proof needs (non-negative weights):

* `Main`  — the clustering pass: unreached nodes keep the label `-1`, centres keep distance `0` and
            their own label;
* `Inner` — the pass nested in `most_interior_nodes` (distances to the cluster boundary) on a
            symmetric pattern: the labels `m` are not changed at all;
* `exit_of_init` — termination within `n + 2` sweeps from any initial state of the shape the two
            callers build, with the fixed-point facts at the exit. -/
set_option linter.unusedSectionVars false
namespace PyamgV.BF

variable {K : Type*} [Field K] [LinearOrder K] [IsStrictOrderedRing K]

theorem fold_inv {E : List (Edge K)} (I : St K → Prop)
    (hI : ∀ (acc : St K × Bool) (e : Edge K), e ∈ E → I acc.1 → I (relax acc e).1) :
    ∀ (l : List (Edge K)), (∀ e ∈ l, e ∈ E) → ∀ acc : St K × Bool, I acc.1 → I (l.foldl relax acc).1 := by
  intro l
  induction l with
  | nil => intro _ acc h; exact h
  | cons e es ih =>
    intro hl acc h
    rw [List.foldl_cons]
    exact ih (fun x hx => hl x (by simp [hx])) _ (hI acc e (hl e (by simp)) h)

theorem loop_inv {E : List (Edge K)} (I : St K → Prop)
    (hI : ∀ (acc : St K × Bool) (e : Edge K), e ∈ E → I acc.1 → I (relax acc e).1) :
    ∀ (fuel : Nat) (s t : St K), I s → loop E fuel s = some t → I t := by
  intro fuel
  induction fuel with
  | zero => intro s t _ h; simp [loop] at h
  | succ f ih =>
    intro s t hs h
    simp only [loop] at h
    have h1 : I (pass E s).1 := fold_inv I hI E (fun _ h => h) (s, false) hs
    by_cases hch : (pass E s).2 = true
    · rw [if_pos hch] at h; exact ih _ t h1 h
    · rw [if_neg hch] at h
      have ht : (pass E s).1 = t := by simpa using h
      rw [← ht]; exact h1

theorem walk_nonneg {E : List (Edge K)} (hE : ∀ e ∈ E, 0 ≤ e.2.2) {c j : Nat} {L : K}
    (h : Walk E c j L) : 0 ≤ L := by
  induction h with
  | refl => exact le_refl 0
  | step _ he ih => have := hE _ he; simp only at this; linarith

theorem walk_trans {E : List (Edge K)} {a b c : Nat} {L M : K} (h1 : Walk E a b L)
    (h2 : Walk E b c M) : Walk E a c (L + M) := by
  induction h2 with
  | refl => simpa using h1
  | step _ he ih => rw [← add_assoc]; exact Walk.step ih he

/-- what fires when the relaxation test succeeds -/
theorem relax_fire (acc : St K × Bool) (e : Edge K)
    (h : ltE (addE (acc.1.d e.1) e.2.2) (acc.1.d e.2.1)) :
    (relax acc e).1 = ⟨upd acc.1.d e.2.1 (addE (acc.1.d e.1) e.2.2), upd acc.1.m e.2.1 (acc.1.m e.1),
      upd acc.1.p e.2.1 (e.1 : Int)⟩ := by
  unfold relax; rw [if_pos h]

theorem relax_idle' (acc : St K × Bool) (e : Edge K)
    (h : ¬ ltE (addE (acc.1.d e.1) e.2.2) (acc.1.d e.2.1)) : (relax acc e).1 = acc.1 := by
  unfold relax; rw [if_neg h]

/-- a firing test: `d[i]` is finite and `d[i] + a` is below every finite `d[j]` -/
theorem fire_inv {d : Nat → Option K} {i j : Nat} {a : K} (h : ltE (addE (d i) a) (d j)) :
    ∃ y, d i = some y ∧ ∀ x, d j = some x → y + a < x := by
  cases hdi : d i with
  | none => rw [hdi] at h; simp [addE, ltE] at h
  | some y =>
    refine ⟨y, rfl, ?_⟩
    intro x hx
    rw [hdi, hx] at h
    simpa [addE, ltE] using h

/-! ### the clustering pass -/

structure Main (E : List (Edge K)) (isC : Nat → Prop) (lab : Nat → Int) (s : St K) : Prop where
  sound : Sound E isC lab s
  unre : ∀ v, s.d v = none → s.m v = -1
  cen : ∀ c, isC c → s.d c = some 0 ∧ s.m c = lab c

theorem relax_main {E : List (Edge K)} {isC : Nat → Prop} {lab : Nat → Int}
    (hE : ∀ e ∈ E, 0 ≤ e.2.2) (acc : St K × Bool) (e : Edge K) (he : e ∈ E)
    (h : Main E isC lab acc.1) : Main E isC lab (relax acc e).1 := by
  by_cases hlt : ltE (addE (acc.1.d e.1) e.2.2) (acc.1.d e.2.1)
  · refine ⟨relax_sound acc e he h.sound, ?_, ?_⟩
    · intro v hv
      rw [relax_fire acc e hlt] at hv ⊢
      simp only [upd] at hv ⊢
      obtain ⟨y, hy, _⟩ := fire_inv hlt
      by_cases hvj : v = e.2.1
      · rw [if_pos hvj, hy] at hv; simp [addE] at hv
      · rw [if_neg hvj] at hv ⊢; exact h.unre v hv
    · intro c hc
      obtain ⟨y, hy, hyx⟩ := fire_inv hlt
      have hcj : c ≠ e.2.1 := by
        intro hcj
        obtain ⟨c0, _, hw, _⟩ := h.sound.walk _ y hy
        have h0 := walk_nonneg hE hw
        have h1 := hyx 0 (by rw [← hcj]; exact (h.cen c hc).1)
        have h2 := hE e he
        linarith
      rw [relax_fire acc e hlt]
      simp only [upd]
      rw [if_neg hcj, if_neg hcj]
      exact h.cen c hc
  · rw [relax_idle' acc e hlt]; exact h

/-- exit facts of the clustering pass -/
theorem main_exit {E : List (Edge K)} {isC : Nat → Prop} {lab : Nat → Int} {t : St K}
    (h : Main E isC lab t) (hfix : ∀ e ∈ E, ¬ ltE (addE (t.d e.1) e.2.2) (t.d e.2.1)) (j : Nat) :
    ((∃ x, t.d j = some x) ↔ ∃ c L, isC c ∧ Walk E c j L) ∧
    (∀ x, t.d j = some x → ∃ c, isC c ∧ Walk E c j x ∧ t.m j = lab c) := by
  refine ⟨⟨?_, ?_⟩, fun x hx => h.sound.walk j x hx⟩
  · rintro ⟨x, hx⟩
    obtain ⟨c, hc, hw, _⟩ := h.sound.walk j x hx
    exact ⟨c, x, hc, hw⟩
  · rintro ⟨c, L, hc, hw⟩
    obtain ⟨y, hy, _⟩ := fixed_opt h.sound hfix hc hw
    exact ⟨y, hy⟩

/-! ### the pass nested in `most_interior_nodes` -/

/-- `i` has a stored entry leading into a different cluster -/
def isB (E : List (Edge K)) (m0 : Nat → Int) (v : Nat) : Prop :=
  ∃ e ∈ E, e.1 = v ∧ m0 e.1 ≠ m0 e.2.1

structure Inner (E : List (Edge K)) (m0 : Nat → Int) (s : St K) : Prop where
  sound : Sound E (isB E m0) m0 s
  meq : s.m = m0

theorem relax_inner {E : List (Edge K)} {m0 : Nat → Int}
    (hE : ∀ e ∈ E, 0 ≤ e.2.2) (hsym : ∀ e ∈ E, ∃ b, (e.2.1, e.1, b) ∈ E)
    (acc : St K × Bool) (e : Edge K) (he : e ∈ E)
    (h : Inner E m0 acc.1) : Inner E m0 (relax acc e).1 := by
  by_cases hlt : ltE (addE (acc.1.d e.1) e.2.2) (acc.1.d e.2.1)
  · refine ⟨relax_sound acc e he h.sound, ?_⟩
    obtain ⟨y, hy, hyx⟩ := fire_inv hlt
    have hm : m0 e.1 = m0 e.2.1 := by
      by_contra hne
      obtain ⟨b, hb⟩ := hsym e he
      have hB : isB E m0 e.2.1 := ⟨_, hb, rfl, fun hh => hne hh.symm⟩
      obtain ⟨x, hx, hx0⟩ := h.sound.centre _ hB
      obtain ⟨c0, _, hw, _⟩ := h.sound.walk _ y hy
      have h0 := walk_nonneg hE hw
      have h1 := hyx x hx
      have h2 := hE e he
      linarith
    rw [relax_fire acc e hlt]
    show upd acc.1.m e.2.1 (acc.1.m e.1) = m0
    rw [h.meq]
    funext v
    simp only [upd]
    by_cases hv : v = e.2.1
    · rw [if_pos hv, hv]; exact hm
    · rw [if_neg hv]
  · rw [relax_idle' acc e hlt]; exact h

/-! ### termination from the initial states the callers build -/

theorem exit_of_init {E : List (Edge K)} {isC : Nat → Prop} {lab : Nat → Int} {n : Nat} {s : St K}
    (hn : 1 ≤ n) (hE : ∀ e ∈ E, 0 ≤ e.2.2) (hV : ∀ e ∈ E, e.2.1 < n) (hCn : ∀ c, isC c → c < n)
    (h0 : ∀ v, isC v → s.d v = some 0)
    (h1 : ∀ v x, s.d v = some x → isC v ∧ x = 0 ∧ s.m v = lab v) :
    Sound E isC lab s ∧ ∃ t, loop E (n + 2) s = some t ∧ Sound E isC lab t ∧
      ∀ e ∈ E, ¬ ltE (addE (t.d e.1) e.2.2) (t.d e.2.1) := by
  have hS : Sound E isC lab s := by
    refine ⟨?_, ?_⟩
    · intro j x hx
      obtain ⟨hj, hx0, hm⟩ := h1 j x hx
      exact ⟨j, hj, by rw [hx0]; exact Walk.refl j, hm⟩
    · intro c hc; exact ⟨0, h0 c hc, le_refl 0⟩
  have hB : Bound E isC 0 s := by
    intro c hc p j hp hlen
    have : p = [] := List.eq_nil_of_length_eq_zero (by omega)
    subst this
    cases hp with
    | nil => exact ⟨0, h0 c hc, by simp [len]⟩
  obtain ⟨t, ht⟩ := loop_terminates hn hE hV hCn (n + 2) 0 s hS hB (by omega) (by omega)
  obtain ⟨h2, h3⟩ := loop_spec (n + 2) s t hS ht
  exact ⟨hS, t, ht, h2, h3⟩

end PyamgV.BF
