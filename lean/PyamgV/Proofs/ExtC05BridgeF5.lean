import PyamgV.Proofs.ExtC05BridgeC2
import PyamgV.Proofs.ExtC05Bridge

/-! PyamgV (C05, extension E23, complex case, part F5): the soundness lemmas of `Proofs/ExtC05Bridge.lean`
for the Boolean checkers (`shaped_of_B`, `lvlOK_of_B`, `installed_of_B`, `csrOp_dense`, `mget_mconjT`,
`hermitianHierarchy_spec`, `inRangeH_spec`) over an arbitrary field; generated from the original. -/
set_option linter.unusedSectionVars false
set_option linter.unusedVariables false
set_option linter.unusedSimpArgs false

/-! ### from ExtC05Bridge.lean -/
namespace PyamgV.CF.C05
open PyamgV PyamgV.C05
open PyamgV Finset
set_option linter.unusedSectionVars false
variable {R : Type} [Field R] [DecidableEq R]
theorem shaped_of_B (nc : Nat) : ∀ (Ls : List (Lvl R)) (n : Nat), shapedB nc n Ls = true → PyamgV.C05.Shaped nc n Ls := by
  intro Ls
  induction Ls with
  | nil =>
    intro n h
    have h' : decide (n = nc) = true := h
    have h'' : n = nc := of_decide_eq_true h'
    exact h''
  | cons L rest ih =>
    intro n h
    simp only [shapedB, Bool.and_eq_true, decide_eq_true_eq, List.all_eq_true] at h
    obtain ⟨⟨⟨h1, h2⟩, h3⟩, h4⟩ := h
    exact ⟨h1, h2, h3, ih L.R.n h4⟩
theorem topSize_eq_topN (Ac : K.Csr R) (Ls : List (Lvl R)) : topSize Ac Ls = topN Ac Ls := by
  cases Ls <;> rfl
theorem diagOk_spec (A : K.Csr R) (h : diagOk A = true) (i : Nat) (hi : i < A.n) :
    HasDiag i (rowOf A i) (diagFn A i) ∧ diagFn A i ≠ 0 := by
  unfold diagOk at h
  rw [List.all_eq_true] at h
  have hi' := h i (List.mem_range.2 hi)
  have hf : (rowOf A i).filter (fun cv => cv.1 = i) =
      ((A.jjs i).filter (fun jj => decide (K.rdN A.aj jj = i))).map
        (fun jj => (K.rdN A.aj jj, K.rd A.ax jj)) := by
    unfold rowOf
    rw [List.filter_map]
    rfl
  cases hl : (A.jjs i).filter (fun jj => decide (K.rdN A.aj jj = i)) with
  | nil => rw [hl] at hi'; exact absurd hi' (by simp)
  | cons jj t =>
    cases t with
    | nil =>
      rw [hl] at hi'
      have hne : K.rd A.ax jj ≠ 0 := of_decide_eq_true hi'
      have hd : HasDiag i (rowOf A i) (K.rd A.ax jj) := by
        unfold HasDiag
        rw [hf, hl]
        rfl
      rw [hasDiag_diagFn A i _ hd]
      exact ⟨hd, hne⟩
    | cons _ _ => rw [hl] at hi'; exact absurd hi' (by simp)
theorem lvlOK_of_B (L : Lvl R) (h : lvlOkB L = true) : LvlOK L := by
  unfold lvlOkB at h
  rw [Bool.and_eq_true] at h
  exact ⟨nodup_of_B L.C h.1, fun i hi => diagOk_spec L.A h.2 i hi⟩
theorem installed_of_B (pre post : List Cfg) : ∀ (Ls : List (Lvl R)) (i : Nat),
    installedB pre post i Ls = true → Installed pre post i Ls := by
  intro Ls
  induction Ls with
  | nil => intro _ _; trivial
  | cons L rest ih =>
    intro i h
    simp only [installedB, Bool.and_eq_true, decide_eq_true_eq] at h
    exact ⟨h.1.1, h.1.2, ih (i+1) h.2⟩
theorem colsOk_spec (A : K.Csr R) (cols : Nat) (h : colsOk A cols = true) (i : Nat) (hi : i < A.n) :
    ∀ cv ∈ rowOf A i, cv.1 < cols := by
  intro cv hcv
  unfold rowOf at hcv
  obtain ⟨jj, hjj, rfl⟩ := List.mem_map.1 hcv
  unfold colsOk at h
  rw [List.all_eq_true] at h
  have h2 := h i (List.mem_range.2 hi)
  rw [List.all_eq_true] at h2
  exact of_decide_eq_true (h2 jj hjj)
theorem rowDot_congr (row : Row R) (x y : Nat → R) (h : ∀ cv ∈ row, x cv.1 = y cv.1) :
    rowDot row x = rowDot row y := by
  unfold rowDot
  congr 1
  apply List.map_congr_left
  intro cv hcv
  rw [h cv hcv]
/-- **with in-range column indices the CSR operator of the proofs is the dense copy of the model**, for
every vector (cf. `denseOfCsr_dot`, which needs a vector supported on the first `cols` coordinates) -/
theorem csrOp_dense (M : K.Csr R) (cols : Nat) (hc : colsOk M cols = true) (x : Nat → R) (i : Nat)
    (hi : i < M.n) :
    csrOp M.n (rowOf M) x i = ∑ j ∈ range cols, mget (denseOfCsr M cols) i j * x j := by
  have h1 : csrOp M.n (rowOf M) x i = csrOp M.n (rowOf M) (trunc cols x) i := by
    rw [csrOp_apply _ _ _ _ hi, csrOp_apply _ _ _ _ hi]
    apply rowDot_congr
    intro cv hcv
    have := colsOk_spec M cols hc i hi cv hcv
    unfold trunc
    rw [if_pos this]
  have hsupp : ∀ j, cols ≤ j → trunc cols x j = 0 := by
    intro j hj
    unfold trunc
    rw [if_neg (by omega)]
  rw [h1, ← denseOfCsr_dot M cols (trunc cols x) hsupp i hi]
  apply Finset.sum_congr rfl
  intro j hj
  unfold trunc
  rw [if_pos (Finset.mem_range.1 hj)]
theorem mget_mconjT (conj : R → R) (A : Mat R) (rows cols : Nat) (j i : Nat) (hj : j < cols)
    (hi : i < rows) :
    mget (mconjT conj A rows cols) j i = conj (mget A i j) := by
  unfold mconjT
  show K.rd (((Array.range cols).map _).getD j #[]) i = _
  rw [getD_map_range cols _ j #[] hj, rd_map_range rows _ i hi]
theorem hermitianHierarchy_spec (conj : R → R) (Ac : K.Csr R) (Ls : List (Lvl R))
    (h : hermitianHierarchy conj Ac Ls = true) :
    (∀ L ∈ Ls, denseOfCsr L.A L.A.n = mconjT conj (denseOfCsr L.A L.A.n) L.A.n L.A.n ∧
      denseOfCsr L.R L.A.n = mconjT conj (denseOfCsr L.P L.R.n) L.A.n L.R.n) ∧
    denseOfCsr Ac Ac.n = mconjT conj (denseOfCsr Ac Ac.n) Ac.n Ac.n := by
  simp only [hermitianHierarchy, Bool.and_eq_true, List.all_eq_true, beq_iff_eq] at h
  exact h
theorem inRangeH_spec (Ac : K.Csr R) (Ls : List (Lvl R)) (h : inRangeH Ac Ls = true) :
    (∀ L ∈ Ls, colsOk L.A L.A.n = true ∧ colsOk L.P L.R.n = true ∧ colsOk L.R L.A.n = true) ∧
    colsOk Ac Ac.n = true := by
  simp only [inRangeH, Bool.and_eq_true, List.all_eq_true] at h
  exact ⟨fun L hL => ⟨(h.1 L hL).1.1, (h.1 L hL).1.2, (h.1 L hL).2⟩, h.2⟩
end PyamgV.CF.C05
