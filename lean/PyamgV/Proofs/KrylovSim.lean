import PyamgV.Proofs.PCG

/-! PyamgV: CGNR, CGNE and (unpreconditioned) CR of `pyamg/krylov/` are *simulations* of
preconditioned CG on a transformed problem; their optimality statements (C07) are therefore
corollaries of `PCG.pcg_optimal(_krylov)`:

* CGNR  = PCG on `AᴴA x = Aᴴb`           → minimises the residual norm ‖b − A x‖
* CGNE  = PCG on `AAᴴ y = b − A x₀`, x = x₀ + Aᴴy → minimises the error norm ‖x* − x‖
* CR    = PCG for `A` in the inner product ⟨A·,·⟩  → minimises the residual norm

The models are the literal loop bodies (recursive residual form; the periodic recomputation
`r = b − A x` coincides with it by `PInv.res`). -/
namespace PyamgV
namespace KSim

variable {K : Type*} [Field K] [LinearOrder K] [IsStrictOrderedRing K]
variable {V : Type*} [AddCommGroup V] [Module K V]

structure St (K V : Type*) where
  x : V
  r : V
  p : V
  zr : K

/-! ### CGNR (`_cgnr.py`) -/

def nrInit (A AH M : V →ₗ[K] V) (e : EForm K V) (b x0 : V) : St K V :=
  let r := b - A x0
  let rhat := AH r
  let z := M rhat
  ⟨x0, r, z, e.a z rhat⟩

def nrStep (A AH M : V →ₗ[K] V) (e : EForm K V) (s : St K V) : St K V :=
  let w := A s.p
  let alpha := s.zr / e.a w w
  let x' := s.x + alpha • s.p
  let r' := s.r - alpha • w
  let rhat := AH r'
  let z := M rhat
  let new := e.a z rhat
  let beta := new / s.zr
  ⟨x', r', z + beta • s.p, new⟩

def nrSeq (A AH M : V →ₗ[K] V) (e : EForm K V) (b x0 : V) : Nat → St K V
  | 0 => nrInit A AH M e b x0
  | k+1 => nrStep A AH M e (nrSeq A AH M e b x0 k)

/-- `AH` is the adjoint of `A` for the Euclidean form -/
def Adj (e : EForm K V) (A AH : V →ₗ[K] V) : Prop := ∀ u v, e.a (AH u) v = e.a u (A v)

theorem nr_sim {A AH M : V →ₗ[K] V} {e : EForm K V} (hadj : Adj e A AH) (b x0 : V) (k : Nat) :
    (PCG.seq (AH ∘ₗ A) M e (AH b) x0 k).x = (nrSeq A AH M e b x0 k).x ∧
    (PCG.seq (AH ∘ₗ A) M e (AH b) x0 k).r = AH (nrSeq A AH M e b x0 k).r ∧
    (PCG.seq (AH ∘ₗ A) M e (AH b) x0 k).p = (nrSeq A AH M e b x0 k).p ∧
    (PCG.seq (AH ∘ₗ A) M e (AH b) x0 k).rz = (nrSeq A AH M e b x0 k).zr := by
  induction k with
  | zero =>
    refine ⟨rfl, ?_, ?_, ?_⟩
    · simp [PCG.seq, PCG.init, nrSeq, nrInit]
    · simp [PCG.seq, PCG.init, nrSeq, nrInit]
    · show e.a (AH b - (AH ∘ₗ A) x0) (M (AH b - (AH ∘ₗ A) x0)) =
        e.a (M (AH (b - A x0))) (AH (b - A x0))
      have : AH b - (AH ∘ₗ A) x0 = AH (b - A x0) := by simp
      rw [this, e.symm]
  | succ k ih =>
    obtain ⟨hx, hr, hp, hz⟩ := ih
    have hpAp : e.a ((AH ∘ₗ A) (PCG.seq (AH ∘ₗ A) M e (AH b) x0 k).p)
        (PCG.seq (AH ∘ₗ A) M e (AH b) x0 k).p =
        e.a (A (nrSeq A AH M e b x0 k).p) (A (nrSeq A AH M e b x0 k).p) := by
      rw [hp, LinearMap.comp_apply, hadj]
    have hr' : (PCG.seq (AH ∘ₗ A) M e (AH b) x0 (k+1)).r =
        AH (nrSeq A AH M e b x0 (k+1)).r := by
      show (PCG.step _ _ _ _).r = AH (nrStep _ _ _ _ _).r
      simp only [PCG.step, nrStep]
      rw [hpAp, hr, hp, hz]
      simp only [LinearMap.comp_apply, map_sub, map_smul]
    have hz' : (PCG.seq (AH ∘ₗ A) M e (AH b) x0 (k+1)).rz =
        (nrSeq A AH M e b x0 (k+1)).zr := by
      have h1 : (PCG.seq (AH ∘ₗ A) M e (AH b) x0 (k+1)).rz =
          e.a (PCG.seq (AH ∘ₗ A) M e (AH b) x0 (k+1)).r
            (M (PCG.seq (AH ∘ₗ A) M e (AH b) x0 (k+1)).r) := rfl
      have h2 : (nrSeq A AH M e b x0 (k+1)).zr =
          e.a (M (AH (nrSeq A AH M e b x0 (k+1)).r)) (AH (nrSeq A AH M e b x0 (k+1)).r) := rfl
      rw [h1, h2, hr', e.symm]
    refine ⟨?_, hr', ?_, hz'⟩
    · show (PCG.step _ _ _ _).x = (nrStep _ _ _ _ _).x
      simp only [PCG.step, nrStep]
      rw [hpAp, hx, hp, hz]
    · have h1 : (PCG.seq (AH ∘ₗ A) M e (AH b) x0 (k+1)).p =
          M (PCG.seq (AH ∘ₗ A) M e (AH b) x0 (k+1)).r +
            ((PCG.seq (AH ∘ₗ A) M e (AH b) x0 (k+1)).rz /
              (PCG.seq (AH ∘ₗ A) M e (AH b) x0 k).rz) •
              (PCG.seq (AH ∘ₗ A) M e (AH b) x0 k).p := rfl
      have h2 : (nrSeq A AH M e b x0 (k+1)).p =
          M (AH (nrSeq A AH M e b x0 (k+1)).r) +
            ((nrSeq A AH M e b x0 (k+1)).zr / (nrSeq A AH M e b x0 k).zr) •
              (nrSeq A AH M e b x0 k).p := rfl
      rw [h1, h2, hr', hz', hz, hp]

/-- the hypotheses of PCG hold for the normal equations -/
theorem nr_hyp {A AH M : V →ₗ[K] V} {e : EForm K V} (hadj : Adj e A AH)
    (hM : ∀ u v, e.a (M u) v = e.a u (M v))
    (hdef : ∀ v, e.a v v = 0 → v = 0) (hinj : ∀ v, A v = 0 → v = 0) :
    PCG.Hyp (AH ∘ₗ A) M e := by
  refine ⟨?_, hM, ?_, ?_⟩
  · intro u v
    simp only [LinearMap.comp_apply]
    rw [hadj, e.symm u, hadj, e.symm]
  · intro v h
    simp only [LinearMap.comp_apply] at h
    rw [hadj] at h
    exact hinj v (hdef _ h)
  · intro v
    simp only [LinearMap.comp_apply]
    rw [hadj]; exact e.nonneg _

/-- **CGNR minimises the residual norm** over `x₀ + K_k(M AᴴA, M Aᴴ r₀)` -/
theorem cgnr_optimal {A AH M : V →ₗ[K] V} {e : EForm K V} (hadj : Adj e A AH)
    (hM : ∀ u v, e.a (M u) v = e.a u (M v))
    (hdef : ∀ v, e.a v v = 0 → v = 0) (hinj : ∀ v, A v = 0 → v = 0)
    (b x0 xs : V) (hxs : A xs = b) (k : Nat)
    (hnb : ∀ j, j < k → (nrSeq A AH M e b x0 j).zr ≠ 0) :
    (nrSeq A AH M e b x0 k).x - x0 ∈ PCG.kry (AH ∘ₗ A) M e (AH b) x0 k ∧
    ∀ y, y - x0 ∈ PCG.kry (AH ∘ₗ A) M e (AH b) x0 k →
      e.en (b - A (nrSeq A AH M e b x0 k).x) ≤ e.en (b - A y) := by
  have hH := nr_hyp hadj hM hdef hinj
  have hnb' : ∀ j, j < k → (PCG.seq (AH ∘ₗ A) M e (AH b) x0 j).rz ≠ 0 := by
    intro j hj; rw [(nr_sim hadj b x0 j).2.2.2]; exact hnb j hj
  have hxs' : (AH ∘ₗ A) xs = AH b := by simp [hxs]
  obtain ⟨h1, h2⟩ := PCG.pcg_optimal_krylov hH xs hxs' k hnb'
  rw [(nr_sim hadj b x0 k).1] at h1 h2
  refine ⟨h1, ?_⟩
  intro y hy
  have key : ∀ w, PCG.enA (AH ∘ₗ A) e (xs - w) = e.en (b - A w) := by
    intro w
    unfold PCG.enA EForm.en
    simp only [LinearMap.comp_apply]
    rw [hadj, map_sub, hxs]
  have := h2 y hy
  rw [key, key] at this
  exact this

/-! ### CGNE (`_cgne.py`) -/

def neInit (A AH M : V →ₗ[K] V) (e : EForm K V) (b x0 : V) : St K V :=
  let r := b - A x0
  let z := M r
  ⟨x0, r, AH z, e.a z r⟩

def neStep (A AH M : V →ₗ[K] V) (e : EForm K V) (s : St K V) : St K V :=
  let alpha := s.zr / e.a s.p s.p
  let x' := s.x + alpha • s.p
  let r' := s.r - alpha • A s.p
  let z := M r'
  let new := e.a z r'
  let beta := new / s.zr
  ⟨x', r', AH z + beta • s.p, new⟩

def neSeq (A AH M : V →ₗ[K] V) (e : EForm K V) (b x0 : V) : Nat → St K V
  | 0 => neInit A AH M e b x0
  | k+1 => neStep A AH M e (neSeq A AH M e b x0 k)

/-- CGNE is PCG for `A Aᴴ y = b − A x₀` started at `y = 0`, with `x = x₀ + Aᴴ y` -/
theorem ne_sim {A AH M : V →ₗ[K] V} {e : EForm K V} (hadj : Adj e A AH) (b x0 : V) (k : Nat) :
    (neSeq A AH M e b x0 k).x = x0 + AH (PCG.seq (A ∘ₗ AH) M e (b - A x0) 0 k).x ∧
    (neSeq A AH M e b x0 k).r = (PCG.seq (A ∘ₗ AH) M e (b - A x0) 0 k).r ∧
    (neSeq A AH M e b x0 k).p = AH (PCG.seq (A ∘ₗ AH) M e (b - A x0) 0 k).p ∧
    (neSeq A AH M e b x0 k).zr = (PCG.seq (A ∘ₗ AH) M e (b - A x0) 0 k).rz := by
  induction k with
  | zero =>
    refine ⟨?_, ?_, ?_, ?_⟩
    · simp [PCG.seq, PCG.init, neSeq, neInit]
    · simp [PCG.seq, PCG.init, neSeq, neInit]
    · simp [PCG.seq, PCG.init, neSeq, neInit]
    · simp only [PCG.seq, PCG.init, neSeq, neInit, map_zero, sub_zero]
      rw [e.symm]
  | succ k ih =>
    obtain ⟨hx, hr, hp, hz⟩ := ih
    have hpp : e.a (neSeq A AH M e b x0 k).p (neSeq A AH M e b x0 k).p =
        e.a ((A ∘ₗ AH) (PCG.seq (A ∘ₗ AH) M e (b - A x0) 0 k).p)
          (PCG.seq (A ∘ₗ AH) M e (b - A x0) 0 k).p := by
      rw [hp, LinearMap.comp_apply, hadj, e.symm]
    have hr' : (neSeq A AH M e b x0 (k+1)).r =
        (PCG.seq (A ∘ₗ AH) M e (b - A x0) 0 (k+1)).r := by
      show (neStep _ _ _ _ _).r = (PCG.step _ _ _ _).r
      simp only [PCG.step, neStep]
      rw [hpp, hr, hp, hz]
      simp only [LinearMap.comp_apply]
    have hz' : (neSeq A AH M e b x0 (k+1)).zr =
        (PCG.seq (A ∘ₗ AH) M e (b - A x0) 0 (k+1)).rz := by
      have h1 : (PCG.seq (A ∘ₗ AH) M e (b - A x0) 0 (k+1)).rz =
          e.a (PCG.seq (A ∘ₗ AH) M e (b - A x0) 0 (k+1)).r
            (M (PCG.seq (A ∘ₗ AH) M e (b - A x0) 0 (k+1)).r) := rfl
      have h2 : (neSeq A AH M e b x0 (k+1)).zr =
          e.a (M (neSeq A AH M e b x0 (k+1)).r) (neSeq A AH M e b x0 (k+1)).r := rfl
      rw [h1, h2, hr', e.symm]
    refine ⟨?_, hr', ?_, hz'⟩
    · show (neStep _ _ _ _ _).x = x0 + AH (PCG.step _ _ _ _).x
      simp only [PCG.step, neStep]
      rw [hpp, hx, hp, hz]
      simp only [map_add, map_smul]
      abel
    · have h1 : (PCG.seq (A ∘ₗ AH) M e (b - A x0) 0 (k+1)).p =
          M (PCG.seq (A ∘ₗ AH) M e (b - A x0) 0 (k+1)).r +
            ((PCG.seq (A ∘ₗ AH) M e (b - A x0) 0 (k+1)).rz /
              (PCG.seq (A ∘ₗ AH) M e (b - A x0) 0 k).rz) •
              (PCG.seq (A ∘ₗ AH) M e (b - A x0) 0 k).p := rfl
      have h2 : (neSeq A AH M e b x0 (k+1)).p =
          AH (M (neSeq A AH M e b x0 (k+1)).r) +
            ((neSeq A AH M e b x0 (k+1)).zr / (neSeq A AH M e b x0 k).zr) •
              (neSeq A AH M e b x0 k).p := rfl
      rw [h1, h2, hr', hz', hz, hp]
      simp only [map_add, map_smul]

theorem ne_hyp {A AH M : V →ₗ[K] V} {e : EForm K V} (hadj : Adj e A AH)
    (hM : ∀ u v, e.a (M u) v = e.a u (M v))
    (hdef : ∀ v, e.a v v = 0 → v = 0) (hinj : ∀ v, AH v = 0 → v = 0) :
    PCG.Hyp (A ∘ₗ AH) M e := by
  refine ⟨?_, hM, ?_, ?_⟩
  · intro u v
    simp only [LinearMap.comp_apply]
    rw [e.symm, ← hadj, ← hadj]; exact e.symm _ _
  · intro v h
    simp only [LinearMap.comp_apply] at h
    rw [e.symm, ← hadj] at h
    exact hinj v (hdef _ h)
  · intro v
    simp only [LinearMap.comp_apply]
    rw [e.symm, ← hadj]; exact e.nonneg _

/-- **CGNE minimises the 2-norm of the error** over `x₀ + Aᴴ K_k(M AAᴴ, M r₀)` -/
theorem cgne_optimal {A AH M : V →ₗ[K] V} {e : EForm K V} (hadj : Adj e A AH)
    (hM : ∀ u v, e.a (M u) v = e.a u (M v))
    (hdef : ∀ v, e.a v v = 0 → v = 0) (hinj : ∀ v, AH v = 0 → v = 0)
    (b x0 ys : V) (hys : A (AH ys) = b - A x0) (k : Nat)
    (hnb : ∀ j, j < k → (neSeq A AH M e b x0 j).zr ≠ 0) :
    ∀ y, y ∈ PCG.kry (A ∘ₗ AH) M e (b - A x0) 0 k →
      e.en ((x0 + AH ys) - (neSeq A AH M e b x0 k).x) ≤ e.en ((x0 + AH ys) - (x0 + AH y)) := by
  have hH := ne_hyp hadj hM hdef hinj
  have hnb' : ∀ j, j < k → (PCG.seq (A ∘ₗ AH) M e (b - A x0) 0 j).rz ≠ 0 := by
    intro j hj; rw [← (ne_sim hadj b x0 j).2.2.2]; exact hnb j hj
  obtain ⟨_, h2⟩ := PCG.pcg_optimal_krylov hH ys hys k hnb'
  intro y hy
  have key : ∀ w, PCG.enA (A ∘ₗ AH) e (ys - w) = e.en ((x0 + AH ys) - (x0 + AH w)) := by
    intro w
    unfold PCG.enA EForm.en
    simp only [LinearMap.comp_apply]
    have : x0 + AH ys - (x0 + AH w) = AH (ys - w) := by rw [map_sub]; abel
    rw [this, e.symm, ← hadj]
  have := h2 y (by simpa using hy)
  rw [key, key, ← (ne_sim hadj b x0 k).1] at this
  exact this

#print axioms cgnr_optimal
#print axioms cgne_optimal
end KSim
end PyamgV

/-! ### CR (`_cr.py`), unpreconditioned (`M = id`) -/
namespace PyamgV
namespace KSim

variable {K : Type*} [Field K] [LinearOrder K] [IsStrictOrderedRing K]
variable {V : Type*} [AddCommGroup V] [Module K V]

structure CRSt (K V : Type*) where
  x : V
  r : V
  p : V
  Ap : V
  rAz : K

def crInit (A M : V →ₗ[K] V) (e : EForm K V) (b x0 : V) : CRSt K V :=
  let r := b - A x0
  let z := M r
  let Az := A z
  ⟨x0, r, z, A z, e.a r Az⟩

def crStep (A M : V →ₗ[K] V) (e : EForm K V) (s : CRSt K V) : CRSt K V :=
  let alpha := s.rAz / e.a s.Ap s.Ap
  let x' := s.x + alpha • s.p
  let r' := s.r - alpha • s.Ap
  let z := M r'
  let Az := A z
  let new := e.a r' Az
  let beta := new / s.rAz
  ⟨x', r', z + beta • s.p, Az + beta • s.Ap, new⟩

def crSeq (A M : V →ₗ[K] V) (e : EForm K V) (b x0 : V) : Nat → CRSt K V
  | 0 => crInit A M e b x0
  | k+1 => crStep A M e (crSeq A M e b x0 k)

/-- the inner product `⟨A·,·⟩` of a symmetric positive semidefinite `A` -/
def aForm (A : V →ₗ[K] V) (e : EForm K V) (hs : ∀ u v, e.a (A u) v = e.a u (A v))
    (hp : ∀ v, 0 ≤ e.a (A v) v) : EForm K V where
  a := e.a ∘ₗ A
  symm := by intro u v; simp only [LinearMap.comp_apply]; rw [hs, e.symm]
  nonneg := by intro v; simpa using hp v

@[simp] theorem aForm_a (A : V →ₗ[K] V) (e : EForm K V) hs hp (u v : V) :
    (aForm A e hs hp).a u v = e.a (A u) v := rfl

theorem cr_sim {A : V →ₗ[K] V} {e : EForm K V} (hs : ∀ u v, e.a (A u) v = e.a u (A v))
    (hp : ∀ v, 0 ≤ e.a (A v) v) (b x0 : V) (k : Nat) :
    (crSeq A LinearMap.id e b x0 k).x = (PCG.seq A LinearMap.id (aForm A e hs hp) b x0 k).x ∧
    (crSeq A LinearMap.id e b x0 k).r = (PCG.seq A LinearMap.id (aForm A e hs hp) b x0 k).r ∧
    (crSeq A LinearMap.id e b x0 k).p = (PCG.seq A LinearMap.id (aForm A e hs hp) b x0 k).p ∧
    (crSeq A LinearMap.id e b x0 k).Ap =
      A (PCG.seq A LinearMap.id (aForm A e hs hp) b x0 k).p ∧
    (crSeq A LinearMap.id e b x0 k).rAz =
      (PCG.seq A LinearMap.id (aForm A e hs hp) b x0 k).rz := by
  induction k with
  | zero =>
    refine ⟨rfl, rfl, rfl, rfl, ?_⟩
    show e.a (b - A x0) (A (b - A x0)) = e.a (A (b - A x0)) (b - A x0)
    rw [e.symm]
  | succ k ih =>
    obtain ⟨hx, hr, hpp, hAp, hz⟩ := ih
    have hden : e.a (crSeq A LinearMap.id e b x0 k).Ap (crSeq A LinearMap.id e b x0 k).Ap =
        (aForm A e hs hp).a (A (PCG.seq A LinearMap.id (aForm A e hs hp) b x0 k).p)
          (PCG.seq A LinearMap.id (aForm A e hs hp) b x0 k).p := by
      rw [hAp, aForm_a]; exact (hs _ _).symm
    have hr' : (crSeq A LinearMap.id e b x0 (k+1)).r =
        (PCG.seq A LinearMap.id (aForm A e hs hp) b x0 (k+1)).r := by
      show (crStep _ _ _ _).r = (PCG.step _ _ _ _).r
      simp only [PCG.step, crStep]
      rw [hden, hr, hAp, hz]
    have hz' : (crSeq A LinearMap.id e b x0 (k+1)).rAz =
        (PCG.seq A LinearMap.id (aForm A e hs hp) b x0 (k+1)).rz := by
      have h1 : (PCG.seq A LinearMap.id (aForm A e hs hp) b x0 (k+1)).rz =
          (aForm A e hs hp).a (PCG.seq A LinearMap.id (aForm A e hs hp) b x0 (k+1)).r
            (PCG.seq A LinearMap.id (aForm A e hs hp) b x0 (k+1)).r := rfl
      have h2 : (crSeq A LinearMap.id e b x0 (k+1)).rAz =
          e.a (crSeq A LinearMap.id e b x0 (k+1)).r
            (A (crSeq A LinearMap.id e b x0 (k+1)).r) := rfl
      rw [h1, h2, hr', aForm_a, e.symm]
    have hp1 : (PCG.seq A LinearMap.id (aForm A e hs hp) b x0 (k+1)).p =
        (PCG.seq A LinearMap.id (aForm A e hs hp) b x0 (k+1)).r +
          ((PCG.seq A LinearMap.id (aForm A e hs hp) b x0 (k+1)).rz /
            (PCG.seq A LinearMap.id (aForm A e hs hp) b x0 k).rz) •
            (PCG.seq A LinearMap.id (aForm A e hs hp) b x0 k).p := rfl
    refine ⟨?_, hr', ?_, ?_, hz'⟩
    · show (crStep _ _ _ _).x = (PCG.step _ _ _ _).x
      simp only [PCG.step, crStep]
      rw [hden, hx, hpp, hz]
    · have h2 : (crSeq A LinearMap.id e b x0 (k+1)).p =
          (crSeq A LinearMap.id e b x0 (k+1)).r +
            ((crSeq A LinearMap.id e b x0 (k+1)).rAz / (crSeq A LinearMap.id e b x0 k).rAz) •
              (crSeq A LinearMap.id e b x0 k).p := rfl
      rw [hp1, h2, hr', hz', hz, hpp]
    · have h2 : (crSeq A LinearMap.id e b x0 (k+1)).Ap =
          A (crSeq A LinearMap.id e b x0 (k+1)).r +
            ((crSeq A LinearMap.id e b x0 (k+1)).rAz / (crSeq A LinearMap.id e b x0 k).rAz) •
              (crSeq A LinearMap.id e b x0 k).Ap := rfl
      rw [hp1, h2, hr', hz', hz, hAp, map_add, map_smul]

/-- **CR minimises the residual norm** over `x₀ + K_k(A, r₀)` (A symmetric positive definite) -/
theorem cr_optimal {A : V →ₗ[K] V} {e : EForm K V} (hs : ∀ u v, e.a (A u) v = e.a u (A v))
    (hp : ∀ v, 0 ≤ e.a (A v) v) (hdef : ∀ v, e.a v v = 0 → v = 0) (hinj : ∀ v, A v = 0 → v = 0)
    (b x0 xs : V) (hxs : A xs = b) (k : Nat)
    (hnb : ∀ j, j < k → (crSeq A LinearMap.id e b x0 j).rAz ≠ 0) :
    (crSeq A LinearMap.id e b x0 k).x - x0 ∈
      PCG.kry A LinearMap.id (aForm A e hs hp) b x0 k ∧
    ∀ y, y - x0 ∈ PCG.kry A LinearMap.id (aForm A e hs hp) b x0 k →
      e.en (b - A (crSeq A LinearMap.id e b x0 k).x) ≤ e.en (b - A y) := by
  have hH : PCG.Hyp A LinearMap.id (aForm A e hs hp) := by
    refine ⟨?_, fun _ _ => rfl, ?_, ?_⟩
    · intro u v; simp only [aForm_a]; rw [hs]
    · intro v h
      simp only [aForm_a] at h
      rw [hs] at h
      exact hinj v (hdef _ h)
    · intro v; simp only [aForm_a]; rw [hs]; exact e.nonneg _
  have hnb' : ∀ j, j < k → (PCG.seq A LinearMap.id (aForm A e hs hp) b x0 j).rz ≠ 0 := by
    intro j hj; rw [← (cr_sim hs hp b x0 j).2.2.2.2]; exact hnb j hj
  obtain ⟨h1, h2⟩ := PCG.pcg_optimal_krylov hH xs hxs k hnb'
  rw [← (cr_sim hs hp b x0 k).1] at h1 h2
  refine ⟨h1, ?_⟩
  intro y hy
  have key : ∀ w, PCG.enA A (aForm A e hs hp) (xs - w) = e.en (b - A w) := by
    intro w
    unfold PCG.enA EForm.en
    rw [aForm_a, hs, map_sub, hxs]
  have := h2 y hy
  rw [key, key] at this
  exact this

#print axioms cr_optimal
end KSim
end PyamgV
