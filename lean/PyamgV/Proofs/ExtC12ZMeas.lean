import PyamgV.Model.ExtC12ZMeas
import PyamgV.Proofs.ExtC12LloydAgg
import PyamgV.Proofs.C14Out

/-! PyamgV (C12, extension E56): the Lloyd measure on complex strength values and on stored zeros.

* `lloydClusterX_self`: with the same matrix as pattern and as weighted graph the two-matrix Lloyd model IS
  `ExtLloyd.lloydCluster` (no `+inf` edge: nothing changes);
* `measure_nonneg`: for every measure except `None` the measured entries are non-negative whenever the square root
  function is sound (`sq q = some r → 0 ≤ r ∧ r * r = q`; `C14.sqrtQ?` is: `sqrtQ_sound`) — the `positive measure`
  ValueError of `lloyd_aggregation` can only be raised for `measure=None` (a negative real part);
* `measure_none`, `measure_unit`, `measure_min`: the table entry by entry (`re z`, `1`, `re z - min re`);
* `measure_abs`, `measure_inv`: `|z|` resp. `1/|z|` (`+inf` exactly at the stored zeros) in terms of the specification of `sq`;
* `lloydAggregationC_finite`: when no measured entry is `+inf`, `lloydAggregationC` is `ExtLloyd.lloydAggregation` on the
  real matrix of the measured values; `lloydAggregationC_spec`: hence the partition specification `LloydSpec` /
  `AggSpec` for complex strength matrices (symmetric pattern). -/
namespace PyamgV.C12ZM
open PyamgV PyamgV.N PyamgV.ExtLloyd

/-- soundness of a square-root function -/
def SqSound (sq : Rat → Option Rat) : Prop := ∀ q r, sq q = some r → 0 ≤ r ∧ r * r = q

theorem sqrtQ_sound : SqSound C14.sqrtQ? := fun q r h => C14.sqrtQ?_spec q r h

theorem mostInteriorX_self (A : Csr) (c : Array Nat) (m p : Array Int) :
    mostInteriorX A A c m p = mostInterior A c m p := rfl

theorem iterX_self (A : Csr) (c : Array Nat) : iterX A A c = iter A c := rfl

theorem lloydLoopX_self (A : Csr) : ∀ (k : Nat) (c : Array Nat) (m : Array Int),
    lloydLoopX A A k c m = lloydLoop A k c m := by
  intro k
  induction k with
  | zero => intro c m; rfl
  | succ k ih =>
    intro c m
    unfold lloydLoopX lloydLoop
    rw [iterX_self]
    cases iter A c with
    | none => rfl
    | some r =>
      obtain ⟨c', m', ch⟩ := r
      simp only
      rw [ih]

/-- without `+inf` edges the two-matrix model is the Lloyd model of E18 -/
theorem lloydClusterX_self (A : Csr) (c : Array Int) (maxiter : Nat) :
    lloydClusterX A A c maxiter = lloydCluster A c maxiter := by
  unfold lloydClusterX lloydCluster
  simp only [lloydLoopX_self]

/-! ### the measure, entry by entry -/

theorem mapM_getD {α β : Type} (f : α → Option β) : ∀ (l : List α) (r : List β), l.mapM f = some r →
    r.length = l.length ∧ ∀ i (hi : i < l.length), ∃ v, f l[i] = some v ∧ r[i]? = some v := by
  intro l
  induction l with
  | nil =>
    intro r h
    simp only [List.mapM_nil, Option.pure_def, Option.some.injEq] at h
    subst h
    exact ⟨rfl, fun i hi => by simp at hi⟩
  | cons a t ih =>
    intro r h
    rw [List.mapM_cons] at h
    cases ha : f a with
    | none => rw [ha] at h; simp at h
    | some b =>
      rw [ha] at h
      cases ht : t.mapM f with
      | none => rw [ht] at h; simp at h
      | some rt =>
        rw [ht] at h
        simp only [Option.pure_def, Option.bind_eq_bind, Option.bind_some, Option.some.injEq] at h
        subst h
        obtain ⟨i1, i2⟩ := ih rt ht
        refine ⟨by simp [i1], ?_⟩
        intro i hi
        cases i with
        | zero => exact ⟨b, ha, by simp⟩
        | succ i =>
          obtain ⟨v, v1, v2⟩ := i2 i (by simpa using hi)
          exact ⟨v, by simpa using v1, by simpa using v2⟩

/-- the measured array has one entry per stored value, computed by `measureEntry` -/
theorem applyMeasureC_entry {sq : Rat → Option Rat} {measure : String} {x : Array CRat} {w : Array W}
    (h : applyMeasureC sq measure x = some w) :
    w.size = x.size ∧ ∀ i (hi : i < x.size), measureEntry sq measure (minRe x) x[i] = some (w.getD i none) := by
  unfold applyMeasureC at h
  split at h
  · cases hm : x.toList.mapM (measureEntry sq measure (minRe x)) with
    | none => rw [hm] at h; simp at h
    | some r =>
      rw [hm] at h
      simp only [Option.map_some, Option.some.injEq] at h
      subst h
      obtain ⟨i1, i2⟩ := mapM_getD _ _ _ hm
      refine ⟨by simpa using i1, ?_⟩
      intro i hi
      obtain ⟨v, v1, v2⟩ := i2 i (by simpa using hi)
      simp only [Array.getElem_toList] at v1
      rw [v1]
      simp [Array.getD_eq_getD_getElem?, v2]
  · cases h

theorem measure_none (sq : Rat → Option Rat) (mn : Rat) (z : CRat) :
    measureEntry sq "None" mn z = some (some z.re) := rfl
theorem measure_unit (sq : Rat → Option Rat) (mn : Rat) (z : CRat) :
    measureEntry sq "unit" mn z = some (some 1) := rfl
theorem measure_min (sq : Rat → Option Rat) (mn : Rat) (z : CRat) :
    measureEntry sq "min" mn z = some (some (z.re - mn)) := rfl

/-- `'abs'`: the entry is a non-negative `r` with `r² = re² + im²` -/
theorem measure_abs {sq : Rat → Option Rat} (hsq : SqSound sq) {mn : Rat} {z : CRat} {v : W}
    (h : measureEntry sq "abs" mn z = some v) : ∃ r, v = some r ∧ 0 ≤ r ∧ r * r = z.re * z.re + z.im * z.im := by
  simp only [measureEntry] at h
  cases hs : sq (CRat.normSq z) with
  | none => rw [hs] at h; simp at h
  | some r =>
    rw [hs] at h
    simp only [Option.map_some, Option.some.injEq] at h
    obtain ⟨r1, r2⟩ := hsq _ _ hs
    exact ⟨r, h.symm, r1, r2⟩

/-- `'inv'`: `+inf` exactly for a stored zero, otherwise `1/r` with `r > 0`, `r² = re² + im²` -/
theorem measure_inv {sq : Rat → Option Rat} (hsq : SqSound sq) {mn : Rat} {z : CRat} {v : W}
    (h : measureEntry sq "inv" mn z = some v) :
    (v = none ∧ z = ⟨0, 0⟩) ∨ ∃ r, v = some (1 / r) ∧ 0 < r ∧ r * r = z.re * z.re + z.im * z.im := by
  simp only [measureEntry] at h
  cases hs : sq (CRat.normSq z) with
  | none => rw [hs] at h; simp at h
  | some r =>
    rw [hs] at h
    simp only [Option.map_some, Option.some.injEq] at h
    obtain ⟨r1, r2⟩ := hsq _ _ hs
    by_cases hr : r = 0
    · rw [if_pos hr] at h
      left
      refine ⟨h.symm, ?_⟩
      rw [hr] at r2
      have h0 : z.re * z.re + z.im * z.im = 0 := by
        have : CRat.normSq z = z.re * z.re + z.im * z.im := rfl
        rw [← this, ← r2]; ring
      have h1 : z.re * z.re = 0 := by nlinarith [mul_self_nonneg z.re, mul_self_nonneg z.im]
      have h2 : z.im * z.im = 0 := by nlinarith [mul_self_nonneg z.re, mul_self_nonneg z.im]
      have e1 : z.re = 0 := by simpa using h1
      have e2 : z.im = 0 := by simpa using h2
      cases z with
      | mk re im =>
        simp only at e1 e2
        subst e1; subst e2; rfl
    · rw [if_neg hr] at h
      right
      exact ⟨r, h.symm, lt_of_le_of_ne r1 (Ne.symm hr), r2⟩

theorem minRe_le (x : Array CRat) : ∀ z ∈ x.toList, minRe x ≤ z.re := by
  unfold minRe
  generalize (x.getD 0 ⟨0, 0⟩).re = a0
  have key : ∀ (l : List CRat) (a : Rat),
      l.foldl (fun a z => if z.re < a then z.re else a) a ≤ a ∧
      ∀ z ∈ l, l.foldl (fun a z => if z.re < a then z.re else a) a ≤ z.re := by
    intro l
    induction l with
    | nil => intro a; exact ⟨le_refl _, fun z hz => by simp at hz⟩
    | cons y t ih =>
      intro a
      simp only [List.foldl_cons]
      obtain ⟨i1, i2⟩ := ih (if y.re < a then y.re else a)
      refine ⟨le_trans i1 (by split <;> linarith), ?_⟩
      intro z hz
      rcases List.mem_cons.1 hz with rfl | hz
      · refine le_trans i1 ?_
        split <;> linarith
      · exact i2 z hz
  exact (key x.toList a0).2

/-- **only `measure=None` can produce a negative edge length**: for `abs`, `inv`, `unit`, `min` every finite
measured entry is non-negative (sound square root) -/
theorem measure_nonneg {sq : Rat → Option Rat} (hsq : SqSound sq) {measure : String} (hm : measure ≠ "None")
    {x : Array CRat} {w : Array W} (h : applyMeasureC sq measure x = some w) :
    ∀ i q, w.getD i none = some q → 0 ≤ q := by
  obtain ⟨hsz, hent⟩ := applyMeasureC_entry h
  intro i q hq
  have hi : i < x.size := by
    by_contra hn
    rw [Array.getD_eq_getD_getElem?, Array.getElem?_eq_none (by omega)] at hq
    cases hq
  have he := hent i hi
  rw [hq] at he
  have hkm : knownMeasure measure = true := by
    unfold applyMeasureC at h
    by_contra hk
    rw [if_neg hk] at h
    cases h
  simp only [knownMeasure, Bool.or_eq_true, beq_iff_eq] at hkm
  rcases hkm with (((hk | hk) | hk) | hk) | hk
  · exact absurd hk hm
  · subst hk
    obtain ⟨r, r1, r2, _⟩ := measure_abs hsq he
    injection r1 with r1
    rw [r1]; exact r2
  · subst hk
    rcases measure_inv hsq he with ⟨r1, _⟩ | ⟨r, r1, r2, _⟩
    · cases r1
    · injection r1 with r1
      rw [r1]
      positivity
  · subst hk
    rw [measure_unit] at he
    injection he with he
    injection he with he
    rw [← he]; norm_num
  · subst hk
    rw [measure_min] at he
    injection he with he
    injection he with he
    rw [← he]
    have := minRe_le x x[i] (by simp)
    linarith

/-! ### finite measured values: the E18 model and its specification -/

theorem any_neg_list : ∀ (l : List W), l.all (fun v => v.isSome) = true →
    l.any negW = (l.map fun v => v.getD 0).any fun v => decide (v < 0) := by
  intro l
  induction l with
  | nil => intro _; rfl
  | cons v t ih =>
    intro h
    simp only [List.all_cons, Bool.and_eq_true] at h
    simp only [List.any_cons, List.map_cons]
    rw [ih h.2]
    cases v with
    | none => simp at h
    | some q => rfl

theorem any_neg_iff (w : Array W) (hall : w.toList.all (fun v => v.isSome) = true) :
    w.toList.any negW = ((w.map fun v => v.getD 0).toList.any fun v => decide (v < 0)) := by
  rw [Array.toList_map]
  exact any_neg_list w.toList hall

/-- when no measured entry is `+inf` the complex model is the real model of E18 on the measured values -/
theorem lloydAggregationC_finite {sq : Rat → Option Rat} {n : Nat} {ap aj : Array Nat} {x : Array CRat}
    {measure : String} {w : Array W} (hw : applyMeasureC sq measure x = some w)
    (hall : w.toList.all (fun v => v.isSome) = true) (ratio : Rat) (perm : Array Int) (maxiter : Nat) :
    lloydAggregationC sq n ap aj x measure ratio perm maxiter =
      lloydAggregation ⟨n, ap, aj, w.map fun v => v.getD 0⟩ "None" ratio perm maxiter := by
  unfold lloydAggregationC lloydAggregation
  by_cases hr : ratio ≤ 0 ∨ 1 < ratio
  · rw [if_pos hr, if_pos hr]
  · rw [if_neg hr, if_neg hr, hw]
    simp only [applyMeasure]
    rw [any_neg_iff w hall]
    split
    · rfl
    · rw [lloydClusterX_self]
      generalize lloydCluster _ _ _ = r
      cases r with
      | error e => rfl
      | ok o =>
        cases o with
        | none => rfl
        | some pr => obtain ⟨cl, ce⟩ := pr; rfl

/-- **Lloyd aggregation of a complex strength matrix** (symmetric pattern, `maxiter >= 1`, no stored zero under
`measure='inv'`): whenever the model returns `(AggOp, Cpts)`, `AggOp` is the CSR matrix of a clustering with no
empty aggregate, root `Cpts[a]` in aggregate `a`, a node aggregated iff a root reaches it, members connected to
their root -/
theorem lloydAggregationC_spec {sq : Rat → Option Rat} {n : Nat} {ap aj : Array Nat} {x : Array CRat}
    {measure : String} {w : Array W} (hw : applyMeasureC sq measure x = some w)
    (hall : w.toList.all (fun v => v.isSome) = true)
    (hcol : ∀ i, i < n → ∀ jj ∈ (⟨n, ap, aj, w.map fun v => v.getD 0⟩ : Csr).jjs i, rdN aj jj < n)
    (hs : SymPat ⟨n, ap, aj, w.map fun v => v.getD 0⟩)
    {ratio : Rat} {perm : Array Int} {maxiter : Nat} (h1 : 1 ≤ maxiter)
    (hperm : ∀ a b, a < perm.size → b < perm.size → rdI perm a = rdI perm b → a = b)
    {agg : Array Nat × Array Nat × Array Int} {ce : Array Nat}
    (h : lloydAggregationC sq n ap aj x measure ratio perm maxiter = .ok (some (agg, ce))) :
    ∃ cl, LloydSpec ⟨n, ap, aj, w.map fun v => v.getD 0⟩ (min (naggs ratio n) perm.size) cl ce ∧
      AggSpec cl agg.1 agg.2.1 agg.2.2 := by
  rw [lloydAggregationC_finite hw hall] at h
  exact lloydAggregation_spec (A := ⟨n, ap, aj, w.map fun v => v.getD 0⟩) hcol hs h1 hperm h

end PyamgV.C12ZM
