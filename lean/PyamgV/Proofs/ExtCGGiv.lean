import PyamgV.Model.ExtCGGmres
import PyamgV.Proofs.ExtC07CGmres
import PyamgV.Proofs.ExtC07CVec
import PyamgV.Proofs.C07GmresBack
import Mathlib.Tactic.LinearCombination
import Mathlib.Tactic.Module

/-! PyamgV (extension E43, properties C06/C07): the **complex Givens bookkeeping** of the GMRES models
(`cgivensUpdate`, `backSub` of `Model/ExtCGGmres.lean` / `Model/C07Gmres.lean`), independent of how the Hessenberg
columns were produced (modified Gram--Schmidt or Householder reflections).

Setting: `K` a field with an involution (`StarRing K`), `R : ReMap K F₀` its real part into an ordered field,
`sqrt : K → K` an exact square root on the non-negative reals of `K`
(`star z = z → 0 ≤ re z → sqrt z · sqrt z = z`, `star (sqrt z) = sqrt z`).

* `clartg_spec` -- what `zlartg` returns for `g ≠ 0`: `c` real, `c² + |s|² = 1`, `-conj(s) f + c g = 0`;
* `RB` -- the invariant, in terms of the *rotated basis*: after `k` inner iterations there are orthonormal vectors
  `u_0 … u_{k-1}, p` (obtained from the Arnoldi vectors `v_0 … v_k` by the rotations) such that
  `r₀ = Σ_{i<k} g_i u_i + g_k p`, `B z_j = Σ_{i ≤ j} R_{ij} u_i` with the rotated columns `R` the model stores, and
  `R_{jj} ≠ 0`;  `rb_init`, `rb_step`;
* `rb_residual`: with `y = backSub R g`, the residual of `x₀ + Σ y_j z_j` is `g_k • p`, hence
  `rb_estimate` (`‖residual‖² = |g_k|²`, the C06 clause) and `rb_optimal` (minimal over `x₀ + span{z_j}`, the C07
  clause, through `petrov_optimal` of the Hermitian setting). -/
set_option linter.unusedSectionVars false
set_option linter.unusedVariables false
namespace PyamgV.ExtCG
open PyamgV.C07 PyamgV.CHerm PyamgV.C07.CH Finset

variable {K : Type} [Field K] [StarRing K] [DecidableEq K]

/-! ### lists read as functions -/
local notation "gF" => PyamgV.C07.F

theorem gF_def (u : List K) (l : Nat) : gF u l = u.getD l 0 := rfl

theorem gF_out (u : List K) (l : Nat) (h : u.length ≤ l) : gF u l = 0 := by
  simp [C07.F, List.getD_eq_getElem?_getD, List.getElem?_eq_none h]

theorem gF_append_lt (u w : List K) (l : Nat) (h : l < u.length) : gF (u ++ w) l = gF u l := by
  simp [C07.F, List.getD_eq_getElem?_getD, List.getElem?_append, h]

theorem gF_append_len (u : List K) (x : K) : gF (u ++ [x]) u.length = x := by
  simp [C07.F, List.getD_eq_getElem?_getD]

theorem gF_set (u : List K) (i : Nat) (x : K) (l : Nat) :
    gF (u.set i x) l = if l = i ∧ i < u.length then x else gF u l := by
  simp only [C07.F, List.getD_eq_getElem?_getD, List.getElem?_set]
  by_cases h : i = l
  · subst h
    by_cases hi : i < u.length
    · simp [hi]
    · simp [hi, List.getElem?_eq_none (not_lt.1 hi)]
  · have : ¬ l = i := fun h' => h h'.symm
    simp [h, this]

theorem getD_append_lt' {α : Type} (l : List α) (x d : α) (i : Nat) (h : i < l.length) :
    (l ++ [x]).getD i d = l.getD i d := by
  simp [List.getD_eq_getElem?_getD, List.getElem?_append, h]
theorem getD_append_len' {α : Type} (l : List α) (x d : α) : (l ++ [x]).getD l.length d = x := by
  simp [List.getD_eq_getElem?_getD]

/-! ### rotations on lists -/

theorem length_crotL (i : Nat) (c s : K) (u : List K) : (crotL star i c s u).length = u.length := by
  simp [crotL]

theorem F_crotL (i : Nat) (c s : K) (u : List K) (h : i + 1 < u.length) (l : Nat) :
    gF (crotL star i c s u) l =
      if l = i then c * gF u i + s * gF u (i + 1)
      else if l = i + 1 then -(star s) * gF u i + c * gF u (i + 1) else gF u l := by
  unfold crotL
  simp only
  rw [gF_set, gF_set]
  by_cases h1 : l = i + 1
  · subst h1
    have : ¬ (i + 1 = i) := by omega
    simp [this, h, C07.F]
  · by_cases h2 : l = i
    · subst h2
      have hl : l < u.length := by omega
      simp [hl, C07.F]
    · simp [h1, h2]

theorem F_crotL_other (i : Nat) (c s : K) (u : List K) (l : Nat) (h1 : l ≠ i) (h2 : l ≠ i + 1) :
    gF (crotL star i c s u) l = gF u l := by
  unfold crotL
  simp only
  rw [gF_set, gF_set]
  simp [h1, h2]

theorem capplyRots_length : ∀ (i : Nat) (cs sn u : List K), (capplyRots star i cs sn u).length = u.length
  | _, [], _, _ => by simp [capplyRots]
  | _, _ :: _, [], _ => by simp [capplyRots]
  | i, c :: cs, s :: sn, u => by
    simp only [capplyRots]; rw [capplyRots_length (i+1) cs sn, length_crotL]

theorem capplyRots_snoc : ∀ (i : Nat) (cs sn : List K) (c s : K) (u : List K), cs.length = sn.length →
    capplyRots star i (cs ++ [c]) (sn ++ [s]) u = crotL star (i + cs.length) c s (capplyRots star i cs sn u)
  | i, [], [], c, s, u, _ => by simp [capplyRots]
  | _, [], _ :: _, _, _, _, h => by simp at h
  | _, _ :: _, [], _, _, _, h => by simp at h
  | i, c' :: cs, s' :: sn, c, s, u, h => by
    simp only [List.cons_append, capplyRots, List.length_cons]
    rw [capplyRots_snoc (i+1) cs sn c s _ (by simpa using h)]
    congr 1; omega

/-- the rotations `i … i + |cs| - 1` do not touch the entries above `i + |cs|` -/
theorem capplyRots_high : ∀ (i : Nat) (cs sn u : List K) (l : Nat), i + cs.length < l →
    gF (capplyRots star i cs sn u) l = gF u l
  | _, [], _, _, _, _ => by simp [capplyRots]
  | _, _ :: _, [], _, _, _ => by simp [capplyRots]
  | i, c :: cs, s :: sn, u, l, h => by
    simp only [capplyRots]
    rw [capplyRots_high (i+1) cs sn _ l (by simp at h; omega)]
    exact F_crotL_other i c s u l (by simp at h; omega) (by simp at h; omega)

/-! ### `zlartg` -/

variable {F₀ : Type} [Field F₀] [LinearOrder F₀] [IsStrictOrderedRing F₀]

/-- the breakdown / zero tests of the model over a field -/
def nzK (a : K) : Bool := decide (a ≠ 0)
theorem nzK_true {a : K} (h : nzK a = true) : a ≠ 0 := by simpa [nzK] using h
theorem nzK_false {a : K} (h : nzK a = false) : a = 0 := by simpa [nzK] using h
theorem nzK_of_ne {a : K} (h : a ≠ 0) : nzK a = true := by simpa [nzK] using h

/-- an exact square root on the non-negative reals of `K` -/
structure ExactSqrt (R : ReMap K F₀) (sqrt : K → K) : Prop where
  sq : ∀ z, star z = z → 0 ≤ R.re z → sqrt z * sqrt z = z
  real : ∀ z, star (sqrt z) = sqrt z

variable (R : ReMap K F₀) (sqrt : K → K) (hS : ExactSqrt R sqrt)

theorem star_mul_self_fixed (z : K) : star (star z * z) = star z * z := by
  rw [star_mul, star_star]

theorem sumsq_fixed (f g : K) : star (star f * f + star g * g) = star f * f + star g * g := by
  rw [star_add, star_mul_self_fixed, star_mul_self_fixed]

theorem sumsq_nonneg (f g : K) : 0 ≤ R.re (star f * f + star g * g) := by
  rw [map_add]; exact add_nonneg (R.sq_nonneg f) (R.sq_nonneg g)

include R in
theorem sumsq_ne_zero (f g : K) (hg : g ≠ 0) : star f * f + star g * g ≠ 0 := by
  intro h
  have h1 : R.re (star f * f) + R.re (star g * g) = 0 := by rw [← map_add, h, map_zero]
  have h2 : R.re (star g * g) = 0 := by
    have := R.sq_nonneg f; have := R.sq_nonneg g; linarith
  exact hg (R.sq_def g h2)

include hS in
theorem sqrt_abs_sq (f : K) : sqrt (star f * f) * sqrt (star f * f) = star f * f :=
  hS.sq _ (star_mul_self_fixed f) (R.sq_nonneg f)

include hS in
theorem sqrt_abs_ne (f : K) (hf : f ≠ 0) : sqrt (star f * f) ≠ 0 := by
  intro h
  have := sqrt_abs_sq R sqrt hS f
  rw [h, mul_zero] at this
  have hsf : star f ≠ 0 := by simpa using hf
  exact (mul_ne_zero hsf hf) this.symm

include hS in
/-- **the contract of `zlartg`** (for `g ≠ 0`): `c` is real, the rotation is unitary and zeroes the second entry -/
theorem clartg_spec (f g : K) (hg : g ≠ 0) :
    star (clartg star sqrt nzK f g).1 = (clartg star sqrt nzK f g).1 ∧
    (clartg star sqrt nzK f g).1 * (clartg star sqrt nzK f g).1 +
      star (clartg star sqrt nzK f g).2 * (clartg star sqrt nzK f g).2 = 1 ∧
    -(star (clartg star sqrt nzK f g).2) * f + (clartg star sqrt nzK f g).1 * g = 0 := by
  unfold clartg
  by_cases hf : f = 0
  · have hnz : nzK f = false := by simp [nzK, hf]
    rw [hnz]
    simp only [Bool.false_eq_true, if_false]
    have h1 := sqrt_abs_sq R sqrt hS g
    have hne := sqrt_abs_ne R sqrt hS g hg
    have hr := hS.real (star g * g)
    generalize sqrt (star g * g) = g1 at h1 hne hr
    refine ⟨star_zero _, ?_, by rw [hf]; ring⟩
    rw [star_div₀, star_star, hr]
    field_simp
    linear_combination -h1
  · have hnz : nzK f = true := nzK_of_ne hf
    rw [hnz]
    simp only [if_true]
    have h1 := sqrt_abs_sq R sqrt hS f
    have hne1 := sqrt_abs_ne R sqrt hS f hf
    have hr1 := hS.real (star f * f)
    have h2 := hS.sq _ (sumsq_fixed f g) (sumsq_nonneg R f g)
    have hr2 := hS.real (star f * f + star g * g)
    have hne2 : sqrt (star f * f + star g * g) ≠ 0 := by
      intro h
      rw [h, mul_zero] at h2
      exact sumsq_ne_zero R f g hg h2.symm
    generalize sqrt (star f * f) = f1 at h1 hne1 hr1
    generalize sqrt (star f * f + star g * g) = d at h2 hne2 hr2
    refine ⟨?_, ?_, ?_⟩
    · rw [star_div₀, hr1, hr2]
    · rw [star_mul, star_div₀, star_div₀, star_star, hr1, hr2]
      field_simp
      linear_combination (f1 ^ 2 - g * star g) * h1 - f1 ^ 2 * h2
    · rw [star_mul, star_div₀, star_div₀, star_star, hr1, hr2]
      field_simp
      linear_combination g * h1

/-! ### the Givens bookkeeping of one inner iteration -/

theorem cgivensUpdate_rot (k : Nat) (cs sn g col : List K)
    (hnz : nzK (gF (capplyRots star 0 cs sn col) (k + 1)) = true) :
    cgivensUpdate star sqrt nzK false k cs sn g col =
      ⟨((capplyRots star 0 cs sn col).set k
          ((clartg star sqrt nzK (gF (capplyRots star 0 cs sn col) k) (gF (capplyRots star 0 cs sn col) (k + 1))).1 *
              gF (capplyRots star 0 cs sn col) k +
            (clartg star sqrt nzK (gF (capplyRots star 0 cs sn col) k) (gF (capplyRots star 0 cs sn col) (k + 1))).2 *
              gF (capplyRots star 0 cs sn col) (k + 1))).set (k + 1) 0,
        (clartg star sqrt nzK (gF (capplyRots star 0 cs sn col) k) (gF (capplyRots star 0 cs sn col) (k + 1))).1,
        (clartg star sqrt nzK (gF (capplyRots star 0 cs sn col) k) (gF (capplyRots star 0 cs sn col) (k + 1))).2,
        crotL star k
          (clartg star sqrt nzK (gF (capplyRots star 0 cs sn col) k) (gF (capplyRots star 0 cs sn col) (k + 1))).1
          (clartg star sqrt nzK (gF (capplyRots star 0 cs sn col) k) (gF (capplyRots star 0 cs sn col) (k + 1))).2
          (g ++ [0])⟩ := by
  simp only [C07.F] at hnz
  simp only [cgivensUpdate, C07.F, hnz, Bool.not_false, Bool.true_and, if_true]

theorem cgivensUpdate_norot (k : Nat) (cs sn g col : List K)
    (hnz : nzK (gF (capplyRots star 0 cs sn col) (k + 1)) = false) :
    cgivensUpdate star sqrt nzK false k cs sn g col = ⟨capplyRots star 0 cs sn col, 1, 0, g ++ [0]⟩ := by
  simp only [C07.F] at hnz
  simp only [cgivensUpdate, hnz, Bool.not_false, Bool.true_and, Bool.false_eq_true, if_false]

/-! ### the rotated-basis invariant -/

variable {V : Type} [AddCommGroup V] [Module K V]

/-- see the header: `u_0 … u_{k-1}, p` is the orthonormal basis obtained from `v_0 … v_k` by the `k` rotations -/
structure RB (E : HForm K F₀ V) (B : V →ₗ[K] V) (r0 : V) (k : Nat) (v z : Nat → V) (cs sn : List K)
    (rcols : List (List K)) (g : List K) (u : Nat → V) (p : V) : Prop where
  lcs : cs.length = k
  lsn : sn.length = k
  lg : g.length = k + 1
  lrc : rcols.length = k
  res : r0 = ∑ i ∈ range k, gF g i • u i + gF g k • p
  rel : ∀ j, j < k → B (z j) = ∑ i ∈ range (j + 1), Rent rcols i j • u i
  tri : ∀ j, j < k → ∀ i, j < i → Rent rcols i j = 0
  diag : ∀ j, j < k → Rent rcols j j ≠ 0
  pp : E.h p p = 1
  uu : ∀ i j, i < k → j < k → E.h (u i) (u j) = if i = j then 1 else 0
  up : ∀ i, i < k → E.h (u i) p = 0
  inh : ∀ w, (∀ l, l ≤ k → E.h (v l) w = 0) → E.h p w = 0 ∧ ∀ i, i < k → E.h (u i) w = 0
  chg : ∀ h : List K, k + 1 ≤ h.length → ∑ l ∈ range (k + 1), gF h l • v l =
    ∑ i ∈ range k, gF (capplyRots star 0 cs sn h) i • u i + gF (capplyRots star 0 cs sn h) k • p

theorem rb_init (E : HForm K F₀ V) (B : V →ₗ[K] V) (r0 : V) (v z : Nat → V) (β : K)
    (hr0 : r0 = β • v 0) (h00 : E.h (v 0) (v 0) = 1) :
    RB E B r0 0 v z [] [] [] [β] (fun _ => 0) (v 0) := by
  refine ⟨rfl, rfl, rfl, rfl, ?_, by intro j hj; omega, by intro j hj; omega, by intro j hj; omega, h00,
    by intro i j hi; omega, by intro i hi; omega, ?_, ?_⟩
  · simp [C07.F, hr0]
  · intro w hw
    exact ⟨hw 0 (le_refl 0), by intro i hi; omega⟩
  · intro h _
    simp [capplyRots]

/-- the two-dimensional change of basis performed by one rotation -/
theorem rot_basis (c s : K) (hu : c * c + star s * s = 1) (p vv : V) (a b : K) :
    a • p + b • vv = (c * a + s * b) • (c • p + star s • vv) + (-(star s) * a + c * b) • (-s • p + c • vv) := by
  have key : a • p + b • vv = (c * c + star s * s) • (a • p + b • vv) := by rw [hu, one_smul]
  rw [key]
  module

/-- **one inner iteration with a live rotation keeps the invariant** -/
theorem rb_step (E : HForm K F₀ V) (B : V →ₗ[K] V) (r0 : V) (k : Nat) (v z : Nat → V) (cs sn : List K)
    (rcols : List (List K)) (g : List K) (u : Nat → V) (p : V) (ih : RB E B r0 k v z cs sn rcols g u p)
    (hvv : E.h (v (k + 1)) (v (k + 1)) = 1) (hvo : ∀ l, l ≤ k → E.h (v l) (v (k + 1)) = 0)
    (col : List K) (hcl : col.length = k + 2)
    (hrel : B (z k) = ∑ l ∈ range (k + 2), gF col l • v l)
    (c s : K) (hc : star c = c) (hu : c * c + star s * s = 1)
    (hz : -(star s) * gF (capplyRots star 0 cs sn col) k + c * gF (capplyRots star 0 cs sn col) (k + 1) = 0)
    (hj1 : gF (capplyRots star 0 cs sn col) (k + 1) ≠ 0) :
    RB E B r0 (k + 1) v z (cs ++ [c]) (sn ++ [s])
      (rcols ++ [((capplyRots star 0 cs sn col).set k
        (c * gF (capplyRots star 0 cs sn col) k + s * gF (capplyRots star 0 cs sn col) (k + 1))).set (k + 1) 0])
      (crotL star k c s (g ++ [0]))
      (fun i => if i = k then c • p + star s • v (k + 1) else u i) (-s • p + c • v (k + 1)) := by
  obtain ⟨hpv, huv⟩ := ih.inh (v (k + 1)) hvo
  have hvp : E.h (v (k + 1)) p = 0 := E.orth_symm hpv
  have hvu : ∀ i, i < k → E.h (v (k + 1)) (u i) = 0 := fun i hi => E.orth_symm (huv i hi)
  have hpu : ∀ i, i < k → E.h p (u i) = 0 := fun i hi => E.orth_symm (ih.up i hi)
  set rc0 := capplyRots star 0 cs sn col with hrc0
  have hrc0l : rc0.length = k + 2 := by rw [hrc0, capplyRots_length, hcl]
  set rc := (rc0.set k (c * gF rc0 k + s * gF rc0 (k + 1))).set (k + 1) 0 with hrc
  have hrcF : ∀ l, gF rc l = if l = k + 1 then 0 else if l = k then c * gF rc0 k + s * gF rc0 (k + 1)
      else gF rc0 l := by
    intro l
    rw [hrc, gF_set, gF_set]
    by_cases h1 : l = k + 1
    · subst h1; simp [hrc0l]
    · by_cases h2 : l = k
      · subst h2; simp [hrc0l]
      · simp [h1, h2]
  have hgl : (g ++ [0]).length = k + 2 := by simp [ih.lg]
  have hg0 : gF (g ++ [0]) (k + 1) = 0 := by rw [← ih.lg]; exact gF_append_len g 0
  have hgk : ∀ l, l ≤ k → gF (g ++ [0]) l = gF g l := fun l hl =>
    gF_append_lt g [0] l (by rw [ih.lg]; omega)
  have hu' : ∀ i, i < k → (if i = k then c • p + star s • v (k + 1) else u i) = u i := by
    intro i hi; rw [if_neg (by omega)]
  have huk : (if k = k then c • p + star s • v (k + 1) else u k) = c • p + star s • v (k + 1) := if_pos rfl
  have hRlt : ∀ i j, j < k → Rent (rcols ++ [rc]) i j = Rent rcols i j := by
    intro i j hj
    unfold Rent
    rw [getD_append_lt' _ _ _ _ (by rw [ih.lrc]; exact hj)]
  have hRk : ∀ i, Rent (rcols ++ [rc]) i k = gF rc i := by
    intro i
    unfold Rent
    rw [← ih.lrc, getD_append_len']; rfl
  refine ⟨by simp [ih.lcs], by simp [ih.lsn], by rw [length_crotL, hgl], by simp [ih.lrc], ?_, ?_, ?_, ?_, ?_, ?_,
    ?_, ?_, ?_⟩
  · -- res
    have h1 : ∑ i ∈ range k, gF (crotL star k c s (g ++ [0])) i •
          (if i = k then c • p + star s • v (k + 1) else u i) = ∑ i ∈ range k, gF g i • u i :=
      sum_congr rfl (fun i hi => by
        have hik := mem_range.1 hi
        rw [hu' i hik, F_crotL k c s (g ++ [0]) (by rw [hgl]; omega), if_neg (by omega), if_neg (by omega),
          hgk i (by omega)])
    rw [sum_range_succ, h1, huk, F_crotL k c s (g ++ [0]) (by rw [hgl]; omega), if_pos rfl,
      F_crotL k c s (g ++ [0]) (by rw [hgl]; omega), if_neg (by omega), if_pos rfl, hg0, hgk k (le_refl k)]
    rw [add_assoc, ← rot_basis c s hu p (v (k + 1)) (gF g k) 0, zero_smul, add_zero]
    exact ih.res
  · -- rel
    intro j hj
    by_cases hjk : j < k
    · rw [ih.rel j hjk]
      refine sum_congr rfl (fun i hi => ?_)
      have := mem_range.1 hi
      rw [hRlt i j hjk, hu' i (by omega)]
    · have hjk' : j = k := by omega
      subst hjk'
      have h1 : ∑ i ∈ range j, Rent (rcols ++ [rc]) i j •
            (if i = j then c • p + star s • v (j + 1) else u i) = ∑ i ∈ range j, gF rc0 i • u i :=
        sum_congr rfl (fun i hi => by
          have hik := mem_range.1 hi
          rw [hRk i, hrcF i, if_neg (by omega), if_neg (by omega), hu' i hik])
      have hhigh : gF col (j + 1) = gF rc0 (j + 1) := by
        rw [hrc0, capplyRots_high 0 cs sn col (j + 1) (by rw [ih.lcs]; omega)]
      rw [hrel, sum_range_succ, ih.chg col (by rw [hcl]; omega)]
      rw [sum_range_succ (fun i => Rent (rcols ++ [rc]) i j • (if i = j then c • p + star s • v (j + 1) else u i)),
        h1, hRk j, hrcF j, if_neg (by omega), if_pos rfl, huk]
      rw [hhigh, add_assoc, rot_basis c s hu p (v (j + 1)) (gF rc0 j) (gF rc0 (j + 1)), hz, zero_smul, add_zero]
  · -- tri
    intro j hj i hji
    by_cases hjk : j < k
    · rw [hRlt i j hjk]; exact ih.tri j hjk i hji
    · have hjk' : j = k := by omega
      subst hjk'
      rw [hRk i, hrcF i]
      by_cases h1 : i = j + 1
      · rw [if_pos h1]
      · rw [if_neg h1, if_neg (by omega)]
        exact gF_out rc0 i (by rw [hrc0l]; omega)
  · -- diag
    intro j hj
    by_cases hjk : j < k
    · rw [hRlt j j hjk]; exact ih.diag j hjk
    · have hjk' : j = k := by omega
      subst hjk'
      rw [hRk j, hrcF j, if_neg (by omega), if_pos rfl]
      intro h0
      apply hj1
      -- conj(s) * r = g
      have : star s * (c * gF rc0 j + s * gF rc0 (j + 1)) = gF rc0 (j + 1) := by
        linear_combination (gF rc0 (j + 1)) * hu - c * hz
      rw [← this, h0, mul_zero]
  · -- pp
    simp only [E.add_left, E.add_right, E.smul_left, E.smul_right, ih.pp, hpv, hvp, hvv, hc, star_neg]
    linear_combination hu
  · -- uu
    intro i j hi hj
    by_cases hik : i = k
    · by_cases hjk : j = k
      · rw [if_pos hik, if_pos hjk, if_pos (by omega)]
        simp only [E.add_left, E.add_right, E.smul_left, E.smul_right, ih.pp, hpv, hvp, hvv, hc, star_star]
        linear_combination hu
      · rw [if_pos hik, if_neg hjk, if_neg (by omega)]
        simp only [E.add_left, E.smul_left, hpu j (by omega), hvu j (by omega)]
        ring
    · by_cases hjk : j = k
      · rw [if_neg hik, if_pos hjk, if_neg (by omega)]
        simp only [E.add_right, E.smul_right, ih.up i (by omega), huv i (by omega)]
        ring
      · rw [if_neg hik, if_neg hjk]
        exact ih.uu i j (by omega) (by omega)
  · -- up
    intro i hi
    by_cases hik : i = k
    · rw [if_pos hik]
      simp only [E.add_left, E.add_right, E.smul_left, E.smul_right, ih.pp, hpv, hvp, hvv, hc, star_star]
      ring
    · rw [if_neg hik]
      simp only [E.add_right, E.smul_right, ih.up i (by omega), huv i (by omega)]
      ring
  · -- inh
    intro w hw
    obtain ⟨hpw, huw⟩ := ih.inh w (fun l hl => hw l (by omega))
    have hvw := hw (k + 1) (le_refl _)
    refine ⟨?_, ?_⟩
    · simp only [E.add_left, E.smul_left, hpw, hvw]; ring
    · intro i hi
      by_cases hik : i = k
      · rw [if_pos hik]
        simp only [E.add_left, E.smul_left, hpw, hvw]; ring
      · rw [if_neg hik]; exact huw i (by omega)
  · -- chg
    intro h hh
    rw [capplyRots_snoc 0 cs sn c s h (by rw [ih.lcs, ih.lsn]), Nat.zero_add, ih.lcs]
    set h' := capplyRots star 0 cs sn h with hh'
    have hl' : h'.length = h.length := by rw [hh', capplyRots_length]
    have h1 : ∑ i ∈ range k, gF (crotL star k c s h') i •
          (if i = k then c • p + star s • v (k + 1) else u i) = ∑ i ∈ range k, gF h' i • u i :=
      sum_congr rfl (fun i hi => by
        have hik := mem_range.1 hi
        rw [F_crotL k c s h' (by rw [hl']; omega), if_neg (by omega), if_neg (by omega), hu' i hik])
    have hhigh : gF h (k + 1) = gF h' (k + 1) := by
      rw [hh', capplyRots_high 0 cs sn h (k + 1) (by rw [ih.lcs]; omega)]
    rw [sum_range_succ, ih.chg h (by omega)]
    rw [sum_range_succ (fun i => gF (crotL star k c s h') i • (if i = k then c • p + star s • v (k + 1) else u i)),
      h1, huk, F_crotL k c s h' (by rw [hl']; omega), if_pos rfl,
      F_crotL k c s h' (by rw [hl']; omega), if_neg (by omega), if_pos rfl]
    rw [hhigh, add_assoc, add_assoc, ← rot_basis c s hu p (v (k + 1)) (gF h' k) (gF h' (k + 1))]

/-! ### what the invariant gives: residual, estimate, optimality -/

section final
variable (E : HForm K F₀ V) (B : V →ₗ[K] V) (c x0 : V) (k : Nat) (v z : Nat → V) (cs sn : List K)
  (rcols : List (List K)) (g : List K) (u : Nat → V) (p : V)
  (hR : RB E B (c - B x0) k v z cs sn rcols g u p)

include hR in
theorem rb_rows : ∀ i, i < k → gF g i = ∑ j ∈ range k, Rent rcols i j * gF (backSub rcols g k []) j := by
  intro i hi
  have hrows := backSub_rows rcols g (by rw [hR.lrc]; exact hR.diag) k [] (by rw [hR.lrc])
    (by rw [hR.lrc]; simp) i hi
  rw [hrows, hR.lrc, ← sum_range_add_sum_Ico _ (le_of_lt hi), sum_Ico_eq_sum_range]
  have hlow : ∑ j ∈ range i, Rent rcols i j * gF (backSub rcols g k []) j = 0 :=
    sum_eq_zero (fun j hj => by rw [hR.tri j (by have := mem_range.1 hj; omega) i (mem_range.1 hj), zero_mul])
  rw [hlow, zero_add]

include hR in
theorem rb_rel_full : ∀ j, j < k → B (z j) = ∑ i ∈ range k, Rent rcols i j • u i := by
  intro j hj
  rw [hR.rel j hj]
  apply sum_subset (range_subset_range.2 (by omega))
  intro i _ hni
  have : j < i := by
    have := mt mem_range.2 hni
    omega
  rw [hR.tri j hj i this, zero_smul]

include hR in
/-- **the residual of the iterate is `g_k • p`** -/
theorem rb_residual :
    c - B (x0 + ∑ j ∈ range k, gF (backSub rcols g k []) j • z j) = gF g k • p := by
  set y := backSub rcols g k [] with hy
  have h1 : B (∑ j ∈ range k, gF y j • z j) = ∑ i ∈ range k, gF g i • u i := by
    rw [map_sum]
    have : ∀ j ∈ range k, B (gF y j • z j) = ∑ i ∈ range k, (Rent rcols i j * gF y j) • u i := by
      intro j hj
      rw [map_smul, rb_rel_full E B c x0 k v z cs sn rcols g u p hR j (mem_range.1 hj), smul_sum]
      exact sum_congr rfl (fun i _ => by rw [smul_smul, mul_comm])
    rw [sum_congr rfl this, sum_comm]
    refine sum_congr rfl (fun i hi => ?_)
    rw [← sum_smul, ← rb_rows E B c x0 k v z cs sn rcols g u p hR i (mem_range.1 hi)]
  have h2 : c - B (x0 + ∑ j ∈ range k, gF y j • z j) = (c - B x0) - B (∑ j ∈ range k, gF y j • z j) := by
    rw [map_add]; abel
  rw [h2, h1, hR.res]
  abel

include hR in
/-- **the estimate**: `‖c − B x_k‖² = |g_k|²` -/
theorem rb_estimate :
    E.en (c - B (x0 + ∑ j ∈ range k, gF (backSub rcols g k []) j • z j)) = E.re (star (gF g k) * gF g k) := by
  rw [rb_residual E B c x0 k v z cs sn rcols g u p hR]
  unfold HForm.en
  rw [E.smul_left, E.smul_right, hR.pp, mul_one]

include hR in
/-- **optimality**: the iterate minimises the residual norm over `x₀ + span{z_0 … z_{k-1}}` -/
theorem rb_optimal :
    ∀ x', x' - x0 ∈ Submodule.span K (z '' {j | j < k}) →
      E.en (c - B (x0 + ∑ j ∈ range k, gF (backSub rcols g k []) j • z j)) ≤ E.en (c - B x') := by
  apply CHerm.petrov_optimal E B c x0 _ (Submodule.span K (z '' {j | j < k}))
  · have : x0 + ∑ j ∈ range k, gF (backSub rcols g k []) j • z j - x0 =
        ∑ j ∈ range k, gF (backSub rcols g k []) j • z j := by abel
    rw [this]
    exact Submodule.sum_mem _ (fun j hj => Submodule.smul_mem _ _
      (Submodule.subset_span ⟨j, mem_range.1 hj, rfl⟩))
  · apply CHerm.petrov_of_span
    rintro w ⟨j, hj, rfl⟩
    rw [rb_residual E B c x0 k v z cs sn rcols g u p hR, rb_rel_full E B c x0 k v z cs sn rcols g u p hR j hj,
      E.sum_right]
    refine sum_eq_zero (fun i hi => ?_)
    rw [E.smul_left, E.smul_right, E.orth_symm (hR.up i (mem_range.1 hi))]
    ring
end final

#print axioms rb_step
#print axioms rb_estimate
#print axioms rb_optimal
end PyamgV.ExtCG
