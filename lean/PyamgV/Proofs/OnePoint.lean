import Mathlib.Algebra.Order.Field.Basic
import Mathlib.Algebra.Order.AbsoluteValue.Basic
import Mathlib.Tactic.Linarith

/-! PyamgV (C11): the F-row of `one_point_interpolation` (air.h:46): scan the strength row, keep
the first C-neighbour of maximal |strength| (strict `>` against a running maximum started at
`-1`). Result: none iff the row has no C-neighbour; otherwise a C-neighbour of the row whose
|strength| dominates all C-neighbours. -/
namespace PyamgV.OnePoint

variable {K : Type*} [Field K] [LinearOrder K] [IsStrictOrderedRing K]

abbrev Row (K : Type*) := List (Nat × K)

/-- loop state: running maximum and the chosen entry -/
def scan (isC : Nat → Bool) (row : Row K) (acc : K × Option (Nat × K)) : K × Option (Nat × K) :=
  row.foldl (fun acc cv =>
    if isC cv.1 = true ∧ |cv.2| > acc.1 then (|cv.2|, some cv) else acc) acc

def onePoint (isC : Nat → Bool) (row : Row K) : Option (Nat × K) := (scan isC row (-1, none)).2

/-- invariant of the scan over a prefix `done` of the row -/
def Good (isC : Nat → Bool) (done : Row K) (acc : K × Option (Nat × K)) : Prop :=
  (acc.2 = none → acc.1 = -1 ∧ ∀ cv ∈ done, isC cv.1 = false) ∧
  (∀ c, acc.2 = some c → c ∈ done ∧ isC c.1 = true ∧ acc.1 = |c.2| ∧
    ∀ cv ∈ done, isC cv.1 = true → |cv.2| ≤ |c.2|)

theorem scan_good (isC : Nat → Bool) : ∀ (rest done : Row K) (acc : K × Option (Nat × K)),
    Good isC done acc → Good isC (done ++ rest) (scan isC rest acc) := by
  intro rest
  induction rest with
  | nil => intro done acc h; simpa [scan] using h
  | cons cv rest ih =>
    intro done acc h
    have hstep : Good isC (done ++ [cv])
        (if isC cv.1 = true ∧ |cv.2| > acc.1 then (|cv.2|, some cv) else acc) := by
      by_cases hc : isC cv.1 = true ∧ |cv.2| > acc.1
      · rw [if_pos hc]
        refine ⟨fun hn => by simp at hn, ?_⟩
        intro c hcc
        have : c = cv := by simpa using hcc.symm
        subst this
        refine ⟨by simp, hc.1, rfl, ?_⟩
        intro d hd hdC
        rcases List.mem_append.1 hd with hd | hd
        · cases hacc : acc.2 with
          | none =>
            have := (h.1 hacc).2 d hd
            rw [this] at hdC; exact absurd hdC (by decide)
          | some c0 =>
            obtain ⟨_, _, h3, h4⟩ := h.2 c0 hacc
            have := h4 d hd hdC
            have hgt := hc.2
            rw [h3] at hgt
            exact le_of_lt (lt_of_le_of_lt this hgt)
        · have : d = c := by simpa using hd
          rw [this]
      · rw [if_neg hc]
        refine ⟨?_, ?_⟩
        · intro hn
          obtain ⟨h1, h2⟩ := h.1 hn
          refine ⟨h1, ?_⟩
          intro d hd
          rcases List.mem_append.1 hd with hd | hd
          · exact h2 d hd
          · have : d = cv := by simpa using hd
            subst this
            by_cases hdC : isC d.1 = true
            · exfalso; apply hc
              refine ⟨hdC, ?_⟩
              rw [h1]
              exact lt_of_lt_of_le (by norm_num) (abs_nonneg _)
            · simpa using hdC
        · intro c hcc
          obtain ⟨h1, h2, h3, h4⟩ := h.2 c hcc
          refine ⟨by simp [h1], h2, h3, ?_⟩
          intro d hd hdC
          rcases List.mem_append.1 hd with hd | hd
          · exact h4 d hd hdC
          · have : d = cv := by simpa using hd
            subst this
            have : ¬ |d.2| > acc.1 := fun hgt => hc ⟨hdC, hgt⟩
            rw [h3] at this
            exact not_lt.1 this
    have := ih (done ++ [cv]) _ hstep
    simpa [scan, List.append_assoc] using this

/-- **C11, one-point interpolation** -/
theorem onePoint_spec (isC : Nat → Bool) (row : Row K) :
    (onePoint isC row = none → ∀ cv ∈ row, isC cv.1 = false) ∧
    (∀ c, onePoint isC row = some c → c ∈ row ∧ isC c.1 = true ∧
      ∀ cv ∈ row, isC cv.1 = true → |cv.2| ≤ |c.2|) := by
  have h0 : Good isC [] ((-1 : K), none) :=
    ⟨fun _ => ⟨rfl, fun cv h => by simp at h⟩, fun c h => by simp at h⟩
  have h := scan_good isC row [] _ h0
  simp only [List.nil_append] at h
  unfold onePoint
  refine ⟨fun hn => (h.1 hn).2, ?_⟩
  intro c hc
  obtain ⟨h1, h2, _, h4⟩ := h.2 c hc
  exact ⟨h1, h2, h4⟩

#print axioms onePoint_spec
end PyamgV.OnePoint
