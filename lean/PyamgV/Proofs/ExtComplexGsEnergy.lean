import PyamgV.Proofs.ExtComplexGs
import PyamgV.Proofs.ExtComplexCycle
import PyamgV.Proofs.GsEnergy

/-! PyamgV (extension E5, property C02): the **complex Gauss-Seidel kernel is non-expansive in the complex
energy norm** -- the kernel-level smoother hypothesis `CNonExp` of `ccycle_nonexp`, for the executable
Gaussian-rational model `K.gaussSeidel` over `CRat`.

A vector `x : Nat → CRat` is realified to `toPair x = (Re x, Im x) : (Nat → ℚ) × (Nat → ℚ)`, a CSR matrix
with rows `rows : Nat → Row CRat` to `ccsrOp n rows = cx (csrOp n Re-rows) (csrOp n Im-rows)`
(`ccsrOp_apply`: it *is* the complex matrix-vector product). For `ccsrOp n rows` Hermitian positive
semidefinite w.r.t. `⟨u, v⟩ = Σ_{i<n} conj(uᵢ) vᵢ` (`cip (euc ℚ n)`):

* `cgsRow_energy`   : one row update of the kernel loop never increases `⟨e, A e⟩`, `e = x* − x`
  (mirror of `gsRow_energy`; the correction is a complex multiple of `e_i`, energy-orthogonal to the new
  error because the complex row residual vanishes, `gsRow_residual_zero_field`);
* `cgsSweep_cnonexp`: a sweep over any list of rows is `CNonExp` (what `CWFG`/`ccycle_nonexp` ask of a smoother);
* `crat_gaussSeidel_array_nonexp`: the same for the executable array kernel. -/
set_option linter.unusedSectionVars false
namespace PyamgV
open Finset

/-- real and imaginary part of a complex vector -/
def toPair (x : Nat → CRat) : (Nat → ℚ) × (Nat → ℚ) := (fun i => (x i).re, fun i => (x i).im)
def ofPair (w : (Nat → ℚ) × (Nat → ℚ)) : Nat → CRat := fun i => ⟨w.1 i, w.2 i⟩

@[simp] theorem toPair_ofPair (w : (Nat → ℚ) × (Nat → ℚ)) : toPair (ofPair w) = w := rfl
@[simp] theorem ofPair_toPair (x : Nat → CRat) : ofPair (toPair x) = x := rfl

def reRow (row : Row CRat) : Row ℚ := row.map (fun cv => (cv.1, cv.2.re))
def imRow (row : Row CRat) : Row ℚ := row.map (fun cv => (cv.1, cv.2.im))

/-- the realification of the CSR operator of a complex matrix -/
def ccsrOp (n : Nat) (rows : Nat → Row CRat) :
    ((Nat → ℚ) × (Nat → ℚ)) →ₗ[ℚ] ((Nat → ℚ) × (Nat → ℚ)) :=
  cx (csrOp n (fun i => reRow (rows i))) (csrOp n (fun i => imRow (rows i)))

theorem rowDot_parts (row : Row CRat) (x : Nat → CRat) :
    (rowDot row x).re = rowDot (reRow row) (toPair x).1 - rowDot (imRow row) (toPair x).2 ∧
    (rowDot row x).im = rowDot (imRow row) (toPair x).1 + rowDot (reRow row) (toPair x).2 := by
  unfold rowDot reRow imRow toPair
  induction row with
  | nil => simp
  | cons cv rest ih =>
    simp only [List.map_cons, List.sum_cons, List.map_map, Function.comp_def] at ih ⊢
    constructor
    · rw [CRat.add_re, CRat.mul_re, ih.1]; ring
    · rw [CRat.add_im, CRat.mul_im, ih.2]; ring

/-- `ccsrOp` is the complex matrix-vector product, entry by entry -/
theorem ccsrOp_apply (n : Nat) (rows : Nat → Row CRat) (x : Nat → CRat) (i : Nat) (hi : i < n) :
    (ccsrOp n rows (toPair x)).1 i = (rowDot (rows i) x).re ∧
    (ccsrOp n rows (toPair x)).2 i = (rowDot (rows i) x).im := by
  obtain ⟨h1, h2⟩ := rowDot_parts (rows i) x
  unfold ccsrOp
  simp only [cx_apply, Pi.sub_apply, Pi.add_apply, csrOp_apply _ _ _ i hi]
  exact ⟨h1.symm, h2.symm⟩

theorem toPair_sub (x y : Nat → CRat) : toPair (x - y) = toPair x - toPair y := by
  unfold toPair; ext i <;> simp


/-- `cip (euc ℚ n)` on realified `CRat` vectors is the complex number `Σ_{i<n} conj(xᵢ) yᵢ` (`np.vdot`) -/
theorem cip_euc_crat (n : Nat) (x y : Nat → CRat) :
    cip (euc ℚ n) (toPair x) (toPair y) =
      ((∑ i ∈ range n, CRat.conj (x i) * y i).re, (∑ i ∈ range n, CRat.conj (x i) * y i).im) := by
  have hre : ∀ m, (∑ i ∈ range m, CRat.conj (x i) * y i).re =
      ∑ i ∈ range m, ((x i).re * (y i).re + (x i).im * (y i).im) := by
    intro m
    induction m with
    | zero => simp
    | succ m ih => rw [sum_range_succ, sum_range_succ, CRat.add_re, ih, CRat.mul_re]; simp [CRat.conj]
  have him : ∀ m, (∑ i ∈ range m, CRat.conj (x i) * y i).im =
      ∑ i ∈ range m, ((x i).re * (y i).im - (x i).im * (y i).re) := by
    intro m
    induction m with
    | zero => simp
    | succ m ih =>
      rw [sum_range_succ, sum_range_succ, CRat.add_im, ih, CRat.mul_im]; simp [CRat.conj]; ring
  ext
  · rw [cip_re, hre]; simp [toPair, sum_add_distrib]
  · rw [cip_im, him]; simp [toPair, sum_sub_distrib]

/-- **one row of the complex Gauss-Seidel kernel loop does not increase the complex energy of the error** -/
theorem cgsRow_energy (n : Nat) (rows : Nat → Row CRat)
    (hH : IsCAdj (euc ℚ n) (euc ℚ n) (ccsrOp n rows) (ccsrOp n rows))
    (hp : ∀ w, 0 ≤ (cip (euc ℚ n) (ccsrOp n rows w) w).1)
    (i : Nat) (hi : i < n) (d : CRat) (hd : HasDiag i (rows i) d) (b x xs : Nat → CRat)
    (hxs : ∀ j, j < n → rowDot (rows j) xs = b j) :
    (cEnergy (euc ℚ n) (ccsrOp n rows) hH hp).en (toPair xs - toPair (gsRowFn i (rows i) b x)) ≤
    (cEnergy (euc ℚ n) (ccsrOp n rows) hH hp).en (toPair xs - toPair x) := by
  by_cases hd0 : d = 0
  · obtain ⟨_, h2⟩ := rowScan_spec_field i (rows i) x (0, 0)
    have hdiag : (rowScan i (rows i) x).2 = 0 := by
      unfold rowScan; rw [h2]; unfold HasDiag at hd; rw [hd]; simp [hd0]
    have : gsRowFn i (rows i) b x = x := by
      unfold gsRowFn
      rw [show rowScan i (rows i) x = ((rowScan i (rows i) x).1, (rowScan i (rows i) x).2) from rfl]
      simp [hdiag]
    rw [this]
  · set x' := gsRowFn i (rows i) b x with hx'
    have hres := gsRow_residual_zero_field i (rows i) b x d hd hd0
    rw [← hx'] at hres
    -- x' differs from x only in coordinate i
    obtain ⟨v, hv⟩ : ∃ v : CRat, x' = Function.update x i v :=
      ⟨_, gsRowFn_eq_field i (rows i) b x d hd hd0⟩
    set dv : (Nat → ℚ) × (Nat → ℚ) :=
      (((v - x i).re) • Pi.single i (1 : ℚ), ((v - x i).im) • Pi.single i (1 : ℚ)) with hdv
    have hupd : toPair x' = toPair x + dv := by
      rw [hv, hdv]; unfold toPair
      ext j
      · by_cases hj : j = i
        · subst hj; simp
        · simp [Function.update_of_ne hj, Pi.single_apply, hj]
      · by_cases hj : j = i
        · subst hj; simp
        · simp [Function.update_of_ne hj, Pi.single_apply, hj]
    have key : toPair xs - toPair x' = (toPair xs - toPair x) - dv := by rw [hupd]; abel
    rw [key]
    apply EForm.en_sub_le
    rw [← key]
    -- orthogonality: Re⟨A e', c e_i⟩ = Re(conj((A e')_i) c) and (A e')_i = b_i − (A x')_i = 0
    show (euc ℚ n).realify.a (ccsrOp n rows (toPair xs - toPair x')) dv = 0
    rw [EForm.realify_apply, hdv]
    simp only
    rw [euc_single n i hi, euc_single n i hi, map_sub]
    obtain ⟨a1, a2⟩ := ccsrOp_apply n rows xs i hi
    obtain ⟨c1, c2⟩ := ccsrOp_apply n rows x' i hi
    simp only [Prod.fst_sub, Prod.snd_sub, Pi.sub_apply]
    rw [a1, a2, c1, c2, hxs i hi]
    have r1 := congrArg CRat.re hres
    have r2 := congrArg CRat.im hres
    rw [CRat.sub_re, CRat.zero_re] at r1
    rw [CRat.sub_im, CRat.zero_im] at r2
    rw [r1, r2]; ring

/-- a sweep over any list of rows (forward, backward, symmetric, indexed, repeated) -/
theorem cgsSweep_energy (n : Nat) (rows : Nat → Row CRat) (hH) (hp)
    (diag : Nat → CRat) (hdiag : ∀ i, i < n → HasDiag i (rows i) (diag i))
    (order : List Nat) (horder : ∀ i ∈ order, i < n) (b xs : Nat → CRat)
    (hxs : ∀ j, j < n → rowDot (rows j) xs = b j) :
    ∀ x, (cEnergy (euc ℚ n) (ccsrOp n rows) hH hp).en
          (toPair xs - toPair (order.foldl (fun x i => gsRowFn i (rows i) b x) x)) ≤
        (cEnergy (euc ℚ n) (ccsrOp n rows) hH hp).en (toPair xs - toPair x) := by
  induction order with
  | nil => intro x; simp
  | cons i rest ih =>
    intro x
    have hi : i < n := horder i (by simp)
    have h1 := cgsRow_energy n rows hH hp i hi (diag i) (hdiag i hi) b x xs hxs
    have h2 := ih (fun j hj => horder j (by simp [hj])) (gsRowFn i (rows i) b x)
    simp only [List.foldl_cons]
    exact le_trans h2 h1

/-- the complex Gauss-Seidel sweep on the realified space -/
def cgsSweepPair (rows : Nat → Row CRat) (order : List Nat)
    (X B : (Nat → ℚ) × (Nat → ℚ)) : (Nat → ℚ) × (Nat → ℚ) :=
  toPair (order.foldl (fun x i => gsRowFn i (rows i) (ofPair B) x) (ofPair X))

/-- **the complex Gauss-Seidel sweep is a non-expansive smoother in the complex energy norm**: the
hypothesis `CNonExp` that `CWFG` / `ccycle_nonexp` ask of the pre- and post-smoothers -/
theorem cgsSweep_cnonexp (n : Nat) (rows : Nat → Row CRat)
    (hH : IsCAdj (euc ℚ n) (euc ℚ n) (ccsrOp n rows) (ccsrOp n rows))
    (hp : ∀ w, 0 ≤ (cip (euc ℚ n) (ccsrOp n rows w) w).1)
    (diag : Nat → CRat) (hdiag : ∀ i, i < n → HasDiag i (rows i) (diag i))
    (order : List Nat) (horder : ∀ i ∈ order, i < n) :
    CNonExp (euc ℚ n) (ccsrOp n rows) (cgsSweepPair rows order) := by
  rw [cNonExp_iff (euc ℚ n) (ccsrOp n rows) hH hp]
  intro X B XS hb
  have hxs : ∀ j, j < n → rowDot (rows j) (ofPair XS) = ofPair B j := by
    intro j hj
    obtain ⟨h1, h2⟩ := ccsrOp_apply n rows (ofPair XS) j hj
    rw [toPair_ofPair, hb] at h1 h2
    exact CRat.ext' h1.symm h2.symm
  have := cgsSweep_energy n rows hH hp diag hdiag order horder (ofPair B) (ofPair XS) hxs (ofPair X)
  simpa [cgsSweepPair] using this

/-- **the executable complex kernel**: for a CSR structure over `CRat` whose first `n` rows store exactly
one diagonal entry each and whose operator is Hermitian positive semidefinite, `K.gaussSeidel` over any
row list does not increase the complex energy `⟨e, A e⟩` of the error w.r.t. any solution `xs` of the
first `n` equations. -/
theorem crat_gaussSeidel_array_nonexp (A : K.Csr CRat) (n : Nat)
    (hH : IsCAdj (euc ℚ n) (euc ℚ n) (ccsrOp n (rowOf A)) (ccsrOp n (rowOf A)))
    (hp : ∀ w, 0 ≤ (cip (euc ℚ n) (ccsrOp n (rowOf A) w) w).1)
    (diag : Nat → CRat) (hdiag : ∀ i, i < n → CsrHasDiag A i (diag i))
    (rows : List Nat) (hrows : ∀ i ∈ rows, i < n) (b x : Array CRat) (hn : n ≤ x.size)
    (xs : Nat → CRat) (hxs : ∀ j, j < n → rowDot (rowOf A j) xs = K.rd b j) :
    (cEnergy (euc ℚ n) (ccsrOp n (rowOf A)) hH hp).en
        (toPair xs - toPair (fun i => K.rd (K.gaussSeidel A b rows x) i)) ≤
    (cEnergy (euc ℚ n) (ccsrOp n (rowOf A)) hH hp).en (toPair xs - toPair (fun i => K.rd x i)) := by
  have href := (gaussSeidel_refines_field A b rows x
    (fun i hi => lt_of_lt_of_le (hrows i hi) hn)).2
  have := cgsSweep_energy n (rowOf A) hH hp diag
    (fun i hi => (csrHasDiag_iff A i (diag i)).1 (hdiag i hi)) rows hrows (fn b) xs hxs (fn x)
  rw [← href] at this
  exact this


/-! ### non-vacuity: the Hermitian positive definite matrix `[[2, i], [-i, 2]]` -/
namespace ExC

def rows : Nat → Row CRat := fun i =>
  if i = 0 then [(0, ⟨2, 0⟩), (1, ⟨0, 1⟩)] else if i = 1 then [(0, ⟨0, -1⟩), (1, ⟨2, 0⟩)] else []

def Ar : (Nat → ℚ) →ₗ[ℚ] (Nat → ℚ) := csrOp 2 (fun i => reRow (rows i))
def Ai : (Nat → ℚ) →ₗ[ℚ] (Nat → ℚ) := csrOp 2 (fun i => imRow (rows i))

theorem Ar_apply (u : Nat → ℚ) : Ar u 0 = 2 * u 0 ∧ Ar u 1 = 2 * u 1 := by
  constructor <;> simp [Ar, csrOp, rowDot, rows, reRow]

theorem Ai_apply (u : Nat → ℚ) : Ai u 0 = u 1 ∧ Ai u 1 = - u 0 := by
  constructor <;> simp [Ai, csrOp, rowDot, rows, imRow]

/-- real part symmetric, imaginary part antisymmetric -/
theorem herm_parts : HermParts (euc ℚ 2) Ar Ai := by
  constructor
  · intro u v
    simp only [euc_apply, sum_range_succ, sum_range_zero, (Ar_apply u).1, (Ar_apply u).2,
      (Ar_apply v).1, (Ar_apply v).2]
    ring
  · intro u v
    simp only [euc_apply, sum_range_succ, sum_range_zero, (Ai_apply u).1, (Ai_apply u).2,
      (Ai_apply v).1, (Ai_apply v).2]
    ring

theorem herm : IsCAdj (euc ℚ 2) (euc ℚ 2) (ccsrOp 2 rows) (ccsrOp 2 rows) :=
  (isCAdj_cx_iff (euc ℚ 2) (euc ℚ 2) Ar Ai Ar Ai).2 herm_parts

theorem psd : ∀ w, 0 ≤ (cip (euc ℚ 2) (ccsrOp 2 rows w) w).1 := by
  intro w
  show 0 ≤ (cip (euc ℚ 2) (cx Ar Ai w) w).1
  rw [cip_re]
  simp only [cx_apply, euc_apply, sum_range_succ, sum_range_zero, Pi.sub_apply, Pi.add_apply,
    (Ar_apply w.1).1, (Ar_apply w.1).2, (Ar_apply w.2).1, (Ar_apply w.2).2,
    (Ai_apply w.1).1, (Ai_apply w.1).2, (Ai_apply w.2).1, (Ai_apply w.2).2]
  nlinarith [sq_nonneg (w.1 0 - w.2 1), sq_nonneg (w.1 1 + w.2 0), sq_nonneg (w.1 0), sq_nonneg (w.1 1),
    sq_nonneg (w.2 0), sq_nonneg (w.2 1)]

theorem hasDiag : ∀ i, i < 2 → HasDiag i (rows i) ⟨2, 0⟩ := by
  intro i hi
  have : i = 0 ∨ i = 1 := by omega
  rcases this with rfl | rfl <;> simp [HasDiag, rows]

/-- every hypothesis of `cgsSweep_cnonexp` holds: the complex Gauss-Seidel sweeps (any order) on
`[[2, i], [-i, 2]]` are non-expansive in the complex energy norm, for all `x`, `b ∈ ℚ(i)²` -/
theorem example_cgsSweep_cnonexp (order : List Nat) (horder : ∀ i ∈ order, i < 2) :
    CNonExp (euc ℚ 2) (ccsrOp 2 rows) (cgsSweepPair rows order) :=
  cgsSweep_cnonexp 2 rows herm psd (fun _ => ⟨2, 0⟩) hasDiag order horder

/-- every hypothesis of `Mop_herm_parts` holds on a two-level hierarchy over this matrix (`P = R = I`,
Richardson smoothing `Q = T = I`, coarse "solve" `I`): the V- and W-cycle operators are Hermitian -/
theorem example_pwfs :
    PWFS (K := ℚ) (V := Nat → ℚ) LinearMap.id 0 (euc ℚ 2) [euc ℚ 2]
      [{ Ar := Ar, Ai := Ai, Pr := LinearMap.id, Pi := 0, Rr := LinearMap.id, Ri := 0,
         Qr := LinearMap.id, Qi := 0, Tr := LinearMap.id, Ti := 0,
         pre := fun x _ => x, post := fun x _ => x }] := by
  refine ⟨herm_parts, ⟨fun _ _ => rfl, ?_⟩, ⟨fun _ _ => rfl, ?_⟩, ⟨fun _ _ => rfl, ?_⟩⟩ <;>
    intro u v <;> simp

end ExC

#print axioms cgsRow_energy
#print axioms cgsSweep_cnonexp
#print axioms crat_gaussSeidel_array_nonexp
end PyamgV
