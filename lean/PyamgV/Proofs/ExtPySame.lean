import PyamgV.Generated.PyLogic
import PyamgV.Proofs.ExtPyDict
import PyamgV.Proofs.ExtPyEq
/-! PyamgV (extension E31, property C05): the GENERATED `_same_parameters`
(pyamg/relaxation/smoothing.py, translated by `harness/py2lean.py`): on two keyword dictionaries it
returns `True` iff every key other than `'sweep'` is absent on both sides or present with `==`
values; hence it ignores exactly `'sweep'`, and it is reflexive / symmetric wherever `==` is. -/
open PyamgV.ExtPy PyamgV.Generated.PyLogic
namespace PyamgV.ExtPySame

abbrev same := smoothing_same_parameters

def noSweep (a : Kvs) : Kvs := a.filter (fun kv => kv.1 != "sweep")

/-- the generated function on two dictionaries: compare what is left after dropping `'sweep'` -/
theorem same_dict (a b : Kvs) (ha : (keys a).Nodup) (hb : (keys b).Nodup) :
    same (.dict a) (.dict b) = .ok (.bool (pyEq (.dict (noSweep a)) (.dict (noSweep b)))) := by
  have mk : ∀ c : Kvs, (keys c).Nodup →
      pyMkDict ((noSweep c).map (fun kv => (PyVal.str kv.1, kv.2))) = .ok (.dict (noSweep c)) :=
    fun c hc => pyMkDict_nodup _ (keys_filter_nodup c _ hc)
  simp [same, smoothing_same_parameters]
  rw [pyComp_map_filter a _ _ (fun kv => kv.1 != "sweep") (fun kv => (PyVal.str kv.1, kv.2)),
    pyComp_map_filter b _ _ (fun kv => kv.1 != "sweep") (fun kv => (PyVal.str kv.1, kv.2))]
  · have ea := mk a ha
    have eb := mk b hb
    simp only [noSweep] at ea eb
    simp [ea, eb, noSweep]
  all_goals
    intro kv
    simp [unpackAt, pyNe, pyEq]
    split <;> rfl

/-- **what `_same_parameters` decides**: every key but `'sweep'` is absent on both sides or present
with `==` values -/
theorem same_true_iff (a b : Kvs) (ha : (keys a).Nodup) (hb : (keys b).Nodup) :
    same (.dict a) (.dict b) = .ok (.bool true) ↔
      ∀ k, k ≠ "sweep" → optEq (a.lookup k) (b.lookup k) = true := by
  rw [same_dict a b ha hb]
  have : pyEq (.dict (noSweep a)) (.dict (noSweep b)) = true ↔
      ∀ k, k ≠ "sweep" → optEq (a.lookup k) (b.lookup k) = true := by
    rw [pyEq_dict_iff (noSweep a) (noSweep b) (keys_filter_nodup a _ ha)]
    simp only [noSweep, lookup_filter_ne]
    constructor
    · intro h k hk; simpa [hk] using h k
    · intro h k
      by_cases hk : k = "sweep"
      · simp [hk, optEq]
      · simpa [hk] using h k hk
  constructor
  · intro h
    apply this.mp
    cases hh : pyEq (.dict (noSweep a)) (.dict (noSweep b)) <;> simp [hh] at h ⊢
  · intro h; rw [this.mpr h]

/-- the result is always a Boolean -/
theorem same_bool (a b : Kvs) (ha : (keys a).Nodup) (hb : (keys b).Nodup) :
    ∃ r : Bool, same (.dict a) (.dict b) = .ok (.bool r) := ⟨_, same_dict a b ha hb⟩

/-- the verdict depends on nothing but the entries other than `'sweep'`: changing, adding or
removing `'sweep'` on either side does not change it -/
theorem same_ignores_sweep (a a' b b' : Kvs) (ha : (keys a).Nodup) (ha' : (keys a').Nodup)
    (hb : (keys b).Nodup) (hb' : (keys b').Nodup)
    (h1 : ∀ k, k ≠ "sweep" → a.lookup k = a'.lookup k) (h2 : ∀ k, k ≠ "sweep" → b.lookup k = b'.lookup k) :
    same (.dict a) (.dict b) = same (.dict a') (.dict b') := by
  obtain ⟨r, hr⟩ := same_bool a b ha hb
  obtain ⟨r', hr'⟩ := same_bool a' b' ha' hb'
  have e : r = true ↔ r' = true := by
    constructor
    · intro h; subst h
      have := (same_true_iff a b ha hb).mp hr
      have := (same_true_iff a' b' ha' hb').mpr (fun k hk => by rw [← h1 k hk, ← h2 k hk]; exact this k hk)
      rw [hr'] at this; cases this; rfl
    · intro h; subst h
      have := (same_true_iff a' b' ha' hb').mp hr'
      have := (same_true_iff a b ha hb).mpr (fun k hk => by rw [h1 k hk, h2 k hk]; exact this k hk)
      rw [hr] at this; cases this; rfl
  rw [hr, hr']
  cases r <;> cases r' <;> simp_all

/-- every other key matters: a key other than `'sweep'` that is present on one side only, or with values
that are not `==`, makes the verdict `False` -/
theorem same_detects (a b : Kvs) (ha : (keys a).Nodup) (hb : (keys b).Nodup) (k : String) (hk : k ≠ "sweep")
    (hd : optEq (a.lookup k) (b.lookup k) = false) : same (.dict a) (.dict b) = .ok (.bool false) := by
  obtain ⟨r, hr⟩ := same_bool a b ha hb
  cases r with
  | false => exact hr
  | true =>
    have := (same_true_iff a b ha hb).mp hr k hk
    rw [hd] at this; cases this

/-- reflexive wherever `==` is reflexive on the values -/
theorem same_refl (a : Kvs) (ha : (keys a).Nodup) (hv : ∀ kv ∈ a, pyEq kv.2 kv.2 = true) :
    same (.dict a) (.dict a) = .ok (.bool true) := by
  rw [same_true_iff a a ha ha]
  intro k _
  cases hl : a.lookup k with
  | none => rfl
  | some v => exact hv (k, v) (mem_of_lookup a k v hl)

/-- symmetric wherever `==` is symmetric on the values -/
theorem same_symm (a b : Kvs) (ha : (keys a).Nodup) (hb : (keys b).Nodup)
    (hv : ∀ kv ∈ a, ∀ kw ∈ b, pyEq kv.2 kw.2 = pyEq kw.2 kv.2) :
    same (.dict a) (.dict b) = same (.dict b) (.dict a) := by
  obtain ⟨r, hr⟩ := same_bool a b ha hb
  obtain ⟨r', hr'⟩ := same_bool b a hb ha
  have flip : ∀ k, optEq (a.lookup k) (b.lookup k) = optEq (b.lookup k) (a.lookup k) := by
    intro k
    cases hl : a.lookup k with
    | none => cases b.lookup k <;> rfl
    | some v =>
      cases hl' : b.lookup k with
      | none => rfl
      | some w => exact hv (k, v) (mem_of_lookup a k v hl) (k, w) (mem_of_lookup b k w hl')
  have e : r = true ↔ r' = true := by
    constructor
    · intro h; subst h
      have := (same_true_iff a b ha hb).mp hr
      have := (same_true_iff b a hb ha).mpr (fun k hk => by rw [← flip]; exact this k hk)
      rw [hr'] at this; cases this; rfl
    · intro h; subst h
      have := (same_true_iff b a hb ha).mp hr'
      have := (same_true_iff a b ha hb).mpr (fun k hk => by rw [flip]; exact this k hk)
      rw [hr] at this; cases this; rfl
  rw [hr, hr']
  cases r <;> cases r' <;> simp_all

/-- **reflexive** on every well-formed keyword dictionary -/
theorem same_refl_wf (a : Kvs) (h : (PyVal.dict a).wf = true) : same (.dict a) (.dict a) = .ok (.bool true) :=
  same_refl a (wf_dict a h).2 (fun kv hm => pyEq_refl kv.2 (wfD_mem a (wf_dict a h).1 kv hm))

/-- **symmetric** on well-formed keyword dictionaries -/
theorem same_symm_wf (a b : Kvs) (ha : (PyVal.dict a).wf = true) (hb : (PyVal.dict b).wf = true) :
    same (.dict a) (.dict b) = same (.dict b) (.dict a) :=
  same_symm a b (wf_dict a ha).2 (wf_dict b hb).2
    (fun kv hm kw hm' => pyEq_symm kv.2 kw.2 (wfD_mem a (wf_dict a ha).1 kv hm) (wfD_mem b (wf_dict b hb).1 kw hm'))

/-- something that is not a dictionary has no `.items()` -/
theorem same_not_dict_left (x y : PyVal) (h : pyIsInst x ["dict"] = false) :
    ∃ e, same x y = .error e ∧ e.cls = "AttributeError" := by
  cases x <;> simp_all [same, smoothing_same_parameters, pyItems, pyIsInst, PyVal.tyName, raise_def]

end PyamgV.ExtPySame
