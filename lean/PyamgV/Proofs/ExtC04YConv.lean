import PyamgV.Model.ExtC04YConv
import PyamgV.Proofs.ExtC15CanonConv
import PyamgV.Proofs.ExtSpmmHier
import Mathlib.Algebra.BigOperators.Group.List.Basic
/-! PyamgV (extension E54, property C15): LIL -> CSR and DIA -> CSR.

* `val_lilToCsr`, `val_diaToCsr`: both conversions preserve the dense meaning (DIA: the padding of the data array --
  entries whose row or column lies outside the matrix, columns beyond `L` -- is ignored, by the conversion and by
  the meaning alike); `lilToCsr_wf`, `diaToCsr_wf`: they return well-formed CSR;
* `diaToCsr_canonical`: DIA ALWAYS returns the canonical form (rows strictly sorted by column: the diagonals are
  walked by increasing offset and offsets are distinct) without stored zeros, so its arrays are a function of the
  dense meaning alone (`diaToCsr_unique`);
* `lilToCsr_canonical_iff`: LIL returns the canonical form iff every index list is strictly sorted (SciPy's own
  invariant of the format); stored zeros are kept;
* `InputX.*`: the statements of E27 / E41 for all seven input formats (`val_toCsr`, `toCsr_wf`, `toCsr_canonical`,
  `stored_toCsr`, `toCsr_arrays_unique`, `hierarchy_input_independent`). -/
namespace PyamgV.ConvX
open PyamgV.Spmm PyamgV.Canon

variable {α : Type}

/-! ### LIL -/
section lil
variable [Semiring α]

theorem lilToCsr_row (X : Lil α) (i : Nat) : (lilToCsr X).row i = if i < X.rows then X.rowOf i else [] :=
  ofRows_range_row _ _ _ i

/-- **LIL -> CSR preserves the dense meaning** -/
theorem val_lilToCsr (X : Lil α) (i j : Nat) : (lilToCsr X).val i j = X.val i j := by
  unfold Csr.val Lil.val
  show (if i < X.rows then _ else _) = _
  by_cases hi : i < X.rows
  · rw [if_pos hi, if_pos hi, lilToCsr_row, if_pos hi]
  · rw [if_neg hi, if_neg hi]

omit [Semiring α] in
theorem Lil.wf_spec (X : Lil α) (h : X.wf = true) :
    ∀ i, i < X.rows → (X.idx.getD i []).length = (X.dat.getD i []).length ∧ ∀ j ∈ X.idx.getD i [], j < X.cols := by
  unfold Lil.wf at h
  simp only [Bool.and_eq_true, beq_iff_eq, List.all_eq_true, List.mem_range, decide_eq_true_eq] at h
  intro i hi
  exact h.2 i hi

omit [Semiring α] in
theorem Lil.keys_rowOf (X : Lil α) (h : X.wf = true) (i : Nat) (hi : i < X.rows) : keys (X.rowOf i) = X.idx.getD i [] :=
  List.map_fst_zip (Nat.le_of_eq (X.wf_spec h i hi).1)

omit [Semiring α] in
theorem lilToCsr_wf (X : Lil α) (h : X.wf = true) : (lilToCsr X).wf = true := by
  unfold lilToCsr
  apply ofRows_wf
  · simp
  · intro l hl e he
    rw [List.mem_map] at hl
    obtain ⟨i, hi, rfl⟩ := hl
    have hi' : i < X.rows := List.mem_range.1 hi
    have hk : e.1 ∈ keys (X.rowOf i) := List.mem_map.2 ⟨e, he, rfl⟩
    rw [X.keys_rowOf h i hi'] at hk
    exact (X.wf_spec h i hi').2 e.1 hk

/-- **LIL -> CSR is canonical exactly when the index lists are strictly sorted** (explicit zeros are kept) -/
theorem lilToCsr_canonical_iff (X : Lil α) (h : X.wf = true) :
    Canonical (lilToCsr X) ↔ ∀ i, i < X.rows → (X.idx.getD i []).Pairwise (· < ·) := by
  constructor
  · intro hc i hi
    have := hc.2 i
    rw [lilToCsr_row, if_pos hi] at this
    rw [← X.keys_rowOf h i hi]
    exact List.pairwise_map.2 this
  · intro hs
    refine ⟨lilToCsr_wf X h, ?_⟩
    intro i
    rw [lilToCsr_row]
    by_cases hi : i < X.rows
    · rw [if_pos hi]
      have := hs i hi
      rw [← X.keys_rowOf h i hi] at this
      exact List.pairwise_map.1 this
    · rw [if_neg hi]; exact List.Pairwise.nil

theorem lilToCsr_canonical (X : Lil α) (h : X.wf = true)
    (hs : ∀ i, i < X.rows → (X.idx.getD i []).Pairwise (· < ·)) : Canonical (lilToCsr X) :=
  (lilToCsr_canonical_iff X h).2 hs

/-- the stored pattern of the result is the pattern of the index lists -/
theorem stored_lilToCsr (X : Lil α) (h : X.wf = true) (i j : Nat) (hi : i < X.rows) :
    stored (lilToCsr X) i j ↔ j ∈ X.idx.getD i [] := by
  unfold stored
  rw [lilToCsr_row, if_pos hi, X.keys_rowOf h i hi]

end lil

/-! ### DIA -/
section dia
variable [Semiring α] [DecidableEq α]

omit [Semiring α] [DecidableEq α] in
theorem Dia.wf_spec (X : Dia α) (h : X.wf = true) : X.offsets.toList.Nodup := by
  unfold Dia.wf at h
  simp only [Bool.and_eq_true, beq_iff_eq, decide_eq_true_eq] at h
  exact h.2

omit [Semiring α] [DecidableEq α] in
theorem Dia.off_inj (X : Dia α) (h : X.wf = true) (a b : Nat) (ha : a < X.offsets.size) (hb : b < X.offsets.size)
    (e : X.off a = X.off b) : a = b := by
  have hnd := X.wf_spec h
  have ea : X.off a = X.offsets.toList[a]'(by simpa using ha) := by
    unfold Dia.off; simp [Array.getD_eq_getD_getElem?, ha]
  have eb : X.off b = X.offsets.toList[b]'(by simpa using hb) := by
    unfold Dia.off; simp [Array.getD_eq_getD_getElem?, hb]
  rw [ea, eb] at e
  exact (List.getElem_inj hnd).1 e

omit [Semiring α] [DecidableEq α] in
theorem insOff_perm (off : Nat → Int) (k : Nat) (l : List Nat) : (insOff off k l).Perm (k :: l) := by
  induction l with
  | nil => exact List.Perm.refl _
  | cons a l ih =>
    unfold insOff
    split
    · exact List.Perm.refl _
    · exact (List.Perm.cons a ih).trans (List.Perm.swap k a l)

omit [Semiring α] [DecidableEq α] in
theorem sortOff_perm (off : Nat → Int) (l : List Nat) : (sortOff off l).Perm l := by
  induction l with
  | nil => exact List.Perm.refl _
  | cons a l ih => exact (insOff_perm off a _).trans (List.Perm.cons a ih)

omit [Semiring α] [DecidableEq α] in
theorem insOff_sorted (off : Nat → Int) (k : Nat) (l : List Nat) (h : l.Pairwise (fun a b => off a ≤ off b)) :
    (insOff off k l).Pairwise (fun a b => off a ≤ off b) := by
  induction l with
  | nil => exact List.pairwise_singleton _ _
  | cons a l ih =>
    unfold insOff
    obtain ⟨h1, h2⟩ := List.pairwise_cons.1 h
    split
    · rename_i hle
      refine List.pairwise_cons.2 ⟨?_, h⟩
      intro b hb
      rcases List.mem_cons.1 hb with rfl | hb
      · exact hle
      · exact Int.le_trans hle (h1 b hb)
    · rename_i hle
      refine List.pairwise_cons.2 ⟨?_, ih h2⟩
      intro b hb
      rcases List.mem_cons.1 ((insOff_perm off k l).mem_iff.1 hb) with rfl | hb
      · omega
      · exact h1 b hb

omit [Semiring α] [DecidableEq α] in
theorem sortOff_sorted (off : Nat → Int) (l : List Nat) : (sortOff off l).Pairwise (fun a b => off a ≤ off b) := by
  induction l with
  | nil => exact List.Pairwise.nil
  | cons a l ih => exact insOff_sorted off a _ ih

omit [Semiring α] [DecidableEq α] in
theorem Dia.order_perm (X : Dia α) : X.order.Perm (List.range X.offsets.size) := sortOff_perm _ _

omit [Semiring α] [DecidableEq α] in
/-- `argsort(offsets)` lists the diagonals by strictly increasing offset -/
theorem Dia.order_sorted (X : Dia α) (h : X.wf = true) : X.order.Pairwise (fun a b => X.off a < X.off b) := by
  have h1 : X.order.Pairwise (fun a b => X.off a ≤ X.off b) := sortOff_sorted _ _
  have h2 : X.order.Nodup := (X.order_perm.nodup_iff).2 List.nodup_range
  have h3 := List.Pairwise.and h1 h2
  apply List.Pairwise.imp_of_mem _ h3
  intro a b ha hb hab
  obtain ⟨hle, hne⟩ := hab
  have ha' : a < X.offsets.size := List.mem_range.1 ((X.order_perm.mem_iff).1 ha)
  have hb' : b < X.offsets.size := List.mem_range.1 ((X.order_perm.mem_iff).1 hb)
  have : X.off a ≠ X.off b := fun e => hne (X.off_inj h a b ha' hb' e)
  omega

theorem diaToCsr_row (X : Dia α) (i : Nat) : (diaToCsr X).row i = if i < X.rows then X.rowOf i else [] :=
  ofRows_range_row _ _ _ i

omit [DecidableEq α] in
theorem ksum_perm (l l' : List (Nat × α)) (h : l.Perm l') (j : Nat) : ksum l j = ksum l' j := by
  unfold ksum
  exact (h.map _).sum_eq

/-- the key sum of a row of `dia_tocsr`, diagonal by diagonal -/
theorem Dia.ksum_rowOf (X : Dia α) (i j : Nat) :
    ksum (X.rowOf i) j = ((List.range X.offsets.size).map fun k =>
      if (0 ≤ (i : Int) + X.off k ∧ (i : Int) + X.off k < ((min X.cols X.L : Nat) : Int)) ∧
          ((i : Int) + X.off k).toNat = j then X.at k ((i : Int) + X.off k).toNat else 0).sum := by
  unfold Dia.rowOf
  rw [ksum_perm _ _ (X.order_perm.filterMap _) j]
  have hf : (fun k => if 0 ≤ (i : Int) + X.off k ∧ (i : Int) + X.off k < ((min X.cols X.L : Nat) : Int) then
        if X.at k ((i : Int) + X.off k).toNat = 0 then none
        else some (((i : Int) + X.off k).toNat, X.at k ((i : Int) + X.off k).toNat)
      else none)
      = fun k => if (0 ≤ (i : Int) + X.off k ∧ (i : Int) + X.off k < ((min X.cols X.L : Nat) : Int)) ∧
          X.at k ((i : Int) + X.off k).toNat ≠ 0
        then some (((i : Int) + X.off k).toNat, X.at k ((i : Int) + X.off k).toNat) else none := by
    funext k
    by_cases h1 : 0 ≤ (i : Int) + X.off k ∧ (i : Int) + X.off k < ((min X.cols X.L : Nat) : Int)
    · by_cases h2 : X.at k ((i : Int) + X.off k).toNat = 0
      · rw [if_pos h1, if_pos h2, if_neg (fun h => h.2 h2)]
      · rw [if_pos h1, if_neg h2, if_pos ⟨h1, h2⟩]
    · rw [if_neg h1, if_neg (fun h => h1 h.1)]
  rw [hf, ksum_filterMap_ite]
  congr 1
  apply List.map_congr_left
  intro k _
  by_cases h2 : X.at k ((i : Int) + X.off k).toNat = 0
  · by_cases h3 : (0 ≤ (i : Int) + X.off k ∧ (i : Int) + X.off k < ((min X.cols X.L : Nat) : Int)) ∧
        ((i : Int) + X.off k).toNat = j
    · rw [if_pos h3, h2]; simp
    · rw [if_neg h3]
      by_cases h4 : ((0 ≤ (i : Int) + X.off k ∧ (i : Int) + X.off k < ((min X.cols X.L : Nat) : Int)) ∧
          X.at k ((i : Int) + X.off k).toNat ≠ 0) ∧ ((i : Int) + X.off k).toNat = j
      · exact absurd ⟨h4.1.1, h4.2⟩ h3
      · rw [if_neg h4]
  · have : (((0 ≤ (i : Int) + X.off k ∧ (i : Int) + X.off k < ((min X.cols X.L : Nat) : Int)) ∧
          X.at k ((i : Int) + X.off k).toNat ≠ 0) ∧ ((i : Int) + X.off k).toNat = j)
        ↔ ((0 ≤ (i : Int) + X.off k ∧ (i : Int) + X.off k < ((min X.cols X.L : Nat) : Int)) ∧
          ((i : Int) + X.off k).toNat = j) := by
      constructor
      · rintro ⟨⟨a, _⟩, b⟩; exact ⟨a, b⟩
      · rintro ⟨a, b⟩; exact ⟨⟨a, h2⟩, b⟩
    simp only [this]

/-- **DIA -> CSR preserves the dense meaning**; padding (rows / columns outside the matrix, columns beyond `L`) is
ignored -/
theorem val_diaToCsr (X : Dia α) (i j : Nat) : (diaToCsr X).val i j = X.val i j := by
  unfold Csr.val
  show (if i < X.rows then _ else _) = _
  by_cases hi : i < X.rows
  · rw [if_pos hi, diaToCsr_row, if_pos hi, rowVal_eq_ksum, X.ksum_rowOf]
    unfold Dia.val
    by_cases hj : j < X.cols ∧ j < X.L
    · rw [if_pos ⟨hi, hj⟩, foldl_ite_add, zero_add]
      congr 1
      apply List.map_congr_left
      intro k _
      by_cases e : (i : Int) + X.off k = (j : Int)
      · have e2 : ((i : Int) + X.off k).toNat = j := by omega
        rw [if_pos e, if_pos ⟨⟨by omega, by omega⟩, e2⟩, e2]
      · rw [if_neg e, if_neg]
        rintro ⟨⟨h0, _⟩, h2⟩
        omega
    · rw [if_neg (fun h => hj h.2)]
      apply List.sum_eq_zero
      intro v hv
      rw [List.mem_map] at hv
      obtain ⟨k, _, rfl⟩ := hv
      rw [if_neg]
      rintro ⟨⟨h0, h1⟩, h2⟩
      omega
  · rw [if_neg hi]
    unfold Dia.val
    rw [if_neg (fun h => hi h.1)]

omit [Semiring α] in
theorem Dia.mem_rowOf (X : Dia α) [OfNat α 0] (i : Nat) (e : Nat × α) (he : e ∈ X.rowOf i) :
    ∃ k, k ∈ X.order ∧ 0 ≤ (i : Int) + X.off k ∧ (i : Int) + X.off k < ((min X.cols X.L : Nat) : Int) ∧
      e.1 = ((i : Int) + X.off k).toNat ∧ e.2 ≠ 0 := by
  unfold Dia.rowOf at he
  rw [List.mem_filterMap] at he
  obtain ⟨k, hk, hh⟩ := he
  by_cases h1 : 0 ≤ (i : Int) + X.off k ∧ (i : Int) + X.off k < ((min X.cols X.L : Nat) : Int)
  · rw [if_pos h1] at hh
    by_cases h2 : X.at k ((i : Int) + X.off k).toNat = 0
    · rw [if_pos h2] at hh; cases hh
    · rw [if_neg h2] at hh
      injection hh with hh
      subst hh
      exact ⟨k, hk, h1.1, h1.2, rfl, h2⟩
  · rw [if_neg h1] at hh; cases hh

theorem diaToCsr_wf (X : Dia α) : (diaToCsr X).wf = true := by
  unfold diaToCsr
  apply ofRows_wf
  · simp
  · intro l hl e he
    rw [List.mem_map] at hl
    obtain ⟨i, _, rfl⟩ := hl
    obtain ⟨k, _, h0, h1, h2, _⟩ := X.mem_rowOf i e he
    omega

/-- **DIA -> CSR always returns the canonical form, and stores no zero** -/
theorem diaToCsr_canonical (X : Dia α) (h : X.wf = true) : Canonical (diaToCsr X) ∧ NoZeros (diaToCsr X) := by
  refine ⟨⟨diaToCsr_wf X, ?_⟩, ?_⟩
  · intro i
    rw [diaToCsr_row]
    by_cases hi : i < X.rows
    · rw [if_pos hi]
      unfold Dia.rowOf
      apply List.Pairwise.filterMap _ _ (X.order_sorted h)
      intro a a' haa b hb b' hb'
      by_cases h1 : 0 ≤ (i : Int) + X.off a ∧ (i : Int) + X.off a < ((min X.cols X.L : Nat) : Int)
      · by_cases h1' : 0 ≤ (i : Int) + X.off a' ∧ (i : Int) + X.off a' < ((min X.cols X.L : Nat) : Int)
        · rw [if_pos h1] at hb
          rw [if_pos h1'] at hb'
          by_cases h2 : X.at a ((i : Int) + X.off a).toNat = 0
          · rw [if_pos h2] at hb; cases hb
          · by_cases h2' : X.at a' ((i : Int) + X.off a').toNat = 0
            · rw [if_pos h2'] at hb'; cases hb'
            · rw [if_neg h2] at hb
              rw [if_neg h2'] at hb'
              injection hb with hb
              injection hb' with hb'
              rw [← hb, ← hb']
              show ((i : Int) + X.off a).toNat < ((i : Int) + X.off a').toNat
              omega
        · rw [if_neg h1'] at hb'; cases hb'
      · rw [if_neg h1] at hb; cases hb
    · rw [if_neg hi]; exact List.Pairwise.nil
  · intro i e he
    rw [diaToCsr_row] at he
    by_cases hi : i < X.rows
    · rw [if_pos hi] at he
      obtain ⟨_, _, _, _, _, hz⟩ := X.mem_rowOf i e he
      exact hz
    · rw [if_neg hi] at he; cases he

/-- the result stores exactly the non-zero entries of the meaning -/
theorem stored_diaToCsr (X : Dia α) (h : X.wf = true) (i j : Nat) (hi : i < X.rows) :
    stored (diaToCsr X) i j ↔ X.val i j ≠ 0 := by
  obtain ⟨c, z⟩ := diaToCsr_canonical X h
  rw [stored_iff_val_ne _ c z i j hi, val_diaToCsr]

/-- the arrays `dia.tocsr()` returns are a function of the dense meaning: two DIA inputs (any `L`, any padding, any
order of the offsets, all-zero diagonals) that represent the same matrix give the same `indptr`, `indices`, `data` -/
theorem diaToCsr_unique (X Y : Dia α) (hX : X.wf = true) (hY : Y.wf = true) (hr : X.rows = Y.rows) (hc : X.cols = Y.cols)
    (hval : ∀ i j, X.val i j = Y.val i j) : diaToCsr X = diaToCsr Y := by
  obtain ⟨c, z⟩ := diaToCsr_canonical X hX
  obtain ⟨c', z'⟩ := diaToCsr_canonical Y hY
  apply canonical_unique_nz _ _ c c' z z'
  exact ⟨hr, hc, fun i j => by rw [val_diaToCsr, val_diaToCsr, hval]⟩

end dia

/-! ### all seven input formats -/
section inputx
variable [Semiring α] [DecidableEq α]

/-- **every conversion to CSR preserves the dense meaning** -/
theorem InputX.val_toCsr (X : InputX α) (h : X.wf = true) (i j : Nat) : X.toCsr.val i j = X.val i j := by
  cases X with
  | base X => exact X.val_toCsr h i j
  | lil X => exact val_lilToCsr X i j
  | dia X => exact val_diaToCsr X i j

theorem InputX.toCsr_wf (X : InputX α) (h : X.wf = true) : X.toCsr.wf = true := by
  cases X with
  | base X => exact X.toCsr_wf h
  | lil X => exact lilToCsr_wf X h
  | dia X => exact diaToCsr_wf X

theorem InputX.toCsr_rows (X : InputX α) : X.toCsr.rows = X.rows := by
  cases X with
  | base X => exact X.toCsr_rows
  | lil X => rfl
  | dia X => rfl

theorem InputX.toCsr_cols (X : InputX α) : X.toCsr.cols = X.cols := by
  cases X with
  | base X => exact X.toCsr_cols
  | lil X => rfl
  | dia X => rfl

/-- ... as Mathlib matrices -/
theorem InputX.mat_toCsr (X : InputX α) (h : X.wf = true) :
    denseOf X.rows X.cols X.toCsr.val = denseOf X.rows X.cols X.val := by
  ext i j
  simp only [denseOf, Matrix.of_apply]
  exact X.val_toCsr h i.1 j.1

/-- the condition under which `csr_array(A)` has strictly sorted, duplicate-free rows: none for DIA -/
def inputCanonOKX : InputX α → Prop
  | .base X => inputCanonOK X
  | .lil X => ∀ i, i < X.rows → (X.idx.getD i []).Pairwise (· < ·)
  | .dia _ => True

/-- the stored pattern as the conversion keeps it (LIL keeps explicit zeros, DIA drops them) -/
def inputStoredX : InputX α → Nat → Nat → Prop
  | .base X => inputStored X
  | .lil X => fun i j => j ∈ X.idx.getD i []
  | .dia X => fun i j => X.val i j ≠ 0

theorem toCsr_canonicalX (X : InputX α) (h : X.wf = true) (hok : inputCanonOKX X) : Canonical X.toCsr := by
  cases X with
  | base X => exact toCsr_canonical X h hok
  | lil X => exact lilToCsr_canonical X h hok
  | dia X => exact (diaToCsr_canonical X h).1

theorem stored_toCsrX (X : InputX α) (h : X.wf = true) (i j : Nat) (hi : i < X.rows) :
    stored X.toCsr i j ↔ inputStoredX X i j := by
  cases X with
  | base X => exact stored_toCsr X h i j hi
  | lil X => exact stored_lilToCsr X h i j hi
  | dia X => exact stored_diaToCsr X h i j hi

/-- **same meaning + same stored pattern => identical arrays**, for all seven formats -/
theorem toCsr_arrays_uniqueX (X Y : InputX α) (hX : X.wf = true) (hY : Y.wf = true)
    (cX : inputCanonOKX X) (cY : inputCanonOKX Y) (hrows : X.rows = Y.rows) (hcols : X.cols = Y.cols)
    (hval : ∀ i j, X.val i j = Y.val i j)
    (hpat : ∀ i j, i < X.rows → (inputStoredX X i j ↔ inputStoredX Y i j)) : X.toCsr = Y.toCsr := by
  apply canonical_unique _ _ (toCsr_canonicalX X hX cX) (toCsr_canonicalX Y hY cY)
  · refine ⟨by rw [X.toCsr_rows, Y.toCsr_rows, hrows], by rw [X.toCsr_cols, Y.toCsr_cols, hcols], ?_⟩
    intro i j
    rw [X.val_toCsr hX, Y.val_toCsr hY, hval]
  · intro i j hi
    rw [X.toCsr_rows] at hi
    rw [stored_toCsrX X hX i j hi, stored_toCsrX Y hY i j (hrows ▸ hi)]
    exact hpat i j hi

/-- hence the whole hierarchy with an ARBITRARY step function -/
theorem hierarchy_format_independent_canonicalX (size : Csr α → Nat) (step : Csr α → Option (Csr α))
    (ml mc fuel : Nat) (X Y : InputX α) (hX : X.wf = true) (hY : Y.wf = true)
    (cX : inputCanonOKX X) (cY : inputCanonOKX Y) (hrows : X.rows = Y.rows) (hcols : X.cols = Y.cols)
    (hval : ∀ i j, X.val i j = Y.val i j)
    (hpat : ∀ i j, i < X.rows → (inputStoredX X i j ↔ inputStoredX Y i j)) :
    Coarsen.build size step ml mc fuel [X.toCsr] = Coarsen.build size step ml mc fuel [Y.toCsr] := by
  rw [toCsr_arrays_uniqueX X Y hX hY cX cY hrows hcols hval hpat]

/-- E27's `hierarchy_input_independent` for all seven formats: the loop with the sparse Galerkin step started on
two inputs with the same dense meaning returns the same number of levels and level by level the same meaning,
provided the construction of `P` sees the meaning only -/
theorem hierarchy_input_independentX (g : α → α) (hg : g 0 = 0) (hadd : ∀ a b, g (a + b) = g a + g b)
    (pstep pstep' : Csr α → Option (Csr α)) (hp : PStepOK pstep pstep') (ml mc fuel : Nat)
    (X Y : InputX α) (hX : X.wf = true) (hY : Y.wf = true) (hsq : X.rows = X.cols)
    (hrows : X.rows = Y.rows) (hcols : X.cols = Y.cols) (hval : ∀ i j, X.val i j = Y.val i j) :
    List.Forall₂ LevelRel (Coarsen.build (fun A => A.rows) (gstep g pstep) ml mc fuel [X.toCsr])
      (Coarsen.build (fun A => A.rows) (gstep g pstep') ml mc fuel [Y.toCsr]) := by
  apply hierarchy_format_independent g hg hadd pstep pstep' hp
  refine ⟨X.toCsr_wf hX, Y.toCsr_wf hY, by rw [X.toCsr_rows, X.toCsr_cols]; exact hsq, ?_⟩
  refine ⟨by rw [X.toCsr_rows, Y.toCsr_rows, hrows], by rw [X.toCsr_cols, Y.toCsr_cols, hcols], ?_⟩
  intro i j
  rw [X.val_toCsr hX, Y.val_toCsr hY, hval]

/-- the Galerkin step through any input format -/
theorem galerkin_input_independentX (X Y : InputX α) (R P : Csr α)
    (hX : X.wf = true) (hY : Y.wf = true) (hR : R.wf = true) (hP : P.wf = true)
    (hrows : X.rows = Y.rows) (hcols : X.cols = Y.cols) (h1 : R.cols = X.rows) (h2 : X.cols = P.rows)
    (hval : ∀ i j, X.val i j = Y.val i j) :
    (galerkin R X.toCsr P).SameMeaning (galerkin R Y.toCsr P) := by
  apply galerkin_congr R X.toCsr P R Y.toCsr P hR (X.toCsr_wf hX) hP hR (Y.toCsr_wf hY) hP
  · rw [X.toCsr_rows]; exact h1
  · rw [X.toCsr_cols]; exact h2
  · exact ⟨rfl, rfl, fun _ _ => rfl⟩
  · refine ⟨by rw [X.toCsr_rows, Y.toCsr_rows, hrows], by rw [X.toCsr_cols, Y.toCsr_cols, hcols], ?_⟩
    intro i j
    rw [X.val_toCsr hX, Y.val_toCsr hY, hval]
  · exact ⟨rfl, rfl, fun _ _ => rfl⟩

end inputx

/-! ### the instance the driver runs (`c04y_convert`) -/
namespace CRatInst

theorem valC_toCsrXC (X : InputX CRat) (h : X.wf = true) (i j : Nat) : valC (toCsrXC X) i j = X.val i j :=
  X.val_toCsr h i j

theorem toCsrXC_dia_canonical (X : Dia CRat) (h : X.wf = true) :
    isCanonicalC (toCsrXC (.dia X)) = true ∧ noStoredZerosC (toCsrXC (.dia X)) = true := by
  obtain ⟨c, z⟩ := diaToCsr_canonical X h
  exact ⟨(isCanonical_iff _).2 c, (noStoredZeros_iff _ c.1).2 z⟩

theorem toCsrXC_lil_canonical (X : Lil CRat) (h : X.wf = true) :
    isCanonicalC (toCsrXC (.lil X)) = true ↔ ∀ i, i < X.rows → (X.idx.getD i []).Pairwise (· < ·) := by
  rw [← lilToCsr_canonical_iff X h]
  exact isCanonical_iff _

end CRatInst

#print axioms val_diaToCsr
#print axioms diaToCsr_canonical
#print axioms lilToCsr_canonical_iff
#print axioms toCsr_arrays_uniqueX
end PyamgV.ConvX
