import PyamgV.Proofs.ExtCGMgs
import PyamgV.Proofs.ExtC06GmresRun

/-! PyamgV (extension E43, property C06): **complex `gmres_mgs` -- status, residual history and callback tell the
truth.**  The engine `cmgsEng` (`Model/ExtCGGmres.lean`) under the control flow `gRun` of `Model/ExtC06Gmres.lean`
is the complete complex run; its recorded estimate `np.abs(g[inner+1])` is the modulus `sqrtF (re (conj z · z))`,
its explicitly computed residual norm `sqrtF (re ⟨r, r⟩)`, both real numbers (`F₀`).  `cmgs_estInv` is the invariant
"a recorded estimate is the residual norm of the iterate handed to `callback`" (from `cgmres_mgs_estimate`; a
threshold `> 0` makes every recorded estimate non-zero, which certifies "no breakdown"), `gRun_truthful` turns it into
the C06 clauses `GTruthful`. -/
set_option linter.unusedSectionVars false
set_option linter.unusedVariables false
namespace PyamgV.ExtCG
open PyamgV.C07 PyamgV.CHerm PyamgV.C07.CH PyamgV.ExtC06 Finset

variable {K : Type} [Field K] [StarRing K] [DecidableEq K]
variable {F₀ : Type} [Field F₀] [LinearOrder F₀] [IsStrictOrderedRing F₀]
variable {V : Type} [AddCommGroup V] [Module K V]

local notation "gF" => PyamgV.C07.F

/-- `np.abs(z)` -/
def modR (R : ReMap K F₀) (sqrtF : F₀ → F₀) (z : K) : F₀ := sqrtF (R.re (star z * z))
/-- `sqrt(real(z))` (applied to `<r, r>`) -/
def nrmR (R : ReMap K F₀) (sqrtF : F₀ → F₀) (z : K) : F₀ := sqrtF (R.re z)
/-- `a < c` -/
def ltF (a c : F₀) : Bool := decide (a < c)

variable (A AH M : V →ₗ[K] V) (E : HForm K F₀ V) (R : ReMap K F₀) (hER : ∀ z, E.re z = R.re z)
  (sqrt : K → K) (hS : ExactSqrt R sqrt) (sqrtF : F₀ → F₀) (hsqF : ∀ a, 0 ≤ a → sqrtF a * sqrtF a = a)
  (n : Nat) (b : V)

include hsqF in
theorem modR_ne_zero {z : K} (h : modR R sqrtF z ≠ 0) : z ≠ 0 := by
  intro hz
  apply h
  unfold modR
  rw [hz, mul_zero, map_zero]
  have := hsqF 0 (le_refl 0)
  exact mul_self_eq_zero.1 this

include hER hS hsqF in
theorem cmgs_estInv (thr : F₀) (hthr : 0 < thr) (maxInner : Nat) (hmax : maxInner ≤ n) :
    EstInv (cmgsEng (Ops.ofHerm A AH M E) star sqrt nzK (modR R sqrtF) (nrmR R sqrtF) n b) ltF (fun a => a) thr
      maxInner := by
  intro x _ i h1 hi hlt
  obtain ⟨m, rfl⟩ : ∃ m, i = m + 1 := ⟨i - 1, by omega⟩
  have hst : stI (cmgsEng (Ops.ofHerm A AH M E) star sqrt nzK (modR R sqrtF) (nrmR R sqrtF) n b) x (m + 1) =
      cgSeq A AH M E sqrt n b x (m + 1) := rfl
  have hlen := (cgSeq_shape A AH M E sqrt n b x (m + 1)).2.1
  unfold EstOK
  rw [hst]
  show modR R sqrtF ((cgSeq A AH M E sqrt n b x (m + 1)).g.getD (cgSeq A AH M E sqrt n b x (m + 1)).cols.length 0) =
    nrmR R sqrtF (E.h (M (b - A (xG A AH M E sqrt n b x m))) (M (b - A (xG A AH M E sqrt n b x m))))
  rw [hlen]
  have hlt' : ltF (modR R sqrtF (gF (cgSeq A AH M E sqrt n b x (m + 1)).g (m + 1))) thr = false := by
    have := hlt
    rw [hst] at this
    simpa [cmgsEng, hlen, C07.F] using this
  have hge : thr ≤ modR R sqrtF (gF (cgSeq A AH M E sqrt n b x (m + 1)).g (m + 1)) := by
    simpa [ltF] using hlt'
  have hne : gF (cgSeq A AH M E sqrt n b x (m + 1)).g (m + 1) ≠ 0 :=
    modR_ne_zero R sqrtF hsqF (ne_of_gt (lt_of_lt_of_le hthr hge))
  have hest := cgmres_mgs_estimate A AH M E R hER sqrt hS n b x m (by omega) hne
  unfold modR nrmR
  rw [← hER, ← hER]
  exact congrArg sqrtF hest.symm

include hER hS hsqF in
/-- **complex `gmres_mgs`**: history = `‖M (b − A ·)‖₂` of `x0` and of every callback iterate, … (`GTruthful`) -/
theorem cgmres_mgs_run_truthful (thr : F₀) (hthr : 0 < thr) (stag : V → V → Bool) (d : C06.GDims)
    (hI : 1 ≤ d.maxInner) (hO : 1 ≤ d.maxOuter) (hmax : d.maxInner ≤ n) (x0 : V) :
    GTruthful (gRun (cmgsEng (Ops.ofHerm A AH M E) star sqrt nzK (modR R sqrtF) (nrmR R sqrtF) n b) ltF
        (fun a => a) thr stag d x0) x0
      (fun x => sqrtF (R.re (E.h (M (b - A x)) (M (b - A x)))))
      (fun x => ltF (sqrtF (R.re (E.h (M (b - A x)) (M (b - A x))))) thr) d :=
  gRun_truthful _ ltF _ thr stag d hI hO
    (cmgs_estInv A AH M E R hER sqrt hS sqrtF hsqF n b thr hthr d.maxInner hmax) x0

#print axioms cgmres_mgs_run_truthful
end PyamgV.ExtCG
