import PyamgV.Model.C19Utils
import Mathlib.LinearAlgebra.Matrix.ConjTranspose
import Mathlib.LinearAlgebra.Matrix.NonsingularInverse

/-! PyamgV (C19): block pseudo-inverses and the filtering projection.

* `penrose_unique`: the four Penrose equations determine the matrix -- so the checked model
  `Mat.pinv` (returned only when `Mat.isPenrose` holds, `pinv_isPenrose`) *is* the Moore-Penrose
  inverse that `get_block_diag(inv_flag=True)` / `scale_block_inverse` are compared with;
* `penrose_of_inverse`: for an invertible block it is the inverse;
* `filter_row_spec`: one row of `filter_operator`: with `Z (B_J^H B_J) = 1` the corrected row maps
  `B_J` exactly to the target (complex data, conjugate transpose). -/
namespace PyamgV.C19
open Matrix

section penrose
variable {K : Type*} [Field K] [StarRing K] {m n : Type*} [Fintype m] [Fintype n]

/-- the four Penrose equations -/
structure IsPenrose (A : Matrix m n K) (X : Matrix n m K) : Prop where
  axa : A * X * A = A
  xax : X * A * X = X
  ax_herm : (A * X)ᴴ = A * X
  xa_herm : (X * A)ᴴ = X * A

theorem IsPenrose.ax_eq {A : Matrix m n K} {X Y : Matrix n m K} (hX : IsPenrose A X) (hY : IsPenrose A Y) :
    A * X = A * Y := by
  calc A * X = (A * Y * A) * X := by rw [hY.axa]
    _ = (A * Y) * (A * X) := by simp only [Matrix.mul_assoc]
    _ = (A * Y)ᴴ * (A * X)ᴴ := by rw [hY.ax_herm, hX.ax_herm]
    _ = ((A * X) * (A * Y))ᴴ := (conjTranspose_mul (A * X) (A * Y)).symm
    _ = ((A * X * A) * Y)ᴴ := by simp only [Matrix.mul_assoc]
    _ = (A * Y)ᴴ := by rw [hX.axa]
    _ = A * Y := hY.ax_herm

theorem IsPenrose.xa_eq {A : Matrix m n K} {X Y : Matrix n m K} (hX : IsPenrose A X) (hY : IsPenrose A Y) :
    X * A = Y * A := by
  calc X * A = X * (A * Y * A) := by rw [hY.axa]
    _ = (X * A) * (Y * A) := by simp only [Matrix.mul_assoc]
    _ = (X * A)ᴴ * (Y * A)ᴴ := by rw [hX.xa_herm, hY.xa_herm]
    _ = ((Y * A) * (X * A))ᴴ := (conjTranspose_mul (Y * A) (X * A)).symm
    _ = (Y * (A * X * A))ᴴ := by simp only [Matrix.mul_assoc]
    _ = (Y * A)ᴴ := by rw [hX.axa]
    _ = Y * A := hY.xa_herm

/-- **the Penrose equations have at most one solution** -/
theorem penrose_unique {A : Matrix m n K} {X Y : Matrix n m K} (hX : IsPenrose A X) (hY : IsPenrose A Y) :
    X = Y := by
  calc X = X * A * X := hX.xax.symm
    _ = X * (A * X) := by rw [Matrix.mul_assoc]
    _ = X * (A * Y) := by rw [hX.ax_eq hY]
    _ = (X * A) * Y := by rw [Matrix.mul_assoc]
    _ = (Y * A) * Y := by rw [hX.xa_eq hY]
    _ = Y := hY.xax

/-- for an invertible square block the inverse satisfies the Penrose equations: the pseudo-inverse of
a regular diagonal block is its inverse -/
theorem penrose_of_inverse [DecidableEq n] (A X : Matrix n n K) (h1 : A * X = 1) (h2 : X * A = 1) :
    IsPenrose A X := by
  refine ⟨?_, ?_, ?_, ?_⟩
  · rw [h1, Matrix.one_mul]
  · rw [h2, Matrix.one_mul]
  · rw [h1, conjTranspose_one]
  · rw [h2, conjTranspose_one]

end penrose

section projection
variable {K : Type*} [Field K] [StarRing K] {r j k : Type*} [Fintype r] [Fintype j] [Fintype k] [DecidableEq k]

/-- **one block row of `filter_operator`**: `a` = the masked row(s) restricted to the pattern columns
`J`, `B` = `B_J`, `f` = the target rows `Bf_i`, `Z (B^H B) = 1`: the corrected row maps `B_J` to `f` -/
theorem filter_row_spec (a : Matrix r j K) (B : Matrix j k K) (f : Matrix r k K) (Z : Matrix k k K)
    (hZ : Z * (Bᴴ * B) = 1) :
    (a - (a * B - f) * Z * Bᴴ) * B = f := by
  rw [Matrix.sub_mul, Matrix.mul_assoc ((a * B - f) * Z), Matrix.mul_assoc (a * B - f), hZ, Matrix.mul_one]
  abel

/-- the correction only uses the pattern columns: outside them the row stays what masking made it
(zero) -- stated as: the update is a left multiple of `B_J^H`, a `|J|`-column object -/
theorem filter_row_update_in_pattern (a : Matrix r j K) (B : Matrix j k K) (f : Matrix r k K) (Z : Matrix k k K) :
    ∃ W : Matrix r k K, a - (a * B - f) * Z * Bᴴ = a - W * Bᴴ := ⟨(a * B - f) * Z, rfl⟩

end projection

section model
variable {α : Type} [Add α] [Sub α] [Mul α] [Div α] [OfNat α 0] [OfNat α 1] [DecidableEq α]

/-- the executable pseudo-inverse is returned only after the four Penrose equations were verified on
the executable matrix product -/
theorem pinv_isPenrose (conj : α → α) (A X : Mat α) (h : Mat.pinv conj A = some X) :
    Mat.isPenrose conj A X = true := by
  unfold Mat.pinv at h
  split at h
  · split at h
    · rename_i hp
      rw [← Option.some.inj h]; exact hp
    · cases h
  · cases h

/-- what the Boolean check says: the four equations hold for the executable product `Mat.mul` -/
theorem isPenrose_iff (conj : α → α) (A X : Mat α) :
    Mat.isPenrose conj A X = true ↔
      Mat.mul (Mat.mul A X) A = A ∧ Mat.mul (Mat.mul X A) X = X ∧
      Mat.ctrans conj (Mat.mul A X) = Mat.mul A X ∧ Mat.ctrans conj (Mat.mul X A) = Mat.mul X A := by
  unfold Mat.isPenrose
  simp [and_assoc]

end model

#print axioms penrose_unique
#print axioms filter_row_spec
#print axioms pinv_isPenrose
end PyamgV.C19
