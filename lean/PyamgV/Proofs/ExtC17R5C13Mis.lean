import PyamgV.Model.ExtC17R5Mis
import PyamgV.Proofs.ExtC13Pmis

/-! PyamgV (C13, extension E46): `MIS(G, weights, maxiter)` (`C17R5.misSplit`, the array model of
`maximal_independent_set_parallel` on the off-diagonal pattern of the caller's matrix).

* `go_trunc`: with `max_iters = m` (or `-1`) the `while` loop of the array model performs `k` proof-side
  sweeps `parIter`, `k ≤ m`;
* `mis_partial`: after ANY number of passes (any `maxiter`, `None` included, any weights -- no order
  assumption) on a symmetric pattern the result is a *partial* maximal independent set: flags `-1/0/1`,
  every neighbour of a node marked `1` is marked `0` (so the selected set is independent), and every
  node marked `0` has a neighbour marked `1`;
* `mis_full`: the untruncated run (`maxiter = None`, strictly totally ordered weights) leaves no `-1`:
  0/1 flags, independent and maximal.
Core Lean + the listed PyamgV modules only. -/
namespace PyamgV.C17R5
open PyamgV PyamgV.Ext PyamgV.C13

variable {W : Type} [LT W] [DecidableRel (α := W) (· < ·)] [DecidableEq W] [Inhabited W]

/-- the `while(active_nodes && (max_iters == -1 || num_iters < max_iters))` loop of the array model performs
`k ≤ fuel` proof-side sweeps, and `num_iters` never passes `max_iters` -/
theorem go_trunc (Gc : G.Graph) (hG : GraphOK (pg Gc)) (act C F : Int) (hCA : C ≠ act)
    (hFA : F ≠ act) (y : Array W) (mi : Option Nat) :
    ∀ (fuel iters : Nat) (x : Array Int) (cnt : Nat), x.size = Gc.n →
      ∃ k, k ≤ fuel ∧ (∀ m, mi = some m → iters + k ≤ max m iters) ∧
        (G.misParallel.go Gc act C F y mi fuel iters x cnt).1 = parIter (pg Gc) act C F (look y) k x := by
  intro fuel
  induction fuel with
  | zero => intro iters x cnt _; exact ⟨0, Nat.le_refl _, fun m _ => by omega, rfl⟩
  | succ fuel ih =>
    intro iters x cnt hx
    have hfst := misParPass_fst Gc act C F y x
    have hsz' : (parPass (pg Gc) act C F (look y) x).size = Gc.n :=
      parPass_size (pg Gc) hG act C F hCA hFA (look y) x hx
    have hcont : (∀ m, mi = some m → iters + 1 ≤ m) → ∃ k, k ≤ fuel + 1 ∧
        (∀ m, mi = some m → iters + k ≤ max m iters) ∧
        (if (G.misParPass Gc act C F y x).2.2 = true then
            G.misParallel.go Gc act C F y mi fuel (iters + 1) (G.misParPass Gc act C F y x).1
              (cnt + (G.misParPass Gc act C F y x).2.1)
          else ((G.misParPass Gc act C F y x).1, cnt + (G.misParPass Gc act C F y x).2.1)).1 =
          parIter (pg Gc) act C F (look y) k x := by
      intro hlt
      generalize G.misParPass Gc act C F y x = r at hfst
      obtain ⟨x', c, a⟩ := r
      simp only at hfst
      subst hfst
      cases a with
      | true =>
        obtain ⟨k, hk, hb, he⟩ := ih (iters + 1) _ (cnt + c) hsz'
        refine ⟨k + 1, by omega, ?_, ?_⟩
        · intro m hm
          have h1 := hb m hm
          have h2 := hlt m hm
          omega
        · have hk1 : parIter (pg Gc) act C F (look y) (k + 1) x
              = parIter (pg Gc) act C F (look y) k (parPass (pg Gc) act C F (look y) x) := rfl
          rw [hk1]; simpa using he
      | false =>
        refine ⟨1, by omega, ?_, by simp [parIter]⟩
        intro m hm
        have := hlt m hm
        omega
    simp only [G.misParallel.go]
    cases mi with
    | none =>
      simp only [Bool.false_eq_true, if_false]
      exact hcont (fun m hm => by cases hm)
    | some m =>
      simp only
      by_cases hge : iters ≥ m
      · rw [if_pos (by simpa using hge)]
        exact ⟨0, by omega, fun m' hm' => by cases hm'; omega, rfl⟩
      · rw [if_neg (by simpa using hge)]
        exact hcont (fun m' hm' => by cases hm'; omega)

/-- the graph the kernel sees: rows of `remove_diagonal(S)` -/
theorem prepS_adj (S : Pat) (i : Nat) (hi : i < S.n) : (pg (toG (prepS S))).adj i = offRow S i := by
  show (toG (prepS S)).row i = _
  rw [toG_row, prepS_row S i hi]

theorem prepS_OK (S : Pat) (hsym : SymPat S) : GraphOK (pg (toG (prepS S))) := by
  refine ⟨?_, ?_⟩
  · intro i hi j hj
    have hi' : i < S.n := hi
    rw [prepS_adj S i hi'] at hj
    exact offRow_lt S hj
  · intro i j hi hj
    have hi' : i < S.n := hi
    have hj' : j < S.n := hj
    rw [prepS_adj S i hi', prepS_adj S j hj']
    exact hsym i j hi' hj'

/-- `MIS(G, weights, maxiter)` is the result of `k` sweeps, `k ≤ maxiter` -/
theorem misSplit_sweeps (S : Pat) (hsym : SymPat S) (w : Array W) (mi : Option Nat) :
    ∃ k, (∀ m, mi = some m → k ≤ m) ∧
      misSplit S w mi = parIter (pg (toG (prepS S))) (-1) 1 0 (look w) k (Array.replicate S.n (-1)) := by
  obtain ⟨k, _, hb, he⟩ := go_trunc (toG (prepS S)) (prepS_OK S hsym) (-1) 1 0 (by decide) (by decide) w mi
    ((toG (prepS S)).n + 2) 0 (Array.replicate S.n (-1)) 0 (by simp [toG, prepS, ofRows])
  refine ⟨k, fun m hm => by have := hb m hm; omega, ?_⟩
  unfold misSplit G.misParallel
  exact he

/-- **partial independent set after any number of passes**: for every symmetric off-diagonal pattern, every
weight array (no assumption on the order: ties, repeated values) and every `maxiter` (`None` included):
one flag `-1/0/1` per node; every strong neighbour of a selected node (`1`) is marked `0` -- in particular no
two selected nodes are neighbours --; every node marked `0` has a selected neighbour -/
theorem mis_partial (S : Pat) (hsym : SymPat S) (w : Array W) (mi : Option Nat) :
    (misSplit S w mi).size = S.n ∧
    (∀ i, i < S.n → rd (misSplit S w mi) i = -1 ∨ rd (misSplit S w mi) i = 1 ∨ rd (misSplit S w mi) i = 0) ∧
    (∀ i j, i < S.n → j ∈ offRow S i → rd (misSplit S w mi) i = 1 → rd (misSplit S w mi) j = 0) ∧
    (∀ j, j < S.n → rd (misSplit S w mi) j = 0 → ∃ i ∈ offRow S j, rd (misSplit S w mi) i = 1) := by
  obtain ⟨k, _, he⟩ := misSplit_sweeps S hsym w mi
  rw [he]
  have hG := prepS_OK S hsym
  have hn : (pg (toG (prepS S))).n = S.n := rfl
  have hx0 : (Array.replicate S.n (-1 : Int)).size = (pg (toG (prepS S))).n := by simp [hn]
  have hact : ∀ i, i < S.n → rd (Array.replicate S.n (-1 : Int)) i = -1 := by
    intro i hi
    simp [rd, Array.getD_eq_getD_getElem?, hi]
  have hP0 : PInv (pg (toG (prepS S))) (-1) 1 0 (Array.replicate S.n (-1 : Int)) :=
    ⟨hx0, fun i hi => Or.inl (hact i hi),
     fun i hi h => by rw [hact i hi] at h; exact absurd h (by decide),
     fun j hj h => by rw [hact j hj] at h; exact absurd h (by decide)⟩
  have hP := parIter_inv (pg (toG (prepS S))) hG (-1) 1 0 (by decide) (by decide) (by decide) (look w) k _ hP0
  refine ⟨hP.size, fun i hi => hP.vals i hi, ?_, ?_⟩
  · intro i j hi hj hC
    exact hP.cnb i hi hC j (by rw [prepS_adj S i hi]; exact hj) (offRow_ne S hj)
  · intro j hj hF
    obtain ⟨i, hi, _, hC⟩ := hP.fnb j hj hF
    exact ⟨i, by rw [prepS_adj S j hj] at hi; exact hi, hC⟩

/-- the selected set of a truncated run is independent (the form the check uses) -/
theorem mis_partial_independent (S : Pat) (hsym : SymPat S) (w : Array W) (mi : Option Nat) (i j : Nat)
    (hi : i < S.n) (hj : j ∈ offRow S i) (h1 : rd (misSplit S w mi) i = 1) : rd (misSplit S w mi) j ≠ 1 := by
  rw [(mis_partial S hsym w mi).2.2.1 i j hi hj h1]
  decide

/-- **the full run is a maximal independent set**: `maxiter = None`, strictly totally ordered weights:
0/1 flags, no two selected nodes are neighbours, every unselected node has a selected neighbour (an isolated
node is selected) -/
theorem mis_full (hW : WOrd W) (S : Pat) (hsym : SymPat S) (w : Array W) :
    (misSplit S w none).size = S.n ∧
    (∀ i, i < S.n → rd (misSplit S w none) i = 0 ∨ rd (misSplit S w none) i = 1) ∧
    (∀ i j, i < S.n → j ∈ offRow S i → rd (misSplit S w none) i = 1 → rd (misSplit S w none) j ≠ 1) ∧
    (∀ i, i < S.n → rd (misSplit S w none) i = 0 → ∃ j ∈ offRow S i, rd (misSplit S w none) j = 1) := by
  have hG := prepS_OK S hsym
  have hn : (pg (toG (prepS S))).n = S.n := rfl
  have hx0 : (Array.replicate S.n (-1 : Int)).size = (pg (toG (prepS S))).n := by simp [hn]
  have hact : ∀ i, i < (pg (toG (prepS S))).n → rd (Array.replicate S.n (-1 : Int)) i = -1 := by
    intro i hi
    have hi' : i < S.n := hi
    simp [rd, Array.getD_eq_getD_getElem?, hi']
  have hrun : misSplit S w none
      = parIter (pg (toG (prepS S))) (-1) 1 0 (look w) S.n (Array.replicate S.n (-1)) := by
    unfold misSplit
    exact misParallel_eq_parIter hW (toG (prepS S)) hG (-1) 1 0 (by decide) (by decide) w _ hx0
  obtain ⟨hp1, hp2, hp3, hp4⟩ := mis_partial S hsym w none
  obtain ⟨_, hmax⟩ := misParallel_total hW (pg (toG (prepS S))) hG (-1) 1 0 (by decide) (by decide) (by decide)
    (look w) _ hx0 hact
  simp only [hn] at hmax
  rw [← hrun] at hmax
  refine ⟨hp1, ?_, fun i j hi hj h1 => mis_partial_independent S hsym w none i j hi hj h1, fun i hi h0 => hp4 i hi h0⟩
  intro i hi
  rcases hmax i hi with h | ⟨h, _⟩
  · exact Or.inr h
  · exact Or.inl h

end PyamgV.C17R5
