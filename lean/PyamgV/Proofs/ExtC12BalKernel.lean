import PyamgV.Model.ExtC12Bal
import PyamgV.Proofs.ExtC18Bal

/-! PyamgV (C12, extension E34): the bookkeeping invariant of balanced Lloyd clustering, part 1 — it is
kept by `bellman_ford_balanced` (`Bal.kernel`) from *any* state satisfying it (fresh initialisation of a
rebalance round, or the state `center_nodes` leaves).

`KInv n k c st`: cluster ids are `-1` or `0..k-1`; the size array is exact (`s[a] = #{j : m[j] = a}`);
distances are non-negative; every centre `c[a]` has distance 0 and carries its own id `a`.
Hypotheses: `0 < tol` and every stored weight is `>= tol` (positive weights on any grid coarser than the
kernel constant `1e-14`). -/
namespace PyamgV.BalLloyd
open PyamgV.Bal

structure KInv (n k : Nat) (c : Array Nat) (st : St) : Prop where
  sd : st.d.size = n
  sm : st.m.size = n
  sp : st.p.size = n
  spc : st.pc.size = n
  ss : st.s.size = k
  sc : c.size = k
  ids : ∀ j, j < n → -1 ≤ rdI st.m j ∧ rdI st.m j < (k : Int)
  cnt : ∀ a, a < k → rdI st.s a = cnt n st.m a
  dnn : ∀ j x, rdO st.d j = some x → 0 ≤ x
  cen : ∀ a, a < k → rdN c a < n ∧ rdO st.d (rdN c a) = some 0 ∧ rdI st.m (rdN c a) = (a : Int)

theorem release_s {st st1 : St} {j : Nat} (hr : release st j = some st1) :
    st1.d = st.d ∧ st1.m = st.m ∧ st1.p.size = st.p.size ∧ st1.pc.size = st.pc.size ∧
    ((rdI st.m j < 0 ∧ st1.s = st.s) ∨
     (0 ≤ rdI st.m j ∧ ∃ kj : Nat, rdI st.m j = (kj : Int) ∧ kj < st.s.size ∧
        st1.s = wrI st.s kj (rdI st.s kj - 1))) := by
  unfold release at hr
  by_cases hm : rdI st.m j ≥ 0
  · rw [if_pos hm] at hr
    cases h1 : idx (rdI st.m j) st.s.size with
    | none => rw [h1] at hr; cases hr
    | some kj =>
      cases h2 : idx (rdI st.p j) st.pc.size with
      | none => rw [h1, h2] at hr; cases hr
      | some kp =>
        rw [h1, h2] at hr
        injection hr with hr
        subst hr
        obtain ⟨h3, h4⟩ := idx_some h1
        exact ⟨rfl, rfl, rfl, by simp, Or.inr ⟨hm, kj, h3, h4, rfl⟩⟩
  · rw [if_neg hm] at hr
    injection hr with hr
    subst hr
    exact ⟨rfl, rfl, rfl, rfl, Or.inl ⟨by omega, rfl⟩⟩

theorem assign_s {st1 st2 : St} {i j : Nat} {a : Rat} (ha : assign st1 i j a = some st2) :
    st2.d = wrO st1.d j ((rdO st1.d i).map (· + a)) ∧ st2.m = wrI st1.m j (rdI st1.m i) ∧
    st2.p.size = st1.p.size ∧ st2.pc.size = st1.pc.size ∧
    ∃ ki : Nat, rdI st1.m i = (ki : Int) ∧ ki < st1.s.size ∧ st2.s = wrI st1.s ki (rdI st1.s ki + 1) := by
  unfold assign at ha
  cases h1 : idx (rdI st1.m i) st1.s.size with
  | none => rw [h1] at ha; cases ha
  | some ki =>
    rw [h1] at ha
    injection ha with ha
    subst ha
    obtain ⟨h3, h4⟩ := idx_some h1
    exact ⟨rfl, rfl, by simp, by simp, ki, h3, h4, rfl⟩

theorem s_update1 (s : Array Int) (k ki b : Nat) (hs : s.size = k) (hki : ki < k) :
    rdI (wrI s ki (rdI s ki + 1)) b = rdI s b - 0 + (if (ki : Int) = (b : Int) then 1 else 0) := by
  simp only [rdI_wrI, hs]
  by_cases h1 : ki = b
  · subst h1; simp [hki]
  · have : ¬ (ki : Int) = (b : Int) := by omega
    simp [h1, this]

theorem s_update2 (s : Array Int) (k ki kj b : Nat) (hs : s.size = k) (hki : ki < k) (hkj : kj < k) :
    rdI (wrI (wrI s kj (rdI s kj - 1)) ki (rdI (wrI s kj (rdI s kj - 1)) ki + 1)) b =
      rdI s b - (if (kj : Int) = (b : Int) then 1 else 0) + (if (ki : Int) = (b : Int) then 1 else 0) := by
  simp only [rdI_wrI, size_wrI, hs]
  by_cases h1 : ki = b <;> by_cases h2 : kj = b
  · subst h1; subst h2; simp [hki]
  · subst h1
    have : ¬ (kj : Int) = (ki : Int) := by omega
    simp [hki, h2, this]
  · subst h2
    have : ¬ (ki : Int) = (kj : Int) := by omega
    simp [hkj, h1, this]
  · have e1 : ¬ (ki : Int) = (b : Int) := by omega
    have e2 : ¬ (kj : Int) = (b : Int) := by omega
    simp [h1, h2, e1, e2]

variable {n k : Nat} {c : Array Nat} {tol : Rat}

/-- a centre is never re-assigned: both kernel tests fail at a node of distance 0 -/
theorem centre_fixed (h0 : 0 < tol) {tb : Bool} {st : St} (hI : KInv n k c st) {i j : Nat} {a : Rat}
    (ha : tol ≤ a) (hdj : rdO st.d j = some 0) {tie : Bool}
    (htie : tieTest tol tb st i j a = some tie) :
    (test1 tol (rdO st.d i) (rdO st.d j) a || tie) = false := by
  have h1 : test1 tol (rdO st.d i) (rdO st.d j) a = false := by
    unfold test1
    rw [hdj]
    cases hdi : rdO st.d i with
    | none => rfl
    | some y =>
      have := hI.dnn i y hdi
      simp only [decide_eq_false_iff_not, not_lt]
      linarith
  have h2 : tie = false := by
    unfold tieTest at htie
    split at htie
    · split at htie
      · rename_i hcl
        exfalso
        unfold close at hcl
        rw [hdj] at hcl
        cases hdi : rdO st.d i with
        | none => rw [hdi] at hcl; simp at hcl
        | some y =>
          rw [hdi] at hcl
          have := hI.dnn i y hdi
          simp only [decide_eq_true_eq, absQ_eq] at hcl
          rw [abs_of_nonneg (by linarith)] at hcl
          linarith
      · injection htie with htie; exact htie.symm
    · injection htie with htie; exact htie.symm
  rw [h1, h2]; rfl

theorem step_kinv (h0 : 0 < tol) {tb : Bool} (acc : St × Bool) (e : Edge)
    (hi : e.1 < n) (hj : e.2.1 < n) (hw : tol ≤ e.2.2)
    (hI : KInv n k c acc.1) {r : St × Bool} (hs : step tol tb acc e = some r) :
    KInv n k c r.1 := by
  obtain ⟨i, j, a⟩ := e
  simp only at hi hj hw
  unfold step at hs
  simp only at hs
  by_cases hm : rdI acc.1.m i < 0
  · rw [if_pos hm] at hs
    injection hs with hs
    subst hs
    exact hI
  · rw [if_neg hm] at hs
    cases htie : tieTest tol tb acc.1 i j a with
    | none => rw [htie] at hs; cases hs
    | some tie =>
      rw [htie] at hs
      simp only at hs
      by_cases hsw : (test1 tol (rdO acc.1.d i) (rdO acc.1.d j) a || tie) = true
      · rw [if_pos hsw] at hs
        cases hr : release acc.1 j with
        | none => rw [hr] at hs; cases hs
        | some st1 =>
          rw [hr] at hs
          simp only at hs
          cases has : assign st1 i j a with
          | none => rw [has] at hs; cases hs
          | some st2 =>
            rw [has] at hs
            injection hs with hs
            subst hs
            show KInv n k c st2
            -- `j` is not a centre
            have hnc : ∀ b, b < k → rdN c b ≠ j := by
              intro b hb hcb
              have hd0 := (hI.cen b hb).2.1
              rw [hcb] at hd0
              have := centre_fixed h0 hI (i := i) (tb := tb) hw hd0 htie
              rw [this] at hsw
              cases hsw
            obtain ⟨r1, r2, r3, r4, r5⟩ := release_s hr
            obtain ⟨a1, a2, a3, a4, ki, a5, a6, a7⟩ := assign_s has
            rw [r2] at a2 a5
            rw [r1] at a1
            have hmi := hI.ids i hi
            have hki : ki < k := by omega
            have hjm : j < acc.1.m.size := by rw [hI.sm]; exact hj
            refine ⟨?_, ?_, by rw [a3, r3]; exact hI.sp, by rw [a4, r4]; exact hI.spc, ?_, hI.sc, ?_, ?_, ?_, ?_⟩
            · rw [a1, size_wrO]; exact hI.sd
            · rw [a2, size_wrI]; exact hI.sm
            · rw [a7, size_wrI]
              rcases r5 with ⟨_, r5⟩ | ⟨_, kj, _, _, r5⟩
              · rw [r5]; exact hI.ss
              · rw [r5, size_wrI]; exact hI.ss
            · intro v hv
              rw [a2, rdI_wrI]
              split
              · omega
              · exact hI.ids v hv
            · intro b hb
              rw [a2, cnt_wr n acc.1.m j (rdI acc.1.m i) hj hjm b, ← hI.cnt b hb, a7]
              rcases r5 with ⟨hneg, r5⟩ | ⟨hpos, kj, hkj, hkjs, r5⟩
              · rw [r5, a5, if_neg (show ¬ rdI acc.1.m j = (b : Int) by omega)]
                exact s_update1 acc.1.s k ki b hI.ss hki
              · rw [r5, a5, hkj]
                exact s_update2 acc.1.s k ki kj b hI.ss hki (by rw [← hI.ss]; exact hkjs)
            · intro v x hx
              rw [a1, rdO_wrO] at hx
              split at hx
              · cases hdi : rdO acc.1.d i with
                | none => rw [hdi] at hx; cases hx
                | some y =>
                  rw [hdi] at hx
                  simp only [Option.map_some] at hx
                  injection hx with hx
                  have := hI.dnn i y hdi
                  linarith
              · exact hI.dnn v x hx
            · intro b hb
              obtain ⟨c1, c2, c3⟩ := hI.cen b hb
              refine ⟨c1, ?_, ?_⟩
              · rw [a1, rdO_wrO, if_neg (fun hh => hnc b hb hh.1.symm)]; exact c2
              · rw [a2, rdI_wrI, if_neg (fun hh => hnc b hb hh.1.symm)]; exact c3
      · rw [if_neg hsw] at hs
        injection hs with hs
        subst hs
        exact hI

theorem fold_kinv (h0 : 0 < tol) {tb : Bool} :
    ∀ (l : List Edge), (∀ e ∈ l, e.1 < n ∧ e.2.1 < n ∧ tol ≤ e.2.2) → ∀ (acc r : St × Bool),
      KInv n k c acc.1 → l.foldlM (step tol tb) acc = some r → KInv n k c r.1 := by
  intro l
  induction l with
  | nil =>
    intro _ acc r hI hf
    simp only [List.foldlM_nil] at hf
    injection hf with hf
    subst hf
    exact hI
  | cons e es ih =>
    intro hl acc r hI hf
    rw [List.foldlM_cons] at hf
    cases hs : step tol tb acc e with
    | none => rw [hs] at hf; cases hf
    | some r1 =>
      rw [hs] at hf
      obtain ⟨e1, e2, e3⟩ := hl e (by simp)
      exact ih (fun x hx => hl x (by simp [hx])) r1 r (step_kinv h0 acc e e1 e2 e3 hI hs) hf

theorem loop_kinv (h0 : 0 < tol) {tb : Bool} {E : List Edge}
    (hE : ∀ e ∈ E, e.1 < n ∧ e.2.1 < n ∧ tol ≤ e.2.2) :
    ∀ (fuel : Nat) (st : St) (ch : Bool) (st' : St) (ch' : Bool), KInv n k c st →
      loop tol tb E fuel st ch = .ok st' ch' → KInv n k c st' := by
  intro fuel
  induction fuel with
  | zero =>
    intro st ch st' ch' _ hl
    unfold loop at hl
    cases hp : pass tol tb E st <;> rw [hp] at hl <;> cases hl
  | succ f ih =>
    intro st ch st' ch' hI hl
    unfold loop at hl
    cases hp : pass tol tb E st with
    | none => rw [hp] at hl; cases hl
    | some r =>
      rw [hp] at hl
      simp only at hl
      have hI1 := fold_kinv h0 E hE (st, true) r hI hp
      by_cases hr : r.2 = true
      · rw [if_pos hr] at hl
        injection hl with hl1 hl2
        rw [← hl1]; exact hI1
      · rw [if_neg hr] at hl
        exact ih r.1 true st' ch' hI1 hl

/-- **`bellman_ford_balanced` keeps the bookkeeping invariant** (any start state, any `tiebreaking`) -/
theorem kernel_kinv (h0 : 0 < tol) (A : Csr) (tb : Bool) (hW : ∀ e ∈ A.entries, tol ≤ e.2.2)
    {st0 st : St} {ch : Bool} (hI : KInv A.n k c st0) (hk : kernel tol tb A st0 = .ok st ch) :
    KInv A.n k c st := by
  unfold kernel at hk
  split at hk
  · rename_i hc
    have hb := entries_bound A hc.1
    exact loop_kinv h0 (fun e he => ⟨(hb e he).1, (hb e he).2, hW e he⟩) _ st0 false st ch hI hk
  · cases hk

end PyamgV.BalLloyd
