import PyamgV.Proofs.ExtC03YSem
import PyamgV.Proofs.ExtC05BridgeF2
import PyamgV.Proofs.ExtSmoothers
import PyamgV.Proofs.ExtC09Block

/-! PyamgV (extension E55, C03): linear iterations over an ARBITRARY FIELD -- the lemmas of Proofs/ExtSmoothers.lean,
Proofs/ExtSmoothersNE.lean and Proofs/ExtSmoothersRefine.lean that the extended cycle model needs, re-proved without the order
their `variable` lines carry (the proofs never use it; the Gaussian rationals `CRat` of the complex runs have none).  The
definitions (`IsLinIter`, `compM`, `powM`, `sweepM`, `polyFn`, `polyOp`, ...) are the SAME ones; the order-free
`IsLinIter.comp / .pow`, `cycL_isLinIter`, the Gauss-Seidel / SOR / Jacobi sweep theorems and the array-refinement lemmas come
from Proofs/ExtC05BridgeF1.lean / F2 (namespace `PyamgV.CF`, extension E23). -/
set_option linter.unusedSectionVars false
namespace PyamgV.C03Y
open PyamgV

section abstract
variable {K : Type*} [Field K]
variable {V : Type*} [AddCommGroup V] [Module K V]

theorem IsLinIter.id (A : V →ₗ[K] V) : IsLinIter A (fun x _ => x) (0 : V →ₗ[K] V) := by
  intro x b; simp

/-- a list of linear iterations applied one after the other is a linear iteration; operator: the `compM`-fold -/
theorem IsLinIter.foldl (A : V →ₗ[K] V) (steps : List ((V → V → V) × (V →ₗ[K] V)))
    (h : ∀ s ∈ steps, IsLinIter A s.1 s.2) :
    IsLinIter A (fun x b => steps.foldl (fun x s => s.1 x b) x) (sweepM A (steps.map Prod.snd)) := by
  have gen : ∀ (steps : List ((V → V → V) × (V →ₗ[K] V))), (∀ s ∈ steps, IsLinIter A s.1 s.2) →
      ∀ (g : V → V → V) (M0 : V →ₗ[K] V), IsLinIter A g M0 →
        IsLinIter A (fun x b => steps.foldl (fun x s => s.1 x b) (g x b))
          ((steps.map Prod.snd).foldl (compM A) M0) := by
    intro steps
    induction steps with
    | nil => intro _ g M0 hg; simpa using hg
    | cons s rest ih =>
      intro hs g M0 hg
      have := ih (fun t ht => hs t (by simp [ht])) (fun x b => s.1 (g x b) b) (compM A M0 s.2)
        (CF.IsLinIter.comp hg (hs s (by simp)))
      simpa using this
  exact gen steps h (fun x _ => x) 0 (IsLinIter.id A)

theorem polyResidual_eq (A : V →ₗ[K] V) (x b : V) : polyResidual A x b = b - A x := by
  unfold polyResidual
  split
  · next h => rw [h]; simp
  · rfl

theorem polyHorner_eq (A : V →ₗ[K] V) (c0 : K) (cs : List K) (r : V) :
    polyHorner A c0 cs r = polyOp A c0 cs r := by
  unfold polyHorner polyOp
  have gen : ∀ (cs : List K) (h : V) (H : V →ₗ[K] V), h = H r →
      cs.foldl (fun h c => c • r + A h) h = (cs.foldl (fun H c => c • LinearMap.id + A ∘ₗ H) H) r := by
    intro cs
    induction cs with
    | nil => intro h H hh; simpa using hh
    | cons c rest ih =>
      intro h H hh
      simp only [List.foldl_cons]
      apply ih
      simp [hh]
  exact gen cs _ _ (by simp)

/-- **`polynomial` is the linear iteration `x ← x + p(A)(b − A x)`** (the `x = 0` shortcut included), any field -/
theorem polynomial_isLinIter (A : V →ₗ[K] V) (c0 : K) (cs : List K) :
    IsLinIter A (polyFn A c0 cs) (polyOp A c0 cs) := by
  intro x b
  unfold polyFn
  rw [polyResidual_eq, polyHorner_eq]

theorem polynomial_iter_isLinIter (A : V →ₗ[K] V) (c0 : K) (cs : List K) (k : Nat) :
    IsLinIter A (fun x b => iter (polyFn A c0 cs) b k x) (powM A (polyOp A c0 cs) k) :=
  CF.IsLinIter.pow (polynomial_isLinIter A c0 cs) k

/-- weighted Jacobi / block Jacobi `x ← x + ω Dinv (b − A x)`, `Q = ω Dinv` -/
theorem jacobi_isLinIter (A Dinv : V →ₗ[K] V) (ω : K) :
    IsLinIter A (fun x b => x + ω • Dinv (b - A x)) (ω • Dinv) := by
  intro x b; simp

/-- `jacobi_ne`: `x ← x + ω Aᴴ Dinv (b − A x)` -/
theorem jacobi_ne_isLinIter (A At Dinv : V →ₗ[K] V) (ω : K) :
    IsLinIter A (fun x b => x + ω • At (Dinv (b - A x))) (ω • (At ∘ₗ Dinv)) := by
  intro x b; simp

end abstract

/-! ## the array model of `relaxation.polynomial` over a field -/

section poly
variable {R : Type} [Field R] [DecidableEq R]

theorem vscale_size (c : R) (x : Array R) : (ExtSm.vscale c x).size = x.size := by
  unfold ExtSm.vscale; simp

theorem vscale_refines (c : R) (x : Array R) : fn (ExtSm.vscale c x) = c • fn x := by
  funext i
  unfold ExtSm.vscale
  rw [CF.fn_map_range]
  by_cases hi : i < x.size
  · simp [hi, fn]
  · have h1 := CF.fn_zero_of_size x i (by omega)
    simp [hi, h1]

theorem allZero_fn (x : Array R) (h : ExtSm.allZero x = true) : fn x = 0 := by
  funext i
  by_cases hi : i < x.size
  · unfold ExtSm.allZero at h
    rw [List.all_eq_true] at h
    have := h i (List.mem_range.2 hi)
    simpa [fn] using this
  · exact CF.fn_zero_of_size x i (by omega)

/-- one pass of the loop of `relaxation.polynomial` = `polyFn` (the `norm(x) == 0` shortcut included) -/
theorem polyStep_refines (A : K.Csr R) (c0 : R) (cs : List R) (b x : Array R)
    (hb : b.size = A.n) (hx : x.size = A.n) :
    (ExtSm.polyStep A c0 cs b x).size = A.n ∧
      fn (ExtSm.polyStep A c0 cs b x) = polyFn (CF.csrOp A.n (rowOf A)) c0 cs (fn x) (fn b) := by
  unfold ExtSm.polyStep
  have hres : ∃ r : Array R, (if ExtSm.allZero x then b else C02.vsub b (C02.spmv A x)) = r ∧ r.size = A.n ∧
      fn r = fn b - CF.csrOp A.n (rowOf A) (fn x) := by
    by_cases hz : ExtSm.allZero x = true
    · refine ⟨b, by rw [if_pos hz], hb, ?_⟩
      rw [allZero_fn x hz]; simp
    · refine ⟨_, by rw [if_neg hz], by rw [CF.vsub_size, hb], ?_⟩
      rw [CF.vsub_refines _ _ (by rw [CF.spmv_size, hb]), CF.spmv_refines]
  obtain ⟨r, hr, hrn, hrf⟩ := hres
  simp only [hr]
  have hloop : ∀ (cs : List R) (h : Array R) (hv : Nat → R), h.size = A.n → fn h = hv →
      (cs.foldl (fun h c => C02.vadd (ExtSm.vscale c r) (C02.spmv A h)) h).size = A.n ∧
      fn (cs.foldl (fun h c => C02.vadd (ExtSm.vscale c r) (C02.spmv A h)) h) =
        cs.foldl (fun h c => c • fn r + CF.csrOp A.n (rowOf A) h) hv := by
    intro cs
    induction cs with
    | nil => intro h hv hn hf; exact ⟨hn, hf⟩
    | cons c rest ih =>
      intro h hv hn hf
      simp only [List.foldl_cons]
      apply ih
      · rw [CF.vadd_size, vscale_size, hrn]
      · rw [CF.vadd_refines _ _ (by rw [CF.spmv_size, vscale_size, hrn]), vscale_refines, CF.spmv_refines, hf]
  obtain ⟨hn, hf⟩ := hloop cs (ExtSm.vscale c0 r) (c0 • fn r) (by rw [vscale_size, hrn]) (vscale_refines c0 r)
  refine ⟨by rw [CF.vadd_size, hx], ?_⟩
  rw [CF.vadd_refines _ _ (by rw [hn, hx]), hf, polynomial_isLinIter (CF.csrOp A.n (rowOf A)) c0 cs (fn x) (fn b),
    ← polyHorner_eq, hrf]
  rfl

/-- **`ExtSm.polynomial` (arrays, CSR) read as functions is `iterations` applications of `polyFn`**, any field -/
theorem polynomial_refines (A : K.Csr R) (c0 : R) (cs : List R) (iters : Nat) (b x : Array R)
    (hb : b.size = A.n) (hx : x.size = A.n) :
    ∃ y, ExtSm.polynomial A (c0 :: cs) iters b x = some y ∧ y.size = A.n ∧
      fn y = iter (polyFn (CF.csrOp A.n (rowOf A)) c0 cs) (fn b) iters (fn x) := by
  refine ⟨_, rfl, ?_⟩
  exact CF.kiter_refines (ExtSm.polyStep A c0 cs b) (polyFn (CF.csrOp A.n (rowOf A)) c0 cs) (fn b) A.n
    (fun x hx => polyStep_refines A c0 cs b x hb hx) iters x hx

end poly

end PyamgV.C03Y
