import PyamgV.Model.C16Coarse
import PyamgV.Proofs.GsArrayRefine
import PyamgV.Proofs.GsSweep
import PyamgV.Proofs.SorAdjoint
import Mathlib.Tactic.Linarith
import Mathlib.Tactic.Ring

/-! PyamgV (C16): the relaxation-based coarse solver `('gauss_seidel', {iterations, sweep})` of the
model (`C16.relaxSolve`, built on the kernel model C09 compares bit-exactly with relaxation.h) is one
long Gauss-Seidel kernel sweep from the zero vector, hence non-expansive in the energy norm
(`gsSweep_nonexp` through `gaussSeidel_refines`). -/
namespace PyamgV.C16
open PyamgV PyamgV.K
set_option linter.unusedSectionVars false

variable {R : Type} [Field R] [LinearOrder R] [IsStrictOrderedRing R] [DecidableEq R]

/-- rows visited by one iteration of `gauss_seidel(..., sweep)` -/
def passRows (n : Nat) : Sweep → List Nat
  | .forward => List.range n
  | .backward => (List.range n).reverse
  | .symmetric => List.range n ++ (List.range n).reverse

/-- rows visited by `iterations = k` -/
def sweepRows (n : Nat) (sw : Sweep) : Nat → List Nat
  | 0 => []
  | k + 1 => passRows n sw ++ sweepRows n sw k

theorem gaussSeidel_append (A : Csr R) (b : Array R) (r1 r2 : List Nat) (x : Array R) :
    gaussSeidel A b (r1 ++ r2) x = gaussSeidel A b r2 (gaussSeidel A b r1 x) := by
  unfold gaussSeidel; rw [List.foldl_append]

theorem gsPass_one (A : Csr R) (b : Array R) (bw : Bool) (x : Array R) :
    gsPass (1 : R) A b bw x = gaussSeidel A b (dirRows A.n bw) x := by
  simp [gsPass]

/-- with `omega = 1` the Python driver is one long kernel sweep over `sweepRows` -/
theorem pyGaussSeidel_one (A : Csr R) (b : Array R) (sw : Sweep) :
    ∀ (k : Nat) (x : Array R), pyGaussSeidel (1 : R) A b k sw x = gaussSeidel A b (sweepRows A.n sw k) x := by
  intro k
  induction k with
  | zero => intro x; cases sw <;> simp [pyGaussSeidel, K.iter, sweepRows, gaussSeidel]
  | succ k ih =>
    intro x
    have h := ih
    cases sw
    · simp only [pyGaussSeidel, K.iter] at h ⊢
      rw [h, gsPass_one, sweepRows, gaussSeidel_append]; rfl
    · simp only [pyGaussSeidel, K.iter] at h ⊢
      rw [h, gsPass_one, sweepRows, gaussSeidel_append]; rfl
    · simp only [pyGaussSeidel, K.iter] at h ⊢
      rw [h, gsPass_one, gsPass_one, sweepRows, gaussSeidel_append, passRows, gaussSeidel_append]; rfl

theorem passRows_lt (n : Nat) (sw : Sweep) : ∀ i ∈ passRows n sw, i < n := by
  intro i hi
  cases sw <;> simp [passRows] at hi <;> omega

theorem sweepRows_lt (n : Nat) (sw : Sweep) : ∀ k, ∀ i ∈ sweepRows n sw k, i < n := by
  intro k
  induction k with
  | zero => intro i hi; simp [sweepRows] at hi
  | succ k ih =>
    intro i hi
    simp only [sweepRows, List.mem_append] at hi
    rcases hi with h | h
    · exact passRows_lt n sw i h
    · exact ih i h

theorem fn_zeros (n : Nat) : fn (Array.replicate n (0 : R)) = 0 := by
  funext i
  simp only [fn, rd, Array.getD_eq_getD_getElem?, Array.getElem?_replicate, Pi.zero_apply]
  split <;> rfl

/-- the model's `gauss_seidel` coarse solver is one kernel sweep from the zero vector -/
theorem relaxSolve_gs (A : Csr R) (o : Opts R) (ho : o.omega = none) (hr : o.withrho = none)
    (b : Array R) (hb : b.size = A.n) :
    relaxSolve "gauss_seidel" o A b =
      .ok (gaussSeidel A b (sweepRows A.n (o.sweep.getD .forward) (o.iterations.getD 10))
        (Array.replicate b.size (0 : R))) := by
  unfold relaxSolve
  simp [hb, ho, hr, pyGaussSeidel_one]

/-- **relaxation clause (Gauss-Seidel)**: on a symmetric positive semidefinite CSR matrix with one stored
diagonal entry per row, the coarse solver `('gauss_seidel', {iterations, sweep})` — any number of
iterations (default 10), any sweep — started from the zero guess returns `x` with
`‖x* − x‖_A ≤ ‖x*‖_A` for every solution `x*` of `A x* = b` -/
theorem relax_gs_energy (A : Csr R) (o : Opts R) (ho : o.omega = none) (hr : o.withrho = none)
    (b : Array R) (hb : b.size = A.n)
    (hsym : ∀ u v, (euc R A.n).a (csrOp A.n (rowOf A) u) v = (euc R A.n).a u (csrOp A.n (rowOf A) v))
    (hpsd : ∀ v, 0 ≤ (euc R A.n).a (csrOp A.n (rowOf A) v) v)
    (diag : Nat → R) (hdiag : ∀ i, i < A.n → HasDiag i (rowOf A i) (diag i))
    (xs : Nat → R) (hxs : csrOp A.n (rowOf A) xs = fn b) :
    ∃ x, relaxSolve "gauss_seidel" o A b = .ok x ∧ x.size = b.size ∧
      (energy A.n (rowOf A) hsym hpsd).en (xs - fn x) ≤ (energy A.n (rowOf A) hsym hpsd).en xs := by
  refine ⟨_, relaxSolve_gs A o ho hr b hb, ?_⟩
  have hrows := sweepRows_lt A.n (o.sweep.getD .forward) (o.iterations.getD 10)
  have href := gaussSeidel_refines A b (sweepRows A.n (o.sweep.getD .forward) (o.iterations.getD 10))
    (Array.replicate b.size (0 : R)) (by intro i hi; simpa [hb] using hrows i hi)
  refine ⟨by simpa using href.1, ?_⟩
  rw [href.2, fn_zeros]
  have hne := gsSweep_nonexp A.n (rowOf A) hsym hpsd diag hdiag _ hrows (0 : Nat → R) (fn b) xs hxs
  simpa using hne

/-- the row step of the executable `sor_gauss_seidel` kernel -/
def sorStep (ω : R) (A : Csr R) (b : Array R) (x : Array R) (i : Nat) : Array R :=
  let (rsum, diag) := (A.jjs i).foldl (fun (acc : R × R) jj =>
    let j := rdN A.aj jj
    if i = j then (acc.1, rd A.ax jj) else (acc.1 + rd A.ax jj * rd x j, acc.2)) ((0:R), (0:R))
  if diag = 0 then x else wr x i (ω * ((rd b i - rsum) / diag) + (1 - ω) * rd x i)

theorem sorGaussSeidel_eq (ω : R) (A : Csr R) (b : Array R) (rows : List Nat) (x : Array R) :
    sorGaussSeidel ω A b rows x = rows.foldl (sorStep ω A b) x := rfl

theorem sorStep_size (ω : R) (A : Csr R) (b x : Array R) (i : Nat) : (sorStep ω A b x i).size = x.size := by
  unfold sorStep
  simp only
  split
  · rfl
  · simp [wr]

theorem sorStep_refines (ω : R) (A : Csr R) (b x : Array R) (i : Nat) (hi : i < x.size) :
    fn (sorStep ω A b x i) = sorRowFn ω i (rowOf A i) (fn b) (fn x) := by
  have hscan : (A.jjs i).foldl (fun (acc : R × R) jj =>
        let j := rdN A.aj jj
        if i = j then (acc.1, rd A.ax jj) else (acc.1 + rd A.ax jj * rd x j, acc.2))
        ((0:R), (0:R)) = rowScan i (rowOf A i) (fn x) := by
    unfold rowScan rowOf
    rw [List.foldl_map]
    apply List.foldl_ext
    intro acc jj _
    by_cases h : i = rdN A.aj jj
    · simp only [h, if_true]
    · have h' : ¬ rdN A.aj jj = i := fun e => h e.symm
      simp only [h, h', if_false]
      rfl
  unfold sorStep
  simp only
  rw [hscan]
  unfold sorRowFn
  rw [show rowScan i (rowOf A i) (fn x) = ((rowScan i (rowOf A i) (fn x)).1,
    (rowScan i (rowOf A i) (fn x)).2) from rfl]
  simp only
  by_cases hd : (rowScan i (rowOf A i) (fn x)).2 = 0
  · rw [if_pos hd, if_pos hd]
  · rw [if_neg hd, if_neg hd, fn_wr _ _ _ hi]
    rfl

/-- the executable SOR sweep refines `sorSweepFn` -/
theorem sorGaussSeidel_refines (ω : R) (A : Csr R) (b : Array R) :
    ∀ (rows : List Nat) (x : Array R), (∀ i ∈ rows, i < x.size) →
      (sorGaussSeidel ω A b rows x).size = x.size ∧
      fn (sorGaussSeidel ω A b rows x) = sorSweepFn ω (rowOf A) (fn b) rows (fn x) := by
  intro rows
  induction rows with
  | nil => intro x _; exact ⟨rfl, rfl⟩
  | cons i rows ih =>
    intro x hrows
    have hi : i < x.size := hrows i (by simp)
    rw [sorGaussSeidel_eq, List.foldl_cons, ← sorGaussSeidel_eq]
    have hsz := sorStep_size ω A b x i
    have := ih (sorStep ω A b x i) (fun j hj => by rw [hsz]; exact hrows j (by simp [hj]))
    refine ⟨this.1.trans hsz, ?_⟩
    rw [this.2, sorStep_refines ω A b x i hi]
    rfl

theorem sorGaussSeidel_append (ω : R) (A : Csr R) (b : Array R) (r1 r2 : List Nat) (x : Array R) :
    sorGaussSeidel ω A b (r1 ++ r2) x = sorGaussSeidel ω A b r2 (sorGaussSeidel ω A b r1 x) := by
  unfold sorGaussSeidel; rw [List.foldl_append]

theorem gsPass_ne_one (ω : R) (hω : ω ≠ 1) (A : Csr R) (b : Array R) (bw : Bool) (x : Array R) :
    gsPass ω A b bw x = sorGaussSeidel ω A b (dirRows A.n bw) x := by
  simp [gsPass, hω]

theorem pyGaussSeidel_sor (ω : R) (hω : ω ≠ 1) (A : Csr R) (b : Array R) (sw : Sweep) :
    ∀ (k : Nat) (x : Array R), pyGaussSeidel ω A b k sw x = sorGaussSeidel ω A b (sweepRows A.n sw k) x := by
  intro k
  induction k with
  | zero => intro x; cases sw <;> simp [pyGaussSeidel, K.iter, sweepRows, sorGaussSeidel]
  | succ k ih =>
    intro x
    have h := ih
    cases sw
    · simp only [pyGaussSeidel, K.iter] at h ⊢
      rw [h, gsPass_ne_one ω hω, sweepRows, sorGaussSeidel_append]; rfl
    · simp only [pyGaussSeidel, K.iter] at h ⊢
      rw [h, gsPass_ne_one ω hω, sweepRows, sorGaussSeidel_append]; rfl
    · simp only [pyGaussSeidel, K.iter] at h ⊢
      rw [h, gsPass_ne_one ω hω, gsPass_ne_one ω hω, sweepRows, sorGaussSeidel_append, passRows, sorGaussSeidel_append]; rfl

/-- **relaxation clause (SOR)**: `('sor', {omega, iterations, sweep})` with `0 ≤ ω ≤ 2` (default `1/2`),
from the zero guess, on a symmetric positive semidefinite CSR matrix with one stored diagonal entry
per row: `‖x* − x‖_A ≤ ‖x*‖_A` -/
theorem relax_sor_energy (A : Csr R) (o : Opts R) (hr : o.withrho = none)
    (h0 : 0 ≤ o.omega.getD ((1 : R) / ((1 : R) + 1))) (h2 : o.omega.getD ((1 : R) / ((1 : R) + 1)) ≤ 2)
    (b : Array R) (hb : b.size = A.n)
    (hsym : ∀ u v, (euc R A.n).a (csrOp A.n (rowOf A) u) v = (euc R A.n).a u (csrOp A.n (rowOf A) v))
    (hpsd : ∀ v, 0 ≤ (euc R A.n).a (csrOp A.n (rowOf A) v) v)
    (diag : Nat → R) (hdiag : ∀ i, i < A.n → HasDiag i (rowOf A i) (diag i))
    (xs : Nat → R) (hxs : csrOp A.n (rowOf A) xs = fn b) :
    ∃ x, relaxSolve "sor" o A b = .ok x ∧ x.size = b.size ∧
      (energy A.n (rowOf A) hsym hpsd).en (xs - fn x) ≤ (energy A.n (rowOf A) hsym hpsd).en xs := by
  have hrows := sweepRows_lt A.n (o.sweep.getD .forward) (o.iterations.getD 10)
  have hrows' : ∀ i ∈ sweepRows A.n (o.sweep.getD .forward) (o.iterations.getD 10),
      i < (Array.replicate b.size (0 : R)).size := by intro i hi; simpa [hb] using hrows i hi
  obtain ⟨ω, hωdef⟩ : ∃ ω, ω = o.omega.getD ((1 : R) / ((1 : R) + 1)) := ⟨_, rfl⟩
  rw [← hωdef] at h0 h2
  have hsolve : relaxSolve "sor" o A b = .ok (pyGaussSeidel ω A b (o.iterations.getD 10)
      (o.sweep.getD .forward) (Array.replicate b.size (0 : R))) := by
    unfold relaxSolve
    rw [← hωdef]
    simp [hb, hr]
  refine ⟨_, hsolve, ?_⟩
  by_cases hω : ω = 1
  · -- omega = 1: the plain Gauss-Seidel kernel
    rw [hω, pyGaussSeidel_one]
    have href := gaussSeidel_refines A b _ (Array.replicate b.size (0 : R)) hrows'
    refine ⟨by simpa using href.1, ?_⟩
    rw [href.2, fn_zeros]
    have hne := gsSweep_nonexp A.n (rowOf A) hsym hpsd diag hdiag _ hrows (0 : Nat → R) (fn b) xs hxs
    simpa using hne
  · rw [pyGaussSeidel_sor ω hω]
    have href := sorGaussSeidel_refines ω A b _ (Array.replicate b.size (0 : R)) hrows'
    refine ⟨by simpa using href.1, ?_⟩
    rw [href.2, fn_zeros]
    have hne := sorSweep_nonexp ω h0 h2 A.n (rowOf A) hsym hpsd diag hdiag _ hrows (0 : Nat → R) (fn b) xs hxs
    simpa using hne


def A2 : K.Csr ℚ := ⟨2, #[0, 2, 4], #[0, 1, 0, 1], #[2, -1, -1, 2]⟩

theorem row0 : rowOf A2 0 = [(0, 2), (1, -1)] := by decide +kernel
theorem row1 : rowOf A2 1 = [(0, -1), (1, 2)] := by decide +kernel

/-- non-vacuity of `relax_gs_energy`: its hypotheses hold for `A = [[2,-1],[-1,2]]`, `b = (1,1)`, `x* = (1,1)` -/
theorem relax_gs_energy_hyps_satisfiable : ∃ (hsym : ∀ u v, (euc ℚ A2.n).a (csrOp A2.n (rowOf A2) u) v = (euc ℚ A2.n).a u (csrOp A2.n (rowOf A2) v))
    (hpsd : ∀ v, 0 ≤ (euc ℚ A2.n).a (csrOp A2.n (rowOf A2) v) v) (diag : Nat → ℚ) (xs : Nat → ℚ),
    (∀ i, i < A2.n → HasDiag i (rowOf A2 i) (diag i)) ∧ csrOp A2.n (rowOf A2) xs = fn (#[1, 1] : Array ℚ) := by
  have hop : ∀ u : Nat → ℚ, csrOp A2.n (rowOf A2) u 0 = 2 * u 0 - u 1 ∧ csrOp A2.n (rowOf A2) u 1 = 2 * u 1 - u 0 := by
    intro u
    show csrOp 2 (rowOf A2) u 0 = _ ∧ csrOp 2 (rowOf A2) u 1 = _
    constructor
    · rw [csrOp_apply _ _ _ _ (by norm_num), row0]; simp [rowDot]; ring
    · rw [csrOp_apply _ _ _ _ (by norm_num), row1]; simp [rowDot]; ring
  refine ⟨?_, ?_, fun _ => 2, fun i => if i < 2 then 1 else 0, ?_, ?_⟩
  · intro u v
    have hn : A2.n = 2 := rfl
    simp only [euc_apply, hn, Finset.sum_range_succ, Finset.sum_range_zero]
    rw [← hn, (hop u).1, (hop u).2, (hop v).1, (hop v).2]
    ring
  · intro v
    have hn : A2.n = 2 := rfl
    simp only [euc_apply, hn, Finset.sum_range_succ, Finset.sum_range_zero]
    rw [← hn, (hop v).1, (hop v).2]
    nlinarith [sq_nonneg (v 0 - v 1), sq_nonneg (v 0), sq_nonneg (v 1)]
  · intro i hi
    have : i = 0 ∨ i = 1 := by have : i < 2 := hi; omega
    rcases this with rfl | rfl
    · rw [row0]; simp [HasDiag]
    · rw [row1]; simp [HasDiag]
  · funext i
    by_cases h0 : i = 0
    · subst h0; rw [(hop _).1]; simp [fn, rd]; norm_num
    · by_cases h1 : i = 1
      · subst h1; rw [(hop _).2]; simp [fn, rd]; norm_num
      · have : ¬ i < 2 := by omega
        have hn : A2.n = 2 := rfl
        have h2 : 2 ≤ i := by omega
        simp [csrOp, hn, this, fn, rd, h2]

end PyamgV.C16
