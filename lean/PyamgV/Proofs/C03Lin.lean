import PyamgV.Proofs.LinIter

/-! PyamgV (C03): `cyc_isLinIter` without the Galerkin condition.  Every level carries its own
matrix `L.A` (what `levels[i].A` holds), the smoothers of a level are linear iterations for that
matrix; nothing relates `levels[i+1].A` to `R A P`.  The operator `MopL` is composed from exactly
these pieces, so "M is determined only by the hierarchy and the cycle type". -/
namespace PyamgV

variable {K : Type*} [Field K] [LinearOrder K] [IsStrictOrderedRing K]
variable {V : Type*} [AddCommGroup V] [Module K V]

/-- the smoothers of every level are linear iterations for that level's own matrix -/
def WFLs : List (LinLevel K V) → Prop
  | [] => True
  | L :: rest => IsLinIter L.A L.pre L.Qpre ∧ IsLinIter L.A L.post L.Qpost ∧ WFLs rest

/-- textbook operator of a cycle; the coarse operator on the next level `L'` is composed with
respect to `L'.A` -/
def MopL (S : V →ₗ[K] V) : CType → List (LinLevel K V) → (V →ₗ[K] V)
  | _, [] => S
  | c, L :: rest =>
    let Mc : V →ₗ[K] V := match rest, c with
      | [], _ => S
      | _ :: _, .V => MopL S .V rest
      | L' :: _, .W => compM L'.A (MopL S .W rest) (MopL S .W rest)
      | L' :: _, .F k => iterM L'.A (MopL S .V rest) k (MopL S (.F k) rest)
    compM L.A (compM L.A L.Qpre (L.P ∘ₗ Mc ∘ₗ L.R)) L.Qpost

theorem cycL_isLinIter (S : V →ₗ[K] V) :
    ∀ (Ls : List (LinLevel K V)) (c : CType) (L : LinLevel K V),
      WFLs (L :: Ls) →
      IsLinIter L.A (cyc (fun b => S b) c ((L :: Ls).map (·.toLevel))) (MopL S c (L :: Ls)) := by
  intro Ls
  induction Ls with
  | nil =>
    intro c L h
    obtain ⟨hpre, hpost, _⟩ := h
    have := twoGrid_isLinIter L (fun rc => S rc) S hpre hpost (fun _ => rfl)
    cases c with
    | V => simpa [cyc, MopL] using this
    | W => simpa [cyc, MopL] using this
    | F k =>
      have hi := iter_ignore (fun b => S b)
      simp only [List.map_cons, List.map_nil, cyc, MopL]
      simp only [hi]
      simpa using this
  | cons L' rest ih =>
    intro c L h
    obtain ⟨hpre, hpost, hrest⟩ := h
    have hc : ∀ c', IsLinIter L'.A
        (cyc (fun b => S b) c' ((L' :: rest).map (·.toLevel))) (MopL S c' (L' :: rest)) :=
      fun c' => ih c' L' hrest
    cases c with
    | V =>
      have := twoGrid_isLinIter L (fun rc => cyc (fun b => S b) .V ((L' :: rest).map (·.toLevel)) 0 rc)
        (MopL S .V (L' :: rest)) hpre hpost (fun rc => (hc .V).zero rc)
      simpa [cyc, MopL] using this
    | W =>
      have h2 := (hc .W).comp (hc .W)
      have := twoGrid_isLinIter L
        (fun rc => cyc (fun b => S b) .W ((L' :: rest).map (·.toLevel))
          (cyc (fun b => S b) .W ((L' :: rest).map (·.toLevel)) 0 rc) rc)
        (compM L'.A (MopL S .W (L' :: rest)) (MopL S .W (L' :: rest))) hpre hpost
        (fun rc => h2.zero rc)
      simpa [cyc, MopL] using this
    | F k =>
      have h2 := (hc .V).iter k _ _ (hc (.F k))
      have := twoGrid_isLinIter L
        (fun rc => iter (cyc (fun b => S b) .V ((L' :: rest).map (·.toLevel))) rc k
          (cyc (fun b => S b) (.F k) ((L' :: rest).map (·.toLevel)) 0 rc))
        (iterM L'.A (MopL S .V (L' :: rest)) k (MopL S (.F k) (L' :: rest))) hpre hpost
        (fun rc => h2.zero rc)
      simpa [cyc, MopL] using this

/-- the exact solution is a fixed point of every cycle (no Galerkin condition) -/
theorem cycL_fixed_point (S : V →ₗ[K] V) (Ls : List (LinLevel K V)) (c : CType) (L : LinLevel K V)
    (h : WFLs (L :: Ls)) (xs b : V) (hb : L.A xs = b) :
    cyc (fun b => S b) c ((L :: Ls).map (·.toLevel)) xs b = xs := by
  have := cycL_isLinIter S Ls c L h xs b
  rw [this, hb]; simp

/-- the preconditioner (cycle from a zero guess) is the linear map `MopL` -/
theorem cycL_zero (S : V →ₗ[K] V) (Ls : List (LinLevel K V)) (c : CType) (L : LinLevel K V)
    (h : WFLs (L :: Ls)) (b : V) :
    cyc (fun b => S b) c ((L :: Ls).map (·.toLevel)) 0 b = MopL S c (L :: Ls) b :=
  (cycL_isLinIter S Ls c L h).zero b

/-- k cycles: the error is propagated k times by `e ↦ e − M (A e)` -/
theorem cycL_iter_error (S : V →ₗ[K] V) (Ls : List (LinLevel K V)) (c : CType) (L : LinLevel K V)
    (h : WFLs (L :: Ls)) (xs b : V) (hb : L.A xs = b) (k : Nat) (x : V) :
    xs - iter (cyc (fun b => S b) c ((L :: Ls).map (·.toLevel))) b k x =
      Nat.iterate (fun e => e - MopL S c (L :: Ls) (L.A e)) k (xs - x) := by
  have hlin := cycL_isLinIter S Ls c L h
  induction k generalizing x with
  | zero => simp [PyamgV.iter]
  | succ k ih =>
    simp only [PyamgV.iter, Nat.iterate]
    rw [ih, hlin x b, ← hb]
    congr 1
    simp only [map_sub]
    abel

end PyamgV
