import PyamgV.Proofs.ExtC12LloydRefine
import PyamgV.Proofs.ExtC12LloydBF

/-! PyamgV (C12, E18): Lloyd clustering / aggregation — what the executable model
(Model/ExtC12Lloyd.lean, driver ops `ext_c12_lloyd*`) returns. -/
namespace PyamgV.ExtLloyd
open PyamgV.N PyamgV.BF

/-- column indices in range, non-negative weights (what `lloyd_cluster` checks / SciPy guarantees) -/
structure WF (A : Csr) : Prop where
  col : ∀ i, i < A.n → ∀ jj ∈ A.jjs i, rdN A.aj jj < A.n
  nonneg : ∀ i, i < A.n → ∀ jj ∈ A.jjs i, 0 ≤ rdQ A.ax jj

/-- symmetric sparsity pattern -/
def SymPat (A : Csr) : Prop :=
  ∀ i, i < A.n → ∀ jj ∈ A.jjs i, ∃ jj' ∈ A.jjs (rdN A.aj jj), rdN A.aj jj' = i

/-- `j` can be reached from `c` along stored entries -/
inductive Reach (A : Csr) : Nat → Nat → Prop
  | refl (c : Nat) : Reach A c c
  | step {c i jj : Nat} : Reach A c i → i < A.n → jj ∈ A.jjs i → Reach A c (rdN A.aj jj)

theorem reach_of_walk {A : Csr} {c j : Nat} {L : Rat} (h : Walk (edgesOf A) c j L) : Reach A c j := by
  induction h with
  | refl => exact Reach.refl _
  | step _ he ih =>
    obtain ⟨i, hi, jj, hjj, heq⟩ := mem_edgesOf.1 he
    simp only [Prod.mk.injEq] at heq
    obtain ⟨h1, h2, _⟩ := heq
    rw [h2]; rw [h1] at ih
    exact Reach.step ih hi hjj

theorem walk_of_reach {A : Csr} {c j : Nat} (h : Reach A c j) : ∃ L, Walk (edgesOf A) c j L := by
  induction h with
  | refl => exact ⟨0, Walk.refl _⟩
  | step _ hi hjj ih =>
    obtain ⟨L, hL⟩ := ih
    exact ⟨_, Walk.step hL (mem_edgesOf.2 ⟨_, hi, _, hjj, rfl⟩)⟩

theorem Reach.trans {A : Csr} {a b c : Nat} (h1 : Reach A a b) (h2 : Reach A b c) : Reach A a c := by
  induction h2 with
  | refl => exact h1
  | step _ hi hjj ih => exact Reach.step ih hi hjj

theorem Reach.symm {A : Csr} (hW : WF A) (hs : SymPat A) {a b : Nat} (h : Reach A a b) : Reach A b a := by
  induction h with
  | refl => exact Reach.refl _
  | @step i jj _ hi hjj ih =>
    obtain ⟨jj', hjj', hback⟩ := hs i hi jj hjj
    have h1 : Reach A (rdN A.aj jj) i := by
      have := Reach.step (Reach.refl (rdN A.aj jj)) (hW.col i hi jj hjj) hjj'
      rwa [hback] at this
    exact h1.trans ih

theorem edges_col {A : Csr} (hW : WF A) : ∀ e ∈ edgesOf A, e.2.1 < A.n := by
  intro e he
  obtain ⟨i, hi, jj, hjj, rfl⟩ := mem_edgesOf.1 he
  exact hW.col i hi jj hjj

theorem edges_nonneg {A : Csr} (hW : WF A) : ∀ e ∈ edgesOf A, 0 ≤ e.2.2 := by
  intro e he
  obtain ⟨i, hi, jj, hjj, rfl⟩ := mem_edgesOf.1 he
  exact hW.nonneg i hi jj hjj

theorem edges_sym {A : Csr} (hW : WF A) (hs : SymPat A) :
    ∀ e ∈ edgesOf A, ∃ b, (e.2.1, e.1, b) ∈ edgesOf A := by
  intro e he
  obtain ⟨i, hi, jj, hjj, rfl⟩ := mem_edgesOf.1 he
  obtain ⟨jj', hjj', hback⟩ := hs i hi jj hjj
  exact ⟨rdQ A.ax jj', mem_edgesOf.2 ⟨_, hW.col i hi jj hjj, jj', hjj', by rw [hback]⟩⟩

/-! ### the NumPy initialisation -/

def initStep (c : Array Nat) (s : DMP) (a : Nat) : DMP :=
  (s.1.setIfInBounds (rdN c a) (some 0), wrI s.2.1 (rdN c a) (Int.ofNat a), s.2.2)

theorem initState_eq (n : Nat) (c : Array Nat) : initState n c =
    (List.range c.size).foldl (initStep c)
      (Array.replicate n none, Array.replicate n (-1), Array.replicate n (-1)) := rfl

structure InitInv (n : Nat) (c : Array Nat) (k : Nat) (s : DMP) : Prop where
  sd : s.1.size = n
  sm : s.2.1.size = n
  sp : s.2.2.size = n
  d1 : ∀ v, (∃ a, a < k ∧ rdN c a = v) → s.1.getD v none = some 0
  d0 : ∀ v, (¬ ∃ a, a < k ∧ rdN c a = v) → s.1.getD v none = none
  m0 : ∀ v, (¬ ∃ a, a < k ∧ rdN c a = v) → s.2.1.getD v (-1) = -1
  m1 : ∀ v, (∃ a, a < k ∧ rdN c a = v) → ∃ a, a < k ∧ rdN c a = v ∧ s.2.1.getD v (-1) = (a : Int)

theorem initInv_fold {n : Nat} {c : Array Nat} (hlt : ∀ a, a < c.size → rdN c a < n) :
    ∀ k, k ≤ c.size → InitInv n c k ((List.range k).foldl (initStep c)
      (Array.replicate n none, Array.replicate n (-1), Array.replicate n (-1))) := by
  intro k
  induction k with
  | zero =>
    intro _
    refine ⟨by simp, by simp, by simp, ?_, ?_, ?_, ?_⟩
    · rintro v ⟨a, ha, _⟩; omega
    · intro v _
      simp only [List.range_zero, List.foldl_nil, Array.getD_eq_getD_getElem?, Array.getElem?_replicate]
      split <;> rfl
    · intro v _
      simp only [List.range_zero, List.foldl_nil, Array.getD_eq_getD_getElem?, Array.getElem?_replicate]
      split <;> rfl
    · rintro v ⟨a, ha, _⟩; omega
  | succ k ih =>
    intro hk
    have h := ih (by omega)
    rw [List.range_succ, List.foldl_append, List.foldl_cons, List.foldl_nil]
    generalize (List.range k).foldl (initStep c) _ = s at h ⊢
    obtain ⟨sd, sm, sp, d1, d0, m0, m1⟩ := h
    have hck : rdN c k < n := hlt k (by omega)
    unfold initStep
    refine ⟨by simp [sd], by simp [wrI, sm], sp, ?_, ?_, ?_, ?_⟩
    · rintro v ⟨a, ha, hav⟩
      show (s.1.setIfInBounds (rdN c k) (some 0)).getD v none = some 0
      rw [getD_set _ _ _ _ _ (by omega)]
      by_cases hv : v = rdN c k
      · rw [if_pos hv]
      · rw [if_neg hv]
        exact d1 v ⟨a, by
          rcases Nat.lt_or_ge a k with h | h
          · exact h
          · have : a = k := by omega
            subst this; exact absurd hav.symm hv, hav⟩
    · intro v hv
      show (s.1.setIfInBounds (rdN c k) (some 0)).getD v none = none
      rw [getD_set _ _ _ _ _ (by omega)]
      have hvk : v ≠ rdN c k := fun e => hv ⟨k, by omega, e.symm⟩
      rw [if_neg hvk]
      exact d0 v (fun ⟨a, ha, hav⟩ => hv ⟨a, by omega, hav⟩)
    · intro v hv
      show (wrI s.2.1 (rdN c k) (Int.ofNat k)).getD v (-1) = -1
      unfold wrI
      rw [getD_set _ _ _ _ _ (by omega)]
      have hvk : v ≠ rdN c k := fun e => hv ⟨k, by omega, e.symm⟩
      rw [if_neg hvk]
      exact m0 v (fun ⟨a, ha, hav⟩ => hv ⟨a, by omega, hav⟩)
    · rintro v ⟨a, ha, hav⟩
      show ∃ a, a < k + 1 ∧ rdN c a = v ∧ (wrI s.2.1 (rdN c k) (Int.ofNat k)).getD v (-1) = (a : Int)
      unfold wrI
      rw [getD_set _ _ _ _ _ (by omega)]
      by_cases hv : v = rdN c k
      · rw [if_pos hv]; exact ⟨k, by omega, hv.symm, rfl⟩
      · rw [if_neg hv]
        have hak : a < k := by
          rcases Nat.lt_or_ge a k with h | h
          · exact h
          · have : a = k := by omega
            subst this; exact absurd hav.symm hv
        obtain ⟨a', ha', hav', hm⟩ := m1 v ⟨a, hak, hav⟩
        exact ⟨a', by omega, hav', hm⟩

theorem initState_inv {n : Nat} {c : Array Nat} (hlt : ∀ a, a < c.size → rdN c a < n) :
    InitInv n c c.size (initState n c) := by
  rw [initState_eq]; exact initInv_fold hlt c.size (le_refl _)

/-! ### the clustering pass: `bellman_ford` from the centres -/

/-- what `bellman_ford` leaves in `distances, clusters, predecessors` when started from the centres `c` -/
structure PassOut (A : Csr) (c : Array Nat) (d : Array (Option Rat)) (m p : Array Int) : Prop where
  sd : d.size = A.n
  sm : m.size = A.n
  sp : p.size = A.n
  ids : ∀ v, v < A.n → rdI m v = -1 ∨ (0 ≤ rdI m v ∧ rdI m v < c.size)
  finite : ∀ v, v < A.n → (0 ≤ rdI m v ↔ ∃ x, d.getD v none = some x)
  assigned : ∀ v, v < A.n → (0 ≤ rdI m v ↔ ∃ a, a < c.size ∧ Reach A (rdN c a) v)
  nearest : ∀ v x, v < A.n → d.getD v none = some x →
    Walk (edgesOf A) (rdN c (rdI m v).toNat) v x ∧
      ∀ a L, a < c.size → Walk (edgesOf A) (rdN c a) v L → x ≤ L
  own : (∀ a b, a < c.size → b < c.size → rdN c a = rdN c b → a = b) →
    ∀ a, a < c.size → rdI m (rdN c a) = a

theorem mainPass_spec {A : Csr} (hW : WF A) {c : Array Nat} (hpos : 0 < c.size)
    (hlt : ∀ a, a < c.size → rdN c a < A.n) :
    ∃ d m p, bellmanFord A (initState A.n c).1 (initState A.n c).2.1 (initState A.n c).2.2 = (d, m, p, true) ∧
      PassOut A c d m p := by
  have I := initState_inv hlt
  generalize initState A.n c = s at I ⊢
  obtain ⟨sd, sm, sp, d1, d0, m0, m1⟩ := I
  let isC : Nat → Prop := fun v => ∃ a, a < c.size ∧ rdN c a = v
  let lab : Nat → Int := fun v => s.2.1.getD v (-1)
  have hn : 1 ≤ A.n := by have := hlt 0 hpos; omega
  have hE := edges_nonneg hW
  have hV := edges_col hW
  have hCn : ∀ v, isC v → v < A.n := by rintro v ⟨a, ha, rfl⟩; exact hlt a ha
  have hR : Rel A.n (s.1, s.2.1, s.2.2, true) (absS s.1 s.2.1 s.2.2, false) := ⟨sd, sm, sp, rfl, rfl⟩
  have h0 : ∀ v, isC v → (absS s.1 s.2.1 s.2.2).d v = some 0 := fun v hv => d1 v hv
  have h1 : ∀ v x, (absS s.1 s.2.1 s.2.2).d v = some x → isC v ∧ x = 0 ∧ (absS s.1 s.2.1 s.2.2).m v = lab v := by
    intro v x hx
    by_cases hv : isC v
    · have := d1 v hv
      change s.1.getD v none = some x at hx
      rw [this] at hx
      exact ⟨hv, by simpa using hx.symm, rfl⟩
    · have := d0 v hv
      change s.1.getD v none = some x at hx
      rw [this] at hx; simp at hx
  obtain ⟨hS0, t, hloop, hSt, hfix⟩ := exit_of_init (lab := lab) hn hE hV hCn h0 h1
  have hM0 : Main (edgesOf A) isC lab (absS s.1 s.2.1 s.2.2) := by
    refine ⟨hS0, ?_, fun v hv => ⟨h0 v hv, rfl⟩⟩
    intro v hv
    by_cases hc : isC v
    · rw [h0 v hc] at hv; simp at hv
    · exact m0 v hc
  have hM : Main (edgesOf A) isC lab t :=
    loop_inv _ (fun acc e he h => relax_main hE acc e he h) _ _ t hM0 hloop
  obtain ⟨d', m', p', hgo, sd', sm', sp', habs, _⟩ := go_loop hW.col (A.n + 2) s.1 s.2.1 s.2.2 _ t hR hloop
  simp only at sd' sm' sp' habs
  refine ⟨d', m', p', by rw [bellmanFord_eq]; exact hgo, ?_⟩
  have hd : ∀ v, t.d v = d'.getD v none := fun v => by rw [← habs]; rfl
  have hm : ∀ v, v < A.n → t.m v = rdI m' v := fun v hv => by
    rw [← habs]; exact getD_irrel m' v _ _ (by omega)
  have hlab : ∀ v, isC v → ∃ a, a < c.size ∧ rdN c a = v ∧ lab v = (a : Int) := fun v hv => m1 v hv
  have hfin : ∀ v, v < A.n → (0 ≤ rdI m' v ↔ ∃ x, d'.getD v none = some x) := by
    intro v hv
    constructor
    · intro h
      cases hdv : d'.getD v none with
      | some x => exact ⟨x, rfl⟩
      | none =>
        have := hM.unre v (by rw [hd]; exact hdv)
        rw [hm v hv] at this; omega
    · rintro ⟨x, hx⟩
      obtain ⟨c0, hc0, _, hmc⟩ := hM.sound.walk v x (by rw [hd]; exact hx)
      obtain ⟨a, _, _, hla⟩ := hlab c0 hc0
      rw [← hm v hv, hmc, hla]; omega
  refine ⟨sd', sm', sp', ?_, hfin, ?_, ?_, ?_⟩
  · intro v hv
    cases hdv : d'.getD v none with
    | none =>
      left
      have := hM.unre v (by rw [hd]; exact hdv)
      rwa [hm v hv] at this
    | some x =>
      right
      obtain ⟨c0, hc0, _, hmc⟩ := hM.sound.walk v x (by rw [hd]; exact hdv)
      obtain ⟨a, ha, _, hla⟩ := hlab c0 hc0
      rw [← hm v hv, hmc, hla]; omega
  · intro v hv
    rw [hfin v hv]
    have := (main_exit hM hfix v).1
    simp only [hd] at this
    rw [this]
    constructor
    · rintro ⟨c0, L, ⟨a, ha, rfl⟩, hw⟩
      exact ⟨a, ha, reach_of_walk hw⟩
    · rintro ⟨a, ha, hr⟩
      obtain ⟨L, hL⟩ := walk_of_reach hr
      exact ⟨_, L, ⟨a, ha, rfl⟩, hL⟩
  · intro v x hv hx
    obtain ⟨c0, hc0, hw, hmc⟩ := hM.sound.walk v x (by rw [hd]; exact hx)
    obtain ⟨a, ha, hca, hla⟩ := hlab c0 hc0
    have hmv : rdI m' v = (a : Int) := by rw [← hm v hv, hmc, hla]
    refine ⟨?_, ?_⟩
    · rw [hmv, Int.toNat_natCast, hca]; exact hw
    · intro b L hb hwb
      obtain ⟨y, hy, hyL⟩ := fixed_opt hM.sound hfix (c := rdN c b) ⟨b, hb, rfl⟩ hwb
      rw [hd, hx] at hy
      have : x = y := by simpa using hy
      rw [this]; exact hyL
  · intro hinj a ha
    have hc : isC (rdN c a) := ⟨a, ha, rfl⟩
    obtain ⟨a', ha', hca', hla⟩ := hlab _ hc
    have := hinj a' a ha' ha hca'
    rw [← hm _ (hlt a ha), (hM.cen _ hc).2, hla, this]

/-! ### `most_interior_nodes` -/

theorem boundary_size (A : Csr) (m : Array Int) : (boundary A m).size = A.n := by simp [boundary]

theorem boundary_getD (A : Csr) (m : Array Int) (v : Nat) : (boundary A m).getD v none =
    if v < A.n ∧ (A.jjs v).any (fun jj => rdI m v != rdI m (rdN A.aj jj)) = true then some 0 else none := by
  unfold boundary
  simp only [Array.getD_eq_getD_getElem?, Array.getElem?_map, Array.getElem?_range]
  by_cases hv : v < A.n
  · simp [hv]
  · simp [hv]

theorem isB_iff {A : Csr} (hW : WF A) {m : Array Int} (hm : m.size = A.n) (v : Nat) :
    isB (edgesOf A) (fun v => m.getD v (-1)) v ↔
      (v < A.n ∧ (A.jjs v).any (fun jj => rdI m v != rdI m (rdN A.aj jj)) = true) := by
  constructor
  · rintro ⟨e, he, hv, hne⟩
    obtain ⟨i, hi, jj, hjj, rfl⟩ := mem_edgesOf.1 he
    simp only at hv hne
    subst hv
    refine ⟨hi, List.any_eq_true.2 ⟨jj, hjj, ?_⟩⟩
    have h1 : m.getD i (-1) = rdI m i := getD_irrel m i _ _ (by omega)
    have h2 : m.getD (rdN A.aj jj) (-1) = rdI m (rdN A.aj jj) :=
      getD_irrel m _ _ _ (by have := hW.col i hi jj hjj; omega)
    rw [h1, h2] at hne
    simpa using hne
  · rintro ⟨hv, hany⟩
    obtain ⟨jj, hjj, hne⟩ := List.any_eq_true.1 hany
    refine ⟨(v, rdN A.aj jj, rdQ A.ax jj), mem_edgesOf.2 ⟨v, hv, jj, hjj, rfl⟩, rfl, ?_⟩
    have h1 : m.getD v (-1) = rdI m v := getD_irrel m v _ _ (by omega)
    have h2 : m.getD (rdN A.aj jj) (-1) = rdI m (rdN A.aj jj) :=
      getD_irrel m _ _ _ (by have := hW.col v hv jj hjj; omega)
    show m.getD v (-1) ≠ m.getD (rdN A.aj jj) (-1)
    rw [h1, h2]
    simpa using hne

/-- on a symmetric pattern the Bellman–Ford pass nested in `most_interior_nodes` terminates and
leaves the cluster ids alone -/
theorem innerPass_spec {A : Csr} (hW : WF A) (hs : SymPat A) (hn : 1 ≤ A.n) {m p : Array Int}
    (hm : m.size = A.n) (hp : p.size = A.n) :
    ∃ d' m' p', bellmanFord A (boundary A m) m p = (d', m', p', true) ∧ d'.size = A.n ∧
      m'.size = A.n ∧ p'.size = A.n ∧ ∀ v, v < A.n → rdI m' v = rdI m v := by
  let m0 : Nat → Int := fun v => m.getD v (-1)
  have hE := edges_nonneg hW
  have hV := edges_col hW
  have hCn : ∀ v, isB (edgesOf A) m0 v → v < A.n := fun v hv => ((isB_iff hW hm v).1 hv).1
  have hR : Rel A.n (boundary A m, m, p, true) (absS (boundary A m) m p, false) :=
    ⟨boundary_size A m, hm, hp, rfl, rfl⟩
  have h0 : ∀ v, isB (edgesOf A) m0 v → (absS (boundary A m) m p).d v = some 0 := by
    intro v hv
    show (boundary A m).getD v none = some 0
    rw [boundary_getD, if_pos ((isB_iff hW hm v).1 hv)]
  have h1 : ∀ v x, (absS (boundary A m) m p).d v = some x →
      isB (edgesOf A) m0 v ∧ x = 0 ∧ (absS (boundary A m) m p).m v = m0 v := by
    intro v x hx
    change (boundary A m).getD v none = some x at hx
    rw [boundary_getD] at hx
    by_cases hb : v < A.n ∧ (A.jjs v).any (fun jj => rdI m v != rdI m (rdN A.aj jj)) = true
    · rw [if_pos hb] at hx
      exact ⟨(isB_iff hW hm v).2 hb, by simpa using hx.symm, rfl⟩
    · rw [if_neg hb] at hx; simp at hx
  obtain ⟨hS0, t, hloop, _, _⟩ := exit_of_init (lab := m0) hn hE hV hCn h0 h1
  have hI : Inner (edgesOf A) m0 t :=
    loop_inv _ (fun acc e he h => relax_inner hE (edges_sym hW hs) acc e he h) _ _ t ⟨hS0, rfl⟩ hloop
  obtain ⟨d', m', p', hgo, sd', sm', sp', habs, _⟩ := go_loop hW.col (A.n + 2) _ m p _ t hR hloop
  simp only at sd' sm' sp' habs
  refine ⟨d', m', p', by rw [bellmanFord_eq]; exact hgo, sd', sm', sp', ?_⟩
  intro v hv
  have h2 : t.m v = m'.getD v (-1) := by rw [← habs]; rfl
  rw [hI.meq] at h2
  have h3 : m'.getD v (-1) = rdI m' v := getD_irrel m' v _ _ (by omega)
  have h4 : m.getD v (-1) = rdI m v := getD_irrel m v _ _ (by omega)
  rw [← h3, ← h2]; exact h4

theorem rdN_set (c : Array Nat) (j a x : Nat) (hj : j < c.size) :
    rdN (c.setIfInBounds j x) a = if a = j then x else rdN c a := getD_set c j a x 0 hj

/-- every centre is a node that carries the id of its cluster -/
structure CenInv (n k : Nat) (m : Array Int) (c : Array Nat) : Prop where
  size : c.size = k
  root : ∀ a, a < k → rdN c a < n ∧ rdI m (rdN c a) = a

theorem centreStep_inv {n k : Nat} {d : Array (Option Rat)} {m : Array Int}
    (hm : ∀ i, i < n → rdI m i = -1 ∨ (0 ≤ rdI m i ∧ rdI m i < k))
    {s : Array Nat × Bool} {i : Nat} (hi : i < n) (h : CenInv n k m s.1) :
    CenInv n k m (centreStep d m s i).1 := by
  simp only [centreStep]
  split
  · exact h
  · rename_i hne
    split
    · rcases hm i hi with h1 | ⟨h0, hk⟩
      · exact absurd h1 hne
      · have ht : (rdI m i).toNat < k := by omega
        refine ⟨by simp [h.size], ?_⟩
        intro a ha
        show rdN (s.1.setIfInBounds (rdI m i).toNat i) a < n ∧ rdI m (rdN (s.1.setIfInBounds (rdI m i).toNat i) a) = a
        rw [rdN_set _ _ _ _ (by rw [h.size]; exact ht)]
        by_cases hat : a = (rdI m i).toNat
        · rw [if_pos hat]; exact ⟨hi, by omega⟩
        · rw [if_neg hat]; exact h.root a ha
    · exact h

theorem newCentres_inv {n k : Nat} {d : Array (Option Rat)} {m : Array Int} {c : Array Nat}
    (hm : ∀ i, i < n → rdI m i = -1 ∨ (0 ≤ rdI m i ∧ rdI m i < k)) (h : CenInv n k m c) :
    CenInv n k m (newCentres n c d m).1 := by
  unfold newCentres
  have : ∀ (l : List Nat), (∀ i ∈ l, i < n) → ∀ s : Array Nat × Bool, CenInv n k m s.1 →
      CenInv n k m (l.foldl (centreStep d m) s).1 := by
    intro l
    induction l with
    | nil => intro _ s hs; exact hs
    | cons i is ih =>
      intro hl s hs
      rw [List.foldl_cons]
      exact ih (fun x hx => hl x (by simp [hx])) _ (centreStep_inv hm (hl i (by simp)) hs)
  exact this _ (fun i hi => List.mem_range.1 hi) (c, false) h

/-! ### one pass of the `while` loop and the loop itself -/

/-- at least one centre, centres are nodes, centres are distinct -/
structure Centres (A : Csr) (c : Array Nat) : Prop where
  pos : 0 < c.size
  lt : ∀ a, a < c.size → rdN c a < A.n
  inj : ∀ a b, a < c.size → b < c.size → rdN c a = rdN c b → a = b

/-- the specification of the pair `(clusters, centers)` that `lloyd_cluster` returns -/
structure LloydSpec (A : Csr) (k : Nat) (cl : Array Int) (ce : Array Nat) : Prop where
  size_cl : cl.size = A.n
  size_ce : ce.size = k
  /-- ids are `-1` (unaggregated) or `0..k-1` -/
  ids : ∀ v, v < A.n → rdI cl v = -1 ∨ (0 ≤ rdI cl v ∧ rdI cl v < k)
  /-- every centre is a node of the cluster it names: no cluster is empty, centres are distinct -/
  root : ∀ a, a < k → rdN ce a < A.n ∧ rdI cl (rdN ce a) = a
  /-- a node is assigned iff it can be reached from some centre -/
  assigned : ∀ v, v < A.n → (0 ≤ rdI cl v ↔ ∃ a, a < k ∧ Reach A (rdN ce a) v)
  /-- every assigned node is connected to the centre of its own cluster -/
  connected : ∀ v, v < A.n → 0 ≤ rdI cl v → Reach A (rdN ce (rdI cl v).toNat) v

theorem centres_of_spec {A : Csr} {k : Nat} {cl : Array Int} {ce : Array Nat} (hk : 0 < k)
    (h : LloydSpec A k cl ce) : Centres A ce := by
  refine ⟨by rw [h.size_ce]; exact hk, fun a ha => (h.root a (by rw [← h.size_ce]; exact ha)).1, ?_⟩
  intro a b ha hb hab
  rw [h.size_ce] at ha hb
  have h1 := (h.root a ha).2
  have h2 := (h.root b hb).2
  rw [hab] at h1
  omega

theorem iter_spec {A : Csr} (hW : WF A) (hs : SymPat A) {c : Array Nat} (hc : Centres A c) :
    ∃ c' m' ch, iter A c = some (c', m', ch) ∧ LloydSpec A c.size m' c' := by
  obtain ⟨d, m, p, hbf, PO⟩ := mainPass_spec hW hc.pos hc.lt
  have hn : 1 ≤ A.n := by have := hc.lt 0 hc.pos; omega
  obtain ⟨d', m', p', hbf2, sd', sm', sp', hmeq⟩ := innerPass_spec hW hs hn PO.sm PO.sp
  have hit : iter A c = some ((newCentres A.n c d' m').1, m', (newCentres A.n c d' m').2) := by
    unfold iter
    simp only [hbf, if_true]
    unfold mostInterior
    simp only [hbf2, if_true]
  refine ⟨_, _, _, hit, ?_⟩
  have hids : ∀ v, v < A.n → rdI m' v = -1 ∨ (0 ≤ rdI m' v ∧ rdI m' v < c.size) := by
    intro v hv; rw [hmeq v hv]; exact PO.ids v hv
  have hC0 : CenInv A.n c.size m' c := by
    refine ⟨rfl, fun a ha => ⟨hc.lt a ha, ?_⟩⟩
    rw [hmeq _ (hc.lt a ha)]; exact PO.own hc.inj a ha
  have hC := newCentres_inv (d := d') hids hC0
  generalize (newCentres A.n c d' m').1 = c' at hC
  have hmem : ∀ v, v < A.n → 0 ≤ rdI m v → Reach A (rdN c (rdI m v).toNat) v := by
    intro v hv h0
    obtain ⟨x, hx⟩ := (PO.finite v hv).1 h0
    exact reach_of_walk (PO.nearest v x hv hx).1
  have hcc : ∀ a, a < c.size → Reach A (rdN c a) (rdN c' a) := by
    intro a ha
    obtain ⟨hlt, hma⟩ := hC.root a ha
    rw [hmeq _ hlt] at hma
    have := hmem _ hlt (by omega)
    rwa [hma, Int.toNat_natCast] at this
  refine ⟨sm', hC.size, hids, hC.root, ?_, ?_⟩
  · intro v hv
    rw [hmeq v hv, PO.assigned v hv]
    constructor
    · rintro ⟨a, ha, hr⟩
      exact ⟨a, ha, ((hcc a ha).symm hW hs).trans hr⟩
    · rintro ⟨a, ha, hr⟩
      exact ⟨a, ha, (hcc a ha).trans hr⟩
  · intro v hv h0
    rw [hmeq v hv] at h0 ⊢
    rcases PO.ids v hv with h1 | ⟨_, hk⟩
    · omega
    · have ha : (rdI m v).toNat < c.size := by omega
      exact ((hcc _ ha).symm hW hs).trans (hmem v hv h0)

theorem lloydLoop_spec {A : Csr} (hW : WF A) (hs : SymPat A) :
    ∀ (fuel : Nat) (c : Array Nat) (m : Array Int), Centres A c → LloydSpec A c.size m c →
      ∃ cl ce, lloydLoop A fuel c m = some (cl, ce) ∧ LloydSpec A c.size cl ce := by
  intro fuel
  induction fuel with
  | zero => intro c m _ h; exact ⟨m, c, rfl, h⟩
  | succ f ih =>
    intro c m hc _
    obtain ⟨c', m', ch, hit, hsp⟩ := iter_spec hW hs hc
    simp only [lloydLoop, hit]
    cases ch with
    | false => exact ⟨m', c', by simp, hsp⟩
    | true =>
      have hc' := centres_of_spec hc.pos hsp
      have hsz : c'.size = c.size := hsp.size_ce
      obtain ⟨cl, ce, h1, h2⟩ := ih c' m' hc' (by rw [hsz]; exact hsp)
      exact ⟨cl, ce, by simpa using h1, by rw [← hsz]; exact h2⟩

/-- **Lloyd clustering** (model of `lloyd_cluster`, at least one pass): symmetric pattern,
non-negative weights, distinct centres in range -/
theorem lloydLoop_total {A : Csr} (hW : WF A) (hs : SymPat A) {c : Array Nat} (hc : Centres A c)
    (maxiter : Nat) (h1 : 1 ≤ maxiter) (m : Array Int) :
    ∃ cl ce, lloydLoop A maxiter c m = some (cl, ce) ∧ LloydSpec A c.size cl ce := by
  obtain ⟨f, rfl⟩ : ∃ f, maxiter = f + 1 := ⟨maxiter - 1, by omega⟩
  obtain ⟨c', m', ch, hit, hsp⟩ := iter_spec hW hs hc
  simp only [lloydLoop, hit]
  cases ch with
  | false => exact ⟨m', c', by simp, hsp⟩
  | true =>
    have hc' := centres_of_spec hc.pos hsp
    have hsz : c'.size = c.size := hsp.size_ce
    obtain ⟨cl, ce, h1, h2⟩ := lloydLoop_spec hW hs f c' m' hc' (by rw [hsz]; exact hsp)
    exact ⟨cl, ce, by simpa using h1, by rw [← hsz]; exact h2⟩

/-! ### `lloyd_cluster` with its argument checks -/

theorem rdN_map_toNat (c : Array Int) (a : Nat) (ha : a < c.size) :
    rdN (c.map Int.toNat) a = (rdI c a).toNat := by
  simp [rdN, rdI, Array.getD_eq_getD_getElem?, ha]

theorem accepts_iff {A : Csr} {c : Array Int} (h : accepts A c = true) :
    (∀ jj, 0 ≤ rdQ A.ax jj) ∧ 0 < c.size ∧ ∀ a, a < c.size → 0 ≤ rdI c a ∧ rdI c a < (A.n : Int) := by
  simp only [accepts, Bool.and_eq_true, decide_eq_true_eq, List.all_eq_true, Array.mem_toList_iff] at h
  obtain ⟨⟨h1, h2⟩, h3⟩ := h
  refine ⟨?_, h2, ?_⟩
  · intro jj
    by_cases hjj : jj < A.ax.size
    · have := h1 A.ax[jj] (Array.getElem_mem hjj)
      simpa [rdQ, Array.getD_eq_getD_getElem?, hjj] using this
    · simp [rdQ, Array.getD_eq_getD_getElem?, hjj]
  · intro a ha
    have := h3 c[a] (Array.getElem_mem ha)
    simpa [rdI, Array.getD_eq_getD_getElem?, ha] using this

theorem centres_of_accepts {A : Csr} {c : Array Int} (h : accepts A c = true)
    (hinj : ∀ a b, a < c.size → b < c.size → rdI c a = rdI c b → a = b) :
    Centres A (c.map Int.toNat) := by
  obtain ⟨_, hpos, hr⟩ := accepts_iff h
  refine ⟨by simpa using hpos, ?_, ?_⟩
  · intro a ha
    have ha' : a < c.size := by simpa using ha
    rw [rdN_map_toNat c a ha']
    have := hr a ha'; omega
  · intro a b ha hb hab
    have ha' : a < c.size := by simpa using ha
    have hb' : b < c.size := by simpa using hb
    rw [rdN_map_toNat c a ha', rdN_map_toNat c b hb'] at hab
    have h1 := hr a ha'
    have h2 := hr b hb'
    exact hinj a b ha' hb' (by omega)

/-- **Lloyd clustering, total**: for a symmetric pattern with in-range column indices, an input
that passes the `ValueError` checks of `lloyd_cluster` (non-negative weights, at least one centre,
centres in `0..n-1`) with distinct centres, and `maxiter >= 1`, the model terminates and returns
`(clusters, centers)` with: ids `-1` or `0..k-1`; `clusters[centers[a]] = a` for every `a` (no
cluster is empty, every root lies in the cluster it names, roots distinct); a node is assigned iff
some returned centre reaches it; every assigned node is connected to its own centre. -/
theorem lloydCluster_spec {A : Csr}
    (hcol : ∀ i, i < A.n → ∀ jj ∈ A.jjs i, rdN A.aj jj < A.n) (hs : SymPat A) {c : Array Int}
    (hacc : accepts A c = true)
    (hinj : ∀ a b, a < c.size → b < c.size → rdI c a = rdI c b → a = b)
    (maxiter : Nat) (h1 : 1 ≤ maxiter) :
    ∃ cl ce, lloydCluster A c maxiter = .ok (some (cl, ce)) ∧ LloydSpec A c.size cl ce := by
  have hW : WF A := ⟨hcol, fun _ _ jj _ => (accepts_iff hacc).1 jj⟩
  have hc := centres_of_accepts hacc hinj
  obtain ⟨cl, ce, h2, h3⟩ := lloydLoop_total hW hs hc maxiter h1 (initState A.n (c.map Int.toNat)).2.1
  refine ⟨cl, ce, ?_, by simpa using h3⟩
  unfold lloydCluster
  rw [if_pos hacc]
  simp only [h2]

/-- **the final Bellman–Ford pass** (no symmetry, centres may repeat): started from the state
`lloyd_cluster` builds for the centres `c`, the kernel model terminates; a node gets a cluster id
`>= 0` iff some centre reaches it, its distance is the length of a shortest walk from any centre and
is realised from the centre of its own cluster; distinct centres lie in their own clusters. -/
theorem lloyd_pass_spec {A : Csr}
    (hcol : ∀ i, i < A.n → ∀ jj ∈ A.jjs i, rdN A.aj jj < A.n) {c : Array Int}
    (hacc : accepts A c = true) :
    ∃ d m p, bellmanFord A (initState A.n (c.map Int.toNat)).1 (initState A.n (c.map Int.toNat)).2.1
        (initState A.n (c.map Int.toNat)).2.2 = (d, m, p, true) ∧
      PassOut A (c.map Int.toNat) d m p := by
  have hW : WF A := ⟨hcol, fun _ _ jj _ => (accepts_iff hacc).1 jj⟩
  obtain ⟨_, hpos, hr⟩ := accepts_iff hacc
  refine mainPass_spec hW (by simpa using hpos) ?_
  intro a ha
  have ha' : a < c.size := by simpa using ha
  rw [rdN_map_toNat c a ha']
  have := hr a ha'; omega

end PyamgV.ExtLloyd
